(* take_until preserves [spec]. *)
From Coq Require Import ZArith List Bool Arith Lia.
From V Require Import Calc.StreamDefs Calc.StreamSpec Calc.StreamInv Calc.StreamInvSrc Calc.StreamInvTr.
Import ListNotations.
Import SCalc.

Definition ms_tu (tid : nat) (ms : sst -> nat -> monst) : sst -> nat -> monst :=
  fun st id => match st with
               | Node _ _ (BUn (KTU u) si) => if Nat.eqb id tid then ms_of_src (tu_trig u) else ms si id
               | _ => m0 end.

(* ---- the abstract state of the trigger ------------------------------------------------------------------ *)
Inductive tcl := T0 | TB | TD | TC | TF.
Definition tis (c : tcl) (s : srcst) : Prop :=
  match c with
  | T0 => s_n s = 0 /\ s_out s = false /\ s_cl s = 0
  | TB => s_n s = 1 /\ s_out s = true /\ s_cl s = 0
  | TD => s_n s = 1 /\ s_out s = false /\ s_cl s = 0
  | TC => s_n s = 1 /\ s_out s = false /\ s_cl s = 1
  | TF => s_n s = 1 /\ s_out s = false /\ s_cl s = 2
  end.

(* before cleanup, trigger started: it is still running (cleanupReady_ not set) or it completed (then stop was
   requested and, unless the rest of trigger_next_done is still pending, cleanupReady_ is set) *)
Definition tu_mid (u : tust) : Prop :=
  (tis TB (tu_trig u) /\ tu_ready u = false) \/
  (tis TD (tu_trig u) /\ tu_own u = true /\ tu_ready u = true).
Definition d01 (u : tust) : Prop := tu_defer u = 0 \/ (tu_defer u = 1 /\ tu_own u = true).
(* during cleanup, trigger cleanup not yet completed *)
Definition tu_tnf (u : tust) : Prop :=
  (tis TB (tu_trig u) /\ d01 u) \/
  (tis TD (tu_trig u) /\ tu_defer u = 2 /\ tu_own u = true) \/
  (tis TC (tu_trig u) /\ d01 u).

Definition tu_cpl (O N : pmode) (u : tust) : Prop :=
  match O with
  | PFresh => N = PFresh /\ tu_out u = false /\ tu_own u = false /\ tu_tstarted u = false /\ tu_ready u = false /\
              tu_completed u = false /\ tu_defer u = 0 /\ tis T0 (tu_trig u)
  | PIdle => N = PIdle /\ tu_out u = false /\ tu_tstarted u = true /\ tu_completed u = false /\ tu_defer u = 0 /\ tu_mid u
  | PBusy => N = PBusy /\ tu_out u = true /\ tu_tstarted u = true /\ tu_completed u = false /\ tu_defer u = 0 /\ tu_mid u
  | PEnded => N = PEnded /\ tu_out u = false /\ tu_tstarted u = true /\ tu_completed u = false /\
              ((d01 u /\ tu_mid u) \/
               (tu_defer u = 2 /\ tu_own u = true /\ tu_ready u = false /\ tis TD (tu_trig u)))
  | PCleaning => tu_out u = false /\ tu_ready u = true /\
                 ((N = PCleaning /\ tu_completed u = false /\ tu_tnf u) \/
                  (N = PCleaned /\ tu_completed u = true /\ tu_tnf u) \/
                  (N = PCleaning /\ tu_completed u = true /\ tis TF (tu_trig u) /\ d01 u))
  | PCleaned => N = PCleaned /\ tu_out u = false /\ tu_ready u = true /\ tu_completed u = true /\
                tis TF (tu_trig u) /\ d01 u
  | PBad => False
  end.

Definition G_tu (G : sst -> Prop) (st : sst) : Prop :=
  match st with
  | Node h pm (BUn (KTU u) si) => h = hist_of si /\ G si /\ tu_cpl pm (pm_of si) u
  | _ => False
  end.

Lemma G_tu_hist : forall G st, G_tu G st ->
  exists u si, body_of st = BUn (KTU u) si /\ hist_of st = hist_of si /\ G si.
Proof.
  intros G [h pm bd] H. destruct bd; simpl in H; try tauto. destruct k; try tauto.
  exists s, inner. simpl. tauto.
Qed.

(* ---- what the child answers ------------------------------------------------------------------------------ *)
Section Child.
Variables (I : ops) (G : sst -> Prop) (ms : sst -> nat -> monst) (ids : list nat) (tid : nat).
Hypothesis S : spec I G ms ids.
Hypothesis Htid : ~ In tid ids.

(* the facts about a result r of a child entry point started in si *)
Definition cfacts (si : sst) (r : res) : Prop :=
  G (r_st r) /\ (forall id, mrun id (ms si id) (r_ev r) = Some (ms (r_st r) id)) /\
  (forall m, mrun tid m (r_ev r) = Some m) /\ only_ids (tid :: ids) (r_ev r) /\
  hist_of (r_st r) = hist_of si ++ kn (r_out r).

Lemma ok_cfacts : forall si r, ok G ms ids si r -> hist_of (r_st r) = hist_of si ++ kn (r_out r) -> cfacts si r.
Proof.
  intros si r (HG & Hm & Hi) Hh. repeat split; auto.
  - intros m. eapply mrun_other; eauto.
  - eapply only_ids_mono; [|eauto]. intros i Hin. right; auto.
Qed.

Lemma child_next : forall si en, G si -> pm_of si = PFresh \/ pm_of si = PIdle ->
  cfacts si (o_next I si en) /\
  ((r_out (o_next I si en) = None /\ pm_of (r_st (o_next I si en)) = PBusy) \/
   (exists o, r_out (o_next I si en) = Some (KN, o) /\
              pm_of (r_st (o_next I si en)) = if is_val o then PIdle else PEnded)).
Proof.
  intros si en HG Hl. pose proof (sp_next _ _ _ _ S si en HG Hl) as Hok.
  destruct (wl_next _ (sp_laws _ _ _ _ S) si en) as [Lh Lp].
  pose proof (sp_nobad _ _ _ _ S _ (proj1 Hok)) as Hnb. rewrite Lp in Hnb.
  split. apply ok_cfacts; auto.
  destruct (pm_next_nobad _ _ Hnb) as [_ [[E1 E2]|(o & E1 & E2)]]; rewrite Lp; [left|right; exists o]; auto.
Qed.

Lemma child_clean : forall si, G si -> pm_of si = PIdle \/ pm_of si = PEnded ->
  cfacts si (o_clean I si) /\
  ((r_out (o_clean I si) = None /\ pm_of (r_st (o_clean I si)) = PCleaning) \/
   (exists o, r_out (o_clean I si) = Some (KC, o) /\ pm_of (r_st (o_clean I si)) = PCleaned)).
Proof.
  intros si HG Hl. pose proof (sp_clean _ _ _ _ S si HG Hl) as Hok.
  destruct (wl_clean _ (sp_laws _ _ _ _ S) si) as [Lh Lp].
  pose proof (sp_nobad _ _ _ _ S _ (proj1 Hok)) as Hnb. rewrite Lp in Hnb.
  split. apply ok_cfacts; auto.
  destruct (pm_clean_nobad _ _ Hnb) as [_ [[E1 E2]|(o & E1 & E2)]]; rewrite Lp; [left|right; exists o]; auto.
Qed.

Definition other_res (si : sst) (r : res) : Prop :=
  (r_out r = None /\ pm_of (r_st r) = pm_of si) \/
  (exists o, r_out r = Some (KN, o) /\ pm_of si = PBusy /\ pm_of (r_st r) = if is_val o then PIdle else PEnded) \/
  (exists o, r_out r = Some (KC, o) /\ pm_of si = PCleaning /\ pm_of (r_st r) = PCleaned).

Lemma child_other : forall si r, ok G ms ids si r ->
  hist_of (r_st r) = hist_of si ++ kn (r_out r) -> pm_of (r_st r) = pm_other (pm_of si) (r_out r) ->
  cfacts si r /\ other_res si r.
Proof.
  intros si r Hok Lh Lp.
  pose proof (sp_nobad _ _ _ _ S _ (proj1 Hok)) as Hnb. rewrite Lp in Hnb.
  split. apply ok_cfacts; auto. unfold other_res. rewrite Lp.
  destruct (pm_other_nobad _ _ Hnb) as [[E1 E2]|[(o & E1 & E2 & E3)|(o & E1 & E2 & E3)]]; eauto 8.
Qed.

Lemma child_stop : forall si, G si ->
  cfacts si (o_stop I si) /\
  ((r_out (o_stop I si) = None /\ pm_of (r_st (o_stop I si)) = pm_of si) \/
   (r_out (o_stop I si) = Some (KN, ODone) /\ pm_of si = PBusy /\ pm_of (r_st (o_stop I si)) = PEnded)).
Proof.
  intros si HG. destruct (wl_stop _ (sp_laws _ _ _ _ S) si) as [Lh Lp].
  destruct (child_other si _ (sp_stop _ _ _ _ S si HG) Lh Lp) as [Hc Ho]. split; auto.
  destruct Ho as [?|[(o & E1 & E2 & E3)|(o & E1 & E2 & E3)]]; auto;
    destruct (sp_stop_done _ _ _ _ S si) as [E|E]; rewrite E in E1; inversion E1; subst. right. auto.
Qed.

Lemma child_leaf : forall si tg o, G si -> cfacts si (fst (o_leaf I si tg o)) /\ other_res si (fst (o_leaf I si tg o)).
Proof.
  intros si tg o HG. destruct (wl_leaf _ (sp_laws _ _ _ _ S) si tg o) as [Lh Lp].
  apply child_other; auto. apply (sp_leaf _ _ _ _ S); auto.
Qed.

Lemma child_flush : forall si, G si -> cfacts si (o_flush I si) /\ other_res si (o_flush I si).
Proof.
  intros si HG. destruct (wl_flush _ (sp_laws _ _ _ _ S) si) as [Lh Lp].
  apply child_other; auto. apply (sp_flush _ _ _ _ S); auto.
Qed.
End Child.

(* ---- event list helpers --------------------------------------------------------------------------------- *)
Lemma opdel_mrun : forall id m ow, mrun id m (opdel ow) = Some m.
Proof. intros. destruct ow; reflexivity. Qed.
Lemma opdel_ids : forall ids ow, only_ids ids (opdel ow).
Proof. intros ids ow t i Hin He. destruct ow; simpl in Hin; try tauto. destruct Hin as [<-|[]]. discriminate. Qed.
Lemma only_ids_cons : forall ids t l, (forall i, ev_id t = Some i -> In i ids) -> only_ids ids l -> only_ids ids (t :: l).
Proof. intros ids t l Ht Hl x i [<-|Hin] He; eauto. Qed.

(* ---- the entry points, one by one: the body function is evaluated on the concrete shapes the invariant
   allows (the child's result is an abstract record constrained by [cfacts]) ---------------------------- *)
Section Step.
Variables (vr : variant) (tid : nat) (treact : bool) (I : ops) (G : sst -> Prop) (ms : sst -> nat -> monst) (ids : list nat).
Hypothesis S : spec I G ms ids.
Hypothesis Htid : ~ In tid ids.

Lemma tu_fin : forall h pm pm' u si u' st' ev out fired,
  h = hist_of si -> hist_of st' = hist_of si ++ kn out -> G st' -> tu_cpl pm' (pm_of st') u' ->
  mrun tid (ms_of_src (tu_trig u)) ev = Some (ms_of_src (tu_trig u')) ->
  (forall id, Nat.eqb tid id = false -> mrun id (ms si id) ev = Some (ms st' id)) ->
  only_ids (tid :: ids) ev ->
  ok (G_tu G) (ms_tu tid ms) (tid :: ids) (Node h pm (BUn (KTU u) si)) (lift h pm' (bmk (tu_b u' st') ev out fired)).
Proof.
  intros. unfold ok, lift, tu_b. simpl. repeat split; auto; try congruence.
  intros id. destruct (Nat.eqb_spec id tid) as [->|Hne]; auto.
  apply H4. apply Nat.eqb_neq. auto.
Qed.

Ltac ev_tu H := lazy -[app opdel o_next o_clean o_stop o_leaf o_flush o_owner] in H.
Ltac ev1_tu H := lazy -[tu_inner tu_inner_core app opdel o_next o_clean o_stop o_leaf o_flush o_owner] in H.
Ltac cpl_tac :=
  simpl; repeat match goal with Hp : pm_of ?s = _ |- context [pm_of ?s] => rewrite Hp end; simpl;
  unfold tu_tnf, tu_mid, d01, tis; simpl; intuition congruence.
Ltac mon_tid :=
  repeat first [rewrite mrun_app
               | match goal with H : forall m, mrun _ m ?ev = Some m |- _ => rewrite H end
               | rewrite opdel_mrun | rewrite Nat.eqb_refl | progress simpl]; reflexivity.
Ltac mon_oth :=
  let id := fresh "id" in let E := fresh "E" in intros id E;
  repeat first [rewrite mrun_app
               | match goal with H : forall i, mrun i (_ _ i) ?ev = Some _ |- _ => rewrite H end
               | rewrite opdel_mrun | rewrite E | progress simpl]; reflexivity.
Ltac ids_tac :=
  repeat first [apply only_ids_nil | assumption | apply opdel_ids | apply only_ids_app
               | apply only_ids_cons; [let i := fresh "i" in let E := fresh "E" in
                                       intros i E; simpl in E; inversion E; left; reflexivity|] ].
Ltac fin_tu rb :=
  subst rb; apply tu_fin;
  [auto | first [assumption | simpl; rewrite app_nil_r; reflexivity | auto] | auto
  |try solve [cpl_tac]|try solve [mon_tid]|try solve [mon_oth]|try solve [ids_tac]].
Ltac dinv Hc :=
  unfold tu_cpl, tu_tnf, tu_mid, d01, tis in Hc; simpl in Hc;
  repeat match goal with
  | H : False |- _ => destruct H
  | H : _ /\ _ |- _ => destruct H
  | H : _ \/ _ |- _ => destruct H
  | H : exists _, _ |- _ => destruct H
  end; subst.
(* the child's result becomes a concrete record *)
Ltac child_rec c :=
  remember c as r eqn:Er in *; clear Er; destruct r as [st' ev' out' fired']; simpl in * |-; subst out'.
Ltac split_stuck Erb :=
  repeat match type of Erb with
  | context [if ?b then _ else _] => is_var b; destruct b; ev_tu Erb
  | context [match ?o with OVal _ => _ | OErr _ => _ | ODone => _ end] => is_var o; destruct o; ev_tu Erb
  end.

Ltac next_case HC Erb rb :=
  ev1_tu Erb;
  match type of Erb with context [o_next ?I ?si ?e] =>
    let HCe := fresh "HCe" in let r := fresh "r" in
    pose proof (HC e) as HCe; set (r := o_next I si e) in Erb, HCe; clearbody r;
    let HG' := fresh "HG'" in let Hm := fresh "Hm" in let Hoth := fresh "Hoth" in let Hi := fresh "Hi" in
    let Hh' := fresh "Hh'" in let Hr := fresh "Hr" in let Hp := fresh "Hp" in let o := fresh "o" in
    destruct HCe as ((HG' & Hm & Hoth & Hi & Hh') & Hr);
    destruct r as [st' ev' out' fired']; simpl in Hm, Hoth, Hi, Hh', Hr, HG';
    destruct Hr as [[-> Hp]|(o & -> & Hp)]; [|destruct o]; ev_tu Erb; fin_tu rb
  end.

Lemma tu_ok_next : forall h pm u si en, G_tu G (Node h pm (BUn (KTU u) si)) -> pm = PFresh \/ pm = PIdle ->
  ok (G_tu G) (ms_tu tid ms) (tid :: ids) (Node h pm (BUn (KTU u) si))
     (o_next (wrap (tu_ops vr tid treact I)) (Node h pm (BUn (KTU u) si)) en).
Proof.
  intros h pm u si en (Hh & HG & Hc) Hl.
  change (o_next (wrap (tu_ops vr tid treact I)) (Node h pm (BUn (KTU u) si)) en)
    with (lift h (pm_next pm (b_out (ro_next (tu_ops vr tid treact I) (BUn (KTU u) si) en)))
               (ro_next (tu_ops vr tid treact I) (BUn (KTU u) si) en)).
  remember (ro_next (tu_ops vr tid treact I) (BUn (KTU u) si) en) as rb eqn:Erb.
  destruct u as [out own [n so seen cl hh] ts rdy comp serr terr df]. destruct en as [est ear].
  destruct Hl; subst pm; simpl in Hc.
  - destruct Hc as (HN & ? & ? & ? & ? & ? & ? & ? & ? & ?). simpl in *. subst out own ts rdy comp df n so cl.
    pose proof (fun en' => child_next I G ms ids tid S Htid si en' HG (or_introl HN)) as HC.
    destruct est, ear, treact; next_case HC Erb rb.
  - destruct Hc as (HN & ? & ? & ? & ? & Hmid). simpl in *. subst out ts comp df.
    pose proof (fun en' => child_next I G ms ids tid S Htid si en' HG (or_intror HN)) as HC.
    destruct Hmid as [[(? & ? & ?) ?]|[(? & ? & ?) [? ?]]]; simpl in *; subst n so cl rdy.
    + destruct own, seen, est, ear, treact; next_case HC Erb rb.
    + subst own. destruct est, ear, treact; next_case HC Erb rb.
Qed.

Lemma tu_ok_clean : forall h pm u si, G_tu G (Node h pm (BUn (KTU u) si)) -> pm = PIdle \/ pm = PEnded ->
  ok (G_tu G) (ms_tu tid ms) (tid :: ids) (Node h pm (BUn (KTU u) si))
     (o_clean (wrap (tu_ops vr tid treact I)) (Node h pm (BUn (KTU u) si))).
Proof.
  intros h pm u si (Hh & HG & Hc) Hl.
  assert (HNl : pm_of si = PIdle \/ pm_of si = PEnded).
  { destruct Hl; subst pm; simpl in Hc; destruct Hc as [HN _]; auto. }
  destruct (child_clean I G ms ids tid S Htid si HG HNl) as ((HG' & Hm & Hoth & Hi & Hh') & Hr).
  destruct u as [out own [n so seen cl hh] ts rdy comp serr terr df]. clear HNl.
  destruct Hl; subst pm; dinv Hc;
  change (o_clean (wrap (tu_ops vr tid treact I)) (Node (hist_of si) ?pm (BUn (KTU ?u) si)))
    with (lift (hist_of si) (pm_clean pm (b_out (ro_clean (tu_ops vr tid treact I) (BUn (KTU u) si))))
               (ro_clean (tu_ops vr tid treact I) (BUn (KTU u) si)));
  remember (ro_clean (tu_ops vr tid treact I) (BUn (KTU _) si)) as rb eqn:Erb.
  all: ev1_tu Erb; child_rec (o_clean I si).
  all: try match goal with x : outcome |- _ => destruct x end; destruct treact; try destruct seen; try destruct own;
       ev_tu Erb; fin_tu rb.
Qed.

Lemma tu_ok_stop : forall h pm u si, G_tu G (Node h pm (BUn (KTU u) si)) ->
  ok (G_tu G) (ms_tu tid ms) (tid :: ids) (Node h pm (BUn (KTU u) si))
     (o_stop (wrap (tu_ops vr tid treact I)) (Node h pm (BUn (KTU u) si))).
Proof.
  intros h pm u si (Hh & HG & Hc).
  destruct u as [out own [n so seen cl hh] ts rdy comp serr terr df].
  destruct pm.
  3: { (* PBusy *)
    destruct (child_stop I G ms ids tid S Htid si HG) as ((HG' & Hm & Hoth & Hi & Hh') & Hr).
    dinv Hc; try destruct own;
    change (o_stop (wrap (tu_ops vr tid treact I)) (Node (hist_of si) ?pm (BUn (KTU ?u) si)))
      with (lift (hist_of si) (pm_other pm (b_out (ro_stop (tu_ops vr tid treact I) (BUn (KTU u) si))))
               (ro_stop (tu_ops vr tid treact I) (BUn (KTU u) si)));
    remember (ro_stop (tu_ops vr tid treact I) (BUn (KTU _) si)) as rb eqn:Erb;
    ev1_tu Erb; try child_rec (o_stop I si); destruct treact; try destruct seen;
    ev_tu Erb; fin_tu rb. }
  all: dinv Hc;
    change (o_stop (wrap (tu_ops vr tid treact I)) (Node (hist_of si) ?pm (BUn (KTU ?u) si)))
      with (lift (hist_of si) (pm_other pm (b_out (ro_stop (tu_ops vr tid treact I) (BUn (KTU u) si))))
               (ro_stop (tu_ops vr tid treact I) (BUn (KTU u) si)));
    remember (ro_stop (tu_ops vr tid treact I) (BUn (KTU _) si)) as rb eqn:Erb;
    ev_tu Erb; fin_tu rb.
Qed.

Lemma tu_ok_flush : forall h pm u si, G_tu G (Node h pm (BUn (KTU u) si)) ->
  ok (G_tu G) (ms_tu tid ms) (tid :: ids) (Node h pm (BUn (KTU u) si))
     (o_flush (wrap (tu_ops vr tid treact I)) (Node h pm (BUn (KTU u) si))).
Proof.
  intros h pm u si (Hh & HG & Hc).
  destruct u as [out own [n so seen cl hh] ts rdy comp serr terr df].
  destruct (child_flush I G ms ids tid S Htid si HG) as ((HG' & Hm & Hoth & Hi & Hh') & Hr).
  unfold other_res in Hr.
  destruct pm; dinv Hc; try congruence;
    change (o_flush (wrap (tu_ops vr tid treact I)) (Node (hist_of si) ?pm (BUn (KTU ?u) si)))
      with (lift (hist_of si) (pm_other pm (b_out (ro_flush (tu_ops vr tid treact I) (BUn (KTU u) si))))
               (ro_flush (tu_ops vr tid treact I) (BUn (KTU u) si)));
    remember (ro_flush (tu_ops vr tid treact I) (BUn (KTU _) si)) as rb eqn:Erb.
  all: ev1_tu Erb; child_rec (o_flush I si); ev_tu Erb; split_stuck Erb; fin_tu rb.
Qed.

Lemma wrap_leaf_fst : forall J h pm b tg o,
  fst (o_leaf (wrap J) (Node h pm b) tg o) =
  lift h (pm_other pm (b_out (fst (ro_leaf J b tg o)))) (fst (ro_leaf J b tg o)).
Proof. intros. simpl. destruct (ro_leaf J b tg o). reflexivity. Qed.

Ltac leaf_child_tac si tg o HG Hc E :=
  destruct (child_leaf I G ms ids tid S Htid si tg o HG) as ((HG' & Hm & Hoth & Hi & Hh') & Hr);
  unfold other_res in Hr;
  dinv Hc; try congruence;
  let t := match goal with |- context [fst (ro_leaf ?J ?b ?tg' ?o')] => constr:(fst (ro_leaf J b tg' o')) end in
  remember t as rb eqn:Erb;
  simpl in Erb; rewrite E in Erb;
  remember (o_leaf I si tg o) as rh eqn:Erh in *; clear Erh; destruct rh as [r hit]; simpl in * |-;
  destruct r as [st' ev' out' fired']; simpl in * |-; subst out';
  ev_tu Erb; split_stuck Erb; fin_tu rb.

Lemma tu_ok_leaf_child : forall h pm u si tg o, G_tu G (Node h pm (BUn (KTU u) si)) ->
  (match tg with TgNext i | TgClean i => Nat.eqb i tid end) = false ->
  ok (G_tu G) (ms_tu tid ms) (tid :: ids) (Node h pm (BUn (KTU u) si))
     (fst (o_leaf (wrap (tu_ops vr tid treact I)) (Node h pm (BUn (KTU u) si)) tg o)).
Proof.
  intros h pm u si tg o (Hh & HG & Hc) E. rewrite wrap_leaf_fst.
  destruct u as [out own [n so seen cl hh] ts rdy comp serr terr df].
  destruct tg as [i|i]; destruct pm.
  all: try leaf_child_tac si (TgNext i) o HG Hc E.
  all: leaf_child_tac si (TgClean i) o HG Hc E.
Qed.

Ltac maybe_stop Erb si HG :=
  match type of Erb with
  | context [o_stop I si] =>
      let Hr := fresh "Hr" in
      destruct (child_stop I G ms ids tid S Htid si HG) as ((HG' & Hm & Hoth & Hi & Hh') & Hr);
      destruct Hr as [[? ?]|[? [? ?]]]; child_rec (o_stop I si)
  | _ => idtac
  end.

Lemma tu_ok_leaf_tnext : forall h pm u si o, G_tu G (Node h pm (BUn (KTU u) si)) ->
  ok (G_tu G) (ms_tu tid ms) (tid :: ids) (Node h pm (BUn (KTU u) si))
     (fst (o_leaf (wrap (tu_ops vr tid treact I)) (Node h pm (BUn (KTU u) si)) (TgNext tid) o)).
Proof.
  intros h pm u si o (Hh & HG & Hc). rewrite wrap_leaf_fst.
  destruct u as [out own [n so seen cl hh] ts rdy comp serr terr df].
  destruct pm; dinv Hc;
  (let t := match goal with |- context [fst (ro_leaf ?J ?b ?tg' ?o')] => constr:(fst (ro_leaf J b tg' o')) end in
   remember t as rb eqn:Erb); simpl in Erb; rewrite Nat.eqb_refl in Erb;
  ev1_tu Erb; split_stuck Erb; maybe_stop Erb si HG; try congruence; ev_tu Erb; split_stuck Erb; fin_tu rb.
Qed.

Lemma tu_ok_leaf_tclean : forall h pm u si o, G_tu G (Node h pm (BUn (KTU u) si)) ->
  ok (G_tu G) (ms_tu tid ms) (tid :: ids) (Node h pm (BUn (KTU u) si))
     (fst (o_leaf (wrap (tu_ops vr tid treact I)) (Node h pm (BUn (KTU u) si)) (TgClean tid) o)).
Proof.
  destruct vr as [vtu vsi vsierr vte].
  intros h pm u si o (Hh & HG & Hc). rewrite wrap_leaf_fst.
  destruct u as [out own [n so seen cl hh] ts rdy comp serr terr df].
  destruct pm; dinv Hc;
  (let t := match goal with |- context [fst (ro_leaf ?J ?b ?tg' ?o')] => constr:(fst (ro_leaf J b tg' o')) end in
   remember t as rb eqn:Erb); simpl in Erb; rewrite Nat.eqb_refl in Erb;
  ev_tu Erb; split_stuck Erb; fin_tu rb.
Qed.

Lemma tu_inner_shape : forall u r, exists u',
  b_st (tu_inner I tid treact u r) = BUn (KTU u') (r_st r) /\
  (forall v, b_out (tu_inner I tid treact u r) = Some (KN, OVal v) -> r_out r = Some (KN, OVal v)).
Proof.
  intros u r. unfold tu_inner, tu_inner_core. destruct (r_out r) as [[[] o]|]; simpl.
  - destruct o; simpl; try destruct (tu_stop_trig tid treact (tu_set_out u false)); simpl;
      eexists; (split; [reflexivity|]); intros; congruence.
  - destruct (tu_join_source u (clean_outcome o)) as [u1 jo]. simpl. eexists; split; [reflexivity|].
    intros v. destruct jo; simpl; congruence.
  - eexists; split; [reflexivity|]. congruence.
Qed.

Lemma tu_next_shape : forall u si en, exists u2 evs,
  ro_next (tu_ops vr tid treact I) (BUn (KTU u) si) en =
  bmk (b_st (tu_inner I tid treact u2 (o_next I si (env_own (tu_own u2)))))
      (evs ++ b_ev (tu_inner I tid treact u2 (o_next I si (env_own (tu_own u2)))))
      (b_out (tu_inner I tid treact u2 (o_next I si (env_own (tu_own u2))))) (fires en).
Proof.
  intros u si en. simpl.
  match goal with |- context [let '(u1, ev1) := ?x in _] => destruct x as [u1 ev1] end.
  match goal with |- context [let '(u2, ev2) := ?x in _] => destruct x as [u2 ev2] end.
  exists u2, (ev1 ++ ev2). rewrite app_assoc. reflexivity.
Qed.

Lemma tu_spec_ : spec (wrap (tu_ops vr tid treact I)) (G_tu G) (ms_tu tid ms) (tid :: ids).
Proof.
  pose proof (sp_laws _ _ _ _ S) as L. constructor.
  - apply wrap_wlaws.
  - intros [h pm bd] H. destruct bd; simpl in H; try tauto. destruct k; try tauto.
    destruct H as (_ & _ & Hc). simpl. intros ->. exact Hc.
  - simpl. destruct (wl_init _ L) as [Hh Hp]. rewrite Hh, Hp. repeat split; auto; apply (sp_init _ _ _ _ S).
  - intros id. simpl. destruct (Nat.eqb id tid); [reflexivity|apply (sp_ms_init _ _ _ _ S)].
  - intros [h pm bd] id Hn. simpl. destruct bd; auto. destruct k; auto.
    destruct (Nat.eqb_spec id tid) as [->|Hne]. { exfalso. apply Hn. left; auto. }
    apply (sp_ms_ids _ _ _ _ S). intros Hin. apply Hn. right; auto.
  - intros [h pm bd] en H Hl. destruct bd; simpl in H; try tauto. destruct k; try tauto. apply tu_ok_next; auto.
  - intros [h pm bd] H Hl. destruct bd; simpl in H; try tauto. destruct k; try tauto. apply tu_ok_clean; auto.
  - intros [h pm bd] H. destruct bd; simpl in H; try tauto. destruct k; try tauto. apply tu_ok_stop; auto.
  - intros [h pm bd] tg o H. destruct bd; simpl in H; try tauto. destruct k; try tauto.
    destruct tg as [i|i]; destruct (Nat.eqb_spec i tid) as [->|Hne].
    + apply tu_ok_leaf_tnext; auto.
    + apply tu_ok_leaf_child; auto. apply Nat.eqb_neq; auto.
    + apply tu_ok_leaf_tclean; auto.
    + apply tu_ok_leaf_child; auto. apply Nat.eqb_neq; auto.
  - intros [h pm bd] H. destruct bd; simpl in H; try tauto. destruct k; try tauto. apply tu_ok_flush; auto.
  - intros [h pm bd] H. destruct bd; simpl in H; try tauto; destruct k; try tauto; simpl; auto.
  - (* stop_done *)
    intros [h pm bd]. simpl. destruct bd; simpl; auto. destruct k; simpl; auto.
    destruct (tu_out s && negb (tu_own s)); simpl; auto.
    unfold tu_inner, tu_inner_core.
    destruct (sp_stop_done _ _ _ _ S inner) as [E|E]; rewrite E; simpl.
    + destruct (tu_trig_cb tid treact (tu_set_own s true)); simpl; auto.
    + auto.
  - (* budget *)
    intros [h pm bd] en v. destruct bd; try (simpl; congruence). destruct k; try (simpl; congruence).
    unfold wrap, o_next, o_budget.
    destruct (tu_next_shape s inner en) as (u2 & evs & E). rewrite E. unfold lift. simpl.
    destruct (tu_inner_shape u2 (o_next I inner (env_own (tu_own u2)))) as (u' & Es & Eo). rewrite Es.
    intros Ho. apply Eo in Ho. simpl. eapply (sp_blaw _ _ _ _ S); eauto.
  - (* quiet *)
    intros [h pm bd] H Hq id. destruct bd; simpl in H; try tauto. destruct k; try tauto.
    destruct H as (Hh & HG & Hc). simpl in Hq. simpl.
    destruct (Nat.eqb id tid).
    + destruct s as [out own [n so seen cl hh] ts rdy comp serr terr df].
      destruct Hq; subst pm; dinv Hc; unfold mquiet; simpl; auto.
    + apply (sp_quiet _ _ _ _ S); auto. destruct Hq; subst pm; simpl in Hc; tauto.
Qed.
End Step.

Lemma tu_spec : forall vr tid treact I G ms ids, spec I G ms ids -> ~ In tid ids ->
  spec (wrap (tu_ops vr tid treact I)) (G_tu G) (ms_tu tid ms) (tid :: ids).
Proof. intros. apply tu_spec_; auto. Qed.
