(* take_until preserves [spec]. *)
From Coq Require Import ZArith List Bool Arith Lia.
From V Require Import Calc.StreamDefs Calc.StreamSpec Calc.StreamInv Calc.StreamInvSrc Calc.StreamInvTr.
Import ListNotations.
Import SCalc.

Definition ms_tu (tid : nat) (ms : sst -> nat -> monst) : sst -> nat -> monst :=
  fun st id => match st with
               | Node _ _ (BUn (KTU u) si) => if Nat.eqb id tid then ms_of_src (tu_trig u) else ms si id
               | _ => m0 end.

(* ---- the abstract state of the trigger ------------------------------------------------------------------ *)
Inductive tcl := T0 | TB | TD | TC | TF.
Definition tis (c : tcl) (s : srcst) : Prop :=
  match c with
  | T0 => s_n s = 0 /\ s_out s = false /\ s_cl s = 0
  | TB => s_n s = 1 /\ s_out s = true /\ s_cl s = 0
  | TD => s_n s = 1 /\ s_out s = false /\ s_cl s = 0
  | TC => s_n s = 1 /\ s_out s = false /\ s_cl s = 1
  | TF => s_n s = 1 /\ s_out s = false /\ s_cl s = 2
  end.

(* before cleanup, trigger started: it is still running (cleanupReady_ not set) or it completed (then stop was
   requested and, unless the rest of trigger_next_done is still pending, cleanupReady_ is set) *)
Definition tu_mid (u : tust) : Prop :=
  (tis TB (tu_trig u) /\ tu_ready u = false) \/
  (tis TD (tu_trig u) /\ tu_own u = true /\ tu_ready u = true).
Definition d01 (u : tust) : Prop := tu_defer u = 0 \/ (tu_defer u = 1 /\ tu_own u = true).
(* during cleanup, trigger cleanup not yet completed *)
Definition tu_tnf (u : tust) : Prop :=
  (tis TB (tu_trig u) /\ d01 u) \/
  (tis TD (tu_trig u) /\ tu_defer u = 2 /\ tu_own u = true) \/
  (tis TC (tu_trig u) /\ d01 u).

Definition tu_cpl (O N : pmode) (u : tust) : Prop :=
  match O with
  | PFresh => N = PFresh /\ tu_out u = false /\ tu_own u = false /\ tu_tstarted u = false /\ tu_ready u = false /\
              tu_completed u = false /\ tu_defer u = 0 /\ tis T0 (tu_trig u)
  | PIdle => N = PIdle /\ tu_out u = false /\ tu_tstarted u = true /\ tu_completed u = false /\ tu_defer u = 0 /\ tu_mid u
  | PBusy => N = PBusy /\ tu_out u = true /\ tu_tstarted u = true /\ tu_completed u = false /\ tu_defer u = 0 /\ tu_mid u
  | PEnded => N = PEnded /\ tu_out u = false /\ tu_tstarted u = true /\ tu_completed u = false /\
              ((d01 u /\ tu_mid u) \/
               (tu_defer u = 2 /\ tu_own u = true /\ tu_ready u = false /\ tis TD (tu_trig u)))
  | PCleaning => tu_out u = false /\ tu_ready u = true /\
                 ((N = PCleaning /\ tu_completed u = false /\ tu_tnf u) \/
                  (N = PCleaned /\ tu_completed u = true /\ tu_tnf u) \/
                  (N = PCleaning /\ tu_completed u = true /\ tis TF (tu_trig u) /\ d01 u))
  | PCleaned => N = PCleaned /\ tu_out u = false /\ tu_ready u = true /\ tu_completed u = true /\
                tis TF (tu_trig u) /\ d01 u
  | PBad => False
  end.

Definition G_tu (G : sst -> Prop) (st : sst) : Prop :=
  match st with
  | Node h pm (BUn (KTU u) si) => h = hist_of si /\ G si /\ tu_cpl pm (pm_of si) u
  | _ => False
  end.

Lemma G_tu_hist : forall G st, G_tu G st ->
  exists u si, body_of st = BUn (KTU u) si /\ hist_of st = hist_of si /\ G si.
Proof.
  intros G [h pm bd] H. destruct bd; simpl in H; try tauto. destruct k; try tauto.
  exists s, inner. simpl. tauto.
Qed.

(* ---- what the child answers ------------------------------------------------------------------------------ *)
Section Child.
Variables (I : ops) (G : sst -> Prop) (ms : sst -> nat -> monst) (ids : list nat) (tid : nat).
Hypothesis S : spec I G ms ids.
Hypothesis Htid : ~ In tid ids.

(* the facts about a result r of a child entry point started in si *)
Definition cfacts (si : sst) (r : res) : Prop :=
  G (r_st r) /\ (forall id, mrun id (ms si id) (r_ev r) = Some (ms (r_st r) id)) /\
  (forall m, mrun tid m (r_ev r) = Some m) /\ only_ids (tid :: ids) (r_ev r) /\
  hist_of (r_st r) = hist_of si ++ kn (r_out r).

Lemma ok_cfacts : forall si r, ok G ms ids si r -> hist_of (r_st r) = hist_of si ++ kn (r_out r) -> cfacts si r.
Proof.
  intros si r (HG & Hm & Hi) Hh. repeat split; auto.
  - intros m. eapply mrun_other; eauto.
  - eapply only_ids_mono; [|eauto]. intros i Hin. right; auto.
Qed.

Lemma child_next : forall si en, G si -> pm_of si = PFresh \/ pm_of si = PIdle ->
  cfacts si (o_next I si en) /\
  ((r_out (o_next I si en) = None /\ pm_of (r_st (o_next I si en)) = PBusy) \/
   (exists o, r_out (o_next I si en) = Some (KN, o) /\
              pm_of (r_st (o_next I si en)) = if is_val o then PIdle else PEnded)).
Proof.
  intros si en HG Hl. pose proof (sp_next _ _ _ _ S si en HG Hl) as Hok.
  destruct (wl_next _ (sp_laws _ _ _ _ S) si en) as [Lh Lp].
  pose proof (sp_nobad _ _ _ _ S _ (proj1 Hok)) as Hnb. rewrite Lp in Hnb.
  split. apply ok_cfacts; auto.
  destruct (pm_next_nobad _ _ Hnb) as [_ [[E1 E2]|(o & E1 & E2)]]; rewrite Lp; [left|right; exists o]; auto.
Qed.

Lemma child_clean : forall si, G si -> pm_of si = PIdle \/ pm_of si = PEnded ->
  cfacts si (o_clean I si) /\
  ((r_out (o_clean I si) = None /\ pm_of (r_st (o_clean I si)) = PCleaning) \/
   (exists o, r_out (o_clean I si) = Some (KC, o) /\ pm_of (r_st (o_clean I si)) = PCleaned)).
Proof.
  intros si HG Hl. pose proof (sp_clean _ _ _ _ S si HG Hl) as Hok.
  destruct (wl_clean _ (sp_laws _ _ _ _ S) si) as [Lh Lp].
  pose proof (sp_nobad _ _ _ _ S _ (proj1 Hok)) as Hnb. rewrite Lp in Hnb.
  split. apply ok_cfacts; auto.
  destruct (pm_clean_nobad _ _ Hnb) as [_ [[E1 E2]|(o & E1 & E2)]]; rewrite Lp; [left|right; exists o]; auto.
Qed.

Definition other_res (si : sst) (r : res) : Prop :=
  (r_out r = None /\ pm_of (r_st r) = pm_of si) \/
  (exists o, r_out r = Some (KN, o) /\ pm_of si = PBusy /\ pm_of (r_st r) = if is_val o then PIdle else PEnded) \/
  (exists o, r_out r = Some (KC, o) /\ pm_of si = PCleaning /\ pm_of (r_st r) = PCleaned).

Lemma child_other : forall si r, ok G ms ids si r ->
  hist_of (r_st r) = hist_of si ++ kn (r_out r) -> pm_of (r_st r) = pm_other (pm_of si) (r_out r) ->
  cfacts si r /\ other_res si r.
Proof.
  intros si r Hok Lh Lp.
  pose proof (sp_nobad _ _ _ _ S _ (proj1 Hok)) as Hnb. rewrite Lp in Hnb.
  split. apply ok_cfacts; auto. unfold other_res. rewrite Lp.
  destruct (pm_other_nobad _ _ Hnb) as [[E1 E2]|[(o & E1 & E2 & E3)|(o & E1 & E2 & E3)]]; eauto 8.
Qed.

Lemma child_stop : forall si, G si ->
  cfacts si (o_stop I si) /\
  ((r_out (o_stop I si) = None /\ pm_of (r_st (o_stop I si)) = pm_of si) \/
   (r_out (o_stop I si) = Some (KN, ODone) /\ pm_of si = PBusy /\ pm_of (r_st (o_stop I si)) = PEnded)).
Proof.
  intros si HG. destruct (wl_stop _ (sp_laws _ _ _ _ S) si) as [Lh Lp].
  destruct (child_other si _ (sp_stop _ _ _ _ S si HG) Lh Lp) as [Hc Ho]. split; auto.
  destruct Ho as [?|[(o & E1 & E2 & E3)|(o & E1 & E2 & E3)]]; auto;
    destruct (sp_stop_done _ _ _ _ S si) as [E|E]; rewrite E in E1; inversion E1; subst. right. auto.
Qed.

Lemma child_leaf : forall si tg o, G si -> cfacts si (fst (o_leaf I si tg o)) /\ other_res si (fst (o_leaf I si tg o)).
Proof.
  intros si tg o HG. destruct (wl_leaf _ (sp_laws _ _ _ _ S) si tg o) as [Lh Lp].
  apply child_other; auto. apply (sp_leaf _ _ _ _ S); auto.
Qed.

Lemma child_flush : forall si, G si -> cfacts si (o_flush I si) /\ other_res si (o_flush I si).
Proof.
  intros si HG. destruct (wl_flush _ (sp_laws _ _ _ _ S) si) as [Lh Lp].
  apply child_other; auto. apply (sp_flush _ _ _ _ S); auto.
Qed.
End Child.

(* ---- event list helpers --------------------------------------------------------------------------------- *)
Lemma opdel_mrun : forall id m ow, mrun id m (opdel ow) = Some m.
Proof. intros. destruct ow; reflexivity. Qed.
Lemma opdel_ids : forall ids ow, only_ids ids (opdel ow).
Proof. intros ids ow t i Hin He. destruct ow; simpl in Hin; try tauto. destruct Hin as [<-|[]]. discriminate. Qed.
Lemma only_ids_cons : forall ids t l, (forall i, ev_id t = Some i -> In i ids) -> only_ids ids l -> only_ids ids (t :: l).
Proof. intros ids t l Ht Hl x i [<-|Hin] He; eauto. Qed.
