(* C13 (sequential half): every pipeline satisfies [spec]; the theorems about all runs. *)
From Coq Require Import ZArith List Bool Arith Lia.
From V Require Import Calc.StreamDefs Calc.StreamSpec Calc.StreamInv Calc.StreamInvSrc Calc.StreamInvTr
  Calc.StreamInvAd Calc.StreamInvFi Calc.StreamInvTE Calc.StreamInvSI Calc.StreamInvTU Calc.StreamDen Calc.StreamTop.
Import ListNotations.
Import SCalc.
Local Open Scope Z_scope.

(* ---- the invariant of a pipeline's state, its monitors ----------------------------------------------- *)
Fixpoint Ginv (e : stexpr) : sst -> Prop :=
  match e with
  | SRange a b => G_range a b
  | SSingle v => G_single v
  | SSrc _ _ => G_src
  | SNever => G_never
  | STransform f s => G_tr f (Ginv s)
  | SFilter p s => G_fi p (Ginv s)
  | STakeUntil s _ _ => G_tu (Ginv s)
  | SStopImm s => G_si (Ginv s)
  | STypeErase s => G_te (Ginv s)
  | SNextAdapt a s => G_ad a (Ginv s)
  | SCleanupAdapt _ s => G_ad AId (Ginv s)
  | SAdapt1 a s => G_ad a (Ginv s)
  | SAdapt2 an _ s => G_ad an (Ginv s)
  end.

Fixpoint msf (e : stexpr) : sst -> nat -> monst :=
  match e with
  | SSrc id _ => ms_src id
  | STransform _ s | SFilter _ s | SStopImm s | STypeErase s => ms_un (msf s)
  | SNextAdapt _ s | SCleanupAdapt _ s | SAdapt1 _ s | SAdapt2 _ _ s => ms_un (msf s)
  | STakeUntil s tid _ => ms_tu tid (msf s)
  | _ => ms_none
  end.

Theorem ops_spec : forall vr e, wf_ids e -> spec (ops_of vr e) (Ginv e) (msf e) (ids_of e).
Proof.
  intros vr. induction e; intros W; simpl.
  - apply range_spec.
  - apply single_spec.
  - apply src_spec.
  - apply never_spec.
  - apply tr_spec. apply IHe. exact W.
  - apply fi_spec. apply IHe. exact W.
  - unfold wf_ids in W. simpl in W. inversion W; subst. apply tu_spec; auto.
  - apply si_spec. apply IHe. exact W.
  - apply te_spec. apply IHe. exact W.
  - apply ad_spec. apply IHe. exact W.
  - apply ad_spec. apply IHe. exact W.
  - apply ad_spec. apply IHe. exact W.
  - apply ad_spec. apply IHe. exact W.
Qed.

(* the values an adapted history carries *)
Lemma ad_vc : forall a hC, vc (map (ad_o a) hC) = adapt_elems a (vc hC).
Proof.
  intros a hC. destruct a; try (simpl; rewrite (map_ext _ (fun o => o)), map_id; [reflexivity|reflexivity]).
  apply tr_vc.
Qed.
Lemma adapt_elems_prefix : forall a l D, prefix l D -> prefix (adapt_elems a l) (adapt_elems a D).
Proof. intros a l D H. destruct a; simpl; auto. apply map_until_prefix; auto. Qed.
Lemma ad_has_term_id : forall a hC, (forall f, a <> AThen f) -> map (ad_o a) hC = hC.
Proof. intros a hC H. rewrite (map_ext _ (fun o => o)), map_id; auto. intros o. apply ad_o_id; auto. Qed.

Lemma G_ad_prefix : forall a G D st, G_ad a G st ->
  (forall si, G si -> prefix (vc (hist_of si)) (D si)) ->
  exists si, body_of st = BUn KAd si /\ prefix (vc (hist_of st)) (adapt_elems a (D si)).
Proof.
  intros a G D st H HD. destruct (G_ad_hist _ _ _ H) as (si & Eb & Eh & HG). exists si. split; auto.
  rewrite Eh, ad_vc. apply adapt_elems_prefix. auto.
Qed.

Lemma G_ad_exact : forall a G D st, G_ad a G st -> has_term (hist_of st) = true ->
  (forall si, G si -> prefix (vc (hist_of si)) (D si)) ->
  (forall si, G si -> has_term (hist_of si) = true -> vc (hist_of si) = D si) ->
  exists si, body_of st = BUn KAd si /\ vc (hist_of st) = adapt_elems a (D si).
Proof.
  intros a G D st H Ht HP HE. destruct (G_ad_hist _ _ _ H) as (si & Eb & Eh & HG). exists si. split; auto.
  rewrite Eh, ad_vc. rewrite Eh in Ht.
  destruct (has_term (hist_of si)) eqn:Et.
  - rewrite (HE si); auto.
  - destruct a; simpl;
      try (rewrite ad_has_term_id in Ht by (intros f0 Ef; discriminate Ef); congruence).
    apply tr_exact; auto.
Qed.

(* ---- histories and the denotation ------------------------------------------------------------------------ *)
Fixpoint bot_hist (st : sst) : list outcome :=
  match st with Node h _ b => match b with BUn _ si => bot_hist si | _ => h end end.

Lemma Ginv_prefix : forall e st, Ginv e st -> prefix (vc (hist_of st)) (sdenote e (fun _ => bot_hist st)).
Proof.
  induction e; intros st H; simpl in H.
  - destruct st as [h pm bd]; destruct bd; simpl in H; try tauto.
    destruct H as [_ (k & j & Hh & _ & Hk & _)]. subst h. unfold hist_of. rewrite vc_vals_dones. simpl. apply zrange_prefix; auto.
  - destruct st as [h pm bd]; destruct bd; simpl in H; try tauto.
    destruct H as [_ [[_ Hh]|[_ [j Hh]]]]; subst h; unfold hist_of. constructor.
    change (OVal v :: repeat ODone j) with (map OVal [v] ++ repeat ODone j). rewrite vc_vals_dones. apply prefix_refl.
  - destruct st as [h pm bd]; destruct bd; simpl in H; try tauto. simpl. apply prefix_refl.
  - destruct st as [h pm bd]; destruct bd; simpl in H; try tauto. destruct H as (_ & _ & Hf). simpl.
    assert (E : vc h = []) by (destruct Hf as [|x l Hx _]; simpl; auto; subst x; reflexivity). rewrite E. constructor.
  - destruct st as [h pm bd]; destruct bd; simpl in H; try tauto. destruct k; try tauto.
    destruct H as (_ & _ & Hh & HG). simpl. subst h. rewrite tr_vc. apply map_until_prefix. apply IHe; auto.
  - destruct st as [h pm bd]; destruct bd; simpl in H; try tauto. destruct k; try tauto.
    destruct H as (_ & _ & Hh & HG). simpl. subst h. rewrite fi_vc. apply filter_until_prefix. apply IHe; auto.
  - destruct (G_tu_hist _ _ H) as (u & si & Eb & Eh & HG). destruct st as [h pm bd]. simpl in *. subst bd h.
    simpl. apply IHe; auto.
  - destruct (G_si_hist _ _ H) as (s & si & Eb & HG & Hr & _). destruct st as [h pm bd]. simpl in *. subst bd.
    simpl. eapply prefix_trans; [|apply IHe; eauto].
    destruct Hr as [E|[_ Hp]]; [rewrite E; apply prefix_refl|auto].
  - destruct (G_te_hist _ _ H) as (t & si & Eb & Eh & HG). destruct st as [h pm bd]. simpl in *. subst bd h.
    simpl. apply IHe; auto.
  - destruct (G_ad_prefix a _ (fun si => sdenote e (fun _ => bot_hist si)) st H IHe) as (si & Eb & Hp).
    destruct st as [h pm bd]. simpl in *. subst bd. exact Hp.
  - destruct (G_ad_prefix AId _ (fun si => sdenote e (fun _ => bot_hist si)) st H IHe) as (si & Eb & Hp).
    destruct st as [h pm bd]. simpl in *. subst bd. exact Hp.
  - destruct (G_ad_prefix a _ (fun si => sdenote e (fun _ => bot_hist si)) st H IHe) as (si & Eb & Hp).
    destruct st as [h pm bd]. simpl in *. subst bd. exact Hp.
  - destruct (G_ad_prefix an _ (fun si => sdenote e (fun _ => bot_hist si)) st H IHe) as (si & Eb & Hp).
    destruct st as [h pm bd]. simpl in *. subst bd. exact Hp.
Qed.

(* without stop_immediately / never_stream nothing is ever dropped: once the stream has ended the
   delivered values are the whole denotation *)
Lemma Ginv_exact : forall e st, lossless e = true -> Ginv e st -> has_term (hist_of st) = true ->
  vc (hist_of st) = sdenote e (fun _ => bot_hist st).
Proof.
  induction e; intros st Hl H Ht; simpl in H, Hl; try discriminate.
  - destruct st as [h pm bd]; destruct bd; simpl in H; try tauto.
    destruct H as [_ (k & j & Hh & _ & Hk & Hj)]. simpl in *. subst h. rewrite vc_vals_dones.
    rewrite has_term_vals_dones in Ht. destruct j; simpl in Ht; try discriminate. rewrite Hj; auto. lia.
  - destruct st as [h pm bd]; destruct bd; simpl in H; try tauto.
    destruct H as [_ [[_ Hh]|[_ [j Hh]]]]; subst h; unfold hist_of in *; [simpl in Ht; discriminate|].
    change (OVal v :: repeat ODone j) with (map OVal [v] ++ repeat ODone j). rewrite vc_vals_dones. reflexivity.
  - destruct st as [h pm bd]; destruct bd; simpl in H; try tauto; try reflexivity.
  - destruct st as [h pm bd]; destruct bd; simpl in H; try tauto. destruct k; try tauto.
    destruct H as (_ & _ & Hh & HG). simpl in *. subst h. rewrite tr_vc.
    destruct (has_term (hist_of inner)) eqn:Et.
    + rewrite (IHe inner); auto.
    + apply tr_exact; auto. apply Ginv_prefix; auto.
  - destruct st as [h pm bd]; destruct bd; simpl in H; try tauto. destruct k; try tauto.
    destruct H as (_ & _ & Hh & HG). simpl in *. subst h. rewrite fi_vc.
    destruct (has_term (hist_of inner)) eqn:Et.
    + rewrite (IHe inner); auto.
    + apply fi_exact; auto. apply Ginv_prefix; auto.
  - destruct (G_tu_hist _ _ H) as (u & si & Eb & Eh & HG). destruct st as [h pm bd]. simpl in *. subst bd h.
    simpl. apply IHe; auto.
  - destruct (G_te_hist _ _ H) as (t & si & Eb & Eh & HG). destruct st as [h pm bd]. simpl in *. subst bd h.
    simpl. apply IHe; auto.
  - destruct (G_ad_exact a _ (fun si => sdenote e (fun _ => bot_hist si)) st H Ht (Ginv_prefix e) (fun si => IHe si Hl)) as (si & Eb & Hp).
    destruct st as [h pm bd]. simpl in *. subst bd. exact Hp.
  - destruct (G_ad_exact AId _ (fun si => sdenote e (fun _ => bot_hist si)) st H Ht (Ginv_prefix e) (fun si => IHe si Hl)) as (si & Eb & Hp).
    destruct st as [h pm bd]. simpl in *. subst bd. exact Hp.
  - destruct (G_ad_exact a _ (fun si => sdenote e (fun _ => bot_hist si)) st H Ht (Ginv_prefix e) (fun si => IHe si Hl)) as (si & Eb & Hp).
    destruct st as [h pm bd]. simpl in *. subst bd. exact Hp.
  - destruct (G_ad_exact an _ (fun si => sdenote e (fun _ => bot_hist si)) st H Ht (Ginv_prefix e) (fun si => IHe si Hl)) as (si & Eb & Hp).
    destruct st as [h pm bd]. simpl in *. subst bd. exact Hp.
Qed.

(* the bottom source's history is what the monitor collected from the trace *)
Fixpoint bottom_id (e : stexpr) : option nat :=
  match e with
  | SSrc id _ => Some id
  | STransform _ s | SFilter _ s | SStopImm s | STypeErase s | STakeUntil s _ _ => bottom_id s
  | SNextAdapt _ s | SCleanupAdapt _ s | SAdapt1 _ s | SAdapt2 _ _ s => bottom_id s
  | _ => None
  end.

Lemma bottom_in_ids : forall e id, bottom_id e = Some id -> In id (ids_of e).
Proof. induction e; simpl; intros; try discriminate; auto. inversion H; auto. Qed.

Lemma Ginv_bot : forall e st id, wf_ids e -> bottom_id e = Some id -> Ginv e st ->
  m_hist (msf e st id) = bot_hist st.
Proof.
  induction e; intros st i W Hb H; simpl in Hb, H; try discriminate.
  - inversion Hb; subst. destruct st as [h pm bd]; destruct bd; simpl in H; try tauto.
    destruct H as [_ Hh]. simpl. unfold ms_src. rewrite Nat.eqb_refl. simpl. auto.
  - destruct st as [h pm bd]; destruct bd; simpl in H; try tauto. destruct k; try tauto.
    destruct H as (_ & _ & _ & HG). simpl. apply IHe; auto.
  - destruct st as [h pm bd]; destruct bd; simpl in H; try tauto. destruct k; try tauto.
    destruct H as (_ & _ & _ & HG). simpl. apply IHe; auto.
  - destruct (G_tu_hist _ _ H) as (u & si & Eb & Eh & HG). destruct st as [h pm bd]. simpl in *. subst bd.
    unfold wf_ids in W. simpl in W. inversion W; subst.
    destruct (Nat.eqb_spec i tid) as [->|Hne].
    + exfalso. apply H2. apply bottom_in_ids; auto.
    + apply IHe; auto.
  - destruct (G_si_hist _ _ H) as (s & si & Eb & HG & _). destruct st as [h pm bd]. simpl in *. subst bd.
    simpl. apply IHe; auto.
  - destruct (G_te_hist _ _ H) as (t & si & Eb & Eh & HG). destruct st as [h pm bd]. simpl in *. subst bd.
    simpl. apply IHe; auto.
  - destruct (G_ad_hist _ _ _ H) as (si & Eb & _ & HG). destruct st as [h pm bd]. simpl in *. subst bd. apply IHe; auto.
  - destruct (G_ad_hist _ _ _ H) as (si & Eb & _ & HG). destruct st as [h pm bd]. simpl in *. subst bd. apply IHe; auto.
  - destruct (G_ad_hist _ _ _ H) as (si & Eb & _ & HG). destruct st as [h pm bd]. simpl in *. subst bd. apply IHe; auto.
  - destruct (G_ad_hist _ _ _ H) as (si & Eb & _ & HG). destruct st as [h pm bd]. simpl in *. subst bd. apply IHe; auto.
Qed.

Lemma sdenote_ext : forall e H H', (forall id, bottom_id e = Some id -> H id = H' id) -> sdenote e H = sdenote e H'.
Proof.
  induction e; intros H H' E; simpl in *; auto; try (f_equal; auto).
  all: try (rewrite E; auto).
Qed.

(* ---- all runs ------------------------------------------------------------------------------------------------ *)
Section AllRuns.
Variables (vr : variant) (c : cons) (e : stexpr) (pre : nat) (script : list sev).
Hypothesis W : wf_ids e.
Let rs := exec vr c e pre script.
Let tr := x_tr rs.
Let R : RI c (Ginv e) (msf e) (ids_of e) rs := exec_RI vr c e _ _ _ (ops_spec vr e W) pre script.

(* the trace's source histories are the ones in the final state *)
Lemma denote_trace : sdenote e (src_hist tr) = sdenote e (fun _ => bot_hist (x_st rs)).
Proof.
  apply sdenote_ext. intros id Hb. destruct R as ((HG & Hm & _) & _ & _).
  rewrite <- (Ginv_bot e (x_st rs) id W Hb HG).
  rewrite (mrun_hist _ _ _ _ (Hm id)). simpl. apply src_hist_tevs.
Qed.

(* the monitor accepts the events of every scripted source: next operations are numbered
   consecutively and never overlap; cleanup starts at most once, only after some next was started and
   never while one is outstanding; nothing of that source happens after its cleanup started *)
Theorem monitor_accepts : forall id, exists m, mrun id m0 (tevs tr) = Some m.
Proof. intros id. destruct R as ((_ & Hm & _) & _ & _). eauto. Qed.

Theorem feeds_prefix_denote : prefix (feeds tr) (sdenote e (src_hist tr)).
Proof.
  rewrite denote_trace. destruct R as ((HG & _ & _) & Hph & _).
  eapply prefix_trans; [|apply Ginv_prefix; eauto].
  unfold PH in Hph. destruct (x_ph rs).
  - destruct Hph as (_ & _ & E & _). fold tr in E. rewrite E. apply prefix_refl.
  - apply Hph.
  - destruct Hph as (_ & (a & o & b & F1 & _ & _ & F4 & _ & F6 & _)). fold tr in F1.
    rewrite F1, feeds_app. simpl. rewrite F4, app_nil_r. auto.
Qed.

Theorem root_at_most_once : (length (roots tr) <= 1)%nat /\ x_roots rs = length (roots tr).
Proof.
  destruct R as (_ & Hph & _). unfold PH in Hph. fold tr in Hph. destruct (x_ph rs).
  - destruct Hph as (E & En & _). rewrite E, En. simpl. auto.
  - destruct Hph as (E & En & _). rewrite E, En. simpl. auto.
  - destruct Hph as (En & (a & o & b & F1 & F2 & F3 & _)). rewrite F1, roots_app. simpl. rewrite F2, F3, En. simpl. auto.
Qed.

(* the root completes only after every cleanup finished, and nothing is fed to the consumer afterwards *)
Theorem result_after_cleanup : forall o, In o (roots tr) ->
  exists a b, tr = a ++ XRoot o :: b /\ roots a = [] /\ roots b = [] /\ feeds b = [] /\
    forall id, exists m, mrun id m0 (tevs a) = Some m /\ mquiet m.
Proof.
  intros o Hin. destruct R as (_ & Hph & _). unfold PH in Hph. fold tr in Hph. destruct (x_ph rs).
  - destruct Hph as (E & _). rewrite E in Hin. destruct Hin.
  - destruct Hph as (E & _). rewrite E in Hin. destruct Hin.
  - destruct Hph as (_ & (a & o' & b & F1 & F2 & F3 & F4 & F5 & _)).
    rewrite F1, roots_app in Hin. simpl in Hin. rewrite F2, F3 in Hin. simpl in Hin. destruct Hin as [<-|[]].
    exists a, b. auto.
Qed.

(* a value result is the fold over precisely the elements fed *)
Theorem root_value_is_fold : forall v, In (OVal v) (roots tr) -> fold_until c (cons_init c) (feeds tr) = inl v.
Proof.
  intros v Hin. destruct R as (_ & Hph & _). unfold PH in Hph. fold tr in Hph. destruct (x_ph rs).
  - destruct Hph as (E & _). rewrite E in Hin. destruct Hin.
  - destruct Hph as (E & _). rewrite E in Hin. destruct Hin.
  - destruct Hph as (_ & (a & o' & b & F1 & F2 & F3 & F4 & F5 & F6 & F7)).
    rewrite F1, roots_app in Hin. simpl in Hin. rewrite F2, F3 in Hin. simpl in Hin. destruct Hin as [E|[]].
    rewrite F1, feeds_app. simpl. rewrite F4, app_nil_r. apply F7; auto.
Qed.

(* ... and for pipelines that cannot drop anything these are exactly the prescribed elements *)
Theorem root_value_elements_exact : lossless e = true -> forall v, In (OVal v) (roots tr) ->
  feeds tr = sdenote e (src_hist tr).
Proof.
  intros Hl v Hin. rewrite denote_trace. destruct R as ((HG & _ & _) & Hph & _). unfold PH in Hph. fold tr in Hph.
  destruct (x_ph rs).
  - destruct Hph as (E & _). rewrite E in Hin. destruct Hin.
  - destruct Hph as (E & _). rewrite E in Hin. destruct Hin.
  - destruct Hph as (_ & (a & o' & b & F1 & F2 & F3 & F4 & F5 & F6 & F7)).
    rewrite F1, roots_app in Hin. simpl in Hin. rewrite F2, F3 in Hin. simpl in Hin. destruct Hin as [E|[]].
    destruct (F7 v E) as (_ & Ht & Ef).
    rewrite F1, feeds_app. simpl. rewrite F4, app_nil_r, Ef. apply Ginv_exact; auto.
Qed.
End AllRuns.
