(* C11, static-traits half, N-ARY forms: Gallina mirrors of the formulas by which the C++ headers compute
   sender_traits<S>::blocking / ::sends_done / ::is_always_scheduler_affine (and the run-time answer
   unifex::blocking(s)) for the combinators whose formula ranges over a PACK of sender types:

     let_value  (predecessor with n value signatures -> n successor sender types)   let_value.hpp
     let_error  (source with n error types -> n final sender types, plus the source) let_error.hpp
     when_all   (n children)                                                          when_all.hpp
     sequence   (n-ary call = left-nested binary sequence)                            sequence.hpp
     variant_sender<S...>                                                              variant_sender.hpp

   plus an executable operational semantics of these combinators over abstract COMPONENT senders
   (declared traits + set of possible behaviours), used by Calc/TraitsMultiProofs.v to prove that the
   mirrored traits are sound for all n and all lists of sound components, and run side by side with
   the real combinators by harness/k3_traits_multi.cpp / tools/units/traits_multi.py.

   Definitions only.  File:line references are under /repo/include/unifex.
   (Calc/TraitsDefs.v holds the unary/binary instances: one value signature, one error type, two
   children; the n = 1 / n = 2 instances of the mirrors below coincide with them, see
   TraitsMultiProofs.v [*_agrees_binary].  [cap_never] is defined there.) *)
From Coq Require Import List Bool Arith.
From V Require Import Calc.TraitsDefs.
Import ListNotations.

Module TraitsMulti.
Import CalcTraits.

(* ================================================================================================ *)
(* 1. mirrors of the header formulas over lists                                                     *)
(* ================================================================================================ *)

(* std::max_element(begin, end) over a non-empty array first, rest... : keeps [largest], replaces it
   when  deref largest < deref it  (= bk_max acc x);  std::min_element dually (= bk_min acc x).
   Only the VALUE of the selected element matters here. *)
Definition bk_max_element (first : bk) (rest : list bk) : bk := fold_left bk_max rest first.
Definition bk_min_element (first : bk) (rest : list bk) : bk := fold_left bk_min rest first.

(* let_value.hpp:322-329 (and the identical let_error.hpp:342-349)
     template <typename First, typename... Rest> struct max_blocking_kind
   has no definition for an empty pack: a predecessor without any value signature (a source without
   any error type) makes the sender type ill-formed -> [None]. *)
Definition max_blocking_kind (l : list traits) : option bk :=
  match l with
  | [] => None
  | f :: r => Some (bk_max_element (t_blocking f) (map t_blocking r))
  end.

(* let_value.hpp:316  any_sends_done = std::disjunction<sends_done_impl<Successors>...>  (empty: false)
   let_value.hpp:319-320  all_always_scheduler_affine = std::conjunction<...>                (empty: true) *)
Definition any_sends_done (l : list traits) : bool := existsb t_sends_done l.
Definition all_always_scheduler_affine (l : list traits) : bool := forallb t_affine l.

(* let_value(pred, f), [succs] = the sender types f returns for the value signatures of pred, in the
   order of pred's value_types (let_value.hpp:345-347 successor_types, duplicates kept).
   let_value.hpp:388-389  sends_done = pred || any_sends_done<succs...>
   let_value.hpp:391-395  blocking = max(pred, min(max_blocking_kind<succs...>, maybe))
   let_value.hpp:397-399  affine = pred && all_always_scheduler_affine<succs...> *)
Definition tr_let_value (p : traits) (succs : list traits) : option traits :=
  match max_blocking_kind succs with
  | None => None
  | Some m =>
      Some {| t_blocking := bk_max (t_blocking p) (bk_min m BMaybe);
              t_sends_done := t_sends_done p || any_sends_done succs;
              t_affine := t_affine p && all_always_scheduler_affine succs |}
  end.
(* let_value.hpp:429-438  run-time blocking(s) = max(blocking(pred_), min(STATIC max over succs, maybe)) *)
Definition rt_let_value (rt_pred : bk) (succs : list traits) : option bk :=
  match max_blocking_kind succs with
  | None => None
  | Some m => Some (bk_max rt_pred (bk_min m BMaybe))
  end.

(* let_error(src, f), [finals] = the sender types f returns for the error types of src.
   let_error.hpp:391-392 with :359-360  sends_done = src || any_sends_done<src, finals...>
   let_error.hpp:397-401 with :366-367  blocking = max(src, min(max_blocking_kind<finals...>, maybe))
   let_error.hpp:403-404 with :362-364  affine = all_always_scheduler_affine<src, finals...> *)
Definition tr_let_error (src : traits) (finals : list traits) : option traits :=
  match max_blocking_kind finals with
  | None => None
  | Some m =>
      Some {| t_blocking := bk_max (t_blocking src) (bk_min m BMaybe);
              t_sends_done := t_sends_done src || any_sends_done (src :: finals);
              t_affine := all_always_scheduler_affine (src :: finals) |}
  end.
(* let_error.hpp:436-446 *)
Definition rt_let_error (rt_src : bk) (finals : list traits) : option bk :=
  match max_blocking_kind finals with
  | None => None
  | Some m => Some (bk_max rt_src (bk_min m BMaybe))
  end.

(* when_all(children...).
   when_all.hpp:333  static_assert(sizeof...(Senders) > 0)  -> [None] for the empty pack
   when_all.hpp:345  sends_done = true
   when_all.hpp:349-350  affine = (children && ...)
   blocking, when_all.hpp:322-330 compute_blocking (:347):
     AS FOUND (before /repo b8744e5)  max_element over the children                 [tr_when_all_asfound]
     REPAIRED (now in the header)     m = max_element; (m == never && LAST child != never) ? maybe : m   [tr_when_all]
   The as-found formula is unsound for never (TraitsMultiProofs.when_all_asfound_never_refuted: the
   result is delivered by the child that completes last, and a never-child may complete on another
   thread before a later inline child); the repaired one is what the tie compares with the headers. *)
Definition tr_when_all_asfound (l : list traits) : option traits :=
  match l with
  | [] => None
  | f :: r =>
      Some {| t_blocking := bk_max_element (t_blocking f) (map t_blocking r);
              t_sends_done := true;
              t_affine := forallb t_affine l |}
  end.
(* [cap_never m last_started] (Calc/TraitsDefs.v) = if m = never and last_started <> never then maybe else m *)
Definition tr_when_all (l : list traits) : option traits :=
  match l with
  | [] => None
  | f :: r =>
      Some {| t_blocking := cap_never (bk_max_element (t_blocking f) (map t_blocking r)) (t_blocking (last r f));
              t_sends_done := true;
              t_affine := forallb t_affine l |}
  end.
(* when_all.hpp:375-384 spells its customisation tag_t<blocking>; inside the class [blocking] names
   the static data member of :347, not the CPO, so it never matches and unifex::blocking(s) answers
   with the static value (blocking.hpp:94-112).  Same for sequence.hpp:307 and
   variant_sender.hpp:164-167.  Mirrored as written: run-time answer = static answer. *)
Definition rt_when_all (l : list traits) : option bk := option_map t_blocking (tr_when_all l).

(* stop_when(source, trigger): binary, but the same shape as when_all (both children started, the one
   completing last delivers) and the same defect.
   stop_when.hpp:346  sends_done = true
   stop_when.hpp:360-362  affine = source && trigger
   blocking, stop_when.hpp:350-358:
     AS FOUND (before /repo ca334ca)  max(source, trigger)                            [tr_stop_when_asfound]
     REPAIRED (now in the header)     m = max(source, trigger); (m == never && trigger != never) ? maybe : m   [tr_stop_when]
   stop_when.hpp:397-405  the run-time customisation (spelled tag_t<unifex::blocking>, so it IS used)
   computes the same formula over the children's run-time answers. *)
Definition tr_stop_when_asfound (src trg : traits) : traits :=
  {| t_blocking := bk_max (t_blocking src) (t_blocking trg);
     t_sends_done := true;
     t_affine := t_affine src && t_affine trg |}.
Definition tr_stop_when (src trg : traits) : traits :=
  {| t_blocking := cap_never (bk_max (t_blocking src) (t_blocking trg)) (t_blocking trg);
     t_sends_done := true;
     t_affine := t_affine src && t_affine trg |}.
Definition rt_stop_when (rt_src rt_trg : bk) : bk := cap_never (bk_max rt_src rt_trg) rt_trg.

(* variant_sender<S...>.
   variant_sender.hpp:84  static_assert(sizeof...(Senders) > 0)
   variant_sender.hpp:86-96  minmax_element; min == max ? min : std::min(max, maybe)
   variant_sender.hpp:113-114  sends_done = disjunction
   variant_sender.hpp:118-119  affine = (alternatives && ...) *)
Definition tr_variant (l : list traits) : option traits :=
  match l with
  | [] => None
  | f :: r =>
      let mn := bk_min_element (t_blocking f) (map t_blocking r) in
      let mx := bk_max_element (t_blocking f) (map t_blocking r) in
      Some {| t_blocking := if bk_eqb mn mx then mn else bk_min mx BMaybe;
              t_sends_done := existsb t_sends_done l;
              t_affine := forallb t_affine l |}
  end.
Definition rt_variant (l : list traits) : option bk := option_map t_blocking (tr_variant l).

(* sequence(first, rest...).
   sequence.hpp:340-347  one argument: the sender itself
   sequence.hpp:413-452  three or more: (star this)((star this)(first, second), third, rest...), i.e. left-nested
   sequence.hpp:281-293  the binary sender (= CalcTraits.tr_sequence) *)
Definition tr_sequence_n (first : traits) (rest : list traits) : traits :=
  fold_left tr_sequence rest first.
Definition rt_sequence_n (first : traits) (rest : list traits) : bk :=
  t_blocking (tr_sequence_n first rest).

(* The seeded formula (C11-seed1): all_always_scheduler_affine computed with std::disjunction.
   Used only by the refutation example [let_value_disjunction_unsound]. *)
Definition tr_let_value_disj (p : traits) (succs : list traits) : option traits :=
  match max_blocking_kind succs with
  | None => None
  | Some m =>
      Some {| t_blocking := bk_max (t_blocking p) (bk_min m BMaybe);
              t_sends_done := t_sends_done p || any_sends_done succs;
              t_affine := t_affine p && existsb t_affine succs |}
  end.

(* ================================================================================================ *)
(* 2. component senders: declared traits + possible behaviours                                      *)
(* ================================================================================================ *)

(* when and where the receiver is called relative to start()  (blocking.hpp:26-46):
     TInline  on the thread that called start(), before start() returns
     TSync    on another thread, strongly-happens-before start() returns
     TAsync   no ordering with the return of start() (later on this thread, or on another thread) *)
Inductive timing := TInline | TSync | TAsync.

(* completion signal: value signature index / error type index / done *)
Inductive outcome := OVal (i : nat) | OErr (j : nat) | ODone.

(* execution contexts are natural numbers.  [b_ctx = None]: the operation completes on the context
   it was started on; [Some d]: it completes on the fixed context d (a particular thread pool, ...)
   wherever it was started. *)
Record beh := { b_time : timing; b_out : outcome; b_ctx : option nat }.

Record comp := { declared : traits; behs : list beh }.

Definition is_done (o : outcome) : bool := match o with ODone => true | _ => false end.
Definition is_val (o : outcome) : bool := match o with OVal _ => true | _ => false end.
Definition ctx_same (x : option nat) : bool := match x with None => true | Some _ => false end.

(* what a declared blocking kind promises about the timing (blocking.hpp:27-45) *)
Definition time_ok (k : bk) (t : timing) : bool :=
  match k, t with
  | BAlwaysInline, TInline => true
  | BAlwaysInline, _ => false
  | BAlways, TAsync => false
  | BAlways, _ => true
  | BMaybe, _ => true
  | BNever, TInline => false
  | BNever, _ => true
  end.

(* the declared traits are sound for one behaviour / for every behaviour of a component.
   affine must hold wherever the operation is started, so only [b_ctx = None] satisfies it. *)
Definition sound_beh (t : traits) (b : beh) : bool :=
  time_ok (t_blocking t) (b_time b)
  && (t_sends_done t || negb (is_done (b_out b)))
  && (negb (t_affine t) || ctx_same (b_ctx b)).
Definition sound_comp (c : comp) : bool := forallb (sound_beh (declared c)) (behs c).

(* ================================================================================================ *)
(* 3. operational semantics of the combinators over component behaviours                            *)
(* ================================================================================================ *)

(* what the receiver of the combinator observes when the combinator is started on context c *)
Record obs := { o_time : timing; o_out : outcome; o_ctx : nat }.

Definition sound_obs (t : traits) (c : nat) (o : obs) : bool :=
  time_ok (t_blocking t) (o_time o)
  && (t_sends_done t || negb (is_done (o_out o)))
  && (negb (t_affine t) || Nat.eqb (o_ctx o) c).

Definition run_ctx (c : nat) (b : beh) : nat := match b_ctx b with None => c | Some d => d end.

(* an operation started from inside the completion of another one: inline after inline is inline;
   anything that stays before the return of the outer start() is TSync; otherwise TAsync.
   (thread identity is abstracted to caller / other: a hop from a non-caller thread is assumed not to
   land back inside the caller's start() frame) *)
Definition seq_time (a b : timing) : timing :=
  match a, b with
  | TInline, _ => b
  | TSync, TAsync => TAsync
  | TSync, _ => TSync
  | TAsync, _ => TAsync
  end.

(* a child's completion forwarded unchanged *)
Definition pass (c : nat) (b : beh) : obs :=
  {| o_time := b_time b; o_out := b_out b; o_ctx := run_ctx c b |}.

(* a second operation connected and started inline from the value completion of the first *)
Definition seq_step (o : obs) (b : beh) : obs :=
  if is_val (o_out o) then
    {| o_time := seq_time (o_time o) (b_time b); o_out := b_out b; o_ctx := run_ctx (o_ctx o) b |}
  else o.

(* error index used for the std::exception_ptr that let_value/let_error/sequence send when the
   factory / connect throws *)
Definition exn : nat := 99.

(* let_value.hpp:143-197  predecessor_receiver::set_value: connect(func(values...)) and start() the
   successor inline in the predecessor's completion; a throw is sent as set_error(exception_ptr) from
   there (:191-196); :199-208 set_done / set_error forwarded.
   [sbs] = the behaviour picked for each successor type; [thrown] = the factory / connect throws. *)
Definition let_value_obs (c : nat) (pb : beh) (sbs : list beh) (thrown : bool) : option obs :=
  match b_out pb with
  | OVal i =>
      if thrown then Some {| o_time := b_time pb; o_out := OErr exn; o_ctx := run_ctx c pb |}
      else match nth_error sbs i with
           | Some s => Some (seq_step (pass c pb) s)
           | None => None
           end
  | _ => Some (pass c pb)
  end.

(* let_error.hpp:86-103 set_value / set_done forwarded; :105-139 set_error: connect(func(err)) and
   start() the final sender inline in the source's completion, a throw -> set_error(exception_ptr) *)
Definition let_error_obs (c : nat) (pb : beh) (fbs : list beh) (thrown : bool) : option obs :=
  match b_out pb with
  | OErr j =>
      if thrown then Some {| o_time := b_time pb; o_out := OErr exn; o_ctx := run_ctx c pb |}
      else match nth_error fbs j with
           | Some s =>
               Some {| o_time := seq_time (b_time pb) (b_time s); o_out := b_out s;
                       o_ctx := run_ctx (run_ctx c pb) s |}
           | None => None
           end
  | _ => Some (pass c pb)
  end.

(* when_all.hpp:80-83 children are started in index order on the calling thread; :237-241
   element_complete: the child whose completion brings refCount_ to zero delivers the result from its
   own completion (:243-262); :160-175 the first child completing with error/done wins doneOrError_
   and decides error-vs-done.  (The receiver's own stop token is not requested in this model.)
   [order] = the order in which the children complete; admissible iff it is a permutation of the
   indices and a child that completes inside its own start() (TInline, TSync) does so before every
   child started after it. *)
Definition time_at (bs : list beh) (i : nat) : timing :=
  match nth_error bs i with Some b => b_time b | None => TAsync end.
Definition is_async (t : timing) : bool := match t with TAsync => true | _ => false end.

Fixpoint order_ok (bs : list beh) (order : list nat) : bool :=
  match order with
  | [] => true
  | i :: rest =>
      forallb (fun j => negb (Nat.ltb j i) || is_async (time_at bs j)) rest && order_ok bs rest
  end.

Definition valid_order (bs : list beh) (order : list nat) : bool :=
  Nat.eqb (length order) (length bs)
  && forallb (fun i => Nat.ltb i (length bs)) order
  && forallb (fun i => existsb (Nat.eqb i) order) (seq 0 (length bs))
  && order_ok bs order.

Fixpoint wa_outcome (bs : list beh) (order : list nat) : outcome :=
  match order with
  | [] => OVal 0
  | i :: r =>
      match nth_error bs i with
      | Some b => if is_val (b_out b) then wa_outcome bs r else b_out b
      | None => wa_outcome bs r
      end
  end.

Definition last_of (l : list nat) : option nat :=
  match rev l with [] => None | x :: _ => Some x end.

Definition when_all_obs (c : nat) (bs : list beh) (order : list nat) : option obs :=
  if valid_order bs order then
    match last_of order with
    | Some l =>
        match nth_error bs l with
        | Some b => Some {| o_time := b_time b; o_out := wa_outcome bs order; o_ctx := run_ctx c b |}
        | None => None
        end
    | None => None
    end
  else None.

(* stop_when.hpp:200-204 start(): source, then trigger; :241-249 every completion requests stop on the
   other side and the one bringing activeOpCount_ to zero delivers (:251-275) the SOURCE's stored
   result (:65-88) from its own completion.  [order] as for when_all over the two children
   0 = source, 1 = trigger. *)
Definition stop_when_obs (c : nat) (sb tb : beh) (order : list nat) : option obs :=
  match when_all_obs c [sb; tb] order with
  | Some o => Some {| o_time := o_time o; o_out := b_out sb; o_ctx := o_ctx o |}
  | None => None
  end.

(* variant_sender.hpp:66-68 start() visits the active alternative's operation; its completion goes
   straight to the receiver.  [b] = a behaviour of the active alternative. *)
Definition variant_obs (c : nat) (b : beh) : obs := pass c b.

(* sequence.hpp:129-159 predecessor_receiver::set_value(): connect + start the successor inline in the
   predecessor's completion (a throw -> set_error(exception_ptr), not modelled: harness components do
   not throw from connect); :162-171 error / done forwarded.  n-ary = left-nested binary. *)
Definition sequence_obs (c : nat) (first : beh) (rest : list beh) : obs :=
  fold_left seq_step rest (pass c first).

(* one behaviour picked for each component of a list *)
Definition picks (cs : list comp) (bs : list beh) : Prop :=
  Forall2 (fun cm b => In b (behs cm)) cs bs.

End TraitsMulti.
