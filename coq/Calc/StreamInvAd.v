(* adapt_stream / next_adapt_stream / cleanup_adapt_stream (and with them via_stream, typed_via_stream,
   on_stream, delay) preserve [spec]. *)
From Coq Require Import ZArith List Bool Arith Lia.
From V Require Import Calc.StreamDefs Calc.StreamSpec Calc.StreamInv Calc.StreamInvTr.
Import ListNotations.
Import SCalc.
Local Open Scope Z_scope.

Definition ad_o (a : sadapt) (o : outcome) : outcome := snd (ad_out a o).

Definition G_ad (a : sadapt) (G : sst -> Prop) (st : sst) : Prop :=
  match st with
  | Node h pm (BUn KAd si) => cpl_pass pm (pm_of si) /\ pm <> PBad /\ h = map (ad_o a) (hist_of si) /\ G si
  | _ => False
  end.

Lemma ad_o_then : forall f o, ad_o (AThen f) o = tr_o f o.
Proof. reflexivity. Qed.
Lemma ad_o_id : forall a o, (forall f, a <> AThen f) -> ad_o a o = o.
Proof. intros a o H. destruct a; try reflexivity. exfalso. eapply H; eauto. Qed.

Lemma ad_out_noid : forall a o t, In t (fst (ad_out a o)) -> ev_id t = None.
Proof.
  intros a o t H. destruct a; simpl in H; try tauto; try (destruct H as [H|[]]; subst; reflexivity).
  eapply tr_out_noid; eauto.
Qed.

Lemma opdel_noid : forall ow t, In t (opdel ow) -> ev_id t = None.
Proof. intros [i|] t H; simpl in H; try tauto. destruct H as [H|[]]. subst. reflexivity. Qed.

Lemma ad_cev_noid : forall a ow t, In t (ad_cev a ow) -> ev_id t = None.
Proof.
  intros a ow t H. destruct a; simpl in H; try tauto;
    apply in_app_or in H; destruct H as [H|[H|[]]]; try (subst; reflexivity); eapply opdel_noid; eauto.
Qed.

Lemma ad_pre_noid : forall a t, In t (ad_pre a) -> ev_id t = None.
Proof. intros a t H. destruct a; simpl in H; try tauto. destruct H as [H|[]]. subst. reflexivity. Qed.

Lemma ad_weak : forall a o, weak o (ad_o a o).
Proof.
  intros a o. destruct a; try (unfold weak, ad_o; simpl; split; auto; fail). apply tr_weak.
Qed.

Lemma ad_wrap_facts : forall an ac ow pre r,
  b_st (ad_wrap an ac ow pre r) = BUn KAd (r_st r) /\
  outw (r_out r) (b_out (ad_wrap an ac ow pre r)) /\
  kn (b_out (ad_wrap an ac ow pre r)) = map (ad_o an) (kn (r_out r)) /\
  (exists ev2, b_ev (ad_wrap an ac ow pre r) = pre ++ r_ev r ++ ev2 /\ forall t, In t ev2 -> ev_id t = None) /\
  b_fired (ad_wrap an ac ow pre r) = r_fired r.
Proof.
  intros an ac ow pre r. unfold ad_wrap. destruct (r_out r) as [[[] o]|] eqn:E; simpl.
  - destruct (ad_out an o) as [ev2 o'] eqn:Et. simpl. repeat split; auto.
    + pose proof (ad_weak an o) as W. unfold ad_o in W. rewrite Et in W. apply W.
    + pose proof (ad_weak an o) as W. unfold ad_o in W. rewrite Et in W. apply W.
    + unfold ad_o. rewrite Et. reflexivity.
    + exists ev2. split; auto. intros t Hin. apply (ad_out_noid an o). rewrite Et. auto.
  - repeat split; auto. exists (ad_cev ac ow). split; auto. apply ad_cev_noid.
  - repeat split; auto. exists []. rewrite app_nil_r. split; auto. intros t [].
Qed.

Lemma ad_step : forall an ac ow pre G ms ids si r h pm pm' pmi',
  ok G ms ids si r ->
  (forall t, In t pre -> ev_id t = None) ->
  hist_of (r_st r) = hist_of si ++ kn (r_out r) ->
  h = map (ad_o an) (hist_of si) ->
  pm_of (r_st r) = pmi' ->
  cpl_pass pm' pmi' -> pm' <> PBad ->
  ok (G_ad an G) (ms_un ms) ids (Node h pm (BUn KAd si))
     (lift h pm' (ad_wrap an ac ow pre r)).
Proof.
  intros an ac ow pre G ms ids si r h pm pm' pmi' (HG & Hm & Hi) Hpre Hh Hh0 Hp Hc Hb.
  destruct (ad_wrap_facts an ac ow pre r) as (Hs & Hw & Hk & (ev2 & He & Hn) & Hf).
  unfold ok, lift. simpl. rewrite Hs. simpl. split; [|split].
  - rewrite Hp. repeat split; auto. rewrite Hk, Hh, map_app. congruence.
  - intros id. rewrite He. eapply mrun_app_some. apply mrun_noid; auto.
    eapply mrun_app_some. apply Hm. apply mrun_noid; auto.
  - rewrite He. apply only_ids_app. apply only_ids_noid; auto.
    apply only_ids_app; auto. apply only_ids_noid; auto.
Qed.

Lemma nil_noid : forall t : tev, In t [] -> ev_id t = None.
Proof. intros t []. Qed.

Lemma ad_spec : forall an ac I G ms ids, spec I G ms ids -> spec (wrap (ad_ops an ac I)) (G_ad an G) (ms_un ms) ids.
Proof.
  intros an ac I G ms ids S. pose proof (sp_laws _ _ _ _ S) as L. constructor.
  - apply wrap_wlaws.
  - intros [h pm bd] H. destruct bd; simpl in H; try tauto. destruct k; tauto.
  - simpl. destruct (wl_init _ L) as [Hh Hp]. rewrite Hh, Hp. repeat split; auto. left; auto. discriminate.
    apply (sp_init _ _ _ _ S).
  - intros id. simpl. apply (sp_ms_init _ _ _ _ S).
  - intros [h pm bd] id Hn. simpl. destruct bd; auto. apply (sp_ms_ids _ _ _ _ S); auto.
  - (* next *)
    intros [h pm bd] en H Hl. destruct bd; simpl in H; try tauto. destruct k; try tauto.
    destruct H as (Hc & Hb & Hh & HG). simpl in Hl. simpl.
    assert (En : pm_of inner = pm) by (destruct Hc as [E|[E1 E2]]; [auto|destruct Hl; congruence]).
    pose proof (sp_next _ _ _ _ S inner en HG (ltac:(rewrite En; auto))) as Hok.
    destruct (wl_next _ L inner en) as [Lh Lp].
    pose proof (sp_nobad _ _ _ _ S _ (proj1 Hok)) as Hnb. rewrite Lp in Hnb.
    destruct (ad_wrap_facts an ac (o_owner I) (ad_pre an) (o_next I inner en)) as (_ & Hw & _).
    destruct (cpl_pass_next pm (pm_of inner) _ _ Hc Hl Hw Hnb) as [Hc' _].
    eapply ad_step; eauto. apply ad_pre_noid.
    eapply cpl_pass_nobad; eauto.
  - (* clean *)
    intros [h pm bd] H Hl. destruct bd; simpl in H; try tauto. destruct k; try tauto.
    destruct H as (Hc & Hb & Hh & HG). simpl in Hl. simpl.
    assert (En : pm_of inner = PIdle \/ pm_of inner = PEnded) by (destruct Hc as [E|[E1 E2]]; subst; auto).
    pose proof (sp_clean _ _ _ _ S inner HG En) as Hok.
    destruct (wl_clean _ L inner) as [Lh Lp].
    pose proof (sp_nobad _ _ _ _ S _ (proj1 Hok)) as Hnb. rewrite Lp in Hnb.
    destruct (ad_wrap_facts an ac (o_owner I) (ad_pre ac) (o_clean I inner)) as (_ & Hw & _).
    destruct (cpl_pass_clean pm (pm_of inner) _ _ Hc Hl Hw Hnb) as [Hc' _].
    eapply ad_step; eauto. apply ad_pre_noid.
    eapply cpl_pass_nobad; eauto.
  - (* stop *)
    intros [h pm bd] H. destruct bd; simpl in H; try tauto. destruct k; try tauto.
    destruct H as (Hc & Hb & Hh & HG). simpl.
    pose proof (sp_stop _ _ _ _ S inner HG) as Hok. destruct (wl_stop _ L inner) as [Lh Lp].
    pose proof (sp_nobad _ _ _ _ S _ (proj1 Hok)) as Hnb. rewrite Lp in Hnb.
    destruct (ad_wrap_facts an ac (o_owner I) [] (o_stop I inner)) as (_ & Hw & _).
    destruct (cpl_pass_other pm (pm_of inner) _ _ Hc Hb Hw Hnb) as [Hc' Hb'].
    eapply ad_step; eauto. apply nil_noid.
  - (* leaf *)
    intros [h pm bd] tg o H. destruct bd; simpl in H; try tauto. destruct k; try tauto.
    destruct H as (Hc & Hb & Hh & HG). simpl.
    pose proof (sp_leaf _ _ _ _ S inner tg o HG) as Hok. destruct (wl_leaf _ L inner tg o) as [Lh Lp].
    destruct (o_leaf I inner tg o) as [r hit] eqn:E. simpl in *.
    pose proof (sp_nobad _ _ _ _ S _ (proj1 Hok)) as Hnb. rewrite Lp in Hnb.
    destruct (ad_wrap_facts an ac (o_owner I) [] r) as (_ & Hw & _).
    destruct (cpl_pass_other pm (pm_of inner) _ _ Hc Hb Hw Hnb) as [Hc' Hb'].
    eapply ad_step; eauto. apply nil_noid.
  - (* flush *)
    intros [h pm bd] H. destruct bd; simpl in H; try tauto. destruct k; try tauto.
    destruct H as (Hc & Hb & Hh & HG). simpl.
    pose proof (sp_flush _ _ _ _ S inner HG) as Hok. destruct (wl_flush _ L inner) as [Lh Lp].
    pose proof (sp_nobad _ _ _ _ S _ (proj1 Hok)) as Hnb. rewrite Lp in Hnb.
    destruct (ad_wrap_facts an ac (o_owner I) [] (o_flush I inner)) as (_ & Hw & _).
    destruct (cpl_pass_other pm (pm_of inner) _ _ Hc Hb Hw Hnb) as [Hc' Hb'].
    eapply ad_step; eauto. apply nil_noid.
  - (* arm *)
    intros [h pm bd] H. destruct bd; simpl in H; try tauto. destruct k; try tauto.
    destruct H as (Hc & Hb & Hh & HG). simpl. destruct (wl_arm _ L inner) as [Ah Ap].
    destruct (sp_arm _ _ _ _ S inner HG) as [HG' Hms]. rewrite Ah, Ap. repeat split; auto.
  - (* stop_done *)
    intros [h pm bd]. simpl. destruct bd; simpl; auto. destruct k; simpl; auto.
    unfold ad_wrap. destruct (sp_stop_done _ _ _ _ S inner) as [E|E]; rewrite E; simpl; auto.
    destruct an; simpl; auto.
  - (* budget *)
    intros [h pm bd] en v. simpl. destruct bd; simpl; try congruence. destruct k; simpl; try congruence.
    unfold ad_wrap. destruct (r_out (o_next I inner en)) as [[[] o]|] eqn:E; simpl; try congruence.
    destruct (ad_out an o) as [ev2 o'] eqn:Ea. simpl. intros Hv.
    assert (Ho : is_val o = true).
    { pose proof (ad_weak an o) as [_ W]. unfold ad_o in W. rewrite Ea in W. simpl in W. apply W.
      inversion Hv; subst. reflexivity. }
    destruct o; simpl in Ho; try discriminate. eapply (sp_blaw _ _ _ _ S); eauto.
  - (* quiet *)
    intros [h pm bd] H Hq id. destruct bd; simpl in H; try tauto. destruct k; try tauto.
    destruct H as (Hc & Hb & Hh & HG). simpl in *. apply (sp_quiet _ _ _ _ S); auto.
    destruct Hc as [E|[E1 E2]]; [rewrite <- E; auto|destruct Hq; congruence].
Qed.

Lemma G_ad_hist : forall a G st, G_ad a G st ->
  exists si, body_of st = BUn KAd si /\ hist_of st = map (ad_o a) (hist_of si) /\ G si.
Proof.
  intros a G [h pm bd] H. destruct bd; simpl in H; try tauto. destruct k; try tauto.
  destruct H as (_ & _ & Hh & HG). exists inner. simpl. auto.
Qed.

(* ---- what the adaptors' definitions say, at the level of one node ------------------------------------ *)
(* every completion of next() / cleanup() of a stream adapted with via / typed_via / delay is delivered from
   inside the scheduler's item: the hop is the last thing that happens before the completion *)
Definition hop_of (a : sadapt) : option tev :=
  match a with AVia sid | ATypedVia sid => Some (THop sid 0) | ADelay sid d => Some (THop sid d) | _ => None end.

Lemma ad_next_completes_on_scheduler : forall an ac ow pre r o t, hop_of an = Some t ->
  b_out (ad_wrap an ac ow pre r) = Some (KN, o) ->
  r_out r = Some (KN, o) /\ exists ev, b_ev (ad_wrap an ac ow pre r) = ev ++ [t].
Proof.
  intros an ac ow pre r o t Hh. unfold ad_wrap. destruct (r_out r) as [[[] o0]|]; simpl; try discriminate.
  destruct an; simpl in *; try discriminate; inversion Hh; subst; simpl; intros E; inversion E; subst;
    (split; [reflexivity|]); exists (pre ++ r_ev r); rewrite <- app_assoc; reflexivity.
Qed.

Lemma ad_cleanup_completes_on_scheduler : forall an ac ow pre r o t, hop_of ac = Some t ->
  b_out (ad_wrap an ac ow pre r) = Some (KC, o) ->
  r_out r = Some (KC, o) /\ exists ev, b_ev (ad_wrap an ac ow pre r) = ev ++ [t].
Proof.
  intros an ac ow pre r o t Hh. unfold ad_wrap. destruct (r_out r) as [[[] o0]|]; simpl; try discriminate.
  - destruct (ad_out an o0); simpl. discriminate.
  - intros E; inversion E; subst. split; auto.
    destruct ac; simpl in *; try discriminate; inversion Hh; subst;
      exists (pre ++ r_ev r ++ opdel ow); rewrite <- !app_assoc; reflexivity.
Qed.

(* on(sched, _): the inner next / cleanup is started from inside the scheduler's item *)
Lemma ad_on_starts_on_scheduler : forall sid ac I si en,
  exists ev, b_ev (ro_next (ad_ops (AOn sid) ac I) (BUn KAd si) en) = THop sid 0 :: r_ev (o_next I si en) ++ ev.
Proof.
  intros. simpl. unfold ad_wrap. destruct (r_out (o_next I si en)) as [[[] o]|]; simpl; eauto.
  exists []. rewrite app_nil_r. reflexivity.
Qed.
Lemma ad_on_cleanup_starts_on_scheduler : forall sid an I si,
  exists ev, b_ev (ro_clean (ad_ops an (AOn sid) I) (BUn KAd si)) = THop sid 0 :: r_ev (o_clean I si) ++ ev.
Proof.
  intros. simpl. unfold ad_wrap. destruct (r_out (o_clean I si)) as [[[] o]|]; simpl; eauto.
  - destruct (ad_out an o); simpl; eauto.
  - exists []. rewrite app_nil_r. reflexivity.
Qed.
