(* stop_immediately preserves [spec]. *)
From Coq Require Import ZArith List Bool Arith Lia.
From V Require Import Calc.StreamDefs Calc.StreamSpec Calc.StreamInv Calc.StreamInvTr.
Import ListNotations.
Import SCalc.
Local Open Scope Z_scope.

(* ---- history relation: the parent's history h against the child's hC ------------------------------------ *)
Definition Rh (h hC : list outcome) : Prop :=
  h = hC \/ (has_term h = true /\ prefix (vc h) (vc hC)).

Lemma Rh_refl : forall h, Rh h h.
Proof. intros; left; auto. Qed.

Lemma Rh_prefix : forall h hC, Rh h hC -> prefix (vc h) (vc hC).
Proof. intros h hC [E|[_ P]]; subst; auto. apply prefix_refl. Qed.

Lemma vc_done : forall h, vc (h ++ [ODone]) = vc h.
Proof.
  intros h. destruct (has_term h) eqn:E.
  - apply vc_app_term; auto.
  - rewrite vc_app_noterm; auto. simpl. apply app_nil_r.
Qed.

Lemma has_term_done : forall h, has_term (h ++ [ODone]) = true.
Proof. intros. rewrite has_term_app. simpl. apply orb_true_r. Qed.

Lemma has_term_app_l : forall h l, has_term h = true -> has_term (h ++ l) = true.
Proof. intros. rewrite has_term_app, H. reflexivity. Qed.

Lemma Rh_done : forall h hC, Rh h hC -> Rh (h ++ [ODone]) hC.
Proof.
  intros h hC H. right. split. apply has_term_done. rewrite vc_done. apply Rh_prefix; auto.
Qed.

Lemma Rh_both : forall h hC l, Rh h hC -> Rh (h ++ l) (hC ++ l).
Proof.
  intros h hC l [E|[T P]]. subst; left; auto.
  right. split. apply has_term_app_l; auto.
  rewrite vc_app_term by auto. eapply prefix_trans. eauto. apply vc_app_prefix.
Qed.

Lemma Rh_drop : forall h hC l, Rh h hC -> has_term h = true -> Rh h (hC ++ l).
Proof.
  intros h hC l H T. right. split; auto. eapply prefix_trans. apply Rh_prefix; eauto. apply vc_app_prefix.
Qed.

(* ---- coupling between the state machine, the parent-side mode O and the child's mode N ------------------ *)
Definition cpl (x : sistate) (incl defer : bool) (P N : pmode) : Prop :=
  match x with
  | SNotStarted => N = PFresh /\ defer = false /\ incl = false /\ (P = PFresh \/ P = PEnded \/ P = PCleaned)
  | SActive => N = PBusy /\ P = PBusy /\ defer = false /\ incl = false
  | SCompleted => defer = false /\
      (if incl then (P = PCleaning /\ N = PCleaning) \/ (P = PCleaned /\ N = PCleaned)
       else (N = PIdle \/ N = PEnded) /\ (P = N \/ P = PEnded))
  | SStopped => P = PEnded /\ incl = false /\ (if defer then N = PFresh \/ N = PIdle else N = PBusy)
  | SCleanupReq =>
      if incl then defer = false /\ ((P = PCleaning /\ N = PCleaning) \/ (P = PCleaned /\ N = PCleaned))
      else P = PCleaning /\ (if defer then N = PFresh \/ N = PIdle else N = PBusy)
  end.

Definition G_si (G : sst -> Prop) (st : sst) : Prop :=
  match st with
  | Node h P (BUn (KSI s) si) =>
      cpl (si_state s) (si_incl s) (si_defer s) P (pm_of si) /\
      Rh h (hist_of si) /\
      (si_cut s = false -> h = hist_of si) /\
      (si_state s = SStopped \/ si_state s = SCleanupReq -> has_term h = true /\ si_cut s = true) /\
      G si
  | _ => False
  end.

Lemma G_si_hist : forall G st, G_si G st ->
  exists s si, body_of st = BUn (KSI s) si /\ G si /\
    (hist_of st = hist_of si \/ (has_term (hist_of st) = true /\ prefix (vc (hist_of st)) (vc (hist_of si)))) /\
    (si_cut s = false -> hist_of st = hist_of si).
Proof.
  intros G [h P bd] H. destruct bd; simpl in H; try tauto. destruct k; try tauto.
  destruct H as (_ & HR & Hcut & _ & HG). exists s, inner. simpl. auto.
Qed.

(* ---- what si_inner makes of the result r of an entry point of the child ---------------------------------- *)
Definition si_post (s s' : sist) (Nr N2 : pmode) (rout bout : option (opk * outcome)) : Prop :=
  match rout with
  | None => si_state s' = si_state s /\ si_incl s' = si_incl s /\ si_cut s' = si_cut s /\ N2 = Nr /\ bout = None
  | Some (KC, oc) =>
      si_state s' = si_state s /\ si_incl s' = si_incl s /\ si_cut s' = si_cut s /\ N2 = Nr /\
      exists oc', bout = Some (KC, oc')
  | Some (KN, o) =>
      match si_state s with
      | SStopped => si_state s' = SCompleted /\ si_incl s' = si_incl s /\ si_cut s' = true /\ N2 = Nr /\ bout = None
      | SCleanupReq =>
          si_state s' = SCleanupReq /\ si_incl s' = true /\ si_cut s' = si_cut s /\
          ((bout = None /\ N2 = PCleaning) \/ (exists oc', bout = Some (KC, oc') /\ N2 = PCleaned))
      | SActive =>
          si_state s' = SCompleted /\ si_incl s' = si_incl s /\ si_cut s' = si_cut s /\ N2 = Nr /\ bout = Some (KN, o)
      | _ => si_state s' = si_state s /\ si_incl s' = si_incl s /\ si_cut s' = si_cut s /\ N2 = Nr /\ bout = Some (KN, o)
      end
  end.

Lemma opdel_noid : forall ow t, In t (opdel ow) -> ev_id t = None.
Proof. intros [i|] t H; simpl in H; try tauto. destruct H as [H|[]]. subst. reflexivity. Qed.

Lemma si_cleanup_done_facts : forall vr I G ms ids (si0 : sst) s si ev oc fired,
  G si -> (forall id, mrun id (ms si0 id) ev = Some (ms si id)) -> only_ids ids ev ->
  let b := si_cleanup_done vr I s si ev oc fired in
  exists s', b_st b = BUn (KSI s') si /\
    (forall id, mrun id (ms si0 id) (b_ev b) = Some (ms si id)) /\ only_ids ids (b_ev b) /\
    si_defer s' = si_defer s /\ si_state s' = si_state s /\ si_incl s' = si_incl s /\ si_cut s' = si_cut s /\
    exists oc', b_out b = Some (KC, oc').
Proof.
  intros vr I G ms ids si0 s si ev oc fired HG Hm Hi. unfold si_cleanup_done. simpl.
  exists (si_set_err s None). split; [reflexivity|].
  set (uaf := match oc with OErr _ => _ | _ => _ end).
  assert (Hn : forall t, In t (opdel (o_owner I) ++ uaf) -> ev_id t = None).
  { intros t Hin. apply in_app_or in Hin. destruct Hin as [Hin|Hin]. eapply opdel_noid; eauto.
    unfold uaf in Hin. destruct oc; simpl in Hin; try tauto. destruct (si_err s); simpl in Hin; try tauto.
    destruct (o_cerr_ref I && negb (v_sierr_fixed vr)); simpl in Hin; try tauto.
    destruct Hin as [Hin|[]]. subst. reflexivity. }
  split; [|split].
  - intros id. eapply mrun_app_some. apply Hm. apply mrun_noid; auto.
  - apply only_ids_app; auto. apply only_ids_noid; auto.
  - repeat split; auto. eexists; reflexivity.
Qed.

Lemma si_inner_shape : forall vr I s r, exists s' si',
  b_st (si_inner vr I s r) = BUn (KSI s') si' /\ si_defer s' = si_defer s.
Proof.
  intros vr I s r. unfold si_inner, si_signal, si_cleanup_done.
  destruct (r_out r) as [[[] o]|]; simpl.
  - destruct (si_state s); simpl; try (eexists _, _; split; reflexivity).
    destruct (r_out (o_clean I (r_st r))) as [[[] oc]|]; simpl; eexists _, _; split; reflexivity.
  - eexists _, _; split; reflexivity.
  - eexists _, _; split; reflexivity.
Qed.

Lemma opt_id : forall (A : Type) (x : option A), match x with Some y => Some y | None => None end = x.
Proof. destruct x; reflexivity. Qed.

Local Opaque si_cleanup_done.

Lemma si_inner_facts : forall vr I G ms ids, spec I G ms ids -> forall s si0 r,
  ok G ms ids si0 r ->
  (forall o, r_out r = Some (KN, o) -> pm_of (r_st r) = PIdle \/ pm_of (r_st r) = PEnded) ->
  exists s' si',
    b_st (si_inner vr I s r) = BUn (KSI s') si' /\ G si' /\
    (forall id, mrun id (ms si0 id) (b_ev (si_inner vr I s r)) = Some (ms si' id)) /\
    only_ids ids (b_ev (si_inner vr I s r)) /\
    si_defer s' = si_defer s /\
    hist_of si' = hist_of (r_st r) /\
    si_post s s' (pm_of (r_st r)) (pm_of si') (r_out r) (b_out (si_inner vr I s r)).
Proof.
  intros vr I G ms ids S s si0 r (HG & Hm & Hi) Hkn. pose proof (sp_laws _ _ _ _ S) as L.
  unfold si_inner, si_post. destruct (r_out r) as [[[] o]|] eqn:E.
  - (* a next completion *)
    specialize (Hkn o eq_refl). unfold si_signal. destruct (si_state s) eqn:Es; simpl.
    + exists s, (r_st r). rewrite Es. repeat split; auto.
    + exists s, (r_st r). rewrite Es. repeat split; auto.
    + exists (si_set_state s SCompleted), (r_st r). repeat split; auto.
    + (* stopped: drop, then the child's flush *)
      pose proof (sp_flush _ _ _ _ S _ HG) as (HG' & Hm' & Hi'). destruct (wl_flush _ L (r_st r)) as [Lh Lp].
      pose proof (sp_nobad _ _ _ _ S _ HG') as Hnb. rewrite Lp in Hnb.
      assert (Eo : r_out (o_flush I (r_st r)) = None).
      { destruct (pm_other_nobad _ _ Hnb) as [[Eo _]|[(o' & _ & Eb & _)|(o' & _ & Eb & _)]]; auto;
          destruct Hkn; congruence. }
      rewrite Eo in Lh, Lp. simpl in Lh, Lp. rewrite app_nil_r in Lh.
      eexists _, (r_st (o_flush I (r_st r))). split; [reflexivity|]. simpl. repeat split; auto.
      * intros id. eapply mrun_app_some; eauto.
      * apply only_ids_app; auto.
    + (* cleanup requested: start the child's cleanup *)
      pose proof (sp_clean _ _ _ _ S _ HG Hkn) as (HG' & Hm' & Hi'). destruct (wl_clean _ L (r_st r)) as [Lh Lp].
      pose proof (sp_nobad _ _ _ _ S _ HG') as Hnb. rewrite Lp in Hnb.
      assert (Hm2 : forall id, mrun id (ms si0 id) (r_ev r ++ r_ev (o_clean I (r_st r))) = Some (ms (r_st (o_clean I (r_st r))) id))
        by (intros id; eapply mrun_app_some; eauto).
      assert (Hi2 : only_ids ids (r_ev r ++ r_ev (o_clean I (r_st r)))) by (apply only_ids_app; auto).
      destruct (pm_clean_nobad _ _ Hnb) as [_ [[Eo Ep]|(oc & Eo & Ep)]]; rewrite Eo in *; simpl in Lh; rewrite app_nil_r in Lh.
      * eexists _, (r_st (o_clean I (r_st r))). split; [reflexivity|]. simpl.
        split; [auto|]. split; [auto|]. split; [auto|]. split; [auto|]. split; [auto|].
        split; [auto|]. split; [auto|]. split; [auto|]. left. split; auto. congruence.
      * destruct (si_cleanup_done_facts vr I G ms ids si0 (si_set_incl (si_set_err s match o with OErr e => Some e | _ => si_err s end) true)
                    _ _ oc (r_fired r) HG' Hm2 Hi2) as (s' & Eb & Hm3 & Hi3 & Ed & Est & Ein & Ecu & oc' & Eout).
        exists s', (r_st (o_clean I (r_st r))). split; [exact Eb|].
        split; [auto|]. split; [auto|]. split; [auto|]. split; [exact Ed|]. split; [auto|].
        simpl in Est, Ein, Ecu. split; [congruence|]. split; [exact Ein|]. split; [exact Ecu|]. right. exists oc'. split; auto. congruence.
  - (* a cleanup completion *)
    destruct (si_cleanup_done_facts vr I G ms ids si0 s _ _ o (r_fired r) HG Hm Hi) as (s' & Eb & Hm3 & Hi3 & Ed & Est & Ein & Ecu & oc' & Eout).
    exists s', (r_st r). repeat split; auto. eauto.
  - exists s, (r_st r). simpl. repeat split; auto.
Qed.

Local Opaque si_inner.

(* ---- assembling the invariant of the result ---------------------------------------------------------------- *)
Lemma si_ok_intro : forall (G : sst -> Prop) ms ids h P s si (b : bres) P' s' si',
  b_st b = BUn (KSI s') si' ->
  cpl (si_state s') (si_incl s') (si_defer s') P' (pm_of si') ->
  Rh (h ++ kn (b_out b)) (hist_of si') ->
  (si_cut s' = false -> h ++ kn (b_out b) = hist_of si') ->
  (si_state s' = SStopped \/ si_state s' = SCleanupReq -> has_term (h ++ kn (b_out b)) = true /\ si_cut s' = true) ->
  G si' ->
  (forall id, mrun id (ms si id) (b_ev b) = Some (ms si' id)) ->
  only_ids ids (b_ev b) ->
  ok (G_si G) (ms_un ms) ids (Node h P (BUn (KSI s) si)) (lift h P' b).
Proof.
  intros G ms ids h P s si b P' s' si' Eb Hc HR Hcut Hterm HG Hm Hi.
  unfold ok, lift. simpl. rewrite Eb. simpl. split; [|split; assumption].
  split; [assumption|]. split; [assumption|]. split; [assumption|]. split; assumption.
Qed.

Lemma hist_both : forall h hC l (cut : bool), Rh h hC -> (cut = false -> h = hC) ->
  Rh (h ++ l) (hC ++ l) /\ (cut = false -> h ++ l = hC ++ l).
Proof. intros h hC l cut HR Hc. split. apply Rh_both; auto. intros E. rewrite Hc; auto. Qed.

Lemma term_app : forall (A : Prop) h l (c : bool),
  (A -> has_term h = true /\ c = true) -> A -> has_term (h ++ l) = true /\ c = true.
Proof. intros A h l c H a. destruct (H a). split; auto. apply has_term_app_l; auto. Qed.

Ltac pure_cpl :=
  repeat match goal with x : sistate |- _ => destruct x end;
  repeat match goal with b : bool |- _ => destruct b end;
  simpl in *;
  repeat match goal with o : outcome |- _ => destruct o end;
  simpl in *; intuition (subst; simpl in *; try congruence; auto).

(* leaf completion / flush without a deferred start: the child's result goes through si_inner *)
Lemma si_other_step : forall vr I G ms ids, spec I G ms ids -> forall h P s si r,
  G_si G (Node h P (BUn (KSI s) si)) ->
  ok G ms ids si r ->
  hist_of (r_st r) = hist_of si ++ kn (r_out r) ->
  pm_of (r_st r) = pm_other (pm_of si) (r_out r) ->
  ok (G_si G) (ms_un ms) ids (Node h P (BUn (KSI s) si))
     (lift h (pm_other P (b_out (si_inner vr I s r))) (si_inner vr I s r)).
Proof.
  intros vr I G ms ids S h P s si r H Hok Lh Lp.
  simpl in H. destruct H as (Hc & HR & Hcut & Hterm & HG).
  pose proof (sp_nobad _ _ _ _ S _ (proj1 Hok)) as Hnb. rewrite Lp in Hnb.
  destruct (si_inner_facts vr I G ms ids S s si r Hok) as (s' & si' & Eb & HG' & Hm & Hi & Ed & Eh & Hpost).
  { intros o Eo. rewrite Lp. destruct (pm_other_nobad _ _ Hnb) as [[E _]|[(o' & E & _ & Ep)|(o' & E & _)]]; try congruence.
    rewrite Ep. destruct (is_val o'); auto. }
  unfold si_post in Hpost. rewrite Lh in Eh. rewrite Lp in Hpost.
  destruct s as [x own err i d cut]. simpl in Hc, Hcut, Hterm, Ed, Hpost.
  remember (pm_of si) as N eqn:EN.
  destruct (pm_other_nobad _ _ Hnb) as [[Eo Ep]|[(o & Eo & EN' & Ep)|(o & Eo & EN' & Ep)]];
    rewrite Eo in *; rewrite Ep in *; simpl in Eh.
  - (* nothing completed *)
    destruct Hpost as (Est & Ein & Ecu & E2 & Eout). rewrite Eout.
    destruct (hist_both h (hist_of si) [] cut HR Hcut) as [R1 R2].
    eapply si_ok_intro; [exact Eb|rewrite ?Est, ?Ein, ?Ecu, ?Ed, ?E2, ?Eh, ?Eout; simpl..]; auto.
    apply term_app; auto.
  - (* the child's next completed *)
    destruct x; simpl in Hpost; try solve [exfalso; clear - Hc EN'; pure_cpl].
    + (* active: delivered *)
      destruct Hpost as (Est & Ein & Ecu & E2 & Eout). rewrite Eout.
      destruct (hist_both h (hist_of si) [o] cut HR Hcut) as [R1 R2].
      eapply si_ok_intro; [exact Eb|rewrite ?Est, ?Ein, ?Ecu, ?Ed, ?E2, ?Eh, ?Eout; simpl..]; auto.
      * clear - Hc EN'. pure_cpl.
      * intros [E|E]; discriminate.
    + (* stopped: dropped *)
      destruct Hpost as (Est & Ein & Ecu & E2 & Eout). rewrite Eout.
      destruct (Hterm (or_introl eq_refl)) as [T1 T2].
      eapply si_ok_intro; [exact Eb|rewrite ?Est, ?Ein, ?Ecu, ?Ed, ?E2, ?Eh, ?Eout; simpl..]; auto; rewrite ?app_nil_r.
      * clear - Hc EN'. pure_cpl.
      * apply Rh_drop; auto.
      * discriminate.
      * intros [E|E]; discriminate.
    + (* cleanup requested: dropped, the child's cleanup is started *)
      destruct Hpost as (Est & Ein & Ecu & Hsub).
      destruct (Hterm (or_intror eq_refl)) as [T1 T2].
      destruct Hsub as [[Eout E2]|(oc' & Eout & E2)]; rewrite Eout;
        (eapply si_ok_intro; [exact Eb|rewrite ?Est, ?Ein, ?Ecu, ?Ed, ?E2, ?Eh, ?Eout; simpl..]; auto; rewrite ?app_nil_r;
         [clear - Hc EN'; pure_cpl|apply Rh_drop; auto|intros E; congruence|auto]).
  - (* the child's cleanup completed *)
    destruct Hpost as (Est & Ein & Ecu & E2 & oc' & Eout). rewrite Eout.
    destruct (hist_both h (hist_of si) [] cut HR Hcut) as [R1 R2].
    eapply si_ok_intro; [exact Eb|rewrite ?Est, ?Ein, ?Ecu, ?Ed, ?E2, ?Eh, ?Eout; simpl..]; auto.
    + clear - Hc EN'. pure_cpl.
    + apply term_app; auto.
Qed.

Lemma uaf0_noid : forall (b : bool) t, In t (if b then [] else [TUaf 0]) -> ev_id t = None.
Proof. intros b t H. destruct b; simpl in H; try tauto. destruct H as [H|[]]. subst. reflexivity. Qed.

Lemma si_spec : forall vr I G ms ids, spec I G ms ids -> spec (wrap (si_ops vr I)) (G_si G) (ms_un ms) ids.
Proof.
  intros vr I G ms ids S. pose proof (sp_laws _ _ _ _ S) as L. constructor.
  - apply wrap_wlaws.
  - intros [h P bd] H. destruct bd; simpl in H; try tauto. destruct k; try tauto.
    destruct H as (Hc & _). simpl. intros E. subst P. destruct s as [x own err i d cut]. simpl in Hc.
    remember (pm_of inner) as N. clear - Hc. pure_cpl.
  - simpl. destruct (wl_init _ L) as [Hh Hp]. rewrite Hh, Hp. simpl. split; [tauto|].
    split; [apply Rh_refl|]. split; [auto|]. split; [intros [E|E]; discriminate|]. apply (sp_init _ _ _ _ S).
  - intros id. simpl. apply (sp_ms_init _ _ _ _ S).
  - intros [h P bd] id Hn. simpl. destruct bd; auto. apply (sp_ms_ids _ _ _ _ S); auto.
  - (* next *)
    intros [h P bd] en H Hl. destruct bd; simpl in H; try tauto. destruct k; try tauto.
    destruct H as (Hc & HR & Hcut & Hterm & HG). simpl in Hl.
    destruct s as [x own err i d cut]. simpl in Hc, Hcut, Hterm.
    remember (pm_of inner) as N eqn:EN.
    assert (Hpre : N = PFresh \/ N = PIdle) by (clear - Hc Hl; pure_cpl).
    simpl. destruct (e_stopped en); [|destruct (e_armed en)].
    + (* the token is already stopped *)
      eapply si_ok_intro; [reflexivity|simpl..].
      * rewrite <- EN. clear - Hc Hl. pure_cpl.
      * apply Rh_done; auto.
      * discriminate.
      * intros _. split; [apply has_term_done|reflexivity].
      * auto.
      * intros id. reflexivity.
      * apply only_ids_nil.
    + (* armed: done from inside the callback registration, the start of nextOp_ is deferred *)
      eapply si_ok_intro; [reflexivity|simpl..].
      * rewrite <- EN. clear - Hc Hl. pure_cpl.
      * apply Rh_done; auto.
      * discriminate.
      * intros _. split; [apply has_term_done|reflexivity].
      * auto.
      * intros id. reflexivity.
      * apply only_ids_noid. intros t [E|[]]; subst; reflexivity.
    + (* the child's next is started *)
      rewrite EN in Hpre.
      pose proof (sp_next _ _ _ _ S inner (env_own own) HG Hpre) as Hok.
      destruct (wl_next _ L inner (env_own own)) as [Lh Lp].
      pose proof (sp_nobad _ _ _ _ S _ (proj1 Hok)) as Hnb. rewrite Lp in Hnb.
      destruct (pm_next_nobad _ _ Hnb) as [_ Hcase].
      match goal with |- context [si_inner vr I ?s0 _] =>
        destruct (si_inner_facts vr I G ms ids S s0 inner _ Hok) as (s' & si' & Eb & HG' & Hm & Hi & Ed & Eh & Hpost) end.
      { intros o Eo. rewrite Lp. destruct Hcase as [[E _]|(o' & E & Ep)]; [congruence|]. rewrite Ep.
        destruct (is_val o'); auto. }
      unfold si_post in Hpost. simpl in Ed, Hpost. rewrite Lh in Eh. rewrite Lp in Hpost. rewrite <- EN in *.
      destruct Hcase as [[Eo Ep]|(o & Eo & Ep)]; rewrite Eo in *; rewrite Ep in *; simpl in Eh.
      * destruct Hpost as (Est & Ein & Ecu & E2 & Eout). rewrite Eout.
        destruct (hist_both h (hist_of inner) [] cut HR Hcut) as [R1 R2].
        eapply si_ok_intro; [exact Eb|rewrite ?Est, ?Ein, ?Ecu, ?Ed, ?E2, ?Eh, ?Eout; simpl..]; auto.
        -- clear - Hc Hl. pure_cpl.
        -- intros [E|E]; discriminate.
      * destruct Hpost as (Est & Ein & Ecu & E2 & Eout). rewrite Eout.
        destruct (hist_both h (hist_of inner) [o] cut HR Hcut) as [R1 R2].
        eapply si_ok_intro; [exact Eb|rewrite ?Est, ?Ein, ?Ecu, ?Ed, ?E2, ?Eh, ?Eout; simpl..]; auto.
        -- clear - Hc Hl. pure_cpl.
        -- intros [E|E]; discriminate.
  - (* clean *)
    intros [h P bd] H Hl. destruct bd; simpl in H; try tauto. destruct k; try tauto.
    destruct H as (Hc & HR & Hcut & Hterm & HG). simpl in Hl.
    destruct s as [x own err i d cut]. simpl in Hc, Hcut, Hterm.
    remember (pm_of inner) as N eqn:EN.
    simpl. destruct x; simpl; try solve [exfalso; clear - Hc Hl; pure_cpl].
    + (* not started: cleanup completes at once *)
      eapply si_ok_intro; [reflexivity|simpl..]; rewrite ?app_nil_r; auto.
      * rewrite <- EN. clear - Hc Hl. pure_cpl.
      * apply only_ids_nil.
    + (* completed: the child's cleanup *)
      assert (Hpre : pm_of inner = PIdle \/ pm_of inner = PEnded) by (rewrite <- EN; clear - Hc Hl; pure_cpl).
      pose proof (sp_clean _ _ _ _ S inner HG Hpre) as Hok.
      destruct (wl_clean _ L inner) as [Lh Lp].
      pose proof (sp_nobad _ _ _ _ S _ (proj1 Hok)) as Hnb. rewrite Lp in Hnb.
      destruct (pm_clean_nobad _ _ Hnb) as [_ Hcase].
      match goal with |- context [si_inner vr I ?s0 _] =>
        destruct (si_inner_facts vr I G ms ids S s0 inner _ Hok) as (s' & si' & Eb & HG' & Hm & Hi & Ed & Eh & Hpost) end.
      { intros o Eo. destruct Hcase as [[E _]|(o' & E & Ep)]; congruence. }
      unfold si_post in Hpost. simpl in Ed, Hpost. rewrite Lh in Eh. rewrite Lp in Hpost. rewrite <- EN in *.
      destruct (hist_both h (hist_of inner) [] cut HR Hcut) as [R1 R2].
      destruct Hcase as [[Eo Ep]|(oc & Eo & Ep)]; rewrite Eo in *; rewrite Ep in *; simpl in Eh.
      * destruct Hpost as (Est & Ein & Ecu & E2 & Eout).
        eapply si_ok_intro; [exact Eb|rewrite ?Est, ?Ein, ?Ecu, ?Ed, ?E2, ?Eh, ?Eout; simpl..]; auto.
        -- clear - Hc Hl. pure_cpl.
        -- intros [E|E]; discriminate.
      * destruct Hpost as (Est & Ein & Ecu & E2 & oc' & Eout).
        eapply si_ok_intro; [exact Eb|rewrite ?Est, ?Ein, ?Ecu, ?Ed, ?E2, ?Eh, ?Eout; simpl..]; auto.
        -- clear - Hc Hl. pure_cpl.
        -- intros [E|E]; discriminate.
    + (* stopped: remember the request *)
      eapply si_ok_intro; [reflexivity|simpl..]; rewrite ?app_nil_r; auto.
      * rewrite <- EN. clear - Hc Hl. pure_cpl.
      * apply only_ids_nil.
  - (* stop *)
    intros [h P bd] H. destruct bd; simpl in H; try tauto. destruct k; try tauto.
    destruct H as (Hc & HR & Hcut & Hterm & HG).
    destruct s as [x own err i d cut]. simpl in Hc, Hcut, Hterm.
    assert (Hidle : forall x', x = x' -> x' <> SActive ->
              ok (G_si G) (ms_un ms) ids (Node h P (BUn (KSI {| si_state := x'; si_own := own; si_err := err; si_incl := i; si_defer := d; si_cut := cut |}) inner))
                 (lift h (pm_other P None) (bidle (BUn (KSI {| si_state := x'; si_own := own; si_err := err; si_incl := i; si_defer := d; si_cut := cut |}) inner)))).
    { intros x' Ex Hx. subst x'. eapply si_ok_intro; [reflexivity|simpl..]; rewrite ?app_nil_r; auto. apply only_ids_nil. }
    simpl. destruct x; simpl; try (apply Hidle; [reflexivity|discriminate]). clear Hidle.
    (* active: done is delivered, the child is asked to stop *)
    remember (pm_of inner) as N eqn:EN.
    pose proof (sp_stop _ _ _ _ S inner HG) as Hok.
    destruct (wl_stop _ L inner) as [Lh Lp].
    pose proof (sp_nobad _ _ _ _ S _ (proj1 Hok)) as Hnb. rewrite Lp in Hnb. rewrite <- EN in *.
    assert (EN' : N = PBusy) by (clear - Hc; pure_cpl).
    match goal with |- context [si_inner vr I ?s0 _] =>
      destruct (si_inner_facts vr I G ms ids S s0 inner _ Hok) as (s' & si' & Eb & HG' & Hm & Hi & Ed & Eh & Hpost) end.
    { intros o Eo. rewrite Lp. destruct (pm_other_nobad _ _ Hnb) as [[E _]|[(o' & E & _ & Ep)|(o' & E & _)]]; try congruence.
      rewrite Ep. destruct (is_val o'); auto. }
    unfold si_post in Hpost. simpl in Ed, Hpost. rewrite Lh in Eh. rewrite Lp in Hpost.
    destruct (pm_other_nobad _ _ Hnb) as [[Eo Ep]|[(o & Eo & _ & Ep)|(o & Eo & EN2 & Ep)]]; [| |congruence];
      rewrite Eo in *; rewrite Ep in *; simpl in Eh; destruct Hpost as (Est & Ein & Ecu & E2 & Eout).
    + eapply si_ok_intro; [exact Eb|rewrite ?Est, ?Ein, ?Ecu, ?Ed, ?E2, ?Eh; simpl..]; auto; rewrite ?app_nil_r.
      * clear - Hc. pure_cpl.
      * apply Rh_done; auto.
      * intros E; discriminate.
      * intros _. split; [apply has_term_done|reflexivity].
    + eapply si_ok_intro; [exact Eb|rewrite ?Est, ?Ein, ?Ecu, ?Ed, ?E2, ?Eh; simpl..]; auto; rewrite ?app_nil_r.
      * clear - Hc. pure_cpl.
      * apply Rh_drop. apply Rh_done; auto. apply has_term_done.
      * intros E; discriminate.
      * intros [E|E]; discriminate.
  - (* leaf *)
    intros [h P bd] tg o H. destruct bd; try (simpl in H; tauto). destruct k; try (simpl in H; tauto).
    assert (HG : G inner) by (simpl in H; tauto).
    pose proof (sp_leaf _ _ _ _ S inner tg o HG) as Hok. destruct (wl_leaf _ L inner tg o) as [Lh Lp].
    simpl. destruct (o_leaf I inner tg o) as [r hit] eqn:E. simpl in *.
    eapply si_other_step; eauto.
  - (* flush *)
    intros [h P bd] H. destruct bd; try (simpl in H; tauto). destruct k; try (simpl in H; tauto).
    pose proof H as H0. simpl in H0. destruct H0 as (Hc & HR & Hcut & Hterm & HG).
    pose proof (sp_flush _ _ _ _ S inner HG) as Hok. destruct (wl_flush _ L inner) as [Lh Lp].
    destruct (si_defer s) eqn:Edf.
    + (* a deferred start of the child's next *)
      destruct s as [x own err i d cut]. simpl in Hc, Hcut, Hterm, Edf. subst d.
      remember (pm_of inner) as N eqn:EN.
      assert (Hx : (x = SStopped \/ x = SCleanupReq) /\ i = false /\ (N = PFresh \/ N = PIdle)) by (clear - Hc; pure_cpl).
      destruct Hx as (Hx & Ei & HN). subst i.
      destruct (Hterm Hx) as [T1 T2]. subst cut.
      pose proof (sp_nobad _ _ _ _ S _ (proj1 Hok)) as Hnb. rewrite Lp in Hnb.
      assert (Eo : r_out (o_flush I inner) = None).
      { destruct (pm_other_nobad _ _ Hnb) as [[E _]|[(o' & _ & E & _)|(o' & _ & E & _)]]; auto; destruct HN; congruence. }
      simpl.
      match goal with |- context [si_inner vr I ?s0 (o_flush I inner)] =>
        destruct (si_inner_facts vr I G ms ids S s0 inner _ Hok) as (s1 & si1 & Eb1 & HG1 & Hm1 & Hi1 & Ed1 & Eh1 & Hpost1) end.
      { intros o E. congruence. }
      unfold si_post in Hpost1. rewrite Eo in *. simpl in Lh, Lp, Ed1, Hpost1. rewrite app_nil_r in Lh.
      destruct Hpost1 as (Est1 & Ein1 & Ecu1 & E21 & Eout1). rewrite Lp in E21. rewrite Lh in Eh1.
      rewrite Eb1. cbv iota beta. rewrite Ed1. rewrite Eout1. rewrite opt_id.
      set (en := env_own (si_own s1)).
      assert (Hpre : pm_of si1 = PFresh \/ pm_of si1 = PIdle) by (rewrite E21; auto).
      pose proof (sp_next _ _ _ _ S si1 en HG1 Hpre) as Hok2.
      destruct (wl_next _ L si1 en) as [Lh2 Lp2].
      pose proof (sp_nobad _ _ _ _ S _ (proj1 Hok2)) as Hnb2. rewrite Lp2 in Hnb2.
      destruct (pm_next_nobad _ _ Hnb2) as [_ Hcase].
      destruct (si_inner_facts vr I G ms ids S (si_set_defer s1 false) si1 _ Hok2)
        as (s2 & si2 & Eb2 & HG2 & Hm2 & Hi2 & Ed2 & Eh2 & Hpost2).
      { intros o Eo2. rewrite Lp2. destruct Hcase as [[E _]|(o' & E & Ep)]; [congruence|]. rewrite Ep.
        destruct (is_val o'); auto. }
      unfold si_post in Hpost2. simpl in Ed2, Hpost2. rewrite Est1, Ein1, Ecu1 in Hpost2.
      rewrite Lh2, Eh1 in Eh2. rewrite Lp2 in Hpost2.
      match goal with |- context [bmk _ ?evs _ false] =>
        assert (Hm12 : forall id, mrun id (ms inner id) evs = Some (ms si2 id));
        [|assert (Hi12 : only_ids ids evs)] end.
      { intros id. eapply mrun_app_some. apply Hm1. eapply mrun_app_some; [|apply Hm2].
        apply mrun_noid. apply uaf0_noid. }
      { apply only_ids_app; auto. apply only_ids_app; auto. apply only_ids_noid. apply uaf0_noid. }
      destruct Hx; subst x; simpl in Hpost2;
        (destruct Hcase as [[Eo2 Ep2]|(o & Eo2 & Ep2)]; rewrite Eo2 in *; rewrite Ep2 in *; simpl in Eh2).
      * (* stopped, the child's next is outstanding *)
        destruct Hpost2 as (Est2 & Ein2 & Ecu2 & E22 & Eout2).
        eapply si_ok_intro; [exact Eb2|rewrite ?Est2, ?Ein2, ?Ecu2, ?Ed2, ?E22, ?Eh2; simpl; rewrite ?Eout2; simpl..]; auto;
        [clear - Hc; pure_cpl
          |rewrite ?app_nil_r; first [assumption|apply Rh_drop; auto]
          |intros E; discriminate
          |intros _; split; [apply has_term_app_l; auto|reflexivity]].
      * (* stopped, the child's next completed inline: dropped *)
        destruct Hpost2 as (Est2 & Ein2 & Ecu2 & E22 & Eout2).
        eapply si_ok_intro; [exact Eb2|rewrite ?Est2, ?Ein2, ?Ecu2, ?Ed2, ?E22, ?Eh2; simpl; rewrite ?Eout2; simpl..]; auto;
        [clear - Hc; pure_cpl
          |rewrite ?app_nil_r; first [assumption|apply Rh_drop; auto]
          |intros E; discriminate
          |intros _; split; [apply has_term_app_l; auto|reflexivity]].
      * (* cleanup requested, the child's next is outstanding *)
        destruct Hpost2 as (Est2 & Ein2 & Ecu2 & E22 & Eout2).
        eapply si_ok_intro; [exact Eb2|rewrite ?Est2, ?Ein2, ?Ecu2, ?Ed2, ?E22, ?Eh2; simpl; rewrite ?Eout2; simpl..]; auto;
        [clear - Hc; pure_cpl
          |rewrite ?app_nil_r; first [assumption|apply Rh_drop; auto]
          |intros E; discriminate
          |intros _; split; [apply has_term_app_l; auto|reflexivity]].
      * (* cleanup requested, the child's next completed inline: dropped, the child's cleanup is started *)
        destruct Hpost2 as (Est2 & Ein2 & Ecu2 & [[Eout2 E22]|(oc' & Eout2 & E22)]);
        (eapply si_ok_intro; [exact Eb2|rewrite ?Est2, ?Ein2, ?Ecu2, ?Ed2, ?E22, ?Eh2; simpl; rewrite ?Eout2; simpl..]; auto;
        [clear - Hc; pure_cpl
          |rewrite ?app_nil_r; first [assumption|apply Rh_drop; auto]
          |intros E; discriminate
          |intros _; split; [apply has_term_app_l; auto|reflexivity]]).
    + (* nothing deferred *)
      pose proof (si_other_step vr I G ms ids S h P s inner _ H Hok Lh Lp) as Hstep.
      destruct (si_inner_shape vr I s (o_flush I inner)) as (s' & si' & Eb & Ed).
      simpl. rewrite Eb. rewrite Ed, Edf. exact Hstep.
  - (* arm *)
    intros [h P bd] H. simpl. split; auto.
  - (* stop_done *)
    intros [h P bd]. simpl. destruct bd; simpl; auto. destruct k; simpl; auto. destruct (si_state s); simpl; auto.
  - (* budget *)
    intros [h P bd] en v. simpl. destruct bd; simpl; try congruence. destruct k; simpl; try congruence.
    destruct (e_stopped en); simpl; try congruence. destruct (e_armed en); simpl; try congruence.
    with_strategy transparent [si_inner] unfold si_inner.
    destruct (r_out (o_next I inner (env_own (si_own s)))) as [[[] o]|] eqn:E; simpl.
    + unfold si_signal. simpl. intros E'. inversion E'; subst. eapply (sp_blaw _ _ _ _ S); eauto.
    + with_strategy transparent [si_cleanup_done] unfold si_cleanup_done. simpl. congruence.
    + congruence.
  - (* quiet *)
    intros [h P bd] H Hq id. destruct bd; simpl in H; try tauto. destruct k; try tauto.
    destruct H as (Hc & _ & _ & _ & HG). simpl in *. apply (sp_quiet _ _ _ _ S); auto.
    destruct s as [x own err i d cut]. simpl in Hc. remember (pm_of inner) as N. clear - Hc Hq. pure_cpl.
Qed.
