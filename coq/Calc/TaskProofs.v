(* Proofs about the coroutine-task calculus TCalc (property C10).
   Main result: every trace of every body under every script is accepted by the executable monitor
   TCalc.monitor (exec_monitored); the trace-level corollaries (cleanups LIFO / once / before the
   parent, locals, frames, stop) are derived from acceptance by the monitor alone, so they also hold
   for every implementation trace the monitor accepts in the K2 tie. *)
From Coq Require Import ZArith List Bool Arith Lia Sorted.
From V Require Import Calc.TaskDefs.
Import ListNotations.
Import TCalc.

(* ---------------------------------------------------------------------------------------------- *)
(* monitor states reached by the machine                                                          *)
Definition Mk (live : list lst) (nx : nat) (st : bool) (w : option (nat * bool)) (e : option nat) : mst :=
  {| m_live := live; m_next := nx; m_root := false; m_opd := false; m_stopped := st; m_wait := w;
     m_expect := e; m_dead := false |}.
Definition ML (live : list lst) (nx : nat) (st : bool) : mst := Mk live nx st None None.
Definition MR (live : list lst) (nx : nat) (st : bool) (opd : bool) : mst :=
  {| m_live := live; m_next := nx; m_root := true; m_opd := opd; m_stopped := st; m_wait := None;
     m_expect := None; m_dead := false |}.

Definition ids (cls : list cleanup) : list nat := map c_id cls.
Definition absb (f : frame) : lst := mklst (f_n f) (frame_locals f) (ids (f_cleanups f)) None false.
Definition nums (l : list frame) : list nat := map f_n l.
Definition sdesc : list nat -> Prop := StronglySorted (fun a b => b < a).

Lemma mon_run_app : forall tr1 tr2 m,
  mon_run m (tr1 ++ tr2) = match mon_run m tr1 with Some m' => mon_run m' tr2 | None => None end.
Proof.
  induction tr1; simpl; intros; auto.
  destruct (mon_step m a); auto.
Qed.

Lemma mon_run_app_some : forall tr1 tr2 m m1,
  mon_run m tr1 = Some m1 -> mon_run m (tr1 ++ tr2) = mon_run m1 tr2.
Proof. intros. rewrite mon_run_app, H. reflexivity. Qed.

(* frames above the acting one: quiet and numbered differently *)
Definition Zok (n : nat) (Z : list lst) : Prop := Forall (fun z => quiet z = true /\ l_n z <> n) Z.

Lemma upd_skip : forall n f Z s rest, Zok n Z -> l_n s = n ->
  upd n f (Z ++ s :: rest) = option_map (fun s' => Z ++ s' :: rest) (f s).
Proof.
  induction Z; simpl; intros.
  - rewrite H0, Nat.eqb_refl. reflexivity.
  - inversion H; subst. destruct H3 as [Hq Hn].
    apply Nat.eqb_neq in Hn. rewrite Hn, Hq. rewrite IHZ; auto.
    destruct (f s); reflexivity.
Qed.

Lemma Zok_nil : forall n, Zok n []. Proof. constructor. Qed.
#[global] Hint Resolve Zok_nil : core.

(* ---- one-event lemmas --------------------------------------------------------------------------- *)
Lemma step_frame : forall B nx st,
  mon_step (ML B nx st) (TFrame nx) = Some (ML (mklst nx [] [] None false :: B) (S nx) st).
Proof. intros. unfold mon_step, ML, Mk; simpl. rewrite Nat.eqb_refl. reflexivity. Qed.

Lemma step_ctor : forall Z n L P B nx st id, Zok n Z ->
  mon_step (ML (Z ++ mklst n L P None false :: B) nx st) (TLocalCtor n id)
  = Some (ML (Z ++ mklst n (id :: L) P None false :: B) nx st).
Proof.
  intros. unfold mon_step, ML, Mk, frame_ev; simpl. rewrite upd_skip; auto.
Qed.

Lemma step_dtor : forall Z n L P b B nx st id, Zok n Z ->
  mon_step (ML (Z ++ mklst n (id :: L) P None b :: B) nx st) (TLocalDtor n id)
  = Some (ML (Z ++ mklst n L P None b :: B) nx st).
Proof.
  intros. unfold mon_step, ML, Mk, frame_ev; simpl. rewrite upd_skip; auto.
  simpl. rewrite Nat.eqb_refl. reflexivity.
Qed.

Lemma step_reg : forall Z n L P B nx st c, Zok n Z ->
  mon_step (ML (Z ++ mklst n L P None false :: B) nx st) (TCleanupReg n c)
  = Some (ML (Z ++ mklst n L (c :: P) None false :: B) nx st).
Proof.
  intros. unfold mon_step, ML, Mk, frame_ev; simpl. rewrite upd_skip; auto.
Qed.

Lemma step_run : forall Z n L P b B nx st c, Zok n Z ->
  mon_step (ML (Z ++ mklst n L (c :: P) None b :: B) nx st) (TCleanupRun n c)
  = Some (ML (Z ++ mklst n L P (Some c) true :: B) nx st).
Proof.
  intros. unfold mon_step, ML, Mk, frame_ev; simpl. rewrite upd_skip; auto.
  simpl. rewrite Nat.eqb_refl. reflexivity.
Qed.

Lemma step_end : forall Z n L P b B nx st c, Zok n Z ->
  mon_step (ML (Z ++ mklst n L P (Some c) b :: B) nx st) (TCleanupEnd n c)
  = Some (ML (Z ++ mklst n L P None b :: B) nx st).
Proof.
  intros. unfold mon_step, ML, Mk, frame_ev; simpl. rewrite upd_skip; auto.
  simpl. rewrite Nat.eqb_refl. reflexivity.
Qed.

Lemma step_framedtor : forall n b B nx st,
  mon_step (ML (mklst n [] [] None b :: B) nx st) (TFrameDestroyed n) = Some (ML B nx st).
Proof. intros. unfold mon_step, ML, Mk; simpl. rewrite Nat.eqb_refl. reflexivity. Qed.

Lemma step_leafstart : forall live nx st id sp,
  mon_step (ML live nx st) (TLeafStart id (sp && st) sp)
  = Some (Mk live nx st (Some (id, sp)) (if sp && st then Some id else None)).
Proof. intros. unfold mon_step, ML, Mk; simpl. rewrite Bool.eqb_reflx. reflexivity. Qed.

Lemma step_awstart : forall live nx st id,
  mon_step (ML live nx st) (TAwStart id) = Some (Mk live nx st (Some (id, false)) None).
Proof. reflexivity. Qed.

Lemma step_stopseen : forall live nx st id sp,
  mon_step (Mk live nx st (Some (id, sp)) (Some id)) (TLeafStopSeen id) = Some (Mk live nx st (Some (id, sp)) None).
Proof. intros. unfold mon_step, Mk; simpl. rewrite Nat.eqb_refl. reflexivity. Qed.

Lemma step_leafdone : forall live nx st id sp o,
  mon_step (Mk live nx st (Some (id, sp)) None) (TLeafDone id o) = Some (ML live nx st).
Proof. intros. unfold mon_step, ML, Mk; simpl. rewrite Nat.eqb_refl. reflexivity. Qed.

Lemma step_stopreq : forall live nx w,
  mon_step (Mk live nx false w None) TStopReq
  = Some (Mk live nx true w (match w with Some (id, true) => Some id | _ => None end)).
Proof. reflexivity. Qed.

Lemma dtors_sim : forall L1 Z n L2 P b B nx st, Zok n Z ->
  mon_run (ML (Z ++ mklst n (L1 ++ L2) P None b :: B) nx st) (dtors n L1)
  = Some (ML (Z ++ mklst n L2 P None b :: B) nx st).
Proof.
  induction L1; simpl; intros; auto.
  rewrite step_dtor by auto. apply IHL1; auto.
Qed.

(* ---- cleanups ----------------------------------------------------------------------------------- *)
Lemma run_cleanups_sim : forall cls n Z L b B nx st, Zok n Z ->
  match run_cleanups n cls with
  | (tr, None) => exists b',
      mon_run (ML (Z ++ mklst n L (ids cls) None b :: B) nx st) tr
      = Some (ML (Z ++ mklst n L [] None b' :: B) nx st)
  | (tr, Some (c, pend)) => exists l, c_leaf c = Some l /\
      mon_run (ML (Z ++ mklst n L (ids cls) None b :: B) nx st) tr
      = Some (Mk (Z ++ mklst n L (ids pend) (Some (c_id c)) true :: B) nx st (Some (l, false)) None)
  end.
Proof.
  induction cls; simpl; intros.
  - exists b. reflexivity.
  - destruct (c_leaf a) eqn:El.
    + exists n0. split; auto.
      cbn [mon_run]. rewrite step_run by auto. reflexivity.
    + specialize (IHcls n Z L true B nx st H).
      destruct (run_cleanups n cls) as [tr r].
      cbn [mon_run]. rewrite step_run by auto. rewrite step_end by auto.
      exact IHcls.
Qed.

(* ---------------------------------------------------------------------------------------------- *)
(* abstraction of machine configurations                                                          *)
Definition zrel (z : frame) (s : lst) : Prop := exists b, s = mklst (f_n z) (frame_locals z) [] None b.
Definition stoppable (kd : lkind) : bool := match kd with LAw => false | _ => true end.
Definition seen_ok (kd : lkind) (seen st : bool) : Prop :=
  match kd with
  | LPlain => seen = st
  | LReactive => seen = false /\ st = false
  | LAw => seen = false
  end.
Definition exit_locals (o : outcome) (f : frame) : list nat :=
  match o with ODone => frame_locals f | _ => [] end.

Definition absg (g : gcfg) (st : bool) (nx : nat) (m : mst) : Prop :=
  match g with
  | GSusp (SLeaf id kd seen) stack =>
      m = Mk (map absb stack) nx st (Some (id, stoppable kd)) None /\ seen_ok kd seen st
  | GSusp (SExit o c zs) (f :: rest) =>
      exists Z l, Forall2 zrel zs Z /\ c_leaf c = Some l /\
        m = Mk (Z ++ mklst (f_n f) (exit_locals o f) (ids (f_cleanups f)) (Some (c_id c)) true :: map absb rest)
               nx st (Some (l, false)) None /\
        (o <> ODone -> zs = [])
  | GSusp (SExit _ _ _) [] => False
  | GRootDone zs => exists Z, Forall2 zrel zs Z /\ m = MR Z nx st false
  | GFinished => m = MR [] nx st false
  | GDead => m_dead m = true
  end.

Definition okl (nx : nat) (l : list nat) : Prop := sdesc l /\ Forall (fun a => a < nx) l.
Definition okg (g : gcfg) (nx : nat) : Prop :=
  match g with
  | GSusp (SLeaf _ _ _) stack => okl nx (nums stack)
  | GSusp (SExit _ _ zs) stack => okl nx (nums zs ++ nums stack)
  | GRootDone zs => okl nx (nums zs)
  | _ => True
  end.

Lemma sdesc_inv : forall a l, sdesc (a :: l) -> sdesc l /\ Forall (fun b => b < a) l.
Proof. intros. inversion H; subst. split; auto. Qed.

Lemma sdesc_app : forall l1 l2, sdesc (l1 ++ l2) ->
  sdesc l1 /\ sdesc l2 /\ (forall a b, In a l1 -> In b l2 -> b < a).
Proof.
  induction l1; simpl; intros.
  - split; [constructor|]. split; auto. intros; contradiction.
  - apply sdesc_inv in H. destruct H as [H1 H2].
    destruct (IHl1 _ H1) as (Ha & Hb & Hc).
    rewrite Forall_app in H2. destruct H2 as [H2a H2b].
    split; [constructor; auto|]. split; auto.
    intros x y [Hx|Hx] Hy; subst.
    + rewrite Forall_forall in H2b. auto.
    + eauto.
Qed.

Lemma okl_mono : forall nx nx' l, nx <= nx' -> okl nx l -> okl nx' l.
Proof.
  unfold okl; intros. destruct H0; split; auto.
  eapply Forall_impl; [|eassumption]. simpl; intros; lia.
Qed.

Lemma okl_cons : forall nx n l, n < nx -> sdesc (n :: l) -> okl nx (n :: l).
Proof.
  unfold okl; intros. split; auto. constructor; auto.
  apply sdesc_inv in H0. destruct H0 as [_ H0].
  eapply Forall_impl; [|eassumption]. simpl; intros; lia.
Qed.

Lemma zrel_quiet : forall zs Z, Forall2 zrel zs Z -> forallb quiet Z = true.
Proof.
  induction 1; simpl; auto. destruct H as [b ->]. simpl. auto.
Qed.

Lemma zrel_Zok : forall n zs Z, Forall2 zrel zs Z -> (forall a, In a (nums zs) -> n < a) -> Zok n Z.
Proof.
  induction 1; intros; constructor.
  - destruct H as [b ->]. simpl. split; auto.
    assert (n < f_n x) by (apply H1; simpl; auto). lia.
  - apply IHForall2. intros. apply H1. simpl; auto.
Qed.

Lemma zrel_app : forall zs Z f s, Forall2 zrel zs Z -> zrel f s -> Forall2 zrel (zs ++ [f]) (Z ++ [s]).
Proof. intros. apply Forall2_app; auto. Qed.

(* ---- post-conditions of running code ------------------------------------------------------------ *)
Definition post (n : nat) (trys : list tryent) (below : list frame) (st : bool) (nx : nat) (m : mst) (r : res)
  : Prop :=
  match r with
  | RVal _ nx' tr => nx <= nx' /\ mon_run m tr = Some (ML (map absb below) nx' st)
  | RErr _ nx' tr => nx <= nx' /\ mon_run m tr = Some (ML (map absb below) nx' st)
  | RThrowOut _ cls' nx' tr =>
      nx <= nx' /\
      mon_run m tr = Some (ML (mklst n (all_locals [] trys) (ids cls') None false :: map absb below) nx' st)
  | RGlob g nx' tr => nx <= nx' /\ exists m', mon_run m tr = Some m' /\ absg g st nx' m' /\ okg g nx'
  end.

Lemma post_pre : forall n trys below st nx nx0 m m1 tr0 r,
  mon_run m tr0 = Some m1 -> nx0 <= nx -> post n trys below st nx m1 r -> post n trys below st nx0 m (pre tr0 r).
Proof.
  intros. destruct r; simpl in *.
  - destruct H1; split; [lia|]. rewrite (mon_run_app_some _ _ _ _ H). auto.
  - destruct H1; split; [lia|]. rewrite (mon_run_app_some _ _ _ _ H). auto.
  - destruct H1; split; [lia|]. rewrite (mon_run_app_some _ _ _ _ H). auto.
  - destruct H1 as (Hn & m' & Hr & Ha); split; [lia|]. exists m'.
    rewrite (mon_run_app_some _ _ _ _ H). auto.
Qed.

Lemma post_trys : forall n trys trys' below st nx m r,
  (forall x cls nx' tr, r <> RThrowOut x cls nx' tr) ->
  post n trys below st nx m r -> post n trys' below st nx m r.
Proof. intros. destruct r; simpl in *; auto. exfalso. eapply H; eauto. Qed.

Definition pc (n : nat) (below : list frame) (nx : nat) : Prop := n < nx /\ sdesc (n :: nums below).

Lemma pc_mono : forall n below nx nx', nx <= nx' -> pc n below nx -> pc n below nx'.
Proof. unfold pc; intros. destruct H0; split; auto; lia. Qed.

(* final_suspend of a task that returned or threw *)
Lemma finish_sim : forall n trys o cls below nx st b,
  (match o with ODone => False | _ => True end) -> pc n below nx ->
  post n trys below st nx (ML (mklst n [] (ids cls) None b :: map absb below) nx st) (finish n o cls below nx).
Proof.
  intros. unfold finish.
  pose proof (run_cleanups_sim cls n [] [] b (map absb below) nx st (Zok_nil n)) as HS.
  destruct (run_cleanups n cls) as [tr [[c pend]|]].
  - destruct HS as (l & Hl & HS). simpl in HS. simpl. split; auto.
    eexists. split; [exact HS|]. split.
    + exists [], l. split; [constructor|]. split; auto. split.
      * destruct o; try contradiction; reflexivity.
      * auto.
    + simpl. destruct H0. apply okl_cons; auto.
  - destruct HS as (b' & HS). simpl in HS.
    destruct o; try contradiction; simpl; (split; [lia|]);
      rewrite (mon_run_app_some _ _ _ _ HS); simpl; rewrite step_framedtor; reflexivity.
Qed.

Lemma unwind_done_cons : forall zs f rest,
  unwind_done zs (f :: rest) =
  match run_cleanups (f_n f) (f_cleanups f) with
  | (tr, None) => let (g, tr') := unwind_done (zs ++ [set_cleanups f []]) rest in (g, tr ++ tr')
  | (tr, Some (c, pending)) => (GSusp (SExit ODone c zs) (set_cleanups f pending :: rest), tr)
  end.
Proof. reflexivity. Qed.

(* the done path *)
Lemma unwind_done_sim : forall rest f zs Z b nx st,
  Forall2 zrel zs Z -> okl nx (nums zs ++ nums (f :: rest)) ->
  let '(g, tr) := unwind_done zs (f :: rest) in
  exists m', mon_run (ML (Z ++ mklst (f_n f) (frame_locals f) (ids (f_cleanups f)) None b :: map absb rest) nx st) tr
             = Some m' /\ absg g st nx m' /\ okg g nx.
Proof.
  induction rest as [|f' rest IH]; intros f zs Z b nx st HZ Hok.
  - (* the outermost task: the root receiver is completed with done *)
    cbn [unwind_done].
    assert (HZok : Zok (f_n f) Z).
    { eapply zrel_Zok; eauto. destruct Hok as [Hs _]. apply sdesc_app in Hs.
      destruct Hs as (_ & _ & Hs). intros. apply Hs; simpl; auto. }
    pose proof (run_cleanups_sim (f_cleanups f) (f_n f) Z (frame_locals f) b [] nx st HZok) as HS.
    destruct (run_cleanups (f_n f) (f_cleanups f)) as [tr [[c pend]|]].
    + destruct HS as (l & Hl & HS). eexists. split; [exact HS|]. split.
      * simpl. exists Z, l. repeat split; auto. intros; congruence.
      * simpl. exact Hok.
    + destruct HS as (b' & HS). cbn [unwind_done].
      eexists. split.
      * rewrite (mon_run_app_some _ _ _ _ HS). cbn [mon_run].
        unfold mon_step, ML, Mk; simpl.
        assert (Hq : forallb quiet (Z ++ [mklst (f_n f) (frame_locals f) [] None b']) = true).
        { rewrite forallb_app. rewrite (zrel_quiet _ _ HZ). reflexivity. }
        rewrite Hq. reflexivity.
      * split.
        -- simpl. exists (Z ++ [mklst (f_n f) (frame_locals f) [] None b']). split; auto.
           apply zrel_app; auto. exists b'. reflexivity.
        -- simpl. unfold nums. rewrite map_app. simpl. exact Hok.
  - rewrite unwind_done_cons.
    assert (HZok : Zok (f_n f) Z).
    { eapply zrel_Zok; eauto. destruct Hok as [Hs _]. apply sdesc_app in Hs.
      destruct Hs as (_ & _ & Hs). intros. apply Hs; simpl; auto. }
    pose proof (run_cleanups_sim (f_cleanups f) (f_n f) Z (frame_locals f) b (map absb (f' :: rest)) nx st HZok) as HS.
    destruct (run_cleanups (f_n f) (f_cleanups f)) as [tr [[c pend]|]].
    + destruct HS as (l & Hl & HS). eexists. split; [exact HS|]. split.
      * simpl. exists Z, l. repeat split; auto. intros; congruence.
      * simpl. exact Hok.
    + destruct HS as (b' & HS).
      assert (HZ' : Forall2 zrel (zs ++ [set_cleanups f []]) (Z ++ [mklst (f_n f) (frame_locals f) [] None b'])).
      { apply zrel_app; auto. exists b'. reflexivity. }
      assert (Hok' : okl nx (nums (zs ++ [set_cleanups f []]) ++ nums (f' :: rest))).
      { unfold nums in *. rewrite map_app. simpl. rewrite <- app_assoc. simpl. exact Hok. }
      specialize (IH f' _ _ false nx st HZ' Hok').
      destruct (unwind_done (zs ++ [set_cleanups f []]) (f' :: rest)) as [g tr'].
      destruct IH as (m' & Hm & Ha & Hk).
      exists m'. split; [|split; assumption].
      rewrite (mon_run_app_some _ _ _ _ HS). rewrite <- app_assoc in Hm. simpl in Hm. exact Hm.
Qed.

Lemma finish_not_throw : forall n o cls below nx x c nx' tr, finish n o cls below nx <> RThrowOut x c nx' tr.
Proof.
  intros. unfold finish. destruct (run_cleanups n cls) as [tr' [[c' p]|]]; try discriminate.
  destruct o; discriminate.
Qed.

Lemma pre_not_throw : forall tr0 r, (forall x c nx' tr, r <> RThrowOut x c nx' tr) ->
  forall x c nx' tr, pre tr0 r <> RThrowOut x c nx' tr.
Proof. intros. destruct r; simpl; try discriminate. exfalso. eapply H; eauto. Qed.

Lemma close_body_sim : forall m below st nx0 m0 r,
  pc m below nx0 -> post m [] below st nx0 m0 r ->
  post m [] below st nx0 m0 (close_body m below r) /\
  (forall x c nx' tr, close_body m below r <> RThrowOut x c nx' tr).
Proof.
  intros. destruct r; simpl; try (split; [assumption|discriminate]).
  simpl in H0. destruct H0 as [Hn Hr]. split.
  - eapply post_pre; [exact Hr|exact Hn|].
    apply finish_sim; simpl; auto. eapply pc_mono; eauto.
  - apply pre_not_throw. intros. apply finish_not_throw.
Qed.

Fixpoint csize (e : coexpr) : nat :=
  match e with
  | CRet _ => 1
  | CThrow _ => 1
  | CAwait s k => S (asize s + csize k)
  | CLocal _ k => S (csize k)
  | CAtExit _ k => S (csize k)
  | CTry b h => S (csize b + csize h)
  end
with asize (s : aw) : nat :=
  match s with ATask b => S (csize b) | _ => 1 end.

Definition Mb (n : nat) (scope : list nat) (trys : list tryent) (cls : list cleanup) (below : list frame)
           (nx : nat) (st : bool) : mst :=
  ML (mklst n (all_locals scope trys) (ids cls) None false :: map absb below) nx st.

Lemma pc_child : forall n below nx me, f_n me = n -> pc n below nx -> pc nx (me :: below) (S nx).
Proof.
  unfold pc; intros. destruct H0. split; [lia|].
  simpl. rewrite H. constructor; auto.
  constructor; [assumption|].
  apply sdesc_inv in H1. destruct H1 as [_ H1].
  eapply Forall_impl; [|exact H1]. simpl; intros; lia.
Qed.

Lemma okl_pc : forall n below nx, pc n below nx -> okl nx (n :: nums below).
Proof. intros. destruct H. apply okl_cons; auto. Qed.

Lemma steps_reactive_stopped : forall live nx id,
  mon_run (ML live nx true) [TLeafStart id true true; TLeafStopSeen id; TLeafDone id ODone] = Some (ML live nx true).
Proof. intros. unfold ML, Mk. cbn. rewrite Nat.eqb_refl. cbn. rewrite Nat.eqb_refl. reflexivity. Qed.

Lemma step_ctor0 : forall n L P B nx st id,
  mon_step (ML (mklst n L P None false :: B) nx st) (TLocalCtor n id) = Some (ML (mklst n (id :: L) P None false :: B) nx st).
Proof. intros. exact (step_ctor [] n L P B nx st id (Zok_nil n)). Qed.
Lemma step_reg0 : forall n L P B nx st c,
  mon_step (ML (mklst n L P None false :: B) nx st) (TCleanupReg n c) = Some (ML (mklst n L (c :: P) None false :: B) nx st).
Proof. intros. exact (step_reg [] n L P B nx st c (Zok_nil n)). Qed.

Ltac leafsolve :=
  simpl; split; [lia|]; eexists; split; [unfold Mb, ML, Mk; cbn; rewrite ?Nat.eqb_refl; cbn; rewrite ?Nat.eqb_refl; reflexivity|].

(* running code of a frame *)
Lemma run_body_sim : forall N e, csize e <= N ->
  forall n env scope trys cls below st nx, pc n below nx ->
  post n trys below st nx (Mb n scope trys cls below nx st) (run_body n e env scope trys cls below st nx).
Proof.
  induction N; intros e Hsz; [destruct e; simpl in Hsz; lia|].
  intros n env scope trys cls below st nx Hpc.
  destruct e; simpl in Hsz.
  - (* CRet *)
    simpl. eapply post_pre with (nx := nx).
    + pose proof (dtors_sim (all_locals scope trys) [] n [] (ids cls) false (map absb below) nx st (Zok_nil n)) as HD.
      rewrite app_nil_r in HD. exact HD.
    + lia.
    + apply finish_sim; simpl; auto.
  - (* CThrow *)
    simpl. split; [lia|]. unfold Mb, all_locals. simpl.
    exact (dtors_sim scope [] n (flat_map te_seg trys) (ids cls) false (map absb below) nx st (Zok_nil n)).
  - (* CAwait *)
    destruct s; simpl in Hsz.
    + (* AJust *) simpl. eapply post_pre with (nx := nx); [reflexivity|lia|]. apply IHN; [lia|assumption].
    + (* AErr *) simpl. split; [lia|]. unfold Mb, all_locals. simpl.
      exact (dtors_sim scope [] n (flat_map te_seg trys) (ids cls) false (map absb below) nx st (Zok_nil n)).
    + (* ADone *)
      cbn [run_body].
      pose proof (unwind_done_sim below (mkframe n scope trys cls env e) [] [] false nx st (Forall2_nil _)) as HU.
      destruct (unwind_done [] (mkframe n scope trys cls env e :: below)) as [g tr'].
      simpl. split; [lia|]. apply HU. simpl. apply okl_pc; assumption.
    + (* AAwJust *) simpl. eapply post_pre with (nx := nx); [reflexivity|lia|]. apply IHN; [lia|assumption].
    + (* AAwErr *) simpl. split; [lia|]. unfold Mb, all_locals. simpl.
      exact (dtors_sim scope [] n (flat_map te_seg trys) (ids cls) false (map absb below) nx st (Zok_nil n)).
    + (* ALeaf *)
      pose proof (okl_pc _ _ _ Hpc) as Hok.
      destruct kd, st; cbn [run_body start_leaf].
      * leafsolve. split; [split; reflexivity|exact Hok].
      * leafsolve. split; [split; reflexivity|exact Hok].
      * pose proof (unwind_done_sim below (mkframe n scope trys cls env e) [] [] false nx true (Forall2_nil _)) as HU.
        destruct (unwind_done [] (mkframe n scope trys cls env e :: below)) as [g tr'].
        split; [lia|].
        destruct HU as (m' & Hm & Ha & Hk); [simpl; exact Hok|].
        exists m'. split; [|split; assumption].
        unfold Mb. rewrite (mon_run_app_some _ _ _ _ (steps_reactive_stopped _ nx id)). exact Hm.
      * leafsolve. split; [split; [reflexivity|split; reflexivity]|exact Hok].
      * leafsolve. split; [split; reflexivity|exact Hok].
      * leafsolve. split; [split; reflexivity|exact Hok].
    + (* ATask *)
      cbn [run_body].
      set (me := mkframe n scope trys cls env e).
      assert (Hc : pc nx (me :: below) (S nx)) by (eapply pc_child; eauto; reflexivity).
      pose proof (IHN body ltac:(lia) nx env [] [] [] (me :: below) st (S nx) Hc) as HB.
      destruct (close_body_sim nx (me :: below) st (S nx) _ _ Hc HB) as [HC HNT].
      assert (HF : mon_step (Mb n scope trys cls below nx st) (TFrame nx) = Some (Mb nx [] [] [] (me :: below) (S nx) st)).
      { unfold Mb. rewrite step_frame. reflexivity. }
      destruct (close_body nx (me :: below) (run_body nx body env [] [] [] (me :: below) st (S nx))) as [v nx' tr|x nx' tr|x c nx' tr|g nx' tr].
      * (* the child returned a value: continue after the co_await *)
        simpl in HC. destruct HC as [Hn Hr].
        eapply post_pre with (nx := nx').
        -- cbn [mon_run]. rewrite HF. exact Hr.
        -- lia.
        -- apply IHN; [lia|]. eapply pc_mono; [|exact Hpc]. lia.
      * (* the child ended with an exception: rethrown at the co_await *)
        simpl in HC. destruct HC as [Hn Hr].
        simpl. split; [lia|].
        cbn [mon_run]. rewrite HF. rewrite (mon_run_app_some _ _ _ _ Hr).
        unfold all_locals. simpl.
        exact (dtors_sim scope [] n (flat_map te_seg trys) (ids cls) false (map absb below) nx' st (Zok_nil n)).
      * exfalso. eapply HNT; reflexivity.
      * simpl in HC. destruct HC as (Hn & m' & Hr & Ha & Hk).
        simpl. split; [lia|]. exists m'. split; [|split; assumption].
        rewrite HF. exact Hr.
  - (* CLocal *)
    simpl. eapply post_pre with (nx := nx).
    + cbn [mon_run]. unfold Mb. rewrite step_ctor0. reflexivity.
    + lia.
    + apply IHN; [lia|assumption].
  - (* CAtExit *)
    simpl. eapply post_pre with (nx := nx).
    + cbn [mon_run]. unfold Mb. rewrite step_reg0. reflexivity.
    + lia.
    + apply (IHN e ltac:(lia) n env scope trys (c :: cls) below st nx Hpc).
  - (* CTry *)
    cbn [run_body].
    pose proof (IHN e1 ltac:(lia) n env [] ((e2, env, scope) :: trys) cls below st nx Hpc) as HB.
    assert (HM : Mb n [] ((e2, env, scope) :: trys) cls below nx st = Mb n scope trys cls below nx st) by reflexivity.
    rewrite HM in HB.
    destruct (run_body n e1 env [] ((e2, env, scope) :: trys) cls below st nx) as [v nx' tr|x nx' tr|x c nx' tr|g nx' tr];
      try exact HB.
    simpl in HB. destruct HB as [Hn Hr].
    eapply post_pre with (nx := nx'); [exact Hr|lia|].
    apply (IHN e2 ltac:(lia) n (x :: env) scope trys c below st nx'). eapply pc_mono; eauto.
Qed.

Lemma catch_loop_sim : forall trys trys0 n x cls below st nx, pc n below nx ->
  post n trys0 below st nx (Mb n [] trys cls below nx st) (catch_loop n x trys cls below st nx) /\
  (forall x' c nx' tr, catch_loop n x trys cls below st nx <> RThrowOut x' c nx' tr).
Proof.
  induction trys as [|[[h henv] seg] more IH]; intros trys0 n x cls below st nx Hpc.
  - simpl. split.
    + apply finish_sim; simpl; auto.
    + intros. apply finish_not_throw.
  - cbn [catch_loop].
    pose proof (run_body_sim _ h (le_n _) n (x :: henv) seg more cls below st nx Hpc) as HB.
    assert (HM : Mb n seg more cls below nx st = Mb n [] ((h, henv, seg) :: more) cls below nx st) by reflexivity.
    rewrite HM in HB.
    destruct (run_body n h (x :: henv) seg more cls below st nx) as [v nx' tr|x' nx' tr|x' c nx' tr|g nx' tr].
    + split; [exact HB|discriminate].
    + split; [exact HB|discriminate].
    + simpl in HB. destruct HB as [Hn Hr].
      destruct (IH trys0 n x' c below st nx' (pc_mono _ _ _ _ Hn Hpc)) as [H1 H2].
      split.
      * eapply post_pre with (nx := nx'); [exact Hr|lia|exact H1].
      * apply pre_not_throw. exact H2.
    + split; [exact HB|discriminate].
Qed.

Lemma catch_res_sim : forall n trys trys0 below st nx m r, pc n below nx ->
  post n trys below st nx m r ->
  post n trys0 below st nx m (catch_res n trys below st r) /\
  (forall x' c nx' tr, catch_res n trys below st r <> RThrowOut x' c nx' tr).
Proof.
  intros. destruct r; simpl; try (split; [exact H0|discriminate]).
  simpl in H0. destruct H0 as [Hn Hr].
  destruct (catch_loop_sim trys trys0 n x cls below st nx0 (pc_mono _ _ _ _ Hn H)) as [H1 H2].
  split.
  - eapply post_pre with (nx := nx0); [exact Hr|exact Hn|exact H1].
  - apply pre_not_throw. exact H2.
Qed.

Definition gpost (st : bool) (nx : nat) (m : mst) (x : gcfg * nat * list tev) : Prop :=
  let '(g, nx', tr) := x in
  nx <= nx' /\ exists m', mon_run m tr = Some m' /\ absg g st nx' m' /\ okg g nx'.

Lemma okl_inv : forall nx a l, okl nx (a :: l) -> okl nx l /\ a < nx /\ sdesc (a :: l).
Proof.
  unfold okl; intros. destruct H as [Hs Hf]. inversion Hf; subst.
  apply sdesc_inv in Hs as Hs'. destruct Hs'. repeat split; auto.
Qed.

Lemma step_root_val : forall nx st o, (match o with ODone => False | _ => True end) ->
  mon_step (ML [] nx st) (TRoot o) = Some (MR [] nx st false).
Proof. intros. destruct o; try contradiction; reflexivity. Qed.

(* the operation awaited by the innermost suspended frame completed *)
Lemma resume_sim : forall stack o st nx, okl nx (nums stack) ->
  gpost st nx (ML (map absb stack) nx st) (resume stack o st nx).
Proof.
  induction stack as [|p rest IH]; intros o st nx Hok.
  - destruct o; simpl; (split; [lia|]); eexists; (split; [reflexivity|]); simpl; auto.
    split; [|unfold okl; split; constructor]. exists []. split; [constructor|reflexivity].
  - simpl in Hok. apply okl_inv in Hok. destruct Hok as (Hokr & Hlt & Hsd).
    assert (Hpc : pc (f_n p) rest nx) by (split; assumption).
    cbn [resume].
    set (r := match o with
              | OVal v => run_body (f_n p) (f_k p) (v :: f_env p) (f_scope p) (f_trys p) (f_cleanups p) rest st nx
              | OErr x => RThrowOut x (f_cleanups p) nx (dtors (f_n p) (f_scope p))
              | ODone => let (g, tr) := unwind_done [] (p :: rest) in RGlob g nx tr
              end).
    assert (Hr : post (f_n p) (f_trys p) rest st nx (ML (map absb (p :: rest)) nx st) r).
    { subst r. destruct o.
      - exact (run_body_sim _ (f_k p) (le_n _) (f_n p) (v :: f_env p) (f_scope p) (f_trys p) (f_cleanups p) rest st nx Hpc).
      - simpl. split; [lia|].
        exact (dtors_sim (f_scope p) [] (f_n p) (flat_map te_seg (f_trys p)) (ids (f_cleanups p)) false
                         (map absb rest) nx st (Zok_nil _)).
      - pose proof (unwind_done_sim rest p [] [] false nx st (Forall2_nil _)) as HU.
        destruct (unwind_done [] (p :: rest)) as [g tr]. simpl. split; [lia|].
        apply HU. simpl. apply okl_cons; assumption. }
    destruct (catch_res_sim (f_n p) (f_trys p) [] rest st nx _ r Hpc Hr) as [HC HNT].
    destruct (catch_res (f_n p) (f_trys p) rest st r) as [v nx' tr|x nx' tr|x c nx' tr|g nx' tr].
    + simpl in HC. destruct HC as [Hn Hm].
      specialize (IH (OVal v) st nx' (okl_mono _ _ _ Hn Hokr)).
      destruct (resume rest (OVal v) st nx') as [[g nx''] tr'].
      simpl in IH. destruct IH as (Hn' & m' & Hm' & Ha & Hk).
      simpl. split; [lia|]. exists m'. split; [|split; assumption].
      rewrite (mon_run_app_some _ _ _ _ Hm). exact Hm'.
    + simpl in HC. destruct HC as [Hn Hm].
      specialize (IH (OErr x) st nx' (okl_mono _ _ _ Hn Hokr)).
      destruct (resume rest (OErr x) st nx') as [[g nx''] tr'].
      simpl in IH. destruct IH as (Hn' & m' & Hm' & Ha & Hk).
      simpl. split; [lia|]. exists m'. split; [|split; assumption].
      rewrite (mon_run_app_some _ _ _ _ Hm). exact Hm'.
    + exfalso. eapply HNT; reflexivity.
    + simpl in HC. simpl. exact HC.
Qed.

Lemma res_glob_sim : forall n trys below st nx m r,
  okl nx (nums below) ->
  (forall x c nx' tr, r <> RThrowOut x c nx' tr) ->
  post n trys below st nx m r -> gpost st nx m (res_glob below st r).
Proof.
  intros. destruct r; simpl in *.
  - destruct H1 as [Hn Hm].
    pose proof (resume_sim below (OVal v) st nx0 (okl_mono _ _ _ Hn H)) as HR.
    destruct (resume below (OVal v) st nx0) as [[g nx''] tr'].
    simpl in HR. destruct HR as (Hn' & m' & Hm' & Ha & Hk).
    split; [lia|]. exists m'. split; [|split; assumption].
    rewrite (mon_run_app_some _ _ _ _ Hm). exact Hm'.
  - destruct H1 as [Hn Hm].
    pose proof (resume_sim below (OErr x) st nx0 (okl_mono _ _ _ Hn H)) as HR.
    destruct (resume below (OErr x) st nx0) as [[g nx''] tr'].
    simpl in HR. destruct HR as (Hn' & m' & Hm' & Ha & Hk).
    split; [lia|]. exists m'. split; [|split; assumption].
    rewrite (mon_run_app_some _ _ _ _ Hm). exact Hm'.
  - exfalso. eapply H0; reflexivity.
  - exact H1.
Qed.

(* ---------------------------------------------------------------------------------------------- *)
(* whole runs                                                                                      *)
Definition Inv (rs : run_state) : Prop :=
  exists m, mon_run m0 (r_tr rs) = Some m /\ absg (r_cfg rs) (r_stopped rs) (r_next rs) m /\
            okg (r_cfg rs) (r_next rs).

Lemma gpost_pre : forall st nx m m1 tr0 g nx' tr,
  mon_run m tr0 = Some m1 -> gpost st nx m1 (g, nx', tr) -> gpost st nx m (g, nx', tr0 ++ tr).
Proof.
  intros. simpl in *. destruct H0 as (Hn & m' & Hm' & HG). split; [lia|]. exists m'. split; [|exact HG].
  rewrite (mon_run_app_some _ _ _ _ H). exact Hm'.
Qed.

Lemma absorb_inv : forall rs m x,
  mon_run m0 (r_tr rs) = Some m -> gpost (r_stopped rs) (r_next rs) m x -> Inv (absorb rs x).
Proof.
  intros rs m [[g nx] tr] Hm Hg. simpl in Hg. destruct Hg as (Hn & m' & Hm' & Ha & Hk).
  exists m'. unfold absorb; simpl. split; [|split; assumption].
  rewrite (mon_run_app_some _ _ _ _ Hm). exact Hm'.
Qed.

Lemma run_start_inv : forall body ps, Inv (run_start body ps).
Proof.
  intros. unfold run_start.
  eapply absorb_inv with (m := Mb 0 [] [] [] [] 1 ps).
  - simpl. destruct ps; reflexivity.
  - simpl r_stopped. simpl r_next.
    assert (Hpc : pc 0 [] 1).
    { split; [lia|]. simpl. constructor; constructor. }
    pose proof (run_body_sim _ body (le_n _) 0 [] [] [] [] [] ps 1 Hpc) as HB.
    destruct (close_body_sim 0 [] ps 1 _ _ Hpc HB) as [HC HNT].
    pose proof (res_glob_sim 0 [] [] ps 1 _ _ ltac:(split; constructor) HNT HC) as HG.
    destruct (res_glob [] ps (close_body 0 [] (run_body 0 body [] [] [] [] [] ps 1))) as [[g nx] tr].
    simpl in *. destruct HG as (Hn & HG). split; [lia|exact HG].
Qed.

Lemma absg_skip : forall g st nx m, absg g st nx m -> mon_step m TSkip = Some m.
Proof.
  intros. destruct g; simpl in H.
  - destruct s.
    + destruct H as [-> _]. reflexivity.
    + destruct stack; [contradiction|]. destruct H as (Z & l & _ & _ & -> & _). reflexivity.
  - destruct H as (Z & _ & ->). reflexivity.
  - subst. reflexivity.
  - unfold mon_step. rewrite H. reflexivity.
Qed.

Lemma skip_inv : forall rs, Inv rs -> Inv (skip rs).
Proof.
  intros rs (m & Hm & Ha & Hk). exists m. unfold skip; simpl. split; [|split; assumption].
  rewrite (mon_run_app_some _ _ _ _ Hm). simpl. rewrite (absg_skip _ _ _ _ Ha). reflexivity.
Qed.

Lemma unwind_done_sim0 : forall stack nx st, okl nx (nums stack) ->
  let '(g, tr) := unwind_done [] stack in
  exists m', mon_run (ML (map absb stack) nx st) tr = Some m' /\ absg g st nx m' /\ okg g nx.
Proof.
  intros. destruct stack as [|f rest].
  - simpl. eexists. split; [reflexivity|]. split.
    + exists []. split; [constructor|reflexivity].
    + exact H.
  - pose proof (unwind_done_sim rest f [] [] false nx st (Forall2_nil _) H) as HU.
    destruct (unwind_done [] (f :: rest)) as [g tr]. exact HU.
Qed.

Lemma sdesc_app_lt : forall l1 a l2, sdesc (l1 ++ a :: l2) -> forall x, In x l1 -> a < x.
Proof.
  intros. apply sdesc_app in H. destruct H as (_ & _ & H). apply H; simpl; auto.
Qed.

Lemma okl_app_r : forall nx l1 l2, okl nx (l1 ++ l2) -> okl nx l2.
Proof.
  unfold okl; intros. destruct H as [Hs Hf]. apply sdesc_app in Hs. rewrite Forall_app in Hf.
  destruct Hs as (_ & Hs & _). destruct Hf. split; auto.
Qed.

Lemma on_leaf_inv : forall rs id o x,
  Inv rs -> on_leaf (r_cfg rs) id o (r_stopped rs) (r_next rs) = Some x -> Inv (absorb rs x).
Proof.
  intros rs id o x (m & Hm & Ha & Hk) Hx.
  eapply absorb_inv; [exact Hm|].
  destruct (r_cfg rs) as [s stack|zs| |]; cbn [on_leaf] in Hx; try discriminate.
  destruct s as [id' kd seen|eo c zs]; cbn [on_leaf] in Hx.
  - (* the body of the innermost frame awaits the leaf *)
    destruct (Nat.eqb id id') eqn:E; [|discriminate]. apply Nat.eqb_eq in E. subst id'.
    simpl in Ha. destruct Ha as [-> Hseen]. simpl in Hk.
    assert (HR : forall o', gpost (r_stopped rs) (r_next rs)
                   (Mk (map absb stack) (r_next rs) (r_stopped rs) (Some (id, stoppable kd)) None)
                   (let '(g', nx', tr) := resume stack o' (r_stopped rs) (r_next rs) in (g', nx', TLeafDone id o' :: tr))).
    { intros o'. pose proof (resume_sim stack o' (r_stopped rs) (r_next rs) Hk) as HR.
      destruct (resume stack o' (r_stopped rs) (r_next rs)) as [[g nx'] tr].
      simpl in *. destruct HR as (Hn & m' & Hm' & HR). split; [lia|]. exists m'. split; [|exact HR].
      rewrite step_leafdone. exact Hm'. }
    assert (Hx' : (let '(g', nx', tr) := resume stack o (r_stopped rs) (r_next rs) in (g', nx', TLeafDone id o :: tr)) = x).
    { destruct kd, o; try discriminate; simpl in Hx;
        destruct (resume stack _ (r_stopped rs) (r_next rs)) as [[? ?] ?]; inversion Hx; reflexivity. }
    rewrite <- Hx'. apply HR.
  - (* a cleanup action of the exiting innermost frame awaits the leaf *)
    destruct stack as [|f rest]; [discriminate|]. cbn [on_leaf] in Hx.
    simpl in Ha. destruct Ha as (Z & l & HZ & Hl & -> & Hzs). simpl in Hk.
    rewrite Hl in Hx. destruct (Nat.eqb id l) eqn:E; [|discriminate]. apply Nat.eqb_eq in E. subst l.
    assert (HZok : Zok (f_n f) Z).
    { eapply zrel_Zok; eauto. destruct Hk as [Hs _]. intros. eapply sdesc_app_lt; eauto. }
    destruct o as [v|e|].
    + (* the cleanup action finishes; the remaining ones run *)
      assert (HE : mon_run (Mk (Z ++ mklst (f_n f) (exit_locals eo f) (ids (f_cleanups f)) (Some (c_id c)) true :: map absb rest)
                               (r_next rs) (r_stopped rs) (Some (id, false)) None)
                           [TLeafDone id (OVal v); TCleanupEnd (f_n f) (c_id c)]
                   = Some (ML (Z ++ mklst (f_n f) (exit_locals eo f) (ids (f_cleanups f)) None true :: map absb rest)
                              (r_next rs) (r_stopped rs))).
      { cbn [mon_run]. rewrite step_leafdone. rewrite step_end by exact HZok. reflexivity. }
      destruct eo as [v'|e'|].
      * (* value *)
        rewrite (Hzs ltac:(discriminate)) in *. inversion HZ; subst Z. simpl in Hk.
        apply okl_inv in Hk. destruct Hk as (Hokr & Hlt & Hsd).
        pose proof (finish_sim (f_n f) [] (OVal v') (f_cleanups f) rest (r_next rs) (r_stopped rs) true I
                               (conj Hlt Hsd)) as HF.
        pose proof (res_glob_sim _ _ _ _ _ _ _ Hokr (finish_not_throw _ _ _ _ _) HF) as HG.
        destruct (res_glob rest (r_stopped rs) (finish (f_n f) (OVal v') (f_cleanups f) rest (r_next rs))) as [[g nx'] tr].
        injection Hx as <-. exact (gpost_pre _ _ _ _ _ _ _ _ HE HG).
      * (* error *)
        rewrite (Hzs ltac:(discriminate)) in *. inversion HZ; subst Z. simpl in Hk.
        apply okl_inv in Hk. destruct Hk as (Hokr & Hlt & Hsd).
        pose proof (finish_sim (f_n f) [] (OErr e') (f_cleanups f) rest (r_next rs) (r_stopped rs) true I
                               (conj Hlt Hsd)) as HF.
        pose proof (res_glob_sim _ _ _ _ _ _ _ Hokr (finish_not_throw _ _ _ _ _) HF) as HG.
        destruct (res_glob rest (r_stopped rs) (finish (f_n f) (OErr e') (f_cleanups f) rest (r_next rs))) as [[g nx'] tr].
        injection Hx as <-. exact (gpost_pre _ _ _ _ _ _ _ _ HE HG).
      * (* done: the unwinding continues outwards *)
        pose proof (unwind_done_sim rest f zs Z true (r_next rs) (r_stopped rs) HZ Hk) as HU.
        destruct (unwind_done zs (f :: rest)) as [g tr].
        injection Hx as <-.
        refine (gpost_pre _ _ _ _ _ _ _ _ HE _). simpl. split; [lia|exact HU].
    + injection Hx as <-. simpl. split; [lia|]. eexists. split.
      * rewrite step_leafdone. reflexivity.
      * simpl. auto.
    + injection Hx as <-. simpl. split; [lia|]. eexists. split.
      * rewrite step_leafdone. reflexivity.
      * simpl. auto.
Qed.

Lemma stop_inv : forall rs, Inv rs -> r_stopped rs = false ->
  Inv (let (g, tr) := on_stop (r_cfg rs) in
       {| r_cfg := g; r_stopped := true; r_next := r_next rs; r_tr := r_tr rs ++ TStopReq :: tr |}).
Proof.
  intros rs (m & Hm & Ha & Hk) Hst. rewrite Hst in Ha.
  assert (Hgen : forall g tr m', mon_run m (TStopReq :: tr) = Some m' -> absg g true (r_next rs) m' -> okg g (r_next rs) ->
            Inv {| r_cfg := g; r_stopped := true; r_next := r_next rs; r_tr := r_tr rs ++ TStopReq :: tr |}).
  { intros g tr m' H1 H2 H3. exists m'. simpl. split; [|split; assumption].
    rewrite (mon_run_app_some _ _ _ _ Hm). exact H1. }
  destruct (r_cfg rs) as [s stack|zs| |].
  - destruct s as [id kd seen|eo c zs].
    + simpl in Ha. destruct Ha as [-> Hseen]. simpl in Hk.
      destruct kd; simpl in Hseen.
      * (* plain leaf: its stop callback runs *)
        subst seen. cbn [on_stop]. eapply Hgen.
        -- cbn [mon_run]. rewrite step_stopreq. simpl stoppable. cbv iota. rewrite step_stopseen. reflexivity.
        -- simpl. split; reflexivity.
        -- exact Hk.
      * (* reactive leaf: completes with done from the callback *)
        destruct Hseen as [-> _]. cbn [on_stop].
        pose proof (unwind_done_sim0 stack (r_next rs) true Hk) as HU.
        destruct (unwind_done [] stack) as [g tr]. destruct HU as (m' & Hm' & Ha' & Hk').
        eapply Hgen; [|exact Ha'|exact Hk'].
        cbn [mon_run app]. rewrite step_stopreq. simpl stoppable. cbv iota.
        rewrite step_stopseen. rewrite step_leafdone. exact Hm'.
      * (* plain awaitable: knows nothing about stop *)
        subst seen. cbn [on_stop]. eapply Hgen.
        -- cbn [mon_run]. rewrite step_stopreq. reflexivity.
        -- simpl. split; reflexivity.
        -- exact Hk.
    + (* inside a cleanup action: shielded *)
      destruct stack as [|f rest]; [contradiction|].
      simpl in Ha. destruct Ha as (Z & l & HZ & Hl & -> & Hzs).
      cbn [on_stop]. eapply Hgen.
      * cbn [mon_run]. rewrite step_stopreq. reflexivity.
      * simpl. exists Z, l. repeat split; auto.
      * exact Hk.
  - simpl in Ha. destruct Ha as (Z & HZ & ->). cbn [on_stop]. eapply Hgen.
    + reflexivity.
    + simpl. exists Z. split; auto.
    + exact Hk.
  - simpl in Ha. subst m. cbn [on_stop]. eapply Hgen; [reflexivity|reflexivity|exact I].
  - simpl in Ha. cbn [on_stop]. eapply Hgen with (m' := m).
    + cbn [mon_run]. unfold mon_step. rewrite Ha. reflexivity.
    + exact Ha.
    + exact I.
Qed.

Lemma run_ev_inv : forall rs ev, Inv rs -> Inv (run_ev rs ev).
Proof.
  intros rs [id o|] H; unfold run_ev.
  - destruct (on_leaf (r_cfg rs) id o (r_stopped rs) (r_next rs)) eqn:E.
    + eapply on_leaf_inv; eauto.
    + apply skip_inv; assumption.
  - destruct (r_stopped rs) eqn:E.
    + apply skip_inv; assumption.
    + apply stop_inv; assumption.
Qed.

Lemma fold_inv : forall script rs, Inv rs -> Inv (fold_left run_ev script rs).
Proof. induction script; simpl; intros; auto. apply IHscript. apply run_ev_inv; assumption. Qed.

(* destruction of the operation state after the root receiver got done *)
Lemma destroy_sim : forall zs Z nx st, Forall2 zrel zs Z ->
  mon_run (MR Z nx st true) (destroy_frames zs) = Some (MR [] nx st true).
Proof.
  induction 1; simpl; auto.
  destruct H as [b ->].
  rewrite <- app_assoc. 
  assert (HD : forall L, mon_run (MR (mklst (f_n x) L [] None b :: l') nx st true) (dtors (f_n x) L)
                         = Some (MR (mklst (f_n x) [] [] None b :: l') nx st true)).
  { induction L; simpl; auto. unfold mon_step, MR, frame_ev; simpl. rewrite !Nat.eqb_refl. simpl. exact IHL. }
  rewrite (mon_run_app_some _ _ _ _ (HD _)). simpl.
  unfold mon_step at 1. unfold MR at 1. simpl. rewrite Nat.eqb_refl. exact IHForall2.
Qed.

Lemma finish_run_final : forall rs, Inv rs -> monitor (r_tr (finish_run rs)) = true.
Proof.
  intros rs (m & Hm & Ha & Hk). unfold monitor, finish_run.
  destruct (r_cfg rs) as [s stack|zs| |]; simpl r_tr.
  - rewrite Hm. destruct s as [id kd seen|eo c zs].
    + simpl in Ha. destruct Ha as [-> _]. reflexivity.
    + destruct stack; [contradiction|]. simpl in Ha. destruct Ha as (Z & l & _ & _ & -> & _). reflexivity.
  - simpl in Ha. destruct Ha as (Z & HZ & ->).
    rewrite (mon_run_app_some _ _ _ _ Hm). cbn [mon_run].
    change (mon_step (MR Z (r_next rs) (r_stopped rs) false) TOpDtor) with (Some (MR Z (r_next rs) (r_stopped rs) true)).
    cbv iota. rewrite (destroy_sim _ _ _ _ HZ). reflexivity.
  - simpl in Ha. subst m. rewrite (mon_run_app_some _ _ _ _ Hm). reflexivity.
  - rewrite Hm. simpl in Ha. unfold mon_final. rewrite Ha. reflexivity.
Qed.

(* MAIN: every trace of the model is accepted by the monitor *)
Theorem exec_monitored : forall body prestopped script,
  monitor (r_tr (exec body prestopped script)) = true.
Proof.
  intros. unfold exec. apply finish_run_final. apply fold_inv. apply run_start_inv.
Qed.

(* ---------------------------------------------------------------------------------------------- *)
(* co_await maps the awaited result: equations of the machine, for every context                   *)
Lemma pre_nil : forall r, pre [] r = r.
Proof. destruct r; reflexivity. Qed.

(* value -> the continuation runs with it; a plain awaitable (round trip through as_sender /
   connect_awaitable / await_transform) behaves as the sender *)
Lemma await_value : forall n a k env scope trys cls below st nx,
  run_body n (CAwait (AJust a) k) env scope trys cls below st nx
  = run_body n k (arg_val a env :: env) scope trys cls below st nx /\
  run_body n (CAwait (AAwJust a) k) env scope trys cls below st nx
  = run_body n k (arg_val a env :: env) scope trys cls below st nx.
Proof. intros. simpl. rewrite !pre_nil. split; reflexivity. Qed.

(* error -> exactly what a throw statement at that point does *)
Lemma await_error : forall n x k env scope trys cls below st nx,
  run_body n (CAwait (AErr x) k) env scope trys cls below st nx
  = run_body n (CThrow x) env scope trys cls below st nx /\
  run_body n (CAwait (AAwErr x) k) env scope trys cls below st nx
  = run_body n (CThrow x) env scope trys cls below st nx.
Proof. intros. split; reflexivity. Qed.

(* done -> the coroutine is not resumed: the done path of the whole stack of awaiting frames *)
Lemma await_done : forall n k env scope trys cls below st nx,
  run_body n (CAwait ADone k) env scope trys cls below st nx
  = let (g, tr) := unwind_done [] (mkframe n scope trys cls env k :: below) in RGlob g nx tr.
Proof. intros. reflexivity. Qed.

(* the same at the completion of an asynchronous leaf *)
Lemma resume_error_is_throw : forall p rest x st nx,
  resume (p :: rest) (OErr x) st nx
  = resume (mkframe (f_n p) (f_scope p) (f_trys p) (f_cleanups p) (f_env p) (CThrow x) :: rest) (OVal 0%Z) st nx.
Proof. intros. reflexivity. Qed.

Lemma resume_done_unwinds : forall stack st nx,
  resume stack ODone st nx =
  match stack with
  | [] => (GRootDone [], nx, [TRoot ODone])
  | _ => let (g, tr) := unwind_done [] stack in (g, nx, tr)
  end.
Proof.
  intros. destruct stack as [|p rest]; [reflexivity|].
  cbn [resume]. destruct (unwind_done [] (p :: rest)) as [g tr]. reflexivity.
Qed.

(* a nested task completes its awaiter with its co_return value / its escaped exception *)
Lemma await_task_value : forall n b k env scope trys cls below st nx v nx' tr,
  close_body nx (mkframe n scope trys cls env k :: below)
             (run_body nx b env [] [] [] (mkframe n scope trys cls env k :: below) st (S nx)) = RVal v nx' tr ->
  run_body n (CAwait (ATask b) k) env scope trys cls below st nx
  = pre (TFrame nx :: tr) (run_body n k (v :: env) scope trys cls below st nx').
Proof. intros. cbn [run_body]. rewrite H. reflexivity. Qed.

Lemma await_task_error : forall n b k env scope trys cls below st nx x nx' tr,
  close_body nx (mkframe n scope trys cls env k :: below)
             (run_body nx b env [] [] [] (mkframe n scope trys cls env k :: below) st (S nx)) = RErr x nx' tr ->
  run_body n (CAwait (ATask b) k) env scope trys cls below st nx
  = pre (TFrame nx :: tr) (run_body n (CThrow x) env scope trys cls below st nx').
Proof. intros. cbn [run_body]. rewrite H. reflexivity. Qed.

(* ---------------------------------------------------------------------------------------------- *)
(* Denotational reading: what a task completes with, as a function of what its leaves complete with.
   The equations of [eval] ARE the statement of C10 about results: co_await of a value continues
   with it, of an error behaves as a throw at that point (caught by an enclosing try or escaping as the
   task's error), of done ends the task (and every awaiting task) with done; a task awaited as a sender
   completes with its co_return value, its escaped exception, or done; a plain awaitable behaves as the
   sender (round trip).  Adequacy (below): for every script and stop request, the outcome the root
   receiver gets is [eval body] for any oracle consistent with the leaf completions of the run. *)
Section Denot.
Variable rho : nat -> outcome.

Fixpoint eval (e : coexpr) (env : list Z) {struct e} : outcome :=
  match e with
  | CRet a => OVal (arg_val a env)
  | CThrow x => OErr x
  | CAwait s k =>
      match (match s with
             | AJust a => OVal (arg_val a env)
             | AAwJust a => OVal (arg_val a env)
             | AErr x => OErr x
             | AAwErr x => OErr x
             | ADone => ODone
             | ALeaf _ id => rho id
             | ATask b => eval b env
             end) with
      | OVal v => eval k (v :: env)
      | o => o
      end
  | CLocal _ k => eval k env
  | CAtExit _ k => eval k env
  | CTry b h => match eval b env with OErr x => eval h (x :: env) | o => o end
  end.

Fixpoint catch (o : outcome) (trys : list tryent) {struct trys} : outcome :=
  match trys with
  | [] => o
  | (h, henv, _) :: more => match o with OErr x => catch (eval h (x :: henv)) more | _ => o end
  end.

Definition fres (p : frame) (o : outcome) : outcome :=
  match o with
  | OVal v => catch (eval (f_k p) (v :: f_env p)) (f_trys p)
  | OErr x => catch (OErr x) (f_trys p)
  | ODone => ODone
  end.

Fixpoint sres (stack : list frame) (o : outcome) : outcome :=
  match stack with [] => o | p :: rest => sres rest (fres p o) end.

Definition consistent (tr : list tev) : Prop := forall id o, In (TLeafDone id o) tr -> rho id = o.
Definition noroot (tr : list tev) : Prop := forall o, ~ In (TRoot o) tr.

Definition gden (g : gcfg) (tr : list tev) (T : outcome) : Prop :=
  (forall o, In (TRoot o) tr -> o = T) /\
  match g with
  | GSusp (SLeaf id _ _) stack => sres stack (rho id) = T
  | GSusp (SExit eo _ _) (_ :: rest) => sres rest eo = T
  | _ => True
  end.

Lemma catch_val : forall trys v, catch (OVal v) trys = OVal v.
Proof. destruct trys as [|[[h henv] seg] more]; reflexivity. Qed.
Lemma catch_done : forall trys, catch ODone trys = ODone.
Proof. destruct trys as [|[[h henv] seg] more]; reflexivity. Qed.
Lemma sres_done : forall stack, sres stack ODone = ODone.
Proof. induction stack; simpl; auto. Qed.

Lemma consistent_app : forall a b, consistent (a ++ b) -> consistent a /\ consistent b.
Proof. unfold consistent; intros; split; intros; apply H; apply in_or_app; auto. Qed.
Lemma noroot_app : forall a b, noroot a -> noroot b -> noroot (a ++ b).
Proof. unfold noroot; intros a b Ha Hb o Hin. apply in_app_or in Hin. destruct Hin; [eapply Ha|eapply Hb]; eauto. Qed.
Lemma noroot_dtors : forall n l, noroot (dtors n l).
Proof. unfold noroot, dtors; intros n l o Hin. apply in_map_iff in Hin. destruct Hin as (? & ? & _). discriminate. Qed.

Lemma gden_pre : forall g tr0 tr T, noroot tr0 -> gden g tr T -> gden g (tr0 ++ tr) T.
Proof.
  unfold gden; intros. destruct H0. split; auto.
  intros o Hin. apply in_app_or in Hin. destruct Hin; [exfalso; eapply H; eauto|auto].
Qed.

Lemma run_cleanups_noroot : forall cls n, noroot (fst (run_cleanups n cls)).
Proof.
  induction cls; simpl; intros.
  - intros o [].
  - destruct (c_leaf a).
    + intros o [H|[H|[]]]; discriminate.
    + specialize (IHcls n). destruct (run_cleanups n cls) as [tr r]. simpl in *.
      intros o [H|[H|H]]; try discriminate. eapply IHcls; eauto.
Qed.

Definition rtrace (r : res) : list tev :=
  match r with RVal _ _ tr => tr | RErr _ _ tr => tr | RThrowOut _ _ _ tr => tr | RGlob _ _ tr => tr end.
Definition nr (r : res) : Prop := match r with RGlob _ _ _ => True | _ => noroot (rtrace r) end.

Lemma nr_pre : forall tr0 r, noroot tr0 -> nr r -> nr (pre tr0 r).
Proof. intros. destruct r; simpl in *; auto; apply noroot_app; auto. Qed.

Lemma finish_nr : forall n o cls below nx, nr (finish n o cls below nx).
Proof.
  intros. unfold finish. pose proof (run_cleanups_noroot cls n) as H.
  destruct (run_cleanups n cls) as [tr [[c p]|]]; simpl in *; auto.
  destruct o; simpl; auto; apply noroot_app; auto; intros o [H0|[]]; discriminate.
Qed.

Lemma close_body_nr : forall m below r, nr r -> nr (close_body m below r).
Proof. intros. destruct r; simpl in *; auto. apply nr_pre; auto. apply finish_nr. Qed.

Lemma run_body_nr : forall N e, csize e <= N ->
  forall n env scope trys cls below st nx, nr (run_body n e env scope trys cls below st nx).
Proof.
  induction N; intros e Hsz; [destruct e; simpl in Hsz; lia|].
  intros. destruct e; simpl in Hsz.
  - simpl. apply nr_pre; [apply noroot_dtors|apply finish_nr].
  - simpl. apply noroot_dtors.
  - destruct s; simpl in Hsz.
    + simpl. rewrite pre_nil. apply IHN; lia.
    + simpl. apply noroot_dtors.
    + cbn [run_body]. destruct (unwind_done [] (mkframe n scope trys cls env e :: below)). simpl. exact I.
    + simpl. rewrite pre_nil. apply IHN; lia.
    + simpl. apply noroot_dtors.
    + destruct kd, st; cbn [run_body start_leaf]; try exact I.
      destruct (unwind_done [] (mkframe n scope trys cls env e :: below)). simpl. exact I.
    + cbn [run_body].
      pose proof (close_body_nr nx (mkframe n scope trys cls env e :: below) _
                    (IHN body ltac:(lia) nx env [] [] [] (mkframe n scope trys cls env e :: below) st (S nx))) as HC.
      destruct (close_body nx (mkframe n scope trys cls env e :: below)
                  (run_body nx body env [] [] [] (mkframe n scope trys cls env e :: below) st (S nx)))
        as [v nx' tr|x nx' tr|x c nx' tr|g nx' tr]; simpl in HC.
      * apply nr_pre; [|apply IHN; lia].
        intros o [H|H]; [discriminate|eapply HC; eauto].
      * apply (noroot_app (TFrame nx :: tr) (dtors n scope)); [|apply noroot_dtors].
        intros o [H|H]; [discriminate|eapply HC; eauto].
      * exact I.
      * exact I.
  - simpl. apply nr_pre; [intros o [H|[]]; discriminate|apply IHN; lia].
  - simpl. apply nr_pre; [intros o [H|[]]; discriminate|apply IHN; lia].
  - cbn [run_body].
    pose proof (IHN e1 ltac:(lia) n env [] ((e2, env, scope) :: trys) cls below st nx) as HB.
    destruct (run_body n e1 env [] ((e2, env, scope) :: trys) cls below st nx); auto.
    simpl in HB. apply nr_pre; auto. apply IHN; lia.
Qed.

Definition sem (ev : outcome) (trys : list tryent) (below : list frame) (r : res) : Prop :=
  consistent (rtrace r) ->
  match r with
  | RVal v _ _ => ev = OVal v
  | RErr _ _ _ => False
  | RThrowOut x _ _ _ => ev = OErr x
  | RGlob g _ tr => gden g tr (sres below (catch ev trys))
  end.

(* result of a whole frame *)
Definition fsem (ev : outcome) (below : list frame) (r : res) : Prop :=
  consistent (rtrace r) ->
  match r with
  | RVal v _ _ => ev = OVal v
  | RErr x _ _ => ev = OErr x
  | RThrowOut _ _ _ _ => False
  | RGlob g _ tr => gden g tr (sres below ev)
  end.

Lemma rtrace_pre : forall tr0 r, rtrace (pre tr0 r) = tr0 ++ rtrace r.
Proof. destruct r; reflexivity. Qed.

Lemma sem_pre : forall ev trys below tr0 r, noroot tr0 ->
  (consistent tr0 -> sem ev trys below r) -> sem ev trys below (pre tr0 r).
Proof.
  unfold sem; intros. rewrite rtrace_pre in H1. apply consistent_app in H1. destruct H1 as [H1 H2].
  specialize (H0 H1 H2). destruct r; simpl in *; auto. apply gden_pre; auto.
Qed.

Lemma fsem_pre : forall ev below tr0 r, noroot tr0 ->
  (consistent tr0 -> fsem ev below r) -> fsem ev below (pre tr0 r).
Proof.
  unfold fsem; intros. rewrite rtrace_pre in H1. apply consistent_app in H1. destruct H1 as [H1 H2].
  specialize (H0 H1 H2). destruct r; simpl in *; auto. apply gden_pre; auto.
Qed.

Lemma finish_fsem : forall n o cls below nx, (match o with ODone => False | _ => True end) ->
  fsem o below (finish n o cls below nx).
Proof.
  intros. unfold fsem, finish. pose proof (run_cleanups_noroot cls n) as HN.
  destruct (run_cleanups n cls) as [tr [[c p]|]]; simpl in *.
  - intros _. split; auto. intros o' Hin. exfalso. eapply HN; eauto.
  - destruct o; try contradiction; simpl; auto.
Qed.

Lemma unwind_done_den : forall stack zs, gden (fst (unwind_done zs stack)) (snd (unwind_done zs stack)) ODone.
Proof.
  induction stack as [|f rest IH]; intros.
  - simpl. split; auto. intros o [H|[]]. inversion H; reflexivity.
  - rewrite unwind_done_cons. pose proof (run_cleanups_noroot (f_cleanups f) (f_n f)) as HN.
    destruct (run_cleanups (f_n f) (f_cleanups f)) as [tr [[c p]|]]; simpl in *.
    + split; [intros o Hin; exfalso; eapply HN; eauto|apply sres_done].
    + specialize (IH (zs ++ [set_cleanups f []])).
      destruct (unwind_done (zs ++ [set_cleanups f []]) rest) as [g tr']. simpl in *.
      apply gden_pre; auto.
Qed.

Lemma close_body_fsem : forall ev m below r, sem ev [] below r -> nr r -> fsem ev below (close_body m below r).
Proof.
  intros. destruct r; simpl close_body.
  - exact H.
  - unfold fsem, sem in *. simpl in *. intros Hc. exfalso. auto.
  - apply fsem_pre; [exact H0|]. intros Hc. unfold sem in H. simpl in H. rewrite (H Hc).
    apply finish_fsem. exact I.
  - exact H.
Qed.

Lemma fres_await : forall n scope trys cls env k o,
  fres (mkframe n scope trys cls env k) o = catch (match o with OVal v => eval k (v :: env) | OErr x => OErr x | ODone => ODone end) trys.
Proof. intros. destruct o; simpl; auto. rewrite catch_done. reflexivity. Qed.

Lemma catch_try : forall b h env scope trys,
  catch (eval b env) ((h, env, scope) :: trys) = catch (eval (CTry b h) env) trys.
Proof. intros. simpl. destruct (eval b env); auto; [rewrite catch_val|rewrite catch_done]; reflexivity. Qed.

Lemma fsem_sem_val : forall v trys below r, fsem (OVal v) below r -> sem (OVal v) trys below r.
Proof.
  unfold fsem, sem; intros. specialize (H H0). destruct r; auto; try discriminate; try contradiction.
  rewrite catch_val. exact H.
Qed.

Lemma noroot_one : forall e, (forall o, e <> TRoot o) -> noroot [e].
Proof. intros e H o [Hin|[]]. eapply H; eauto. Qed.

Lemma run_body_sem : forall N e, csize e <= N ->
  forall n env scope trys cls below st nx,
  sem (eval e env) trys below (run_body n e env scope trys cls below st nx).
Proof.
  induction N; intros e Hsz; [destruct e; simpl in Hsz; lia|].
  intros. destruct e; simpl in Hsz.
  - (* CRet *)
    simpl. apply sem_pre; [apply noroot_dtors|]. intros _. apply fsem_sem_val. apply finish_fsem. exact I.
  - (* CThrow *) unfold sem; simpl; auto.
  - destruct s; simpl in Hsz.
    + simpl. rewrite pre_nil. apply IHN; lia.
    + unfold sem; simpl; auto.
    + (* ADone *)
      cbn [run_body]. pose proof (unwind_done_den (mkframe n scope trys cls env e :: below) []) as HU.
      destruct (unwind_done [] (mkframe n scope trys cls env e :: below)) as [g tr'].
      unfold sem. simpl. intros _. rewrite catch_done, sres_done. exact HU.
    + simpl. rewrite pre_nil. apply IHN; lia.
    + unfold sem; simpl; auto.
    + (* ALeaf *)
      assert (HS : forall seen tr, noroot tr ->
                gden (GSusp (SLeaf id kd seen) (mkframe n scope trys cls env e :: below)) tr
                     (sres below (catch (eval (CAwait (ALeaf kd id) e) env) trys))).
      { intros. split; [intros o Hin; exfalso; eapply H; eauto|].
        cbn [sres]. rewrite fres_await. cbn [eval]. reflexivity. }
      destruct kd, st; cbn [run_body start_leaf]; unfold sem; cbn [rtrace]; intros Hc;
        try (apply HS; intros o Hin; simpl in Hin; intuition discriminate).
      (* reactive leaf started after the stop request: done at once *)
      pose proof (unwind_done_den (mkframe n scope trys cls env e :: below) []) as HU.
      destruct (unwind_done [] (mkframe n scope trys cls env e :: below)) as [g tr']. simpl in HU.
      assert (Hr : rho id = ODone).
      { apply Hc. simpl. auto. }
      cbn [eval]. rewrite Hr. rewrite catch_done, sres_done.
      apply gden_pre; auto. intros o Hin; simpl in Hin; intuition discriminate.
    + (* ATask *)
      cbn [run_body].
      set (me := mkframe n scope trys cls env e).
      pose proof (close_body_fsem (eval body env) nx (me :: below) _
                    (IHN body ltac:(lia) nx env [] [] [] (me :: below) st (S nx))
                    (run_body_nr _ body (le_n _) nx env [] [] [] (me :: below) st (S nx))) as HC.
      pose proof (close_body_nr nx (me :: below) _ (run_body_nr _ body (le_n _) nx env [] [] [] (me :: below) st (S nx))) as HN.
      destruct (close_body nx (me :: below) (run_body nx body env [] [] [] (me :: below) st (S nx)))
        as [v nx' tr|x nx' tr|x c nx' tr|g nx' tr]; unfold fsem in HC; simpl in HC, HN.
      * apply sem_pre.
        -- intros o [H|H]; [discriminate|eapply HN; eauto].
        -- intros Hc. assert (Hb : eval body env = OVal v).
           { apply HC. intros i o Hin. apply Hc. simpl; auto. }
           cbn [eval]. rewrite Hb. apply IHN; lia.
      * unfold sem. cbn [rtrace]. intros Hc. cbn [eval].
        rewrite HC; [reflexivity|]. intros i o Hin. apply Hc. apply in_or_app. left. simpl; auto.
      * unfold sem. cbn [rtrace]. intros Hc. exfalso. apply HC. intros i o Hin. apply Hc. simpl; auto.
      * unfold sem. cbn [rtrace]. intros Hc.
        assert (HG : gden g tr (sres (me :: below) (eval body env))).
        { apply HC. intros i o Hin. apply Hc. simpl; auto. }
        cbn [sres] in HG. unfold me in HG. rewrite fres_await in HG. cbn [eval].
        change (TFrame nx :: tr) with ([TFrame nx] ++ tr). apply gden_pre; [apply noroot_one; discriminate|].
        exact HG.
  - simpl. apply sem_pre; [apply noroot_one; discriminate|]. intros _. apply IHN; lia.
  - simpl. apply sem_pre; [apply noroot_one; discriminate|]. intros _. apply IHN; lia.
  - (* CTry *)
    cbn [run_body].
    pose proof (IHN e1 ltac:(lia) n env [] ((e2, env, scope) :: trys) cls below st nx) as HB.
    pose proof (run_body_nr _ e1 (le_n _) n env [] ((e2, env, scope) :: trys) cls below st nx) as HN.
    destruct (run_body n e1 env [] ((e2, env, scope) :: trys) cls below st nx) as [v nx' tr|x nx' tr|x c nx' tr|g nx' tr];
      unfold sem in HB; simpl in HB, HN.
    + unfold sem; simpl. intros Hc. rewrite (HB Hc). reflexivity.
    + unfold sem; simpl. exact HB.
    + apply sem_pre; [exact HN|]. intros Hc. cbn [eval]. rewrite (HB Hc). apply IHN; lia.
    + unfold sem; cbn [rtrace]. intros Hc. rewrite <- (catch_try e1 e2 env scope trys). exact (HB Hc).
Qed.

Lemma catch_loop_nr : forall trys n x cls below st nx, nr (catch_loop n x trys cls below st nx).
Proof.
  induction trys as [|[[h henv] seg] more IH]; intros; cbn [catch_loop].
  - apply finish_nr.
  - pose proof (run_body_nr _ h (le_n _) n (x :: henv) seg more cls below st nx) as HN.
    destruct (run_body n h (x :: henv) seg more cls below st nx); auto.
    simpl in HN. apply nr_pre; auto.
Qed.

Lemma catch_loop_fsem : forall trys n x cls below st nx,
  fsem (catch (OErr x) trys) below (catch_loop n x trys cls below st nx).
Proof.
  induction trys as [|[[h henv] seg] more IH]; intros; cbn [catch_loop catch].
  - apply finish_fsem. exact I.
  - pose proof (run_body_sem _ h (le_n _) n (x :: henv) seg more cls below st nx) as HB.
    pose proof (run_body_nr _ h (le_n _) n (x :: henv) seg more cls below st nx) as HN.
    destruct (run_body n h (x :: henv) seg more cls below st nx) as [v nx' tr|x' nx' tr|x' c nx' tr|g nx' tr];
      unfold sem in HB; simpl in HB, HN.
    + unfold fsem; simpl. intros Hc. rewrite (HB Hc). apply catch_val.
    + unfold fsem; simpl. intros Hc. exfalso. auto.
    + apply fsem_pre; [exact HN|]. intros Hc. rewrite (HB Hc). apply IH.
    + unfold fsem; simpl. exact HB.
Qed.

Lemma catch_res_nr : forall n trys below st r, nr r -> nr (catch_res n trys below st r).
Proof. intros. destruct r; simpl in *; auto. apply nr_pre; auto. apply catch_loop_nr. Qed.

Lemma catch_res_fsem : forall ev n trys below st r,
  sem ev trys below r -> nr r -> fsem (catch ev trys) below (catch_res n trys below st r).
Proof.
  intros. destruct r; simpl catch_res; unfold sem in H; simpl in H.
  - unfold fsem; simpl. intros Hc. rewrite (H Hc). apply catch_val.
  - unfold fsem; simpl. intros Hc. exfalso; auto.
  - apply fsem_pre; [exact H0|]. intros Hc. rewrite (H Hc). apply catch_loop_fsem.
  - unfold fsem; simpl. exact H.
Qed.

Lemma gden_combine : forall g tr1 tr2 T,
  (forall o, In (TRoot o) tr1 -> o = T) -> gden g tr2 T -> gden g (tr1 ++ tr2) T.
Proof.
  unfold gden; intros. destruct H0. split; auto.
  intros o Hin. apply in_app_or in Hin. destruct Hin; auto.
Qed.

Lemma resume_sem : forall stack o st nx,
  let '(g, nx', tr) := resume stack o st nx in consistent tr -> gden g tr (sres stack o).
Proof.
  induction stack as [|p rest IH]; intros.
  - destruct o; simpl; intros _; (split; [intros o' [H|[]]; inversion H; reflexivity|exact I]).
  - cbn [resume sres].
    set (r := match o with
              | OVal v => run_body (f_n p) (f_k p) (v :: f_env p) (f_scope p) (f_trys p) (f_cleanups p) rest st nx
              | OErr x => RThrowOut x (f_cleanups p) nx (dtors (f_n p) (f_scope p))
              | ODone => let (g, tr) := unwind_done [] (p :: rest) in RGlob g nx tr
              end).
    assert (HF : fsem (fres p o) rest (catch_res (f_n p) (f_trys p) rest st r) /\ nr (catch_res (f_n p) (f_trys p) rest st r)).
    { subst r. destruct o; cbn [fres].
      - split; [apply catch_res_fsem; [apply (run_body_sem _ _ (le_n _))|apply (run_body_nr _ _ (le_n _))]
               |apply catch_res_nr; apply (run_body_nr _ _ (le_n _))].
      - split; [apply catch_res_fsem; [unfold sem; simpl; auto|apply noroot_dtors]
               |apply catch_res_nr; apply noroot_dtors].
      - pose proof (unwind_done_den (p :: rest) []) as HU.
        destruct (unwind_done [] (p :: rest)) as [g tr]. simpl in HU. simpl catch_res.
        split; [|exact I]. unfold fsem; simpl. intros _. rewrite sres_done. exact HU. }
    destruct HF as [HF HN].
    destruct (catch_res (f_n p) (f_trys p) rest st r) as [v nx' tr|x nx' tr|x c nx' tr|g nx' tr];
      unfold fsem in HF; simpl in HF, HN.
    + specialize (IH (OVal v) st nx'). destruct (resume rest (OVal v) st nx') as [[g nx''] tr'].
      intros Hc. apply consistent_app in Hc. destruct Hc as [Hc1 Hc2].
      rewrite (HF Hc1). apply gden_pre; auto.
    + specialize (IH (OErr x) st nx'). destruct (resume rest (OErr x) st nx') as [[g nx''] tr'].
      intros Hc. apply consistent_app in Hc. destruct Hc as [Hc1 Hc2].
      rewrite (HF Hc1). apply gden_pre; auto.
    + intros Hc. exfalso. auto.
    + exact HF.
Qed.

Lemma res_glob_sem : forall ev below st r, fsem ev below r -> nr r ->
  let '(g, nx', tr) := res_glob below st r in consistent tr -> gden g tr (sres below ev).
Proof.
  intros. destruct r; unfold fsem in H; simpl in H, H0; simpl res_glob.
  - pose proof (resume_sem below (OVal v) st nx) as HR. destruct (resume below (OVal v) st nx) as [[g nx''] tr'].
    intros Hc. apply consistent_app in Hc. destruct Hc as [Hc1 Hc2]. rewrite (H Hc1). apply gden_pre; auto.
  - pose proof (resume_sem below (OErr x) st nx) as HR. destruct (resume below (OErr x) st nx) as [[g nx''] tr'].
    intros Hc. apply consistent_app in Hc. destruct Hc as [Hc1 Hc2]. rewrite (H Hc1). apply gden_pre; auto.
  - intros Hc. exfalso; auto.
  - exact H.
Qed.

(* invariant of whole runs: the root outcomes seen so far, and the one the configuration will produce,
   are T *)
Definition J (T : outcome) (rs : run_state) : Prop := consistent (r_tr rs) -> gden (r_cfg rs) (r_tr rs) T.

Lemma absorb_J : forall T rs x,
  J T rs ->
  (forall (Hold : consistent (r_tr rs)), gden (r_cfg rs) (r_tr rs) T ->
     let '(g, nx, tr) := x in consistent tr -> gden g tr T) ->
  J T (absorb rs x).
Proof.
  unfold J; intros T rs [[g nx] tr] HJ HX. unfold absorb; simpl.
  intros Hc. apply consistent_app in Hc. destruct Hc as [Hc1 Hc2].
  specialize (HJ Hc1). specialize (HX Hc1 HJ Hc2).
  apply gden_combine; auto. destruct HJ; auto.
Qed.

Lemma run_start_J : forall body ps, J (eval body []) (run_start body ps).
Proof.
  intros. unfold run_start. apply absorb_J.
  - unfold J; simpl. intros _. split; auto. intros o Hin. exfalso.
    destruct ps; simpl in Hin; intuition discriminate.
  - intros _ _.
    pose proof (close_body_fsem (eval body []) 0 [] _ (run_body_sem _ body (le_n _) 0 [] [] [] [] [] ps 1)
                  (run_body_nr _ body (le_n _) 0 [] [] [] [] [] ps 1)) as HF.
    pose proof (close_body_nr 0 [] _ (run_body_nr _ body (le_n _) 0 [] [] [] [] [] ps 1)) as HN.
    exact (res_glob_sem _ [] ps _ HF HN).
Qed.

Lemma skip_J : forall T rs, J T rs -> J T (skip rs).
Proof.
  unfold J, skip; simpl; intros. apply consistent_app in H0. destruct H0 as [Hc _].
  specialize (H Hc). destruct H. split; auto.
  intros o Hin. apply in_app_or in Hin. destruct Hin as [Hin|[Hin|[]]]; [auto|discriminate].
Qed.

Lemma on_leaf_J : forall T rs id o x,
  J T rs -> on_leaf (r_cfg rs) id o (r_stopped rs) (r_next rs) = Some x -> J T (absorb rs x).
Proof.
  intros T rs id o x HJ Hx. apply absorb_J; auto. intros Hold HG.
  destruct (r_cfg rs) as [s stack|zs| |]; cbn [on_leaf] in Hx; try discriminate.
  destruct s as [id' kd seen|eo c zs]; cbn [on_leaf] in Hx.
  - destruct (Nat.eqb id id') eqn:E; [|discriminate]. apply Nat.eqb_eq in E. subst id'.
    destruct HG as [_ HG].
    assert (Hx' : (let '(g', nx', tr) := resume stack o (r_stopped rs) (r_next rs) in (g', nx', TLeafDone id o :: tr)) = x).
    { destruct kd, o; try discriminate; simpl in Hx;
        destruct (resume stack _ (r_stopped rs) (r_next rs)) as [[? ?] ?]; inversion Hx; reflexivity. }
    rewrite <- Hx'. pose proof (resume_sem stack o (r_stopped rs) (r_next rs)) as HR.
    destruct (resume stack o (r_stopped rs) (r_next rs)) as [[g nx'] tr].
    intros Hc. assert (Hr : rho id = o) by (apply Hc; simpl; auto).
    change (TLeafDone id o :: tr) with ([TLeafDone id o] ++ tr).
    apply gden_pre; [apply noroot_one; discriminate|].
    rewrite <- HG, Hr. apply HR. intros i o' Hin. apply Hc. simpl; auto.
  - destruct stack as [|f rest]; [discriminate|]. cbn [on_leaf] in Hx. destruct HG as [_ HG].
    destruct (c_leaf c) as [l|]; [|discriminate].
    destruct (Nat.eqb id l); [|discriminate].
    destruct o as [v|e|].
    + destruct eo as [v'|e'|].
      * pose proof (res_glob_sem _ rest (r_stopped rs) _ (finish_fsem (f_n f) (OVal v') (f_cleanups f) rest (r_next rs) I)
                      (finish_nr _ _ _ _ _)) as HR.
        destruct (res_glob rest (r_stopped rs) (finish (f_n f) (OVal v') (f_cleanups f) rest (r_next rs))) as [[g nx'] tr].
        injection Hx as <-. intros Hc.
        change (TLeafDone id (OVal v) :: TCleanupEnd (f_n f) (c_id c) :: tr)
          with ([TLeafDone id (OVal v); TCleanupEnd (f_n f) (c_id c)] ++ tr).
        apply gden_pre; [intros o' Hin; simpl in Hin; intuition discriminate|].
        rewrite <- HG. apply HR. intros i o' Hin. apply Hc. simpl; auto.
      * pose proof (res_glob_sem _ rest (r_stopped rs) _ (finish_fsem (f_n f) (OErr e') (f_cleanups f) rest (r_next rs) I)
                      (finish_nr _ _ _ _ _)) as HR.
        destruct (res_glob rest (r_stopped rs) (finish (f_n f) (OErr e') (f_cleanups f) rest (r_next rs))) as [[g nx'] tr].
        injection Hx as <-. intros Hc.
        change (TLeafDone id (OVal v) :: TCleanupEnd (f_n f) (c_id c) :: tr)
          with ([TLeafDone id (OVal v); TCleanupEnd (f_n f) (c_id c)] ++ tr).
        apply gden_pre; [intros o' Hin; simpl in Hin; intuition discriminate|].
        rewrite <- HG. apply HR. intros i o' Hin. apply Hc. simpl; auto.
      * pose proof (unwind_done_den (f :: rest) zs) as HU.
        destruct (unwind_done zs (f :: rest)) as [g tr]. simpl in HU.
        injection Hx as <-. intros Hc.
        change (TLeafDone id (OVal v) :: TCleanupEnd (f_n f) (c_id c) :: tr)
          with ([TLeafDone id (OVal v); TCleanupEnd (f_n f) (c_id c)] ++ tr).
        apply gden_pre; [intros o' Hin; simpl in Hin; intuition discriminate|].
        rewrite <- HG, sres_done. exact HU.
    + injection Hx as <-. intros _. split; [|exact I]. intros o' Hin; simpl in Hin; intuition discriminate.
    + injection Hx as <-. intros _. split; [|exact I]. intros o' Hin; simpl in Hin; intuition discriminate.
Qed.

Lemma stop_J : forall T rs, J T rs ->
  J T (let (g, tr) := on_stop (r_cfg rs) in
       {| r_cfg := g; r_stopped := true; r_next := r_next rs; r_tr := r_tr rs ++ TStopReq :: tr |}).
Proof.
  intros T rs HJ.
  assert (Hgen : forall g tr, (consistent (r_tr rs) -> gden (r_cfg rs) (r_tr rs) T -> consistent tr -> gden g tr T) ->
            J T {| r_cfg := g; r_stopped := true; r_next := r_next rs; r_tr := r_tr rs ++ TStopReq :: tr |}).
  { intros g tr H. unfold J; simpl. intros Hc. apply consistent_app in Hc. destruct Hc as [Hc1 Hc2].
    specialize (HJ Hc1).
    assert (Hc3 : consistent tr) by (intros i o Hin; apply Hc2; simpl; auto).
    specialize (H Hc1 HJ Hc3).
    apply gden_combine; [destruct HJ; auto|].
    change (TStopReq :: tr) with ([TStopReq] ++ tr). apply gden_pre; [apply noroot_one; discriminate|exact H]. }
  assert (Hsame : J T {| r_cfg := r_cfg rs; r_stopped := true; r_next := r_next rs; r_tr := r_tr rs ++ [TStopReq] |}).
  { apply Hgen. intros _ [_ HG] _. split; [intros o []|exact HG]. }
  destruct (r_cfg rs) as [s stack|zs| |] eqn:EC; cbn [on_stop]; try exact Hsame.
  destruct s as [id kd seen|eo c zs]; try exact Hsame.
  destruct kd; try exact Hsame; destruct seen; try exact Hsame.
  - apply Hgen. intros _ [_ HG] _. split; [intros o Hin; simpl in Hin; intuition discriminate|exact HG].
  - pose proof (unwind_done_den stack []) as HU. destruct (unwind_done [] stack) as [g tr]. simpl in HU.
    apply Hgen. intros _ [_ HG] Hc.
    assert (Hr : rho id = ODone) by (apply Hc; simpl; auto).
    rewrite Hr, sres_done in HG. rewrite <- HG.
    apply gden_pre; [intros o Hin; simpl in Hin; intuition discriminate|exact HU].
Qed.

Lemma run_ev_J : forall T rs ev, J T rs -> J T (run_ev rs ev).
Proof.
  intros T rs [id o|] H; unfold run_ev.
  - destruct (on_leaf (r_cfg rs) id o (r_stopped rs) (r_next rs)) eqn:E.
    + eapply on_leaf_J; eauto.
    + apply skip_J; assumption.
  - destruct (r_stopped rs).
    + apply skip_J; assumption.
    + apply stop_J; assumption.
Qed.

Lemma fold_J : forall T script rs, J T rs -> J T (fold_left run_ev script rs).
Proof. induction script; simpl; intros; auto. apply IHscript. apply run_ev_J; assumption. Qed.

Lemma finish_run_roots : forall T rs, J T rs -> consistent (r_tr (finish_run rs)) ->
  forall o, In (TRoot o) (r_tr (finish_run rs)) -> o = T.
Proof.
  unfold J, finish_run; intros T rs HJ Hc o Hin.
  destruct (r_cfg rs) as [s stack|zs| |]; simpl in *.
  - destruct (HJ Hc); auto.
  - apply consistent_app in Hc. destruct Hc as [Hc _]. destruct (HJ Hc) as [HR _].
    apply in_app_or in Hin. destruct Hin as [Hin|[Hin|Hin]]; auto; [discriminate|].
    exfalso. unfold destroy_frames in Hin. apply in_flat_map in Hin. destruct Hin as (f & _ & Hin).
    apply in_app_or in Hin. destruct Hin as [Hin|[Hin|[]]]; [|discriminate].
    eapply noroot_dtors; eauto.
  - apply consistent_app in Hc. destruct Hc as [Hc _]. destruct (HJ Hc) as [HR _].
    apply in_app_or in Hin. destruct Hin as [Hin|[Hin|[]]]; auto; discriminate.
  - destruct (HJ Hc); auto.
Qed.
End Denot.

(* ADEQUACY: whatever the script (order of leaf completions, stop request anywhere), the root receiver is
   completed with [eval rho body []] for every oracle rho that agrees with the leaf completions that
   happened in the run. *)
Theorem adequacy : forall (rho : nat -> outcome) body prestopped script,
  let tr := r_tr (exec body prestopped script) in
  (forall id o, In (TLeafDone id o) tr -> rho id = o) ->
  forall o, In (TRoot o) tr -> o = eval rho body [].
Proof.
  intros rho body ps script tr Hc o Hin.
  eapply finish_run_roots; [apply fold_J; apply run_start_J|exact Hc|exact Hin].
Qed.

(* the equations of [eval], spelled out *)
Definition aw_eval (rho : nat -> outcome) (s : aw) (env : list Z) : outcome :=
  match s with
  | AJust a => OVal (arg_val a env)
  | AAwJust a => OVal (arg_val a env)
  | AErr x => OErr x
  | AAwErr x => OErr x
  | ADone => ODone
  | ALeaf _ id => rho id
  | ATask b => eval rho b env
  end.

Lemma eval_await : forall rho s k env,
  eval rho (CAwait s k) env =
  match aw_eval rho s env with
  | OVal v => eval rho k (v :: env)          (* the value is returned by co_await *)
  | OErr x => eval rho (CThrow x) env        (* the error is rethrown at the co_await *)
  | ODone => ODone                           (* the coroutine is cancelled *)
  end.
Proof. intros. destruct s; reflexivity. Qed.

Lemma eval_task : forall rho b env a x,
  aw_eval rho (ATask b) env = eval rho b env /\
  eval rho (CRet a) env = OVal (arg_val a env) /\
  eval rho (CThrow x) env = OErr x.
Proof. intros. repeat split; reflexivity. Qed.

(* round trips: a plain awaitable is awaited through as_sender / connect_awaitable / await_transform and
   gives what the sender gives; a task that only forwards what it awaits (sender -> awaitable -> sender)
   completes as the awaited thing does *)
Lemma eval_roundtrip : forall rho s env a x,
  aw_eval rho (AAwJust a) env = aw_eval rho (AJust a) env /\
  aw_eval rho (AAwErr x) env = aw_eval rho (AErr x) env /\
  aw_eval rho (ATask (CAwait s (CRet (AVar 0 0)))) env = aw_eval rho s env.
Proof.
  intros. repeat split; try reflexivity.
  unfold aw_eval at 1. rewrite eval_await.
  destruct (aw_eval rho s env); simpl; auto. rewrite Z.add_0_r. reflexivity.
Qed.

(* ---------------------------------------------------------------------------------------------- *)
(* What acceptance by the monitor means, in terms of the trace alone (no machine involved: these  *)
(* hold for every trace the monitor accepts, the model's by exec_monitored and the               *)
(* implementation's whenever the K2 tie reports the extracted monitor's "ok").                   *)
Definition ftag (e : tev) : option nat :=
  match e with
  | TFrame n => Some n
  | TFrameDestroyed n => Some n
  | TLocalCtor f _ => Some f
  | TLocalDtor f _ => Some f
  | TCleanupReg f _ => Some f
  | TCleanupRun f _ => Some f
  | TCleanupEnd f _ => Some f
  | _ => None
  end.

Definition reg1 (n : nat) (e : tev) : list nat :=
  match e with TCleanupReg f c => if Nat.eqb f n then [c] else [] | _ => [] end.
Definition run1 (n : nat) (e : tev) : list nat :=
  match e with TCleanupRun f c => if Nat.eqb f n then [c] else [] | _ => [] end.
Definition end1 (n : nat) (e : tev) : list nat :=
  match e with TCleanupEnd f c => if Nat.eqb f n then [c] else [] | _ => [] end.
Definition ctor1 (n : nat) (e : tev) : list nat :=
  match e with TLocalCtor f i => if Nat.eqb f n then [i] else [] | _ => [] end.
Definition dtor1 (n : nat) (e : tev) : list nat :=
  match e with TLocalDtor f i => if Nat.eqb f n then [i] else [] | _ => [] end.
Definition frame1 (n : nat) (e : tev) : list unit :=
  match e with TFrame f => if Nat.eqb f n then [tt] else [] | _ => [] end.
Definition fd1 (n : nat) (e : tev) : list unit :=
  match e with TFrameDestroyed f => if Nat.eqb f n then [tt] else [] | _ => [] end.

(* cleanup actions registered / started / finished in frame n, in order; locals constructed / destroyed in
   frame n, in order; number of creations / destructions of frame n *)
Definition regs (n : nat) (tr : list tev) : list nat := flat_map (reg1 n) tr.
Definition runs (n : nat) (tr : list tev) : list nat := flat_map (run1 n) tr.
Definition ends (n : nat) (tr : list tev) : list nat := flat_map (end1 n) tr.
Definition ctors (n : nat) (tr : list tev) : list nat := flat_map (ctor1 n) tr.
Definition dtors_of (n : nat) (tr : list tev) : list nat := flat_map (dtor1 n) tr.
Definition created (n : nat) (tr : list tev) : nat := length (flat_map (frame1 n) tr).
Definition destroyed (n : nat) (tr : list tev) : nat := length (flat_map (fd1 n) tr).
Definition occ (i : nat) (l : list nat) : nat := count_occ Nat.eq_dec l i.

(* summary of everything about frame n in a trace *)
Record fsum := { u_regs : list nat; u_runs : list nat; u_ends : list nat; u_ctors : list nat; u_dtors : list nat;
                 u_created : nat; u_destroyed : nat }.
Definition fs (n : nat) (tr : list tev) : fsum :=
  {| u_regs := regs n tr; u_runs := runs n tr; u_ends := ends n tr; u_ctors := ctors n tr; u_dtors := dtors_of n tr;
     u_created := created n tr; u_destroyed := destroyed n tr |}.

Definition cur_list (s : lst) : list nat := match l_cur s with Some c => [c] | None => [] end.

Definition LiveInv (s : lst) (u : fsum) : Prop :=
  rev (u_regs u) = u_runs u ++ l_pend s /\
  u_runs u = u_ends u ++ cur_list s /\
  (l_ran s = false -> u_runs u = []) /\
  u_created u = 1 /\ u_destroyed u = 0 /\
  (forall i, occ i (u_ctors u) = occ i (u_dtors u) + occ i (l_locals s)).
Definition GoneInv (u : fsum) : Prop :=
  u_runs u = rev (u_regs u) /\ u_ends u = u_runs u /\ u_created u = 1 /\ u_destroyed u = 1 /\
  (forall i, occ i (u_ctors u) = occ i (u_dtors u)).
Definition NoneInv (u : fsum) : Prop :=
  u_regs u = [] /\ u_runs u = [] /\ u_ends u = [] /\ u_ctors u = [] /\ u_dtors u = [] /\
  u_created u = 0 /\ u_destroyed u = 0.

Definition GI (tr : list tev) (m : mst) : Prop :=
  NoDup (map l_n (m_live m)) /\
  (forall s, In s (m_live m) -> l_n s < m_next m /\ LiveInv s (fs (l_n s) tr)) /\
  (forall n, n < m_next m -> ~ In n (map l_n (m_live m)) -> GoneInv (fs n tr)) /\
  (forall n, m_next m <= n -> NoneInv (fs n tr)).

Lemma fs_snoc_other : forall n tr e, (forall k, ftag e = Some k -> k <> n) -> fs n (tr ++ [e]) = fs n tr.
Proof.
  intros. unfold fs, regs, runs, ends, ctors, dtors_of, created, destroyed.
  rewrite !flat_map_app. simpl. rewrite !app_nil_r.
  assert (E : reg1 n e = [] /\ run1 n e = [] /\ end1 n e = [] /\ ctor1 n e = [] /\ dtor1 n e = [] /\
              frame1 n e = [] /\ fd1 n e = []).
  { destruct e; simpl; repeat split; auto;
      match goal with |- (if Nat.eqb ?a n then _ else _) = _ =>
        destruct (Nat.eqb a n) eqn:E; auto; apply Nat.eqb_eq in E; exfalso; eapply (H a); eauto end. }
  destruct E as (-> & -> & -> & -> & -> & -> & ->). rewrite !app_nil_r. reflexivity.
Qed.

Lemma upd_spec : forall n f live live',
  upd n f live = Some live' ->
  exists pre s post s', live = pre ++ s :: post /\ l_n s = n /\ f s = Some s' /\ live' = pre ++ s' :: post.
Proof.
  induction live as [|a live IH]; simpl; intros; [discriminate|].
  destruct (Nat.eqb (l_n a) n) eqn:E.
  - destruct (f a) eqn:F; simpl in H; [|discriminate]. inversion H; subst.
    apply Nat.eqb_eq in E. exists [], a, live, l. auto.
  - destruct (quiet a); [|discriminate].
    destruct (upd n f live) eqn:U; simpl in H; [|discriminate]. inversion H; subst.
    destruct (IH _ eq_refl) as (pre & s & post & s' & -> & Hn & Hf & ->).
    exists (a :: pre), s, post, s'. auto.
Qed.

(* replacing the entry of frame k by one with the same number *)
Lemma GI_replace : forall tr e m k pre s post s',
  GI tr m -> m_live m = pre ++ s :: post -> l_n s = k -> l_n s' = k ->
  (forall j, ftag e = Some j -> j = k) ->
  LiveInv s' (fs k (tr ++ [e])) ->
  forall m', m_live m' = pre ++ s' :: post -> m_next m' = m_next m -> GI (tr ++ [e]) m'.
Proof.
  intros tr e m k pre s post s' (HND & HL & HG & HN) Hlive Hs Hs' Htag HI m' Hlive' Hnext.
  assert (Hmap : map l_n (m_live m') = map l_n (m_live m)).
  { rewrite Hlive, Hlive', !map_app. simpl. rewrite Hs, Hs'. reflexivity. }
  unfold GI. rewrite Hmap, Hnext. split; [exact HND|]. split; [|split].
  - intros x Hx. rewrite Hlive' in Hx. apply in_app_or in Hx.
    assert (Hk : l_n s < m_next m) by (apply HL; rewrite Hlive; apply in_or_app; simpl; auto).
    destruct Hx as [Hx|[Hx|Hx]].
    + assert (Hin : In x (m_live m)) by (rewrite Hlive; apply in_or_app; auto).
      split; [apply HL; auto|]. rewrite fs_snoc_other; [apply HL; auto|].
      intros j Hj. rewrite (Htag j Hj). intros Heq.
      rewrite Hlive, map_app in HND. simpl in HND. apply NoDup_remove_2 in HND.
      apply HND. apply in_or_app. left. rewrite Hs, Heq. apply in_map. exact Hx.
    + subst x. rewrite Hs'. split; [lia|exact HI].
    + assert (Hin : In x (m_live m)) by (rewrite Hlive; apply in_or_app; simpl; auto).
      split; [apply HL; auto|]. rewrite fs_snoc_other; [apply HL; auto|].
      intros j Hj. rewrite (Htag j Hj). intros Heq.
      rewrite Hlive, map_app in HND. simpl in HND. apply NoDup_remove_2 in HND.
      apply HND. apply in_or_app. right. rewrite Hs, Heq. apply in_map. exact Hx.
  - intros n Hn Hnin. rewrite fs_snoc_other; [apply HG; auto|].
    intros j Hj. rewrite (Htag j Hj). intros Heq. apply Hnin. rewrite Hlive, map_app. simpl.
    apply in_or_app. right. left. lia.
  - intros n Hn. rewrite fs_snoc_other; [apply HN; auto|].
    intros j Hj. rewrite (Htag j Hj). intros Heq.
    assert (Hk : l_n s < m_next m) by (apply HL; rewrite Hlive; apply in_or_app; simpl; auto). lia.
Qed.

Ltac fs_snoc_tac := intros; unfold fs, regs, runs, ends, ctors, dtors_of, created, destroyed;
  rewrite !flat_map_app; simpl; rewrite ?Nat.eqb_refl; simpl; rewrite ?app_nil_r, ?app_length; simpl; reflexivity.

Lemma fs_snoc_ctor : forall n tr i, fs n (tr ++ [TLocalCtor n i]) =
  {| u_regs := regs n tr; u_runs := runs n tr; u_ends := ends n tr; u_ctors := ctors n tr ++ [i];
     u_dtors := dtors_of n tr; u_created := created n tr; u_destroyed := destroyed n tr |}.
Proof. fs_snoc_tac. Qed.
Lemma fs_snoc_dtor : forall n tr i, fs n (tr ++ [TLocalDtor n i]) =
  {| u_regs := regs n tr; u_runs := runs n tr; u_ends := ends n tr; u_ctors := ctors n tr;
     u_dtors := dtors_of n tr ++ [i]; u_created := created n tr; u_destroyed := destroyed n tr |}.
Proof. fs_snoc_tac. Qed.
Lemma fs_snoc_reg : forall n tr c, fs n (tr ++ [TCleanupReg n c]) =
  {| u_regs := regs n tr ++ [c]; u_runs := runs n tr; u_ends := ends n tr; u_ctors := ctors n tr;
     u_dtors := dtors_of n tr; u_created := created n tr; u_destroyed := destroyed n tr |}.
Proof. fs_snoc_tac. Qed.
Lemma fs_snoc_run : forall n tr c, fs n (tr ++ [TCleanupRun n c]) =
  {| u_regs := regs n tr; u_runs := runs n tr ++ [c]; u_ends := ends n tr; u_ctors := ctors n tr;
     u_dtors := dtors_of n tr; u_created := created n tr; u_destroyed := destroyed n tr |}.
Proof. fs_snoc_tac. Qed.
Lemma fs_snoc_end : forall n tr c, fs n (tr ++ [TCleanupEnd n c]) =
  {| u_regs := regs n tr; u_runs := runs n tr; u_ends := ends n tr ++ [c]; u_ctors := ctors n tr;
     u_dtors := dtors_of n tr; u_created := created n tr; u_destroyed := destroyed n tr |}.
Proof. fs_snoc_tac. Qed.
Lemma fs_snoc_frame : forall n tr, fs n (tr ++ [TFrame n]) =
  {| u_regs := regs n tr; u_runs := runs n tr; u_ends := ends n tr; u_ctors := ctors n tr;
     u_dtors := dtors_of n tr; u_created := created n tr + 1; u_destroyed := destroyed n tr |}.
Proof. fs_snoc_tac. Qed.
Lemma fs_snoc_fd : forall n tr, fs n (tr ++ [TFrameDestroyed n]) =
  {| u_regs := regs n tr; u_runs := runs n tr; u_ends := ends n tr; u_ctors := ctors n tr;
     u_dtors := dtors_of n tr; u_created := created n tr; u_destroyed := destroyed n tr + 1 |}.
Proof. fs_snoc_tac. Qed.

Lemma occ_snoc : forall i l x, occ i (l ++ [x]) = occ i l + (if Nat.eq_dec x i then 1 else 0).
Proof.
  intros. unfold occ. rewrite count_occ_app. simpl. destruct (Nat.eq_dec x i); reflexivity.
Qed.
Lemma occ_cons : forall i l x, occ i (x :: l) = (if Nat.eq_dec x i then 1 else 0) + occ i l.
Proof. intros. unfold occ. simpl. destruct (Nat.eq_dec x i); reflexivity. Qed.

Lemma frame_ev_spec : forall m n f m', frame_ev m n f = Some m' ->
  exists live', upd n f (m_live m) = Some live' /\ m' = set_live m live'.
Proof.
  unfold frame_ev; intros. destruct (m_wait m); [discriminate|].
  destruct (upd n f (m_live m)) eqn:U; simpl in H; [|discriminate]. inversion H. eauto.
Qed.

(* one step of the monitor on a frame event handled by frame_ev *)
Lemma GI_frame_ev : forall tr e m k f m',
  GI tr m -> frame_ev m k f = Some m' -> (forall j, ftag e = Some j -> j = k) ->
  (forall s s', f s = Some s' -> l_n s' = l_n s) ->
  (forall s s', l_n s = k -> f s = Some s' -> LiveInv s (fs k tr) -> LiveInv s' (fs k (tr ++ [e]))) ->
  GI (tr ++ [e]) m'.
Proof.
  intros tr e m k f m' HGI Hfe Htag Hn HLI.
  destruct (frame_ev_spec _ _ _ _ Hfe) as (live' & Hu & ->).
  destruct (upd_spec _ _ _ _ Hu) as (pre & s & post & s' & Hlive & Hs & Hf & ->).
  eapply GI_replace with (s := s) (s' := s'); eauto.
  - rewrite (Hn _ _ Hf). exact Hs.
  - apply (HLI s s' Hs Hf). destruct HGI as (_ & HL & _). rewrite <- Hs. apply HL.
    rewrite Hlive. apply in_or_app. simpl; auto.
Qed.

Lemma untagged_live : forall m e m', ftag e = None -> mon_step m e = Some m' ->
  m_live m' = m_live m /\ m_next m' = m_next m.
Proof.
  intros m e m' Ht H. unfold mon_step in H.
  destruct (m_dead m).
  { destruct e; try discriminate; inversion H; auto. }
  destruct (m_expect m).
  { destruct e; try discriminate. destruct (Nat.eqb n id); [|discriminate]. inversion H; auto. }
  destruct e; simpl in Ht; try discriminate.
  - destruct (m_root m); [discriminate|]. destruct (m_wait m); [discriminate|].
    destruct (Bool.eqb stopped (stoppable0 && m_stopped m)); [|discriminate]. inversion H; auto.
  - destruct (m_root m); [discriminate|]. destruct (m_wait m); [discriminate|]. inversion H; auto.
  - destruct (m_wait m) as [[id' b]|]; [|discriminate]. destruct (Nat.eqb id id'); [|discriminate]. inversion H; auto.
  - destruct (m_stopped m); [discriminate|]. inversion H; auto.
  - destruct (m_root m); [discriminate|]. destruct (m_wait m); [discriminate|].
    match type of H with (if ?c then _ else _) = _ => destruct c end; [|discriminate]. inversion H; auto.
  - destruct (m_root m && negb (m_opd m)); [|discriminate]. inversion H; auto.
  - inversion H; auto.
  - inversion H; auto.
Qed.

Lemma GI_step : forall tr m e m', GI tr m -> mon_step m e = Some m' -> GI (tr ++ [e]) m'.
Proof.
  intros tr m e m' HGI H.
  destruct (ftag e) as [k|] eqn:Ht.
  2:{ (* events that belong to no frame *)
    destruct (untagged_live _ _ _ Ht H) as [Hl Hn].
    destruct HGI as (HND & HL & HG & HN). unfold GI. rewrite Hl, Hn.
    assert (Hfs : forall n, fs n (tr ++ [e]) = fs n tr).
    { intros. apply fs_snoc_other. intros j Hj. congruence. }
    split; [exact HND|]. split; [|split]; intros; rewrite Hfs; auto. }
  unfold mon_step in H.
  destruct (m_dead m) eqn:Hdead.
  { destruct e; try discriminate. }
  destruct (m_expect m) eqn:Hexp.
  { destruct e; try discriminate. }
  destruct e; simpl in Ht; try discriminate; inversion Ht; subst k.
  - (* TFrame *)
    destruct (m_root m); [discriminate|]. destruct (m_wait m); [discriminate|].
    destruct (Nat.eqb n (m_next m)) eqn:E; [|discriminate]. apply Nat.eqb_eq in E. inversion H; subst m'. clear H.
    destruct HGI as (HND & HL & HG & HN).
    unfold GI. simpl. split; [|split; [|split]].
    + constructor; auto. intros Hin. apply in_map_iff in Hin. destruct Hin as (s & Hs & Hin).
      destruct (HL s Hin). lia.
    + intros s [Hs|Hs].
      * subst s. simpl. split; [lia|]. rewrite fs_snoc_frame.
        destruct (HN n ltac:(lia)) as (R1 & R2 & R3 & R4 & R5 & R6 & R7). simpl in *.
        unfold LiveInv; simpl. rewrite R1, R2, R3, R4, R5, R6, R7. repeat split; auto.
      * destruct (HL s Hs). split; [lia|]. rewrite fs_snoc_other; auto. simpl. intros j Hj. inversion Hj. lia.
    + intros k Hk Hnin. rewrite fs_snoc_other.
      * apply HG; [|intros Hin; apply Hnin; auto]. assert (k <> n) by (intros ->; apply Hnin; auto). lia.
      * simpl. intros j Hj. inversion Hj. subst j. intros ->. apply Hnin. auto.
    + intros k Hk. rewrite fs_snoc_other; [apply HN; lia|]. simpl. intros j Hj. inversion Hj. lia.
  - (* TLocalCtor *)
    destruct (m_root m); [discriminate|].
    eapply GI_frame_ev; eauto.
    + simpl. intros j Hj. inversion Hj; auto.
    + intros s s' Hf. cbv beta in Hf. destruct (l_cur s), (l_ran s); try discriminate. inversion Hf. reflexivity.
    + intros s s' Hs Hf (I1 & I2 & I3 & I4 & I5 & I6). cbv beta in Hf.
      destruct (l_cur s) eqn:Ec, (l_ran s) eqn:Er; try discriminate. inversion Hf; subst s'. clear Hf.
      rewrite fs_snoc_ctor. unfold LiveInv, cur_list in *. rewrite Ec in I2. simpl in *.
      repeat split; auto. intros i. rewrite occ_snoc, I6. destruct (Nat.eq_dec id i); lia.
  - (* TLocalDtor *)
    destruct (m_root m && negb (m_opd m)); [discriminate|].
    eapply GI_frame_ev; eauto.
    + simpl. intros j Hj. inversion Hj; auto.
    + intros s s' Hf. cbv beta in Hf. destruct (l_cur s), (l_locals s) as [|i0 ls]; try discriminate.
      destruct (Nat.eqb id i0); [|discriminate]. inversion Hf. reflexivity.
    + intros s s' Hs Hf (I1 & I2 & I3 & I4 & I5 & I6). cbv beta in Hf.
      destruct (l_cur s) eqn:Ec, (l_locals s) as [|i0 ls] eqn:El; try discriminate.
      destruct (Nat.eqb id i0) eqn:E; [|discriminate]. apply Nat.eqb_eq in E. subst i0.
      inversion Hf; subst s'. clear Hf.
      rewrite fs_snoc_dtor. unfold LiveInv, cur_list in *. rewrite Ec in I2. simpl in *.
      repeat split; auto. intros i. rewrite occ_snoc, I6. destruct (Nat.eq_dec id i); lia.
  - (* TCleanupReg *)
    destruct (m_root m); [discriminate|].
    eapply GI_frame_ev; eauto.
    + simpl. intros j Hj. inversion Hj; auto.
    + intros s s' Hf. cbv beta in Hf. destruct (l_cur s), (l_ran s); try discriminate. inversion Hf. reflexivity.
    + intros s s' Hs Hf (I1 & I2 & I3 & I4 & I5 & I6). cbv beta in Hf.
      destruct (l_cur s) eqn:Ec, (l_ran s) eqn:Er; try discriminate. inversion Hf; subst s'. clear Hf.
      rewrite fs_snoc_reg. unfold LiveInv, cur_list in *. rewrite Ec in I2. simpl in *.
      specialize (I3 eq_refl). rewrite I3 in *. simpl in *.
      repeat split; auto. rewrite rev_app_distr. simpl. rewrite I1. reflexivity.
  - (* TCleanupRun *)
    destruct (m_root m); [discriminate|].
    eapply GI_frame_ev; eauto.
    + simpl. intros j Hj. inversion Hj; auto.
    + intros s s' Hf. cbv beta in Hf. destruct (l_cur s), (l_pend s) as [|c0 ps]; try discriminate.
      destruct (Nat.eqb c c0); [|discriminate]. inversion Hf. reflexivity.
    + intros s s' Hs Hf (I1 & I2 & I3 & I4 & I5 & I6). cbv beta in Hf.
      destruct (l_cur s) eqn:Ec, (l_pend s) as [|c0 ps] eqn:Ep; try discriminate.
      destruct (Nat.eqb c c0) eqn:E; [|discriminate]. apply Nat.eqb_eq in E. subst c0.
      inversion Hf; subst s'. clear Hf.
      rewrite fs_snoc_run. unfold LiveInv, cur_list in *. rewrite Ec in I2. simpl in *.
      rewrite app_nil_r in I2.
      repeat split; auto.
      * rewrite I1, <- app_assoc. reflexivity.
      * rewrite I2. reflexivity.
      * intros; discriminate.
  - (* TCleanupEnd *)
    destruct (m_root m); [discriminate|].
    eapply GI_frame_ev; eauto.
    + simpl. intros j Hj. inversion Hj; auto.
    + intros s s' Hf. cbv beta in Hf. destruct (nat_eq_opt (l_cur s) c); [|discriminate]. inversion Hf. reflexivity.
    + intros s s' Hs Hf (I1 & I2 & I3 & I4 & I5 & I6). cbv beta in Hf.
      destruct (nat_eq_opt (l_cur s) c) eqn:E; [|discriminate].
      unfold nat_eq_opt in E. destruct (l_cur s) as [c0|] eqn:Ec; [|discriminate].
      apply Nat.eqb_eq in E. subst c0. inversion Hf; subst s'. clear Hf.
      rewrite fs_snoc_end. unfold LiveInv, cur_list in *. rewrite Ec in I2. simpl in *.
      repeat split; auto.
      * rewrite app_nil_r. exact I2.
  - (* TFrameDestroyed *)
    destruct (m_root m && negb (m_opd m)); [discriminate|].
    destruct (m_wait m); [discriminate|].
    destruct (m_live m) as [|s rest] eqn:El; [discriminate|].
    destruct (Nat.eqb (l_n s) n) eqn:E; [|discriminate]. apply Nat.eqb_eq in E.
    destruct (l_locals s) eqn:Eloc; [|discriminate]. destruct (l_pend s) eqn:Ep; [|discriminate].
    destruct (l_cur s) eqn:Ec; [discriminate|]. inversion H; subst m'. clear H.
    destruct HGI as (HND & HL & HG & HN). rewrite El in *. simpl in HND. inversion HND as [|? ? Hnin HND']; subst.
    unfold GI. simpl. split; [exact HND'|]. split; [|split].
    + intros x Hx. destruct (HL x (or_intror Hx)). split; auto.
      rewrite fs_snoc_other; auto. simpl. intros j Hj. inversion Hj. subst j.
      intros Heq. apply Hnin. rewrite Heq. apply in_map. exact Hx.
    + intros k Hk Hnin'. destruct (Nat.eq_dec k (l_n s)) as [->|Hne].
      * destruct (HL s (or_introl eq_refl)) as [_ (I1 & I2 & I3 & I4 & I5 & I6)].
        rewrite fs_snoc_fd. unfold GoneInv, cur_list in *. rewrite Ec, Ep, Eloc in *. simpl in *.
        rewrite app_nil_r in *. repeat split; auto; try lia.
        intros i. rewrite I6. unfold occ. simpl. lia.
      * rewrite fs_snoc_other; [apply HG; auto; intros [Hin|Hin]; [lia|auto]|].
        simpl. intros j Hj. inversion Hj. lia.
    + intros k Hk. rewrite fs_snoc_other; [apply HN; auto|]. simpl. intros j Hj. inversion Hj.
      destruct (HL s (or_introl eq_refl)). lia.
Qed.

Lemma GI_init : GI [] m0.
Proof.
  unfold GI, m0; simpl. split; [constructor|]. split; [intros s []|]. split; [intros; lia|].
  intros. unfold NoneInv; simpl. repeat split; reflexivity.
Qed.

Lemma GI_run : forall tr2 tr m m', GI tr m -> mon_run m tr2 = Some m' -> GI (tr ++ tr2) m'.
Proof.
  induction tr2; simpl; intros.
  - inversion H0; subst. rewrite app_nil_r. assumption.
  - destruct (mon_step m a) eqn:E; [|discriminate].
    replace (tr ++ a :: tr2) with ((tr ++ [a]) ++ tr2) by (rewrite <- app_assoc; reflexivity).
    eapply IHtr2; [|eassumption]. eapply GI_step; eauto.
Qed.

(* the flags of the monitor *)
Definition noterm (tr : list tev) : Prop := ~ In TTerminate tr.

Lemma frame_ev_flags : forall m n f m', frame_ev m n f = Some m' ->
  m_dead m' = m_dead m /\ m_root m' = m_root m /\ m_stopped m' = m_stopped m.
Proof. intros. destruct (frame_ev_spec _ _ _ _ H) as (l & _ & ->). auto. Qed.

Lemma flags_step : forall m e m', mon_step m e = Some m' -> m_dead m = false ->
  (e <> TTerminate -> m_dead m' = false) /\
  (e <> TTerminate -> m_root m = true -> m_root m' = true) /\
  (forall o, e = TRoot o -> m_root m' = true).
Proof.
  intros m e m' H Hd. unfold mon_step in H. rewrite Hd in H.
  destruct (m_expect m).
  { destruct e; try discriminate. destruct (Nat.eqb n id); [|discriminate]. inversion H; subst; simpl.
    repeat split; auto; intros; discriminate. }
  destruct e;
    repeat match type of H with
           | (if ?c then _ else _) = _ => destruct c eqn:?; try discriminate
           | match ?x with _ => _ end = _ => destruct x eqn:?; try discriminate
           end;
    try (apply frame_ev_flags in H; destruct H as (H1 & H2 & H3); rewrite H1, H2;
         repeat split; auto; intros; discriminate);
    try (inversion H; subst; simpl; repeat split; auto; intros; try discriminate; congruence).
Qed.

Lemma flags_run : forall tr m m', mon_run m tr = Some m' -> m_dead m = false -> noterm tr ->
  m_dead m' = false /\ (m_root m = true -> m_root m' = true) /\ ((exists o, In (TRoot o) tr) -> m_root m' = true).
Proof.
  induction tr; simpl; intros.
  - inversion H; subst. repeat split; auto. intros [o []].
  - destruct (mon_step m a) eqn:E; [|discriminate].
    assert (Ha : a <> TTerminate) by (intros ->; apply H1; simpl; auto).
    assert (Hn : noterm tr) by (intros Hin; apply H1; simpl; auto).
    destruct (flags_step _ _ _ E H0) as (F1 & F2 & F3).
    destruct (IHtr _ _ H (F1 Ha) Hn) as (G1 & G2 & G3).
    repeat split; auto.
    intros [o [Ho|Ho]]; [apply G2; eapply F3; eauto|apply G3; eauto].
Qed.

(* (1) a completed run: in every frame the cleanup actions ran in reverse registration order, each exactly
   once and to the end; the frame was destroyed exactly once; every local was destroyed as often as it
   was constructed *)
Theorem accepted_lifecycles : forall tr,
  monitor tr = true -> (exists o, In (TRoot o) tr) -> noterm tr ->
  forall n,
    runs n tr = rev (regs n tr) /\ ends n tr = runs n tr /\
    destroyed n tr = created n tr /\ created n tr <= 1 /\
    (forall i, occ i (dtors_of n tr) = occ i (ctors n tr)).
Proof.
  unfold monitor; intros tr Hm Hroot Hnt n.
  destruct (mon_run m0 tr) as [m|] eqn:Hr; [|discriminate].
  destruct (flags_run _ _ _ Hr eq_refl Hnt) as (Hd & _ & HR). specialize (HR Hroot).
  unfold mon_final in Hm. rewrite Hd, HR in Hm. simpl in Hm.
  destruct (m_expect m); [discriminate|]. destruct (m_opd m); [|discriminate].
  destruct (m_live m) eqn:El; [|discriminate].
  pose proof (GI_run _ _ _ _ GI_init Hr) as (_ & _ & HG & HN). simpl in HG, HN. rewrite El in HG.
  destruct (Nat.lt_ge_cases n (m_next m)) as [Hlt|Hge].
  - destruct (HG n Hlt (fun x => x)) as (G1 & G2 & G3 & G4 & G5). simpl in *.
    repeat split; auto; try lia.
  - destruct (HN n Hge) as (R1 & R2 & R3 & R4 & R5 & R6 & R7). simpl in *.
    rewrite R1, R2, R3, R4, R5, R6, R7. repeat split; auto.
Qed.

Definition accepts (tr : list tev) : Prop := exists m, mon_run m0 tr = Some m.

Lemma accepts_split : forall tr1 e tr2, accepts (tr1 ++ e :: tr2) ->
  exists m1 m2, mon_run m0 tr1 = Some m1 /\ mon_step m1 e = Some m2.
Proof.
  intros tr1 e tr2 [m Hm]. rewrite mon_run_app in Hm.
  destruct (mon_run m0 tr1) as [m1|]; [|discriminate]. simpl in Hm.
  destruct (mon_step m1 e) as [m2|] eqn:E; [|discriminate]. eauto.
Qed.

Lemma quiet_inv : forall s u, quiet s = true -> LiveInv s u -> u_runs u = rev (u_regs u) /\ u_ends u = u_runs u.
Proof.
  unfold quiet, LiveInv, cur_list; intros s u Hq (I1 & I2 & _).
  destruct (l_pend s); [|discriminate]. destruct (l_cur s); [discriminate|].
  rewrite app_nil_r in *. split; congruence.
Qed.

(* (2) before the root receiver is completed, every cleanup action registered so far, in any frame, has
   run (in reverse registration order) and finished *)
Theorem accepted_before_root : forall tr1 o tr2,
  accepts (tr1 ++ TRoot o :: tr2) -> noterm tr1 ->
  forall n, runs n tr1 = rev (regs n tr1) /\ ends n tr1 = runs n tr1.
Proof.
  intros tr1 o tr2 Hacc Hnt n.
  destruct (accepts_split _ _ _ Hacc) as (m1 & m2 & Hr & Hs).
  destruct (flags_run _ _ _ Hr eq_refl Hnt) as (Hd & _ & _).
  pose proof (GI_run _ _ _ _ GI_init Hr) as (_ & HL & HG & HN). simpl in HL, HG, HN.
  unfold mon_step in Hs. rewrite Hd in Hs. destruct (m_expect m1); [discriminate|].
  destruct (m_root m1); [discriminate|]. destruct (m_wait m1); [discriminate|].
  assert (Hq : forallb quiet (m_live m1) = true).
  { destruct o; [destruct (m_live m1); [reflexivity|discriminate]..|].
    destruct (forallb quiet (m_live m1)); [reflexivity|discriminate]. }
  destruct (in_dec Nat.eq_dec n (map l_n (m_live m1))) as [Hin|Hnin].
  - apply in_map_iff in Hin. destruct Hin as (s & Hs' & Hin). subst n.
    rewrite forallb_forall in Hq. destruct (HL s Hin) as [_ HI].
    exact (quiet_inv _ _ (Hq s Hin) HI).
  - destruct (Nat.lt_ge_cases n (m_next m1)) as [Hlt|Hge].
    + destruct (HG n Hlt Hnin) as (G1 & G2 & _). simpl in *. auto.
    + destruct (HN n Hge) as (R1 & R2 & R3 & _). simpl in *. rewrite R1, R2, R3. auto.
Qed.

(* (3) when a frame is destroyed (the awaiting parent resumes): its cleanup actions have all run, in reverse
   registration order, and finished; its locals are gone; it had not been destroyed before *)
Theorem accepted_before_frame_destroyed : forall tr1 n tr2,
  accepts (tr1 ++ TFrameDestroyed n :: tr2) -> noterm tr1 ->
  runs n tr1 = rev (regs n tr1) /\ ends n tr1 = runs n tr1 /\
  (forall i, occ i (dtors_of n tr1) = occ i (ctors n tr1)) /\ destroyed n tr1 = 0 /\ created n tr1 = 1.
Proof.
  intros tr1 n tr2 Hacc Hnt.
  destruct (accepts_split _ _ _ Hacc) as (m1 & m2 & Hr & Hs).
  destruct (flags_run _ _ _ Hr eq_refl Hnt) as (Hd & _ & _).
  pose proof (GI_run _ _ _ _ GI_init Hr) as (_ & HL & _ & _). simpl in HL.
  unfold mon_step in Hs. rewrite Hd in Hs. destruct (m_expect m1); [discriminate|].
  destruct (m_root m1 && negb (m_opd m1)); [discriminate|]. destruct (m_wait m1); [discriminate|].
  destruct (m_live m1) as [|s rest]; [discriminate|].
  destruct (Nat.eqb (l_n s) n) eqn:E; [|discriminate]. apply Nat.eqb_eq in E. subst n.
  destruct (HL s (or_introl eq_refl)) as [_ (I1 & I2 & I3 & I4 & I5 & I6)].
  unfold cur_list in *.
  destruct (l_locals s); [|discriminate]. destruct (l_pend s); [|discriminate]. destruct (l_cur s); [discriminate|].
  simpl in *. rewrite app_nil_r in *. repeat split; auto; try congruence.
  intros i. rewrite I6. unfold occ. simpl. lia.
Qed.

(* live frames are stacked in creation order *)
Definition SI (m : mst) : Prop := sdesc (map l_n (m_live m)).

Lemma SI_step : forall tr m e m', GI tr m -> SI m -> mon_step m e = Some m' -> SI m'.
Proof.
  intros tr m e m' HGI HSI H. unfold SI in *.
  destruct (ftag e) as [k|] eqn:Ht.
  2:{ destruct (untagged_live _ _ _ Ht H) as [-> _]. exact HSI. }
  assert (Hfe : forall f, (forall s s', f s = Some s' -> l_n s' = l_n s) -> frame_ev m k f = Some m' ->
                          sdesc (map l_n (m_live m'))).
  { intros f Hn Hf. destruct (frame_ev_spec _ _ _ _ Hf) as (live' & Hu & ->).
    destruct (upd_spec _ _ _ _ Hu) as (pre & s & post & s' & Hlive & Hs & Hfs & ->).
    simpl. rewrite Hlive in HSI. rewrite map_app in *. simpl in *. rewrite (Hn _ _ Hfs). exact HSI. }
  unfold mon_step in H.
  destruct (m_dead m). { destruct e; try discriminate. }
  destruct (m_expect m). { destruct e; try discriminate. }
  destruct e; simpl in Ht; try discriminate; inversion Ht; subst k.
  - destruct (m_root m); [discriminate|]. destruct (m_wait m); [discriminate|].
    destruct (Nat.eqb n (m_next m)) eqn:E; [|discriminate]. apply Nat.eqb_eq in E. inversion H; subst m'. simpl.
    constructor; auto. destruct HGI as (_ & HL & _). apply Forall_forall. intros x Hx.
    apply in_map_iff in Hx. destruct Hx as (s & <- & Hin). destruct (HL s Hin). lia.
  - destruct (m_root m); [discriminate|]. eapply Hfe; [|exact H].
    intros s s' Hf. cbv beta in Hf. destruct (l_cur s), (l_ran s); try discriminate. inversion Hf. reflexivity.
  - destruct (m_root m && negb (m_opd m)); [discriminate|]. eapply Hfe; [|exact H].
    intros s s' Hf. cbv beta in Hf. destruct (l_cur s), (l_locals s) as [|i0 ls]; try discriminate.
    destruct (Nat.eqb id i0); [|discriminate]. inversion Hf. reflexivity.
  - destruct (m_root m); [discriminate|]. eapply Hfe; [|exact H].
    intros s s' Hf. cbv beta in Hf. destruct (l_cur s), (l_ran s); try discriminate. inversion Hf. reflexivity.
  - destruct (m_root m); [discriminate|]. eapply Hfe; [|exact H].
    intros s s' Hf. cbv beta in Hf. destruct (l_cur s), (l_pend s) as [|c0 ps]; try discriminate.
    destruct (Nat.eqb c c0); [|discriminate]. inversion Hf. reflexivity.
  - destruct (m_root m); [discriminate|]. eapply Hfe; [|exact H].
    intros s s' Hf. cbv beta in Hf. destruct (nat_eq_opt (l_cur s) c); [|discriminate]. inversion Hf. reflexivity.
  - destruct (m_root m && negb (m_opd m)); [discriminate|]. destruct (m_wait m); [discriminate|].
    destruct (m_live m) as [|s rest]; [discriminate|].
    destruct (Nat.eqb (l_n s) n); [|discriminate].
    destruct (l_locals s); [|discriminate]. destruct (l_pend s); [|discriminate]. destruct (l_cur s); [discriminate|].
    inversion H; subst m'. simpl in *. apply sdesc_inv in HSI. tauto.
Qed.

Lemma GSI_run : forall tr2 tr m m', GI tr m -> SI m -> mon_run m tr2 = Some m' -> GI (tr ++ tr2) m' /\ SI m'.
Proof.
  induction tr2; simpl; intros.
  - inversion H1; subst. rewrite app_nil_r. auto.
  - destruct (mon_step m a) eqn:E; [|discriminate].
    replace (tr ++ a :: tr2) with ((tr ++ [a]) ++ tr2) by (rewrite <- app_assoc; reflexivity).
    eapply IHtr2; [| |eassumption]; [eapply GI_step|eapply SI_step]; eauto.
Qed.

Lemma upd_pre_quiet : forall n f live live',
  upd n f live = Some live' ->
  exists pre s post, live = pre ++ s :: post /\ l_n s = n /\ forallb quiet pre = true.
Proof.
  induction live as [|a live IH]; simpl; intros; [discriminate|].
  destruct (Nat.eqb (l_n a) n) eqn:E.
  - apply Nat.eqb_eq in E. exists [], a, live. auto.
  - destruct (quiet a) eqn:Q; [|discriminate].
    destruct (upd n f live) eqn:U; simpl in H; [|discriminate].
    destruct (IH _ eq_refl) as (pre & s & post & -> & Hn & Hq).
    exists (a :: pre), s, post. simpl. rewrite Q, Hq. auto.
Qed.

Definition is_frame_ev (e : tev) : bool := match e with TFrame _ => true | _ => false end.

(* (4) whenever anything happens in a frame - its body is resumed, its locals go, one of its cleanup actions
   starts or ends, it is destroyed - every frame created after it (the tasks it awaited) has run all the
   cleanup actions it registered, in reverse order and to the end *)
Theorem accepted_children_first : forall tr1 e tr2 n,
  accepts (tr1 ++ e :: tr2) -> noterm tr1 -> ftag e = Some n -> is_frame_ev e = false ->
  forall k, n < k -> runs k tr1 = rev (regs k tr1) /\ ends k tr1 = runs k tr1.
Proof.
  intros tr1 e tr2 n Hacc Hnt Ht Hnf k Hk.
  destruct (accepts_split _ _ _ Hacc) as (m1 & m2 & Hr & Hs).
  destruct (flags_run _ _ _ Hr eq_refl Hnt) as (Hd & _ & _).
  assert (HS0 : SI m0) by (unfold SI; simpl; constructor).
  destruct (GSI_run _ _ _ _ GI_init HS0 Hr) as [(_ & HL & HG & HN) HSI]. simpl in HL, HG, HN.
  (* the live frames inside n are quiet, n is live *)
  assert (Hshape : exists pre s post, m_live m1 = pre ++ s :: post /\ l_n s = n /\ forallb quiet pre = true).
  { unfold mon_step in Hs. rewrite Hd in Hs. destruct (m_expect m1); [destruct e; discriminate|].
    destruct e; simpl in Ht, Hnf; try discriminate; inversion Ht; subst;
      try (repeat match type of Hs with (if ?c then _ else _) = _ => destruct c; try discriminate end;
           destruct (frame_ev_spec _ _ _ _ Hs) as (live' & Hu & _); eapply upd_pre_quiet; eauto).
    destruct (m_root m1 && negb (m_opd m1)); [discriminate|]. destruct (m_wait m1); [discriminate|].
    destruct (m_live m1) as [|s rest]; [discriminate|].
    destruct (Nat.eqb (l_n s) n) eqn:E; [|discriminate]. apply Nat.eqb_eq in E.
    exists [], s, rest. auto. }
  destruct Hshape as (pre & s & post & Hlive & Hs' & Hq).
  destruct (in_dec Nat.eq_dec k (map l_n (m_live m1))) as [Hin|Hnin].
  - apply in_map_iff in Hin. destruct Hin as (x & Hx & Hin).
    rewrite Hlive in Hin. apply in_app_or in Hin. destruct Hin as [Hin|Hin].
    + rewrite forallb_forall in Hq. subst k. destruct (HL x) as [_ HI]; [rewrite Hlive; apply in_or_app; auto|].
      exact (quiet_inv _ _ (Hq x Hin) HI).
    + exfalso. unfold SI in HSI. rewrite Hlive, map_app in HSI. apply sdesc_app in HSI.
      destruct HSI as (_ & HSI & _). simpl in HSI. apply sdesc_inv in HSI. destruct HSI as [_ HSI].
      destruct Hin as [Hin|Hin]; [subst x; lia|].
      rewrite Forall_forall in HSI. specialize (HSI (l_n x) (in_map _ _ _ Hin)). lia.
  - destruct (Nat.lt_ge_cases k (m_next m1)) as [Hlt|Hge].
    + destruct (HG k Hlt Hnin) as (G1 & G2 & _). simpl in *. auto.
    + destruct (HN k Hge) as (R1 & R2 & R3 & _). simpl in *. rewrite R1, R2, R3. auto.
Qed.

(* (5) stop *)
Definition is_stop (e : tev) : bool := match e with TStopReq => true | _ => false end.

Lemma stopped_step : forall m e m', mon_step m e = Some m' -> m_dead m = false -> e <> TTerminate ->
  m_stopped m' = m_stopped m || is_stop e.
Proof.
  intros m e m' H Hd Hne. unfold mon_step in H. rewrite Hd in H.
  destruct (m_expect m).
  { destruct e; try discriminate. destruct (Nat.eqb n id); [|discriminate]. inversion H; subst; simpl.
    rewrite orb_false_r. reflexivity. }
  destruct e;
    repeat match type of H with
           | (if ?c then _ else _) = _ => destruct c eqn:?; try discriminate
           | match ?x with _ => _ end = _ => destruct x eqn:?; try discriminate
           end;
    try (apply frame_ev_flags in H; destruct H as (H1 & H2 & H3); rewrite H3; simpl; rewrite orb_false_r; reflexivity);
    try (inversion H; subst; simpl; rewrite ?orb_false_r; auto; congruence).
Qed.

Lemma stopped_run : forall tr m m', mon_run m tr = Some m' -> m_dead m = false -> noterm tr ->
  m_stopped m' = m_stopped m || existsb is_stop tr.
Proof.
  induction tr; simpl; intros.
  - inversion H; subst. rewrite orb_false_r. reflexivity.
  - destruct (mon_step m a) eqn:E; [|discriminate].
    assert (Ha : a <> TTerminate) by (intros ->; apply H1; simpl; auto).
    assert (Hn : noterm tr) by (intros Hin; apply H1; simpl; auto).
    destruct (flags_step _ _ _ E H0) as (F1 & _ & _).
    rewrite (IHtr _ _ H (F1 Ha) Hn), (stopped_step _ _ _ E H0 Ha), orb_assoc. reflexivity.
Qed.

(* a leaf that can be stopped starts with stopped = (a stop request was made before); a shielded leaf (inside a
   cleanup action) starts with stopped = false *)
Theorem accepted_leaf_start : forall tr1 id st sp tr2,
  accepts (tr1 ++ TLeafStart id st sp :: tr2) -> noterm tr1 -> st = sp && existsb is_stop tr1.
Proof.
  intros tr1 id st sp tr2 Hacc Hnt.
  destruct (accepts_split _ _ _ Hacc) as (m1 & m2 & Hr & Hs).
  destruct (flags_run _ _ _ Hr eq_refl Hnt) as (Hd & _ & _).
  pose proof (stopped_run _ _ _ Hr eq_refl Hnt) as Hst. simpl in Hst.
  unfold mon_step in Hs. rewrite Hd in Hs. destruct (m_expect m1); [discriminate|].
  destruct (m_root m1); [discriminate|]. destruct (m_wait m1); [discriminate|].
  destruct (Bool.eqb st (sp && m_stopped m1)) eqn:E; [|discriminate].
  apply Bool.eqb_prop in E. rewrite E, Hst. reflexivity.
Qed.

(* a stop request arriving while a stoppable leaf is pending is followed at once by that leaf's stop callback *)
Theorem accepted_stop_seen : forall tr1 id tr2 e tr3,
  accepts (tr1 ++ TLeafStart id false true :: tr2 ++ TStopReq :: e :: tr3) -> noterm tr1 ->
  Forall (fun x => x = TSkip) tr2 -> e = TLeafStopSeen id.
Proof.
  intros tr1 id tr2 e tr3 Hacc Hnt Hsk.
  destruct (accepts_split _ _ _ Hacc) as (m1 & m2 & Hr & Hs).
  destruct (flags_run _ _ _ Hr eq_refl Hnt) as (Hd & _ & _).
  destruct Hacc as [mf Hacc]. rewrite mon_run_app, Hr in Hacc. cbn [mon_run] in Hacc. rewrite Hs in Hacc.
  unfold mon_step in Hs. rewrite Hd in Hs. destruct (m_expect m1); [discriminate|].
  destruct (m_root m1) eqn:Hroot; [discriminate|]. destruct (m_wait m1); [discriminate|].
  destruct (Bool.eqb false (true && m_stopped m1)) eqn:E; [|discriminate].
  apply Bool.eqb_prop in E. simpl in E. inversion Hs; subst m2. clear Hs.
  set (mw := set_wait m1 (Some (id, true)) None) in *.
  assert (Hskip : forall l, Forall (fun x => x = TSkip) l -> forall rest, mon_run mw (l ++ rest) = mon_run mw rest).
  { induction 1; simpl; auto. subst x. unfold mon_step at 1. unfold mw at 1 2. simpl. rewrite Hd. exact IHForall. }
  rewrite (Hskip _ Hsk) in Hacc. cbn [mon_run] in Hacc.
  unfold mon_step at 1 in Hacc. unfold mw in Hacc. simpl in Hacc. rewrite Hd, <- E in Hacc.
  destruct e; simpl in Hacc; unfold mon_step in Hacc; simpl in Hacc; try discriminate.
  destruct (Nat.eqb id id0) eqn:E2; [|discriminate]. apply Nat.eqb_eq in E2. subst. reflexivity.
Qed.

(* state level: after a stop request, the leaf the innermost task awaits has seen it (a plain awaitable
   cannot; a stop-reactive leaf is not pending any more) *)
Theorem stop_reaches_current_await : forall body ps script id kd seen stack,
  let rs := fold_left run_ev script (run_start body ps) in
  r_stopped rs = true -> r_cfg rs = GSusp (SLeaf id kd seen) stack ->
  (kd = LPlain /\ seen = true) \/ kd = LAw.
Proof.
  intros body ps script id kd seen stack rs Hst Hcfg.
  destruct (fold_inv script _ (run_start_inv body ps)) as (m & _ & Ha & _).
  fold rs in Ha. rewrite Hcfg, Hst in Ha. simpl in Ha. destruct Ha as [_ Hseen].
  destruct kd; simpl in Hseen; auto.
  destruct Hseen; discriminate.
Qed.

Theorem accepted_frames_at_most_once : forall tr, accepts tr -> noterm tr ->
  forall n, destroyed n tr <= created n tr /\ created n tr <= 1.
Proof.
  intros tr [m Hr] Hnt n.
  pose proof (GI_run _ _ _ _ GI_init Hr) as (_ & HL & HG & HN). simpl in HL, HG, HN.
  destruct (in_dec Nat.eq_dec n (map l_n (m_live m))) as [Hin|Hnin].
  - apply in_map_iff in Hin. destruct Hin as (s & <- & Hin).
    destruct (HL s Hin) as [_ (_ & _ & _ & I4 & I5 & _)]. simpl in *. lia.
  - destruct (Nat.lt_ge_cases n (m_next m)) as [Hlt|Hge].
    + destruct (HG n Hlt Hnin) as (_ & _ & G3 & G4 & _). simpl in *. lia.
    + destruct (HN n Hge) as (_ & _ & _ & _ & _ & R6 & R7). simpl in *. lia.
Qed.

(* ---- the same for the model's traces ------------------------------------------------------------- *)
Lemma monitor_accepts : forall tr, monitor tr = true -> accepts tr.
Proof. unfold monitor, accepts; intros. destruct (mon_run m0 tr); [eauto|discriminate]. Qed.

Lemma model_accepts : forall body ps script, accepts (r_tr (exec body ps script)).
Proof. intros. apply monitor_accepts. apply exec_monitored. Qed.

Lemma noterm_prefix : forall tr1 tr2, noterm (tr1 ++ tr2) -> noterm tr1.
Proof. unfold noterm; intros. intros Hin. apply H. apply in_or_app. auto. Qed.

Theorem cleanups_lifo_once_before_parent : forall body ps script,
  let tr := r_tr (exec body ps script) in
  noterm tr ->
  (* at the end of a completed run *)
  ((exists o, In (TRoot o) tr) -> forall n, runs n tr = rev (regs n tr) /\ ends n tr = runs n tr) /\
  (* before the root receiver is completed *)
  (forall tr1 o tr2, tr = tr1 ++ TRoot o :: tr2 -> forall n, runs n tr1 = rev (regs n tr1) /\ ends n tr1 = runs n tr1) /\
  (* before the frame is destroyed by the resumed parent *)
  (forall tr1 n tr2, tr = tr1 ++ TFrameDestroyed n :: tr2 -> runs n tr1 = rev (regs n tr1) /\ ends n tr1 = runs n tr1) /\
  (* before anything happens in an awaiting frame n, for every frame k created after n *)
  (forall tr1 e tr2 n, tr = tr1 ++ e :: tr2 -> ftag e = Some n -> is_frame_ev e = false ->
     forall k, n < k -> runs k tr1 = rev (regs k tr1) /\ ends k tr1 = runs k tr1).
Proof.
  intros body ps script tr Hnt. pose proof (model_accepts body ps script) as Hacc. fold tr in Hacc.
  split; [|split; [|split]].
  - intros Hroot n. destruct (accepted_lifecycles tr (exec_monitored body ps script) Hroot Hnt n) as (A & B & _). auto.
  - intros tr1 o tr2 E n. rewrite E in Hacc, Hnt. eapply accepted_before_root; eauto. eapply noterm_prefix; eauto.
  - intros tr1 n tr2 E. rewrite E in Hacc, Hnt.
    destruct (accepted_before_frame_destroyed _ _ _ Hacc (noterm_prefix _ _ Hnt)) as (A & B & _). auto.
  - intros tr1 e tr2 n E Ht Hf k Hk. rewrite E in Hacc, Hnt.
    eapply accepted_children_first; eauto. eapply noterm_prefix; eauto.
Qed.

Theorem locals_destroyed_once : forall body ps script,
  let tr := r_tr (exec body ps script) in
  noterm tr ->
  ((exists o, In (TRoot o) tr) -> forall n i, occ i (dtors_of n tr) = occ i (ctors n tr)) /\
  (forall tr1 n tr2, tr = tr1 ++ TFrameDestroyed n :: tr2 -> forall i, occ i (dtors_of n tr1) = occ i (ctors n tr1)).
Proof.
  intros body ps script tr Hnt. pose proof (model_accepts body ps script) as Hacc. fold tr in Hacc. split.
  - intros Hroot n. destruct (accepted_lifecycles tr (exec_monitored body ps script) Hroot Hnt n) as (_ & _ & _ & _ & A). auto.
  - intros tr1 n tr2 E. rewrite E in Hacc, Hnt.
    destruct (accepted_before_frame_destroyed _ _ _ Hacc (noterm_prefix _ _ Hnt)) as (_ & _ & A & _). auto.
Qed.

Theorem frames_destroyed_once : forall body ps script,
  let tr := r_tr (exec body ps script) in
  noterm tr ->
  (forall n, destroyed n tr <= created n tr /\ created n tr <= 1) /\
  ((exists o, In (TRoot o) tr) -> forall n, destroyed n tr = created n tr).
Proof.
  intros body ps script tr Hnt. pose proof (model_accepts body ps script) as Hacc. fold tr in Hacc. split.
  - apply accepted_frames_at_most_once; auto.
  - intros Hroot n. destruct (accepted_lifecycles tr (exec_monitored body ps script) Hroot Hnt n) as (_ & _ & A & _). auto.
Qed.

Theorem stop_reaches_leaves : forall body ps script,
  let tr := r_tr (exec body ps script) in
  noterm tr ->
  (forall tr1 id st sp tr2, tr = tr1 ++ TLeafStart id st sp :: tr2 -> st = sp && existsb is_stop tr1) /\
  (forall tr1 id tr2 e tr3, tr = tr1 ++ TLeafStart id false true :: tr2 ++ TStopReq :: e :: tr3 ->
     Forall (fun x => x = TSkip) tr2 -> e = TLeafStopSeen id).
Proof.
  intros body ps script tr Hnt. pose proof (model_accepts body ps script) as Hacc. fold tr in Hacc. split.
  - intros tr1 id st sp tr2 E. rewrite E in Hacc, Hnt. eapply accepted_leaf_start; eauto. eapply noterm_prefix; eauto.
  - intros tr1 id tr2 e tr3 E Hsk. rewrite E in Hacc, Hnt. eapply accepted_stop_seen; eauto. eapply noterm_prefix; eauto.
Qed.

(* the root receiver is completed at most once *)
Theorem root_at_most_once : forall body ps script, roots (r_tr (exec body ps script)) <= 1.
Proof.
  intros. destruct (model_accepts body ps script) as [m Hm].
  assert (G : forall tr m1 m2, mon_run m1 tr = Some m2 ->
              roots tr <= 1 /\ (m_root m1 = true -> m_dead m1 = false -> roots tr = 0) /\
              (m_dead m1 = true -> roots tr = 0)).
  { induction tr as [|a tr IH]; intros m1 m2 H; simpl in H.
    - unfold roots; simpl. repeat split; auto.
    - destruct (mon_step m1 a) as [mm|] eqn:E; [|discriminate].
      destruct (IH _ _ H) as (I1 & I2 & I3).
      unfold roots in *. simpl.
      destruct (is_root a) eqn:Ea.
      + destruct a; try discriminate. simpl.
        unfold mon_step in E.
        destruct (m_dead m1) eqn:Hd; [discriminate|].
        destruct (m_expect m1); [discriminate|].
        destruct (m_root m1) eqn:Hroot; [discriminate|]. destruct (m_wait m1); [discriminate|].
        match type of E with (if ?c then _ else _) = _ => destruct c end; [|discriminate].
        inversion E; subst mm. simpl in *. rewrite I2; auto. repeat split; auto; intros; discriminate.
      + repeat split; auto.
        * intros Hr Hd.
          destruct (Bool.bool_dec (m_dead mm) true) as [Hdd|Hdd]; [apply I3; auto|].
          apply I2; [|destruct (m_dead mm); congruence].
          assert (Ha : a <> TTerminate).
          { intros ->. unfold mon_step in E. rewrite Hd in E. destruct (m_expect m1); [discriminate|].
            inversion E; subst mm. simpl in Hdd. congruence. }
          destruct (flags_step _ _ _ E Hd) as (_ & F2 & _). auto.
        * intros Hd. apply I3. unfold mon_step in E. rewrite Hd in E.
          destruct a; try discriminate; inversion E; subst; auto. }
  destruct (G _ _ _ Hm) as (G1 & _). exact G1.
Qed.
