(* Proofs about the coroutine-task calculus TCalc (property C10).
   Main result: every trace of every body under every script is accepted by the executable monitor
   TCalc.monitor (exec_monitored); the trace-level corollaries (cleanups LIFO / once / before the
   parent, locals, frames, stop) are derived from acceptance by the monitor alone, so they also hold
   for every implementation trace the monitor accepts in the K2 tie. *)
From Coq Require Import ZArith List Bool Arith Lia Sorted.
From V Require Import Calc.TaskDefs.
Import ListNotations.
Import TCalc.

(* ---------------------------------------------------------------------------------------------- *)
(* monitor states reached by the machine                                                          *)
Definition Mk (live : list lst) (nx : nat) (st : bool) (w : option (nat * bool)) (e : option nat) : mst :=
  {| m_live := live; m_next := nx; m_root := false; m_opd := false; m_stopped := st; m_wait := w;
     m_expect := e; m_dead := false |}.
Definition ML (live : list lst) (nx : nat) (st : bool) : mst := Mk live nx st None None.
Definition MR (live : list lst) (nx : nat) (st : bool) (opd : bool) : mst :=
  {| m_live := live; m_next := nx; m_root := true; m_opd := opd; m_stopped := st; m_wait := None;
     m_expect := None; m_dead := false |}.

Definition ids (cls : list cleanup) : list nat := map c_id cls.
Definition absb (f : frame) : lst := mklst (f_n f) (frame_locals f) (ids (f_cleanups f)) None false.
Definition nums (l : list frame) : list nat := map f_n l.
Definition sdesc : list nat -> Prop := StronglySorted (fun a b => b < a).

Lemma mon_run_app : forall tr1 tr2 m,
  mon_run m (tr1 ++ tr2) = match mon_run m tr1 with Some m' => mon_run m' tr2 | None => None end.
Proof.
  induction tr1; simpl; intros; auto.
  destruct (mon_step m a); auto.
Qed.

Lemma mon_run_app_some : forall tr1 tr2 m m1,
  mon_run m tr1 = Some m1 -> mon_run m (tr1 ++ tr2) = mon_run m1 tr2.
Proof. intros. rewrite mon_run_app, H. reflexivity. Qed.

(* frames above the acting one: quiet and numbered differently *)
Definition Zok (n : nat) (Z : list lst) : Prop := Forall (fun z => quiet z = true /\ l_n z <> n) Z.

Lemma upd_skip : forall n f Z s rest, Zok n Z -> l_n s = n ->
  upd n f (Z ++ s :: rest) = option_map (fun s' => Z ++ s' :: rest) (f s).
Proof.
  induction Z; simpl; intros.
  - rewrite H0, Nat.eqb_refl. reflexivity.
  - inversion H; subst. destruct H3 as [Hq Hn].
    apply Nat.eqb_neq in Hn. rewrite Hn, Hq. rewrite IHZ; auto.
    destruct (f s); reflexivity.
Qed.

Lemma Zok_nil : forall n, Zok n []. Proof. constructor. Qed.
#[global] Hint Resolve Zok_nil : core.

(* ---- one-event lemmas --------------------------------------------------------------------------- *)
Lemma step_frame : forall B nx st,
  mon_step (ML B nx st) (TFrame nx) = Some (ML (mklst nx [] [] None false :: B) (S nx) st).
Proof. intros. unfold mon_step, ML, Mk; simpl. rewrite Nat.eqb_refl. reflexivity. Qed.

Lemma step_ctor : forall Z n L P B nx st id, Zok n Z ->
  mon_step (ML (Z ++ mklst n L P None false :: B) nx st) (TLocalCtor n id)
  = Some (ML (Z ++ mklst n (id :: L) P None false :: B) nx st).
Proof.
  intros. unfold mon_step, ML, Mk, frame_ev; simpl. rewrite upd_skip; auto.
Qed.

Lemma step_dtor : forall Z n L P b B nx st id, Zok n Z ->
  mon_step (ML (Z ++ mklst n (id :: L) P None b :: B) nx st) (TLocalDtor n id)
  = Some (ML (Z ++ mklst n L P None b :: B) nx st).
Proof.
  intros. unfold mon_step, ML, Mk, frame_ev; simpl. rewrite upd_skip; auto.
  simpl. rewrite Nat.eqb_refl. reflexivity.
Qed.

Lemma step_reg : forall Z n L P B nx st c, Zok n Z ->
  mon_step (ML (Z ++ mklst n L P None false :: B) nx st) (TCleanupReg n c)
  = Some (ML (Z ++ mklst n L (c :: P) None false :: B) nx st).
Proof.
  intros. unfold mon_step, ML, Mk, frame_ev; simpl. rewrite upd_skip; auto.
Qed.

Lemma step_run : forall Z n L P b B nx st c, Zok n Z ->
  mon_step (ML (Z ++ mklst n L (c :: P) None b :: B) nx st) (TCleanupRun n c)
  = Some (ML (Z ++ mklst n L P (Some c) true :: B) nx st).
Proof.
  intros. unfold mon_step, ML, Mk, frame_ev; simpl. rewrite upd_skip; auto.
  simpl. rewrite Nat.eqb_refl. reflexivity.
Qed.

Lemma step_end : forall Z n L P b B nx st c, Zok n Z ->
  mon_step (ML (Z ++ mklst n L P (Some c) b :: B) nx st) (TCleanupEnd n c)
  = Some (ML (Z ++ mklst n L P None b :: B) nx st).
Proof.
  intros. unfold mon_step, ML, Mk, frame_ev; simpl. rewrite upd_skip; auto.
  simpl. rewrite Nat.eqb_refl. reflexivity.
Qed.

Lemma step_framedtor : forall n b B nx st,
  mon_step (ML (mklst n [] [] None b :: B) nx st) (TFrameDestroyed n) = Some (ML B nx st).
Proof. intros. unfold mon_step, ML, Mk; simpl. rewrite Nat.eqb_refl. reflexivity. Qed.

Lemma step_leafstart : forall live nx st id sp,
  mon_step (ML live nx st) (TLeafStart id (sp && st) sp)
  = Some (Mk live nx st (Some (id, sp)) (if sp && st then Some id else None)).
Proof. intros. unfold mon_step, ML, Mk; simpl. rewrite Bool.eqb_reflx. reflexivity. Qed.

Lemma step_awstart : forall live nx st id,
  mon_step (ML live nx st) (TAwStart id) = Some (Mk live nx st (Some (id, false)) None).
Proof. reflexivity. Qed.

Lemma step_stopseen : forall live nx st id sp,
  mon_step (Mk live nx st (Some (id, sp)) (Some id)) (TLeafStopSeen id) = Some (Mk live nx st (Some (id, sp)) None).
Proof. intros. unfold mon_step, Mk; simpl. rewrite Nat.eqb_refl. reflexivity. Qed.

Lemma step_leafdone : forall live nx st id sp o,
  mon_step (Mk live nx st (Some (id, sp)) None) (TLeafDone id o) = Some (ML live nx st).
Proof. intros. unfold mon_step, ML, Mk; simpl. rewrite Nat.eqb_refl. reflexivity. Qed.

Lemma step_stopreq : forall live nx w,
  mon_step (Mk live nx false w None) TStopReq
  = Some (Mk live nx true w (match w with Some (id, true) => Some id | _ => None end)).
Proof. reflexivity. Qed.

Lemma dtors_sim : forall L1 Z n L2 P b B nx st, Zok n Z ->
  mon_run (ML (Z ++ mklst n (L1 ++ L2) P None b :: B) nx st) (dtors n L1)
  = Some (ML (Z ++ mklst n L2 P None b :: B) nx st).
Proof.
  induction L1; simpl; intros; auto.
  rewrite step_dtor by auto. apply IHL1; auto.
Qed.

(* ---- cleanups ----------------------------------------------------------------------------------- *)
Lemma run_cleanups_sim : forall cls n Z L b B nx st, Zok n Z ->
  match run_cleanups n cls with
  | (tr, None) => exists b',
      mon_run (ML (Z ++ mklst n L (ids cls) None b :: B) nx st) tr
      = Some (ML (Z ++ mklst n L [] None b' :: B) nx st)
  | (tr, Some (c, pend)) => exists l, c_leaf c = Some l /\
      mon_run (ML (Z ++ mklst n L (ids cls) None b :: B) nx st) tr
      = Some (Mk (Z ++ mklst n L (ids pend) (Some (c_id c)) true :: B) nx st (Some (l, false)) None)
  end.
Proof.
  induction cls; simpl; intros.
  - exists b. reflexivity.
  - destruct (c_leaf a) eqn:El.
    + exists n0. split; auto.
      cbn [mon_run]. rewrite step_run by auto. reflexivity.
    + specialize (IHcls n Z L true B nx st H).
      destruct (run_cleanups n cls) as [tr r].
      cbn [mon_run]. rewrite step_run by auto. rewrite step_end by auto.
      exact IHcls.
Qed.

(* ---------------------------------------------------------------------------------------------- *)
(* abstraction of machine configurations                                                          *)
Definition zrel (z : frame) (s : lst) : Prop := exists b, s = mklst (f_n z) (frame_locals z) [] None b.
Definition stoppable (kd : lkind) : bool := match kd with LAw => false | _ => true end.
Definition seen_ok (kd : lkind) (seen st : bool) : Prop :=
  match kd with
  | LPlain => seen = st
  | LReactive => seen = false /\ st = false
  | LAw => seen = false
  end.
Definition exit_locals (o : outcome) (f : frame) : list nat :=
  match o with ODone => frame_locals f | _ => [] end.

Definition absg (g : gcfg) (st : bool) (nx : nat) (m : mst) : Prop :=
  match g with
  | GSusp (SLeaf id kd seen) stack =>
      m = Mk (map absb stack) nx st (Some (id, stoppable kd)) None /\ seen_ok kd seen st
  | GSusp (SExit o c zs) (f :: rest) =>
      exists Z l, Forall2 zrel zs Z /\ c_leaf c = Some l /\
        m = Mk (Z ++ mklst (f_n f) (exit_locals o f) (ids (f_cleanups f)) (Some (c_id c)) true :: map absb rest)
               nx st (Some (l, false)) None /\
        (o <> ODone -> zs = [])
  | GSusp (SExit _ _ _) [] => False
  | GRootDone zs => exists Z, Forall2 zrel zs Z /\ m = MR Z nx st false
  | GFinished => m = MR [] nx st false
  | GDead => m_dead m = true
  end.

Definition okl (nx : nat) (l : list nat) : Prop := sdesc l /\ Forall (fun a => a < nx) l.
Definition okg (g : gcfg) (nx : nat) : Prop :=
  match g with
  | GSusp (SLeaf _ _ _) stack => okl nx (nums stack)
  | GSusp (SExit _ _ zs) stack => okl nx (nums zs ++ nums stack)
  | GRootDone zs => okl nx (nums zs)
  | _ => True
  end.

Lemma sdesc_inv : forall a l, sdesc (a :: l) -> sdesc l /\ Forall (fun b => b < a) l.
Proof. intros. inversion H; subst. split; auto. Qed.

Lemma sdesc_app : forall l1 l2, sdesc (l1 ++ l2) ->
  sdesc l1 /\ sdesc l2 /\ (forall a b, In a l1 -> In b l2 -> b < a).
Proof.
  induction l1; simpl; intros.
  - split; [constructor|]. split; auto. intros; contradiction.
  - apply sdesc_inv in H. destruct H as [H1 H2].
    destruct (IHl1 _ H1) as (Ha & Hb & Hc).
    rewrite Forall_app in H2. destruct H2 as [H2a H2b].
    split; [constructor; auto|]. split; auto.
    intros x y [Hx|Hx] Hy; subst.
    + rewrite Forall_forall in H2b. auto.
    + eauto.
Qed.

Lemma okl_mono : forall nx nx' l, nx <= nx' -> okl nx l -> okl nx' l.
Proof.
  unfold okl; intros. destruct H0; split; auto.
  eapply Forall_impl; [|eassumption]. simpl; intros; lia.
Qed.

Lemma okl_cons : forall nx n l, n < nx -> sdesc (n :: l) -> okl nx (n :: l).
Proof.
  unfold okl; intros. split; auto. constructor; auto.
  apply sdesc_inv in H0. destruct H0 as [_ H0].
  eapply Forall_impl; [|eassumption]. simpl; intros; lia.
Qed.

Lemma zrel_quiet : forall zs Z, Forall2 zrel zs Z -> forallb quiet Z = true.
Proof.
  induction 1; simpl; auto. destruct H as [b ->]. simpl. auto.
Qed.

Lemma zrel_Zok : forall n zs Z, Forall2 zrel zs Z -> (forall a, In a (nums zs) -> n < a) -> Zok n Z.
Proof.
  induction 1; intros; constructor.
  - destruct H as [b ->]. simpl. split; auto.
    assert (n < f_n x) by (apply H1; simpl; auto). lia.
  - apply IHForall2. intros. apply H1. simpl; auto.
Qed.

Lemma zrel_app : forall zs Z f s, Forall2 zrel zs Z -> zrel f s -> Forall2 zrel (zs ++ [f]) (Z ++ [s]).
Proof. intros. apply Forall2_app; auto. Qed.

(* ---- post-conditions of running code ------------------------------------------------------------ *)
Definition post (n : nat) (trys : list tryent) (below : list frame) (st : bool) (nx : nat) (m : mst) (r : res)
  : Prop :=
  match r with
  | RVal _ nx' tr => nx <= nx' /\ mon_run m tr = Some (ML (map absb below) nx' st)
  | RErr _ nx' tr => nx <= nx' /\ mon_run m tr = Some (ML (map absb below) nx' st)
  | RThrowOut _ cls' nx' tr =>
      nx <= nx' /\
      mon_run m tr = Some (ML (mklst n (all_locals [] trys) (ids cls') None false :: map absb below) nx' st)
  | RGlob g nx' tr => nx <= nx' /\ exists m', mon_run m tr = Some m' /\ absg g st nx' m' /\ okg g nx'
  end.

Lemma post_pre : forall n trys below st nx nx0 m m1 tr0 r,
  mon_run m tr0 = Some m1 -> nx0 <= nx -> post n trys below st nx m1 r -> post n trys below st nx0 m (pre tr0 r).
Proof.
  intros. destruct r; simpl in *.
  - destruct H1; split; [lia|]. rewrite (mon_run_app_some _ _ _ _ H). auto.
  - destruct H1; split; [lia|]. rewrite (mon_run_app_some _ _ _ _ H). auto.
  - destruct H1; split; [lia|]. rewrite (mon_run_app_some _ _ _ _ H). auto.
  - destruct H1 as (Hn & m' & Hr & Ha); split; [lia|]. exists m'.
    rewrite (mon_run_app_some _ _ _ _ H). auto.
Qed.

Lemma post_trys : forall n trys trys' below st nx m r,
  (forall x cls nx' tr, r <> RThrowOut x cls nx' tr) ->
  post n trys below st nx m r -> post n trys' below st nx m r.
Proof. intros. destruct r; simpl in *; auto. exfalso. eapply H; eauto. Qed.

Definition pc (n : nat) (below : list frame) (nx : nat) : Prop := n < nx /\ sdesc (n :: nums below).

Lemma pc_mono : forall n below nx nx', nx <= nx' -> pc n below nx -> pc n below nx'.
Proof. unfold pc; intros. destruct H0; split; auto; lia. Qed.

(* final_suspend of a task that returned or threw *)
Lemma finish_sim : forall n trys o cls below nx st b,
  (match o with ODone => False | _ => True end) -> pc n below nx ->
  post n trys below st nx (ML (mklst n [] (ids cls) None b :: map absb below) nx st) (finish n o cls below nx).
Proof.
  intros. unfold finish.
  pose proof (run_cleanups_sim cls n [] [] b (map absb below) nx st (Zok_nil n)) as HS.
  destruct (run_cleanups n cls) as [tr [[c pend]|]].
  - destruct HS as (l & Hl & HS). simpl in HS. simpl. split; auto.
    eexists. split; [exact HS|]. split.
    + exists [], l. split; [constructor|]. split; auto. split.
      * destruct o; try contradiction; reflexivity.
      * auto.
    + simpl. destruct H0. apply okl_cons; auto.
  - destruct HS as (b' & HS). simpl in HS.
    destruct o; try contradiction; simpl; (split; [lia|]);
      rewrite (mon_run_app_some _ _ _ _ HS); simpl; rewrite step_framedtor; reflexivity.
Qed.

Lemma unwind_done_cons : forall zs f rest,
  unwind_done zs (f :: rest) =
  match run_cleanups (f_n f) (f_cleanups f) with
  | (tr, None) => let (g, tr') := unwind_done (zs ++ [set_cleanups f []]) rest in (g, tr ++ tr')
  | (tr, Some (c, pending)) => (GSusp (SExit ODone c zs) (set_cleanups f pending :: rest), tr)
  end.
Proof. reflexivity. Qed.

(* the done path *)
Lemma unwind_done_sim : forall rest f zs Z b nx st,
  Forall2 zrel zs Z -> okl nx (nums zs ++ nums (f :: rest)) ->
  let '(g, tr) := unwind_done zs (f :: rest) in
  exists m', mon_run (ML (Z ++ mklst (f_n f) (frame_locals f) (ids (f_cleanups f)) None b :: map absb rest) nx st) tr
             = Some m' /\ absg g st nx m' /\ okg g nx.
Proof.
  induction rest as [|f' rest IH]; intros f zs Z b nx st HZ Hok.
  - (* the outermost task: the root receiver is completed with done *)
    cbn [unwind_done].
    assert (HZok : Zok (f_n f) Z).
    { eapply zrel_Zok; eauto. destruct Hok as [Hs _]. apply sdesc_app in Hs.
      destruct Hs as (_ & _ & Hs). intros. apply Hs; simpl; auto. }
    pose proof (run_cleanups_sim (f_cleanups f) (f_n f) Z (frame_locals f) b [] nx st HZok) as HS.
    destruct (run_cleanups (f_n f) (f_cleanups f)) as [tr [[c pend]|]].
    + destruct HS as (l & Hl & HS). eexists. split; [exact HS|]. split.
      * simpl. exists Z, l. repeat split; auto. intros; congruence.
      * simpl. exact Hok.
    + destruct HS as (b' & HS). cbn [unwind_done].
      eexists. split.
      * rewrite (mon_run_app_some _ _ _ _ HS). cbn [mon_run].
        unfold mon_step, ML, Mk; simpl.
        assert (Hq : forallb quiet (Z ++ [mklst (f_n f) (frame_locals f) [] None b']) = true).
        { rewrite forallb_app. rewrite (zrel_quiet _ _ HZ). reflexivity. }
        rewrite Hq. reflexivity.
      * split.
        -- simpl. exists (Z ++ [mklst (f_n f) (frame_locals f) [] None b']). split; auto.
           apply zrel_app; auto. exists b'. reflexivity.
        -- simpl. unfold nums. rewrite map_app. simpl. exact Hok.
  - rewrite unwind_done_cons.
    assert (HZok : Zok (f_n f) Z).
    { eapply zrel_Zok; eauto. destruct Hok as [Hs _]. apply sdesc_app in Hs.
      destruct Hs as (_ & _ & Hs). intros. apply Hs; simpl; auto. }
    pose proof (run_cleanups_sim (f_cleanups f) (f_n f) Z (frame_locals f) b (map absb (f' :: rest)) nx st HZok) as HS.
    destruct (run_cleanups (f_n f) (f_cleanups f)) as [tr [[c pend]|]].
    + destruct HS as (l & Hl & HS). eexists. split; [exact HS|]. split.
      * simpl. exists Z, l. repeat split; auto. intros; congruence.
      * simpl. exact Hok.
    + destruct HS as (b' & HS).
      assert (HZ' : Forall2 zrel (zs ++ [set_cleanups f []]) (Z ++ [mklst (f_n f) (frame_locals f) [] None b'])).
      { apply zrel_app; auto. exists b'. reflexivity. }
      assert (Hok' : okl nx (nums (zs ++ [set_cleanups f []]) ++ nums (f' :: rest))).
      { unfold nums in *. rewrite map_app. simpl. rewrite <- app_assoc. simpl. exact Hok. }
      specialize (IH f' _ _ false nx st HZ' Hok').
      destruct (unwind_done (zs ++ [set_cleanups f []]) (f' :: rest)) as [g tr'].
      destruct IH as (m' & Hm & Ha & Hk).
      exists m'. split; [|split; assumption].
      rewrite (mon_run_app_some _ _ _ _ HS). rewrite <- app_assoc in Hm. simpl in Hm. exact Hm.
Qed.

Lemma finish_not_throw : forall n o cls below nx x c nx' tr, finish n o cls below nx <> RThrowOut x c nx' tr.
Proof.
  intros. unfold finish. destruct (run_cleanups n cls) as [tr' [[c' p]|]]; try discriminate.
  destruct o; discriminate.
Qed.

Lemma pre_not_throw : forall tr0 r, (forall x c nx' tr, r <> RThrowOut x c nx' tr) ->
  forall x c nx' tr, pre tr0 r <> RThrowOut x c nx' tr.
Proof. intros. destruct r; simpl; try discriminate. exfalso. eapply H; eauto. Qed.

Lemma close_body_sim : forall m below st nx0 m0 r,
  pc m below nx0 -> post m [] below st nx0 m0 r ->
  post m [] below st nx0 m0 (close_body m below r) /\
  (forall x c nx' tr, close_body m below r <> RThrowOut x c nx' tr).
Proof.
  intros. destruct r; simpl; try (split; [assumption|discriminate]).
  simpl in H0. destruct H0 as [Hn Hr]. split.
  - eapply post_pre; [exact Hr|exact Hn|].
    apply finish_sim; simpl; auto. eapply pc_mono; eauto.
  - apply pre_not_throw. intros. apply finish_not_throw.
Qed.

Fixpoint csize (e : coexpr) : nat :=
  match e with
  | CRet _ => 1
  | CThrow _ => 1
  | CAwait s k => S (asize s + csize k)
  | CLocal _ k => S (csize k)
  | CAtExit _ k => S (csize k)
  | CTry b h => S (csize b + csize h)
  end
with asize (s : aw) : nat :=
  match s with ATask b => S (csize b) | _ => 1 end.

Definition Mb (n : nat) (scope : list nat) (trys : list tryent) (cls : list cleanup) (below : list frame)
           (nx : nat) (st : bool) : mst :=
  ML (mklst n (all_locals scope trys) (ids cls) None false :: map absb below) nx st.

Lemma pc_child : forall n below nx me, f_n me = n -> pc n below nx -> pc nx (me :: below) (S nx).
Proof.
  unfold pc; intros. destruct H0. split; [lia|].
  simpl. rewrite H. constructor; auto.
  constructor; [assumption|].
  apply sdesc_inv in H1. destruct H1 as [_ H1].
  eapply Forall_impl; [|exact H1]. simpl; intros; lia.
Qed.

Lemma okl_pc : forall n below nx, pc n below nx -> okl nx (n :: nums below).
Proof. intros. destruct H. apply okl_cons; auto. Qed.

Lemma steps_reactive_stopped : forall live nx id,
  mon_run (ML live nx true) [TLeafStart id true true; TLeafStopSeen id; TLeafDone id ODone] = Some (ML live nx true).
Proof. intros. unfold ML, Mk. cbn. rewrite Nat.eqb_refl. cbn. rewrite Nat.eqb_refl. reflexivity. Qed.

Lemma step_ctor0 : forall n L P B nx st id,
  mon_step (ML (mklst n L P None false :: B) nx st) (TLocalCtor n id) = Some (ML (mklst n (id :: L) P None false :: B) nx st).
Proof. intros. exact (step_ctor [] n L P B nx st id (Zok_nil n)). Qed.
Lemma step_reg0 : forall n L P B nx st c,
  mon_step (ML (mklst n L P None false :: B) nx st) (TCleanupReg n c) = Some (ML (mklst n L (c :: P) None false :: B) nx st).
Proof. intros. exact (step_reg [] n L P B nx st c (Zok_nil n)). Qed.

Ltac leafsolve :=
  simpl; split; [lia|]; eexists; split; [unfold Mb, ML, Mk; cbn; rewrite ?Nat.eqb_refl; cbn; rewrite ?Nat.eqb_refl; reflexivity|].

(* running code of a frame *)
Lemma run_body_sim : forall N e, csize e <= N ->
  forall n env scope trys cls below st nx, pc n below nx ->
  post n trys below st nx (Mb n scope trys cls below nx st) (run_body n e env scope trys cls below st nx).
Proof.
  induction N; intros e Hsz; [destruct e; simpl in Hsz; lia|].
  intros n env scope trys cls below st nx Hpc.
  destruct e; simpl in Hsz.
  - (* CRet *)
    simpl. eapply post_pre with (nx := nx).
    + pose proof (dtors_sim (all_locals scope trys) [] n [] (ids cls) false (map absb below) nx st (Zok_nil n)) as HD.
      rewrite app_nil_r in HD. exact HD.
    + lia.
    + apply finish_sim; simpl; auto.
  - (* CThrow *)
    simpl. split; [lia|]. unfold Mb, all_locals. simpl.
    exact (dtors_sim scope [] n (flat_map te_seg trys) (ids cls) false (map absb below) nx st (Zok_nil n)).
  - (* CAwait *)
    destruct s; simpl in Hsz.
    + (* AJust *) simpl. eapply post_pre with (nx := nx); [reflexivity|lia|]. apply IHN; [lia|assumption].
    + (* AErr *) simpl. split; [lia|]. unfold Mb, all_locals. simpl.
      exact (dtors_sim scope [] n (flat_map te_seg trys) (ids cls) false (map absb below) nx st (Zok_nil n)).
    + (* ADone *)
      cbn [run_body].
      pose proof (unwind_done_sim below (mkframe n scope trys cls env e) [] [] false nx st (Forall2_nil _)) as HU.
      destruct (unwind_done [] (mkframe n scope trys cls env e :: below)) as [g tr'].
      simpl. split; [lia|]. apply HU. simpl. apply okl_pc; assumption.
    + (* AAwJust *) simpl. eapply post_pre with (nx := nx); [reflexivity|lia|]. apply IHN; [lia|assumption].
    + (* AAwErr *) simpl. split; [lia|]. unfold Mb, all_locals. simpl.
      exact (dtors_sim scope [] n (flat_map te_seg trys) (ids cls) false (map absb below) nx st (Zok_nil n)).
    + (* ALeaf *)
      pose proof (okl_pc _ _ _ Hpc) as Hok.
      destruct kd, st; cbn [run_body start_leaf].
      * leafsolve. split; [split; reflexivity|exact Hok].
      * leafsolve. split; [split; reflexivity|exact Hok].
      * pose proof (unwind_done_sim below (mkframe n scope trys cls env e) [] [] false nx true (Forall2_nil _)) as HU.
        destruct (unwind_done [] (mkframe n scope trys cls env e :: below)) as [g tr'].
        split; [lia|].
        destruct HU as (m' & Hm & Ha & Hk); [simpl; exact Hok|].
        exists m'. split; [|split; assumption].
        unfold Mb. rewrite (mon_run_app_some _ _ _ _ (steps_reactive_stopped _ nx id)). exact Hm.
      * leafsolve. split; [split; [reflexivity|split; reflexivity]|exact Hok].
      * leafsolve. split; [split; reflexivity|exact Hok].
      * leafsolve. split; [split; reflexivity|exact Hok].
    + (* ATask *)
      cbn [run_body].
      set (me := mkframe n scope trys cls env e).
      assert (Hc : pc nx (me :: below) (S nx)) by (eapply pc_child; eauto; reflexivity).
      pose proof (IHN body ltac:(lia) nx env [] [] [] (me :: below) st (S nx) Hc) as HB.
      destruct (close_body_sim nx (me :: below) st (S nx) _ _ Hc HB) as [HC HNT].
      assert (HF : mon_step (Mb n scope trys cls below nx st) (TFrame nx) = Some (Mb nx [] [] [] (me :: below) (S nx) st)).
      { unfold Mb. rewrite step_frame. reflexivity. }
      destruct (close_body nx (me :: below) (run_body nx body env [] [] [] (me :: below) st (S nx))) as [v nx' tr|x nx' tr|x c nx' tr|g nx' tr].
      * (* the child returned a value: continue after the co_await *)
        simpl in HC. destruct HC as [Hn Hr].
        eapply post_pre with (nx := nx').
        -- cbn [mon_run]. rewrite HF. exact Hr.
        -- lia.
        -- apply IHN; [lia|]. eapply pc_mono; [|exact Hpc]. lia.
      * (* the child ended with an exception: rethrown at the co_await *)
        simpl in HC. destruct HC as [Hn Hr].
        simpl. split; [lia|].
        cbn [mon_run]. rewrite HF. rewrite (mon_run_app_some _ _ _ _ Hr).
        unfold all_locals. simpl.
        exact (dtors_sim scope [] n (flat_map te_seg trys) (ids cls) false (map absb below) nx' st (Zok_nil n)).
      * exfalso. eapply HNT; reflexivity.
      * simpl in HC. destruct HC as (Hn & m' & Hr & Ha & Hk).
        simpl. split; [lia|]. exists m'. split; [|split; assumption].
        rewrite HF. exact Hr.
  - (* CLocal *)
    simpl. eapply post_pre with (nx := nx).
    + cbn [mon_run]. unfold Mb. rewrite step_ctor0. reflexivity.
    + lia.
    + apply IHN; [lia|assumption].
  - (* CAtExit *)
    simpl. eapply post_pre with (nx := nx).
    + cbn [mon_run]. unfold Mb. rewrite step_reg0. reflexivity.
    + lia.
    + apply (IHN e ltac:(lia) n env scope trys (c :: cls) below st nx Hpc).
  - (* CTry *)
    cbn [run_body].
    pose proof (IHN e1 ltac:(lia) n env [] ((e2, env, scope) :: trys) cls below st nx Hpc) as HB.
    assert (HM : Mb n [] ((e2, env, scope) :: trys) cls below nx st = Mb n scope trys cls below nx st) by reflexivity.
    rewrite HM in HB.
    destruct (run_body n e1 env [] ((e2, env, scope) :: trys) cls below st nx) as [v nx' tr|x nx' tr|x c nx' tr|g nx' tr];
      try exact HB.
    simpl in HB. destruct HB as [Hn Hr].
    eapply post_pre with (nx := nx'); [exact Hr|lia|].
    apply (IHN e2 ltac:(lia) n (x :: env) scope trys c below st nx'). eapply pc_mono; eauto.
Qed.

Lemma catch_loop_sim : forall trys trys0 n x cls below st nx, pc n below nx ->
  post n trys0 below st nx (Mb n [] trys cls below nx st) (catch_loop n x trys cls below st nx) /\
  (forall x' c nx' tr, catch_loop n x trys cls below st nx <> RThrowOut x' c nx' tr).
Proof.
  induction trys as [|[[h henv] seg] more IH]; intros trys0 n x cls below st nx Hpc.
  - simpl. split.
    + apply finish_sim; simpl; auto.
    + intros. apply finish_not_throw.
  - cbn [catch_loop].
    pose proof (run_body_sim _ h (le_n _) n (x :: henv) seg more cls below st nx Hpc) as HB.
    assert (HM : Mb n seg more cls below nx st = Mb n [] ((h, henv, seg) :: more) cls below nx st) by reflexivity.
    rewrite HM in HB.
    destruct (run_body n h (x :: henv) seg more cls below st nx) as [v nx' tr|x' nx' tr|x' c nx' tr|g nx' tr].
    + split; [exact HB|discriminate].
    + split; [exact HB|discriminate].
    + simpl in HB. destruct HB as [Hn Hr].
      destruct (IH trys0 n x' c below st nx' (pc_mono _ _ _ _ Hn Hpc)) as [H1 H2].
      split.
      * eapply post_pre with (nx := nx'); [exact Hr|lia|exact H1].
      * apply pre_not_throw. exact H2.
    + split; [exact HB|discriminate].
Qed.

Lemma catch_res_sim : forall n trys trys0 below st nx m r, pc n below nx ->
  post n trys below st nx m r ->
  post n trys0 below st nx m (catch_res n trys below st r) /\
  (forall x' c nx' tr, catch_res n trys below st r <> RThrowOut x' c nx' tr).
Proof.
  intros. destruct r; simpl; try (split; [exact H0|discriminate]).
  simpl in H0. destruct H0 as [Hn Hr].
  destruct (catch_loop_sim trys trys0 n x cls below st nx0 (pc_mono _ _ _ _ Hn H)) as [H1 H2].
  split.
  - eapply post_pre with (nx := nx0); [exact Hr|exact Hn|exact H1].
  - apply pre_not_throw. exact H2.
Qed.

Definition gpost (st : bool) (nx : nat) (m : mst) (x : gcfg * nat * list tev) : Prop :=
  let '(g, nx', tr) := x in
  nx <= nx' /\ exists m', mon_run m tr = Some m' /\ absg g st nx' m' /\ okg g nx'.

Lemma okl_inv : forall nx a l, okl nx (a :: l) -> okl nx l /\ a < nx /\ sdesc (a :: l).
Proof.
  unfold okl; intros. destruct H as [Hs Hf]. inversion Hf; subst.
  apply sdesc_inv in Hs as Hs'. destruct Hs'. repeat split; auto.
Qed.

Lemma step_root_val : forall nx st o, (match o with ODone => False | _ => True end) ->
  mon_step (ML [] nx st) (TRoot o) = Some (MR [] nx st false).
Proof. intros. destruct o; try contradiction; reflexivity. Qed.

(* the operation awaited by the innermost suspended frame completed *)
Lemma resume_sim : forall stack o st nx, okl nx (nums stack) ->
  gpost st nx (ML (map absb stack) nx st) (resume stack o st nx).
Proof.
  induction stack as [|p rest IH]; intros o st nx Hok.
  - destruct o; simpl; (split; [lia|]); eexists; (split; [reflexivity|]); simpl; auto.
    split; [|unfold okl; split; constructor]. exists []. split; [constructor|reflexivity].
  - simpl in Hok. apply okl_inv in Hok. destruct Hok as (Hokr & Hlt & Hsd).
    assert (Hpc : pc (f_n p) rest nx) by (split; assumption).
    cbn [resume].
    set (r := match o with
              | OVal v => run_body (f_n p) (f_k p) (v :: f_env p) (f_scope p) (f_trys p) (f_cleanups p) rest st nx
              | OErr x => RThrowOut x (f_cleanups p) nx (dtors (f_n p) (f_scope p))
              | ODone => let (g, tr) := unwind_done [] (p :: rest) in RGlob g nx tr
              end).
    assert (Hr : post (f_n p) (f_trys p) rest st nx (ML (map absb (p :: rest)) nx st) r).
    { subst r. destruct o.
      - exact (run_body_sim _ (f_k p) (le_n _) (f_n p) (v :: f_env p) (f_scope p) (f_trys p) (f_cleanups p) rest st nx Hpc).
      - simpl. split; [lia|].
        exact (dtors_sim (f_scope p) [] (f_n p) (flat_map te_seg (f_trys p)) (ids (f_cleanups p)) false
                         (map absb rest) nx st (Zok_nil _)).
      - pose proof (unwind_done_sim rest p [] [] false nx st (Forall2_nil _)) as HU.
        destruct (unwind_done [] (p :: rest)) as [g tr]. simpl. split; [lia|].
        apply HU. simpl. apply okl_cons; assumption. }
    destruct (catch_res_sim (f_n p) (f_trys p) [] rest st nx _ r Hpc Hr) as [HC HNT].
    destruct (catch_res (f_n p) (f_trys p) rest st r) as [v nx' tr|x nx' tr|x c nx' tr|g nx' tr].
    + simpl in HC. destruct HC as [Hn Hm].
      specialize (IH (OVal v) st nx' (okl_mono _ _ _ Hn Hokr)).
      destruct (resume rest (OVal v) st nx') as [[g nx''] tr'].
      simpl in IH. destruct IH as (Hn' & m' & Hm' & Ha & Hk).
      simpl. split; [lia|]. exists m'. split; [|split; assumption].
      rewrite (mon_run_app_some _ _ _ _ Hm). exact Hm'.
    + simpl in HC. destruct HC as [Hn Hm].
      specialize (IH (OErr x) st nx' (okl_mono _ _ _ Hn Hokr)).
      destruct (resume rest (OErr x) st nx') as [[g nx''] tr'].
      simpl in IH. destruct IH as (Hn' & m' & Hm' & Ha & Hk).
      simpl. split; [lia|]. exists m'. split; [|split; assumption].
      rewrite (mon_run_app_some _ _ _ _ Hm). exact Hm'.
    + exfalso. eapply HNT; reflexivity.
    + simpl in HC. simpl. exact HC.
Qed.

Lemma res_glob_sim : forall n trys below st nx m r,
  okl nx (nums below) ->
  (forall x c nx' tr, r <> RThrowOut x c nx' tr) ->
  post n trys below st nx m r -> gpost st nx m (res_glob below st r).
Proof.
  intros. destruct r; simpl in *.
  - destruct H1 as [Hn Hm].
    pose proof (resume_sim below (OVal v) st nx0 (okl_mono _ _ _ Hn H)) as HR.
    destruct (resume below (OVal v) st nx0) as [[g nx''] tr'].
    simpl in HR. destruct HR as (Hn' & m' & Hm' & Ha & Hk).
    split; [lia|]. exists m'. split; [|split; assumption].
    rewrite (mon_run_app_some _ _ _ _ Hm). exact Hm'.
  - destruct H1 as [Hn Hm].
    pose proof (resume_sim below (OErr x) st nx0 (okl_mono _ _ _ Hn H)) as HR.
    destruct (resume below (OErr x) st nx0) as [[g nx''] tr'].
    simpl in HR. destruct HR as (Hn' & m' & Hm' & Ha & Hk).
    split; [lia|]. exists m'. split; [|split; assumption].
    rewrite (mon_run_app_some _ _ _ _ Hm). exact Hm'.
  - exfalso. eapply H0; reflexivity.
  - exact H1.
Qed.

(* ---------------------------------------------------------------------------------------------- *)
(* whole runs                                                                                      *)
Definition Inv (rs : run_state) : Prop :=
  exists m, mon_run m0 (r_tr rs) = Some m /\ absg (r_cfg rs) (r_stopped rs) (r_next rs) m /\
            okg (r_cfg rs) (r_next rs).

Lemma gpost_pre : forall st nx m m1 tr0 g nx' tr,
  mon_run m tr0 = Some m1 -> gpost st nx m1 (g, nx', tr) -> gpost st nx m (g, nx', tr0 ++ tr).
Proof.
  intros. simpl in *. destruct H0 as (Hn & m' & Hm' & HG). split; [lia|]. exists m'. split; [|exact HG].
  rewrite (mon_run_app_some _ _ _ _ H). exact Hm'.
Qed.

Lemma absorb_inv : forall rs m x,
  mon_run m0 (r_tr rs) = Some m -> gpost (r_stopped rs) (r_next rs) m x -> Inv (absorb rs x).
Proof.
  intros rs m [[g nx] tr] Hm Hg. simpl in Hg. destruct Hg as (Hn & m' & Hm' & Ha & Hk).
  exists m'. unfold absorb; simpl. split; [|split; assumption].
  rewrite (mon_run_app_some _ _ _ _ Hm). exact Hm'.
Qed.

Lemma run_start_inv : forall body ps, Inv (run_start body ps).
Proof.
  intros. unfold run_start.
  eapply absorb_inv with (m := Mb 0 [] [] [] [] 1 ps).
  - simpl. destruct ps; reflexivity.
  - simpl r_stopped. simpl r_next.
    assert (Hpc : pc 0 [] 1).
    { split; [lia|]. simpl. constructor; constructor. }
    pose proof (run_body_sim _ body (le_n _) 0 [] [] [] [] [] ps 1 Hpc) as HB.
    destruct (close_body_sim 0 [] ps 1 _ _ Hpc HB) as [HC HNT].
    pose proof (res_glob_sim 0 [] [] ps 1 _ _ ltac:(split; constructor) HNT HC) as HG.
    destruct (res_glob [] ps (close_body 0 [] (run_body 0 body [] [] [] [] [] ps 1))) as [[g nx] tr].
    simpl in *. destruct HG as (Hn & HG). split; [lia|exact HG].
Qed.

Lemma absg_skip : forall g st nx m, absg g st nx m -> mon_step m TSkip = Some m.
Proof.
  intros. destruct g; simpl in H.
  - destruct s.
    + destruct H as [-> _]. reflexivity.
    + destruct stack; [contradiction|]. destruct H as (Z & l & _ & _ & -> & _). reflexivity.
  - destruct H as (Z & _ & ->). reflexivity.
  - subst. reflexivity.
  - unfold mon_step. rewrite H. reflexivity.
Qed.

Lemma skip_inv : forall rs, Inv rs -> Inv (skip rs).
Proof.
  intros rs (m & Hm & Ha & Hk). exists m. unfold skip; simpl. split; [|split; assumption].
  rewrite (mon_run_app_some _ _ _ _ Hm). simpl. rewrite (absg_skip _ _ _ _ Ha). reflexivity.
Qed.

Lemma unwind_done_sim0 : forall stack nx st, okl nx (nums stack) ->
  let '(g, tr) := unwind_done [] stack in
  exists m', mon_run (ML (map absb stack) nx st) tr = Some m' /\ absg g st nx m' /\ okg g nx.
Proof.
  intros. destruct stack as [|f rest].
  - simpl. eexists. split; [reflexivity|]. split.
    + exists []. split; [constructor|reflexivity].
    + exact H.
  - pose proof (unwind_done_sim rest f [] [] false nx st (Forall2_nil _) H) as HU.
    destruct (unwind_done [] (f :: rest)) as [g tr]. exact HU.
Qed.

Lemma sdesc_app_lt : forall l1 a l2, sdesc (l1 ++ a :: l2) -> forall x, In x l1 -> a < x.
Proof.
  intros. apply sdesc_app in H. destruct H as (_ & _ & H). apply H; simpl; auto.
Qed.

Lemma okl_app_r : forall nx l1 l2, okl nx (l1 ++ l2) -> okl nx l2.
Proof.
  unfold okl; intros. destruct H as [Hs Hf]. apply sdesc_app in Hs. rewrite Forall_app in Hf.
  destruct Hs as (_ & Hs & _). destruct Hf. split; auto.
Qed.

Lemma on_leaf_inv : forall rs id o x,
  Inv rs -> on_leaf (r_cfg rs) id o (r_stopped rs) (r_next rs) = Some x -> Inv (absorb rs x).
Proof.
  intros rs id o x (m & Hm & Ha & Hk) Hx.
  eapply absorb_inv; [exact Hm|].
  destruct (r_cfg rs) as [s stack|zs| |]; cbn [on_leaf] in Hx; try discriminate.
  destruct s as [id' kd seen|eo c zs]; cbn [on_leaf] in Hx.
  - (* the body of the innermost frame awaits the leaf *)
    destruct (Nat.eqb id id') eqn:E; [|discriminate]. apply Nat.eqb_eq in E. subst id'.
    simpl in Ha. destruct Ha as [-> Hseen]. simpl in Hk.
    assert (HR : forall o', gpost (r_stopped rs) (r_next rs)
                   (Mk (map absb stack) (r_next rs) (r_stopped rs) (Some (id, stoppable kd)) None)
                   (let '(g', nx', tr) := resume stack o' (r_stopped rs) (r_next rs) in (g', nx', TLeafDone id o' :: tr))).
    { intros o'. pose proof (resume_sim stack o' (r_stopped rs) (r_next rs) Hk) as HR.
      destruct (resume stack o' (r_stopped rs) (r_next rs)) as [[g nx'] tr].
      simpl in *. destruct HR as (Hn & m' & Hm' & HR). split; [lia|]. exists m'. split; [|exact HR].
      rewrite step_leafdone. exact Hm'. }
    assert (Hx' : (let '(g', nx', tr) := resume stack o (r_stopped rs) (r_next rs) in (g', nx', TLeafDone id o :: tr)) = x).
    { destruct kd, o; try discriminate; simpl in Hx;
        destruct (resume stack _ (r_stopped rs) (r_next rs)) as [[? ?] ?]; inversion Hx; reflexivity. }
    rewrite <- Hx'. apply HR.
  - (* a cleanup action of the exiting innermost frame awaits the leaf *)
    destruct stack as [|f rest]; [discriminate|]. cbn [on_leaf] in Hx.
    simpl in Ha. destruct Ha as (Z & l & HZ & Hl & -> & Hzs). simpl in Hk.
    rewrite Hl in Hx. destruct (Nat.eqb id l) eqn:E; [|discriminate]. apply Nat.eqb_eq in E. subst l.
    assert (HZok : Zok (f_n f) Z).
    { eapply zrel_Zok; eauto. destruct Hk as [Hs _]. intros. eapply sdesc_app_lt; eauto. }
    destruct o as [v|e|].
    + (* the cleanup action finishes; the remaining ones run *)
      assert (HE : mon_run (Mk (Z ++ mklst (f_n f) (exit_locals eo f) (ids (f_cleanups f)) (Some (c_id c)) true :: map absb rest)
                               (r_next rs) (r_stopped rs) (Some (id, false)) None)
                           [TLeafDone id (OVal v); TCleanupEnd (f_n f) (c_id c)]
                   = Some (ML (Z ++ mklst (f_n f) (exit_locals eo f) (ids (f_cleanups f)) None true :: map absb rest)
                              (r_next rs) (r_stopped rs))).
      { cbn [mon_run]. rewrite step_leafdone. rewrite step_end by exact HZok. reflexivity. }
      destruct eo as [v'|e'|].
      * (* value *)
        rewrite (Hzs ltac:(discriminate)) in *. inversion HZ; subst Z. simpl in Hk.
        apply okl_inv in Hk. destruct Hk as (Hokr & Hlt & Hsd).
        pose proof (finish_sim (f_n f) [] (OVal v') (f_cleanups f) rest (r_next rs) (r_stopped rs) true I
                               (conj Hlt Hsd)) as HF.
        pose proof (res_glob_sim _ _ _ _ _ _ _ Hokr (finish_not_throw _ _ _ _ _) HF) as HG.
        destruct (res_glob rest (r_stopped rs) (finish (f_n f) (OVal v') (f_cleanups f) rest (r_next rs))) as [[g nx'] tr].
        injection Hx as <-. exact (gpost_pre _ _ _ _ _ _ _ _ HE HG).
      * (* error *)
        rewrite (Hzs ltac:(discriminate)) in *. inversion HZ; subst Z. simpl in Hk.
        apply okl_inv in Hk. destruct Hk as (Hokr & Hlt & Hsd).
        pose proof (finish_sim (f_n f) [] (OErr e') (f_cleanups f) rest (r_next rs) (r_stopped rs) true I
                               (conj Hlt Hsd)) as HF.
        pose proof (res_glob_sim _ _ _ _ _ _ _ Hokr (finish_not_throw _ _ _ _ _) HF) as HG.
        destruct (res_glob rest (r_stopped rs) (finish (f_n f) (OErr e') (f_cleanups f) rest (r_next rs))) as [[g nx'] tr].
        injection Hx as <-. exact (gpost_pre _ _ _ _ _ _ _ _ HE HG).
      * (* done: the unwinding continues outwards *)
        pose proof (unwind_done_sim rest f zs Z true (r_next rs) (r_stopped rs) HZ Hk) as HU.
        destruct (unwind_done zs (f :: rest)) as [g tr].
        injection Hx as <-.
        refine (gpost_pre _ _ _ _ _ _ _ _ HE _). simpl. split; [lia|exact HU].
    + injection Hx as <-. simpl. split; [lia|]. eexists. split.
      * rewrite step_leafdone. reflexivity.
      * simpl. auto.
    + injection Hx as <-. simpl. split; [lia|]. eexists. split.
      * rewrite step_leafdone. reflexivity.
      * simpl. auto.
Qed.

Lemma stop_inv : forall rs, Inv rs -> r_stopped rs = false ->
  Inv (let (g, tr) := on_stop (r_cfg rs) in
       {| r_cfg := g; r_stopped := true; r_next := r_next rs; r_tr := r_tr rs ++ TStopReq :: tr |}).
Proof.
  intros rs (m & Hm & Ha & Hk) Hst. rewrite Hst in Ha.
  assert (Hgen : forall g tr m', mon_run m (TStopReq :: tr) = Some m' -> absg g true (r_next rs) m' -> okg g (r_next rs) ->
            Inv {| r_cfg := g; r_stopped := true; r_next := r_next rs; r_tr := r_tr rs ++ TStopReq :: tr |}).
  { intros g tr m' H1 H2 H3. exists m'. simpl. split; [|split; assumption].
    rewrite (mon_run_app_some _ _ _ _ Hm). exact H1. }
  destruct (r_cfg rs) as [s stack|zs| |].
  - destruct s as [id kd seen|eo c zs].
    + simpl in Ha. destruct Ha as [-> Hseen]. simpl in Hk.
      destruct kd; simpl in Hseen.
      * (* plain leaf: its stop callback runs *)
        subst seen. cbn [on_stop]. eapply Hgen.
        -- cbn [mon_run]. rewrite step_stopreq. simpl stoppable. cbv iota. rewrite step_stopseen. reflexivity.
        -- simpl. split; reflexivity.
        -- exact Hk.
      * (* reactive leaf: completes with done from the callback *)
        destruct Hseen as [-> _]. cbn [on_stop].
        pose proof (unwind_done_sim0 stack (r_next rs) true Hk) as HU.
        destruct (unwind_done [] stack) as [g tr]. destruct HU as (m' & Hm' & Ha' & Hk').
        eapply Hgen; [|exact Ha'|exact Hk'].
        cbn [mon_run app]. rewrite step_stopreq. simpl stoppable. cbv iota.
        rewrite step_stopseen. rewrite step_leafdone. exact Hm'.
      * (* plain awaitable: knows nothing about stop *)
        subst seen. cbn [on_stop]. eapply Hgen.
        -- cbn [mon_run]. rewrite step_stopreq. reflexivity.
        -- simpl. split; reflexivity.
        -- exact Hk.
    + (* inside a cleanup action: shielded *)
      destruct stack as [|f rest]; [contradiction|].
      simpl in Ha. destruct Ha as (Z & l & HZ & Hl & -> & Hzs).
      cbn [on_stop]. eapply Hgen.
      * cbn [mon_run]. rewrite step_stopreq. reflexivity.
      * simpl. exists Z, l. repeat split; auto.
      * exact Hk.
  - simpl in Ha. destruct Ha as (Z & HZ & ->). cbn [on_stop]. eapply Hgen.
    + reflexivity.
    + simpl. exists Z. split; auto.
    + exact Hk.
  - simpl in Ha. subst m. cbn [on_stop]. eapply Hgen; [reflexivity|reflexivity|exact I].
  - simpl in Ha. cbn [on_stop]. eapply Hgen with (m' := m).
    + cbn [mon_run]. unfold mon_step. rewrite Ha. reflexivity.
    + exact Ha.
    + exact I.
Qed.

Lemma run_ev_inv : forall rs ev, Inv rs -> Inv (run_ev rs ev).
Proof.
  intros rs [id o|] H; unfold run_ev.
  - destruct (on_leaf (r_cfg rs) id o (r_stopped rs) (r_next rs)) eqn:E.
    + eapply on_leaf_inv; eauto.
    + apply skip_inv; assumption.
  - destruct (r_stopped rs) eqn:E.
    + apply skip_inv; assumption.
    + apply stop_inv; assumption.
Qed.

Lemma fold_inv : forall script rs, Inv rs -> Inv (fold_left run_ev script rs).
Proof. induction script; simpl; intros; auto. apply IHscript. apply run_ev_inv; assumption. Qed.

(* destruction of the operation state after the root receiver got done *)
Lemma destroy_sim : forall zs Z nx st, Forall2 zrel zs Z ->
  mon_run (MR Z nx st true) (destroy_frames zs) = Some (MR [] nx st true).
Proof.
  induction 1; simpl; auto.
  destruct H as [b ->].
  rewrite <- app_assoc. 
  assert (HD : forall L, mon_run (MR (mklst (f_n x) L [] None b :: l') nx st true) (dtors (f_n x) L)
                         = Some (MR (mklst (f_n x) [] [] None b :: l') nx st true)).
  { induction L; simpl; auto. unfold mon_step, MR, frame_ev; simpl. rewrite !Nat.eqb_refl. simpl. exact IHL. }
  rewrite (mon_run_app_some _ _ _ _ (HD _)). simpl.
  unfold mon_step at 1. unfold MR at 1. simpl. rewrite Nat.eqb_refl. exact IHForall2.
Qed.

Lemma finish_run_final : forall rs, Inv rs -> monitor (r_tr (finish_run rs)) = true.
Proof.
  intros rs (m & Hm & Ha & Hk). unfold monitor, finish_run.
  destruct (r_cfg rs) as [s stack|zs| |]; simpl r_tr.
  - rewrite Hm. destruct s as [id kd seen|eo c zs].
    + simpl in Ha. destruct Ha as [-> _]. reflexivity.
    + destruct stack; [contradiction|]. simpl in Ha. destruct Ha as (Z & l & _ & _ & -> & _). reflexivity.
  - simpl in Ha. destruct Ha as (Z & HZ & ->).
    rewrite (mon_run_app_some _ _ _ _ Hm). cbn [mon_run].
    change (mon_step (MR Z (r_next rs) (r_stopped rs) false) TOpDtor) with (Some (MR Z (r_next rs) (r_stopped rs) true)).
    cbv iota. rewrite (destroy_sim _ _ _ _ HZ). reflexivity.
  - simpl in Ha. subst m. rewrite (mon_run_app_some _ _ _ _ Hm). reflexivity.
  - rewrite Hm. simpl in Ha. unfold mon_final. rewrite Ha. reflexivity.
Qed.

(* MAIN: every trace of the model is accepted by the monitor *)
Theorem exec_monitored : forall body prestopped script,
  monitor (r_tr (exec body prestopped script)) = true.
Proof.
  intros. unfold exec. apply finish_run_final. apply fold_inv. apply run_start_inv.
Qed.

(* ---------------------------------------------------------------------------------------------- *)
(* co_await maps the awaited result: equations of the machine, for every context                   *)
Lemma pre_nil : forall r, pre [] r = r.
Proof. destruct r; reflexivity. Qed.

(* value -> the continuation runs with it; a plain awaitable (round trip through as_sender /
   connect_awaitable / await_transform) behaves as the sender *)
Lemma await_value : forall n a k env scope trys cls below st nx,
  run_body n (CAwait (AJust a) k) env scope trys cls below st nx
  = run_body n k (arg_val a env :: env) scope trys cls below st nx /\
  run_body n (CAwait (AAwJust a) k) env scope trys cls below st nx
  = run_body n k (arg_val a env :: env) scope trys cls below st nx.
Proof. intros. simpl. rewrite !pre_nil. split; reflexivity. Qed.

(* error -> exactly what a throw statement at that point does *)
Lemma await_error : forall n x k env scope trys cls below st nx,
  run_body n (CAwait (AErr x) k) env scope trys cls below st nx
  = run_body n (CThrow x) env scope trys cls below st nx /\
  run_body n (CAwait (AAwErr x) k) env scope trys cls below st nx
  = run_body n (CThrow x) env scope trys cls below st nx.
Proof. intros. split; reflexivity. Qed.

(* done -> the coroutine is not resumed: the done path of the whole stack of awaiting frames *)
Lemma await_done : forall n k env scope trys cls below st nx,
  run_body n (CAwait ADone k) env scope trys cls below st nx
  = let (g, tr) := unwind_done [] (mkframe n scope trys cls env k :: below) in RGlob g nx tr.
Proof. intros. reflexivity. Qed.

(* the same at the completion of an asynchronous leaf *)
Lemma resume_error_is_throw : forall p rest x st nx,
  resume (p :: rest) (OErr x) st nx
  = resume (mkframe (f_n p) (f_scope p) (f_trys p) (f_cleanups p) (f_env p) (CThrow x) :: rest) (OVal 0%Z) st nx.
Proof. intros. reflexivity. Qed.

Lemma resume_done_unwinds : forall stack st nx,
  resume stack ODone st nx =
  match stack with
  | [] => (GRootDone [], nx, [TRoot ODone])
  | _ => let (g, tr) := unwind_done [] stack in (g, nx, tr)
  end.
Proof.
  intros. destruct stack as [|p rest]; [reflexivity|].
  cbn [resume]. destruct (unwind_done [] (p :: rest)) as [g tr]. reflexivity.
Qed.

(* a nested task completes its awaiter with its co_return value / its escaped exception *)
Lemma await_task_value : forall n b k env scope trys cls below st nx v nx' tr,
  close_body nx (mkframe n scope trys cls env k :: below)
             (run_body nx b env [] [] [] (mkframe n scope trys cls env k :: below) st (S nx)) = RVal v nx' tr ->
  run_body n (CAwait (ATask b) k) env scope trys cls below st nx
  = pre (TFrame nx :: tr) (run_body n k (v :: env) scope trys cls below st nx').
Proof. intros. cbn [run_body]. rewrite H. reflexivity. Qed.

Lemma await_task_error : forall n b k env scope trys cls below st nx x nx' tr,
  close_body nx (mkframe n scope trys cls env k :: below)
             (run_body nx b env [] [] [] (mkframe n scope trys cls env k :: below) st (S nx)) = RErr x nx' tr ->
  run_body n (CAwait (ATask b) k) env scope trys cls below st nx
  = pre (TFrame nx :: tr) (run_body n (CThrow x) env scope trys cls below st nx').
Proof. intros. cbn [run_body]. rewrite H. reflexivity. Qed.
