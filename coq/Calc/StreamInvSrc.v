(* The sources satisfy [spec]. *)
From Coq Require Import ZArith List Bool Arith Lia.
From V Require Import Calc.StreamDefs Calc.StreamSpec Calc.StreamInv.
Import ListNotations.
Import SCalc.
Local Open Scope Z_scope.

Definition ms_none : sst -> nat -> monst := fun _ _ => m0.

Lemma mrun_nil_ok id m : mrun id m [] = Some m. Proof. reflexivity. Qed.

Ltac pmcases pm := destruct pm; simpl in *; try congruence; try tauto.

(* ---- range ---------------------------------------------------------------------------------------------- *)
Definition range_inv (a b pos : Z) (h : list outcome) : Prop :=
  exists k j, h = map OVal (zrange a k) ++ repeat ODone j /\ pos = a + Z.of_nat k /\
              (k <= Z.to_nat (b - a))%nat /\ ((j > 0)%nat -> k = Z.to_nat (b - a)).

Definition G_range (a b : Z) (st : sst) : Prop :=
  match st with Node h pm (BRange pos) => pm <> PBad /\ range_inv a b pos h | _ => False end.

Lemma zrange_snoc : forall n a, zrange a (S n) = zrange a n ++ [a + Z.of_nat n].
Proof.
  induction n; intros a.
  - simpl. f_equal. lia.
  - change (zrange a (S (S n))) with (a :: zrange (a + 1) (S n)). rewrite IHn. simpl. f_equal. f_equal. f_equal. lia.
Qed.

Lemma repeat_snoc {A} (x : A) n : repeat x n ++ [x] = repeat x (S n).
Proof. induction n; simpl; auto. f_equal; auto. Qed.

Lemma range_spec : forall a b, spec (wrap (range_ops a b)) (G_range a b) ms_none [].
Proof.
  intros a b. constructor.
  - apply wrap_wlaws.
  - intros [h pm bd] H. destruct bd; simpl in *; tauto.
  - simpl. split. congruence. exists 0%nat, 0%nat. simpl. repeat split; try lia.
  - reflexivity.
  - reflexivity.
  - (* next *)
    intros [h pm bd] en H Hl. destruct bd; simpl in H; try tauto. destruct H as [Hpm (k & j & Hh & Hp & Hk & Hj)].
    unfold ok. simpl. destruct (Z.ltb_spec pos b); simpl.
    + split; [|split; [reflexivity|apply only_ids_nil]]. split. { simpl in Hl; destruct Hl; subst; simpl; congruence. }
      assert (j = 0%nat). { destruct j; auto. assert (k = Z.to_nat (b - a)) by (apply Hj; lia). lia. } subst j.
      exists (S k), 0%nat. simpl repeat in *. rewrite app_nil_r in *. rewrite zrange_snoc, map_app. simpl. subst.
      repeat split; try lia.
    + split; [|split; [reflexivity|apply only_ids_nil]]. split. { simpl in Hl; destruct Hl; subst; simpl; congruence. }
      exists k, (S j). rewrite Hh, <- app_assoc, repeat_snoc. repeat split; auto; try lia.
  - (* clean *)
    intros [h pm bd] H Hl. destruct bd; simpl in H; try tauto. unfold ok. simpl.
    rewrite app_nil_r. split; [|split; [reflexivity|apply only_ids_nil]]. split; [|tauto]. simpl in Hl; destruct Hl; subst; simpl; congruence.
  - intros [h pm bd] H. destruct bd; simpl in H; try tauto. unfold ok. simpl. rewrite app_nil_r.
    split; [|split; [reflexivity|apply only_ids_nil]]. auto.
  - intros [h pm bd] tg o H. destruct bd; simpl in H; try tauto. unfold ok. simpl. rewrite app_nil_r.
    split; [|split; [reflexivity|apply only_ids_nil]]. auto.
  - intros [h pm bd] H. destruct bd; simpl in H; try tauto. unfold ok. simpl. rewrite app_nil_r.
    split; [|split; [reflexivity|apply only_ids_nil]]. auto.
  - intros [h pm bd] H. simpl. auto.
  - intros [h pm bd]. simpl. auto.
  - intros [h pm bd] en v. simpl. destruct bd; simpl; try congruence.
    destruct (Z.ltb_spec pos b); simpl; intros E; inversion E; subst. lia.
  - intros. unfold ms_none, mquiet, m0. simpl. auto.
Qed.

(* ---- single --------------------------------------------------------------------------------------------- *)
Definition single_inv (v : Z) (used : bool) (h : list outcome) : Prop :=
  (used = false /\ h = []) \/ (used = true /\ exists j, h = OVal v :: repeat ODone j).

Definition G_single (v : Z) (st : sst) : Prop :=
  match st with Node h pm (BSingle used) => pm <> PBad /\ single_inv v used h | _ => False end.

Ltac triv_ok := split; [|split; [reflexivity|apply only_ids_nil]].

Lemma single_spec : forall v, spec (wrap (single_ops v)) (G_single v) ms_none [].
Proof.
  intros v. constructor.
  - apply wrap_wlaws.
  - intros [h pm bd] H. destruct bd; simpl in *; tauto.
  - simpl. split. discriminate. left; auto.
  - reflexivity.
  - reflexivity.
  - intros [h pm bd] en H Hl. destruct bd; simpl in H; try tauto. destruct H as [Hpm Hi].
    unfold ok. simpl. destruct used; simpl; triv_ok.
    + split. { simpl in Hl; destruct Hl; subst; simpl; congruence. }
      right. split; auto. destruct Hi as [[? ?]|[_ [j Hj]]]; try congruence. exists (S j). subst.
      simpl. f_equal. apply repeat_snoc.
    + split. { simpl in Hl; destruct Hl; subst; simpl; congruence. }
      right. split; auto. destruct Hi as [[_ ?]|[? _]]; try congruence. exists 0%nat. subst. reflexivity.
  - intros [h pm bd] H Hl. destruct bd; simpl in H; try tauto. unfold ok. simpl. rewrite app_nil_r. triv_ok.
    split; [|tauto]. simpl in Hl; destruct Hl; subst; simpl; congruence.
  - intros [h pm bd] H. destruct bd; simpl in H; try tauto. unfold ok. simpl. rewrite app_nil_r. triv_ok. auto.
  - intros [h pm bd] tg o H. destruct bd; simpl in H; try tauto. unfold ok. simpl. rewrite app_nil_r. triv_ok. auto.
  - intros [h pm bd] H. destruct bd; simpl in H; try tauto. unfold ok. simpl. rewrite app_nil_r. triv_ok. auto.
  - intros [h pm bd] H. simpl. auto.
  - intros [h pm bd]. simpl. auto.
  - intros [h pm bd] en x. simpl. destruct bd; simpl; try congruence.
    destruct used; simpl; intros E; inversion E; subst. lia.
  - intros. unfold ms_none, mquiet, m0. simpl. auto.
Qed.

(* ---- never ---------------------------------------------------------------------------------------------- *)
Definition G_never (st : sst) : Prop :=
  match st with
  | Node h pm (BNever act cut) => pm <> PBad /\ (act = true -> pm = PBusy) /\ Forall (eq ODone) h
  | _ => False
  end.

Lemma fire_ev_mrun : forall id m en, mrun id m (fire_ev en) = Some m.
Proof. intros. unfold fire_ev. destruct (fires en); reflexivity. Qed.
Lemma fire_ev_ids : forall ids en, only_ids ids (fire_ev en).
Proof. intros ids en t i Hin He. unfold fire_ev in Hin. destruct (fires en); simpl in Hin; try tauto. destruct Hin; try tauto. subst. discriminate. Qed.

Lemma never_spec : spec (wrap never_ops) G_never ms_none [].
Proof.
  constructor.
  - apply wrap_wlaws.
  - intros [h pm bd] H. destruct bd; simpl in *; tauto.
  - simpl. split. discriminate. split. discriminate. constructor.
  - reflexivity.
  - reflexivity.
  - intros [h pm bd] en H Hl. destruct bd; simpl in H; try tauto. destruct H as (Hpm & Ha & Hh).
    unfold ok. simpl. destruct (runs_inline en); simpl.
    + split; [|split; [intros; apply fire_ev_mrun|apply fire_ev_ids]].
      split. { simpl in Hl; destruct Hl; subst; simpl; congruence. } split. discriminate.
      apply Forall_app. split; auto.
    + rewrite app_nil_r. triv_ok. simpl in Hl. destruct Hl; subst; simpl; repeat split; auto; discriminate.
  - intros [h pm bd] H Hl. destruct bd; simpl in H; try tauto. unfold ok. simpl. rewrite app_nil_r. triv_ok.
    destruct H as (Hpm & Ha & Hh). simpl in Hl.
    split. { destruct Hl; subst; simpl; congruence. } split; auto.
    intros E. apply Ha in E. destruct Hl; congruence.
  - intros [h pm bd] H. destruct bd; simpl in H; try tauto. destruct H as (Hpm & Ha & Hh). unfold ok. simpl.
    destruct active; simpl.
    + triv_ok. rewrite Ha by auto. simpl. split. discriminate. split. discriminate. apply Forall_app. split; auto.
    + rewrite app_nil_r. triv_ok. auto.
  - intros [h pm bd] tg o H. destruct bd; simpl in H; try tauto. unfold ok. simpl. rewrite app_nil_r. triv_ok. auto.
  - intros [h pm bd] H. destruct bd; simpl in H; try tauto. unfold ok. simpl. rewrite app_nil_r. triv_ok. auto.
  - intros [h pm bd] H. simpl. auto.
  - intros [h pm bd]. simpl. destruct bd; simpl; auto. destruct active; simpl; auto.
  - intros [h pm bd] en x. simpl. destruct bd; simpl; try congruence.
    destruct (runs_inline en); simpl; congruence.
  - intros. unfold ms_none, mquiet, m0. simpl. auto.
Qed.

(* ---- the scripted source ------------------------------------------------------------------------------- *)
Definition src_cpl (pm : pmode) (s : srcst) : Prop :=
  match pm with
  | PFresh => s_n s = 0%nat /\ s_out s = false /\ s_cl s = 0%nat
  | PIdle | PEnded => s_n s <> 0%nat /\ s_out s = false /\ s_cl s = 0%nat
  | PBusy => s_n s <> 0%nat /\ s_out s = true /\ s_cl s = 0%nat
  | PCleaning => s_n s <> 0%nat /\ s_out s = false /\ s_cl s = 1%nat
  | PCleaned => s_n s <> 0%nat /\ s_out s = false /\ s_cl s = 2%nat
  | PBad => False
  end.
Definition ms_of_src (s : srcst) : monst :=
  {| m_n := s_n s; m_out := s_out s; m_cl := s_cl s; m_hist := s_hist s |}.
Definition G_src (st : sst) : Prop := match st with Node h pm (BSrc s) => src_cpl pm s /\ h = s_hist s | _ => False end.
Definition ms_src (id : nat) (st : sst) (i : nat) : monst :=
  if Nat.eqb i id then match st with Node h _ (BSrc s) => ms_of_src s | _ => m0 end else m0.

Definition ol (c : option outcome) : list outcome := match c with Some o => [o] | None => [] end.

Lemma only_ids_one : forall id evs, (forall t, In t evs -> ev_id t = Some id \/ ev_id t = None) -> only_ids [id] evs.
Proof. intros id evs H t i Hin He. destruct (H t Hin) as [E|E]; rewrite E in He; inversion He; subst. left; auto. Qed.

Ltac mcomp := repeat (simpl; rewrite ?Nat.eqb_refl); simpl.
Ltac evids := apply only_ids_one; intros t Hin; simpl in Hin;
  repeat (destruct Hin as [Hin|Hin]; [subst t; simpl; auto|]); try tauto.

(* each function of the scripted source: its events drive the monitor from the old state to the new
   one (under the stated precondition), mention only id, and the ghost history grows by the outcome *)
Lemma src_next_mon : forall id r s en,
  s_out s = false -> s_cl s = 0%nat ->
  mrun id (ms_of_src s) (snd (fst (src_next id r s en))) = Some (ms_of_src (fst (fst (src_next id r s en)))) /\
  only_ids [id] (snd (fst (src_next id r s en))) /\
  s_hist (fst (fst (src_next id r s en))) = s_hist s ++ ol (snd (src_next id r s en)).
Proof.
  intros id r [n out seen cl hh] en Ho Hc. simpl in *. subst. unfold src_next, ms_of_src. simpl.
  destruct (runs_inline en) eqn:Ei; [destruct r|]; simpl; rewrite ?Nat.eqb_refl; simpl.
  - split; [|split; auto].
    + rewrite mrun_app, fire_ev_mrun. mcomp. reflexivity.
    + intros t i Hin He. destruct Hin as [Hin|Hin]; [subst; inversion He; left; auto|].
      apply in_app_or in Hin. destruct Hin as [Hin|Hin]. { exfalso. eapply (fire_ev_ids []); eauto. }
      simpl in Hin. destruct Hin as [Hin|[Hin|[]]]; subst; inversion He; left; auto.
  - split; [|split; [|rewrite app_nil_r; auto]].
    + rewrite mrun_app, fire_ev_mrun. mcomp. reflexivity.
    + intros t i Hin He. destruct Hin as [Hin|Hin]; [subst; inversion He; left; auto|].
      apply in_app_or in Hin. destruct Hin as [Hin|Hin]. { exfalso. eapply (fire_ev_ids []); eauto. }
      simpl in Hin. destruct Hin as [Hin|[]]; subst; inversion He; left; auto.
  - rewrite app_nil_r. split; auto. split; auto. evids.
Qed.

Lemma src_stop_mon : forall id r s,
  (s_out s = true -> s_n s <> 0%nat) ->
  mrun id (ms_of_src s) (snd (fst (src_stop id r s))) = Some (ms_of_src (fst (fst (src_stop id r s)))) /\
  only_ids [id] (snd (fst (src_stop id r s))) /\
  s_hist (fst (fst (src_stop id r s))) = s_hist s ++ ol (snd (src_stop id r s)).
Proof.
  intros id r [n out seen cl hh] Hn. simpl in *. unfold src_stop, ms_of_src. simpl.
  destruct out; simpl; [destruct seen; simpl|]; try (rewrite app_nil_r; split; [reflexivity|split; [apply only_ids_nil|auto]]).
  destruct n as [|n]; [exfalso; apply Hn; auto|].
  destruct r; mcomp; rewrite ?app_nil_r; split; auto; split; auto; evids.
Qed.

Lemma src_complete_mon : forall id s o,
  (s_out s = true -> s_n s <> 0%nat) ->
  mrun id (ms_of_src s) (snd (fst (fst (src_complete id s o)))) = Some (ms_of_src (fst (fst (fst (src_complete id s o))))) /\
  only_ids [id] (snd (fst (fst (src_complete id s o)))) /\
  s_hist (fst (fst (fst (src_complete id s o)))) = s_hist s ++ ol (snd (fst (src_complete id s o))).
Proof.
  intros id [n out seen cl hh] o Hn. simpl in *. unfold src_complete, ms_of_src. simpl.
  destruct out; simpl; try (rewrite app_nil_r; split; [reflexivity|split; [apply only_ids_nil|auto]]).
  destruct n as [|n]; [exfalso; apply Hn; auto|].
  mcomp; split; auto; split; auto; evids.
Qed.

Lemma src_cleanup_mon : forall id s,
  s_out s = false -> s_cl s = 0%nat -> s_n s <> 0%nat ->
  mrun id (ms_of_src s) (snd (src_cleanup id s)) = Some (ms_of_src (fst (src_cleanup id s))) /\
  only_ids [id] (snd (src_cleanup id s)) /\ s_hist (fst (src_cleanup id s)) = s_hist s.
Proof.
  intros id [n out seen cl hh] Ho Hc Hn. simpl in *. subst. unfold src_cleanup, ms_of_src. simpl.
  rewrite Nat.eqb_refl. destruct n; [congruence|]. simpl. split; auto. split; auto. evids.
Qed.

Lemma src_cleanup_complete_mon : forall id s o,
  mrun id (ms_of_src s) (snd (fst (fst (src_cleanup_complete id s o)))) =
    Some (ms_of_src (fst (fst (fst (src_cleanup_complete id s o))))) /\
  only_ids [id] (snd (fst (fst (src_cleanup_complete id s o)))) /\
  s_hist (fst (fst (fst (src_cleanup_complete id s o)))) = s_hist s.
Proof.
  intros id [n out seen cl hh] o. unfold src_cleanup_complete, ms_of_src. simpl.
  destruct (Nat.eqb_spec cl 1); simpl; try (split; [reflexivity|split; [apply only_ids_nil|auto]]).
  subst. rewrite Nat.eqb_refl. simpl. split; auto. split; auto. evids.
Qed.

Lemma ms_src_other : forall id st i, i <> id -> ms_src id st i = m0.
Proof. intros. unfold ms_src. destruct (Nat.eqb_spec i id); congruence. Qed.
Lemma ms_src_same : forall id h pm s, ms_src id (Node h pm (BSrc s)) id = ms_of_src s.
Proof. intros. unfold ms_src. rewrite Nat.eqb_refl. reflexivity. Qed.

Lemma src_ok_mon : forall id st st' evs,
  mrun id (ms_src id st id) evs = Some (ms_src id st' id) -> only_ids [id] evs ->
  (forall i, mrun i (ms_src id st i) evs = Some (ms_src id st' i)) /\ only_ids [id] evs.
Proof.
  intros id st st' evs Hm Hi. split; auto. intros i. destruct (Nat.eq_dec i id) as [->|Hne]; auto.
  rewrite !ms_src_other by auto. eapply mrun_other; eauto. simpl. intros [E|[]]; congruence.
Qed.

Lemma okn_kn : forall c, kn (okn c) = ol c. Proof. destruct c; reflexivity. Qed.
Lemma okc_kn : forall c, kn (okc c) = []. Proof. destruct c; reflexivity. Qed.

Lemma src_cpl_out : forall pm s, src_cpl pm s -> s_out s = true -> s_n s <> 0%nat.
Proof. intros pm s H E. destruct pm; simpl in H; try tauto; destruct H as (? & ? & ?); congruence. Qed.

(* the protocol part, function by function *)
Lemma src_next_cpl : forall id r s en pm,
  src_cpl pm s -> pm = PFresh \/ pm = PIdle ->
  src_cpl (pm_next pm (okn (snd (src_next id r s en)))) (fst (fst (src_next id r s en))).
Proof.
  intros id r [n out seen cl hh] en pm H Hl. unfold src_next. simpl in *.
  destruct (runs_inline en); [destruct r|]; simpl; destruct Hl; subst; simpl in *; repeat split; auto; tauto.
Qed.
Lemma src_stop_cpl : forall id r s pm,
  src_cpl pm s -> src_cpl (pm_other pm (okn (snd (src_stop id r s)))) (fst (fst (src_stop id r s))).
Proof.
  intros id r [n out seen cl hh] pm H. unfold src_stop. simpl in *.
  destruct out; [destruct seen|]; simpl; auto; destruct r; simpl; auto;
    destruct pm; simpl in *; try tauto; try (destruct H as (? & ? & ?); congruence).
Qed.
Lemma src_complete_cpl : forall id s o pm,
  src_cpl pm s -> src_cpl (pm_other pm (okn (snd (fst (src_complete id s o))))) (fst (fst (fst (src_complete id s o)))).
Proof.
  intros id [n out seen cl hh] o pm H. unfold src_complete. simpl in *.
  destruct out; simpl; auto. destruct pm; simpl in *; try tauto; try (destruct H as (? & ? & ?); congruence).
  destruct (is_val o); simpl; tauto.
Qed.
Lemma src_cleanup_complete_cpl : forall id s o pm,
  src_cpl pm s ->
  src_cpl (pm_other pm (okc (snd (fst (src_cleanup_complete id s o))))) (fst (fst (fst (src_cleanup_complete id s o)))).
Proof.
  intros id [n out seen cl hh] o pm H. unfold src_cleanup_complete. simpl in *.
  destruct (Nat.eqb_spec cl 1); simpl; auto. subst.
  destruct pm; simpl in *; try tauto; try (destruct H as (? & ? & ?); congruence).
Qed.

Local Opaque src_next src_stop src_complete src_cleanup src_cleanup_complete.

Lemma src_spec : forall id r, spec (wrap (src_ops id r)) G_src (ms_src id) [id].
Proof.
  intros id r. constructor.
  - apply wrap_wlaws.
  - intros [h pm bd] H. destruct bd; simpl in *; try tauto. destruct pm; simpl in *; try tauto; discriminate.
  - simpl. auto.
  - intros i. unfold ms_src. simpl. destruct (Nat.eqb i id); reflexivity.
  - intros st i Hn. apply ms_src_other. simpl in Hn. intros E. apply Hn. auto.
  - (* next *)
    intros [h pm bd] en HG Hl; destruct bd; simpl in HG; try tauto; destruct HG as [H Hh]. simpl in Hl.
    assert (Ho : s_out s = false /\ s_cl s = 0%nat) by (destruct Hl; subst; simpl in H; tauto).
    destruct Ho as [Ho Hc]. pose proof (src_next_mon id r s en Ho Hc) as (M1 & M2 & M3).
    pose proof (src_next_cpl id r s en pm H Hl) as C.
    unfold ok. simpl. destruct (src_next id r s en) as [[s' ev] c]. simpl in *. rewrite okn_kn.
    split; [split; [auto|congruence]|apply src_ok_mon; rewrite ?ms_src_same; auto].
  - (* clean *)
    intros [h pm bd] HG Hl; destruct bd; simpl in HG; try tauto; destruct HG as [H Hh]. simpl in Hl.
    assert (Ho : s_out s = false /\ s_cl s = 0%nat /\ s_n s <> 0%nat) by (destruct Hl; subst; simpl in H; tauto).
    destruct Ho as (Ho & Hc & Hn). pose proof (src_cleanup_mon id s Ho Hc Hn) as (M1 & M2 & M3).
    assert (C : src_cpl (pm_clean pm None) (fst (src_cleanup id s))).
    { with_strategy transparent [src_cleanup] unfold src_cleanup. destruct Hl; subst; simpl in *; tauto. }
    unfold ok. simpl. destruct (src_cleanup id s) as [s' ev]. simpl in *. rewrite app_nil_r.
    split; [split; [auto|congruence]|apply src_ok_mon; rewrite ?ms_src_same; auto].
  - (* stop *)
    intros [h pm bd] HG; destruct bd; simpl in HG; try tauto; destruct HG as [H Hh].
    assert (Hn : s_out s = true -> s_n s <> 0%nat) by (eapply src_cpl_out; eauto).
    pose proof (src_stop_mon id r s Hn) as (M1 & M2 & M3). pose proof (src_stop_cpl id r s pm H) as C.
    unfold ok. simpl. destruct (src_stop id r s) as [[s' ev] c]. simpl in *. rewrite okn_kn.
    split; [split; [auto|congruence]|apply src_ok_mon; rewrite ?ms_src_same; auto].
  - (* leaf *)
    intros [h pm bd] tg o HG; destruct bd; simpl in HG; try tauto; destruct HG as [H Hh].
    assert (Hn : s_out s = true -> s_n s <> 0%nat) by (eapply src_cpl_out; eauto).
    unfold ok. simpl. destruct tg as [i|i]; destruct (Nat.eqb_spec i id); simpl;
      try (rewrite app_nil_r; split; [split; auto|split; [reflexivity|apply only_ids_nil]]).
    + pose proof (src_complete_mon id s o Hn) as (M1 & M2 & M3). pose proof (src_complete_cpl id s o pm H) as C.
      destruct (src_complete id s o) as [[[s' ev] c] hit]. simpl in *. rewrite okn_kn.
      split; [split; [auto|congruence]|apply src_ok_mon; rewrite ?ms_src_same; auto].
    + pose proof (src_cleanup_complete_mon id s o) as (M1 & M2 & M3). pose proof (src_cleanup_complete_cpl id s o pm H) as C.
      destruct (src_cleanup_complete id s o) as [[[s' ev] c] hit]. simpl in *. rewrite okc_kn, app_nil_r.
      split; [split; [auto|congruence]|apply src_ok_mon; rewrite ?ms_src_same; auto].
  - (* flush *)
    intros [h pm bd] HG; destruct bd; simpl in HG; try tauto; destruct HG as [H Hh]. unfold ok. simpl. rewrite app_nil_r.
    split; [split; auto|split; [reflexivity|apply only_ids_nil]].
  - intros [h pm bd] H. simpl. auto.
  - intros [h pm bd]. simpl. destruct bd; simpl; auto.
    destruct (src_stop id r s) as [[s' ev] c] eqn:E. simpl. with_strategy transparent [src_stop] unfold src_stop in E.
    destruct (s_out s && negb (s_seen s)); [destruct r|]; inversion E; subst; simpl; auto.
  - intros [h pm bd] en x. simpl. destruct bd; simpl; try congruence.
    destruct (src_next id r s en) as [[s' ev] c] eqn:E. simpl. with_strategy transparent [src_next] unfold src_next in E.
    destruct (runs_inline en); [destruct r|]; inversion E; subst; simpl; congruence.
  - intros [h pm bd] H Hq i. destruct bd; simpl in H; try tauto. destruct H as [H Hh]. simpl in Hq. unfold ms_src.
    destruct (Nat.eqb i id); [|unfold mquiet, m0; simpl; auto].
    unfold mquiet, ms_of_src. simpl. destruct Hq; subst; simpl in H; tauto.
Qed.
