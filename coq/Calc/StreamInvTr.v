(* transform_stream and filter_stream preserve [spec]. *)
From Coq Require Import ZArith List Bool Arith Lia.
From V Require Import Calc.StreamDefs Calc.StreamSpec Calc.StreamInv.
Import ListNotations.
Import SCalc.
Local Open Scope Z_scope.

Definition inner_of (st : sst) : option sst := match st with Node _ _ (BUn _ si) => Some si | _ => None end.
Definition ms_un (ms : sst -> nat -> monst) : sst -> nat -> monst :=
  fun st id => match st with Node _ _ (BUn _ si) => ms si id | _ => m0 end.

(* the parent-side mode of a pass-through adaptor: equal to the child's, except that the adaptor may
   have turned the child's last value into an error (its function threw) *)
Definition cpl_pass (pm n : pmode) : Prop := pm = n \/ (pm = PEnded /\ n = PIdle).

(* o' is what the adaptor made of the child's outcome o *)
Definition weak (o o' : outcome) : Prop :=
  (is_val o = false -> o' = o) /\ (is_val o' = true -> is_val o = true).
Definition outw (out out' : option (opk * outcome)) : Prop :=
  match out, out' with
  | None, None => True
  | Some (KC, o), Some (KC, o') => o = o'
  | Some (KN, o), Some (KN, o') => weak o o'
  | _, _ => False
  end.

Lemma cpl_pass_next : forall pm n out out', cpl_pass pm n -> pm = PFresh \/ pm = PIdle -> outw out out' ->
  pm_next n out <> PBad -> cpl_pass (pm_next pm out') (pm_next n out) /\ n = pm.
Proof.
  intros pm n out out' [E|[E1 E2]] Hl Hw Hb; [|destruct Hl; congruence]. subst n. split; auto.
  destruct out as [[[] o]|], out' as [[[] o']|]; simpl in Hw; try tauto; destruct Hl; subst; simpl in *; try congruence;
    try (left; reflexivity);
    destruct Hw as [W1 W2]; destruct (is_val o) eqn:Eo, (is_val o') eqn:Eo'; unfold cpl_pass; auto;
    try (specialize (W1 eq_refl); subst; congruence); try (specialize (W2 eq_refl); congruence).
Qed.

Lemma cpl_pass_clean : forall pm n out out', cpl_pass pm n -> pm = PIdle \/ pm = PEnded -> outw out out' ->
  pm_clean n out <> PBad -> cpl_pass (pm_clean pm out') (pm_clean n out) /\ (n = PIdle \/ n = PEnded).
Proof.
  intros pm n out out' Hc Hl Hw Hb.
  assert (Hn : n = PIdle \/ n = PEnded) by (destruct Hc as [E|[E1 E2]]; subst; auto).
  split; auto.
  destruct out as [[[] o]|], out' as [[[] o']|]; simpl in Hw; try tauto;
    destruct Hl, Hn; subst; simpl in *; try congruence; left; reflexivity.
Qed.

Lemma cpl_pass_other : forall pm n out out', cpl_pass pm n -> pm <> PBad -> outw out out' ->
  pm_other n out <> PBad -> cpl_pass (pm_other pm out') (pm_other n out) /\ pm_other pm out' <> PBad.
Proof.
  intros pm n out out' Hc Hp Hw Hb.
  destruct out as [[[] o]|], out' as [[[] o']|]; simpl in Hw; try tauto; simpl in *.
  - destruct n; try congruence. destruct Hc as [E|[E1 E2]]; try congruence. subst pm.
    destruct Hw as [W1 W2]. destruct (is_val o) eqn:Eo, (is_val o') eqn:Eo'; unfold cpl_pass; split; auto; try discriminate;
    try (specialize (W1 eq_refl); subst; congruence); try (specialize (W2 eq_refl); congruence).
  - subst o'. destruct n; try congruence. destruct Hc as [E|[E1 E2]]; try congruence. subst pm.
    split; [left; reflexivity|discriminate].
Qed.

Lemma cpl_pass_nobad : forall pm n, cpl_pass pm n -> n <> PBad -> pm <> PBad.
Proof. intros pm n [E|[E1 E2]] H; subst; auto; discriminate. Qed.

Lemma mrun_noid : forall id evs m, (forall t, In t evs -> ev_id t = None) -> mrun id m evs = Some m.
Proof.
  induction evs; simpl; intros; auto. rewrite mstep_other.
  - apply IHevs. intros; apply H; auto.
  - intros i He. rewrite (H a) in He by auto. discriminate.
Qed.
Lemma only_ids_noid : forall ids evs, (forall t, In t evs -> ev_id t = None) -> only_ids ids evs.
Proof. intros ids evs H t i Hin He. rewrite (H t Hin) in He. discriminate. Qed.

(* ---- transform ------------------------------------------------------------------------------------------- *)
Definition tr_o (f : fn) (o : outcome) : outcome := snd (tr_out f o).

Definition G_tr (f : fn) (G : sst -> Prop) (st : sst) : Prop :=
  match st with
  | Node h pm (BUn KTr si) => cpl_pass pm (pm_of si) /\ pm <> PBad /\ h = map (tr_o f) (hist_of si) /\ G si
  | _ => False
  end.

Lemma tr_out_noid : forall f o t, In t (fst (tr_out f o)) -> ev_id t = None.
Proof. intros f o t H. destruct o; simpl in H; try tauto. destruct H as [H|[]]. subst. reflexivity. Qed.

Lemma tr_weak : forall f o, weak o (tr_o f o).
Proof.
  intros f o. unfold weak, tr_o. destruct o; simpl; split; auto; try congruence.
Qed.

Lemma tr_wrap_facts : forall f r,
  b_st (tr_wrap f r) = BUn KTr (r_st r) /\
  outw (r_out r) (b_out (tr_wrap f r)) /\
  kn (b_out (tr_wrap f r)) = map (tr_o f) (kn (r_out r)) /\
  (exists ev2, b_ev (tr_wrap f r) = r_ev r ++ ev2 /\ forall t, In t ev2 -> ev_id t = None) /\
  b_fired (tr_wrap f r) = r_fired r.
Proof.
  intros f r. unfold tr_wrap. destruct (r_out r) as [[[] o]|] eqn:E; simpl.
  - destruct (tr_out f o) as [ev2 o'] eqn:Et. simpl. repeat split; auto.
    + pose proof (tr_weak f o) as W. unfold tr_o in W. rewrite Et in W. apply W.
    + pose proof (tr_weak f o) as W. unfold tr_o in W. rewrite Et in W. apply W.
    + unfold tr_o. rewrite Et. reflexivity.
    + exists ev2. split; auto. intros t Hin. apply (tr_out_noid f o). rewrite Et. auto.
  - repeat split; auto. exists []. rewrite app_nil_r. split; auto. intros t [].
  - repeat split; auto. exists []. rewrite app_nil_r. split; auto. intros t [].
Qed.

(* what every entry point of transform does with the result r of the corresponding entry point of the
   child, started in child state si *)
Lemma tr_step : forall f G ms ids si r h pm pm' pmi',
  ok G ms ids si r ->
  hist_of (r_st r) = hist_of si ++ kn (r_out r) ->
  h = map (tr_o f) (hist_of si) ->
  pm_of (r_st r) = pmi' ->
  cpl_pass pm' pmi' -> pm' <> PBad ->
  ok (G_tr f G) (ms_un ms) ids (Node h pm (BUn KTr si))
     (lift h pm' (tr_wrap f r)).
Proof.
  intros f G ms ids si r h pm pm' pmi' (HG & Hm & Hi) Hh Hh0 Hp Hc Hb.
  destruct (tr_wrap_facts f r) as (Hs & Hw & Hk & (ev2 & He & Hn) & Hf).
  unfold ok, lift. simpl. rewrite Hs. simpl. split; [|split].
  - rewrite Hp. repeat split; auto. rewrite Hk, Hh, map_app. congruence.
  - intros id. rewrite He. eapply mrun_app_some. apply Hm. apply mrun_noid; auto.
  - rewrite He. apply only_ids_app; auto. apply only_ids_noid; auto.
Qed.

Lemma tr_spec : forall f I G ms ids, spec I G ms ids -> spec (wrap (tr_ops f I)) (G_tr f G) (ms_un ms) ids.
Proof.
  intros f I G ms ids S. pose proof (sp_laws _ _ _ _ S) as L. constructor.
  - apply wrap_wlaws.
  - intros [h pm bd] H. destruct bd; simpl in H; try tauto. destruct k; tauto.
  - simpl. destruct (wl_init _ L) as [Hh Hp]. rewrite Hh, Hp. repeat split; auto. left; auto. discriminate.
    apply (sp_init _ _ _ _ S).
  - intros id. simpl. apply (sp_ms_init _ _ _ _ S).
  - intros [h pm bd] id Hn. simpl. destruct bd; auto. apply (sp_ms_ids _ _ _ _ S); auto.
  - (* next *)
    intros [h pm bd] en H Hl. destruct bd; simpl in H; try tauto. destruct k; try tauto.
    destruct H as (Hc & Hb & Hh & HG). simpl in Hl. simpl.
    assert (En : pm_of inner = pm) by (destruct Hc as [E|[E1 E2]]; [auto|destruct Hl; congruence]).
    pose proof (sp_next _ _ _ _ S inner en HG (ltac:(rewrite En; auto))) as Hok.
    destruct (wl_next _ L inner en) as [Lh Lp].
    pose proof (sp_nobad _ _ _ _ S _ (proj1 Hok)) as Hnb. rewrite Lp in Hnb.
    destruct (tr_wrap_facts f (o_next I inner en)) as (_ & Hw & _).
    destruct (cpl_pass_next pm (pm_of inner) _ _ Hc Hl Hw Hnb) as [Hc' _].
    eapply tr_step; eauto.
    eapply cpl_pass_nobad; eauto.
  - (* clean *)
    intros [h pm bd] H Hl. destruct bd; simpl in H; try tauto. destruct k; try tauto.
    destruct H as (Hc & Hb & Hh & HG). simpl in Hl. simpl.
    assert (En : pm_of inner = PIdle \/ pm_of inner = PEnded) by (destruct Hc as [E|[E1 E2]]; subst; auto).
    pose proof (sp_clean _ _ _ _ S inner HG En) as Hok.
    destruct (wl_clean _ L inner) as [Lh Lp].
    pose proof (sp_nobad _ _ _ _ S _ (proj1 Hok)) as Hnb. rewrite Lp in Hnb.
    destruct (tr_wrap_facts f (o_clean I inner)) as (_ & Hw & _).
    destruct (cpl_pass_clean pm (pm_of inner) _ _ Hc Hl Hw Hnb) as [Hc' _].
    eapply tr_step; eauto.
    eapply cpl_pass_nobad; eauto.
  - (* stop *)
    intros [h pm bd] H. destruct bd; simpl in H; try tauto. destruct k; try tauto.
    destruct H as (Hc & Hb & Hh & HG). simpl.
    pose proof (sp_stop _ _ _ _ S inner HG) as Hok. destruct (wl_stop _ L inner) as [Lh Lp].
    pose proof (sp_nobad _ _ _ _ S _ (proj1 Hok)) as Hnb. rewrite Lp in Hnb.
    destruct (tr_wrap_facts f (o_stop I inner)) as (_ & Hw & _).
    destruct (cpl_pass_other pm (pm_of inner) _ _ Hc Hb Hw Hnb) as [Hc' Hb'].
    eapply tr_step; eauto.
  - (* leaf *)
    intros [h pm bd] tg o H. destruct bd; simpl in H; try tauto. destruct k; try tauto.
    destruct H as (Hc & Hb & Hh & HG). simpl.
    pose proof (sp_leaf _ _ _ _ S inner tg o HG) as Hok. destruct (wl_leaf _ L inner tg o) as [Lh Lp].
    destruct (o_leaf I inner tg o) as [r hit] eqn:E. simpl in *.
    pose proof (sp_nobad _ _ _ _ S _ (proj1 Hok)) as Hnb. rewrite Lp in Hnb.
    destruct (tr_wrap_facts f r) as (_ & Hw & _).
    destruct (cpl_pass_other pm (pm_of inner) _ _ Hc Hb Hw Hnb) as [Hc' Hb'].
    eapply tr_step; eauto.
  - (* flush *)
    intros [h pm bd] H. destruct bd; simpl in H; try tauto. destruct k; try tauto.
    destruct H as (Hc & Hb & Hh & HG). simpl.
    pose proof (sp_flush _ _ _ _ S inner HG) as Hok. destruct (wl_flush _ L inner) as [Lh Lp].
    pose proof (sp_nobad _ _ _ _ S _ (proj1 Hok)) as Hnb. rewrite Lp in Hnb.
    destruct (tr_wrap_facts f (o_flush I inner)) as (_ & Hw & _).
    destruct (cpl_pass_other pm (pm_of inner) _ _ Hc Hb Hw Hnb) as [Hc' Hb'].
    eapply tr_step; eauto.
  - (* arm *)
    intros [h pm bd] H. destruct bd; simpl in H; try tauto. destruct k; try tauto.
    destruct H as (Hc & Hb & Hh & HG). simpl. destruct (wl_arm _ L inner) as [Ah Ap].
    destruct (sp_arm _ _ _ _ S inner HG) as [HG' Hms]. rewrite Ah, Ap. repeat split; auto.
  - (* stop_done *)
    intros [h pm bd]. simpl. destruct bd; simpl; auto. destruct k; simpl; auto.
    unfold tr_wrap. destruct (sp_stop_done _ _ _ _ S inner) as [E|E]; rewrite E; simpl; auto.
  - (* budget *)
    intros [h pm bd] en v. simpl. destruct bd; simpl; try congruence. destruct k; simpl; try congruence.
    unfold tr_wrap. destruct (r_out (o_next I inner en)) as [[[] o]|] eqn:E; simpl; try congruence.
    destruct o; simpl; try congruence. intros _. eapply (sp_blaw _ _ _ _ S); eauto.
  - (* quiet *)
    intros [h pm bd] H Hq id. destruct bd; simpl in H; try tauto. destruct k; try tauto.
    destruct H as (Hc & Hb & Hh & HG). simpl in *. apply (sp_quiet _ _ _ _ S); auto.
    destruct Hc as [E|[E1 E2]]; [rewrite <- E; auto|destruct Hq; congruence].
Qed.
