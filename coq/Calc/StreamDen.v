(* Pure list facts relating histories (outcome sequences) to the denotation functions of StreamSpec.v. *)
From Coq Require Import ZArith List Bool Arith Lia.
From V Require Import Calc.StreamDefs Calc.StreamSpec Calc.StreamInv Calc.StreamInvTr Calc.StreamInvFi.
Import ListNotations.
Import SCalc.
Local Open Scope Z_scope.

(* ---- transform ------------------------------------------------------------------------------------------- *)
Lemma tr_vc : forall f hC, vc (map (tr_o f) hC) = map_until f (vc hC).
Proof.
  intros f. induction hC as [|o t IH]; simpl; auto.
  destruct o as [v| |]; simpl; auto. unfold tr_o at 1. simpl.
  destruct (fn_apply f v); simpl; auto. f_equal. auto.
Qed.

Lemma map_until_prefix : forall f l D, prefix l D -> prefix (map_until f l) (map_until f D).
Proof.
  intros f l D H. induction H; simpl. constructor.
  destruct (fn_apply f x); constructor; auto.
Qed.

Lemma tr_exact : forall f hC D, prefix (vc hC) D -> has_term hC = false ->
  has_term (map (tr_o f) hC) = true -> map_until f (vc hC) = map_until f D.
Proof.
  intros f. induction hC as [|o t IH]; intros D Hp Hn Ht; simpl in *; try congruence.
  destruct o as [v| |]; simpl in *; try congruence.
  inversion Hp; subst. simpl. unfold tr_o in Ht at 1. simpl in Ht.
  destruct (fn_apply f v); simpl in *; auto. f_equal. apply IH; auto.
Qed.

(* ---- filter ---------------------------------------------------------------------------------------------- *)
Lemma fi_vc : forall p hC, vc (flat_map (fi_o p) hC) = filter_until p (vc hC).
Proof.
  intros p. induction hC as [|o t IH]; simpl; auto.
  destruct o as [v| |]; simpl; auto.
  destruct (pred_apply p v) as [[|]|e]; simpl; auto. f_equal; auto.
Qed.

Lemma filter_until_prefix : forall p l D, prefix l D -> prefix (filter_until p l) (filter_until p D).
Proof.
  intros p l D H. induction H; simpl. constructor.
  destruct (pred_apply p x) as [[|]|e]; auto; constructor; auto.
Qed.

Lemma has_term_flat : forall p hC, has_term hC = true -> has_term (flat_map (fi_o p) hC) = true.
Proof.
  intros p. induction hC as [|o t IH]; simpl; intros; try congruence.
  destruct o as [v| |]; simpl; auto.
  destruct (pred_apply p v) as [[|]|e]; simpl; auto.
Qed.

Lemma fi_exact : forall p hC D, prefix (vc hC) D -> has_term hC = false ->
  has_term (flat_map (fi_o p) hC) = true -> filter_until p (vc hC) = filter_until p D.
Proof.
  intros p. induction hC as [|o t IH]; intros D Hp Hn Ht; simpl in *; try congruence.
  destruct o as [v| |]; simpl in *; try congruence.
  inversion Hp; subst. simpl.
  destruct (pred_apply p v) as [[|]|e]; simpl in *; auto. f_equal. apply IH; auto.
Qed.

Lemma has_term_map_tr : forall f hC, has_term hC = true -> has_term (map (tr_o f) hC) = true.
Proof.
  intros f. induction hC as [|o t IH]; simpl; intros; try congruence.
  destruct o as [v| |]; simpl; auto. unfold tr_o at 1. simpl. destruct (fn_apply f v); simpl; auto.
Qed.

(* ---- range / single ----------------------------------------------------------------------------------------- *)
Lemma vc_vals_dones : forall l j, vc (map OVal l ++ repeat ODone j) = l.
Proof. induction l; simpl; intros. destruct j; reflexivity. f_equal; auto. Qed.

Lemma has_term_vals_dones : forall l j, has_term (map OVal l ++ repeat ODone j) = negb (Nat.eqb j 0).
Proof. induction l; simpl; intros; auto. destruct j; reflexivity. Qed.

Lemma zrange_prefix : forall k n a, (k <= n)%nat -> prefix (zrange a k) (zrange a n).
Proof.
  induction k; intros n a H; simpl. constructor.
  destruct n; [lia|]. simpl. constructor. apply IHk. lia.
Qed.

(* the history of a source as the monitor sees it in the trace *)
Lemma mrun_hist : forall id evs m m', mrun id m evs = Some m' ->
  m_hist m' = m_hist m ++ flat_map (fun t => match t with TNextDone i _ o => if Nat.eqb i id then [o] else [] | _ => [] end) evs.
Proof.
  intros id. induction evs as [|t evs IH]; simpl; intros m m' H.
  - inversion H; subst. rewrite app_nil_r. reflexivity.
  - destruct (mstep id m t) as [m1|] eqn:E; try discriminate. rewrite (IH _ _ H).
    destruct t; simpl in *; try (inversion E; subst; reflexivity);
      destruct (Nat.eqb id0 id); try (inversion E; subst; simpl; rewrite ?app_nil_r; reflexivity);
      match type of E with (if ?b then _ else _) = _ => destruct b; inversion E; subst; simpl; rewrite <- ?app_assoc; reflexivity end.
Qed.

Lemma src_hist_tevs : forall tr id,
  src_hist tr id = flat_map (fun t => match t with TNextDone i _ o => if Nat.eqb i id then [o] else [] | _ => [] end) (tevs tr).
Proof.
  induction tr as [|x tr IH]; intros id; simpl; auto.
  destruct x; simpl; rewrite ?IH; auto.
Qed.
