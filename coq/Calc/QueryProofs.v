(* C12 on the sender calculus: receiver queries reach all children.
   Part 1 of this file is infrastructure shared with Calc/StopProofs.v: equation lemmas for
   [start]/[stop]/[leafev] (so that proofs never [simpl] the big functions), the specification of
   [conc_child_done]/[finish_conc], leaf identifiers and trace counting.
   Part 2 proves that every [TLeafStart] event of every run carries exactly the statically
   determined query answers ([static_q]). *)
From Coq Require Import ZArith List Bool Lia Arith.
From V Require Import Calc.CalcDefs.
Import ListNotations.
Import Calc.
Local Open Scope Z_scope.

(* ================================================================================================ *)
(* Part 1: shared infrastructure                                                                    *)
(* ================================================================================================ *)

Fixpoint leaf_ids (e : sexpr) : list nat :=
  match e with
  | Leaf id => [id]
  | LeafN id => [id]
  | Un _ s => leaf_ids s
  | Bin _ a b => leaf_ids a ++ leaf_ids b
  | _ => []
  end.

Definition is_unst (k : ukind) : bool := match k with UUnstoppable => true | _ => false end.

(* generic "destruct the scrutinee of some match in H" *)
Ltac bm H :=
  match type of H with
  | context[match ?x with _ => _ end] => destruct x eqn:?
  end.
Ltac bmg :=
  match goal with
  | |- context[match ?x with _ => _ end] => destruct x eqn:?
  end.
Ltac inv H := inversion H; subst; clear H.

(* ---- the pieces of start / stop / leafev, as separate definitions ----------------------------- *)

(* a sequential algorithm's first child completed with [oa] (events so far [tra]) *)
Definition seq_next (k : bkind) (b : sexpr) (ns : nst) (tra : list tev) (oa : outcome) : res :=
  match after_first k (n_env ns) oa with
  | inl o => (OFin, tra, Some o)
  | inr (en2, sv) =>
      let '(sb, trb, rb) := start b en2 in
      match rb with
      | None => (ONode (ns_set_saved (ns_set_ph ns PSecond) sv) OFin sb, tra ++ trb, None)
      | Some ob => (OFin, tra ++ trb, Some (after_second k sv ob))
      end
  end.

Definition start_seq (k : bkind) (a b : sexpr) (en : env) : res :=
  let '(sa, tra, ra) := start a en in
  match ra with
  | None => (ONode (mk_nst PFirst en) sa OFin, tra, None)
  | Some oa => seq_next k b (mk_nst PFirst en) tra oa
  end.

(* child b of a concurrent node completed with [ob]; [tr] = events so far *)
Definition conc_b_done (k : bkind) (a : sexpr) (ns : nst) (sa sb' : ost) (tr : list tev) (ob : outcome) : res :=
  let '(ns1, newly, fin) := conc_child_done k ns true ob in
  match fin with
  | Some _ => finish_conc k ns1 sa sb' tr fin false
  | None =>
      if newly then
        let '(sa', tra, ra) := stop a sa in
        match ra with
        | Some oa =>
            let '(ns2, _, fin2) := conc_child_done k ns1 false oa in
            finish_conc k ns2 sa' sb' (tr ++ tra) fin2 false
        | None => (ONode ns1 sa' sb', tr ++ tra, None)
        end
      else (ONode ns1 sa sb', tr, None)
  end.

(* child a of a concurrent node completed with [oa] *)
Definition conc_a_done (k : bkind) (b : sexpr) (ns : nst) (sa' sb : ost) (tr : list tev) (oa : outcome) : res :=
  let '(ns1, newly, fin) := conc_child_done k ns false oa in
  match fin with
  | Some _ => finish_conc k ns1 sa' sb tr fin false
  | None =>
      if newly then
        let '(sb', trb, rb) := stop b sb in
        match rb with
        | Some ob =>
            let '(ns2, _, fin2) := conc_child_done k ns1 true ob in
            finish_conc k ns2 sa' sb' (tr ++ trb) fin2 false
        | None => (ONode ns1 sa' sb', tr ++ trb, None)
        end
      else (ONode ns1 sa' sb, tr, None)
  end.

Definition conc_ns0 (en : env) : nst :=
  ns_set_own (ns_set_reg (mk_nst PBoth en) (negb (e_stopped en))) (e_stopped en).

Definition start_conc (k : bkind) (a b : sexpr) (en : env) : res :=
  let '(sa, tra, ra) := start a (env_own en (e_stopped en)) in
  let '(ns1, _, _) :=
      match ra with
      | Some oa => conc_child_done k (conc_ns0 en) false oa
      | None => (conc_ns0 en, false, None)
      end in
  let '(sb, trb, rb) := start b (env_own en (own_stop ns1)) in
  match rb with
  | None => (ONode ns1 sa sb, tra ++ trb, None)
  | Some ob => conc_b_done k a ns1 sa OFin (tra ++ trb) ob
  end.

Definition stopped_ns (ns : nst) : nst := ns_set_env ns (env_with_stop (n_env ns) true).

Definition stop_un_body (k : ukind) (s : sexpr) (ns : nst) (sc : ost) : res :=
  let '(sc', tr, r) := stop s sc in
  match r with
  | Some o => let (tr2, o') := un_result k o in (OFin, tr ++ tr2, Some o')
  | None => (ONode (stopped_ns ns) sc' OFin, tr, None)
  end.

Definition stop_seq1 (k : bkind) (a b : sexpr) (ns : nst) (sa sb : ost) : res :=
  let '(sa', tra, ra) := stop a sa in
  match ra with
  | None => (ONode (stopped_ns ns) sa' sb, tra, None)
  | Some oa => seq_next k b (stopped_ns ns) tra oa
  end.

Definition stop_seq2 (k : bkind) (b : sexpr) (ns : nst) (sa sb : ost) : res :=
  let '(sb', trb, rb) := stop b sb in
  match rb with
  | None => (ONode (stopped_ns ns) sa sb', trb, None)
  | Some ob => (OFin, trb, Some (after_second k (saved ns) ob))
  end.

Definition stop_conc (k : bkind) (a b : sexpr) (ns : nst) (sa sb : ost) : res :=
  let '(sb', trb, rb) := if bdone ns then (sb, [], None) else stop b sb in
  let '(ns2, _, fin1) :=
      match rb with
      | Some ob => conc_child_done k (ns_set_own (stopped_ns ns) true) true ob
      | None => (ns_set_own (stopped_ns ns) true, false, None)
      end in
  match fin1 with
  | Some _ => finish_conc k ns2 sa sb' trb fin1 (leaky k)
  | None =>
      let '(sa', tra, ra) := if adone ns2 then (sa, [], None) else stop a sa in
      let '(ns3, _, fin2) :=
          match ra with
          | Some oa => conc_child_done k ns2 false oa
          | None => (ns2, false, None)
          end in
      finish_conc k ns3 sa' sb' (trb ++ tra) fin2 (leaky k)
  end.

Definition leafev_un_body (k : ukind) (s : sexpr) (ns : nst) (sc : ost) (id : nat) (o : outcome) : res * bool :=
  let '((sc', tr, r), hit) := leafev s sc id o in
  match r with
  | Some oc => let (tr2, o') := un_result k oc in ((OFin, tr ++ tr2, Some o'), hit)
  | None => ((ONode ns sc' OFin, tr, None), hit)
  end.

Definition leafev_seq1 (k : bkind) (a b : sexpr) (ns : nst) (sa sb : ost) (id : nat) (o : outcome) : res * bool :=
  let '((sa', tra, ra), hit) := leafev a sa id o in
  match ra with
  | None => ((ONode ns sa' sb, tra, None), hit)
  | Some oa => (seq_next k b ns tra oa, hit)
  end.

Definition leafev_seq2 (k : bkind) (b : sexpr) (ns : nst) (sa sb : ost) (id : nat) (o : outcome) : res * bool :=
  let '((sb', trb, rb), hit) := leafev b sb id o in
  match rb with
  | None => ((ONode ns sa sb', trb, None), hit)
  | Some ob => ((OFin, trb, Some (after_second k (saved ns) ob)), hit)
  end.

Definition leafev_conc (k : bkind) (a b : sexpr) (ns : nst) (sa sb : ost) (id : nat) (o : outcome) : res * bool :=
  let '((sa', tra, ra), hita) := if adone ns then ((sa, [], None), false) else leafev a sa id o in
  if hita then
    match ra with
    | None => ((ONode ns sa' sb, tra, None), true)
    | Some oa => (conc_a_done k b ns sa' sb tra oa, true)
    end
  else
    let '((sb', trb, rb), hitb) := if bdone ns then ((sb, [], None), false) else leafev b sb id o in
    match rb with
    | None => ((ONode ns sa sb', trb, None), hitb)
    | Some ob => (conc_b_done k a ns sa sb' trb ob, hitb)
    end.

(* ---- equation lemmas ------------------------------------------------------------------------------ *)
Lemma start_un k s en :
  start (Un k s) en =
  let '(sc, tr, r) := start s (un_env k en) in
  match r with
  | Some o => let (tr2, o') := un_result k o in (OFin, tr ++ tr2, Some o')
  | None => (ONode (mk_nst PFirst en) sc OFin, tr, None)
  end.
Proof. reflexivity. Qed.

Lemma start_bin_seq k a b en : is_seq k = true -> start (Bin k a b) en = start_seq k a b en.
Proof. destruct k; intros H; try discriminate H; reflexivity. Qed.

Ltac bmall := repeat bmg.

Lemma start_bin_conc k a b en : is_seq k = false -> start (Bin k a b) en = start_conc k a b en.
Proof.
  intros H.
  assert (E : start (Bin k a b) en =
    let ns0 := conc_ns0 en in
    let '(sa, tra, ra) := start a (env_own en (own_stop ns0)) in
    let '(ns1, _, _) :=
        match ra with
        | Some oa => conc_child_done k ns0 false oa
        | None => (ns0, false, None)
        end in
    let '(sb, trb, rb) := start b (env_own en (own_stop ns1)) in
    match rb with
    | None => (ONode ns1 sa sb, tra ++ trb, None)
    | Some ob =>
        let '(ns2, newly, fin) := conc_child_done k ns1 true ob in
        match fin with
        | Some _ => finish_conc k ns2 sa OFin (tra ++ trb) fin false
        | None =>
            if newly then
              let '(sa', tra2, ra2) := stop a sa in
              match ra2 with
              | Some oa =>
                  let '(ns3, _, fin3) := conc_child_done k ns2 false oa in
                  finish_conc k ns3 sa' OFin (tra ++ trb ++ tra2) fin3 false
              | None => (ONode ns2 sa' OFin, tra ++ trb ++ tra2, None)
              end
            else (ONode ns2 sa OFin, tra ++ trb, None)
        end
    end).
  { destruct k; try discriminate H; reflexivity. }
  rewrite E. clear E. unfold start_conc, conc_b_done. cbv zeta.
  change (own_stop (conc_ns0 en)) with (e_stopped en).
  destruct (start a (env_own en (e_stopped en))) as [[sa tra] ra].
  destruct (match ra with Some oa => conc_child_done k (conc_ns0 en) false oa | None => (conc_ns0 en, false, None) end)
    as [[ns1 x1] x2].
  destruct (start b (env_own en (own_stop ns1))) as [[sb trb] rb].
  destruct rb as [ob|]; [|reflexivity].
  destruct (conc_child_done k ns1 true ob) as [[ns2 newly] fin].
  destruct fin; [reflexivity|]. destruct newly; [|reflexivity].
  destruct (stop a sa) as [[sa' tra2] ra2].
  destruct ra2 as [oa|]; rewrite app_assoc; reflexivity.
Qed.

Lemma stop_un_unst s ns sc sb :
  stop (Un UUnstoppable s) (ONode ns sc sb) = (ONode ns sc sb, [], None).
Proof. reflexivity. Qed.

Lemma stop_un k s ns sc sb : is_unst k = false ->
  stop (Un k s) (ONode ns sc sb) = stop_un_body k s ns sc.
Proof. destruct k; intros H; try discriminate H; reflexivity. Qed.

Lemma stop_bin k a b ns sa sb :
  stop (Bin k a b) (ONode ns sa sb) =
  if is_seq k then
    match ph ns with
    | PFirst => stop_seq1 k a b ns sa sb
    | _ => stop_seq2 k b ns sa sb
    end
  else if own_stop ns then (ONode (stopped_ns ns) sa sb, [], None)
  else stop_conc k a b ns sa sb.
Proof. destruct k; reflexivity. Qed.

Lemma leafev_un k s ns sc sb id o :
  leafev (Un k s) (ONode ns sc sb) id o = leafev_un_body k s ns sc id o.
Proof. reflexivity. Qed.

Definition leafev_bin_orig (k : bkind) (a b : sexpr) (ns : nst) (sa sb : ost) (id : nat) (o : outcome) : res * bool :=
      if is_seq k then
        match ph ns with
        | PFirst =>
            let '((sa', tra, ra), hit) := leafev a sa id o in
            match ra with
            | None => ((ONode ns sa' sb, tra, None), hit)
            | Some oa =>
                match after_first k (n_env ns) oa with
                | inl o' => ((OFin, tra, Some o'), hit)
                | inr (en2, sv) =>
                    let '(sb', trb, rb) := start b en2 in
                    match rb with
                    | None => ((ONode (ns_set_saved (ns_set_ph ns PSecond) sv) OFin sb', tra ++ trb, None), hit)
                    | Some ob => ((OFin, tra ++ trb, Some (after_second k sv ob)), hit)
                    end
                end
            end
        | _ =>
            let '((sb', trb, rb), hit) := leafev b sb id o in
            match rb with
            | None => ((ONode ns sa sb', trb, None), hit)
            | Some ob => ((OFin, trb, Some (after_second k (saved ns) ob)), hit)
            end
        end
      else
        let '((sa', tra, ra), hita) := if adone ns then ((sa, [], None), false) else leafev a sa id o in
        if hita then
          match ra with
          | None => ((ONode ns sa' sb, tra, None), true)
          | Some oa =>
              let '(ns1, newly, fin) := conc_child_done k ns false oa in
              match fin with
              | Some _ => (finish_conc k ns1 sa' sb tra fin false, true)
              | None =>
                  if newly then
                    let '(sb', trb, rb) := stop b sb in
                    match rb with
                    | Some ob =>
                        let '(ns2, _, fin2) := conc_child_done k ns1 true ob in
                        (finish_conc k ns2 sa' sb' (tra ++ trb) fin2 false, true)
                    | None => ((ONode ns1 sa' sb', tra ++ trb, None), true)
                    end
                  else ((ONode ns1 sa' sb, tra, None), true)
              end
          end
        else
          let '((sb', trb, rb), hitb) := if bdone ns then ((sb, [], None), false) else leafev b sb id o in
          match rb with
          | None => ((ONode ns sa sb', trb, None), hitb)
          | Some ob =>
              let '(ns1, newly, fin) := conc_child_done k ns true ob in
              match fin with
              | Some _ => (finish_conc k ns1 sa sb' trb fin false, hitb)
              | None =>
                  if newly then
                    let '(sa', tra, ra) := stop a sa in
                    match ra with
                    | Some oa =>
                        let '(ns2, _, fin2) := conc_child_done k ns1 false oa in
                        (finish_conc k ns2 sa' sb' (trb ++ tra) fin2 false, hitb)
                    | None => ((ONode ns1 sa' sb', trb ++ tra, None), hitb)
                    end
                  else ((ONode ns1 sa sb', trb, None), hitb)
              end
          end.

Lemma leafev_bin k a b ns sa sb id o :
  leafev (Bin k a b) (ONode ns sa sb) id o =
  if is_seq k then
    match ph ns with
    | PFirst => leafev_seq1 k a b ns sa sb id o
    | _ => leafev_seq2 k b ns sa sb id o
    end
  else leafev_conc k a b ns sa sb id o.
Proof.
  transitivity (leafev_bin_orig k a b ns sa sb id o).
  { destruct k; reflexivity. }
  unfold leafev_bin_orig, leafev_seq1, leafev_seq2, leafev_conc, seq_next, conc_a_done, conc_b_done.
  repeat bmg; reflexivity.
Qed.

(* states that do not fit the expression: nothing happens *)
Lemma stop_fin e : stop e OFin = (OFin, [], None).
Proof. destruct e; reflexivity. Qed.
Lemma leafev_fin e id o : leafev e OFin id o = ((OFin, [], None), false).
Proof. destruct e; reflexivity. Qed.

(* ---- conc_child_done / finish_conc ------------------------------------------------------------- *)
Lemma ccd_spec k ns i o ns2 newly fin :
  conc_child_done k ns i o = (ns2, newly, fin) ->
  n_env ns2 = n_env ns /\ ph ns2 = ph ns /\ reg ns2 = reg ns /\
  adone ns2 = (if i then adone ns else true) /\
  bdone ns2 = (if i then true else bdone ns) /\
  own_stop ns2 = (own_stop ns || newly)%bool /\
  (newly = true -> own_stop ns = false) /\
  (fin = None <-> (adone ns2 && bdone ns2)%bool = false).
Proof.
  unfold conc_child_done. intros H.
  set (v := match o with OVal v => v | _ => 0 end) in H.
  set (nw := match k with
             | BWhenAll => match o with OVal _ => false | _ => negb (own_stop ns) end
             | _ => negb (own_stop ns) end) in H.
  set (sv := match k with
             | BWhenAll => match saved ns, o with
                           | None, OVal _ => None
                           | None, _ => Some o
                           | Some s, _ => Some s
                           end
             | _ => if i then saved ns else Some o end) in H.
  set (n2 := ns_set_saved (ns_set_own (ns_child_done ns i v) (own_stop ns || nw)) sv) in H.
  assert (E1 : n_env n2 = n_env ns) by (destruct i; reflexivity).
  assert (E2 : ph n2 = ph ns) by (destruct i; reflexivity).
  assert (E3 : reg n2 = reg ns) by (destruct i; reflexivity).
  assert (E4 : adone n2 = if i then adone ns else true) by (destruct i; reflexivity).
  assert (E5 : bdone n2 = if i then true else bdone ns) by (destruct i; reflexivity).
  assert (E6 : own_stop n2 = (own_stop ns || nw)%bool) by (destruct i; reflexivity).
  assert (E7 : nw = true -> own_stop ns = false).
  { unfold nw. destruct k, o, (own_stop ns); simpl; congruence. }
  clearbody n2 nw.
  destruct (adone n2 && bdone n2)%bool eqn:Hc; inv H;
    (repeat split; try assumption; try congruence; intros; try discriminate).
Qed.

Lemma ccd_newly k ns i o :
  own_stop ns = false ->
  (k = BStopWhen \/ (k = BWhenAll /\ forall v, o <> OVal v)) ->
  exists ns2 fin, conc_child_done k ns i o = (ns2, true, fin).
Proof.
  intros Hown Hk. unfold conc_child_done.
  assert (N : match k with
              | BWhenAll => match o with OVal _ => false | _ => negb (own_stop ns) end
              | _ => negb (own_stop ns) end = true).
  { rewrite Hown. destruct Hk as [->|[-> Hv]]; [reflexivity|].
    destruct o; try reflexivity. exfalso. eapply Hv. reflexivity. }
  rewrite N. bmg; eauto.
Qed.

Lemma finish_some k ns sa sb tr o :
  finish_conc k ns sa sb tr (Some o) false = (OFin, tr ++ [], Some o).
Proof. reflexivity. Qed.
Lemma finish_some_leaky k ns sa sb tr o :
  finish_conc k ns sa sb tr (Some o) (leaky k) = (OFin, tr ++ [], Some o).
Proof. reflexivity. Qed.
Lemma finish_none k ns sa sb tr l :
  finish_conc k ns sa sb tr None l = (ONode ns sa sb, tr, None).
Proof. reflexivity. Qed.

(* un_result only ever emits calls of user callables *)
Definition is_call (t : tev) : Prop := match t with TCall _ _ => True | _ => False end.
Lemma un_result_calls k o tr2 o' : un_result k o = (tr2, o') -> Forall is_call tr2.
Proof.
  unfold un_result, apply_fn. intros H.
  destruct k, o; inv H; repeat constructor.
Qed.

Lemma finish_cases k ns sa sb tr fin l st tr' r :
  finish_conc k ns sa sb tr fin l = (st, tr', r) -> l = false ->
  (exists o, fin = Some o /\ st = OFin /\ tr' = tr ++ [] /\ r = Some o) \/
  (fin = None /\ st = ONode ns sa sb /\ tr' = tr /\ r = None).
Proof.
  intros H ->. destruct fin as [o|].
  - rewrite finish_some in H. inv H. left. eauto.
  - rewrite finish_none in H. inv H. right. auto.
Qed.

Lemma nodup_app_disj (A : Type) (l1 l2 : list A) x : NoDup (l1 ++ l2) -> In x l1 -> In x l2 -> False.
Proof.
  induction l1 as [|y l1 IH]; simpl; intros ND H1 H2; [contradiction|].
  inversion ND as [|? ? Hn ND']; subst. destruct H1 as [->|H1].
  - apply Hn. apply in_or_app. right. exact H2.
  - exact (IH ND' H1 H2).
Qed.

Lemma nodup_app_l (A : Type) (l1 l2 : list A) : NoDup (l1 ++ l2) -> NoDup l1.
Proof.
  induction l1 as [|y l1 IH]; simpl; intros ND; [constructor|].
  inversion ND as [|? ? Hn ND']; subst. constructor; auto.
  intros H. apply Hn. apply in_or_app. auto.
Qed.
Lemma nodup_app_r (A : Type) (l1 l2 : list A) : NoDup (l1 ++ l2) -> NoDup l2.
Proof.
  induction l1 as [|y l1 IH]; simpl; intros ND; [exact ND|].
  inversion ND; subst. auto.
Qed.

(* whole runs: invariants are lifted over scripts with this *)
Lemma exec_snoc e pre script ev : exec e pre (script ++ [ev]) = run_ev e (exec e pre script) ev.
Proof. unfold exec. rewrite fold_left_app. reflexivity. Qed.
Lemma exec_app e pre s1 s2 : exec e pre (s1 ++ s2) = fold_left (run_ev e) s2 (exec e pre s1).
Proof. unfold exec. apply fold_left_app. Qed.
Lemma exec_invariant e pre (I : run_state -> Prop) :
  I (run_start e pre) -> (forall rs ev, I rs -> I (run_ev e rs ev)) ->
  forall script, I (exec e pre script).
Proof.
  intros H0 Hs script. unfold exec. generalize (run_start e pre) H0.
  induction script as [|ev script IH]; intros rs Hrs; simpl; [exact Hrs|].
  apply IH. apply Hs. exact Hrs.
Qed.

(* ================================================================================================ *)
(* Part 2: C12 - queries                                                                            *)
(* ================================================================================================ *)

(* what a leaf can ask its receiver, apart from the stop state: q0, q1, stop_possible *)
Definition qsum := (Z * Z * bool)%type.
Definition summ (en : env) : qsum := (e_q0 en, e_q1 en, e_stoppable en).

(* the documented overrides *)
Definition un_sum (k : ukind) (sm : qsum) : qsum :=
  match k with
  | UWithQ O v => (v, snd (fst sm), snd sm)
  | UWithQ (S _) v => (fst (fst sm), v, snd sm)
  | UUnstoppable => (fst (fst sm), snd (fst sm), false)
  | _ => sm
  end.
Definition own_sum (sm : qsum) : qsum := (fst (fst sm), snd (fst sm), true).
Definition bin_sum (k : bkind) (sm : qsum) : qsum := if is_seq k then sm else own_sum sm.

Fixpoint static_q_from (e : sexpr) (sm : qsum) (id : nat) : option qsum :=
  match e with
  | Leaf id' => if Nat.eqb id id' then Some sm else None
  | LeafN id' => if Nat.eqb id id' then Some sm else None
  | Un k s => static_q_from s (un_sum k sm) id
  | Bin k a b =>
      match static_q_from a (bin_sum k sm) id with
      | Some x => Some x
      | None => static_q_from b (bin_sum k sm) id
      end
  | _ => None
  end.

Definition root_sum : qsum := (0, 0, true).
Definition static_q (e : sexpr) (id : nat) : option (Z * Z * bool) := static_q_from e root_sum id.

(* the same as a relation: the path from the root to the leaf, folding the overrides *)
Inductive sees : sexpr -> qsum -> nat -> qsum -> Prop :=
| sees_leaf id sm : sees (Leaf id) sm id sm
| sees_leafn id sm : sees (LeafN id) sm id sm
| sees_un k s sm id x : sees s (un_sum k sm) id x -> sees (Un k s) sm id x
| sees_bin_a k a b sm id x : sees a (bin_sum k sm) id x -> sees (Bin k a b) sm id x
| sees_bin_b k a b sm id x : sees b (bin_sum k sm) id x -> sees (Bin k a b) sm id x.

Lemma static_q_sees e : forall sm id x, static_q_from e sm id = Some x -> sees e sm id x.
Proof.
  induction e; intros sm i x H; simpl in H; try discriminate.
  - destruct (Nat.eqb i id) eqn:E; inv H. apply Nat.eqb_eq in E. subst. constructor.
  - destruct (Nat.eqb i id) eqn:E; inv H. apply Nat.eqb_eq in E. subst. constructor.
  - constructor. auto.
  - destruct (static_q_from e1 (bin_sum k sm) i) eqn:E.
    + inv H. apply sees_bin_a. auto.
    + apply sees_bin_b. auto.
Qed.

Lemma sees_in e sm id x : sees e sm id x -> In id (leaf_ids e).
Proof.
  induction 1; simpl; auto; apply in_or_app; auto.
Qed.

Lemma static_in e : forall sm id x, static_q_from e sm id = Some x -> In id (leaf_ids e).
Proof. intros. eapply sees_in. eapply static_q_sees. eassumption. Qed.

Lemma static_notin e sm id : ~ In id (leaf_ids e) -> static_q_from e sm id = None.
Proof.
  intros H. destruct (static_q_from e sm id) eqn:E; [|reflexivity].
  exfalso. apply H. eapply static_in. eassumption.
Qed.

(* with unique ids the relation is functional and coincides with the function *)
Lemma sees_static e : NoDup (leaf_ids e) -> forall sm id x, sees e sm id x -> static_q_from e sm id = Some x.
Proof.
  intros ND sm id x H. induction H; simpl in *.
  - rewrite Nat.eqb_refl. reflexivity.
  - rewrite Nat.eqb_refl. reflexivity.
  - auto.
  - rewrite IHsees; [reflexivity|]. eapply nodup_app_l. eassumption.
  - rewrite static_notin.
    + apply IHsees. eapply nodup_app_r. eassumption.
    + intros Hin. eapply nodup_app_disj; [exact ND|exact Hin|]. eapply sees_in. eassumption.
Qed.

(* ---- environments ---------------------------------------------------------------------------------- *)
(* a token that cannot be stopped is not stopped *)
Definition good_env (en : env) : Prop := e_stoppable en = false -> e_stopped en = false.

Lemma summ_un k en : summ (un_env k en) = un_sum k (summ en).
Proof. destruct k; try reflexivity. destruct q; reflexivity. Qed.
Lemma good_un k en : good_env en -> good_env (un_env k en).
Proof. unfold good_env. destruct k; simpl; auto. destruct q; simpl; auto. Qed.
Lemma summ_own en o : summ (env_own en o) = own_sum (summ en).
Proof. reflexivity. Qed.
Lemma good_own en o : good_env (env_own en o).
Proof. unfold good_env. simpl. discriminate. Qed.
Lemma after_first_env k en o en2 sv :
  after_first k en o = inr (en2, sv) -> en2 = en \/ exists v, en2 = env_bind en v.
Proof. unfold after_first. intros H. destruct k, o; inv H; eauto. Qed.
Lemma after_first_summ k en o en2 sv :
  after_first k en o = inr (en2, sv) -> summ en2 = summ en /\ (good_env en -> good_env en2).
Proof. intros H. apply after_first_env in H. destruct H as [->|[v ->]]; split; auto. Qed.

Definition nok (sm : qsum) (ns : nst) : Prop := summ (n_env ns) = sm /\ good_env (n_env ns).
Lemma nok_env sm ns ns' : n_env ns' = n_env ns -> nok sm ns -> nok sm ns'.
Proof. unfold nok. intros ->. auto. Qed.
Lemma nok_stopped sm ns : snd sm = true -> nok sm ns -> nok sm (stopped_ns ns).
Proof.
  unfold nok, stopped_ns, good_env. intros Hs [H1 H2]. simpl. split.
  - exact H1.
  - intros H. exfalso. rewrite <- H1 in Hs. simpl in Hs. congruence.
Qed.

(* every node of the state was started with the statically determined answers *)
Fixpoint qwf (e : sexpr) (sm : qsum) (st : ost) : Prop :=
  match e, st with
  | Un k s, ONode ns sc _ => nok sm ns /\ qwf s (un_sum k sm) sc
  | Bin k a b, ONode ns sa sb => nok sm ns /\ qwf a (bin_sum k sm) sa /\ qwf b (bin_sum k sm) sb
  | _, _ => True
  end.
Lemma qwf_fin e sm : qwf e sm OFin.
Proof. destruct e; exact I. Qed.
Lemma qwf_leaf e sm c s : qwf e sm (OLeaf c s).
Proof. destruct e; exact I. Qed.
Lemma qwf_un k s sm ns sc sb : qwf (Un k s) sm (ONode ns sc sb) = (nok sm ns /\ qwf s (un_sum k sm) sc).
Proof. reflexivity. Qed.
Lemma qwf_bin k a b sm ns sa sb :
  qwf (Bin k a b) sm (ONode ns sa sb) = (nok sm ns /\ qwf a (bin_sum k sm) sa /\ qwf b (bin_sum k sm) sb).
Proof. reflexivity. Qed.
#[global] Hint Resolve qwf_fin qwf_leaf : calc.

(* what an event may be *)
Definition evok (e : sexpr) (sm : qsum) (t : tev) : Prop :=
  match t with
  | TLeafStart id s sp a b => sees e sm id (a, b, sp) /\ (sp = false -> s = false)
  | TLeafStop id => In id (leaf_ids e)
  | TCall _ _ => True
  | TLeak _ => False
  end.
Definition trok (e : sexpr) (sm : qsum) (tr : list tev) : Prop := Forall (evok e sm) tr.

Lemma trok_nil e sm : trok e sm [].
Proof. constructor. Qed.
Lemma trok_app e sm t1 t2 : trok e sm t1 -> trok e sm t2 -> trok e sm (t1 ++ t2).
Proof. intros. apply Forall_app. auto. Qed.
Lemma trok_calls e sm tr : Forall is_call tr -> trok e sm tr.
Proof. apply Forall_impl. intros t. destruct t; simpl; tauto. Qed.
Lemma trok_un k s sm tr : trok s (un_sum k sm) tr -> trok (Un k s) sm tr.
Proof.
  apply Forall_impl. intros t. destruct t; simpl; try tauto.
  intros [H1 H2]. split; [constructor|]; assumption.
Qed.
Lemma trok_bin_a k a b sm tr : trok a (bin_sum k sm) tr -> trok (Bin k a b) sm tr.
Proof.
  apply Forall_impl. intros t. destruct t; simpl; try tauto.
  - intros [H1 H2]. split; [apply sees_bin_a|]; assumption.
  - intros H. apply in_or_app. auto.
Qed.
Lemma trok_bin_b k a b sm tr : trok b (bin_sum k sm) tr -> trok (Bin k a b) sm tr.
Proof.
  apply Forall_impl. intros t. destruct t; simpl; try tauto.
  - intros [H1 H2]. split; [apply sees_bin_b|]; assumption.
  - intros H. apply in_or_app. auto.
Qed.
#[global] Hint Resolve trok_nil trok_app : calc.

Definition StartQ (e : sexpr) : Prop := forall en st tr r,
  start e en = (st, tr, r) -> good_env en -> qwf e (summ en) st /\ trok e (summ en) tr.
Definition StopQ (e : sexpr) : Prop := forall sm st st' tr r,
  stop e st = (st', tr, r) -> snd sm = true -> qwf e sm st -> qwf e sm st' /\ trok e sm tr.
Definition LeafevQ (e : sexpr) : Prop := forall sm st id o st' tr r hit,
  leafev e st id o = (st', tr, r, hit) -> qwf e sm st -> qwf e sm st' /\ trok e sm tr.

Lemma finish_q k a b sm ns sa sb tr fin l st tr' r :
  finish_conc k ns sa sb tr fin l = (st, tr', r) -> l = false ->
  nok sm ns -> qwf a (bin_sum k sm) sa -> qwf b (bin_sum k sm) sb -> trok (Bin k a b) sm tr ->
  qwf (Bin k a b) sm st /\ trok (Bin k a b) sm tr'.
Proof.
  intros H Hl Hn Ha Hb Ht. apply finish_cases in H; [|exact Hl].
  destruct H as [(o & -> & -> & -> & ->)|(-> & -> & -> & ->)].
  - split; auto with calc.
  - rewrite qwf_bin. auto.
Qed.

Lemma seq_next_q k a b sm ns tra oa st tr r :
  is_seq k = true -> StartQ b ->
  nok sm ns -> trok (Bin k a b) sm tra ->
  seq_next k b ns tra oa = (st, tr, r) ->
  qwf (Bin k a b) sm st /\ trok (Bin k a b) sm tr.
Proof.
  intros Hk Sb [Hn Hg] Hta H. unfold seq_next in H.
  destruct (after_first k (n_env ns) oa) as [o'|[en2 sv]] eqn:Haf.
  - inv H. split; auto with calc.
  - apply after_first_summ in Haf. destruct Haf as [Hs2 Hg2].
    destruct (start b en2) as [[sb trb] rb] eqn:Hb.
    destruct (Sb _ _ _ _ Hb (Hg2 Hg)) as [Hqb Htb]. rewrite Hs2, Hn in Hqb, Htb.
    assert (Htb' : trok (Bin k a b) sm trb).
    { apply trok_bin_b. unfold bin_sum. rewrite Hk. exact Htb. }
    destruct rb; inv H.
    + split; auto with calc.
    + split; auto with calc. rewrite qwf_bin. unfold bin_sum. rewrite Hk.
      split; [|split]; auto with calc. split; [reflexivity|exact Hg].
Qed.

Lemma conc_b_done_q k a b sm ns sa sb' tr ob st tr' r :
  is_seq k = false -> StopQ a ->
  nok sm ns -> qwf a (bin_sum k sm) sa -> qwf b (bin_sum k sm) sb' -> trok (Bin k a b) sm tr ->
  conc_b_done k a ns sa sb' tr ob = (st, tr', r) ->
  qwf (Bin k a b) sm st /\ trok (Bin k a b) sm tr'.
Proof.
  intros Hk Sa Hn Ha Hb Ht H. unfold conc_b_done in H.
  destruct (conc_child_done k ns true ob) as [[ns1 newly] fin] eqn:Hc.
  apply ccd_spec in Hc. destruct Hc as (He1 & _).
  assert (Hn1 : nok sm ns1) by (eapply nok_env; eassumption).
  destruct fin as [o1|].
  - eapply finish_q; eauto.
  - destruct newly.
    + destruct (stop a sa) as [[sa' tra] ra] eqn:Hs.
      assert (Hsp : snd (bin_sum k sm) = true) by (unfold bin_sum; rewrite Hk; reflexivity).
      destruct (Sa _ _ _ _ _ Hs Hsp Ha) as [Ha' Hta]. apply (trok_bin_a k a b) in Hta.
      destruct ra as [oa|].
      * destruct (conc_child_done k ns1 false oa) as [[ns2 x] fin2] eqn:Hc2.
        apply ccd_spec in Hc2. destruct Hc2 as (He2 & _).
        eapply finish_q; eauto with calc. eapply nok_env; eassumption.
      * inv H. rewrite qwf_bin. auto with calc.
    + inv H. rewrite qwf_bin. auto.
Qed.

Lemma conc_a_done_q k a b sm ns sa' sb tr oa st tr' r :
  is_seq k = false -> StopQ b ->
  nok sm ns -> qwf a (bin_sum k sm) sa' -> qwf b (bin_sum k sm) sb -> trok (Bin k a b) sm tr ->
  conc_a_done k b ns sa' sb tr oa = (st, tr', r) ->
  qwf (Bin k a b) sm st /\ trok (Bin k a b) sm tr'.
Proof.
  intros Hk Sb Hn Ha Hb Ht H. unfold conc_a_done in H.
  destruct (conc_child_done k ns false oa) as [[ns1 newly] fin] eqn:Hc.
  apply ccd_spec in Hc. destruct Hc as (He1 & _).
  assert (Hn1 : nok sm ns1) by (eapply nok_env; eassumption).
  destruct fin as [o1|].
  - eapply finish_q; eauto.
  - destruct newly.
    + destruct (stop b sb) as [[sb' trb] rb] eqn:Hs.
      assert (Hsp : snd (bin_sum k sm) = true) by (unfold bin_sum; rewrite Hk; reflexivity).
      destruct (Sb _ _ _ _ _ Hs Hsp Hb) as [Hb' Htb]. apply (trok_bin_b k a b) in Htb.
      destruct rb as [ob|].
      * destruct (conc_child_done k ns1 true ob) as [[ns2 x] fin2] eqn:Hc2.
        apply ccd_spec in Hc2. destruct Hc2 as (He2 & _).
        eapply finish_q; eauto with calc. eapply nok_env; eassumption.
      * inv H. rewrite qwf_bin. auto with calc.
    + inv H. rewrite qwf_bin. auto.
Qed.

Lemma bin_sum_seq k sm : is_seq k = true -> bin_sum k sm = sm.
Proof. unfold bin_sum. intros ->. reflexivity. Qed.
Lemma bin_sum_conc k sm : is_seq k = false -> bin_sum k sm = own_sum sm.
Proof. unfold bin_sum. intros ->. reflexivity. Qed.
Lemma bin_sum_snd k sm : snd sm = true -> snd (bin_sum k sm) = true.
Proof. unfold bin_sum. destruct (is_seq k); auto. Qed.

Lemma start_conc_q k a b en st tr r :
  is_seq k = false -> StartQ a -> StopQ a -> StartQ b ->
  start_conc k a b en = (st, tr, r) -> good_env en ->
  qwf (Bin k a b) (summ en) st /\ trok (Bin k a b) (summ en) tr.
Proof.
  intros Hk Sa Pa Sb H Hg. unfold start_conc in H.
  destruct (start a (env_own en (e_stopped en))) as [[sa tra] ra] eqn:Ha.
  destruct (Sa _ _ _ _ Ha (good_own _ _)) as [Hqa Hta]. rewrite summ_own in Hqa, Hta.
  rewrite <- (bin_sum_conc k) in Hqa, Hta by exact Hk.
  apply (trok_bin_a k a b) in Hta.
  destruct (match ra with
            | Some oa => conc_child_done k (conc_ns0 en) false oa
            | None => (conc_ns0 en, false, None) end) as [[ns1 x1] x2] eqn:Hm.
  assert (Hn1 : nok (summ en) ns1).
  { destruct ra.
    - apply ccd_spec in Hm. destruct Hm as (He & _). split; rewrite He; [reflexivity|exact Hg].
    - inv Hm. split; [reflexivity|exact Hg]. }
  destruct (start b (env_own en (own_stop ns1))) as [[sb trb] rb] eqn:Hb.
  destruct (Sb _ _ _ _ Hb (good_own _ _)) as [Hqb Htb]. rewrite summ_own in Hqb, Htb.
  rewrite <- (bin_sum_conc k) in Hqb, Htb by exact Hk.
  apply (trok_bin_b k a b) in Htb.
  destruct rb as [ob|].
  - eapply conc_b_done_q; [..|exact H]; eauto with calc.
  - inv H. rewrite qwf_bin. auto with calc.
Qed.

Lemma stop_conc_q k a b sm ns sa sb st' tr r :
  is_seq k = false -> StopQ a -> StopQ b ->
  snd sm = true -> nok sm ns -> qwf a (bin_sum k sm) sa -> qwf b (bin_sum k sm) sb ->
  stop_conc k a b ns sa sb = (st', tr, r) ->
  qwf (Bin k a b) sm st' /\ trok (Bin k a b) sm tr.
Proof.
  intros Hk Pa Pb Hsp Hn Hqa Hqb H. unfold stop_conc in H.
  assert (Hsp' := bin_sum_snd k sm Hsp).
  destruct (if bdone ns then (sb, [], None) else stop b sb) as [[sb' trb] rb] eqn:Hb.
  assert (Hb' : qwf b (bin_sum k sm) sb' /\ trok b (bin_sum k sm) trb).
  { destruct (bdone ns); [inv Hb; auto with calc|]. eapply Pb; eauto. }
  destruct Hb' as [Hqb' Htb]. apply (trok_bin_b k a b) in Htb.
  destruct (match rb with
            | Some ob => conc_child_done k (ns_set_own (stopped_ns ns) true) true ob
            | None => (ns_set_own (stopped_ns ns) true, false, None) end) as [[ns2 x] fin1] eqn:Hm.
  assert (Hn0 : nok sm (ns_set_own (stopped_ns ns) true)).
  { apply (nok_env sm (stopped_ns ns)); [reflexivity|]. apply nok_stopped; assumption. }
  assert (Hn2 : nok sm ns2).
  { destruct rb.
    - apply ccd_spec in Hm. destruct Hm as (He & _). eapply nok_env; eassumption.
    - inv Hm. exact Hn0. }
  destruct fin1 as [o1|].
  - eapply finish_q; eauto.
  - destruct (if adone ns2 then (sa, [], None) else stop a sa) as [[sa' tra] ra] eqn:Ha.
    assert (Ha' : qwf a (bin_sum k sm) sa' /\ trok a (bin_sum k sm) tra).
    { destruct (adone ns2); [inv Ha; auto with calc|]. eapply Pa; eauto. }
    destruct Ha' as [Hqa' Hta]. apply (trok_bin_a k a b) in Hta.
    destruct (match ra with
              | Some oa => conc_child_done k ns2 false oa
              | None => (ns2, false, None) end) as [[ns3 y] fin2] eqn:Hm2.
    assert (Hn3 : nok sm ns3).
    { destruct ra.
      - apply ccd_spec in Hm2. destruct Hm2 as (He & _). eapply nok_env; eassumption.
      - inv Hm2. exact Hn2. }
    eapply finish_q; eauto with calc.
Qed.

Lemma leafev_conc_q k a b sm ns sa sb id o st' tr r hit :
  is_seq k = false ->
  LeafevQ a -> LeafevQ b -> StopQ a -> StopQ b ->
  nok sm ns -> qwf a (bin_sum k sm) sa -> qwf b (bin_sum k sm) sb ->
  leafev_conc k a b ns sa sb id o = (st', tr, r, hit) ->
  qwf (Bin k a b) sm st' /\ trok (Bin k a b) sm tr.
Proof.
  intros Hk La Lb Pa Pb Hn Hqa Hqb H. unfold leafev_conc in H.
  destruct (if adone ns then (sa, [], None, false) else leafev a sa id o) as [[[sa' tra] ra] hita] eqn:Ha.
  assert (Ha' : qwf a (bin_sum k sm) sa' /\ trok a (bin_sum k sm) tra).
  { destruct (adone ns); [inv Ha; auto with calc|]. eapply La; eauto. }
  destruct Ha' as [Hqa' Hta]. apply (trok_bin_a k a b) in Hta.
  destruct hita.
  - destruct ra as [oa|].
    + injection H as H Hhit. eapply conc_a_done_q; [..|exact H]; eauto with calc.
    + inv H. rewrite qwf_bin. auto.
  - destruct (if bdone ns then (sb, [], None, false) else leafev b sb id o) as [[[sb' trb] rb] hitb] eqn:Hb.
    assert (Hb' : qwf b (bin_sum k sm) sb' /\ trok b (bin_sum k sm) trb).
    { destruct (bdone ns); [inv Hb; auto with calc|]. eapply Lb; eauto. }
    destruct Hb' as [Hqb' Htb]. apply (trok_bin_b k a b) in Htb.
    destruct rb as [ob|].
    + injection H as H Hhit. eapply conc_b_done_q; [..|exact H]; eauto with calc.
    + inv H. rewrite qwf_bin. auto.
Qed.

Lemma is_unst_true k : is_unst k = true -> k = UUnstoppable.
Proof. destruct k; intros H; try discriminate H; reflexivity. Qed.
Lemma un_sum_snd k sm : is_unst k = false -> snd (un_sum k sm) = snd sm.
Proof. destruct k; intros H; try discriminate H; try reflexivity. destruct q; reflexivity. Qed.

Lemma start_stop_q e : StartQ e /\ StopQ e.
Proof.
  induction e as [v|x| |n|id|id|k s IH|k a IHa b IHb].
  - split; [intros en st tr r H Hg; simpl in H; inv H; auto with calc
           |intros sm st st' tr r H Hsp Hq; destruct st; simpl in H; inv H; auto with calc].
  - split; [intros en st tr r H Hg; simpl in H; inv H; auto with calc
           |intros sm st st' tr r H Hsp Hq; destruct st; simpl in H; inv H; auto with calc].
  - split; [intros en st tr r H Hg; simpl in H; inv H; auto with calc
           |intros sm st st' tr r H Hsp Hq; destruct st; simpl in H; inv H; auto with calc].
  - split; [intros en st tr r H Hg; simpl in H; inv H; auto with calc
           |intros sm st st' tr r H Hsp Hq; destruct st; simpl in H; inv H; auto with calc].
  - split.
    + intros en st tr r H Hg. simpl in H. split; [destruct (e_stopped en); inv H; exact I|].
      destruct (e_stopped en) eqn:Es; inv H; repeat constructor; simpl; try rewrite Nat.eqb_refl;
        try reflexivity; auto.
      intros Hp. apply Hg in Hp. congruence.
    + intros sm st st' tr r H Hsp Hq. split; [destruct st'; exact I|].
      destruct st as [|c sn|]; simpl in H; try (inv H; constructor).
      destruct c, sn; inv H; repeat constructor.
  - split.
    + intros en st tr r H Hg. simpl in H. split; [destruct (e_stopped en); inv H; exact I|].
      destruct (e_stopped en) eqn:Es; inv H; repeat constructor; simpl; try rewrite Nat.eqb_refl;
        try reflexivity; auto.
      intros Hp. apply Hg in Hp. congruence.
    + intros sm st st' tr r H Hsp Hq. split; [destruct st'; exact I|].
      destruct st as [|c sn|]; simpl in H; try (inv H; constructor).
      destruct c, sn; inv H; repeat constructor.
  - destruct IH as [Ss Ps]. split.
    + intros en st tr r H Hg. rewrite start_un in H.
      destruct (start s (un_env k en)) as [[sc tr1] r1] eqn:Hs.
      destruct (Ss _ _ _ _ Hs (good_un k en Hg)) as [Hq Ht]. rewrite summ_un in Hq, Ht.
      apply trok_un in Ht.
      destruct r1 as [o1|].
      * destruct (un_result k o1) as [tr2 o'] eqn:Hu. inv H. split; auto with calc.
        apply trok_app; auto. apply trok_calls. eapply un_result_calls. eassumption.
      * inv H. rewrite qwf_un. split; auto. split; [split; [reflexivity|exact Hg]|exact Hq].
    + intros sm st st' tr r H Hsp Hq.
      destruct st as [|c sn|ns sc sb]; [rewrite stop_fin in H; inv H; auto with calc
                                       |simpl in H; inv H; auto with calc|].
      rewrite qwf_un in Hq. destruct Hq as [Hn Hq].
      destruct (is_unst k) eqn:Hk.
      * apply is_unst_true in Hk. subst k. rewrite stop_un_unst in H. inv H.
        rewrite qwf_un. auto with calc.
      * rewrite stop_un in H by exact Hk. unfold stop_un_body in H.
        destruct (stop s sc) as [[sc' tr1] r1] eqn:Hs.
        assert (Hsp' : snd (un_sum k sm) = true) by (rewrite un_sum_snd; assumption).
        destruct (Ps _ _ _ _ _ Hs Hsp' Hq) as [Hq' Ht]. apply trok_un in Ht.
        destruct r1 as [o1|].
        -- destruct (un_result k o1) as [tr2 o'] eqn:Hu. inv H. split; auto with calc.
           apply trok_app; auto. apply trok_calls. eapply un_result_calls. eassumption.
        -- inv H. rewrite qwf_un. split; auto. split; [|exact Hq']. apply nok_stopped; assumption.
  - destruct IHa as [Sa Pa]. destruct IHb as [Sb Pb].
    destruct (is_seq k) eqn:Hk.
    + split.
      * intros en st tr r H Hg. rewrite start_bin_seq in H by exact Hk. unfold start_seq in H.
        destruct (start a en) as [[sa tra] ra] eqn:Ha.
        destruct (Sa _ _ _ _ Ha Hg) as [Hqa Hta].
        rewrite <- (bin_sum_seq k (summ en) Hk) in Hqa, Hta. apply (trok_bin_a k a b) in Hta.
        destruct ra as [oa|].
        -- eapply seq_next_q; [..|exact H]; eauto with calc. split; [reflexivity|exact Hg].
        -- inv H. rewrite qwf_bin. split; auto.
           split; [split; [reflexivity|exact Hg]|]. split; auto with calc.
      * intros sm st st' tr r H Hsp Hq.
        destruct st as [|c sn|ns sa sb]; [rewrite stop_fin in H; inv H; auto with calc
                                         |simpl in H; inv H; auto with calc|].
        rewrite qwf_bin in Hq. destruct Hq as (Hn & Hqa & Hqb).
        assert (Hsp' := bin_sum_snd k sm Hsp).
        rewrite stop_bin, Hk in H.
        destruct (ph ns).
        -- unfold stop_seq1 in H. destruct (stop a sa) as [[sa' tra] ra] eqn:Ha.
           destruct (Pa _ _ _ _ _ Ha Hsp' Hqa) as [Hqa' Hta]. apply (trok_bin_a k a b) in Hta.
           destruct ra as [oa|].
           ++ eapply seq_next_q; [..|exact H]; eauto with calc. apply nok_stopped; assumption.
           ++ inv H. rewrite qwf_bin. split; auto. split; [apply nok_stopped; assumption|]. auto.
        -- unfold stop_seq2 in H. destruct (stop b sb) as [[sb' trb] rb] eqn:Hb.
           destruct (Pb _ _ _ _ _ Hb Hsp' Hqb) as [Hqb' Htb].
           apply (trok_bin_b k a b) in Htb.
           destruct rb; inv H; [auto with calc|].
           rewrite qwf_bin. split; auto. split; [apply nok_stopped; assumption|]. auto.
        -- unfold stop_seq2 in H. destruct (stop b sb) as [[sb' trb] rb] eqn:Hb.
           destruct (Pb _ _ _ _ _ Hb Hsp' Hqb) as [Hqb' Htb].
           apply (trok_bin_b k a b) in Htb.
           destruct rb; inv H; [auto with calc|].
           rewrite qwf_bin. split; auto. split; [apply nok_stopped; assumption|]. auto.
    + split.
      * intros en st tr r H Hg. rewrite start_bin_conc in H by exact Hk.
        eapply start_conc_q; [..|exact H|exact Hg]; eauto with calc.
      * intros sm st st' tr r H Hsp Hq.
        destruct st as [|c sn|ns sa sb]; [rewrite stop_fin in H; inv H; auto with calc
                                         |simpl in H; inv H; auto with calc|].
        rewrite qwf_bin in Hq. destruct Hq as (Hn & Hqa & Hqb).
        rewrite stop_bin, Hk in H.
        destruct (own_stop ns).
        -- inv H. rewrite qwf_bin. split; auto with calc. split; [apply nok_stopped; assumption|]. auto.
        -- eapply stop_conc_q; [..|exact H]; eauto with calc.
Qed.

Lemma leafev_q e : LeafevQ e.
Proof.
  induction e as [v|x| |n|id|id|k s IH|k a IHa b IHb];
    try (intros sm st i o st' tr r hit H Hq; destruct st; simpl in H; inv H; auto with calc; fail).
  - intros sm st i o st' tr r hit H Hq. destruct st as [|c sn|]; simpl in H; try (inv H; auto with calc; fail).
    destruct c; [inv H; auto with calc|]. destruct (Nat.eqb i id); inv H; auto with calc.
  - intros sm st i o st' tr r hit H Hq. destruct st as [|c sn|]; simpl in H; try (inv H; auto with calc; fail).
    destruct c; [inv H; auto with calc|]. destruct (Nat.eqb i id); inv H; auto with calc.
  - intros sm st i o st' tr r hit H Hq.
    destruct st as [|c sn|ns sc sb]; [rewrite leafev_fin in H; inv H; auto with calc
                                     |simpl in H; inv H; auto with calc|].
    rewrite qwf_un in Hq. destruct Hq as [Hn Hq].
    rewrite leafev_un in H. unfold leafev_un_body in H.
    destruct (leafev s sc i o) as [[[sc' tr1] r1] h1] eqn:Hs.
    destruct (IH _ _ _ _ _ _ _ _ Hs Hq) as [Hq' Ht]. apply trok_un in Ht.
    destruct r1 as [o1|].
    + destruct (un_result k o1) as [tr2 o'] eqn:Hu. inv H. split; auto with calc.
      apply trok_app; auto. apply trok_calls. eapply un_result_calls. eassumption.
    + inv H. rewrite qwf_un. auto.
  - destruct (start_stop_q a) as [Sa Pa]. destruct (start_stop_q b) as [Sb Pb].
    intros sm st i o st' tr r hit H Hq.
    destruct st as [|c sn|ns sa sb]; [rewrite leafev_fin in H; inv H; auto with calc
                                     |simpl in H; inv H; auto with calc|].
    rewrite qwf_bin in Hq. destruct Hq as (Hn & Hqa & Hqb).
    rewrite leafev_bin in H. destruct (is_seq k) eqn:Hk.
    + destruct (ph ns).
      * unfold leafev_seq1 in H. destruct (leafev a sa i o) as [[[sa' tra] ra] h1] eqn:Ha.
        destruct (IHa _ _ _ _ _ _ _ _ Ha Hqa) as [Hqa' Hta]. apply (trok_bin_a k a b) in Hta.
        destruct ra as [oa|].
        -- injection H as H Hhit. eapply seq_next_q; [..|exact H]; eauto with calc.
        -- inv H. rewrite qwf_bin. auto.
      * unfold leafev_seq2 in H. destruct (leafev b sb i o) as [[[sb' trb] rb] h1] eqn:Hb.
        destruct (IHb _ _ _ _ _ _ _ _ Hb Hqb) as [Hqb' Htb].
        apply (trok_bin_b k a b) in Htb.
        destruct rb; inv H; [auto with calc|]. rewrite qwf_bin. auto.
      * unfold leafev_seq2 in H. destruct (leafev b sb i o) as [[[sb' trb] rb] h1] eqn:Hb.
        destruct (IHb _ _ _ _ _ _ _ _ Hb Hqb) as [Hqb' Htb].
        apply (trok_bin_b k a b) in Htb.
        destruct rb; inv H; [auto with calc|]. rewrite qwf_bin. auto.
    + eapply leafev_conc_q; [..|exact H]; eauto with calc.
Qed.

(* ---- whole runs ------------------------------------------------------------------------------------ *)
Definition xok (e : sexpr) (x : xev) : Prop :=
  match x with
  | XT t => evok e root_sum t
  | XRoot _ n => n = O
  | XSkip => True
  end.
Definition IQ (e : sexpr) (rs : run_state) : Prop :=
  qwf e root_sum (r_st rs) /\ Forall (xok e) (r_tr rs).

Lemma no_root_leak e l : Forall (xok e) l -> filter is_root_leak l = [].
Proof.
  induction 1 as [|x l Hx Hl IH]; simpl; [reflexivity|].
  destruct x as [t| |]; simpl; auto. destruct t; simpl; auto. destruct root; [contradiction Hx|auto].
Qed.

Lemma Forall_map_XT e tr : trok e root_sum tr -> Forall (xok e) (map XT tr).
Proof. induction 1; simpl; constructor; auto. Qed.

Lemma absorb_q e rs st tr o :
  IQ e rs -> qwf e root_sum st -> trok e root_sum tr -> IQ e (absorb rs (st, tr, o)).
Proof.
  unfold IQ, absorb. intros [H1 H2] Hq Ht.
  assert (Hall : Forall (xok e) (r_tr rs ++ map XT tr)).
  { apply Forall_app. split; [exact H2|]. apply Forall_map_XT. exact Ht. }
  destruct o; simpl; split; auto.
  apply Forall_app. split; [exact Hall|]. constructor; [|constructor].
  simpl. rewrite (no_root_leak e); auto.
Qed.

Lemma good_root pre : good_env (root_env pre).
Proof. unfold good_env. simpl. discriminate. Qed.

Lemma run_start_q e pre : IQ e (run_start e pre).
Proof.
  unfold run_start. destruct (start e (root_env pre)) as [[st tr] r] eqn:H.
  destruct (start_stop_q e) as [S _]. destruct (S _ _ _ _ H (good_root pre)) as [Hq Ht].
  apply absorb_q; auto. split; [apply qwf_fin|constructor].
Qed.

Lemma run_ev_q e rs ev : IQ e rs -> IQ e (run_ev e rs ev).
Proof.
  intros HI. destruct ev as [id o|]; simpl.
  - destruct (leafev e (r_st rs) id o) as [[[st tr] r] hit] eqn:H.
    destruct HI as [H1 H2].
    destruct (leafev_q e _ _ _ _ _ _ _ _ H H1) as [Hq Ht].
    destruct hit.
    + apply absorb_q; auto. split; assumption.
    + split; simpl; auto. apply Forall_app. split; auto. repeat constructor.
  - destruct (r_stopped rs).
    + destruct HI as [H1 H2]. split; simpl; auto. apply Forall_app. split; auto. repeat constructor.
    + destruct (stop e (r_st rs)) as [[st tr] r] eqn:H.
      destruct HI as [H1 H2].
      destruct (start_stop_q e) as [_ P]. destruct (P root_sum _ _ _ _ H eq_refl H1) as [Hq Ht].
      apply absorb_q; auto. split; assumption.
Qed.

Theorem exec_q e pre script : IQ e (exec e pre script).
Proof. apply exec_invariant; [apply run_start_q|intros; apply run_ev_q; assumption]. Qed.

(* C12, relational form, for ALL expressions (identifiers may even repeat): the answers a leaf
   observes are those obtained by folding the documented overrides along a path from the root
   to an occurrence of that leaf; and a token that cannot be stopped is never seen stopped *)
Theorem queries_sees e pre script id st sp a b :
  In (XT (TLeafStart id st sp a b)) (r_tr (exec e pre script)) ->
  sees e root_sum id (a, b, sp) /\ (sp = false -> st = false).
Proof.
  intros H. destruct (exec_q e pre script) as [_ HF].
  rewrite Forall_forall in HF. exact (HF _ H).
Qed.

(* C12, functional form *)
Theorem queries_static e pre script id st sp a b :
  NoDup (leaf_ids e) ->
  In (XT (TLeafStart id st sp a b)) (r_tr (exec e pre script)) ->
  static_q e id = Some (a, b, sp).
Proof.
  intros ND H. apply queries_sees in H. destruct H as [H _].
  apply sees_static; assumption.
Qed.

(* every event of a run concerns a leaf of the expression; no TLeak; root completes with no
   registration left on its token (also used for C04/A4) *)
Theorem run_events_ok e pre script : Forall (xok e) (r_tr (exec e pre script)).
Proof. exact (proj2 (exec_q e pre script)). Qed.

(* ---- the same, spelled out along the path: "innermost enclosing override wins" ---------------------- *)
Inductive frame := FUn (k : ukind) | FBin (k : bkind).
(* frames from the root down to an occurrence of leaf id *)
Inductive path_to : sexpr -> nat -> list frame -> Prop :=
| pt_leaf id : path_to (Leaf id) id []
| pt_leafn id : path_to (LeafN id) id []
| pt_un k s id p : path_to s id p -> path_to (Un k s) id (FUn k :: p)
| pt_bin_a k a b id p : path_to a id p -> path_to (Bin k a b) id (FBin k :: p)
| pt_bin_b k a b id p : path_to b id p -> path_to (Bin k a b) id (FBin k :: p).

(* walking outwards from the leaf (innermost frame first); d = the root receiver's answer *)
Fixpoint inner_q0 (q : list frame) (d : Z) : Z :=
  match q with
  | [] => d
  | FUn (UWithQ O v) :: _ => v
  | _ :: q' => inner_q0 q' d
  end.
Fixpoint inner_q1 (q : list frame) (d : Z) : Z :=
  match q with
  | [] => d
  | FUn (UWithQ (S _) v) :: _ => v
  | _ :: q' => inner_q1 q' d
  end.
(* stop_possible: the nearest enclosing unstoppable / when_all / stop_when decides *)
Fixpoint inner_sp (q : list frame) (d : bool) : bool :=
  match q with
  | [] => d
  | FUn UUnstoppable :: _ => false
  | FBin k :: q' => if is_seq k then inner_sp q' d else true
  | _ :: q' => inner_sp q' d
  end.

Definition frame_sum (f : frame) (sm : qsum) : qsum :=
  match f with FUn k => un_sum k sm | FBin k => bin_sum k sm end.

Lemma sees_path e sm id x :
  sees e sm id x -> exists p, path_to e id p /\ x = fold_left (fun s f => frame_sum f s) p sm.
Proof.
  induction 1 as [id sm|id sm|k s sm id x _ (p & P & E)|k a b sm id x _ (p & P & E)|k a b sm id x _ (p & P & E)].
  - exists []. split; [constructor|reflexivity].
  - exists []. split; [constructor|reflexivity].
  - exists (FUn k :: p). split; [constructor; exact P|exact E].
  - exists (FBin k :: p). split; [apply pt_bin_a; exact P|exact E].
  - exists (FBin k :: p). split; [apply pt_bin_b; exact P|exact E].
Qed.

Lemma fold_inner p : forall sm,
  fold_left (fun s f => frame_sum f s) p sm =
  (inner_q0 (rev p) (fst (fst sm)), inner_q1 (rev p) (snd (fst sm)), inner_sp (rev p) (snd sm)).
Proof.
  induction p as [|f p IH] using rev_ind; intros sm.
  - destruct sm as [[a b] c]. reflexivity.
  - rewrite fold_left_app, rev_app_distr. simpl. rewrite IH.
    destruct f as [k|k]; simpl.
    + destruct k; try reflexivity. destruct q; reflexivity.
    + unfold bin_sum. destruct (is_seq k); reflexivity.
Qed.

Theorem queries_innermost e pre script id st sp a b :
  In (XT (TLeafStart id st sp a b)) (r_tr (exec e pre script)) ->
  exists p, path_to e id p /\
    a = inner_q0 (rev p) 0 /\ b = inner_q1 (rev p) 0 /\ sp = inner_sp (rev p) true.
Proof.
  intros H. apply queries_sees in H. destruct H as [H _].
  apply sees_path in H. destruct H as (p & P & E). exists p. split; [exact P|].
  rewrite fold_inner in E. simpl in E. inversion E. auto.
Qed.
