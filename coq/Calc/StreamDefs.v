(* E2-stream — a calculus of stream pipelines and its executable operational semantics (C13,
   sequential half).  Executable definitions only (extracted to OCaml and run against the real
   library by the K2-stream tie, tools/k2s.py); proofs are in Calc/StreamProofs.v.

   A pipeline is a chain: a source (range_stream, single(just v), never_stream, or a scripted
   harness source k2s::src) under unary adaptors (transform_stream, filter_stream, take_until with a
   scripted trigger stream, stop_immediately, type_erase, and the adapt_stream family: next_adapt_stream /
   cleanup_adapt_stream / adapt_stream over the table [sadapt] of sender adaptors, with via_stream /
   typed_via_stream / on_stream / delay DEFINED as the compositions their headers write), consumed by
   reduce_stream or for_each.  The schedulers of via / on / delay are harness schedulers k2s::hsched{sid}:
   inline, stop-insensitive contexts whose schedule() / schedule_after(d) is observable as the event
   [THop sid d]; a queued (script-driven) or stop-sensitive scheduler is NOT modelled.
   The state of a chain is a chain of nodes of the same shape.  Every node offers five entry points
   (record [ops]; each adaptor implements them on the node body, record [rops], and [wrap] adds the
   ghost bookkeeping) mirroring what can happen to the real objects:
     o_next  st env   - next(stream) is connected and started with a receiver whose stop token
                        answers [env],
     o_clean st       - cleanup(stream) is connected and started,
     o_stop  st       - stop is requested on the token the outstanding next-operation observes,
     o_leaf  st tg o  - a scripted asynchronous leaf (next #k / cleanup of source id) is completed
                        from outside with outcome o,
     o_flush st       - the call stack unwinds to a frame that still has work to do AFTER it has
                        completed its receiver (deferred continuations, see take_until and
                        stop_immediately below).
   Each returns the new state, the observable events in order and [Some (KN|KC, o)] when the
   operation the PARENT currently has outstanding on this stream (a next / a cleanup) completed
   with outcome o during the call.

   C++ mirrored (include/unifex/): reduce_stream.hpp for_each.hpp transform_stream.hpp
   next_adapt_stream.hpp filter_stream.hpp range_stream.hpp single.hpp never.hpp take_until.hpp
   stop_immediately.hpp type_erased_stream.hpp inplace_stop_token.hpp (callback order, inline
   execution when stop was already requested).  Line numbers in comments refer to those files.

   Two defects of the tree are modelled AS WRITTEN when the corresponding [variant] bit is false
   and as repaired when it is true (DESIGN.md section 8, findings 2 and 9). *)
From Coq Require Import ZArith List Bool Arith.
Import ListNotations.
Local Open Scope Z_scope.

Module SCalc.

Inductive outcome := OVal (v : Z) | OErr (e : Z) | ODone.

(* ---- the tables of user callables the generated programs use; [inr e] = throws err e ---------- *)
Inductive fn := FAdd (k : Z) | FMul (k : Z) | FThrowIf (x e : Z).
Definition fn_apply (f : fn) (x : Z) : Z + Z :=
  match f with
  | FAdd k => inl (x + k)
  | FMul k => inl (x * k)
  | FThrowIf y e => if x =? y then inr e else inl x
  end.

Inductive pred := PLt (k : Z) | PNe (k : Z) | PEven | PThrowIf (x e : Z).
Definition pred_apply (p : pred) (x : Z) : bool + Z :=
  match p with
  | PLt k => inl (x <? k)
  | PNe k => inl (negb (x =? k))
  | PEven => inl (Z.even x)
  | PThrowIf y e => if x =? y then inr e else inl true
  end.

Inductive rfn := RSum | RHorner | RThrowIf (x e : Z).
Definition rfn_apply (f : rfn) (acc x : Z) : Z + Z :=
  match f with
  | RSum => inl (acc + x)
  | RHorner => inl ((acc * 31 + x) mod 1000003)
  | RThrowIf y e => if x =? y then inr e else inl (acc + x)
  end.

(* the consumer: reduce_stream(s, init, f)  or  for_each(s, g) = then(reduce_stream(s, unit, g'), ignore) *)
Inductive cons := CReduce (init : Z) (f : rfn) | CForEach (g : fn).

(* the table of SENDER adaptors the adapt_stream family is instantiated with (generic lambdas applied to
   next(inner) / cleanup(inner)).  [sid] names a harness scheduler k2s::hsched{sid}: its schedule() /
   schedule_after(d) operation logs `hop sid d` and completes inline with a value whatever the stop token
   says (an inline, stop-insensitive context; see harness/k2s.hpp), so the machine stays deterministic.
     AId            [](auto&& s) { return (decltype(s))s; }
     AThen f        [](auto&& s) { return then((decltype(s))s, f); }   (next only: cleanup carries no value)
     AVia sid       [](auto&& s) { return via((decltype(s))s, sched); }          via.hpp = finally(s, schedule(sched))
     ATypedVia sid  the same through the deprecated alias typed_via (typed_via.hpp: the same _via::_fn object)
     AOn sid        [](auto&& s) { return on(sched, (decltype(s))s); }           on.hpp = sequence(schedule(sched), s)
     ADelay sid d   [](auto&& s) { return finally((decltype(s))s, schedule_after(sched, d)); }   delay.hpp *)
Inductive sadapt := AId | AThen (f : fn) | AVia (sid : nat) | ATypedVia (sid : nat) | AOn (sid : nat) | ADelay (sid d : nat).

Inductive stexpr :=
| SRange (a b : Z)                         (* range_stream{a, b} *)
| SSingle (v : Z)                          (* single(just(v)) *)
| SSrc (id : nat) (reactive : bool)        (* scripted harness source; reactive: next completes with done from its stop callback *)
| SNever                                   (* never_stream *)
| STransform (f : fn) (s : stexpr)
| SFilter (p : pred) (s : stexpr)
| STakeUntil (s : stexpr) (tid : nat) (treactive : bool)   (* take_until(s, scripted source tid) *)
| SStopImm (s : stexpr)                    (* stop_immediately<int>(s) *)
| STypeErase (s : stexpr)                  (* type_erase<int>(s) *)
| SNextAdapt (a : sadapt) (s : stexpr)     (* next_adapt_stream(s, a): next_adapt_stream.hpp:36-44 cleanup passes through *)
| SCleanupAdapt (a : sadapt) (s : stexpr)  (* cleanup_adapt_stream(s, a): cleanup_adapt_stream.hpp next passes through *)
| SAdapt1 (a : sadapt) (s : stexpr)        (* adapt_stream(s, a): adapt_stream.hpp:68-83, one adaptor for both *)
| SAdapt2 (an ac : sadapt) (s : stexpr).   (* adapt_stream(s, an, ac): adapt_stream.hpp:44-59 *)

(* via_stream.hpp:32-52, typed_via_stream.hpp (the same function object), on_stream.hpp:32-52, delay.hpp:31-43 *)
Definition via_stream (sid : nat) (s : stexpr) : stexpr := SAdapt1 (AVia sid) s.
Definition typed_via_stream (sid : nat) (s : stexpr) : stexpr := SAdapt1 (ATypedVia sid) s.
Definition on_stream (sid : nat) (s : stexpr) : stexpr := SAdapt1 (AOn sid) s.
Definition delay (sid d : nat) (s : stexpr) : stexpr := SAdapt1 (ADelay sid d) s.

(* which repairs are applied *)
Record variant := { v_tu_fixed : bool;     (* finding 2: take_until trigger_receiver::set_done destroys triggerOp_ *)
                    v_si_fixed : bool;     (* finding 9: stop_immediately next-op start() keeps stream_ in a local *)
                    v_sierr_fixed : bool;  (* stop_immediately's cleanup receiver_wrapper::set_error takes the error by value *)
                    v_te_fixed : bool }.   (* type_erased_stream's receiver wrappers copy their members before destroying their op *)

(* ---- observable events, compared one by one with the real library's run ------------------------ *)
Inductive tev :=
| TNextStart (id k : nat) (stopped : bool)     (* next #k of source id started; its receiver's token said [stopped] *)
| TNextStopSeen (id k : nat)                   (* that operation's stop callback ran *)
| TNextDone (id k : nat) (o : outcome)         (* it completed (script, or done from the stop callback) *)
| TCleanupStart (id : nat)
| TCleanupDone (id : nat) (o : outcome)
| TOpDel (id : nat)                            (* the tracked cleanup operation state of source id was destroyed *)
| TCall (f : fn) (x : Z)                       (* transform function *)
| TPred (p : pred) (x : Z)                     (* filter predicate *)
| THop (sid d : nat)                            (* harness scheduler sid ran a schedule() (d = 0) / schedule_after(d) item *)
| TFire                                        (* the armed root token requested stop inside a callback registration *)
| TUaf (site : nat).   (* use of a destroyed object.  0: stop_immediately's start() goes on through its destroyed
                          operation (finding 9); 1: stop_immediately's cleanup receiver_wrapper::set_error forwards an
                          error reference into the cleanup operation it has just destroyed; 2: type_erased_stream's
                          next_receiver_wrapper / cleanup_receiver_wrapper read their own members after
                          deactivate_union_member destroyed the operation state that contains them *)

Inductive opk := KN | KC.     (* which of the parent's operations completed: a next / a cleanup *)

(* what the receiver of a next-operation answers *)
Record env := { e_stopped : bool;    (* get_stop_token(r).stop_requested() when the operation starts *)
                e_armed : bool }.    (* the (root) token will request stop inside the first callback registration *)
Definition runs_inline (en : env) : bool := e_stopped en || e_armed en.
Definition fires (en : env) : bool := negb (e_stopped en) && e_armed en.
Definition fire_ev (en : env) : list tev := if fires en then [TFire] else [].
Definition env_own (own : bool) : env := {| e_stopped := own; e_armed := false |}.

(* ---- scripted source stream (harness k2s::src); also the trigger of take_until ------------------ *)
Record srcst := { s_n : nat;        (* next operations started so far *)
                  s_out : bool;     (* a next is outstanding *)
                  s_seen : bool;    (* ... and its stop callback already ran *)
                  s_cl : nat;       (* cleanup: 0 not started, 1 running, 2 completed *)
                  s_hist : list outcome }.   (* ghost: the outcomes its next operations delivered *)
Definition src0 : srcst := {| s_n := 0; s_out := false; s_seen := false; s_cl := 0; s_hist := [] |}.

Definition src_next (id : nat) (reactive : bool) (s : srcst) (en : env) : srcst * list tev * option outcome :=
  let k := s_n s in
  let ev0 := [TNextStart id k (e_stopped en)] in
  if runs_inline en then
    (* the stop callback runs inside its registration *)
    if reactive then
      ({| s_n := S k; s_out := false; s_seen := false; s_cl := s_cl s; s_hist := s_hist s ++ [ODone] |},
       ev0 ++ fire_ev en ++ [TNextStopSeen id k; TNextDone id k ODone], Some ODone)
    else ({| s_n := S k; s_out := true; s_seen := true; s_cl := s_cl s; s_hist := s_hist s |},
          ev0 ++ fire_ev en ++ [TNextStopSeen id k], None)
  else ({| s_n := S k; s_out := true; s_seen := false; s_cl := s_cl s; s_hist := s_hist s |}, ev0, None).

Definition src_stop (id : nat) (reactive : bool) (s : srcst) : srcst * list tev * option outcome :=
  if s_out s && negb (s_seen s) then
    let k := Nat.pred (s_n s) in
    if reactive then
      ({| s_n := s_n s; s_out := false; s_seen := false; s_cl := s_cl s; s_hist := s_hist s ++ [ODone] |},
       [TNextStopSeen id k; TNextDone id k ODone], Some ODone)
    else ({| s_n := s_n s; s_out := true; s_seen := true; s_cl := s_cl s; s_hist := s_hist s |}, [TNextStopSeen id k], None)
  else (s, [], None).

Definition src_complete (id : nat) (s : srcst) (o : outcome) : srcst * list tev * option outcome * bool :=
  if s_out s then
    ({| s_n := s_n s; s_out := false; s_seen := false; s_cl := s_cl s; s_hist := s_hist s ++ [o] |},
     [TNextDone id (Nat.pred (s_n s)) o], Some o, true)
  else (s, [], None, false).

Definition src_cleanup (id : nat) (s : srcst) : srcst * list tev :=
  ({| s_n := s_n s; s_out := s_out s; s_seen := s_seen s; s_cl := 1; s_hist := s_hist s |}, [TCleanupStart id]).

Definition clean_outcome (o : outcome) : outcome := match o with OVal _ => ODone | _ => o end.

Definition src_cleanup_complete (id : nat) (s : srcst) (o : outcome) : srcst * list tev * option outcome * bool :=
  if Nat.eqb (s_cl s) 1 then
    ({| s_n := s_n s; s_out := s_out s; s_seen := s_seen s; s_cl := 2; s_hist := s_hist s |},
     [TCleanupDone id (clean_outcome o)], Some (clean_outcome o), true)
  else (s, [], None, false).

(* ---- node states ----------------------------------------------------------------------------------- *)
Record fist := { fi_stopped : bool; fi_armed : bool }.     (* filter: what its receiver's token answers now *)

(* stop_immediately.hpp: enum class state *)
Inductive sistate := SNotStarted | SCompleted | SActive | SStopped | SCleanupReq.
Record sist := { si_state : sistate;
                 si_own : bool;          (* stopSource_ requested *)
                 si_err : option Z;      (* nextError_ *)
                 si_incl : bool;         (* cleanup(source_) was started *)
                 si_defer : bool;        (* start() still has to start nextOp_ after its callback completed the receiver *)
                 si_cut : bool }.        (* ghost: a done was produced / a signal was dropped because of stop *)
Definition si_set_state s x := {| si_state := x; si_own := si_own s; si_err := si_err s; si_incl := si_incl s; si_defer := si_defer s; si_cut := si_cut s |}.
Definition si_set_own s x := {| si_state := si_state s; si_own := x; si_err := si_err s; si_incl := si_incl s; si_defer := si_defer s; si_cut := si_cut s |}.
Definition si_set_err s x := {| si_state := si_state s; si_own := si_own s; si_err := x; si_incl := si_incl s; si_defer := si_defer s; si_cut := si_cut s |}.
Definition si_set_incl s x := {| si_state := si_state s; si_own := si_own s; si_err := si_err s; si_incl := x; si_defer := si_defer s; si_cut := si_cut s |}.
Definition si_set_defer s x := {| si_state := si_state s; si_own := si_own s; si_err := si_err s; si_incl := si_incl s; si_defer := x; si_cut := si_cut s |}.
Definition si_set_cut s x := {| si_state := si_state s; si_own := si_own s; si_err := si_err s; si_incl := si_incl s; si_defer := si_defer s; si_cut := x |}.
Definition si0 : sist := {| si_state := SNotStarted; si_own := false; si_err := None; si_incl := false; si_defer := false; si_cut := false |}.

Record tust := { tu_out : bool;          (* a next-operation of the take_until stream is outstanding (cancel_callback registered) *)
                 tu_own : bool;          (* stopSource_ requested *)
                 tu_trig : srcst;        (* the trigger stream *)
                 tu_tstarted : bool;     (* triggerNextStarted_ *)
                 tu_ready : bool;        (* cleanupReady_ *)
                 tu_completed : bool;    (* cleanupCompleted_ *)
                 tu_serr : option Z;     (* sourceError_ *)
                 tu_terr : option Z;     (* triggerError_ *)
                 tu_defer : nat }.       (* 1: the trigger's stop callback, 2: the rest of trigger_next_done, still to run *)
Definition tu_set_out u x := {| tu_out := x; tu_own := tu_own u; tu_trig := tu_trig u; tu_tstarted := tu_tstarted u; tu_ready := tu_ready u; tu_completed := tu_completed u; tu_serr := tu_serr u; tu_terr := tu_terr u; tu_defer := tu_defer u |}.
Definition tu_set_own u x := {| tu_out := tu_out u; tu_own := x; tu_trig := tu_trig u; tu_tstarted := tu_tstarted u; tu_ready := tu_ready u; tu_completed := tu_completed u; tu_serr := tu_serr u; tu_terr := tu_terr u; tu_defer := tu_defer u |}.
Definition tu_set_trig u x := {| tu_out := tu_out u; tu_own := tu_own u; tu_trig := x; tu_tstarted := tu_tstarted u; tu_ready := tu_ready u; tu_completed := tu_completed u; tu_serr := tu_serr u; tu_terr := tu_terr u; tu_defer := tu_defer u |}.
Definition tu_set_tstarted u x := {| tu_out := tu_out u; tu_own := tu_own u; tu_trig := tu_trig u; tu_tstarted := x; tu_ready := tu_ready u; tu_completed := tu_completed u; tu_serr := tu_serr u; tu_terr := tu_terr u; tu_defer := tu_defer u |}.
Definition tu_set_ready u x := {| tu_out := tu_out u; tu_own := tu_own u; tu_trig := tu_trig u; tu_tstarted := tu_tstarted u; tu_ready := x; tu_completed := tu_completed u; tu_serr := tu_serr u; tu_terr := tu_terr u; tu_defer := tu_defer u |}.
Definition tu_set_completed u x := {| tu_out := tu_out u; tu_own := tu_own u; tu_trig := tu_trig u; tu_tstarted := tu_tstarted u; tu_ready := tu_ready u; tu_completed := x; tu_serr := tu_serr u; tu_terr := tu_terr u; tu_defer := tu_defer u |}.
Definition tu_set_serr u x := {| tu_out := tu_out u; tu_own := tu_own u; tu_trig := tu_trig u; tu_tstarted := tu_tstarted u; tu_ready := tu_ready u; tu_completed := tu_completed u; tu_serr := x; tu_terr := tu_terr u; tu_defer := tu_defer u |}.
Definition tu_set_terr u x := {| tu_out := tu_out u; tu_own := tu_own u; tu_trig := tu_trig u; tu_tstarted := tu_tstarted u; tu_ready := tu_ready u; tu_completed := tu_completed u; tu_serr := tu_serr u; tu_terr := x; tu_defer := tu_defer u |}.
Definition tu_set_defer u x := {| tu_out := tu_out u; tu_own := tu_own u; tu_trig := tu_trig u; tu_tstarted := tu_tstarted u; tu_ready := tu_ready u; tu_completed := tu_completed u; tu_serr := tu_serr u; tu_terr := tu_terr u; tu_defer := x |}.
Definition tu0 : tust := {| tu_out := false; tu_own := false; tu_trig := src0; tu_tstarted := false; tu_ready := false; tu_completed := false; tu_serr := None; tu_terr := None; tu_defer := 0 |}.

Record test := { te_out : bool;          (* a next-operation is alive (its stop callback is registered) *)
                 te_ref : nat;           (* next_op_base::refCount_ *)
                 te_own : bool }.        (* that operation's stopSource_ requested *)
Definition te0 : test := {| te_out := false; te_ref := 0; te_own := false |}.

Inductive kst := KTr | KAd | KFi (s : fist) | KSI (s : sist) | KTU (s : tust) | KTE (s : test).

(* ghost: the protocol state of a stream as its PARENT sees it *)
Inductive pmode :=
| PFresh        (* no next was ever started *)
| PIdle         (* the last next delivered a value *)
| PBusy         (* a next is outstanding *)
| PEnded        (* the last next delivered done / an error *)
| PCleaning     (* cleanup is outstanding *)
| PCleaned      (* cleanup completed *)
| PBad.         (* the parent or the stream left the protocol *)

(* every node carries two ghosts: the history [h] of the outcomes its next-operations delivered and the
   protocol state [pm]; both are maintained by [wrap] below, never read by the machine *)
Inductive sst := Node (h : list outcome) (pm : pmode) (b : body)
with body :=
| BRange (pos : Z)
| BSingle (used : bool)
| BSrc (s : srcst)
| BNever (active cut : bool)
| BUn (k : kst) (inner : sst).

Inductive tgt := TgNext (id : nat) | TgClean (id : nat).

Record res := { r_st : sst; r_ev : list tev; r_out : option (opk * outcome); r_fired : bool }.
Definition mk st ev out fired : res := {| r_st := st; r_ev := ev; r_out := out; r_fired := fired |}.

(* the five entry points of a stream as seen by its parent *)
Record ops := {
  o_next : sst -> env -> res;
  o_clean : sst -> res;
  o_stop : sst -> res;
  o_leaf : sst -> tgt -> outcome -> res * bool;    (* bool: the leaf was found and was outstanding *)
  o_flush : sst -> res;
  o_arm : sst -> sst;        (* the root token gets armed: nodes that remember what that token answers take note *)
  o_budget : sst -> nat;     (* bound on the number of further values that can still complete inline *)
  o_owner : option nat;      (* the scripted source whose tracked cleanup op-state IS this stream's cleanup operation *)
  o_cerr_ref : bool;         (* the cleanup operation passes its error as a reference to one of its own members *)
  o_init : sst
}.

(* ... and the same on the node body, which is what each adaptor implements *)
Record bres := { b_st : body; b_ev : list tev; b_out : option (opk * outcome); b_fired : bool }.
Definition bmk b ev out fired : bres := {| b_st := b; b_ev := ev; b_out := out; b_fired := fired |}.
Definition bidle (b : body) : bres := bmk b [] None false.

Record rops := {
  ro_next : body -> env -> bres;
  ro_clean : body -> bres;
  ro_stop : body -> bres;
  ro_leaf : body -> tgt -> outcome -> bres * bool;
  ro_flush : body -> bres;
  ro_arm : body -> body;
  ro_budget : body -> nat;
  ro_owner : option nat;
  ro_cerr_ref : bool;
  ro_init : body
}.

Definition is_val (o : outcome) : bool := match o with OVal _ => true | _ => false end.
Definition kn (out : option (opk * outcome)) : list outcome :=
  match out with Some (KN, o) => [o] | _ => [] end.

Definition pm_next (pm : pmode) (out : option (opk * outcome)) : pmode :=
  match pm with
  | PFresh | PIdle =>
      match out with
      | None => PBusy
      | Some (KN, o) => if is_val o then PIdle else PEnded
      | Some (KC, _) => PBad
      end
  | _ => PBad
  end.
Definition pm_clean (pm : pmode) (out : option (opk * outcome)) : pmode :=
  match pm with
  | PIdle | PEnded =>
      match out with
      | None => PCleaning
      | Some (KC, _) => PCleaned
      | Some (KN, _) => PBad
      end
  | _ => PBad
  end.
(* stop / leaf completion / flush: only an outstanding operation can complete *)
Definition pm_other (pm : pmode) (out : option (opk * outcome)) : pmode :=
  match out with
  | None => pm
  | Some (KN, o) => match pm with PBusy => if is_val o then PIdle else PEnded | _ => PBad end
  | Some (KC, _) => match pm with PCleaning => PCleaned | _ => PBad end
  end.

Definition lift (h : list outcome) (pm' : pmode) (r : bres) : res :=
  mk (Node (h ++ kn (b_out r)) pm' (b_st r)) (b_ev r) (b_out r) (b_fired r).

Definition wrap (J : rops) : ops :=
  {| o_next := fun st en => match st with Node h pm b => let r := ro_next J b en in lift h (pm_next pm (b_out r)) r end;
     o_clean := fun st => match st with Node h pm b => let r := ro_clean J b in lift h (pm_clean pm (b_out r)) r end;
     o_stop := fun st => match st with Node h pm b => let r := ro_stop J b in lift h (pm_other pm (b_out r)) r end;
     o_leaf := fun st tg o =>
       match st with Node h pm b => let (r, hit) := ro_leaf J b tg o in (lift h (pm_other pm (b_out r)) r, hit) end;
     o_flush := fun st => match st with Node h pm b => let r := ro_flush J b in lift h (pm_other pm (b_out r)) r end;
     o_arm := fun st => match st with Node h pm b => Node h pm (ro_arm J b) end;
     o_budget := fun st => match st with Node _ _ b => ro_budget J b end;
     o_owner := ro_owner J; o_cerr_ref := ro_cerr_ref J;
     o_init := Node [] PFresh (ro_init J) |}.

Definition opdel (ow : option nat) : list tev := match ow with Some id => [TOpDel id] | None => [] end.

(* ---- sources ----------------------------------------------------------------------------------------- *)
(* range_stream.hpp:93-99 next completes inline, ignores stop; cleanup = just_done() *)
Definition range_ops (a b : Z) : rops :=
  {| ro_next := fun bd _ =>
       match bd with
       | BRange pos =>
           if pos <? b then bmk (BRange (pos + 1)) [] (Some (KN, OVal pos)) false
           else bmk bd [] (Some (KN, ODone)) false
       | _ => bidle bd
       end;
     ro_clean := fun bd => bmk bd [] (Some (KC, ODone)) false;
     ro_stop := bidle;
     ro_leaf := fun bd _ _ => (bidle bd, false);
     ro_flush := bidle;
     ro_arm := fun bd => bd;
     ro_budget := fun bd => match bd with BRange pos => Z.to_nat (b - pos) | _ => O end;
     ro_owner := None;
     ro_cerr_ref := false;
     ro_init := BRange a |}.

(* single.hpp:44-78,125-130: the first next-operation gets the sender, later ones complete with done *)
Definition single_ops (v : Z) : rops :=
  {| ro_next := fun bd _ =>
       match bd with
       | BSingle used =>
           if used then bmk bd [] (Some (KN, ODone)) false
           else bmk (BSingle true) [] (Some (KN, OVal v)) false
       | _ => bidle bd
       end;
     ro_clean := fun bd => bmk bd [] (Some (KC, ODone)) false;
     ro_stop := bidle;
     ro_leaf := fun bd _ _ => (bidle bd, false);
     ro_flush := bidle;
     ro_arm := fun bd => bd;
     ro_budget := fun bd => match bd with BSingle false => 1%nat | _ => O end;
     ro_owner := None;
     ro_cerr_ref := false;
     ro_init := BSingle false |}.

(* never.hpp:44-80: start() only registers the stop callback, which completes with done *)
Definition never_ops : rops :=
  {| ro_next := fun bd en =>
       match bd with
       | BNever _ cut =>
           if runs_inline en then bmk (BNever false true) (fire_ev en) (Some (KN, ODone)) (fires en)
           else bmk (BNever true cut) [] None false
       | _ => bidle bd
       end;
     ro_clean := fun bd => bmk bd [] (Some (KC, ODone)) false;
     ro_stop := fun bd =>
       match bd with
       | BNever true _ => bmk (BNever false true) [] (Some (KN, ODone)) false
       | _ => bidle bd
       end;
     ro_leaf := fun bd _ _ => (bidle bd, false);
     ro_flush := bidle;
     ro_arm := fun bd => bd;
     ro_budget := fun _ => O;
     ro_owner := None;
     ro_cerr_ref := false;
     ro_init := BNever false false |}.

Definition okn (c : option outcome) : option (opk * outcome) := match c with Some o => Some (KN, o) | None => None end.
Definition okc (c : option outcome) : option (opk * outcome) := match c with Some o => Some (KC, o) | None => None end.

(* harness/k2s.hpp k2s::src *)
Definition src_ops (id : nat) (reactive : bool) : rops :=
  {| ro_next := fun bd en =>
       match bd with
       | BSrc s => let '(s', ev, c) := src_next id reactive s en in bmk (BSrc s') ev (okn c) (fires en)
       | _ => bidle bd
       end;
     ro_clean := fun bd =>
       match bd with
       | BSrc s => let (s', ev) := src_cleanup id s in bmk (BSrc s') ev None false
       | _ => bidle bd
       end;
     ro_stop := fun bd =>
       match bd with
       | BSrc s => let '(s', ev, c) := src_stop id reactive s in bmk (BSrc s') ev (okn c) false
       | _ => bidle bd
       end;
     ro_leaf := fun bd tg o =>
       match bd, tg with
       | BSrc s, TgNext i =>
           if Nat.eqb i id then
             let '(s', ev, c, hit) := src_complete id s o in (bmk (BSrc s') ev (okn c) false, hit)
           else (bidle bd, false)
       | BSrc s, TgClean i =>
           if Nat.eqb i id then
             let '(s', ev, c, hit) := src_cleanup_complete id s o in (bmk (BSrc s') ev (okc c) false, hit)
           else (bidle bd, false)
       | _, _ => (bidle bd, false)
       end;
     ro_flush := bidle;
     ro_arm := fun bd => bd;
     ro_budget := fun _ => O;
     ro_owner := Some id;
     ro_cerr_ref := false;
     ro_init := BSrc src0 |}.

(* ---- transform_stream = next_adapt_stream(s, then(_, ref(f))) ------------------------------------- *)
Definition tr_out (f : fn) (o : outcome) : list tev * outcome :=
  match o with
  | OVal v => ([TCall f v], match fn_apply f v with inl w => OVal w | inr e => OErr e end)
  | _ => ([], o)
  end.

Definition tr_wrap (f : fn) (r : res) : bres :=
  match r_out r with
  | Some (KN, o) =>
      let (ev2, o') := tr_out f o in bmk (BUn KTr (r_st r)) (r_ev r ++ ev2) (Some (KN, o')) (r_fired r)
  | out => bmk (BUn KTr (r_st r)) (r_ev r) out (r_fired r)
  end.

Definition tr_ops (f : fn) (I : ops) : rops :=
  {| ro_next := fun bd en => match bd with BUn KTr si => tr_wrap f (o_next I si en) | _ => bidle bd end;
     ro_clean := fun bd => match bd with BUn KTr si => tr_wrap f (o_clean I si) | _ => bidle bd end;
     ro_stop := fun bd => match bd with BUn KTr si => tr_wrap f (o_stop I si) | _ => bidle bd end;
     ro_leaf := fun bd tg o =>
       match bd with
       | BUn KTr si => let (r, hit) := o_leaf I si tg o in (tr_wrap f r, hit)
       | _ => (bidle bd, false)
       end;
     ro_flush := fun bd => match bd with BUn KTr si => tr_wrap f (o_flush I si) | _ => bidle bd end;
     ro_arm := fun bd => match bd with BUn KTr si => BUn KTr (o_arm I si) | _ => bd end;
     ro_budget := fun bd => match bd with BUn _ si => o_budget I si | _ => O end;
     ro_owner := o_owner I;
     ro_cerr_ref := o_cerr_ref I;
     ro_init := BUn KTr (o_init I) |}.

(* ---- adapt_stream / next_adapt_stream / cleanup_adapt_stream: the sender adaptor [an] is applied to
   next(inner), [ac] to cleanup(inner) --------------------------------------------------------------- *)
(* what the adapted next sender makes of the inner completion o (finally.hpp: the source operation is
   destroyed, then the completion sender = schedule runs, then o is delivered; then.hpp as transform) *)
Definition ad_out (a : sadapt) (o : outcome) : list tev * outcome :=
  match a with
  | AThen f => tr_out f o
  | AVia sid | ATypedVia sid => ([THop sid 0], o)
  | ADelay sid d => ([THop sid d], o)
  | _ => ([], o)
  end.
(* ... and of the inner cleanup's completion: finally destroys the inner cleanup operation before it hops *)
Definition ad_cev (a : sadapt) (ow : option nat) : list tev :=
  match a with
  | AVia sid | ATypedVia sid => opdel ow ++ [THop sid 0]
  | ADelay sid d => opdel ow ++ [THop sid d]
  | _ => []
  end.
(* on(sched, s) = sequence(schedule(sched), s): the hop comes before the inner operation starts *)
Definition ad_pre (a : sadapt) : list tev := match a with AOn sid => [THop sid 0] | _ => [] end.
Definition ad_own (a : sadapt) (ow : option nat) : option nat :=
  match a with AVia _ | ATypedVia _ | ADelay _ _ => None | _ => ow end.

Definition ad_wrap (an ac : sadapt) (ow : option nat) (pre : list tev) (r : res) : bres :=
  match r_out r with
  | Some (KN, o) =>
      let (ev2, o') := ad_out an o in bmk (BUn KAd (r_st r)) (pre ++ r_ev r ++ ev2) (Some (KN, o')) (r_fired r)
  | Some (KC, oc) => bmk (BUn KAd (r_st r)) (pre ++ r_ev r ++ ad_cev ac ow) (Some (KC, oc)) (r_fired r)
  | None => bmk (BUn KAd (r_st r)) (pre ++ r_ev r) None (r_fired r)
  end.

Definition ad_ops (an ac : sadapt) (I : ops) : rops :=
  {| ro_next := fun bd en => match bd with BUn KAd si => ad_wrap an ac (o_owner I) (ad_pre an) (o_next I si en) | _ => bidle bd end;
     ro_clean := fun bd => match bd with BUn KAd si => ad_wrap an ac (o_owner I) (ad_pre ac) (o_clean I si) | _ => bidle bd end;
     ro_stop := fun bd => match bd with BUn KAd si => ad_wrap an ac (o_owner I) [] (o_stop I si) | _ => bidle bd end;
     ro_leaf := fun bd tg o =>
       match bd with
       | BUn KAd si => let (r, hit) := o_leaf I si tg o in (ad_wrap an ac (o_owner I) [] r, hit)
       | _ => (bidle bd, false)
       end;
     ro_flush := fun bd => match bd with BUn KAd si => ad_wrap an ac (o_owner I) [] (o_flush I si) | _ => bidle bd end;
     ro_arm := fun bd => match bd with BUn KAd si => BUn KAd (o_arm I si) | _ => bd end;
     ro_budget := fun bd => match bd with BUn _ si => o_budget I si | _ => O end;
     ro_owner := ad_own ac (o_owner I);
     ro_cerr_ref := o_cerr_ref I;
     ro_init := BUn KAd (o_init I) |}.

(* ---- filter_stream.hpp:70-96: a rejected value destroys the inner next-op and starts a new one --- *)
Definition fi_env (s : fist) : env := {| e_stopped := fi_stopped s; e_armed := fi_armed s |}.

Fixpoint fi_loop (p : pred) (I : ops) (fuel : nat) (fs : fist) (r : res) : bres :=
  let fs1 := if r_fired r then {| fi_stopped := true; fi_armed := false |} else fs in
  match r_out r with
  | Some (KN, OVal v) =>
      match pred_apply p v with
      | inl true => bmk (BUn (KFi fs1) (r_st r)) (r_ev r ++ [TPred p v]) (Some (KN, OVal v)) (r_fired r)
      | inr e => bmk (BUn (KFi fs1) (r_st r)) (r_ev r ++ [TPred p v]) (Some (KN, OErr e)) (r_fired r)
      | inl false =>
          match fuel with
          | O => bmk (BUn (KFi fs1) (r_st r)) (r_ev r ++ [TPred p v]) None (r_fired r)
          | S fuel' =>
              let r3 := fi_loop p I fuel' fs1 (o_next I (r_st r) (fi_env fs1)) in
              bmk (b_st r3) (r_ev r ++ [TPred p v] ++ b_ev r3) (b_out r3) (r_fired r || b_fired r3)
          end
      end
  | out => bmk (BUn (KFi fs1) (r_st r)) (r_ev r) out (r_fired r)
  end.

Definition fi_wrap (p : pred) (I : ops) (fs : fist) (r : res) : bres :=
  fi_loop p I (S (o_budget I (r_st r))) fs r.

Definition fi_ops (p : pred) (I : ops) : rops :=
  {| ro_next := fun bd en =>
       match bd with
       | BUn (KFi _) si => fi_wrap p I {| fi_stopped := e_stopped en; fi_armed := e_armed en |} (o_next I si en)
       | _ => bidle bd
       end;
     ro_clean := fun bd => match bd with BUn (KFi fs) si => fi_wrap p I fs (o_clean I si) | _ => bidle bd end;
     ro_stop := fun bd =>
       match bd with
       | BUn (KFi _) si => fi_wrap p I {| fi_stopped := true; fi_armed := false |} (o_stop I si)
       | _ => bidle bd
       end;
     ro_leaf := fun bd tg o =>
       match bd with
       | BUn (KFi fs) si => let (r, hit) := o_leaf I si tg o in (fi_wrap p I fs r, hit)
       | _ => (bidle bd, false)
       end;
     ro_flush := fun bd => match bd with BUn (KFi fs) si => fi_wrap p I fs (o_flush I si) | _ => bidle bd end;
     ro_arm := fun bd =>
       match bd with
       | BUn (KFi fs) si =>
           BUn (KFi (if fi_stopped fs then fs else {| fi_stopped := false; fi_armed := true |})) (o_arm I si)
       | _ => bd
       end;
     ro_budget := fun bd => match bd with BUn _ si => o_budget I si | _ => O end;
     ro_owner := o_owner I;
     ro_cerr_ref := o_cerr_ref I;
     ro_init := BUn (KFi {| fi_stopped := false; fi_armed := false |}) (o_init I) |}.

(* ---- stop_immediately.hpp --------------------------------------------------------------------------- *)
Definition si_b (s : sist) (si : sst) : body := BUn (KSI s) si.

(* cleanup_sender::receiver_wrapper::set_done/set_error (l.355-381): destroy cleanupOp_, prefer nextError_ *)
Definition si_cleanup_done (vr : variant) (I : ops) (s : sist) (si : sst) (ev : list tev) (oc : outcome) (fired : bool) : bres :=
  (* set_error(Error&& error) l.367-380: cleanupOp_.destruct() first, then the reference is forwarded; if it
     points into the destroyed cleanup operation (take_until passes std::move(sourceError_)) it dangles *)
  let uaf := match oc, si_err s with
             | OErr _, None => if o_cerr_ref I && negb (v_sierr_fixed vr) then [TUaf 1] else []
             | _, _ => []
             end in
  bmk (si_b (si_set_err s None) si) (ev ++ opdel (o_owner I) ++ uaf)
      (Some (KC, match si_err s with Some e => OErr e | None => clean_outcome oc end)) fired.

(* next_receiver::handle_signal (l.153-190) for the source's next completing with o *)
Definition si_signal (vr : variant) (I : ops) (s : sist) (si : sst) (ev : list tev) (o : outcome) (fired : bool) : bres :=
  let err' := match o with OErr e => Some e | _ => si_err s end in
  match si_state s with
  | SActive =>
      (* we own the receiver: deliver (an error is moved out of nextError_ again) *)
      bmk (si_b (si_set_state s SCompleted) si) ev (Some (KN, o)) fired
  | SStopped =>
      (* the receiver already got done: drop the signal (an error stays in nextError_); the request_stop
         that caused this completion returns, so continuations deferred below run now *)
      let rf := o_flush I si in
      bmk (si_b (si_set_cut (si_set_err (si_set_state s SCompleted) err') true) (r_st rf)) (ev ++ r_ev rf) None fired
  | SCleanupReq =>
      (* cleanup was requested meanwhile: start cleanup(source_) now *)
      let s' := si_set_incl (si_set_err s err') true in
      let rc := o_clean I si in
      match r_out rc with
      | Some (KC, oc) => si_cleanup_done vr I s' (r_st rc) (ev ++ r_ev rc) oc fired
      | _ => bmk (si_b s' (r_st rc)) (ev ++ r_ev rc) None fired
      end
  | _ =>
      (* not reachable (no next of the source is active in these states; the real code asserts): the
         signal is passed on *)
      bmk (si_b s si) ev (Some (KN, o)) fired
  end.

Definition si_inner (vr : variant) (I : ops) (s : sist) (r : res) : bres :=
  match r_out r with
  | Some (KN, o) => si_signal vr I s (r_st r) (r_ev r) o (r_fired r)
  | Some (KC, oc) => si_cleanup_done vr I s (r_st r) (r_ev r) oc (r_fired r)
  | None => bmk (si_b s (r_st r)) (r_ev r) None (r_fired r)
  end.

Definition si_ops (vr : variant) (I : ops) : rops :=
  {| ro_next := fun bd en =>
       match bd with
       | BUn (KSI s) si =>
           (* l.248-252 *)
           if e_stopped en then bmk (si_b (si_set_cut s true) si) [] (Some (KN, ODone)) false
           else if e_armed en then
             (* l.256-266: nextOp_ constructed, state_ = active, then the callback runs inside
                stopCallback_.construct: CAS active -> stream_stopped, request_stop (nothing registered
                yet), set_done; start() continues with start(nextOp_) only after that (deferred) *)
             bmk (si_b (si_set_cut (si_set_defer (si_set_own (si_set_state s SStopped) true) true) true) si)
                 [TFire] (Some (KN, ODone)) true
           else si_inner vr I (si_set_state s SActive) (o_next I si (env_own (si_own s)))
       | _ => bidle bd
       end;
     ro_clean := fun bd =>
       match bd with
       | BUn (KSI s) si =>
           (* l.395-423 *)
           match si_state s with
           | SStopped => bmk (si_b (si_set_state s SCleanupReq) si) [] None false
           | SCompleted => si_inner vr I (si_set_incl s true) (o_clean I si)
           | SNotStarted => bmk bd [] (Some (KC, ODone)) false
           | _ => bidle bd
           end
       | _ => bidle bd
       end;
     ro_stop := fun bd =>
       match bd with
       | BUn (KSI s) si =>
           (* cancel_next_callback l.72-110 *)
           match si_state s with
           | SActive =>
               let s1 := si_set_cut (si_set_own (si_set_state s SStopped) true) true in
               let r1 := si_inner vr I s1 (o_stop I si) in
               bmk (b_st r1) (b_ev r1) (Some (KN, ODone)) false
           | _ => bidle bd
           end
       | _ => bidle bd
       end;
     ro_leaf := fun bd tg o =>
       match bd with
       | BUn (KSI s) si => let (r, hit) := o_leaf I si tg o in (si_inner vr I s r, hit)
       | _ => (bidle bd, false)
       end;
     ro_flush := fun bd =>
       match bd with
       | BUn (KSI s) si =>
           let r1 := si_inner vr I s (o_flush I si) in
           match b_st r1 with
           | BUn (KSI s1) si1 =>
               if si_defer s1 then
                 (* l.267 start(stream_.nextOp_.get()) after the callback delivered done; as written the
                    operation (and with it the reference member stream_) is already destroyed *)
                 let r2 := si_inner vr I (si_set_defer s1 false) (o_next I si1 (env_own (si_own s1))) in
                 bmk (b_st r2) (b_ev r1 ++ (if v_si_fixed vr then [] else [TUaf 0]) ++ b_ev r2)
                     (match b_out r2 with Some x => Some x | None => b_out r1 end) false
               else r1
           | _ => r1
           end
       | _ => bidle bd
       end;
     ro_arm := fun bd => bd;
     ro_budget := fun bd => match bd with BUn _ si => o_budget I si | _ => O end;
     ro_owner := None;
     ro_cerr_ref := false;
     ro_init := BUn (KSI si0) (o_init I) |}.

(* ---- type_erased_stream.hpp -------------------------------------------------------------------------- *)
Definition te_b (t : test) (si : sst) : body := BUn (KTE t) si.

Definition te_inner (vr : variant) (I : ops) (t : test) (r : res) : bres :=
  let uaf := if v_te_fixed vr then [] else [TUaf 2] in
  match r_out r with
  | Some (KN, o) =>
      (* _next_receiver::set_* l.137-153: deliver iff complete() brings refCount_ to 0 *)
      let ref' := Nat.pred (te_ref t) in
      if Nat.eqb ref' 0 then
        bmk (te_b {| te_out := false; te_ref := 0; te_own := te_own t |} (r_st r)) (r_ev r ++ uaf) (Some (KN, o)) (r_fired r)
      else bmk (te_b {| te_out := te_out t; te_ref := ref'; te_own := te_own t |} (r_st r)) (r_ev r ++ uaf) None (r_fired r)
  | Some (KC, oc) => bmk (te_b t (r_st r)) (r_ev r ++ opdel (o_owner I) ++ uaf) (Some (KC, clean_outcome oc)) (r_fired r)
  | None => bmk (te_b t (r_st r)) (r_ev r) None (r_fired r)
  end.

Definition te_ops (vr : variant) (I : ops) : rops :=
  {| ro_next := fun bd en =>
       match bd with
       | BUn (KTE _) si =>
           (* l.386-394: the stop callback is registered by the operation's constructor; run inline it does
              refCount_ 1->2, stopSource_.request_stop(), receiver_.set_done() (2->1, nothing delivered);
              start() l.396-402 then starts the inner next with the own token *)
           let own := runs_inline en in
           let t1 := {| te_out := true; te_ref := 1; te_own := own |} in
           let r1 := te_inner vr I t1 (o_next I si (env_own own)) in
           bmk (b_st r1) (fire_ev en ++ b_ev r1) (b_out r1) (fires en)
       | _ => bidle bd
       end;
     ro_clean := fun bd => match bd with BUn (KTE t) si => te_inner vr I t (o_clean I si) | _ => bidle bd end;
     ro_stop := fun bd =>
       match bd with
       | BUn (KTE t) si =>
           if te_out t then
             (* request_stop() l.404-414 *)
             let r := o_stop I si in
             let '(si1, ev1, ref1) :=
                 match r_out r with
                 | Some (KN, _) => let rf := o_flush I (r_st r) in (r_st rf, r_ev r ++ r_ev rf, te_ref t)
                 | _ => (r_st r, r_ev r, S (te_ref t))
                 end in
             let ref2 := Nat.pred ref1 in
             if Nat.eqb ref2 0 then
               bmk (te_b {| te_out := false; te_ref := 0; te_own := true |} si1) ev1 (Some (KN, ODone)) false
             else bmk (te_b {| te_out := true; te_ref := ref2; te_own := true |} si1) ev1 None false
           else bidle bd
       | _ => bidle bd
       end;
     ro_leaf := fun bd tg o =>
       match bd with
       | BUn (KTE t) si => let (r, hit) := o_leaf I si tg o in (te_inner vr I t r, hit)
       | _ => (bidle bd, false)
       end;
     ro_flush := fun bd => match bd with BUn (KTE t) si => te_inner vr I t (o_flush I si) | _ => bidle bd end;
     ro_arm := fun bd => bd;
     ro_budget := fun bd => match bd with BUn _ si => o_budget I si | _ => O end;
     ro_owner := None;
     ro_cerr_ref := false;
     ro_init := BUn (KTE te0) (o_init I) |}.

(* ---- take_until.hpp ---------------------------------------------------------------------------------- *)
Definition tu_b (u : tust) (si : sst) : body := BUn (KTU u) si.

(* start_trigger_cleanup l.317-328 *)
Definition tu_start_tclean (tid : nat) (u : tust) : tust * list tev :=
  let (s', ev) := src_cleanup tid (tu_trig u) in (tu_set_trig u s', ev).
(* the cleanupReady_ exchange at the end of trigger_next_done l.438-452 *)
Definition tu_trig_cont (tid : nat) (u : tust) : tust * list tev :=
  if tu_ready u then tu_start_tclean tid u else (tu_set_ready u true, []).
(* the trigger's stop callback runs (stopSource_ already requested) *)
Definition tu_trig_cb (tid : nat) (treact : bool) (u : tust) : tust * list tev :=
  let '(s', ev, c) := src_stop tid treact (tu_trig u) in
  let u1 := tu_set_trig u s' in
  match c with
  | Some _ => let (u2, ev2) := tu_trig_cont tid u1 in (u2, ev ++ ev2)
  | None => (u1, ev)
  end.
(* stopSource_.request_stop() while no next-operation of the source is registered on it *)
Definition tu_stop_trig (tid : nat) (treact : bool) (u : tust) : tust * list tev :=
  if tu_own u then (u, []) else tu_trig_cb tid treact (tu_set_own u true).

(* source_cleanup_done / source_cleanup_error l.330-360 *)
Definition tu_join_source (u : tust) (oc : outcome) : tust * option outcome :=
  let u1 := match oc with OErr e => tu_set_serr u (Some e) | _ => u end in
  if tu_completed u1 then
    (u1, Some (match oc with
               | OErr e => OErr e
               | _ => match tu_terr u1 with Some e => OErr e | None => ODone end
               end))
  else (tu_set_completed u1 true, None).
(* trigger_cleanup_done / trigger_cleanup_error l.362-397 *)
Definition tu_join_trigger (u : tust) (oc : outcome) : tust * option outcome :=
  let u1 := match oc with OErr e => tu_set_terr u (Some e) | _ => u end in
  if tu_completed u1 then
    (u1, Some (match tu_serr u1 with
               | Some e => OErr e
               | None => match oc with OErr e => OErr e | _ => ODone end
               end))
  else (tu_set_completed u1 true, None).

(* a completion coming from the source chain: next -> receiver_wrapper l.106-122, cleanup -> source_receiver l.190-206 *)
Definition tu_inner_core (I : ops) (tid : nat) (treact : bool) (u : tust) (r : res)
  : tust * list tev * option (opk * outcome) :=
  match r_out r with
  | Some (KN, o) =>
      let u1 := tu_set_out u false in
      let (u2, ev2) := match o with OVal _ => (u1, []) | _ => tu_stop_trig tid treact u1 end in
      (u2, r_ev r ++ ev2, Some (KN, o))
  | Some (KC, oc) =>
      let (u1, jo) := tu_join_source u (clean_outcome oc) in
      (u1, r_ev r ++ opdel (o_owner I), okc jo)
  | None => (u, r_ev r, None)
  end.
Definition tu_inner (I : ops) (tid : nat) (treact : bool) (u : tust) (r : res) : bres :=
  let '(u1, ev, out) := tu_inner_core I tid treact u r in bmk (tu_b u1 (r_st r)) ev out (r_fired r).

Definition tu_ops (vr : variant) (tid : nat) (treact : bool) (I : ops) : rops :=
  {| ro_next := fun bd en =>
       match bd with
       | BUn (KTU u) si =>
           (* next_sender::_op::type::start l.157-175 *)
           let u0 := tu_set_out u true in
           let '(u1, ev1) :=
               if tu_tstarted u0 then (u0, [])
               else
                 let '(s', ev, c) := src_next tid treact (tu_trig u0) (env_own (tu_own u0)) in
                 let u' := tu_set_trig (tu_set_tstarted u0 true) s' in
                 match c with
                 | Some _ => let (u'', ev') := tu_trig_cont tid u' in (u'', ev ++ ev')
                 | None => (u', ev)
                 end in
           let '(u2, ev2) :=
               if runs_inline en then let (u', ev) := tu_stop_trig tid treact u1 in (u', fire_ev en ++ ev)
               else (u1, []) in
           let r1 := tu_inner I tid treact u2 (o_next I si (env_own (tu_own u2))) in
           bmk (b_st r1) (ev1 ++ ev2 ++ b_ev r1) (b_out r1) (fires en)
       | _ => bidle bd
       end;
     ro_clean := fun bd =>
       match bd with
       | BUn (KTU u) si =>
           (* cleanup_sender::_op::type::start l.291-315 *)
           let rc := o_clean I si in
           let '(u1, ev1, _) := tu_inner_core I tid treact u rc in
           let '(u2, ev2) :=
               if tu_ready u1 then tu_start_tclean tid u1
               else
                 let (u', ev) := tu_stop_trig tid treact u1 in
                 if tu_ready u' then let (u'', ev') := tu_start_tclean tid u' in (u'', ev ++ ev')
                 else (tu_set_ready u' true, ev) in
           bmk (tu_b u2 (r_st rc)) (ev1 ++ ev2) None false
       | _ => bidle bd
       end;
     ro_stop := fun bd =>
       match bd with
       | BUn (KTU u) si =>
           (* cancel_callback l.85-89: stopSource_.request_stop(); callbacks run most recently registered
              first: the source chain's, then the trigger's.  If the source chain completes the receiver
              from inside its callback the trigger's callback runs only after that cascade unwound. *)
           if tu_out u && negb (tu_own u) then
             let u1 := tu_set_own u true in
             let r := o_stop I si in
             match r_out r with
             | Some _ => tu_inner I tid treact (tu_set_defer u1 1) r
             | None =>
                 let (u2, ev2) := tu_trig_cb tid treact u1 in
                 bmk (tu_b u2 (r_st r)) (r_ev r ++ ev2) None false
             end
           else bidle bd
       | _ => bidle bd
       end;
     ro_leaf := fun bd tg o =>
       match bd with
       | BUn (KTU u) si =>
           match tg with
           | TgNext i =>
               if Nat.eqb i tid then
                 (* trigger_next_receiver l.57-76 -> trigger_next_done l.438-452 *)
                 let '(s', ev, c, hit) := src_complete tid (tu_trig u) o in
                 if hit then
                   let u1 := tu_set_trig u s' in
                   if tu_ready u1 then
                     let (u2, ev2) := tu_start_tclean tid u1 in (bmk (tu_b u2 si) (ev ++ ev2) None false, true)
                   else if tu_own u1 then (bmk (tu_b (tu_set_ready u1 true) si) ev None false, true)
                   else
                     let u2 := tu_set_own u1 true in
                     let r := o_stop I si in
                     match r_out r with
                     | Some _ =>
                         let r' := tu_inner I tid treact (tu_set_defer u2 2) r in
                         (bmk (b_st r') (ev ++ b_ev r') (b_out r') false, true)
                     | None => (bmk (tu_b (tu_set_ready u2 true) (r_st r)) (ev ++ r_ev r) None false, true)
                     end
                 else (bidle bd, false)
               else let (r, hit) := o_leaf I si tg o in (tu_inner I tid treact u r, hit)
           | TgClean i =>
               if Nat.eqb i tid then
                 (* trigger_receiver l.230-247: set_done destroys sourceOp_ (as written) *)
                 let '(s', ev, c, hit) := src_cleanup_complete tid (tu_trig u) o in
                 match hit, c with
                 | true, Some oc =>
                     let del := match oc with
                                | ODone => if v_tu_fixed vr then [TOpDel tid] else opdel (o_owner I)
                                | _ => [TOpDel tid]
                                end in
                     let (u2, jo) := tu_join_trigger (tu_set_trig u s') oc in
                     (bmk (tu_b u2 si) (ev ++ del) (okc jo) false, true)
                 | _, _ => (bidle bd, false)
                 end
               else let (r, hit) := o_leaf I si tg o in (tu_inner I tid treact u r, hit)
           end
       | _ => (bidle bd, false)
       end;
     ro_flush := fun bd =>
       match bd with
       | BUn (KTU u) si =>
           let rf := o_flush I si in
           let '(u1, ev1, out1) := tu_inner_core I tid treact u rf in
           let '(u2, ev2) :=
               match tu_defer u1 with
               | 1%nat => tu_trig_cb tid treact (tu_set_defer u1 0)
               | 2%nat => tu_trig_cont tid (tu_set_defer u1 0)
               | _ => (u1, [])
               end in
           bmk (tu_b u2 (r_st rf)) (ev1 ++ ev2) out1 (r_fired rf)
       | _ => bidle bd
       end;
     ro_arm := fun bd => bd;
     ro_budget := fun bd => match bd with BUn _ si => o_budget I si | _ => O end;
     ro_owner := None;
     ro_cerr_ref := true;
     ro_init := BUn (KTU tu0) (o_init I) |}.

(* ---- pipelines ----------------------------------------------------------------------------------------- *)
Fixpoint ops_of (vr : variant) (e : stexpr) : ops :=
  wrap
    match e with
    | SRange a b => range_ops a b
    | SSingle v => single_ops v
    | SSrc id reactive => src_ops id reactive
    | SNever => never_ops
    | STransform f s => tr_ops f (ops_of vr s)
    | SFilter p s => fi_ops p (ops_of vr s)
    | STakeUntil s tid treact => tu_ops vr tid treact (ops_of vr s)
    | SStopImm s => si_ops vr (ops_of vr s)
    | STypeErase s => te_ops vr (ops_of vr s)
    | SNextAdapt a s => ad_ops a AId (ops_of vr s)
    | SCleanupAdapt a s => ad_ops AId a (ops_of vr s)
    | SAdapt1 a s => ad_ops a a (ops_of vr s)
    | SAdapt2 an ac s => ad_ops an ac (ops_of vr s)
    end.

(* ---- the consumer: reduce_stream.hpp ------------------------------------------------------------------- *)
Inductive xev :=
| XT (t : tev)
| XFeed (acc x : Z)        (* the consumer's function got element x (acc = 0 for for_each) *)
| XRoot (o : outcome)      (* the root receiver completed *)
| XSkip.                   (* script entry that did not apply *)

Inductive cphase := CNexting | CCleaning (pend : outcome) | CFinished.

Record rstate := { x_st : sst; x_acc : Z; x_ph : cphase; x_stopped : bool; x_armed : bool;
                   x_roots : nat; x_tr : list xev }.

Definition cons_init (c : cons) : Z := match c with CReduce i _ => i | CForEach _ => 0 end.

(* _next_receiver::set_value l.233-250: the reducer runs after the next-op was destroyed *)
Definition feed (c : cons) (acc x : Z) : list xev * (Z + Z) :=
  match c with
  | CReduce _ f => ([XFeed acc x], rfn_apply f acc x)
  | CForEach g => ([XFeed 0 x], match fn_apply g x with inl _ => inl acc | inr e => inr e end)
  end.

Definition x_push (rs : rstate) (ev : list xev) : rstate :=
  {| x_st := x_st rs; x_acc := x_acc rs; x_ph := x_ph rs; x_stopped := x_stopped rs; x_armed := x_armed rs;
     x_roots := x_roots rs; x_tr := x_tr rs ++ ev |}.

(* the state after absorbing the events / fired flag / new stream state of a result *)
Definition x_absorb (rs : rstate) (r : res) : rstate :=
  {| x_st := r_st r; x_acc := x_acc rs; x_ph := x_ph rs;
     x_stopped := x_stopped rs || r_fired r; x_armed := x_armed rs && negb (r_fired r);
     x_roots := x_roots rs; x_tr := x_tr rs ++ map XT (r_ev r) |}.

(* cleanup completed with oc: _done_cleanup_receiver / _error_cleanup_receiver l.93-113, l.150-166 *)
Definition x_finish (I : ops) (rs : rstate) (pend oc : outcome) : rstate :=
  {| x_st := x_st rs; x_acc := x_acc rs; x_ph := CFinished; x_stopped := x_stopped rs; x_armed := x_armed rs;
     x_roots := S (x_roots rs);
     x_tr := x_tr rs ++ map XT (opdel (o_owner I)) ++ [XRoot (match oc with OErr e => OErr e | _ => pend end)] |}.

(* _next_receiver::set_done / set_error / catch l.252-276: run cleanup(stream_) *)
Definition x_cleanup (I : ops) (rs : rstate) (pend : outcome) : rstate :=
  let rc := o_clean I (x_st rs) in
  let rs1 := x_absorb rs rc in
  match r_out rc with
  | Some (KC, oc) => x_finish I rs1 pend oc
  | _ => {| x_st := x_st rs1; x_acc := x_acc rs1; x_ph := CCleaning pend; x_stopped := x_stopped rs1;
            x_armed := x_armed rs1; x_roots := x_roots rs1; x_tr := x_tr rs1 |}
  end.

Fixpoint pump (fuel : nat) (c : cons) (I : ops) (rs : rstate) (r : res) {struct fuel} : rstate :=
  let rs1 := x_absorb rs r in
  match r_out r, x_ph rs with
  | Some (KN, OVal v), CNexting =>
      let (ev, y) := feed c (x_acc rs) v in
      let rs2 := x_push rs1 ev in
      match y with
      | inl acc' =>
          let rs3 := {| x_st := x_st rs2; x_acc := acc'; x_ph := CNexting; x_stopped := x_stopped rs2;
                        x_armed := x_armed rs2; x_roots := x_roots rs2; x_tr := x_tr rs2 |} in
          match fuel with
          | O => rs3
          | S fuel' =>
              pump fuel' c I rs3 (o_next I (x_st rs3) {| e_stopped := x_stopped rs3; e_armed := x_armed rs3 |})
          end
      | inr e => x_cleanup I rs2 (OErr e)
      end
  | Some (KN, ODone), CNexting => x_cleanup I rs1 (OVal (x_acc rs))
  | Some (KN, OErr e), CNexting => x_cleanup I rs1 (OErr e)
  | Some (KC, oc), CCleaning pend => x_finish I rs1 pend oc
  | _, _ => rs1
  end.

Definition x_pump (c : cons) (I : ops) (rs : rstate) (r : res) : rstate :=
  pump (S (o_budget I (r_st r))) c I rs r.

(* after every entry the stack unwinds completely: run the deferred continuations *)
Definition x_settle (c : cons) (I : ops) (rs : rstate) (r : res) : rstate :=
  let rs1 := x_pump c I rs r in
  x_pump c I rs1 (o_flush I (x_st rs1)).

Inductive sev := EvNext (id : nat) (o : outcome) | EvClean (id : nat) (o : outcome) | EvStop | EvArm.

(* prestop: 0 = no, 1 = the root token is already stopped, 2 = armed *)
Definition run_start (vr : variant) (c : cons) (e : stexpr) (prestop : nat) : rstate :=
  let I := ops_of vr e in
  let stopped := Nat.eqb prestop 1 in
  let armed := Nat.eqb prestop 2 in
  let rs0 := {| x_st := o_init I; x_acc := cons_init c; x_ph := CNexting; x_stopped := stopped; x_armed := armed;
                x_roots := 0; x_tr := [] |} in
  x_settle c I rs0 (o_next I (o_init I) {| e_stopped := stopped; e_armed := armed |}).

Definition run_ev (vr : variant) (c : cons) (e : stexpr) (rs : rstate) (ev : sev) : rstate :=
  let I := ops_of vr e in
  match ev with
  | EvNext id o =>
      let (r, hit) := o_leaf I (x_st rs) (TgNext id) o in
      if hit then x_settle c I rs r else x_push rs [XSkip]
  | EvClean id o =>
      let (r, hit) := o_leaf I (x_st rs) (TgClean id) o in
      if hit then x_settle c I rs r else x_push rs [XSkip]
  | EvStop =>
      if x_stopped rs then x_push rs [XSkip]
      else
        let rs1 := {| x_st := x_st rs; x_acc := x_acc rs; x_ph := x_ph rs; x_stopped := true; x_armed := false;
                      x_roots := x_roots rs; x_tr := x_tr rs |} in
        match x_ph rs with
        | CNexting => x_settle c I rs1 (o_stop I (x_st rs))
        | _ => rs1
        end
  | EvArm =>
      if x_stopped rs || x_armed rs then x_push rs [XSkip]
      else {| x_st := o_arm I (x_st rs); x_acc := x_acc rs; x_ph := x_ph rs; x_stopped := false; x_armed := true;
              x_roots := x_roots rs; x_tr := x_tr rs |}
  end.

Definition exec (vr : variant) (c : cons) (e : stexpr) (prestop : nat) (script : list sev) : rstate :=
  fold_left (run_ev vr c e) script (run_start vr c e prestop).

Definition fixed : variant := {| v_tu_fixed := true; v_si_fixed := true; v_sierr_fixed := true; v_te_fixed := true |}.
Definition as_written : variant := {| v_tu_fixed := false; v_si_fixed := false; v_sierr_fixed := false; v_te_fixed := false |}.

End SCalc.
