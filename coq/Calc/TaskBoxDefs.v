(* TaskBox - task<> OBJECT operations outside a run (property C10, "every coroutine frame is destroyed exactly
   once"): a coroutine returning task<> is created suspended at initial_suspend when it is called, its by-value
   arguments already live in the frame; the task object owns the frame (task.hpp coro_holder: move constructor,
   copy-and-swap move assignment, destructor) until it is awaited.  k slots (std::optional<task<int>>); operations:
     ONew i     slot[i] = make()            (emplace when disengaged, move-ASSIGN onto whatever it holds otherwise)
     OMove i j  slot[j] = std::move(slot[i]) (emplace / move-assign; slot[i] stays a moved-from task)
     ODrop i    slot[i].reset()
     OAwait i   connect(std::move(slot[i]), receiver), start, destroy the operation (the body returns at once)
   and at the end every slot is dropped, in order.  Sequential; executable definitions only. *)
From Coq Require Import List Arith Bool.
Import ListNotations.

Module TaskBox.

Inductive slot := SNone | SEmpty | SPend (n : nat).    (* disengaged / holds a moved-from task / owns frame n *)
Inductive op := ONew (i : nat) | OMove (i j : nat) | ODrop (i : nat) | OAwait (i : nat).
Inductive bev :=
| BFrame (n : nat)          (* coroutine n was created (frames are numbered in creation order) *)
| BDestroyed (n : nat)      (* its frame, with the argument copies in it, was destroyed *)
| BBody (n : nat)           (* its body ran (a tracked local constructed and destroyed) *)
| BRoot (n : nat)           (* the receiver got its value *)
| BSkip.

Record st := { slots : list slot; next : nat }.

Fixpoint set_nth (i : nat) (x : slot) (l : list slot) : list slot :=
  match l, i with
  | [], _ => []
  | _ :: r, O => x :: r
  | y :: r, S i' => y :: set_nth i' x r
  end.

Definition dropev (s : slot) : list bev := match s with SPend m => [BDestroyed m] | _ => [] end.

Definition step (s : st) (o : op) : st * list bev :=
  let k := length (slots s) in
  match o with
  | ONew i =>
      if Nat.ltb i k then
        ({| slots := set_nth i (SPend (next s)) (slots s); next := S (next s) |},
         BFrame (next s) :: dropev (nth i (slots s) SNone))
      else (s, [BSkip])
  | OMove i j =>
      if Nat.ltb i k && Nat.ltb j k && negb (Nat.eqb i j) then
        match nth i (slots s) SNone with
        | SNone => (s, [BSkip])
        | src =>
            ({| slots := set_nth i SEmpty (set_nth j src (slots s)); next := next s |},
             dropev (nth j (slots s) SNone))
        end
      else (s, [BSkip])
  | ODrop i =>
      if Nat.ltb i k then
        ({| slots := set_nth i SNone (slots s); next := next s |}, dropev (nth i (slots s) SNone))
      else (s, [BSkip])
  | OAwait i =>
      match nth i (slots s) SNone with
      | SPend n => ({| slots := set_nth i SEmpty (slots s); next := next s |}, [BBody n; BDestroyed n; BRoot n])
      | _ => (s, [BSkip])
      end
  end.

Definition init (k : nat) : st := {| slots := repeat SNone k; next := 0 |}.

Definition step_acc (c : st * list bev) (o : op) : st * list bev :=
  let (s', e) := step (fst c) o in (s', snd c ++ e).
Definition run_ops (k : nat) (ops : list op) : st * list bev := fold_left step_acc ops (init k, []).

(* ... and finally every slot is destroyed, in order *)
Definition exec (k : nat) (ops : list op) : list bev :=
  let c := run_ops k ops in snd c ++ flat_map dropev (slots (fst c)).

End TaskBox.
