From Coq Require Import ZArith List Bool.
From V Require Import Calc.CalcDefs Calc.QueryProofs.
Import ListNotations.
Import Calc.
Local Open Scope Z_scope.

(* every leaf start of every run carries exactly the statically determined query answers:
   no adaptor other than with_query_value / unstoppable / when_all / stop_when changes any query *)
Theorem C12_calc_queries_static : forall e pre script id st sp a b,
  NoDup (leaf_ids e) ->
  In (XT (TLeafStart id st sp a b)) (r_tr (exec e pre script)) ->
  static_q e id = Some (a, b, sp).
Proof. exact queries_static. Qed.
Print Assumptions C12_calc_queries_static.

(* for all expressions, relationally: the answers are the documented overrides folded along a path
   from the root to the leaf; a token that cannot be stopped is never observed stopped *)
Theorem C12_calc_queries_sees : forall e pre script id st sp a b,
  In (XT (TLeafStart id st sp a b)) (r_tr (exec e pre script)) ->
  sees e root_sum id (a, b, sp) /\ (sp = false -> st = false).
Proof. exact queries_sees. Qed.
Print Assumptions C12_calc_queries_sees.

(* q0/q1 = the innermost enclosing with_query_value for that query, else the root's answer 0;
   stop_possible = false iff the nearest enclosing unstoppable/when_all/stop_when is an unstoppable *)
Theorem C12_calc_queries_innermost : forall e pre script id st sp a b,
  In (XT (TLeafStart id st sp a b)) (r_tr (exec e pre script)) ->
  exists p, path_to e id p /\
    a = inner_q0 (rev p) 0 /\ b = inner_q1 (rev p) 0 /\ sp = inner_sp (rev p) true.
Proof. exact queries_innermost. Qed.
Print Assumptions C12_calc_queries_innermost.

Theorem C12_calc_sees_static : forall e, NoDup (leaf_ids e) ->
  forall sm id x, sees e sm id x -> static_q_from e sm id = Some x.
Proof. exact sees_static. Qed.
Print Assumptions C12_calc_sees_static.

Theorem C12_calc_static_q_sees : forall e sm id x, static_q_from e sm id = Some x -> sees e sm id x.
Proof. exact static_q_sees. Qed.
Print Assumptions C12_calc_static_q_sees.

Example C12_calc_ex :
  let C12_ex :=
    Un (UWithQ 0 7)
       (Bin BWhenAll
            (Un UUnstoppable (Bin BSeq (Leaf 1) (Un (UWithQ 1 5) (LeafN 2))))
            (Bin BStopWhen (Un (UWithQ 0 9) (Leaf 3))
                 (Bin BLetV (Just 4) (Un (UThen (FAdd 1)) (LeafN 4))))) in
  NoDup (leaf_ids C12_ex) /\
  map (static_q C12_ex) [1; 2; 3; 4; 5]%nat =
    [Some (7, 0, false); Some (7, 5, false); Some (9, 0, true); Some (7, 0, true); None] /\
  r_tr (exec C12_ex false [EvLeaf 1 (OVal 1); EvStop; EvLeaf 3 (OVal 3); EvLeaf 2 (OVal 2)]) =
    [XT (TLeafStart 1 false false 7 0); XT (TLeafStart 3 false true 9 0);
     XT (TLeafStart 4 false true 7 0); XT (TLeafStart 2 false false 7 5);
     XT (TLeafStop 4); XT (TLeafStop 3); XRoot ODone 0].
Proof.
  intros C12_ex. split; [repeat constructor; simpl; intuition discriminate|].
  vm_compute. split; reflexivity.
Qed.
