(* C01 on the sender calculus (Calc/CalcDefs.v): every started operation completes exactly once,
   never before start, and no completion is lost -- for all sender expressions and all scripts.
   Statements only; proofs are in Calc/OnceProofs.v. *)
From Coq Require Import ZArith List Bool.
From V Require Import Calc.CalcDefs Calc.OnceProofs.
Import ListNotations.
Import Calc.

(* ---- the three entry points keep the state well formed; a completion leaves OFin ---- *)

Theorem C01_calc_start_spec : forall e en st tr r, start e en = (st, tr, r) ->
  (r = None -> wf e st /\ running_leaves e st <> []) /\ (r <> None -> st = OFin).
Proof. exact start_spec. Qed.
Print Assumptions C01_calc_start_spec.

Theorem C01_calc_stop_spec : forall e st0 st tr r, wf e st0 -> stop e st0 = (st, tr, r) ->
  (r = None -> wf e st /\ running_leaves e st <> []) /\ (r <> None -> st = OFin).
Proof. exact stop_spec. Qed.
Print Assumptions C01_calc_stop_spec.

Theorem C01_calc_leafev_spec : forall e st0 id o st tr r hit,
  wf e st0 -> leafev e st0 id o = ((st, tr, r), hit) ->
  (r = None -> wf e st /\ running_leaves e st <> []) /\ (r <> None -> st = OFin).
Proof. exact leafev_spec. Qed.
Print Assumptions C01_calc_leafev_spec.

(* silent after completion, state level *)
Theorem C01_calc_stop_fin : forall e, stop e OFin = (OFin, [], None).
Proof. exact stop_fin. Qed.
Print Assumptions C01_calc_stop_fin.

Theorem C01_calc_leafev_fin : forall e id o, leafev e OFin id o = ((OFin, [], None), false).
Proof. exact leafev_fin. Qed.
Print Assumptions C01_calc_leafev_fin.

(* a live operation always has a running leaf *)
Theorem C01_calc_no_lost_state : forall e st, wf e st -> running_leaves e st <> [].
Proof. exact no_lost. Qed.
Print Assumptions C01_calc_no_lost_state.

(* a leaf event applies iff its leaf is running, and then the leaf is not running any more *)
Theorem C01_calc_leafev_hit : forall e st id o, wf e st ->
  (snd (leafev e st id o) = true <-> In id (running_leaves e st)).
Proof. exact leafev_hit. Qed.
Print Assumptions C01_calc_leafev_hit.

Theorem C01_calc_leafev_hit_removes : forall e st id o st' tr r,
  NoDup (leaf_ids e) -> wf e st -> leafev e st id o = ((st', tr, r), true) ->
  ~ In id (running_leaves e st').
Proof. exact leafev_hit_removes. Qed.
Print Assumptions C01_calc_leafev_hit_removes.

(* ---- whole runs ---- *)

Theorem C01_calc_at_most_once : forall e pre script,
  (r_roots (exec e pre script) <= 1)%nat /\
  count_roots (r_tr (exec e pre script)) = r_roots (exec e pre script).
Proof. exact C01_at_most_once. Qed.
Print Assumptions C01_calc_at_most_once.

Theorem C01_calc_root_after_start : forall e pre,
  (count_roots (r_tr (exec e pre [])) <= 1)%nat /\
  (forall s1 s2, exists suf, r_tr (exec e pre (s1 ++ s2)) = r_tr (exec e pre s1) ++ suf) /\
  (forall s1 s2, (r_roots (exec e pre s1) <= r_roots (exec e pre (s1 ++ s2)))%nat).
Proof. exact C01_root_after_start. Qed.
Print Assumptions C01_calc_root_after_start.

Theorem C01_calc_no_lost : forall e pre script,
  let rs := exec e pre script in
  (r_roots rs = 0%nat -> wf e (r_st rs) /\ running_leaves e (r_st rs) <> []) /\
  (r_roots rs = 1%nat -> r_st rs = OFin /\ running_leaves e (r_st rs) = []).
Proof. exact C01_no_lost. Qed.
Print Assumptions C01_calc_no_lost.

Theorem C01_calc_silent_after : forall e pre script script2,
  r_roots (exec e pre script) = 1%nat ->
  let rs' := exec e pre (script ++ script2) in
  r_roots rs' = 1%nat /\ r_st rs' = OFin /\
  exists n, (n <= length script2)%nat /\ r_tr rs' = r_tr (exec e pre script) ++ repeat XSkip n.
Proof. exact C01_silent_after. Qed.
Print Assumptions C01_calc_silent_after.

Theorem C01_calc_leaf_once : forall e pre script id o,
  let rs := exec e pre script in
  let rs' := exec e pre (script ++ [EvLeaf id o]) in
  (In id (running_leaves e (r_st rs)) \/
   r_tr rs' = r_tr rs ++ [XSkip] /\ r_st rs' = r_st rs /\ r_roots rs' = r_roots rs) /\
  (NoDup (leaf_ids e) -> ~ In id (running_leaves e (r_st rs'))).
Proof. exact C01_leaf_once. Qed.
Print Assumptions C01_calc_leaf_once.

(* ---- a concrete run: when_all(let_value(leaf 1, stop_when(leafN 2, leaf 3)), then(leaf 4, +1)) ---- *)

Example C01_calc_ex_done :
  let e := Bin BWhenAll (Bin BLetV (Leaf 1) (Bin BStopWhen (LeafN 2) (Leaf 3)))
                        (Un (UThen (FAdd 1)) (Leaf 4)) in
  let rs := exec e false [EvLeaf 1%nat (OVal 5); EvLeaf 4%nat (OVal 7); EvStop; EvLeaf 3%nat (OVal 0)] in
  r_roots rs = 1%nat /\ r_st rs = OFin /\ count_roots (r_tr rs) = 1%nat.
Proof. vm_compute. repeat split. Qed.

Example C01_calc_ex_pending :
  let e := Bin BWhenAll (Bin BLetV (Leaf 1) (Bin BStopWhen (LeafN 2) (Leaf 3)))
                        (Un (UThen (FAdd 1)) (Leaf 4)) in
  let rs := exec e false [EvLeaf 1%nat (OVal 5); EvLeaf 4%nat (OVal 7); EvStop] in
  r_roots rs = 0%nat /\ running_leaves e (r_st rs) = [3%nat] /\ leaf_ids e = [1; 2; 3; 4]%nat.
Proof. vm_compute. repeat split. Qed.
