(* C07, arithmetic part: "time_point arithmetic is exact and totally ordered", sorted insertion with
   FIFO ties.  Theorems about the models coq/Arith/MonoClockDefs.v (monotonic_clock::time_point) and
   coq/Arith/SortedInsertDefs.v (enqueue of the timed contexts, intrusive_heap), restated from
   Arith/MonoClockProofs.v / Arith/SortedInsertProofs.v.  Tie: K3, harness/k3_c07.cpp. *)
From Coq Require Import ZArith List Bool Permutation.
From V Require Import Arith.MonoClockDefs Arith.MonoClockProofs Arith.SortedInsertDefs Arith.SortedInsertProofs.
Import ListNotations.
Local Open Scope Z_scope.

Theorem C07_normalize_value :
  forall t, value (normalize t) = value t.
Proof. exact normalize_value. Qed.
Print Assumptions C07_normalize_value.

Theorem C07_normalize_canonical :
  forall t, canonical (normalize t).
Proof. exact normalize_canonical. Qed.
Print Assumptions C07_normalize_canonical.

Theorem C07_from_s_ns_spec :
  forall s n, canonical (from_s_ns s n) /\ value (from_s_ns s n) = s * ns_per_sec + n.
Proof. exact from_s_ns_spec. Qed.
Print Assumptions C07_from_s_ns_spec.

Theorem C07_canonical_unique :
  forall a b, canonical a -> canonical b -> value a = value b -> a = b.
Proof. exact canonical_unique. Qed.
Print Assumptions C07_canonical_unique.

Theorem C07_lt_iff :
  forall a b, canonical a -> canonical b -> (lt a b = true <-> value a < value b).
Proof. exact lt_iff. Qed.
Print Assumptions C07_lt_iff.

Theorem C07_eqb_iff :
  forall a b, canonical a -> canonical b -> (eqb a b = true <-> value a = value b).
Proof. exact eqb_iff. Qed.
Print Assumptions C07_eqb_iff.

Theorem C07_lt_trichotomy :
  forall a b, canonical a -> canonical b ->
    (lt a b = true  /\ a <> b /\ lt b a = false) \/
    (lt a b = false /\ a = b  /\ lt b a = false) \/
    (lt a b = false /\ a <> b /\ lt b a = true).
Proof. exact lt_trichotomy. Qed.
Print Assumptions C07_lt_trichotomy.

Theorem C07_lt_trans :
  forall a b c, canonical a -> canonical b -> canonical c ->
    lt a b = true -> lt b c = true -> lt a c = true.
Proof. exact lt_trans. Qed.
Print Assumptions C07_lt_trans.

Theorem C07_le_iff :
  forall a b, canonical a -> canonical b -> (le a b = true <-> value a <= value b).
Proof. exact le_iff. Qed.
Print Assumptions C07_le_iff.

Theorem C07_add_dur_value :
  forall t d, canonical t ->
    value (add_dur t d) = value t + 100 * d /\ canonical (add_dur t d).
Proof. exact add_dur_value. Qed.
Print Assumptions C07_add_dur_value.

Theorem C07_sub_dur_value :
  forall t d, canonical t ->
    value (sub_dur t d) = value t - 100 * d /\ canonical (sub_dur t d).
Proof. exact sub_dur_value. Qed.
Print Assumptions C07_sub_dur_value.

Theorem C07_add_sub_roundtrip :
  forall t d, canonical t -> sub_dur (add_dur t d) d = t.
Proof. exact add_sub_roundtrip. Qed.
Print Assumptions C07_add_sub_roundtrip.

Theorem C07_sub_add_roundtrip :
  forall t d, canonical t -> add_dur (sub_dur t d) d = t.
Proof. exact sub_add_roundtrip. Qed.
Print Assumptions C07_sub_add_roundtrip.

Theorem C07_add_dur_lt_mono :
  forall t d1 d2, lt (add_dur t d1) (add_dur t d2) = true <-> d1 < d2.
Proof. exact add_dur_lt_mono. Qed.
Print Assumptions C07_add_dur_lt_mono.

(* ---- operator-(time_point, time_point), current code (repo commit 69a85c3): diff ---- *)

Theorem C07_diff_trunc :
  forall a b, canonical a -> canonical b -> diff a b = Z.quot (value a - value b) 100.
Proof. exact diff_trunc. Qed.
Print Assumptions C07_diff_trunc.

(* weaker hypotheses that suffice; canonicity of both points implies them *)
Theorem C07_diff_trunc_gen :
  forall a b,
    (0 < sec a - sec b -> - ns_per_sec <= ns a - ns b) ->
    (sec a - sec b < 0 -> ns a - ns b <= ns_per_sec) ->
    diff a b = Z.quot (value a - value b) 100.
Proof. exact diff_trunc_gen. Qed.
Print Assumptions C07_diff_trunc_gen.

(* ... and some hypothesis is needed: (2 s, -1 000 000 001 ns) - (0, 0) *)
Theorem C07_diff_trunc_needs_hyp :
  exists a b, diff a b <> Z.quot (value a - value b) 100.
Proof. exact diff_trunc_needs_hyp. Qed.
Print Assumptions C07_diff_trunc_needs_hyp.

Theorem C07_add_diff_le :
  forall a b, canonical a -> canonical b ->
    canonical (add_dur b (diff a b)) /\
    (value b <= value a ->
       value b <= value (add_dur b (diff a b)) <= value a) /\
    (value a <= value b ->
       value a <= value (add_dur b (diff a b)) <= value b) /\
    Z.abs (value a - value (add_dur b (diff a b))) < 100.
Proof. exact add_diff_le. Qed.
Print Assumptions C07_add_diff_le.

Theorem C07_diff_error_bound :
  forall a b, Z.abs (100 * diff a b - (value a - value b)) < 100.
Proof. exact diff_error_bound. Qed.
Print Assumptions C07_diff_error_bound.

Theorem C07_diff_add_any :
  forall t d, diff (add_dur t d) t = d.
Proof. exact diff_add_any. Qed.
Print Assumptions C07_diff_add_any.

Theorem C07_diff_sub_any :
  forall t d, diff t (sub_dur t d) = d.
Proof. exact diff_sub_any. Qed.
Print Assumptions C07_diff_sub_any.

Theorem C07_diff_self :
  forall a, diff a a = 0.
Proof. exact diff_self. Qed.
Print Assumptions C07_diff_self.

Theorem C07_diff_antisym :
  forall a b, diff a b = - diff b a.
Proof. exact diff_antisym. Qed.
Print Assumptions C07_diff_antisym.

Theorem C07_diff_sign :
  forall a b,
    (diff a b < 0 -> value a < value b) /\
    (0 < diff a b -> value b < value a) /\
    (value a = value b -> diff a b = 0).
Proof. exact diff_sign. Qed.
Print Assumptions C07_diff_sign.

Theorem C07_diff_mono :
  forall a a' b, canonical a -> canonical a' ->
    value a <= value a' -> diff a b <= diff a' b.
Proof. exact diff_mono. Qed.
Print Assumptions C07_diff_mono.

Theorem C07_diff_exact_on_grid :
  forall a b, Z.rem (ns a) 100 = 0 -> Z.rem (ns b) 100 = 0 ->
    100 * diff a b = value a - value b.
Proof. exact diff_exact_on_grid. Qed.
Print Assumptions C07_diff_exact_on_grid.

(* ---- operator-(time_point, time_point) as written before the fix: diff_w ---- *)

Theorem C07_diff_exact_as_written :
  forall a b, 100 * diff_w a b = (value a - value b) - Z.rem (ns a - ns b) 100.
Proof. exact diff_w_exact. Qed.
Print Assumptions C07_diff_exact_as_written.

Theorem C07_diff_error_bound_as_written :
  forall a b, Z.abs (100 * diff_w a b - (value a - value b)) < 100.
Proof. exact diff_w_error_bound. Qed.
Print Assumptions C07_diff_error_bound_as_written.

Theorem C07_diff_trunc_iff_as_written :
  forall a b,
    diff_w a b = Z.quot (value a - value b) 100 <->
    (Z.rem (ns a - ns b) 100 = 0 \/
     (0 <= value a - value b /\ 0 <= ns a - ns b) \/
     (value a - value b <= 0 /\ ns a - ns b <= 0)).
Proof. exact diff_w_trunc_iff. Qed.
Print Assumptions C07_diff_trunc_iff_as_written.

(* REFUTED for the code as written before the fix: operator-(time_point, time_point) was not the
   true difference truncated toward zero (witness (1 s, 0 ns) - (0 s, 1 ns) = 10 000 000 ticks; the
   true difference is 9 999 999.99 ticks) ... *)
Theorem C07_diff_not_trunc_refuted_as_written :
  exists a b, canonical a /\ canonical b /\ diff_w a b <> Z.quot (value a - value b) 100.
Proof. exact diff_not_trunc_refuted. Qed.
Print Assumptions C07_diff_not_trunc_refuted_as_written.

(* ... so that b + (a - b) could be later than a. *)
Theorem C07_add_diff_overshoots_as_written :
  exists a b, canonical a /\ canonical b /\ value b <= value a /\
    lt a (add_dur b (diff_w a b)) = true.
Proof. exact add_diff_w_overshoots. Qed.
Print Assumptions C07_add_diff_overshoots_as_written.

Theorem C07_insert_timed_split :
  forall x l,
    sorted_due l ->
    exists l1 l2,
      l = l1 ++ l2 /\
      insert_timed x l = l1 ++ x :: l2 /\
      Forall (fun y => due y <= due x) l1 /\
      Forall (fun y => due x < due y) l2.
Proof. exact insert_timed_split. Qed.
Print Assumptions C07_insert_timed_split.

Theorem C07_insert_timed_sorted :
  forall x l, sorted_due l -> sorted_due (insert_timed x l).
Proof. exact insert_timed_sorted. Qed.
Print Assumptions C07_insert_timed_sorted.

Theorem C07_insert_timed_perm :
  forall x l, Permutation (x :: l) (insert_timed x l).
Proof. exact insert_timed_perm. Qed.
Print Assumptions C07_insert_timed_perm.

Theorem C07_insert_all_stable_sort :
  forall xs,
    sorted_due (insert_all xs []) /\
    Permutation xs (insert_all xs []) /\
    (forall k, with_due k (insert_all xs []) = with_due k xs).
Proof. exact insert_all_stable_sort. Qed.
Print Assumptions C07_insert_all_stable_sort.

Theorem C07_stable_sort_unique :
  forall l1 l2,
    sorted_due l1 -> sorted_due l2 ->
    (forall k, with_due k l1 = with_due k l2) ->
    l1 = l2.
Proof. exact stable_sort_unique. Qed.
Print Assumptions C07_stable_sort_unique.

Theorem C07_heap_insert_eq :
  forall x l, heap_insert x l = insert_timed x l.
Proof. exact heap_insert_eq. Qed.
Print Assumptions C07_heap_insert_eq.

Theorem C07_heap_pop_min :
  forall l h tl,
    sorted_due l ->
    heap_pop l = Some (h, tl) ->
    l = h :: tl /\
    (forall y, In y l -> due h <= due y) /\
    sorted_due tl.
Proof. exact heap_pop_min. Qed.
Print Assumptions C07_heap_pop_min.

Theorem C07_fifo_pop :
  forall xs h tl,
    heap_pop (insert_all xs []) = Some (h, tl) ->
    exists p q,
      xs = p ++ h :: q /\
      Forall (fun y => due h < due y) p /\
      Forall (fun y => due h <= due y) q.
Proof. exact fifo_pop. Qed.
Print Assumptions C07_fifo_pop.

Theorem C07_heap_remove_sorted :
  forall i l, sorted_due l -> sorted_due (heap_remove i l).
Proof. exact heap_remove_sorted. Qed.
Print Assumptions C07_heap_remove_sorted.

Theorem C07_heap_remove_present :
  forall i l x,
    NoDup (map id l) -> In x l -> id x = i ->
    exists l1 l2, l = l1 ++ x :: l2 /\ heap_remove i l = l1 ++ l2.
Proof. exact heap_remove_present. Qed.
Print Assumptions C07_heap_remove_present.

Theorem C07_requeue_sorted :
  forall i now l, sorted_due l -> sorted_due (requeue i now l).
Proof. exact requeue_sorted. Qed.
Print Assumptions C07_requeue_sorted.

Theorem C07_requeue_NoDup_ids :
  forall i now l, NoDup (map id l) -> NoDup (map id (requeue i now l)).
Proof. exact requeue_NoDup_ids. Qed.
Print Assumptions C07_requeue_NoDup_ids.

(* the hypotheses are met by concrete non-trivial cases *)
Example C07_ex_normalize : from_s_ns (-1) 1000000001 = mk_tp 0 1.
Proof. vm_compute. reflexivity. Qed.
Example C07_ex_diff_witness_as_written : diff_w (mk_tp 1 0) (mk_tp 0 1) = 10000000 /\ Z.quot (value (mk_tp 1 0) - value (mk_tp 0 1)) 100 = 9999999.
Proof. vm_compute. split; reflexivity. Qed.
Example C07_ex_diff_witness : diff (mk_tp 1 0) (mk_tp 0 1) = 9999999.
Proof. vm_compute. reflexivity. Qed.
Example C07_ex_insert_fifo : map id (insert_all [(30, 0%nat); (10, 1%nat); (10, 2%nat); (5, 3%nat); (10, 4%nat)] []) = [3; 1; 2; 4; 0]%nat.
Proof. vm_compute. reflexivity. Qed.
