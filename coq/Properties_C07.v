(* placeholder, being written *)
