(* C06, unit 1: manual_event_loop / single_thread_context (model Proto/EventLoopDefs.v).
   Thread ids for k producers: 0 owner (spawn, stop, join), 1..k producers, k+1 stop requester,
   k+2 the worker (the context's thread), k+3 spurious wake-ups of cv_.wait. *)
From Coq Require Import List Bool Arith.
From V Require Import Base.Sched Proto.EventLoopDefs Proto.EventLoopProofs.
Import ListNotations.
Import EventLoop.

(* Single-threaded loops run items in FIFO order of enqueue: the sequence of completions is a
   prefix of the sequence of enqueue linearisation points (the lock acquisitions of enqueue). *)
Theorem C06_loop_fifo :
  forall (rc : bool) (counts : list nat) (cancels0 : list item) (sched : list nat),
  let tr := snd (run step sched (init rc counts cancels0, [])) in
  exists rest, enqs tr = map fst (runs tr) ++ rest.
Proof. exact fifo. Qed.
Print Assumptions C06_loop_fifo.

Theorem C06_loop_at_most_once :
  forall (rc : bool) (counts : list nat) (cancels0 : list item) (sched : list nat),
  let tr := snd (run step sched (init rc counts cancels0, [])) in
  NoDup (map fst (runs tr)).
Proof. exact at_most_once. Qed.
Print Assumptions C06_loop_at_most_once.

Theorem C06_loop_enqueued_items_valid :
  forall (rc : bool) (counts : list nat) (cancels0 : list item) (sched : list nat),
  let tr := snd (run step sched (init rc counts cancels0, [])) in
  NoDup (enqs tr) /\
  forall p j, In (p, j) (enqs tr) -> exists i n, p = S i /\ nth_error counts i = Some n /\ j < n.
Proof. intros. split; [apply enq_nodup|apply enq_items_valid]. Qed.
Print Assumptions C06_loop_enqueued_items_valid.

(* single_thread_context: stop() + join() come after the last start() returned.  When everything
   has finished, every started operation has completed exactly once, in enqueue order. *)
Theorem C06_loop_exactly_once_at_the_end :
  forall (counts : list nat) (cancels0 : list item) (sched : list nat),
  let c := run step sched (init false counts cancels0, []) in
  final (fst c) = true ->
  map fst (runs (snd c)) = enqs (snd c) /\ NoDup (map fst (runs (snd c))) /\
  forall i n j, nth_error counts i = Some n -> j < n -> In (S i, j) (map fst (runs (snd c))).
Proof. intros counts cancels0 sched. apply exactly_once_final. reflexivity. Qed.
Print Assumptions C06_loop_exactly_once_at_the_end.

(* manual_event_loop with stop() racing the producers: run() returns only when the list is empty
   and stop_ is set; whatever is in the list afterwards was pushed after stop_ was set; every item
   accepted before stop() has completed once run() has returned. *)
Theorem C06_loop_run_returns_only_if_stop_and_empty :
  forall (rc : bool) (counts : list nat) (cancels0 : list item) (sched : list nat),
  let s := fst (run step sched (init rc counts cancels0, [])) in
  (wk s = WUnlockRet -> queue s = [] /\ stopf s = true) /\
  (wk s = WDone -> stopf s = true /\ incl (queue s) (late s)).
Proof. exact run_returns_only_if_stop_and_empty. Qed.
Print Assumptions C06_loop_run_returns_only_if_stop_and_empty.

Theorem C06_loop_accepted_before_stop_is_run :
  forall (rc : bool) (counts : list nat) (cancels0 : list item) (sched : list nat),
  let c := run step sched (init rc counts cancels0, []) in
  forall it, wk (fst c) = WDone -> In it (enqs (snd c)) -> ~ In it (late (fst c)) ->
  In it (map fst (runs (snd c))).
Proof. exact accepted_before_stop_is_run. Qed.
Print Assumptions C06_loop_accepted_before_stop_is_run.

Theorem C06_loop_final_accounting :
  forall (rc : bool) (counts : list nat) (cancels0 : list item) (sched : list nat),
  let c := run step sched (init rc counts cancels0, []) in
  final (fst c) = true ->
  enqs (snd c) = map fst (runs (snd c)) ++ queue (fst c) /\ incl (queue (fst c)) (late (fst c)) /\
  forall i n j, nth_error counts i = Some n -> j < n -> In (S i, j) (enqs (snd c)).
Proof. exact final_accounting. Qed.
Print Assumptions C06_loop_final_accounting.

(* No lost wake-up: while the worker sleeps in cv_.wait without a notification, the list is empty
   or the notify_one of the producer that made it non-empty is still pending (that producer holds
   the mutex), and stop_ is clear or stop()'s notify_all is pending. *)
Theorem C06_loop_no_lost_item :
  forall (rc : bool) (counts : list nat) (cancels0 : list item) (sched : list nat),
  let s := fst (run step sched (init rc counts cancels0, [])) in
  wk s = WBlocked false ->
  (queue s = [] \/ exists i n j, nth_error (prods s) i = Some (n, PNotify j) /\ mtx s = Some (S i)) /\
  (stopf s = false \/ (mainpc s = MNotify /\ mtx s = Some 0)).
Proof. exact no_lost_item. Qed.
Print Assumptions C06_loop_no_lost_item.

(* No reachable state is stuck: unless every thread has finished, some thread other than the
   spurious-wake-up environment can take a step (so an item in the list with the worker asleep
   for ever and no stop request cannot happen, and no progress ever depends on a spurious
   wake-up). *)
Theorem C06_loop_progress :
  forall (rc : bool) (counts : list nat) (cancels0 : list item) (sched : list nat),
  let s := fst (run step sched (init rc counts cancels0, [])) in
  final s = false -> exists t, t <> spur_tid s /\ step t s <> None.
Proof. exact progress. Qed.
Print Assumptions C06_loop_progress.

(* Completion happens on the context's own thread, directly after reading the receiver's stop
   token, and is set_done exactly when the stop request on that token took effect before. *)
Theorem C06_loop_completion_on_worker_done_iff_stopped :
  forall (rc : bool) (counts : list nat) (cancels0 : list item) (sched1 : list nat)
         (t : nat) (s' : st) (evs : list ev) (it : item) (b : bool),
  let c1 := run step sched1 (init rc counts cancels0, []) in
  step t (fst c1) = Some (s', evs) -> In (ERun it b) evs ->
  t = worker_tid (fst c1) /\ evs = [EObs it b; ERun it b] /\
  (b = true <-> In (ECancel it) (snd c1)).
Proof. exact completion_on_worker_done_iff_stopped. Qed.
Print Assumptions C06_loop_completion_on_worker_done_iff_stopped.

(* The destructor joins the thread it created: the owner is finished only after run() returned. *)
Theorem C06_loop_joined :
  forall (rc : bool) (counts : list nat) (cancels0 : list item) (sched : list nat),
  let s := fst (run step sched (init rc counts cancels0, [])) in
  mainpc s = MDone -> wk s = WDone.
Proof. exact joined. Qed.
Print Assumptions C06_loop_joined.

Theorem C06_loop_mutex_owner :
  forall (rc : bool) (counts : list nat) (cancels0 : list item) (sched : list nat),
  let s := fst (run step sched (init rc counts cancels0, [])) in
  (main_holds (mainpc s) = true <-> mtx s = Some 0) /\
  (forall i n pc, nth_error (prods s) i = Some (n, pc) -> (prod_holds pc = true <-> mtx s = Some (S i))) /\
  (worker_holds (wk s) = true <-> mtx s = Some (worker_tid s)).
Proof. exact mutex_owner. Qed.
Print Assumptions C06_loop_mutex_owner.

Theorem C06_loop_inv_reachable :
  forall (rc : bool) (counts : list nat) (cancels0 : list item) (sched : list nat),
  Inv (fst (run step sched (init rc counts cancels0, []))).
Proof. exact inv_reachable. Qed.
Print Assumptions C06_loop_inv_reachable.

(* What is NOT guaranteed (and is how a run loop is meant to behave): an item enqueued after
   stop() was called and run() has returned stays in the list; nobody completes it unless run() is
   called again.  Threads: 0 owner, 1 producer, 2 stop requester, 3 worker. *)
Theorem C06_loop_item_enqueued_after_stop_may_remain :
  exists sched,
    let s := fst (run step sched (init true [1] [], [])) in
    final s = true /\ queue s = [(1, 0)] /\ executed s = [] /\ late s = [(1, 0)].
Proof. exists [0; 3; 3; 0; 0; 0; 3; 3; 1; 1; 1; 0]. vm_compute. repeat split; reflexivity. Qed.
Print Assumptions C06_loop_item_enqueued_after_stop_may_remain.

(* two producers, item 1.0 cancelled while queued; the worker sleeps first, is woken by the first
   enqueue, runs both items in FIFO order (1.0 with done, 2.0 with value), sleeps again, is woken
   by stop() and returns; the owner joins.  Threads: 0 owner, 1 2 producers, 3 stop requester,
   4 worker, 5 spurious. *)
Example C06_loop_example_ctx :
  let c := run step [0; 4; 4; 1; 3; 1; 1; 2; 2; 4; 4; 4; 4; 4; 4; 4; 4; 0; 0; 0; 4; 4; 0]
               (init false [1; 1] [(1, 0)], []) in
  final (fst c) = true /\ executed (fst c) = [((1, 0), true); ((2, 0), false)] /\
  queue (fst c) = [] /\
  snd c = [ESpawn; ELock; EWait; EUnlock; EEnq (1, 0); ECancel (1, 0); ENotifyOne; EUnlock;
           EEnq (2, 0); EUnlock; ELock; EUnlock; EObs (1, 0) true; ERun (1, 0) true;
           ELock; EUnlock; EObs (2, 0) false; ERun (2, 0) false; ELock; EWait; EUnlock;
           ELock; ENotifyAll; EUnlock; ELock; EUnlock; EJoin].
Proof. vm_compute. repeat split; reflexivity. Qed.

(* a spurious wake-up: the worker re-acquires the mutex, finds the list empty and waits again *)
Example C06_loop_example_spurious :
  let c := run step [0; 3; 3; 4; 3; 3] (init false [1] [], []) in
  wk (fst c) = WBlocked false /\
  snd c = [ESpawn; ELock; EWait; EUnlock; ESpurious; ELock; EWait; EUnlock].
Proof. vm_compute. repeat split; reflexivity. Qed.

(* the window between the push and notify_one: the worker sleeps, the list is non-empty, and the
   pending notification is the producer's next step *)
Example C06_loop_example_pending_notify :
  let c := run step [0; 3; 3; 1] (init false [1] [], []) in
  wk (fst c) = WBlocked false /\ queue (fst c) = [(1, 0)] /\ mtx (fst c) = Some 1 /\
  nth_error (prods (fst c)) 0 = Some (1, PNotify 0).
Proof. vm_compute. repeat split; reflexivity. Qed.
