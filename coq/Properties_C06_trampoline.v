(* C06, unit 2: trampoline_scheduler (model Proto/TrampolineDefs.v).  A program is a tree of
   operations; executing an operation starts its children, in order, on the same scheduler. *)
From Coq Require Import List Bool Arith Permutation.
From V Require Import Proto.TrampolineDefs Proto.TrampolineProofs.
Import ListNotations.
Import Tramp.

(* The trampoline never nests deeper than its configured depth: at every moment (after any number
   n of machine steps), for every completion that has happened, the number of receiver frames on
   the stack is at most recursionDepth_, which is at most the configured depth (1 for depth 0:
   the outermost start() always executes inline). *)
Theorem C06_trampoline_depth_bound :
  forall (d : nat) (root : tree) (n : nat) (e : entry),
  In e (log (run n (init d root))) ->
  1 <= e_nest e /\ e_nest e <= e_depth e /\ e_depth e <= Nat.max d 1.
Proof. exact depth_bound. Qed.
Print Assumptions C06_trampoline_depth_bound.

Theorem C06_trampoline_nesting_never_exceeds_depth :
  forall (d : nat) (root : tree) (n : nat), 0 < d -> max_nest (run n (init d root)) <= d.
Proof. intros d root n Hd. pose proof (max_nest_bound d root n). rewrite Nat.max_l in H by exact Hd. exact H. Qed.
Print Assumptions C06_trampoline_nesting_never_exceeds_depth.

(* The outermost start() returns (the machine stops within 3 * size steps); at that moment no
   execute() is on the stack, nothing is left on the deferred list, and every operation of the
   program has been completed exactly once -- with set_done exactly for those whose stop token
   had been requested (the multiset of (label, done?) pairs of the log is that of the tree). *)
Theorem C06_trampoline_all_run_exactly_once_before_outermost_start_returns :
  forall (d : nat) (root : tree),
  let s := eval d root in
  finished s = true /\ frames s = [] /\ deferred s = [] /\
  Permutation (map key (log s)) (nodes root).
Proof. exact eval_complete. Qed.
Print Assumptions C06_trampoline_all_run_exactly_once_before_outermost_start_returns.

(* the machine can stop only in a state with nothing on the stack and nothing deferred *)
Theorem C06_trampoline_stops_only_when_drained :
  forall s : st, step s = None <-> finished s = true.
Proof. exact step_none_finished. Qed.
Print Assumptions C06_trampoline_stops_only_when_drained.

(* [eval] is the state in which the outermost start() returns, whatever extra fuel is given *)
Theorem C06_trampoline_eval_stable :
  forall (d : nat) (root : tree) (n : nat), fuel_for root <= n -> run n (init d root) = eval d root.
Proof. exact eval_stable. Qed.
Print Assumptions C06_trampoline_eval_stable.

(* nothing completes twice at any moment of the execution *)
Theorem C06_trampoline_at_most_once_always :
  forall (d : nat) (root : tree) (n : nat),
  exists rest, Permutation (map key (log (run n (init d root))) ++ rest) (nodes root).
Proof. exact prefix_sub. Qed.
Print Assumptions C06_trampoline_at_most_once_always.

(* depth 2: operation 1 runs nested in 0; its children 2 and 3 and then 4 (stop requested) are
   deferred and run from drain() in LIFO order 4, 3, 2, each at nesting 1 *)
Example C06_trampoline_example :
  let t := Node 0 false [Node 1 false [Node 2 false []; Node 3 false []]; Node 4 true []] in
  let s := eval 2 t in
  map (fun e => (e_label e, e_done e, e_nest e, e_depth e)) (log s) =
    [(0, false, 1, 1); (1, false, 2, 2); (4, true, 1, 1); (3, false, 1, 1); (2, false, 1, 1)] /\
  finished s = true /\ max_nest s = 2.
Proof. vm_compute. repeat split; reflexivity. Qed.

(* recursionDepth_ is not decremented when execute() returns: with depth 3 the third sibling is
   deferred although the real nesting is only 2 *)
Example C06_trampoline_example_counter_not_nesting :
  let t := Node 0 false [Node 1 false []; Node 2 false []; Node 3 false []] in
  let s := eval 3 t in
  map (fun e => (e_label e, e_nest e, e_depth e)) (log s) = [(0, 1, 1); (1, 2, 2); (2, 2, 3); (3, 1, 1)].
Proof. vm_compute. reflexivity. Qed.
