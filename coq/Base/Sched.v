(* Generic interleaving machine: all nondeterminism is the schedule. *)
From Coq Require Import List.
Import ListNotations.

Section Sched.
  Variables (state tid event : Type).
  (* [step t s = None]: thread [t] cannot move in [s] (finished or blocked). *)
  Variable step : tid -> state -> option (state * list event).

  (* configuration = state + trace so far (oldest event first) *)
  Definition conf := (state * list event)%type.

  Definition step_conf (c : conf) (t : tid) : conf :=
    match step t (fst c) with
    | Some (s', ev) => (s', snd c ++ ev)
    | None => c
    end.

  Definition run (sched : list tid) (c : conf) : conf := fold_left step_conf sched c.

  Lemma run_app s1 s2 c : run (s1 ++ s2) c = run s2 (run s1 c).
  Proof. unfold run. apply fold_left_app. Qed.

  Lemma run_cons t s c : run (t :: s) c = run s (step_conf c t).
  Proof. reflexivity. Qed.

  (* invariant lifting over configurations (state and history) *)
  Lemma run_invariant (Inv : conf -> Prop) :
    (forall c t s' ev, Inv c -> step t (fst c) = Some (s', ev) -> Inv (s', snd c ++ ev)) ->
    forall sched c, Inv c -> Inv (run sched c).
  Proof.
    intros Hstep sched. induction sched as [|t sched IH]; intros c Hc; [exact Hc|].
    rewrite run_cons. apply IH. unfold step_conf.
    destruct (step t (fst c)) as [[s' ev]|] eqn:E; [|exact Hc].
    eapply Hstep; eauto.
  Qed.

  (* state-only invariants *)
  Lemma run_invariant_state (Inv : state -> Prop) :
    (forall s t s' ev, Inv s -> step t s = Some (s', ev) -> Inv s') ->
    forall sched c, Inv (fst c) -> Inv (fst (run sched c)).
  Proof.
    intros Hstep sched c Hc.
    apply (run_invariant (fun c => Inv (fst c))); [|exact Hc].
    intros c0 t s' ev H0 E. simpl. eapply Hstep; eauto.
  Qed.

  (* the trace only grows *)
  Lemma run_trace_prefix sched c : exists suffix, snd (run sched c) = snd c ++ suffix.
  Proof.
    revert c. induction sched as [|t sched IH]; intros c.
    - exists []. simpl. now rewrite app_nil_r.
    - rewrite run_cons. destruct (IH (step_conf c t)) as [suf Hs]. rewrite Hs.
      unfold step_conf. destruct (step t (fst c)) as [[s' ev]|]; simpl.
      + exists (ev ++ suf). now rewrite app_assoc.
      + exists suf. reflexivity.
  Qed.
End Sched.

Arguments run {state tid event} step sched c.
Arguments step_conf {state tid event} step c t.
