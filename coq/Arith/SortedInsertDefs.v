(* Model of the sorted insertion used by libunifex's timer queues:

     source/timed_single_thread_context.cpp   timed_single_thread_context::enqueue
     source/thread_unsafe_event_loop.cpp      thread_unsafe_event_loop::enqueue   (same loop)
     include/unifex/detail/intrusive_heap.hpp intrusive_heap::insert/pop/top/remove
                                              (a sorted doubly-linked list despite the name)

   A queue is the list of its nodes from head_ following next_; a node is (due time, identity).
   The identity stands for the node's address; the algorithms never look at it except
   [heap_remove], which unlinks the node with the given identity.

   Executable definitions only (plus the Prop [sorted_due]); proofs in SortedInsertProofs.v. *)
From Coq Require Import ZArith List Bool.
Import ListNotations.
Local Open Scope Z_scope.

Definition timer : Set := (Z * nat)%type.
Definition due (t : timer) : Z := fst t.
Definition id  (t : timer) : nat := snd t.

(* else-branch of enqueue.  [cur] is queuedTask, [rest] is the chain hanging off cur->next_:
     while (cur->next_ != nullptr && cur->next_->dueTime_ <= task->dueTime_) cur = cur->next_;
     insert task after cur
   The result is the chain starting at the original [cur]. *)
Fixpoint walk_insert (x cur : timer) (rest : list timer) : list timer :=
  match rest with
  | [] => cur :: x :: []
  | nxt :: rest' =>
      if due nxt <=? due x then cur :: walk_insert x nxt rest'
      else cur :: x :: rest
  end.

(* timed_single_thread_context::enqueue / thread_unsafe_event_loop::enqueue:
     if (head_ == nullptr || task->dueTime_ < head_->dueTime_) insert at head
     else walk *)
Definition insert_timed (x : timer) (l : list timer) : list timer :=
  match l with
  | [] => x :: l
  | h :: tl => if due x <? due h then x :: l else walk_insert x h tl
  end.

(* intrusive_heap::insert: three branches
     if (head_ == nullptr) ... else if (item->key < head_->key) ... else walk *)
Definition heap_insert (x : timer) (l : list timer) : list timer :=
  match l with
  | [] => [x]
  | h :: tl => if due x <? due h then x :: h :: tl else walk_insert x h tl
  end.

(* intrusive_heap::top (asserts !empty()) *)
Definition heap_top (l : list timer) : option timer :=
  match l with [] => None | h :: _ => Some h end.

(* intrusive_heap::pop (asserts !empty()): returns the old head and the new list *)
Definition heap_pop (l : list timer) : option (timer * list timer) :=
  match l with [] => None | h :: tl => Some (h, tl) end.

(* intrusive_heap::remove(item): unlink the node whose identity is [i]
   (the C++ gets the node pointer; it must be in the list). *)
Fixpoint heap_remove (i : nat) (l : list timer) : list timer :=
  match l with
  | [] => []
  | h :: tl => if Nat.eqb (id h) i then tl else h :: heap_remove i tl
  end.

(* the cancel path of timed_single_thread_context / thread_unsafe_event_loop:
   unlink the task, set dueTime_ = now, enqueue again *)
Definition requeue (i : nat) (now : Z) (l : list timer) : list timer :=
  insert_timed (now, i) (heap_remove i l).

(* enqueue a sequence of timers one after the other *)
Definition insert_all (xs : list timer) (l : list timer) : list timer :=
  fold_left (fun acc x => insert_timed x acc) xs l.

(* ascending due times *)
Fixpoint sorted_dueb (l : list timer) : bool :=
  match l with
  | [] => true
  | x :: r => match r with
              | [] => true
              | y :: _ => (due x <=? due y) && sorted_dueb r
              end
  end.

Definition sorted_due (l : list timer) : Prop := sorted_dueb l = true.

(* the timers with due time k, in list order *)
Definition with_due (k : Z) (l : list timer) : list timer :=
  filter (fun y => due y =? k) l.
