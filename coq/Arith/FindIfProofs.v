(* Proofs about the E3 model in FindIfDefs.v: chunk arithmetic of the parallel find_if
   (fixed and as-written variants) and the chunked loop of bulk_schedule.
   All statements are for unbounded Z; no axioms. *)
From Coq Require Import ZArith List Bool Lia.
From V Require Import Arith.FindIfDefs.
Import ListNotations.
Local Open Scope Z_scope.

Local Ltac Zify.zify_post_hook ::= Z.div_mod_to_equations.

(* ====================================================================================== *)
(* zrange                                                                                 *)
(* ====================================================================================== *)

Lemma zrange_nil b e : e <= b -> zrange b e = [].
Proof.
  intros Hle. unfold zrange.
  replace (Z.to_nat (e - b)) with 0%nat by lia. reflexivity.
Qed.

Lemma zrange_cons b e : b < e -> zrange b e = b :: zrange (b + 1) e.
Proof.
  intros Hlt. unfold zrange.
  replace (Z.to_nat (e - b)) with (S (Z.to_nat (e - (b + 1)))) by lia.
  cbn [seq map]. f_equal.
  - lia.
  - rewrite <- seq_shift, map_map. apply map_ext. intros k. lia.
Qed.

Lemma zrange_snoc b e : b <= e -> zrange b (e + 1) = zrange b e ++ [e].
Proof.
  intros Hle. unfold zrange.
  replace (Z.to_nat (e + 1 - b)) with (Z.to_nat (e - b) + 1)%nat by lia.
  rewrite seq_app, map_app. cbn [seq map]. do 2 f_equal. lia.
Qed.

Lemma zrange_app a b c : a <= b <= c -> zrange a b ++ zrange b c = zrange a c.
Proof.
  intros Habc. remember (Z.to_nat (b - a)) as d eqn:Hd.
  revert a Habc Hd. induction d as [|d IH]; intros a Habc Hd.
  - assert (a = b) by lia. subst a. rewrite (zrange_nil b b) by lia. reflexivity.
  - rewrite (zrange_cons a b), (zrange_cons a c) by lia.
    cbn [app]. f_equal. apply IH; lia.
Qed.

Lemma In_zrange x b e : In x (zrange b e) <-> b <= x < e.
Proof.
  unfold zrange. rewrite in_map_iff. split.
  - intros (k & Hk & Hin). apply in_seq in Hin. lia.
  - intros Hx. exists (Z.to_nat (x - b)). split; [lia | apply in_seq; lia].
Qed.

Lemma zrange_cons_inv b e x r :
  zrange b e = x :: r -> b < e /\ x = b /\ r = zrange (b + 1) e.
Proof.
  intros Heq. destruct (Z_lt_le_dec b e) as [Hlt | Hle].
  - rewrite zrange_cons in Heq by lia. inversion Heq; subst. auto.
  - rewrite zrange_nil in Heq by lia. discriminate.
Qed.

Lemma zrange_nil_inv b e : zrange b e = [] -> e <= b.
Proof.
  intros Heq. destruct (Z_lt_le_dec b e) as [Hlt | Hle]; [|exact Hle].
  rewrite zrange_cons in Heq by lia. discriminate.
Qed.

Lemma length_zrange b e : length (zrange b e) = Z.to_nat (e - b).
Proof. unfold zrange. rewrite map_length, seq_length. reflexivity. Qed.

(* strictly increasing lists with all elements in [lo, hi) *)
Fixpoint inc_in (lo hi : Z) (l : list Z) : Prop :=
  match l with
  | [] => True
  | x :: r => lo <= x < hi /\ inc_in (x + 1) hi r
  end.

Lemma inc_in_weaken l : forall lo hi lo' hi',
  inc_in lo hi l -> lo' <= lo -> hi <= hi' -> inc_in lo' hi' l.
Proof.
  induction l as [|x r IH]; cbn [inc_in]; intros lo hi lo' hi' Hinc Hlo Hhi; [exact I|].
  destruct Hinc as [Hx Hr]. split; [lia|]. eapply IH; [exact Hr | lia | lia].
Qed.

Lemma inc_in_app l1 : forall l2 a b c,
  a <= b <= c -> inc_in a b l1 -> inc_in b c l2 -> inc_in a c (l1 ++ l2).
Proof.
  induction l1 as [|x r IH]; cbn [inc_in app]; intros l2 a b c Habc H1 H2.
  - eapply inc_in_weaken; [exact H2 | lia | lia].
  - destruct H1 as [Hx Hr]. split; [lia|]. apply (IH l2 (x + 1) b c); [lia | exact Hr | exact H2].
Qed.

Lemma inc_in_Forall l : forall lo hi, inc_in lo hi l -> Forall (fun x => lo <= x < hi) l.
Proof.
  induction l as [|x r IH]; cbn [inc_in]; intros lo hi Hinc; constructor.
  - tauto.
  - destruct Hinc as [Hx Hr]. eapply Forall_impl; [|apply (IH _ _ Hr)].
    cbv beta. intros y Hy. lia.
Qed.

Lemma inc_in_NoDup l : forall lo hi, inc_in lo hi l -> NoDup l.
Proof.
  induction l as [|x r IH]; cbn [inc_in]; intros lo hi Hinc; constructor.
  - destruct Hinc as [Hx Hr]. intros Hin.
    apply inc_in_Forall in Hr. rewrite Forall_forall in Hr.
    specialize (Hr x Hin). lia.
  - destruct Hinc as [Hx Hr]. eapply IH; exact Hr.
Qed.

Lemma inc_in_zrange b e : inc_in b e (zrange b e).
Proof.
  remember (Z.to_nat (e - b)) as d eqn:Hd. revert b Hd.
  induction d as [|d IH]; intros b Hd.
  - rewrite zrange_nil by lia. exact I.
  - rewrite zrange_cons by lia. cbn [inc_in]. split; [lia|]. apply IH. lia.
Qed.

Lemma NoDup_zrange b e : NoDup (zrange b e).
Proof. eapply inc_in_NoDup, inc_in_zrange. Qed.

Lemma Forall_zrange lo hi b e :
  lo <= b -> e <= hi -> Forall (fun x => lo <= x < hi) (zrange b e).
Proof.
  intros Hlo Hhi. apply Forall_forall. intros x Hx. apply In_zrange in Hx. lia.
Qed.

(* concatenating consecutive ranges *)
Lemma concat_zrange_chain (g : Z -> Z) : forall m, 0 <= m ->
  (forall i, 0 <= i < m -> g i <= g (i + 1)) ->
  concat (map (fun i => zrange (g i) (g (i + 1))) (zrange 0 m)) = zrange (g 0) (g m)
  /\ g 0 <= g m.
Proof.
  intros m Hm. pattern m. apply natlike_ind; [| |exact Hm].
  - intros _. rewrite (zrange_nil 0 0), (zrange_nil (g 0) (g 0)) by lia.
    cbn [map concat]. split; [reflexivity | lia].
  - intros x Hx IH Hmono. unfold Z.succ.
    destruct IH as [IH1 IH2]; [intros i Hi; apply Hmono; lia|].
    assert (Hstep : g x <= g (x + 1)) by (apply Hmono; lia).
    rewrite zrange_snoc, map_app, concat_app by lia.
    cbn [map concat]. rewrite app_nil_r, IH1.
    split; [apply zrange_app; lia | lia].
Qed.

Lemma concat_inc_chain (F : Z -> list Z) (g : Z -> Z) : forall m, 0 <= m ->
  (forall i, 0 <= i < m -> g i <= g (i + 1) /\ inc_in (g i) (g (i + 1)) (F i)) ->
  inc_in (g 0) (g m) (concat (map F (zrange 0 m))) /\ g 0 <= g m.
Proof.
  intros m Hm. pattern m. apply natlike_ind; [| |exact Hm].
  - intros _. rewrite (zrange_nil 0 0) by lia. cbn [map concat inc_in]. split; [exact I | lia].
  - intros x Hx IH Hstep. unfold Z.succ.
    destruct IH as [IH1 IH2]; [intros i Hi; apply Hstep; lia|].
    destruct (Hstep x) as [Hle Hinc]; [lia|].
    rewrite zrange_snoc, map_app, concat_app by lia.
    cbn [map concat]. rewrite app_nil_r.
    split; [apply (inc_in_app _ _ (g 0) (g x) (g (x + 1))); [lia | exact IH1 | exact Hinc] | lia].
Qed.

(* boolean membership tests on ranges *)
Lemma existsb_eqb_zrange i a b :
  existsb (Z.eqb i) (zrange a b) = (a <=? i) && (i <? b).
Proof.
  apply eq_true_iff_eq.
  rewrite existsb_exists, andb_true_iff, Z.leb_le, Z.ltb_lt. split.
  - intros (x & Hin & Heq). apply In_zrange in Hin. apply Z.eqb_eq in Heq. lia.
  - intros Hi. exists i. split; [apply In_zrange; lia | apply Z.eqb_refl].
Qed.

Lemma existsb_succ_eqb_zrange c a b :
  existsb (fun i => i + 1 =? c) (zrange a b) = (a + 1 <=? c) && (c <=? b).
Proof.
  apply eq_true_iff_eq.
  rewrite existsb_exists, andb_true_iff, !Z.leb_le. split.
  - intros (x & Hin & Heq). apply In_zrange in Hin. apply Z.eqb_eq in Heq. lia.
  - intros Hc. exists (c - 1). split; [apply In_zrange; lia | apply Z.eqb_eq; lia].
Qed.

Lemma existsb_false {A} (f : A -> bool) l :
  (forall x, In x l -> f x = false) -> existsb f l = false.
Proof.
  induction l as [|x r IH]; cbn [existsb]; intros Hall; [reflexivity|].
  rewrite (Hall x) by (left; reflexivity). cbn [orb].
  apply IH. intros y Hy. apply Hall. right. exact Hy.
Qed.

Lemma fold_right_ext_in {A B} (f g : A -> B -> B) (a : B) l :
  (forall x acc, In x l -> f x acc = g x acc) -> fold_right f a l = fold_right g a l.
Proof.
  induction l as [|x r IH]; cbn [fold_right]; intros Hext; [reflexivity|].
  rewrite IH by (intros y acc Hy; apply Hext; right; exact Hy).
  apply Hext. left. reflexivity.
Qed.

Lemma fold_right_skip {A B} (a : B) (l : list A) : fold_right (fun _ acc => acc) a l = a.
Proof. induction l as [|x r IH]; cbn [fold_right]; auto. Qed.

(* ====================================================================================== *)
(* scan                                                                                   *)
(* ====================================================================================== *)

Lemma scan_cons pred x r :
  scan pred (x :: r) =
  if pred x then ([x], Some x) else (x :: fst (scan pred r), snd (scan pred r)).
Proof.
  cbn [scan]. destruct (pred x); [reflexivity|]. destruct (scan pred r). reflexivity.
Qed.

Lemma scan_app_snd pred l1 l2 :
  snd (scan pred (l1 ++ l2)) =
  match snd (scan pred l1) with Some x => Some x | None => snd (scan pred l2) end.
Proof.
  induction l1 as [|x r IH]; cbn [app]; [reflexivity|].
  rewrite !scan_cons. destruct (pred x); cbn [snd]; [reflexivity | exact IH].
Qed.

Lemma inc_in_scan pred l : forall lo hi, inc_in lo hi l -> inc_in lo hi (fst (scan pred l)).
Proof.
  induction l as [|x r IH]; intros lo hi Hinc; [exact I|].
  rewrite scan_cons. cbn [inc_in] in Hinc. destruct Hinc as [Hx Hr].
  destruct (pred x); cbn [fst inc_in]; split; auto.
Qed.

Lemma scan_zrange pred : forall d b e, Z.to_nat (e - b) = d ->
  match snd (scan pred (zrange b e)) with
  | Some x => b <= x < e /\ pred x = true
              /\ fst (scan pred (zrange b e)) = zrange b (x + 1)
              /\ forall y, b <= y < x -> pred y = false
  | None => fst (scan pred (zrange b e)) = zrange b e
            /\ forall y, b <= y < e -> pred y = false
  end.
Proof.
  induction d as [|d IH]; intros b e Hd.
  - rewrite (zrange_nil b e) by lia. cbn [scan fst snd]. split; [reflexivity | intros y Hy; lia].
  - rewrite (zrange_cons b e) by lia. rewrite scan_cons.
    destruct (pred b) eqn:Hb; cbn [fst snd].
    + split; [lia|]. split; [exact Hb|]. split.
      * rewrite (zrange_cons b (b + 1)), (zrange_nil (b + 1) (b + 1)) by lia. reflexivity.
      * intros y Hy. lia.
    + specialize (IH (b + 1) e ltac:(lia)).
      destruct (snd (scan pred (zrange (b + 1) e))) as [x|].
      * destruct IH as (Hx & Hpx & Hv & Hbefore).
        split; [lia|]. split; [exact Hpx|]. split.
        -- rewrite Hv. symmetry. apply zrange_cons. lia.
        -- intros y Hy. destruct (Z.eq_dec y b) as [->|Hne]; [exact Hb | apply Hbefore; lia].
      * destruct IH as (Hv & Hall). split.
        -- rewrite Hv. reflexivity.
        -- intros y Hy. destruct (Z.eq_dec y b) as [->|Hne]; [exact Hb | apply Hall; lia].
Qed.

(* Lemma 4: sequenced policy *)
Lemma find_seq_spec : forall pred n, 0 <= n ->
  let (r, visited) := find_seq pred n in
  Forall (fun x => 0 <= x < n) visited /\ NoDup visited /\
  ((r = n /\ forall x, 0 <= x < n -> pred x = false) \/
   (0 <= r < n /\ pred r = true /\ forall x, 0 <= x < r -> pred x = false)).
Proof.
  intros pred n Hn. unfold find_seq.
  pose proof (scan_zrange pred _ 0 n eq_refl) as Hscan.
  destruct (scan pred (zrange 0 n)) as [v h]. cbn [fst snd] in Hscan.
  destruct h as [x|].
  - destruct Hscan as (Hx & Hpx & Hv & Hbefore). subst v.
    split; [apply Forall_zrange; lia|]. split; [apply NoDup_zrange|].
    right. auto.
  - destruct Hscan as (Hv & Hall). subst v.
    split; [apply Forall_zrange; lia|]. split; [apply NoDup_zrange|].
    left. auto.
Qed.

(* ====================================================================================== *)
(* chunk arithmetic (fixed variant)                                                       *)
(* ====================================================================================== *)

Lemma num_chunks_pos n : 0 <= n -> 1 <= num_chunks n.
Proof.
  intros Hn. unfold num_chunks, max_num_chunks, min_chunk_size.
  destruct (n / 32 >? 4); lia.
Qed.

Lemma num_chunks_le n : 0 <= n -> num_chunks n <= 40.
Proof.
  intros Hn. unfold num_chunks, max_num_chunks, min_chunk_size.
  destruct (n / 32 >? 4) eqn:Hc; [lia|].
  assert (Hle : n / 32 <= 4) by lia. lia.
Qed.

Lemma chunk_size_pos n : 0 <= n -> 1 <= chunk_size n.
Proof.
  intros Hn. pose proof (num_chunks_pos n Hn) as Hk. unfold chunk_size.
  assert (0 < (n + num_chunks n) / num_chunks n) by (apply Z.div_str_pos; lia). lia.
Qed.

(* the chunks cover the whole range even without looking at the last one:
   chunk_size * num_chunks > n *)
Lemma chunk_size_covers n : 0 <= n -> n < chunk_size n * num_chunks n.
Proof.
  intros Hn. pose proof (num_chunks_pos n Hn) as Hk. unfold chunk_size.
  set (k := num_chunks n) in *. clearbody k.
  pose proof (Z.mod_pos_bound (n + k) k ltac:(lia)) as Hmod.
  pose proof (Z.div_mod (n + k) k ltac:(lia)) as Hdm.
  set (q := (n + k) / k) in *. clearbody q.
  set (r := (n + k) mod k) in *. clearbody r. lia.
Qed.

(* Lemma 1 *)
Lemma chunks_partition : forall n, 0 <= n ->
  let k := num_chunks n in
  1 <= k /\ cbegin n 0 = 0 /\ cend n (k - 1) = n /\
  forall i, 0 <= i < k ->
    0 <= cbegin n i <= cend n i /\ cend n i <= n /\
    (i < k - 1 -> cend n i = cbegin n (i + 1)).
Proof.
  intros n Hn k. subst k.
  pose proof (num_chunks_pos n Hn) as Hk.
  pose proof (chunk_size_pos n Hn) as Hcs.
  unfold cend, cbegin.
  set (k := num_chunks n) in *. clearbody k.
  set (cs := chunk_size n) in *. clearbody cs.
  split; [exact Hk|]. split; [lia|]. split.
  - destruct (Z.ltb_spec (k - 1) (k - 1)) as [Hlt|Hge]; [lia | reflexivity].
  - intros i Hi. assert (Hci : 0 <= cs * i) by nia.
    replace (cs * (i + 1)) with (cs * i + cs) by ring.
    destruct (Z.ltb_spec i (k - 1)) as [Hlt|Hge]; lia.
Qed.

(* chunk boundaries as one monotone function on [0, num_chunks] *)
Definition bnd (n i : Z) : Z := if i <? num_chunks n then cbegin n i else n.

Lemma bnd_0 n : 0 <= n -> bnd n 0 = 0.
Proof.
  intros Hn. pose proof (num_chunks_pos n Hn) as Hk. unfold bnd, cbegin.
  destruct (Z.ltb_spec 0 (num_chunks n)); lia.
Qed.

Lemma bnd_last n : bnd n (num_chunks n) = n.
Proof. unfold bnd. rewrite Z.ltb_irrefl. reflexivity. Qed.

Lemma bnd_le n i : 0 <= n -> bnd n i <= n.
Proof. intros Hn. unfold bnd, cbegin. destruct (i <? num_chunks n); lia. Qed.

Lemma bnd_chunk n i : 0 <= n -> 0 <= i < num_chunks n ->
  cbegin n i = bnd n i /\ cend n i = bnd n (i + 1) /\ bnd n i <= bnd n (i + 1).
Proof.
  intros Hn Hi.
  destruct (chunks_partition n Hn) as (Hk & H0 & Hlast & Hall).
  destruct (Hall i Hi) as (Hbe & Hen & Hnext).
  unfold bnd.
  destruct (Z.ltb_spec i (num_chunks n)) as [_|Hge]; [|lia].
  destruct (Z.ltb_spec (i + 1) (num_chunks n)) as [Hlt|Hge].
  - rewrite <- Hnext by lia. split; [reflexivity|]. split; [reflexivity | lia].
  - assert (Hi' : i = num_chunks n - 1) by lia. rewrite Hi' in *.
    rewrite Hlast in *. split; [reflexivity|]. split; [reflexivity | lia].
Qed.

Lemma chunk_bnd n i : 0 <= n -> 0 <= i < num_chunks n ->
  chunk n i = zrange (bnd n i) (bnd n (i + 1)).
Proof.
  intros Hn Hi. destruct (bnd_chunk n i Hn Hi) as (Hb & He & _).
  unfold chunk. rewrite Hb, He. reflexivity.
Qed.

Lemma concat_chunks_prefix n m : 0 <= n -> 0 <= m <= num_chunks n ->
  concat (map (chunk n) (zrange 0 m)) = zrange 0 (bnd n m).
Proof.
  intros Hn Hm.
  rewrite (map_ext_in (chunk n) (fun i => zrange (bnd n i) (bnd n (i + 1)))).
  - destruct (concat_zrange_chain (bnd n) m) as [Heq _]; [lia | |].
    + intros i Hi. apply bnd_chunk; lia.
    + rewrite Heq, bnd_0 by lia. reflexivity.
  - intros i Hin. apply In_zrange in Hin. apply chunk_bnd; lia.
Qed.

(* Lemma 2 *)
Lemma concat_chunks : forall n, 0 <= n ->
  concat (map (chunk n) (zrange 0 (num_chunks n))) = zrange 0 n.
Proof.
  intros n Hn. pose proof (num_chunks_pos n Hn) as Hk.
  rewrite concat_chunks_prefix, bnd_last by lia. reflexivity.
Qed.

(* ====================================================================================== *)
(* chunk arithmetic as written (finding 1): refutation                                    *)
(* ====================================================================================== *)

Lemma chunks_w_refuted : exists n i, 0 <= n /\ 0 <= i < num_chunks n /\ n < cend_w n i.
Proof. exists 160, 26. vm_compute. intuition discriminate. Qed.

Lemma chunks_w_refuted_general : forall q r,
  5 <= q -> 0 <= r -> q + r < 31 -> r < 32 ->
  let n := 32 * q + r in
  exists i, 0 <= i < num_chunks n - 1 /\ n < cend_w n i.
Proof.
  intros q r Hq Hr Hqr Hr32 n. subst n.
  assert (Hdiv : (32 * q + r) / 32 = q) by lia.
  assert (Hk : num_chunks (32 * q + r) = 32).
  { unfold num_chunks, max_num_chunks, min_chunk_size. rewrite Hdiv.
    destruct (Z.gtb_spec q 4); [reflexivity | lia]. }
  assert (Hcs : chunk_size (32 * q + r) = q + 1).
  { unfold chunk_size. rewrite Hk. lia. }
  exists 30. unfold cend_w, cbegin_w. rewrite Hk, Hcs.
  split; [lia|]. destruct (Z.ltb_spec 30 (32 - 1)); lia.
Qed.

(* ====================================================================================== *)
(* bulk_schedule loop                                                                     *)
(* ====================================================================================== *)

Lemma num_blocks_bounds count : count <= 16 * num_blocks count <= count + 15.
Proof. unfold num_blocks, bulk_chunk. lia. Qed.

Section Bulk.
  Context {A : Type}.
  Variable body : Z -> A -> bool -> A * bool.

  Lemma run_block_fst : forall l a s, fst (fst (run_block body l a s)) = l.
  Proof.
    induction l as [|i r IH]; intros a s; cbn [run_block]; [reflexivity|].
    destruct (body i a s) as [a' s']. specialize (IH a' s').
    destruct (run_block body r a' s') as [[v a''] s'']. cbn [fst] in *. f_equal. exact IH.
  Qed.

  Lemma run_block_app : forall l1 l2 a s,
    run_block body (l1 ++ l2) a s =
    let '(v1, a1, s1) := run_block body l1 a s in
    let '(v2, a2, s2) := run_block body l2 a1 s1 in
    (v1 ++ v2, a2, s2).
  Proof.
    induction l1 as [|i r IH]; intros l2 a s; cbn [app run_block].
    - destruct (run_block body l2 a s) as [[v2 a2] s2]. reflexivity.
    - destruct (body i a s) as [a' s']. rewrite IH.
      destruct (run_block body r a' s') as [[v1 a1] s1].
      destruct (run_block body l2 a1 s1) as [[v2 a2] s2]. reflexivity.
  Qed.

  (* the state produced by the loop is the plain fold of the body over the visited
     indices, and a done terminal means the stop flag was seen set *)
  Lemma bulk_loop_run_block count : forall blocks a stop v a' t,
    bulk_loop body count blocks a stop = (v, a', t) ->
    exists stop', run_block body v a stop = (v, a', stop') /\ (t = TDone -> stop' = true).
  Proof.
    induction blocks as [|k r IH]; intros a stop v a' t Hloop; cbn [bulk_loop] in Hloop.
    - inversion Hloop; subst. exists stop. split; [reflexivity | discriminate].
    - destruct stop.
      + inversion Hloop; subst. exists true. split; [reflexivity | auto].
      + destruct (run_block body (block count k) a false) as [[v1 a1] s1] eqn:E1.
        destruct (bulk_loop body count r a1 s1) as [[v2 a2] t2] eqn:E2.
        inversion Hloop; subst.
        apply IH in E2. destruct E2 as (s' & Hrb & Hdone).
        exists s'. split; [|exact Hdone].
        assert (Hv1 : v1 = block count k).
        { pose proof (run_block_fst (block count k) a false) as Hf.
          rewrite E1 in Hf. exact Hf. }
        subst v1. rewrite run_block_app, E1, Hrb. reflexivity.
  Qed.

  Lemma bulk_loop_prefix count : 0 <= count ->
    forall blocks j a stop v a' t,
    0 <= j <= num_blocks count -> blocks = zrange j (num_blocks count) ->
    bulk_loop body count blocks a stop = (v, a', t) ->
    exists m, Z.min (16 * j) count <= m <= count /\ v = zrange (Z.min (16 * j) count) m /\
              (t = TValue -> m = count) /\ (t = TDone -> m mod 16 = 0).
  Proof.
    intros Hc. pose proof (num_blocks_bounds count) as Hnb.
    set (nb := num_blocks count) in *. clearbody nb.
    induction blocks as [|k r IH]; intros j a stop v a' t Hj Hshape Hloop;
      cbn [bulk_loop] in Hloop.
    - symmetry in Hshape. apply zrange_nil_inv in Hshape.
      inversion Hloop; subst. exists count.
      replace (Z.min (16 * j) count) with count by lia.
      split; [lia|]. split; [rewrite zrange_nil by lia; reflexivity|].
      split; [reflexivity | discriminate].
    - symmetry in Hshape. apply zrange_cons_inv in Hshape.
      destruct Hshape as (Hlt & -> & ->).
      replace (Z.min (16 * j) count) with (16 * j) by lia.
      destruct stop.
      + inversion Hloop; subst. exists (16 * j).
        split; [lia|]. split; [rewrite zrange_nil by lia; reflexivity|].
        split; [discriminate | intros _; lia].
      + destruct (run_block body (block count j) a false) as [[v1 a1] s1] eqn:E1.
        destruct (bulk_loop body count (zrange (j + 1) nb) a1 s1) as [[v2 a2] t2] eqn:E2.
        inversion Hloop; subst.
        apply (IH (j + 1)) in E2; [|lia|reflexivity].
        destruct E2 as (m & Hm & Hv2 & Hval & Hdone).
        assert (Hv1 : v1 = block count j).
        { pose proof (run_block_fst (block count j) a false) as Hf.
          rewrite E1 in Hf. exact Hf. }
        subst v1 v2. exists m. split; [lia|]. split; [|split; assumption].
        unfold block, bulk_chunk.
        replace (Z.min (16 * j + 16) count) with (Z.min (16 * (j + 1)) count) by lia.
        apply zrange_app. lia.
  Qed.

  Lemma bulk_run_full count a stop0 v a' t : 0 <= count ->
    bulk_run body count a stop0 = (v, a', t) ->
    exists m stop', 0 <= m <= count /\ v = zrange 0 m /\
      (t = TValue -> m = count) /\ (t = TDone -> m mod 16 = 0) /\
      run_block body v a stop0 = (v, a', stop') /\ (t = TDone -> stop' = true).
  Proof.
    intros Hc Hrun. unfold bulk_run in Hrun.
    pose proof (num_blocks_bounds count) as Hnb.
    destruct (bulk_loop_run_block _ _ _ _ _ _ _ Hrun) as (s' & Hrb & Hs').
    destruct (bulk_loop_prefix count Hc _ 0 _ _ _ _ _ ltac:(lia) eq_refl Hrun)
      as (m & Hm & Hv & Hval & Hdone).
    replace (Z.min (16 * 0) count) with 0 in * by lia.
    exists m, s'. repeat split; try assumption; lia.
  Qed.
End Bulk.

(* Lemma 6 *)
Lemma bulk_run_prefix : forall A body count (a : A), 0 <= count -> forall stop0,
  let '(v, _, t) := bulk_run body count a stop0 in
  exists m, 0 <= m <= count /\ v = zrange 0 m /\
            (t = TValue -> m = count) /\ (t = TDone -> m mod 16 = 0).
Proof.
  intros A body count a Hc stop0.
  destruct (bulk_run body count a stop0) as [[v a'] t] eqn:Hrun.
  destruct (bulk_run_full body count a stop0 v a' t Hc Hrun)
    as (m & s' & Hm & Hv & Hval & Hdone & _).
  exists m. auto.
Qed.

(* a unit-state body that only raises the stop flag on the indices selected by [f] *)
Definition flag_body (f : Z -> bool) (i : Z) (_ : unit) (s : bool) : unit * bool :=
  (tt, s || f i).

Lemma run_block_flag f : forall l s,
  run_block (flag_body f) l tt s = (l, tt, s || existsb f l).
Proof.
  induction l as [|i r IH]; intros s; cbn [run_block existsb].
  - rewrite orb_false_r. reflexivity.
  - unfold flag_body at 1. rewrite IH, orb_assoc. reflexivity.
Qed.

Lemma bulk_flag_nostop f count : 0 <= count ->
  (forall i, 0 <= i < 16 * (num_blocks count - 1) -> f i = false) ->
  forall blocks j stop, 0 <= j <= num_blocks count ->
  blocks = zrange j (num_blocks count) ->
  (j < num_blocks count -> stop = false) ->
  bulk_loop (flag_body f) count blocks tt stop =
  (zrange (Z.min (16 * j) count) count, tt, TValue).
Proof.
  intros Hc Hf. pose proof (num_blocks_bounds count) as Hnb.
  set (nb := num_blocks count) in *. clearbody nb.
  induction blocks as [|k r IH]; intros j stop Hj Hshape Hstop; cbn [bulk_loop].
  - symmetry in Hshape. apply zrange_nil_inv in Hshape.
    rewrite zrange_nil by lia. reflexivity.
  - symmetry in Hshape. apply zrange_cons_inv in Hshape.
    destruct Hshape as (Hlt & -> & ->). rewrite (Hstop Hlt).
    rewrite run_block_flag. cbn [orb].
    rewrite (IH (j + 1) (existsb f (block count j))); [|lia|reflexivity|].
    + f_equal. f_equal. unfold block, bulk_chunk.
      replace (Z.min (16 * j) count) with (16 * j) by lia.
      replace (Z.min (16 * j + 16) count) with (Z.min (16 * (j + 1)) count) by lia.
      apply zrange_app. lia.
    + intros Hnext. apply existsb_false. intros x Hx.
      unfold block, bulk_chunk in Hx. apply In_zrange in Hx. apply Hf. lia.
Qed.

Lemma bulk_flag_stop count k : 0 <= count -> k < num_blocks count ->
  forall d j, Z.to_nat (k - j) = d -> 0 <= j <= k ->
  bulk_loop (flag_body (fun i => i + 1 =? 16 * k)) count
            (zrange j (num_blocks count)) tt (k <=? j) =
  (zrange (16 * j) (16 * k), tt, TDone).
Proof.
  intros Hc Hk. pose proof (num_blocks_bounds count) as Hnb.
  set (nb := num_blocks count) in *. clearbody nb.
  induction d as [|d IH]; intros j Hd Hj.
  - assert (j = k) by lia. subst j.
    rewrite (zrange_cons k nb) by lia. rewrite Z.leb_refl. cbn [bulk_loop].
    rewrite zrange_nil by lia. reflexivity.
  - rewrite (zrange_cons j nb) by lia.
    destruct (Z.leb_spec k j) as [Hle|Hgt]; [lia|]. cbn [bulk_loop].
    rewrite run_block_flag. cbn [orb].
    assert (Hs : existsb (fun i => i + 1 =? 16 * k) (block count j) = (k <=? j + 1)).
    { unfold block, bulk_chunk. rewrite existsb_succ_eqb_zrange.
      destruct (Z.leb_spec (16 * j + 1) (16 * k)), (Z.leb_spec k (j + 1)),
        (Z.leb_spec (16 * k) (Z.min (16 * j + 16) count)); cbn [andb]; try reflexivity; lia. }
    rewrite Hs, (IH (j + 1)) by lia.
    f_equal. f_equal. unfold block, bulk_chunk.
    replace (Z.min (16 * j + 16) count) with (16 * (j + 1)) by lia.
    apply zrange_app. lia.
Qed.

(* Lemma 7 *)
Lemma bulk_indices_spec : forall count, 0 <= count ->
  bulk_indices count None = (zrange 0 count, TValue) /\
  forall k, 0 <= k ->
    (16 * k < count -> bulk_indices count (Some k) = (zrange 0 (16 * k), TDone)) /\
    (count <= 16 * k -> bulk_indices count (Some k) = (zrange 0 count, TValue)).
Proof.
  intros count Hc. pose proof (num_blocks_bounds count) as Hnb.
  split; [|intros k Hk; split; intros Hck].
  - unfold bulk_indices, bulk_run.
    change (fun (i : Z) (_ : unit) (s : bool) => (tt, s || false))
      with (flag_body (fun _ => false)).
    rewrite (bulk_flag_nostop (fun _ => false) count Hc (fun _ _ => eq_refl)
               _ 0 false ltac:(lia) eq_refl (fun _ => eq_refl)).
    replace (Z.min (16 * 0) count) with 0 by lia. reflexivity.
  - unfold bulk_indices, bulk_run, bulk_chunk.
    change (fun (i : Z) (_ : unit) (s : bool) => (tt, s || (i + 1 =? 16 * k)))
      with (flag_body (fun i => i + 1 =? 16 * k)).
    rewrite (bulk_flag_stop count k Hc ltac:(lia) _ 0 eq_refl ltac:(lia)).
    replace (16 * 0) with 0 by lia. reflexivity.
  - unfold bulk_indices, bulk_run, bulk_chunk.
    change (fun (i : Z) (_ : unit) (s : bool) => (tt, s || (i + 1 =? 16 * k)))
      with (flag_body (fun i => i + 1 =? 16 * k)).
    rewrite (bulk_flag_nostop (fun i => i + 1 =? 16 * k) count Hc) with (j := 0).
    + replace (Z.min (16 * 0) count) with 0 by lia. reflexivity.
    + intros i Hi. apply Z.eqb_neq. lia.
    + lia.
    + reflexivity.
    + intros Hlt. apply Z.leb_gt. lia.
Qed.

(* ====================================================================================== *)
(* find_if, parallel policy                                                               *)
(* ====================================================================================== *)

Section FindBody.
  Variables (chunkf : Z -> Z -> list Z) (pred : Z -> bool) (n : Z).

  Definition visited_of (l : list Z) : list Z :=
    concat (map (fun i => fst (scan pred (chunkf n i))) l).
  Definition hit_of (i : Z) : list (Z * Z) :=
    match snd (scan pred (chunkf n i)) with Some x => [(i, x)] | None => [] end.
  Definition hits_of (l : list Z) : list (Z * Z) := concat (map hit_of l).

  Lemma visited_of_cons i r :
    visited_of (i :: r) = fst (scan pred (chunkf n i)) ++ visited_of r.
  Proof. reflexivity. Qed.

  Lemma hits_of_cons i r : hits_of (i :: r) = hit_of i ++ hits_of r.
  Proof. reflexivity. Qed.

  Lemma run_block_find : forall l st stop,
    run_block (find_body chunkf pred n) l st stop =
    (l, (fst st ++ visited_of l, snd st ++ hits_of l),
     stop || match hits_of l with [] => false | _ => true end).
  Proof.
    induction l as [|i r IH]; intros st stop.
    - cbn [run_block]. unfold visited_of, hits_of. cbn [map concat].
      rewrite !app_nil_r, orb_false_r. destruct st. reflexivity.
    - cbn [run_block]. unfold find_body at 1.
      rewrite visited_of_cons, hits_of_cons. unfold hit_of.
      destruct (scan pred (chunkf n i)) as [v h]. cbn [fst snd].
      destruct h as [x|]; rewrite IH; cbn [fst snd app].
      + rewrite <- !app_assoc. cbn [app]. rewrite orb_true_r. reflexivity.
      + rewrite <- !app_assoc. reflexivity.
  Qed.

  Lemma find_hits : forall l i,
    find (fun p : Z * Z => fst p =? i) (hits_of l) =
    if existsb (Z.eqb i) l then option_map (pair i) (snd (scan pred (chunkf n i))) else None.
  Proof.
    induction l as [|j r IH]; intros i; [reflexivity|].
    rewrite hits_of_cons. cbn [existsb]. unfold hit_of.
    destruct (Z.eqb_spec i j) as [->|Hne]; cbn [orb].
    - destruct (snd (scan pred (chunkf n j))) as [x|] eqn:E; cbn [app find fst option_map].
      + rewrite Z.eqb_refl. reflexivity.
      + rewrite IH, E. destruct (existsb (Z.eqb j) r); reflexivity.
    - destruct (snd (scan pred (chunkf n j))) as [x|]; cbn [app find fst].
      + destruct (Z.eqb_spec j i) as [Heq|_]; [congruence | apply IH].
      + apply IH.
  Qed.

  Lemma fold_hit_scan (f : Z -> list Z) (d : Z) : forall l,
    fold_right (fun i acc => match snd (scan pred (f i)) with Some x => x | None => acc end) d l =
    match snd (scan pred (concat (map f l))) with Some x => x | None => d end.
  Proof.
    induction l as [|i r IH]; cbn [fold_right map concat]; [reflexivity|].
    rewrite scan_app_snd, IH. destruct (snd (scan pred (f i))); reflexivity.
  Qed.

  Lemma first_hit_eq m k : 0 <= m <= k ->
    first_hit k (hits_of (zrange 0 m)) n =
    match snd (scan pred (concat (map (chunkf n) (zrange 0 m)))) with
    | Some x => x | None => n end.
  Proof.
    intros Hm. unfold first_hit.
    rewrite <- (zrange_app 0 m k) by lia. rewrite fold_right_app.
    rewrite (fold_right_ext_in _ (fun _ acc => acc) n (zrange m k)).
    - rewrite fold_right_skip.
      rewrite <- fold_hit_scan. apply fold_right_ext_in.
      intros i acc Hin. apply In_zrange in Hin.
      rewrite find_hits, existsb_eqb_zrange.
      destruct (Z.leb_spec 0 i), (Z.ltb_spec i m); try lia. cbn [andb].
      destruct (snd (scan pred (chunkf n i))); reflexivity.
    - intros i acc Hin. apply In_zrange in Hin.
      rewrite find_hits, existsb_eqb_zrange.
      destruct (Z.leb_spec 0 i), (Z.ltb_spec i m); try lia; reflexivity.
  Qed.

  Lemma hits_nil : forall l,
    snd (scan pred (concat (map (chunkf n) l))) = None -> hits_of l = [].
  Proof.
    induction l as [|i r IH]; cbn [map concat]; intros Hnone; [reflexivity|].
    rewrite scan_app_snd in Hnone.
    rewrite hits_of_cons. unfold hit_of.
    destruct (snd (scan pred (chunkf n i))); [discriminate|].
    cbn [app]. apply IH. exact Hnone.
  Qed.
End FindBody.

(* the visited offsets of the parallel algorithm, over the first m chunks *)
Lemma visited_inc pred n m : 0 <= n -> 0 <= m <= num_chunks n ->
  inc_in 0 n (visited_of chunk pred n (zrange 0 m)).
Proof.
  intros Hn Hm. unfold visited_of.
  destruct (concat_inc_chain (fun i => fst (scan pred (chunk n i))) (bnd n) m) as [Hinc _];
    [lia | |].
  - intros i Hi. destruct (bnd_chunk n i Hn) as (_ & _ & Hle); [lia|].
    split; [exact Hle|]. rewrite chunk_bnd by lia. apply inc_in_scan, inc_in_zrange.
  - rewrite bnd_0 in Hinc by lia.
    eapply inc_in_weaken; [exact Hinc | lia | apply bnd_le; lia].
Qed.

(* the parallel algorithm returns what the sequenced one returns, and evaluates the
   predicate on a strictly increasing list of in-range offsets *)
Lemma find_par_seq : forall pred n, 0 <= n ->
  fst (find_par pred n) = fst (find_seq pred n) /\ inc_in 0 n (snd (find_par pred n)).
Proof.
  intros pred n Hn. pose proof (num_chunks_pos n Hn) as Hk.
  unfold find_par, find_par_gen.
  destruct (bulk_run (find_body chunk pred n) (num_chunks n) ([], []) false)
    as [[v st] t] eqn:Hrun.
  apply bulk_run_full in Hrun; [|lia].
  destruct Hrun as (m & s' & Hm & Hv & Hval & _ & Hrb & Hdone). subst v.
  rewrite run_block_find in Hrb. cbn [fst snd app orb] in Hrb.
  inversion Hrb as [[Hst Hs']]. clear Hrb. cbn [fst snd].
  split; [|apply visited_inc; lia].
  rewrite first_hit_eq by lia.
  unfold find_seq.
  destruct (scan pred (zrange 0 n)) as [vs hs] eqn:Hscan. cbn [fst].
  assert (Hsplit : zrange 0 n =
                   concat (map (chunk n) (zrange 0 m)) ++
                   concat (map (chunk n) (zrange m (num_chunks n)))).
  { rewrite <- concat_app, <- map_app, zrange_app by lia.
    symmetry. apply concat_chunks. exact Hn. }
  assert (Hsnd : hs = snd (scan pred (zrange 0 n))) by (rewrite Hscan; reflexivity).
  rewrite Hsplit, scan_app_snd in Hsnd.
  destruct (snd (scan pred (concat (map (chunk n) (zrange 0 m))))) as [x|] eqn:Hpre.
  - subst hs. reflexivity.
  - apply hits_nil in Hpre.
    destruct t.
    + rewrite (Hval eq_refl), (zrange_nil (num_chunks n) (num_chunks n)) in Hsnd by lia.
      cbn [map concat scan snd] in Hsnd. subst hs. reflexivity.
    + specialize (Hdone eq_refl). rewrite Hpre in Hs'. congruence.
Qed.

(* Lemma 3 *)
Lemma find_par_spec : forall pred n, 0 <= n ->
  let (r, visited) := find_par pred n in
  Forall (fun x => 0 <= x < n) visited /\ NoDup visited /\
  ((r = n /\ forall x, 0 <= x < n -> pred x = false) \/
   (0 <= r < n /\ pred r = true /\ forall x, 0 <= x < r -> pred x = false)).
Proof.
  intros pred n Hn.
  destruct (find_par_seq pred n Hn) as [Hr Hinc].
  pose proof (find_seq_spec pred n Hn) as Hseq.
  destruct (find_par pred n) as [r visited]. destruct (find_seq pred n) as [r' visited'].
  cbn [fst snd] in *. subst r'.
  split; [apply inc_in_Forall; exact Hinc|].
  split; [eapply inc_in_NoDup; exact Hinc|]. tauto.
Qed.
