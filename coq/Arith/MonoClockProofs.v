(* Proofs about the model of unifex::linuxos::monotonic_clock::time_point in MonoClockDefs.v.

   All theorems quantify over ALL mathematical integers (no bounds): int64 overflow is outside
   the model.  Summary of what is established:

   - normalize() preserves the denoted instant and, for EVERY input (any seconds, any
     nanoseconds, however large or of whichever sign), its single truncating-division step
     followed by its single sign fix-up yields a canonical representation.
   - canonical representations are unique, so ==, < on canonical points coincide with =, < on
     the denoted nanosecond values; < is a strict total order there.
   - += / -= of a 100ns-tick duration are exact and inverse to each other.
   - operator-(tp,tp) AS WRITTEN BEFORE THE FIX (diff_w) is exact on the 100ns grid; off the
     grid it is within one tick of the truth but it is NOT truncation toward zero of the true
     difference (diff_not_trunc_refuted): it truncates the nanosecond-field difference, so
     the result is rounded toward -oo when ns a >= ns b and toward +oo when ns a < ns b.
   - operator-(tp,tp) of the current code (diff, repo commit 69a85c3) IS the true difference
     truncated toward zero on canonical points (diff_trunc), so b + (a - b) never overshoots
     a (add_diff_le). *)
From Coq Require Import ZArith Bool Lia.
From V Require Import Arith.MonoClockDefs.
Local Open Scope Z_scope.

(* Z.quot / Z.rem are turned into their defining (in)equations for lia. *)
Ltac Zify.zify_post_hook ::= Z.quot_rem_to_equations.

Ltac unfold_consts := unfold ns_per_sec, ticks_per_sec, ns_per_tick in *.

(* ------------------------------------------------------------------------------------- *)
(* canonical / canonicalb                                                                *)

Lemma canonicalb_iff : forall t, canonicalb t = true <-> canonical t.
Proof.
  intros [s n]. unfold canonicalb, canonical. cbn [sec ns].
  destruct (0 <? s) eqn:Hs1; destruct (s <? 0) eqn:Hs2;
    rewrite ?andb_true_iff, ?Z.ltb_lt, ?Z.leb_le;
    rewrite ?Z.ltb_lt, ?Z.ltb_ge in Hs1, Hs2; intuition lia.
Qed.

(* ------------------------------------------------------------------------------------- *)
(* normalize                                                                             *)

(* The three-way case split of normalize, with the branch conditions as propositions. *)
Lemma normalize_cases :
  forall t,
    let e := Z.quot (ns t) ns_per_sec in
    let s := sec t + e in
    let n := ns t - e * ns_per_sec in
    (s < 0 /\ 0 < n /\ normalize t = mk_tp (s + 1) (n - ns_per_sec)) \/
    (0 < s /\ n < 0 /\ normalize t = mk_tp (s - 1) (n + ns_per_sec)) \/
    (~ (s < 0 /\ 0 < n) /\ ~ (0 < s /\ n < 0) /\ normalize t = mk_tp s n).
Proof.
  intros t e s n. unfold normalize. fold e. fold s. fold n.
  destruct (s <? 0) eqn:H1; destruct (0 <? n) eqn:H2;
    destruct (0 <? s) eqn:H3; destruct (n <? 0) eqn:H4; cbn [andb];
    rewrite ?Z.ltb_lt, ?Z.ltb_ge in H1, H2, H3, H4;
    try (left; repeat split; (lia || reflexivity));
    try (right; left; repeat split; (lia || reflexivity));
    right; right; repeat split; try reflexivity; lia.
Qed.

Theorem normalize_value : forall t, value (normalize t) = value t.
Proof.
  intros t. destruct (normalize_cases t) as [[_ [_ E]] | [[_ [_ E]] | [_ [_ E]]]];
    rewrite E; unfold value; cbn [sec ns]; unfold_consts; lia.
Qed.

(* No hypothesis on the input: one quot step leaves |ns| < 10^9 with the sign of the input
   ns, and then at most one of the two sign fix-ups is needed; after it the seconds field
   has not crossed zero, so the result is canonical. *)
Theorem normalize_canonical : forall t, canonical (normalize t).
Proof.
  intros t. destruct (normalize_cases t) as [[A [B E]] | [[A [B E]] | [A [B E]]]];
    rewrite E; unfold canonical; cbn [sec ns]; unfold_consts; lia.
Qed.

Theorem normalize_canonical_id : forall t, canonical t -> normalize t = t.
Proof.
  intros [s n] C. unfold canonical in C. cbn [sec ns] in C.
  destruct (normalize_cases (mk_tp s n)) as [[A [B E]] | [[A [B E]] | [A [B E]]]];
    rewrite E; cbn [sec ns] in *; unfold_consts; f_equal; lia.
Qed.

Theorem normalize_idempotent : forall t, normalize (normalize t) = normalize t.
Proof. intros t. apply normalize_canonical_id, normalize_canonical. Qed.

Theorem from_s_ns_spec :
  forall s n, canonical (from_s_ns s n) /\ value (from_s_ns s n) = s * ns_per_sec + n.
Proof.
  intros s n. unfold from_s_ns. split.
  - apply normalize_canonical.
  - rewrite normalize_value. reflexivity.
Qed.

(* ------------------------------------------------------------------------------------- *)
(* uniqueness of canonical representations; comparison operators                        *)

Theorem canonical_unique :
  forall a b, canonical a -> canonical b -> value a = value b -> a = b.
Proof.
  intros [sa na] [sb nb] Ca Cb V. unfold canonical, value in *. cbn [sec ns] in *.
  unfold_consts. f_equal; lia.
Qed.

Theorem lt_iff :
  forall a b, canonical a -> canonical b -> (lt a b = true <-> value a < value b).
Proof.
  intros [sa na] [sb nb] Ca Cb. unfold canonical, value, lt in *. cbn [sec ns] in *.
  unfold_consts.
  destruct (sa =? sb) eqn:E; [rewrite Z.eqb_eq in E | rewrite Z.eqb_neq in E];
    rewrite Z.ltb_lt; lia.
Qed.

(* == is structural equality on every pair of points (canonical or not) ... *)
Theorem eqb_eq : forall a b, eqb a b = true <-> a = b.
Proof.
  intros [sa na] [sb nb]. unfold eqb. cbn [sec ns].
  rewrite andb_true_iff, !Z.eqb_eq. split.
  - intros [-> ->]. reflexivity.
  - intros E. injection E. auto.
Qed.

(* ... and equality of the denoted instants on canonical points. *)
Theorem eqb_iff :
  forall a b, canonical a -> canonical b -> (eqb a b = true <-> value a = value b).
Proof.
  intros a b Ca Cb. rewrite eqb_eq. split.
  - intros ->. reflexivity.
  - apply canonical_unique; assumption.
Qed.

(* Without canonicity == and < are NOT about instants: (0, 10^9) and (1, 0) denote the
   same instant but compare unequal, and (0, 2*10^9) < (1, 0) although it is later. *)
Theorem eqb_lt_need_canonical :
  exists a b, value a = value b /\ eqb a b = false /\
  exists c d, value d < value c /\ lt c d = true.
Proof.
  exists (mk_tp 0 1000000000), (mk_tp 1 0). repeat split.
  exists (mk_tp 0 2000000000), (mk_tp 1 0). split; reflexivity.
Qed.

Theorem lt_irrefl : forall a, lt a a = false.
Proof.
  intros [s n]. unfold lt. cbn [sec ns]. rewrite Z.eqb_refl. apply Z.ltb_irrefl.
Qed.

Theorem lt_trans :
  forall a b c, canonical a -> canonical b -> canonical c ->
    lt a b = true -> lt b c = true -> lt a c = true.
Proof.
  intros a b c Ca Cb Cc. rewrite !lt_iff by assumption. lia.
Qed.

Theorem lt_asym :
  forall a b, canonical a -> canonical b -> lt a b = true -> lt b a = false.
Proof.
  intros a b Ca Cb H. destruct (lt b a) eqn:E; [|reflexivity].
  rewrite lt_iff in H, E by assumption. lia.
Qed.

Theorem lt_trichotomy :
  forall a b, canonical a -> canonical b ->
    (lt a b = true  /\ a <> b /\ lt b a = false) \/
    (lt a b = false /\ a = b  /\ lt b a = false) \/
    (lt a b = false /\ a <> b /\ lt b a = true).
Proof.
  intros a b Ca Cb.
  pose proof (lt_iff a b Ca Cb) as Hab. pose proof (lt_iff b a Cb Ca) as Hba.
  pose proof (canonical_unique a b Ca Cb) as U.
  destruct (Z.lt_trichotomy (value a) (value b)) as [L | [E | G]].
  - left. destruct (lt a b); destruct (lt b a); repeat split;
      try reflexivity; try (intros ->; lia); intuition lia.
  - right; left. destruct (lt a b); destruct (lt b a); repeat split;
      try reflexivity; try (apply U; exact E); intuition lia.
  - right; right. destruct (lt a b); destruct (lt b a); repeat split;
      try reflexivity; try (intros ->; lia); intuition lia.
Qed.

(* The derived operators as written in the header. *)
Theorem le_iff :
  forall a b, canonical a -> canonical b -> (le a b = true <-> value a <= value b).
Proof.
  intros a b Ca Cb. unfold le. rewrite negb_true_iff.
  pose proof (lt_iff b a Cb Ca) as H. destruct (lt b a); intuition (try lia; try discriminate).
Qed.

Theorem gt_iff :
  forall a b, canonical a -> canonical b -> (gt a b = true <-> value b < value a).
Proof. intros a b Ca Cb. unfold gt. apply lt_iff; assumption. Qed.

Theorem ge_iff :
  forall a b, canonical a -> canonical b -> (ge a b = true <-> value b <= value a).
Proof.
  intros a b Ca Cb. unfold ge. rewrite negb_true_iff.
  pose proof (lt_iff a b Ca Cb) as H. destruct (lt a b); intuition (try lia; try discriminate).
Qed.

(* ------------------------------------------------------------------------------------- *)
(* += and -= of a duration in 100ns ticks                                                *)

Lemma whole_remainder :
  forall d, whole_seconds d * ns_per_sec + remainder_ns d = 100 * d.
Proof. intros d. unfold remainder_ns, whole_seconds. unfold_consts. lia. Qed.

(* canonical t is not even needed: += normalizes whatever it is given. *)
Theorem add_dur_value_any :
  forall t d, value (add_dur t d) = value t + 100 * d /\ canonical (add_dur t d).
Proof.
  intros t d. unfold add_dur. split.
  - rewrite normalize_value. unfold value. cbn [sec ns].
    pose proof (whole_remainder d). unfold_consts. lia.
  - apply normalize_canonical.
Qed.

Theorem add_dur_value :
  forall t d, canonical t ->
    value (add_dur t d) = value t + 100 * d /\ canonical (add_dur t d).
Proof. intros t d _. apply add_dur_value_any. Qed.

Theorem sub_dur_value_any :
  forall t d, value (sub_dur t d) = value t - 100 * d /\ canonical (sub_dur t d).
Proof.
  intros t d. unfold sub_dur. split.
  - rewrite normalize_value. unfold value. cbn [sec ns].
    pose proof (whole_remainder d). unfold_consts. lia.
  - apply normalize_canonical.
Qed.

Theorem sub_dur_value :
  forall t d, canonical t ->
    value (sub_dur t d) = value t - 100 * d /\ canonical (sub_dur t d).
Proof. intros t d _. apply sub_dur_value_any. Qed.

Theorem add_sub_roundtrip :
  forall t d, canonical t -> sub_dur (add_dur t d) d = t.
Proof.
  intros t d C.
  destruct (add_dur_value_any t d) as [Va _].
  destruct (sub_dur_value_any (add_dur t d) d) as [Vs Cs].
  apply canonical_unique; [exact Cs | exact C | lia].
Qed.

Theorem sub_add_roundtrip :
  forall t d, canonical t -> add_dur (sub_dur t d) d = t.
Proof.
  intros t d C.
  destruct (sub_dur_value_any t d) as [Vs _].
  destruct (add_dur_value_any (sub_dur t d) d) as [Va Ca].
  apply canonical_unique; [exact Ca | exact C | lia].
Qed.

Theorem add_dur_0 : forall t, canonical t -> add_dur t 0 = t.
Proof.
  intros t C. destruct (add_dur_value_any t 0) as [V C'].
  apply canonical_unique; [exact C' | exact C | lia].
Qed.

Theorem add_dur_add :
  forall t d1 d2, add_dur (add_dur t d1) d2 = add_dur t (d1 + d2).
Proof.
  intros t d1 d2.
  destruct (add_dur_value_any t d1) as [V1 _].
  destruct (add_dur_value_any (add_dur t d1) d2) as [V2 C2].
  destruct (add_dur_value_any t (d1 + d2)) as [V3 C3].
  apply canonical_unique; [exact C2 | exact C3 | lia].
Qed.

Theorem add_dur_lt_mono :
  forall t d1 d2, lt (add_dur t d1) (add_dur t d2) = true <-> d1 < d2.
Proof.
  intros t d1 d2.
  destruct (add_dur_value_any t d1) as [V1 C1].
  destruct (add_dur_value_any t d2) as [V2 C2].
  rewrite lt_iff by assumption. lia.
Qed.

(* ------------------------------------------------------------------------------------- *)
(* operator-(time_point, time_point) AS WRITTEN BEFORE THE FIX: diff_w                   *)

(* Exact relation, for ALL a b (canonical or not): the only loss is the truncating division
   of the nanosecond-FIELD difference. *)
Theorem diff_w_exact :
  forall a b, 100 * diff_w a b = (value a - value b) - Z.rem (ns a - ns b) 100.
Proof.
  intros [sa na] [sb nb]. unfold diff_w, value. cbn [sec ns]. unfold_consts. lia.
Qed.

Theorem diff_w_error_bound :
  forall a b, Z.abs (100 * diff_w a b - (value a - value b)) < 100.
Proof. intros a b. rewrite diff_w_exact. lia. Qed.

(* Direction of the error: toward -oo when ns a >= ns b, toward +oo when ns a <= ns b.
   Together with the bound: diff_w is the floor in the first case, the ceiling in the second. *)
Theorem diff_w_error_direction :
  forall a b,
    (ns b <= ns a -> 100 * diff_w a b <= value a - value b < 100 * diff_w a b + 100) /\
    (ns a <= ns b -> 100 * diff_w a b - 100 < value a - value b <= 100 * diff_w a b).
Proof. intros a b. pose proof (diff_w_exact a b) as E. split; intros H; lia. Qed.

Corollary diff_w_floor_or_ceil :
  forall a b,
    (ns b <= ns a -> diff_w a b = (value a - value b) / 100) /\
    (ns a <= ns b -> diff_w a b = - ((value b - value a) / 100)).
Proof.
  intros a b. destruct (diff_w_error_direction a b) as [H1 H2]. split; intros H.
  - specialize (H1 H).
    apply Z.div_unique with (r := value a - value b - 100 * diff_w a b); lia.
  - specialize (H2 H). apply Z.opp_inj. rewrite Z.opp_involutive.
    apply Z.div_unique with (r := value b - value a + 100 * diff_w a b); lia.
Qed.

(* On the 100ns grid (in particular for everything reachable from one grid point by += / -=)
   the difference is exact. *)
Theorem diff_w_exact_on_grid :
  forall a b, Z.rem (ns a) 100 = 0 -> Z.rem (ns b) 100 = 0 ->
    100 * diff_w a b = value a - value b.
Proof. intros a b Ha Hb. rewrite diff_w_exact. lia. Qed.

(* More generally: exact iff the two nanosecond fields are congruent modulo 100. *)
Theorem diff_w_exact_iff :
  forall a b, 100 * diff_w a b = value a - value b <-> Z.rem (ns a - ns b) 100 = 0.
Proof. intros a b. rewrite diff_w_exact. lia. Qed.

Theorem add_dur_aligned :
  forall t d, Z.rem (ns t) 100 = 0 -> Z.rem (ns (add_dur t d)) 100 = 0.
Proof.
  intros t d A. unfold add_dur.
  destruct (normalize_cases (mk_tp (sec t + whole_seconds d) (ns t + remainder_ns d)))
    as [[_ [_ E]] | [[_ [_ E]] | [_ [_ E]]]];
    rewrite E; cbn [sec ns]; unfold remainder_ns, whole_seconds; unfold_consts; lia.
Qed.

Theorem sub_dur_aligned :
  forall t d, Z.rem (ns t) 100 = 0 -> Z.rem (ns (sub_dur t d)) 100 = 0.
Proof.
  intros t d A. unfold sub_dur.
  destruct (normalize_cases (mk_tp (sec t - whole_seconds d) (ns t - remainder_ns d)))
    as [[_ [_ E]] | [[_ [_ E]] | [_ [_ E]]]];
    rewrite E; cbn [sec ns]; unfold remainder_ns, whole_seconds; unfold_consts; lia.
Qed.

(* (t + d) - t = d, for every t (canonical or not) and every d. *)
Theorem diff_w_add_any : forall t d, diff_w (add_dur t d) t = d.
Proof.
  intros t d. destruct (add_dur_value_any t d) as [V _].
  pose proof (diff_w_exact (add_dur t d) t) as E.
  unfold value in V, E. unfold_consts. lia.
Qed.

Theorem diff_w_add : forall t d, canonical t -> diff_w (add_dur t d) t = d.
Proof. intros t d _. apply diff_w_add_any. Qed.

Theorem diff_w_sub_any : forall t d, diff_w t (sub_dur t d) = d.
Proof.
  intros t d. destruct (sub_dur_value_any t d) as [V _].
  pose proof (diff_w_exact t (sub_dur t d)) as E.
  unfold value in V, E. unfold_consts. lia.
Qed.

Theorem diff_w_self : forall a, diff_w a a = 0.
Proof. intros a. pose proof (diff_w_exact a a). lia. Qed.

Theorem diff_w_antisym : forall a b, diff_w a b = - diff_w b a.
Proof.
  intros [sa na] [sb nb]. unfold diff_w. cbn [sec ns]. unfold_consts. lia.
Qed.

(* The sign of the difference never contradicts the order (it may be 0 for distinct points
   less than a tick apart). *)
Theorem diff_w_sign :
  forall a b,
    (diff_w a b < 0 -> value a < value b) /\
    (0 < diff_w a b -> value b < value a) /\
    (value a = value b -> diff_w a b = 0).
Proof. intros a b. pose proof (diff_w_exact a b) as E. repeat split; intros H; lia. Qed.

(* diff_w is monotone in its first argument on canonical points, in spite of the mixed
   rounding direction. *)
Theorem diff_w_mono :
  forall a a' b, canonical a -> canonical a' ->
    value a <= value a' -> diff_w a b <= diff_w a' b.
Proof.
  intros [sa na] [sa' na'] [sb nb] Ca Ca' V.
  unfold canonical, value, diff_w in *. cbn [sec ns] in *. unfold_consts. lia.
Qed.

(* REFUTED: operator- is not "true difference truncated toward zero" (what duration_cast of
   the exact nanosecond difference would give).  a = (1s, 0ns), b = (0s, 1ns): the true
   difference is 999'999'999ns = 9'999'999.99 ticks, truncation gives 9'999'999, the code
   returns 10'000'000. *)
Theorem diff_not_trunc_refuted :
  exists a b, canonical a /\ canonical b /\ diff_w a b <> Z.quot (value a - value b) 100.
Proof.
  exists (mk_tp 1 0), (mk_tp 0 1).
  split; [apply canonicalb_iff; vm_compute; reflexivity|].
  split; [apply canonicalb_iff; vm_compute; reflexivity|].
  intro H. vm_compute in H. discriminate H.
Qed.

(* It is not the floor either (same witness; by diff_w_floor_or_ceil it is the ceiling there),
   nor the ceiling: a = (0s, 1ns), b = (1s, 0ns) gives the floor -10'000'000 of -9'999'999.99. *)
Theorem diff_not_floor_refuted :
  exists a b, canonical a /\ canonical b /\ diff_w a b <> (value a - value b) / 100.
Proof.
  exists (mk_tp 1 0), (mk_tp 0 1).
  split; [apply canonicalb_iff; vm_compute; reflexivity|].
  split; [apply canonicalb_iff; vm_compute; reflexivity|].
  intro H. vm_compute in H. discriminate H.
Qed.

Theorem diff_not_ceil_refuted :
  exists a b, canonical a /\ canonical b /\ diff_w a b <> - ((value b - value a) / 100).
Proof.
  exists (mk_tp 0 1), (mk_tp 1 0).
  split; [apply canonicalb_iff; vm_compute; reflexivity|].
  split; [apply canonicalb_iff; vm_compute; reflexivity|].
  intro H. vm_compute in H. discriminate H.
Qed.

(* Exactly when it agrees with truncation: the true difference and the nanosecond-field
   difference do not have strictly opposite signs, or nothing is lost. *)
Theorem diff_w_trunc_iff :
  forall a b,
    diff_w a b = Z.quot (value a - value b) 100 <->
    (Z.rem (ns a - ns b) 100 = 0 \/
     (0 <= value a - value b /\ 0 <= ns a - ns b) \/
     (value a - value b <= 0 /\ ns a - ns b <= 0)).
Proof.
  intros a b. pose proof (diff_w_exact a b) as E. split; intros H; lia.
Qed.

(* ------------------------------------------------------------------------------------- *)
(* operator-(time_point, time_point), CURRENT code (repo commit 69a85c3): diff           *)

(* The three-way case split of diff, with the branch conditions as propositions. *)
Lemma diff_cases :
  forall a b,
    let s := sec a - sec b in
    let n := ns a - ns b in
    (0 < s /\ n < 0 /\
     diff a b = (s - 1) * ticks_per_sec + Z.quot (n + ns_per_sec) ns_per_tick) \/
    (s < 0 /\ 0 < n /\
     diff a b = (s + 1) * ticks_per_sec + Z.quot (n - ns_per_sec) ns_per_tick) \/
    (~ (0 < s /\ n < 0) /\ ~ (s < 0 /\ 0 < n) /\
     diff a b = s * ticks_per_sec + Z.quot n ns_per_tick).
Proof.
  intros a b s n. unfold diff. fold s. fold n.
  destruct (0 <? s) eqn:H1; destruct (n <? 0) eqn:H2;
    destruct (s <? 0) eqn:H3; destruct (0 <? n) eqn:H4; cbn [andb];
    rewrite ?Z.ltb_lt, ?Z.ltb_ge in H1, H2, H3, H4;
    try (left; repeat split; (lia || reflexivity));
    try (right; left; repeat split; (lia || reflexivity));
    right; right; repeat split; try reflexivity; lia.
Qed.

Ltac diff_by_cases a b :=
  let A := fresh "A" in let B := fresh "B" in let E := fresh "E" in
  destruct (diff_cases a b) as [[A [B E]] | [[A [B E]] | [A [B E]]]];
  rewrite E; clear E.

(* Weakest natural hypothesis: whenever the seconds fields differ, the nanosecond fields do
   not differ by more than a second in the OPPOSITE direction (then the single fix-up makes
   the signs of the two parts agree).  It follows from canonicity of both points
   (diff_trunc) and, independently, from |ns a - ns b| <= 10^9 (diff_trunc_ns_bound);
   some hypothesis is needed (diff_trunc_needs_hyp). *)
Theorem diff_trunc_gen :
  forall a b,
    (0 < sec a - sec b -> - ns_per_sec <= ns a - ns b) ->
    (sec a - sec b < 0 -> ns a - ns b <= ns_per_sec) ->
    diff a b = Z.quot (value a - value b) 100.
Proof.
  intros [sa na] [sb nb] H1 H2. unfold value. cbn [sec ns] in *.
  diff_by_cases (mk_tp sa na) (mk_tp sb nb); cbn [sec ns] in *; unfold_consts; lia.
Qed.

Theorem diff_trunc :
  forall a b, canonical a -> canonical b -> diff a b = Z.quot (value a - value b) 100.
Proof.
  intros a b Ca Cb. apply diff_trunc_gen; unfold canonical in *; unfold_consts; lia.
Qed.

Theorem diff_trunc_ns_bound :
  forall a b, Z.abs (ns a - ns b) <= ns_per_sec ->
    diff a b = Z.quot (value a - value b) 100.
Proof. intros a b H. apply diff_trunc_gen; unfold_consts; lia. Qed.

(* Without any hypothesis the fixed operator- still is not truncation: a = (2s, -10^9-1 ns)
   (not canonical), b = 0: true difference 999'999'999ns, result 10'000'000 ticks. *)
Theorem diff_trunc_needs_hyp :
  exists a b, diff a b <> Z.quot (value a - value b) 100.
Proof.
  exists (mk_tp 2 (-1000000001)), (mk_tp 0 0).
  intro H. vm_compute in H. discriminate H.
Qed.

(* The witness that refutes truncation for the as-written operator is repaired. *)
Theorem diff_fixes_witness :
  diff (mk_tp 1 0) (mk_tp 0 1) = 9999999 /\ diff_w (mk_tp 1 0) (mk_tp 0 1) = 10000000.
Proof. split; vm_compute; reflexivity. Qed.

(* The remaining properties hold for ALL a b (canonical or not). *)
Theorem diff_error_bound :
  forall a b, Z.abs (100 * diff a b - (value a - value b)) < 100.
Proof.
  intros [sa na] [sb nb]. unfold value. cbn [sec ns].
  diff_by_cases (mk_tp sa na) (mk_tp sb nb); cbn [sec ns] in *; unfold_consts; lia.
Qed.

Theorem diff_exact_iff :
  forall a b, 100 * diff a b = value a - value b <-> Z.rem (ns a - ns b) 100 = 0.
Proof.
  intros [sa na] [sb nb]. unfold value. cbn [sec ns].
  diff_by_cases (mk_tp sa na) (mk_tp sb nb); cbn [sec ns] in *; unfold_consts; lia.
Qed.

Theorem diff_exact_on_grid :
  forall a b, Z.rem (ns a) 100 = 0 -> Z.rem (ns b) 100 = 0 ->
    100 * diff a b = value a - value b.
Proof. intros a b Ha Hb. apply diff_exact_iff. lia. Qed.

(* (t + d) - t = d, for every t (canonical or not) and every d. *)
Theorem diff_add_any : forall t d, diff (add_dur t d) t = d.
Proof.
  intros t d. destruct (add_dur_value_any t d) as [V _].
  assert (E : 100 * diff (add_dur t d) t = value (add_dur t d) - value t).
  { apply diff_exact_iff. unfold value in V. unfold_consts. lia. }
  lia.
Qed.

Theorem diff_add : forall t d, canonical t -> diff (add_dur t d) t = d.
Proof. intros t d _. apply diff_add_any. Qed.

Theorem diff_sub_any : forall t d, diff t (sub_dur t d) = d.
Proof.
  intros t d. destruct (sub_dur_value_any t d) as [V _].
  assert (E : 100 * diff t (sub_dur t d) = value t - value (sub_dur t d)).
  { apply diff_exact_iff. unfold value in V. unfold_consts. lia. }
  lia.
Qed.

Theorem diff_sub : forall t d, canonical t -> diff t (sub_dur t d) = d.
Proof. intros t d _. apply diff_sub_any. Qed.

Theorem diff_self : forall a, diff a a = 0.
Proof. intros a. pose proof (diff_error_bound a a). lia. Qed.

Theorem diff_antisym : forall a b, diff a b = - diff b a.
Proof.
  intros [sa na] [sb nb].
  diff_by_cases (mk_tp sa na) (mk_tp sb nb);
    diff_by_cases (mk_tp sb nb) (mk_tp sa na); cbn [sec ns] in *; unfold_consts; lia.
Qed.

Theorem diff_sign :
  forall a b,
    (diff a b < 0 -> value a < value b) /\
    (0 < diff a b -> value b < value a) /\
    (value a = value b -> diff a b = 0).
Proof. intros a b. pose proof (diff_error_bound a b) as E. repeat split; intros H; lia. Qed.

(* and now also conversely, on canonical points, up to the tick resolution *)
Theorem diff_sign_iff :
  forall a b, canonical a -> canonical b ->
    (diff a b < 0 <-> value a - value b <= -100) /\
    (0 < diff a b <-> 100 <= value a - value b) /\
    (diff a b = 0 <-> -100 < value a - value b < 100).
Proof.
  intros a b Ca Cb. rewrite (diff_trunc a b Ca Cb). lia.
Qed.

(* b need not be canonical *)
Theorem diff_mono :
  forall a a' b, canonical a -> canonical a' ->
    value a <= value a' -> diff a b <= diff a' b.
Proof.
  intros [sa na] [sa' na'] [sb nb] Ca Ca' V.
  unfold canonical, value in *. cbn [sec ns] in *.
  diff_by_cases (mk_tp sa na) (mk_tp sb nb);
    diff_by_cases (mk_tp sa' na') (mk_tp sb nb); cbn [sec ns] in *; unfold_consts; lia.
Qed.

(* b + (a - b) lands between b and a, less than one tick short of a: it never overshoots. *)
Theorem add_diff_le :
  forall a b, canonical a -> canonical b ->
    canonical (add_dur b (diff a b)) /\
    (value b <= value a ->
       value b <= value (add_dur b (diff a b)) <= value a) /\
    (value a <= value b ->
       value a <= value (add_dur b (diff a b)) <= value b) /\
    Z.abs (value a - value (add_dur b (diff a b))) < 100.
Proof.
  intros a b Ca Cb. destruct (add_dur_value_any b (diff a b)) as [V C].
  split; [exact C|]. rewrite V, (diff_trunc a b Ca Cb). lia.
Qed.

Theorem add_diff_lt_not_after :
  forall a b, canonical a -> canonical b -> value b <= value a ->
    lt a (add_dur b (diff a b)) = false.
Proof.
  intros a b Ca Cb H. destruct (add_diff_le a b Ca Cb) as [C [H1 _]].
  destruct (lt a (add_dur b (diff a b))) eqn:E; [|reflexivity].
  apply lt_iff in E; [|exact Ca | exact C]. specialize (H1 H). lia.
Qed.

(* The as-written operator did overshoot: b + (a - b) > a for a = (1s,0ns), b = (0s,1ns). *)
Theorem add_diff_w_overshoots :
  exists a b, canonical a /\ canonical b /\ value b <= value a /\
    lt a (add_dur b (diff_w a b)) = true.
Proof.
  exists (mk_tp 1 0), (mk_tp 0 1).
  split; [apply canonicalb_iff; vm_compute; reflexivity|].
  split; [apply canonicalb_iff; vm_compute; reflexivity|].
  split; [vm_compute; discriminate | vm_compute; reflexivity].
Qed.

(* on canonical points diff and diff_w agree exactly when no fix-up is needed or nothing is
   lost *)
Theorem diff_eq_diff_w_iff :
  forall a b, canonical a -> canonical b ->
    (diff a b = diff_w a b <->
     (Z.rem (ns a - ns b) 100 = 0 \/
      ~ ((0 < sec a - sec b /\ ns a - ns b < 0) \/ (sec a - sec b < 0 /\ 0 < ns a - ns b)))).
Proof.
  intros [sa na] [sb nb] Ca Cb. unfold diff_w, canonical in *. cbn [sec ns] in *.
  diff_by_cases (mk_tp sa na) (mk_tp sb nb); cbn [sec ns] in *; unfold_consts; lia.
Qed.
