From Coq Require Import List Bool.
From V Require Import Arith.PolicyDefs.
Import ListNotations.
Import Policy.

Lemma of_flags_unseq u p : allows_unseq (of_flags u p) = u.
Proof. destruct u, p; reflexivity. Qed.
Lemma of_flags_par u p : allows_par (of_flags u p) = p.
Proof. destruct u, p; reflexivity. Qed.
Lemma pol_ext p q : allows_unseq p = allows_unseq q -> allows_par p = allows_par q -> p = q.
Proof. destruct p, q; simpl; intros H1 H2; try reflexivity; discriminate. Qed.

Lemma tfx_unseq fp rp : allows_unseq (tfx fp rp) = allows_unseq rp && allows_unseq fp.
Proof. unfold tfx. apply of_flags_unseq. Qed.
Lemma tfx_par fp rp : allows_par (tfx fp rp) = allows_par rp && allows_par fp.
Proof. unfold tfx. apply of_flags_par. Qed.

(* the source is licensed to run unsequenced / in parallel exactly when the bottom receiver and
   every transform on the way are -- for stacks of any depth *)
Theorem chain_unseq ps b :
  allows_unseq (chain ps b) = allows_unseq (bottom_pol b) && forallb allows_unseq ps.
Proof.
  induction ps as [|p ps IH]; simpl.
  - now rewrite andb_true_r.
  - unfold chain in *. simpl. rewrite tfx_unseq, IH.
    destruct (allows_unseq (bottom_pol b)), (allows_unseq p), (forallb allows_unseq ps); reflexivity.
Qed.
Theorem chain_par ps b :
  allows_par (chain ps b) = allows_par (bottom_pol b) && forallb allows_par ps.
Proof.
  induction ps as [|p ps IH]; simpl.
  - now rewrite andb_true_r.
  - unfold chain in *. simpl. rewrite tfx_par, IH.
    destruct (allows_par (bottom_pol b)), (allows_par p), (forallb allows_par ps); reflexivity.
Qed.

(* never beyond what any layer permits (the clause of C17), stated as implications *)
Corollary chain_never_exceeds ps b :
  (allows_par (chain ps b) = true ->
     allows_par (bottom_pol b) = true /\ forall p, In p ps -> allows_par p = true) /\
  (allows_unseq (chain ps b) = true ->
     allows_unseq (bottom_pol b) = true /\ forall p, In p ps -> allows_unseq p = true).
Proof.
  split; intros H.
  - rewrite chain_par in H. apply andb_true_iff in H as [H1 H2]. split; [exact H1|].
    now apply forallb_forall.
  - rewrite chain_unseq in H. apply andb_true_iff in H as [H1 H2]. split; [exact H1|].
    now apply forallb_forall.
Qed.

(* tfx is the meet of the four-point lattice: commutative, associative, idempotent, ParUnseq neutral *)
Lemma tfx_comm p q : tfx p q = tfx q p.
Proof. destruct p, q; reflexivity. Qed.
Lemma tfx_assoc p q r : tfx p (tfx q r) = tfx (tfx p q) r.
Proof. destruct p, q, r; reflexivity. Qed.
Lemma tfx_idem p : tfx p p = p.
Proof. destruct p; reflexivity. Qed.
Lemma tfx_top p : tfx p ParUnseq = p.
Proof. destruct p; reflexivity. Qed.
Lemma tfx_bot p : tfx p Seq = Seq.
Proof. destruct p; reflexivity. Qed.

(* a plain receiver at the bottom keeps everything sequenced, whatever the transforms say *)
Corollary chain_plain_receiver ps : chain ps BNone = Seq.
Proof.
  apply pol_ext; [rewrite chain_unseq | rewrite chain_par]; reflexivity.
Qed.
(* under bulk_join the transforms alone decide *)
Corollary chain_join ps :
  allows_par (chain ps BJoin) = forallb allows_par ps /\
  allows_unseq (chain ps BJoin) = forallb allows_unseq ps.
Proof. rewrite chain_par, chain_unseq. split; reflexivity. Qed.
