(* Model of unifex::linuxos::monotonic_clock::time_point
   (include/unifex/linux/monotonic_clock.hpp).

   time_point = (seconds_ : int64, nanoseconds_ : long long); the clock's duration type counts
   100ns ticks (ratio 1/10'000'000).  C++ integer division truncates toward zero, so `/` is
   Z.quot and `%` is Z.rem.

   The model works over mathematical integers: int64 wrap-around (signed overflow, UB in C++)
   is OUTSIDE the model.  Every theorem in MonoClockProofs.v is about unbounded Z.

   Executable definitions only (plus the Prop [canonical], which extraction erases);
   proofs are in MonoClockProofs.v. *)
From Coq Require Import ZArith Bool.
Local Open Scope Z_scope.

Record tp : Set := mk_tp { sec : Z; ns : Z }.

Definition ns_per_sec    : Z := 1000000000.   (* nanoseconds_per_second *)
Definition ticks_per_sec : Z := 10000000.     (* ratio<1, 10'000'000>   *)
Definition ns_per_tick   : Z := 100.

(* void time_point::normalize():
     auto extraSeconds = nanoseconds_ / nanoseconds_per_second;
     seconds_ += extraSeconds;
     nanoseconds_ -= extraSeconds * nanoseconds_per_second;
     if (seconds_ < 0 && nanoseconds_ > 0)      { seconds_ += 1; nanoseconds_ -= nanoseconds_per_second; }
     else if (seconds_ > 0 && nanoseconds_ < 0) { seconds_ -= 1; nanoseconds_ += nanoseconds_per_second; } *)
Definition normalize (t : tp) : tp :=
  let extra := Z.quot (ns t) ns_per_sec in
  let s := sec t + extra in
  let n := ns t - extra * ns_per_sec in
  if (s <? 0) && (0 <? n) then mk_tp (s + 1) (n - ns_per_sec)
  else if (0 <? s) && (n <? 0) then mk_tp (s - 1) (n + ns_per_sec)
  else mk_tp s n.

(* static time_point from_seconds_and_nanoseconds(int64 seconds, long long nanoseconds) *)
Definition from_s_ns (s n : Z) : tp := normalize (mk_tp s n).

(* duration_cast<seconds>(d) for d in 100ns ticks *)
Definition whole_seconds (ticks : Z) : Z := Z.quot ticks ticks_per_sec.
(* duration_cast<nanoseconds>(d - wholeSeconds) *)
Definition remainder_ns (ticks : Z) : Z :=
  (ticks - whole_seconds ticks * ticks_per_sec) * ns_per_tick.

(* time_point& operator+=(duration d) *)
Definition add_dur (t : tp) (ticks : Z) : tp :=
  normalize (mk_tp (sec t + whole_seconds ticks) (ns t + remainder_ns ticks)).

(* time_point& operator-=(duration d) *)
Definition sub_dur (t : tp) (ticks : Z) : tp :=
  normalize (mk_tp (sec t - whole_seconds ticks) (ns t - remainder_ns ticks)).

(* friend duration operator-(const time_point& a, const time_point& b), AS WRITTEN BEFORE THE
   FIX (repo commit 69a85c3):
     duration((a.seconds_ - b.seconds_) * 10'000'000 + (a.nanoseconds_ - b.nanoseconds_) / 100)
   Kept for the refutation diff_not_trunc_refuted. *)
Definition diff_w (a b : tp) : Z :=
  (sec a - sec b) * ticks_per_sec + Z.quot (ns a - ns b) ns_per_tick.

(* friend duration operator-(const time_point& a, const time_point& b), current code:
     std::int64_t seconds = a.seconds_ - b.seconds_;
     long long nanoseconds = a.nanoseconds_ - b.nanoseconds_;
     if (seconds > 0 && nanoseconds < 0)      { seconds -= 1; nanoseconds += 1'000'000'000; }
     else if (seconds < 0 && nanoseconds > 0) { seconds += 1; nanoseconds -= 1'000'000'000; }
     return duration(seconds * 10'000'000 + nanoseconds / 100); *)
Definition diff (a b : tp) : Z :=
  let s := sec a - sec b in
  let n := ns a - ns b in
  if (0 <? s) && (n <? 0) then (s - 1) * ticks_per_sec + Z.quot (n + ns_per_sec) ns_per_tick
  else if (s <? 0) && (0 <? n) then (s + 1) * ticks_per_sec + Z.quot (n - ns_per_sec) ns_per_tick
  else s * ticks_per_sec + Z.quot n ns_per_tick.

(* operator<:  (a.s == b.s) ? (a.ns < b.ns) : (a.s < b.s) *)
Definition lt (a b : tp) : bool :=
  if sec a =? sec b then ns a <? ns b else sec a <? sec b.

(* operator== *)
Definition eqb (a b : tp) : bool := (sec a =? sec b) && (ns a =? ns b).

(* derived operators, exactly as written in the header *)
Definition neqb (a b : tp) : bool := negb (eqb a b).
Definition gt (a b : tp) : bool := lt b a.
Definition le (a b : tp) : bool := negb (lt b a).
Definition ge (a b : tp) : bool := negb (lt a b).

(* the denoted instant, in nanoseconds *)
Definition value (t : tp) : Z := sec t * ns_per_sec + ns t.

(* the representation invariant normalize() is meant to establish *)
Definition canonical (t : tp) : Prop :=
  - ns_per_sec < ns t < ns_per_sec /\
  (0 < sec t -> 0 <= ns t) /\
  (sec t < 0 -> ns t <= 0).

Definition canonicalb (t : tp) : bool :=
  (- ns_per_sec <? ns t) && (ns t <? ns_per_sec) &&
  (if 0 <? sec t then 0 <=? ns t else true) &&
  (if sec t <? 0 then ns t <=? 0 else true).

(* nanoseconds on the 100ns tick grid (what +=/-= of a clock duration preserve) *)
Definition alignedb (t : tp) : bool := Z.rem (ns t) ns_per_tick =? 0.
