(* E3 model of the chunk arithmetic of the parallel find_if
   (include/unifex/find_if.hpp, find_if_helper::operator()(..., parallel_policy, ...))
   and of the chunked loop of bulk_schedule (include/unifex/bulk_schedule.hpp,
   _schedule_receiver::set_value).  Executable definitions only; proofs in FindIfProofs.v. *)
From Coq Require Import ZArith List Bool.
Import ListNotations.
Local Open Scope Z_scope.

(* ---- find_if.hpp: chunking ---------------------------------------------------------- *)
Definition max_num_chunks : Z := 32.
Definition min_chunk_size : Z := 4.

(* diff_t num_chunks = (distance / max_num_chunks) > min_chunk_size
                        ? max_num_chunks : ((distance + min_chunk_size) / min_chunk_size); *)
Definition num_chunks (n : Z) : Z :=
  if (n / max_num_chunks) >? min_chunk_size then max_num_chunks
  else (n + min_chunk_size) / min_chunk_size.

(* diff_t chunk_size = (distance + num_chunks) / num_chunks; *)
Definition chunk_size (n : Z) : Z := (n + num_chunks n) / num_chunks n.

(* As written at the pinned commit (finding 1): no clamping. *)
Definition cbegin_w (n i : Z) : Z := chunk_size n * i.
Definition cend_w (n i : Z) : Z :=
  if i <? num_chunks n - 1 then cbegin_w n i + chunk_size n else n.

(* Current tree (after the fix): both bounds clamped to the range length. *)
Definition cbegin (n i : Z) : Z := Z.min (chunk_size n * i) n.
Definition cend (n i : Z) : Z :=
  if i <? num_chunks n - 1 then cbegin n i + Z.min (chunk_size n) (n - cbegin n i) else n.

(* [b, e) as a list; empty when e <= b *)
Definition zrange (b e : Z) : list Z :=
  map (fun k => b + Z.of_nat k) (seq 0 (Z.to_nat (e - b))).

Definition chunk (n i : Z) : list Z := zrange (cbegin n i) (cend n i).
Definition chunk_w (n i : Z) : list Z := zrange (cbegin_w n i) (cend_w n i).

(* for (it = chunk_begin; it != chunk_end; ++it) if (pred(deref it)) { record; stop; return; }
   returns the offsets the predicate was evaluated on and the recorded hit *)
Fixpoint scan (pred : Z -> bool) (l : list Z) : list Z * option Z :=
  match l with
  | [] => ([], None)
  | x :: r => if pred x then ([x], Some x)
              else let (v, h) := scan pred r in (x :: v, h)
  end.

(* ---- bulk_schedule.hpp: the chunked loop --------------------------------------------- *)
Definition bulk_chunk : Z := 16.

(* indices of block k: [16k, min(16k+16, count)) *)
Definition block (count k : Z) : list Z := zrange (bulk_chunk * k) (Z.min (bulk_chunk * k + bulk_chunk) count).
Definition num_blocks (count : Z) : Z := (count + bulk_chunk - 1) / bulk_chunk.

Inductive terminal := TValue | TDone.

(* The loop with a stoppable token.  [body i stop] runs set_next(i) and returns the new
   stop flag (a body may request stop, as find_if's does); the token is only looked at
   before each block.  Returns the indices visited, in order, and the terminal signal. *)
Fixpoint run_block {A} (body : Z -> A -> bool -> A * bool) (l : list Z) (a : A) (stop : bool)
  : list Z * A * bool :=
  match l with
  | [] => ([], a, stop)
  | i :: r => let '(a', stop') := body i a stop in
              let '(v, a'', stop'') := run_block body r a' stop' in
              (i :: v, a'', stop'')
  end.

Fixpoint bulk_loop {A} (body : Z -> A -> bool -> A * bool) (count : Z) (blocks : list Z)
         (a : A) (stop : bool) : list Z * A * terminal :=
  match blocks with
  | [] => ([], a, TValue)
  | k :: r => if stop then ([], a, TDone)
              else let '(v, a', stop') := run_block body (block count k) a stop in
                   let '(v2, a'', t) := bulk_loop body count r a' stop' in
                   (v ++ v2, a'', t)
  end.

Definition bulk_run {A} body (count : Z) (a : A) (stop0 : bool) :=
  bulk_loop body count (zrange 0 (num_blocks count)) a stop0.

(* bulk_schedule with an external stop flag that becomes true exactly before block [k]
   (None: never) and a body that does nothing: indices visited + terminal *)
Definition bulk_indices (count : Z) (stop_at : option Z) : list Z * terminal :=
  let body (i : Z) (_ : unit) (s : bool) :=
      (tt, s || match stop_at with Some k => (i + 1 =? bulk_chunk * k) | None => false end) in
  let '(v, _, t) := bulk_run body count tt
                     (match stop_at with Some k => k <=? 0 | None => false end) in
  (v, t).

(* ---- find_if, parallel policy, on top of bulk_schedule(num_chunks) -------------------- *)
(* state: predicate evaluations so far (in order) and perChunkState as an assoc list *)
Definition fstate := (list Z * list (Z * Z))%type.

Definition find_body (chunkf : Z -> Z -> list Z) (pred : Z -> bool) (n : Z)
           (index : Z) (st : fstate) (stop : bool) : fstate * bool :=
  let (v, h) := scan pred (chunkf n index) in
  match h with
  | Some x => ((fst st ++ v, snd st ++ [(index, x)]), true)   (* store; found_flag; request_stop *)
  | None => ((fst st ++ v, snd st), stop)
  end.

(* for (auto it : perChunkState) if (it != end_it) return it;  -- lowest chunk index first *)
Definition first_hit (num : Z) (hits : list (Z * Z)) (n : Z) : Z :=
  fold_right (fun i acc =>
                match find (fun p => fst p =? i) hits with
                | Some p => snd p
                | None => acc
                end) n (zrange 0 num).

(* result offset (n = "end") and the list of offsets the predicate was evaluated on *)
Definition find_par_gen chunkf (pred : Z -> bool) (n : Z) : Z * list Z :=
  let '(_, st, _) := bulk_run (find_body chunkf pred n) (num_chunks n) ([], []) false in
  (first_hit (num_chunks n) (snd st) n, fst st).

Definition find_par := find_par_gen chunk.
Definition find_par_w := find_par_gen chunk_w.

(* sequenced policy: plain loop *)
Definition find_seq (pred : Z -> bool) (n : Z) : Z * list Z :=
  let (v, h) := scan pred (zrange 0 n) in
  (match h with Some x => x | None => n end, v).
