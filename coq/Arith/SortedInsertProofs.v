(* Proofs about the sorted insertion of libunifex's timer queues (SortedInsertDefs.v).

   Main results (all for unbounded lists and arbitrary Z due times):
   - insert_timed_split: in a sorted queue the new timer goes AFTER every queued timer with
     due <= its own and BEFORE every queued timer with due > its own (FIFO among ties);
     hence sortedness is preserved, and the result is a permutation of x :: l (the latter
     for every l, sorted or not).
   - insert_all_stable_sort: enqueueing xs one by one into the empty queue yields THE stable
     sort of xs by due time; fifo_pop: the head is the first-enqueued timer of minimal due.
   - heap_insert = insert_timed (intrusive_heap::insert is the same function);
     pop/top return a minimum; remove unlinks exactly the node with the given identity and
     keeps the queue sorted. *)
From Coq Require Import ZArith List Bool Lia Permutation Sorted.
From V Require Import Arith.SortedInsertDefs.
Import ListNotations.
Local Open Scope Z_scope.

(* ------------------------------------------------------------------------------------- *)
(* sortedness                                                                            *)

Lemma sorted_due_nil : sorted_due [].
Proof. reflexivity. Qed.

Lemma sorted_due_cons :
  forall r x,
    sorted_due (x :: r) <-> Forall (fun y => due x <= due y) r /\ sorted_due r.
Proof.
  induction r as [|y r IH]; intros x.
  - split; [intros _; split; [constructor | reflexivity] | intros _; reflexivity].
  - unfold sorted_due in *. change (sorted_dueb (x :: y :: r))
      with ((due x <=? due y) && sorted_dueb (y :: r)).
    rewrite andb_true_iff, Z.leb_le. split.
    + intros [Hxy Hs]. split; [|exact Hs].
      constructor; [exact Hxy|].
      apply IH in Hs. destruct Hs as [Hy _].
      eapply Forall_impl; [|exact Hy]. cbv beta. intros z Hz. lia.
    + intros [Hall Hs]. split; [|exact Hs]. inversion Hall; assumption.
Qed.

(* sorted_due is the standard library's (Strongly)Sorted for "due <=" *)
Theorem sorted_due_StronglySorted :
  forall l, sorted_due l <-> StronglySorted (fun a b => due a <= due b) l.
Proof.
  induction l as [|x l IH].
  - split; intros _; [constructor | reflexivity].
  - rewrite sorted_due_cons, IH. split.
    + intros [Hall Hs]. constructor; assumption.
    + intros H. inversion H; subst. split; assumption.
Qed.

Theorem sorted_due_Sorted :
  forall l, sorted_due l <-> Sorted (fun a b => due a <= due b) l.
Proof.
  intros l. rewrite sorted_due_StronglySorted. split.
  - apply StronglySorted_Sorted.
  - apply Sorted_StronglySorted. intros a b c Hab Hbc. lia.
Qed.

Lemma sorted_due_tail : forall x r, sorted_due (x :: r) -> sorted_due r.
Proof. intros x r H. apply sorted_due_cons in H. tauto. Qed.

(* inserting at a cut point that separates "<= x" from "> x" keeps the list sorted *)
Lemma sorted_due_insert_at :
  forall x l1 l2,
    sorted_due (l1 ++ l2) ->
    Forall (fun y => due y <= due x) l1 ->
    Forall (fun y => due x < due y) l2 ->
    sorted_due (l1 ++ x :: l2).
Proof.
  intros x l1 l2. induction l1 as [|a l1 IH]; intros Hs H1 H2.
  - cbn [app] in *. apply sorted_due_cons. split; [|exact Hs].
    eapply Forall_impl; [|exact H2]. cbv beta. intros z Hz. lia.
  - cbn [app] in *. apply sorted_due_cons in Hs. destruct Hs as [Ha Hs].
    inversion H1 as [|a' l1' Hax H1']; subst.
    apply sorted_due_cons. split.
    + apply Forall_app in Ha. destruct Ha as [Ha1 Ha2].
      apply Forall_app. split; [exact Ha1|]. constructor; [exact Hax | exact Ha2].
    + apply IH; assumption.
Qed.

(* unlinking any node keeps the list sorted *)
Lemma sorted_due_delete_at :
  forall x l1 l2, sorted_due (l1 ++ x :: l2) -> sorted_due (l1 ++ l2).
Proof.
  intros x l1 l2. induction l1 as [|a l1 IH]; intros Hs; cbn [app] in *.
  - eapply sorted_due_tail; exact Hs.
  - apply sorted_due_cons in Hs. destruct Hs as [Ha Hs].
    apply sorted_due_cons. split; [|apply IH; exact Hs].
    apply Forall_app in Ha. destruct Ha as [Ha1 Ha2].
    apply Forall_app. split; [exact Ha1|]. inversion Ha2; assumption.
Qed.

(* ------------------------------------------------------------------------------------- *)
(* the walk loop                                                                         *)

Lemma walk_insert_split :
  forall x rest cur,
    due cur <= due x ->
    sorted_due (cur :: rest) ->
    exists l1 l2,
      cur :: rest = l1 ++ l2 /\
      walk_insert x cur rest = l1 ++ x :: l2 /\
      Forall (fun y => due y <= due x) l1 /\
      Forall (fun y => due x < due y) l2.
Proof.
  intros x rest. induction rest as [|nxt rest IH]; intros cur Hcur Hs.
  - exists [cur], []. cbn [walk_insert app]. repeat split; constructor; auto.
  - cbn [walk_insert]. destruct (due nxt <=? due x) eqn:E.
    + apply Z.leb_le in E.
      destruct (IH nxt E (sorted_due_tail _ _ Hs)) as [l1 [l2 [E1 [E2 [F1 F2]]]]].
      exists (cur :: l1), l2. cbn [app]. rewrite E1, E2. repeat split; auto.
    + apply Z.leb_gt in E.
      exists [cur], (nxt :: rest). cbn [app]. repeat split.
      * constructor; [exact Hcur | constructor].
      * apply sorted_due_tail in Hs. apply sorted_due_cons in Hs. destruct Hs as [Hn _].
        constructor; [exact E|].
        eapply Forall_impl; [|exact Hn]. cbv beta. intros z Hz. lia.
Qed.

Lemma walk_insert_perm :
  forall x rest cur, Permutation (x :: cur :: rest) (walk_insert x cur rest).
Proof.
  intros x rest. induction rest as [|nxt rest IH]; intros cur.
  - cbn [walk_insert]. apply perm_swap.
  - cbn [walk_insert]. destruct (due nxt <=? due x).
    + eapply perm_trans; [apply perm_swap|]. apply perm_skip. apply IH.
    + apply perm_swap.
Qed.

(* ------------------------------------------------------------------------------------- *)
(* enqueue                                                                               *)

(* Position of the new timer: after every queued timer with due <= due x (FIFO among equal
   due times), before every queued timer with due > due x. *)
Theorem insert_timed_split :
  forall x l,
    sorted_due l ->
    exists l1 l2,
      l = l1 ++ l2 /\
      insert_timed x l = l1 ++ x :: l2 /\
      Forall (fun y => due y <= due x) l1 /\
      Forall (fun y => due x < due y) l2.
Proof.
  intros x [|h tl] Hs.
  - exists [], []. cbn. repeat split; constructor.
  - cbn [insert_timed]. destruct (due x <? due h) eqn:E.
    + apply Z.ltb_lt in E. exists [], (h :: tl). cbn [app]. repeat split.
      * constructor.
      * apply sorted_due_cons in Hs. destruct Hs as [Hh _].
        constructor; [exact E|].
        eapply Forall_impl; [|exact Hh]. cbv beta. intros z Hz. lia.
    + apply Z.ltb_ge in E. apply walk_insert_split; assumption.
Qed.

Theorem insert_timed_sorted :
  forall x l, sorted_due l -> sorted_due (insert_timed x l).
Proof.
  intros x l Hs.
  destruct (insert_timed_split x l Hs) as [l1 [l2 [E1 [E2 [F1 F2]]]]].
  rewrite E2. apply sorted_due_insert_at; [rewrite <- E1; exact Hs | exact F1 | exact F2].
Qed.

(* for every l, sorted or not *)
Theorem insert_timed_perm :
  forall x l, Permutation (x :: l) (insert_timed x l).
Proof.
  intros x [|h tl].
  - apply Permutation_refl.
  - cbn [insert_timed]. destruct (due x <? due h).
    + apply Permutation_refl.
    + apply walk_insert_perm.
Qed.

Corollary insert_timed_In :
  forall x l y, In y (insert_timed x l) <-> y = x \/ In y l.
Proof.
  intros x l y. split.
  - intros H. apply Permutation_in with (l' := x :: l) in H.
    + destruct H as [H | H]; [left; symmetry; exact H | right; exact H].
    + apply Permutation_sym, insert_timed_perm.
  - intros H. apply Permutation_in with (l := x :: l).
    + apply insert_timed_perm.
    + destruct H as [H | H]; [left; symmetry; exact H | right; exact H].
Qed.

Corollary insert_timed_length :
  forall x l, length (insert_timed x l) = S (length l).
Proof.
  intros x l. symmetry. apply (Permutation_length (insert_timed_perm x l)).
Qed.

Corollary insert_timed_NoDup_ids :
  forall x l,
    NoDup (map id l) -> ~ In (id x) (map id l) -> NoDup (map id (insert_timed x l)).
Proof.
  intros x l Hnd Hfresh.
  apply Permutation_NoDup with (l := map id (x :: l)).
  - apply Permutation_map, insert_timed_perm.
  - cbn [map]. constructor; assumption.
Qed.

(* closed form: the position is determined by the due times alone *)
Lemma filter_all :
  forall (A : Type) (f : A -> bool) (l : list A),
    Forall (fun y => f y = true) l -> filter f l = l.
Proof.
  intros A f l H. induction H as [|a l Ha _ IH]; cbn [filter].
  - reflexivity.
  - rewrite Ha, IH. reflexivity.
Qed.

Lemma filter_none :
  forall (A : Type) (f : A -> bool) (l : list A),
    Forall (fun y => f y = false) l -> filter f l = [].
Proof.
  intros A f l H. induction H as [|a l Ha _ IH]; cbn [filter].
  - reflexivity.
  - rewrite Ha, IH. reflexivity.
Qed.

Theorem insert_timed_closed_form :
  forall x l,
    sorted_due l ->
    insert_timed x l =
      filter (fun y => due y <=? due x) l ++ x :: filter (fun y => due x <? due y) l.
Proof.
  intros x l Hs.
  destruct (insert_timed_split x l Hs) as [l1 [l2 [E1 [E2 [F1 F2]]]]].
  rewrite E2, E1, !filter_app.
  rewrite (filter_all _ (fun y => due y <=? due x) l1).
  2:{ eapply Forall_impl; [|exact F1]. cbv beta. intros z Hz. apply Z.leb_le. exact Hz. }
  rewrite (filter_none _ (fun y => due y <=? due x) l2).
  2:{ eapply Forall_impl; [|exact F2]. cbv beta. intros z Hz. apply Z.leb_gt. exact Hz. }
  rewrite (filter_none _ (fun y => due x <? due y) l1).
  2:{ eapply Forall_impl; [|exact F1]. cbv beta. intros z Hz. apply Z.ltb_ge. exact Hz. }
  rewrite (filter_all _ (fun y => due x <? due y) l2).
  2:{ eapply Forall_impl; [|exact F2]. cbv beta. intros z Hz. apply Z.ltb_lt. exact Hz. }
  rewrite app_nil_r. reflexivity.
Qed.

(* the timers of due time k keep their order; a new one of that due time goes last *)
Theorem insert_timed_with_due :
  forall k x l,
    sorted_due l ->
    with_due k (insert_timed x l) =
      if due x =? k then with_due k l ++ [x] else with_due k l.
Proof.
  intros k x l Hs.
  destruct (insert_timed_split x l Hs) as [l1 [l2 [E1 [E2 [F1 F2]]]]].
  rewrite E2, E1. unfold with_due. rewrite !filter_app. cbn [filter].
  destruct (due x =? k) eqn:E.
  - apply Z.eqb_eq in E.
    rewrite (filter_none _ (fun y => due y =? k) l2).
    + rewrite app_nil_r. reflexivity.
    + eapply Forall_impl; [|exact F2]. cbv beta. intros z Hz. apply Z.eqb_neq. lia.
  - reflexivity.
Qed.

(* ------------------------------------------------------------------------------------- *)
(* enqueueing a sequence: stable sort                                                    *)

Theorem insert_all_sorted :
  forall xs l, sorted_due l -> sorted_due (insert_all xs l).
Proof.
  unfold insert_all. induction xs as [|x xs IH]; intros l Hs; cbn [fold_left].
  - exact Hs.
  - apply IH. apply insert_timed_sorted. exact Hs.
Qed.

Theorem insert_all_perm :
  forall xs l, Permutation (l ++ xs) (insert_all xs l).
Proof.
  unfold insert_all. induction xs as [|x xs IH]; intros l; cbn [fold_left].
  - rewrite app_nil_r. apply Permutation_refl.
  - eapply perm_trans; [|apply IH].
    eapply perm_trans; [apply Permutation_sym, Permutation_middle|].
    change (x :: l ++ xs) with ((x :: l) ++ xs).
    apply Permutation_app_tail. apply insert_timed_perm.
Qed.

Theorem insert_all_with_due :
  forall k xs l,
    sorted_due l ->
    with_due k (insert_all xs l) = with_due k l ++ with_due k xs.
Proof.
  unfold insert_all. intros k. induction xs as [|x xs IH]; intros l Hs; cbn [fold_left].
  - unfold with_due. cbn [filter]. rewrite app_nil_r. reflexivity.
  - rewrite IH by (apply insert_timed_sorted; exact Hs).
    rewrite insert_timed_with_due by exact Hs.
    unfold with_due. cbn [filter]. destruct (due x =? k).
    + rewrite <- app_assoc. reflexivity.
    + reflexivity.
Qed.

(* Enqueueing xs one by one into the empty queue gives the stable sort of xs by due time:
   sorted, same multiset, and for every due time k the timers due at k appear in the order
   in which they were enqueued. *)
Theorem insert_all_stable_sort :
  forall xs,
    sorted_due (insert_all xs []) /\
    Permutation xs (insert_all xs []) /\
    (forall k, with_due k (insert_all xs []) = with_due k xs).
Proof.
  intros xs. split; [|split].
  - apply insert_all_sorted, sorted_due_nil.
  - apply (insert_all_perm xs []).
  - intros k. rewrite insert_all_with_due by apply sorted_due_nil. reflexivity.
Qed.

(* The three properties determine the result uniquely, so insert_all xs [] is THE stable
   sort: two sorted lists with the same elements per due time are equal. *)
Lemma sorted_due_head_min :
  forall x r y, sorted_due (x :: r) -> In y (x :: r) -> due x <= due y.
Proof.
  intros x r y Hs Hin. apply sorted_due_cons in Hs. destruct Hs as [Hall _].
  destruct Hin as [<- | Hin]; [lia|].
  rewrite Forall_forall in Hall. apply Hall. exact Hin.
Qed.

Lemma with_due_In :
  forall k l y, In y (with_due k l) <-> In y l /\ due y = k.
Proof.
  intros k l y. unfold with_due. rewrite filter_In, Z.eqb_eq. reflexivity.
Qed.

Lemma with_due_head :
  forall x r, sorted_due (x :: r) ->
    with_due (due x) (x :: r) = x :: with_due (due x) r.
Proof.
  intros x r _. unfold with_due. cbn [filter]. rewrite Z.eqb_refl. reflexivity.
Qed.

Theorem stable_sort_unique :
  forall l1 l2,
    sorted_due l1 -> sorted_due l2 ->
    (forall k, with_due k l1 = with_due k l2) ->
    l1 = l2.
Proof.
  induction l1 as [|x l1 IH]; intros l2 Hs1 Hs2 Hk.
  - destruct l2 as [|y l2]; [reflexivity|].
    specialize (Hk (due y)). rewrite with_due_head in Hk by exact Hs2.
    cbn in Hk. discriminate Hk.
  - destruct l2 as [|y l2].
    + specialize (Hk (due x)). rewrite with_due_head in Hk by exact Hs1.
      cbn in Hk. discriminate Hk.
    + (* the heads have the same due time, hence are the same element *)
      assert (Hxy : due x = due y).
      { assert (Hx : In x (y :: l2)).
        { apply (proj1 (with_due_In (due x) (y :: l2) x)). rewrite <- Hk.
          apply with_due_In. split; [left; reflexivity | reflexivity]. }
        assert (Hy : In y (x :: l1)).
        { apply (proj1 (with_due_In (due y) (x :: l1) y)). rewrite Hk.
          apply with_due_In. split; [left; reflexivity | reflexivity]. }
        pose proof (sorted_due_head_min _ _ _ Hs2 Hx).
        pose proof (sorted_due_head_min _ _ _ Hs1 Hy). lia. }
      pose proof (Hk (due x)) as Hkx.
      rewrite with_due_head in Hkx by exact Hs1.
      rewrite Hxy in Hkx at 2. rewrite with_due_head in Hkx by exact Hs2.
      injection Hkx as Hhead Htail. subst y. f_equal.
      apply IH; [eapply sorted_due_tail; exact Hs1 | eapply sorted_due_tail; exact Hs2 |].
      intros k. specialize (Hk k). unfold with_due in *. cbn [filter] in Hk.
      destruct (due x =? k).
      * injection Hk as Hk. exact Hk.
      * exact Hk.
Qed.

(* Pairwise reading of stability. *)
Inductive sublist {A : Type} : list A -> list A -> Prop :=
| sl_nil  : forall l, sublist [] l
| sl_take : forall a s l, sublist s l -> sublist (a :: s) (a :: l)
| sl_skip : forall a s l, sublist s l -> sublist s (a :: l).

Lemma sublist_filter_self :
  forall (A : Type) (f : A -> bool) (l : list A), sublist (filter f l) l.
Proof.
  intros A f l. induction l as [|a l IH]; cbn [filter].
  - constructor.
  - destruct (f a); [apply sl_take | apply sl_skip]; exact IH.
Qed.

Lemma sublist_filter :
  forall (A : Type) (f : A -> bool) (s l : list A),
    sublist s l -> Forall (fun a => f a = true) s -> sublist s (filter f l).
Proof.
  intros A f s l H. induction H as [l | a s l H IH | a s l H IH]; intros Hf.
  - constructor.
  - inversion Hf as [|a' s' Ha Hs]; subst. cbn [filter]. rewrite Ha.
    apply sl_take. apply IH. exact Hs.
  - cbn [filter]. destruct (f a); [apply sl_skip|]; apply IH; exact Hf.
Qed.

Lemma sublist_trans :
  forall (A : Type) (a b c : list A), sublist a b -> sublist b c -> sublist a c.
Proof.
  intros A a b c Hab Hbc. revert a Hab.
  induction Hbc as [l | x s l H IH | x s l H IH]; intros a Hab.
  - inversion Hab; subst. constructor.
  - inversion Hab; subst.
    + constructor.
    + apply sl_take. apply IH. assumption.
    + apply sl_skip. apply IH. assumption.
  - apply sl_skip. apply IH. exact Hab.
Qed.

(* a was enqueued before b and they have the same due time => a is queued before b *)
Theorem insert_all_stable_pairs :
  forall xs a b,
    sublist [a; b] xs -> due a = due b -> sublist [a; b] (insert_all xs []).
Proof.
  intros xs a b Hsub Hdue.
  destruct (insert_all_stable_sort xs) as [_ [_ Hk]].
  apply sublist_trans with (b := with_due (due a) (insert_all xs [])).
  - rewrite Hk. unfold with_due. apply sublist_filter; [exact Hsub|].
    constructor; [apply Z.eqb_refl|]. constructor; [|constructor].
    apply Z.eqb_eq. symmetry. exact Hdue.
  - unfold with_due. apply sublist_filter_self.
Qed.

(* ------------------------------------------------------------------------------------- *)
(* intrusive_heap                                                                        *)

(* intrusive_heap::insert is extensionally the same function as the enqueue loop *)
Theorem heap_insert_eq : forall x l, heap_insert x l = insert_timed x l.
Proof. intros x [|h tl]; reflexivity. Qed.

Theorem heap_insert_split :
  forall x l,
    sorted_due l ->
    exists l1 l2,
      l = l1 ++ l2 /\
      heap_insert x l = l1 ++ x :: l2 /\
      Forall (fun y => due y <= due x) l1 /\
      Forall (fun y => due x < due y) l2.
Proof. intros x l. rewrite heap_insert_eq. apply insert_timed_split. Qed.

Theorem heap_insert_sorted :
  forall x l, sorted_due l -> sorted_due (heap_insert x l).
Proof. intros x l. rewrite heap_insert_eq. apply insert_timed_sorted. Qed.

Theorem heap_insert_perm :
  forall x l, Permutation (x :: l) (heap_insert x l).
Proof. intros x l. rewrite heap_insert_eq. apply insert_timed_perm. Qed.

(* pop / top *)
Theorem heap_pop_none : forall l, heap_pop l = None <-> l = [].
Proof. intros [|h tl]; cbn; split; intros H; (reflexivity || discriminate H). Qed.

Theorem heap_top_pop :
  forall l h, heap_top l = Some h <-> exists tl, heap_pop l = Some (h, tl).
Proof.
  intros [|x tl] h; cbn; split.
  - intros H; discriminate H.
  - intros [tl' H]; discriminate H.
  - intros H. injection H as ->. exists tl. reflexivity.
  - intros [tl' H]. injection H as -> _. reflexivity.
Qed.

Theorem heap_pop_min :
  forall l h tl,
    sorted_due l ->
    heap_pop l = Some (h, tl) ->
    l = h :: tl /\
    (forall y, In y l -> due h <= due y) /\
    sorted_due tl.
Proof.
  intros [|x r] h tl Hs Hp; cbn in Hp; [discriminate Hp|].
  injection Hp as -> ->. split; [reflexivity|]. split.
  - intros y Hy. eapply sorted_due_head_min; eassumption.
  - eapply sorted_due_tail; exact Hs.
Qed.

(* FIFO: after enqueueing xs into the empty queue, pop returns the FIRST timer of xs that
   has the minimal due time. *)
Lemma filter_cons_split :
  forall (A : Type) (f : A -> bool) (l : list A) (h : A) (t : list A),
    filter f l = h :: t ->
    exists p q, l = p ++ h :: q /\ Forall (fun y => f y = false) p /\ f h = true.
Proof.
  intros A f l. induction l as [|a l IH]; intros h t H; cbn [filter] in H.
  - discriminate H.
  - destruct (f a) eqn:E.
    + injection H as -> _. exists [], l. repeat split; [constructor | exact E].
    + destruct (IH h t H) as [p [q [E1 [F1 F2]]]].
      exists (a :: p), q. rewrite E1. repeat split; [constructor; assumption | exact F2].
Qed.

Theorem fifo_pop :
  forall xs h tl,
    heap_pop (insert_all xs []) = Some (h, tl) ->
    exists p q,
      xs = p ++ h :: q /\
      Forall (fun y => due h < due y) p /\
      Forall (fun y => due h <= due y) q.
Proof.
  intros xs h tl Hp.
  destruct (insert_all_stable_sort xs) as [Hs [Hperm Hk]].
  destruct (heap_pop_min _ _ _ Hs Hp) as [El [Hmin _]].
  assert (Hminxs : forall y, In y xs -> due h <= due y).
  { intros y Hy. apply Hmin. eapply Permutation_in; [exact Hperm | exact Hy]. }
  specialize (Hk (due h)). rewrite El in Hk.
  unfold with_due in Hk. cbn [filter] in Hk. rewrite Z.eqb_refl in Hk.
  symmetry in Hk. apply filter_cons_split in Hk.
  destruct Hk as [p [q [E1 [F1 _]]]]. exists p, q. split; [exact E1|]. split.
  - rewrite Forall_forall in *. intros y Hy.
    assert (due h <= due y) by (apply Hminxs; rewrite E1; apply in_or_app; left; exact Hy).
    specialize (F1 y Hy). cbv beta in F1. apply Z.eqb_neq in F1. lia.
  - rewrite Forall_forall. intros y Hy. apply Hminxs. rewrite E1.
    apply in_or_app. right. right. exact Hy.
Qed.

(* remove *)
Lemma heap_remove_Forall :
  forall (P : timer -> Prop) i l, Forall P l -> Forall P (heap_remove i l).
Proof.
  intros P i l H. induction H as [|a l Ha Hl IH]; cbn [heap_remove].
  - constructor.
  - destruct (Nat.eqb (id a) i); [exact Hl | constructor; assumption].
Qed.

(* for every i, present or not *)
Theorem heap_remove_sorted :
  forall i l, sorted_due l -> sorted_due (heap_remove i l).
Proof.
  intros i l. induction l as [|h tl IH]; intros Hs; cbn [heap_remove].
  - exact Hs.
  - destruct (Nat.eqb (id h) i).
    + eapply sorted_due_tail; exact Hs.
    + apply sorted_due_cons in Hs. destruct Hs as [Hall Hs].
      apply sorted_due_cons. split; [apply heap_remove_Forall; exact Hall | apply IH; exact Hs].
Qed.

Theorem heap_remove_absent :
  forall i l, ~ In i (map id l) -> heap_remove i l = l.
Proof.
  intros i l. induction l as [|h tl IH]; intros Hn; cbn [heap_remove].
  - reflexivity.
  - cbn [map In] in Hn. destruct (Nat.eqb (id h) i) eqn:E.
    + apply Nat.eqb_eq in E. exfalso. apply Hn. left. exact E.
    + f_equal. apply IH. intros H. apply Hn. right. exact H.
Qed.

(* identities are node addresses, hence distinct; removing a present node unlinks exactly
   that node and leaves every other node where it was *)
Theorem heap_remove_present :
  forall i l x,
    NoDup (map id l) -> In x l -> id x = i ->
    exists l1 l2, l = l1 ++ x :: l2 /\ heap_remove i l = l1 ++ l2.
Proof.
  intros i l x. induction l as [|h tl IH]; intros Hnd Hin Hid.
  - destruct Hin.
  - cbn [map] in Hnd. inversion Hnd as [|a m Hnotin Hnd']; subst a m.
    cbn [heap_remove]. destruct (Nat.eqb (id h) i) eqn:E.
    + apply Nat.eqb_eq in E. destruct Hin as [-> | Hin].
      * exists [], tl. split; reflexivity.
      * exfalso. apply Hnotin. rewrite E, <- Hid. apply in_map. exact Hin.
    + apply Nat.eqb_neq in E. destruct Hin as [-> | Hin]; [contradiction|].
      destruct (IH Hnd' Hin Hid) as [l1 [l2 [E1 E2]]].
      exists (h :: l1), l2. cbn [app]. rewrite <- E1, E2. split; reflexivity.
Qed.

Corollary heap_remove_perm :
  forall i l x,
    NoDup (map id l) -> In x l -> id x = i ->
    Permutation l (x :: heap_remove i l).
Proof.
  intros i l x Hnd Hin Hid.
  destruct (heap_remove_present i l x Hnd Hin Hid) as [l1 [l2 [E1 E2]]].
  rewrite E2. rewrite E1 at 1. apply Permutation_sym, Permutation_middle.
Qed.

Corollary heap_remove_gone :
  forall i l, NoDup (map id l) -> ~ In i (map id (heap_remove i l)).
Proof.
  intros i l Hnd Hin.
  destruct (in_dec Nat.eq_dec i (map id l)) as [Hp | Ha].
  - apply in_map_iff in Hp. destruct Hp as [x [Hid Hx]].
    destruct (heap_remove_present i l x Hnd Hx Hid) as [l1 [l2 [E1 E2]]].
    rewrite E2 in Hin. rewrite E1 in Hnd. rewrite map_app in Hnd, Hin. cbn [map] in Hnd.
    apply NoDup_remove_2 in Hnd. apply Hnd. rewrite Hid. rewrite <- map_app.
    rewrite map_app. exact Hin.
  - rewrite heap_remove_absent in Hin by exact Ha. contradiction.
Qed.

Corollary heap_remove_NoDup_ids :
  forall i l, NoDup (map id l) -> NoDup (map id (heap_remove i l)).
Proof.
  intros i l. induction l as [|h tl IH]; intros Hnd; cbn [heap_remove].
  - exact Hnd.
  - cbn [map] in Hnd. inversion Hnd as [|a m Hnotin Hnd']; subst a m.
    destruct (Nat.eqb (id h) i); [exact Hnd'|].
    cbn [map]. constructor; [|apply IH; exact Hnd'].
    intros Hin. apply Hnotin. apply in_map_iff in Hin. destruct Hin as [y [Hy Hin]].
    apply in_map_iff. exists y. split; [exact Hy|].
    clear - Hin. induction tl as [|a tl IH]; cbn [heap_remove] in Hin; [destruct Hin|].
    destruct (Nat.eqb (id a) i); [right; exact Hin|].
    destruct Hin as [-> | Hin]; [left; reflexivity | right; apply IH; exact Hin].
Qed.

(* the cancel path: unlink, set due := now, enqueue again *)
Theorem requeue_sorted :
  forall i now l, sorted_due l -> sorted_due (requeue i now l).
Proof.
  intros i now l Hs. unfold requeue. apply insert_timed_sorted, heap_remove_sorted, Hs.
Qed.

Theorem requeue_perm :
  forall i now l x,
    NoDup (map id l) -> In x l -> id x = i ->
    exists l1 l2,
      l = l1 ++ x :: l2 /\ Permutation ((now, i) :: l1 ++ l2) (requeue i now l).
Proof.
  intros i now l x Hnd Hin Hid.
  destruct (heap_remove_present i l x Hnd Hin Hid) as [l1 [l2 [E1 E2]]].
  exists l1, l2. split; [exact E1|]. unfold requeue. rewrite E2. apply insert_timed_perm.
Qed.

Theorem requeue_NoDup_ids :
  forall i now l, NoDup (map id l) -> NoDup (map id (requeue i now l)).
Proof.
  intros i now l Hnd. unfold requeue. apply insert_timed_NoDup_ids.
  - apply heap_remove_NoDup_ids. exact Hnd.
  - apply heap_remove_gone. exact Hnd.
Qed.
