(* E3 model of the execution-policy bookkeeping of the bulk algorithms
   (include/unifex/execution_policy.hpp, get_execution_policy.hpp, bulk_transform.hpp
   tfx_receiver's get_execution_policy customisation, bulk_join.hpp join receiver).
   Executable definitions only; proofs in PolicyProofs.v. *)
From Coq Require Import List Bool.
Import ListNotations.

Module Policy.

Inductive pol := Seq | Unseq | Par | ParUnseq.

(* what a policy licenses the source of next-signals to do *)
Definition allows_par (p : pol) : bool := match p with Par | ParUnseq => true | _ => false end.
Definition allows_unseq (p : pol) : bool := match p with Unseq | ParUnseq => true | _ => false end.

Definition of_flags (u p : bool) : pol :=
  if u && p then ParUnseq else if u then Unseq else if p then Par else Seq.

(* bulk_transform.hpp: tag_invoke(get_execution_policy, tfx_receiver) -- fp is the policy given with
   the function, rp what the downstream receiver reports *)
Definition tfx (fp rp : pol) : pol :=
  of_flags (allows_unseq rp && allows_unseq fp) (allows_par rp && allows_par fp).

(* the receiver at the bottom of a stack: a plain receiver without the customisation (default of
   get_execution_policy), one that customises it, or bulk_join's receiver *)
Inductive bottom := BNone | BPol (p : pol) | BJoin.
Definition bottom_pol (b : bottom) : pol :=
  match b with BNone => Seq | BPol p => p | BJoin => ParUnseq end.

(* bulk_transform(... bulk_transform(source, f1, p1) ..., fn, pn) connected to b: the policy the
   source (bulk_schedule) reads; the head of the list is the transform nearest to the source *)
Definition chain (ps : list pol) (b : bottom) : pol := fold_right tfx (bottom_pol b) ps.

(* bulk_schedule.hpp: the vectorisable loop is chosen exactly for these *)
Definition sched_vectorised (p : pol) : bool := allows_unseq p.

End Policy.
