(* C18 (part A) -- type-erased value wrappers any_object / any_unique: the AnyBox machine
   (Proto/AnyBoxDefs.v, tied to the real wrappers by harness/k3_anybox.cpp + tools/props/c18.py).
   All statements quantify over every configuration (inline size / alignment / RequireNoexceptMove /
   wrapper kind), every number of variables, every wrapped-type class and every operation list
   (construct in place / converting / with allocator, move-construct, move-assign, assign-value, swap,
   CPO calls, destroy; any operation may have a throwing wrapped move or a throwing allocation armed). *)
From Coq Require Import List Arith Bool.
From V Require Import Proto.AnyBoxDefs Proto.AnyBoxProofs.
Import ListNotations.
Import AnyBox.

(* The executable trace monitor [mon] (an id is constructed only while not live, moved-from and destroyed
   only while live, never copied; a block is freed only while live and with its allocation size) accepts the
   complete trace of every run and ends with nothing live: every wrapped object -- including the moved-from
   remainders the wrappers keep and the objects whose construction was abandoned by an exception -- is
   destroyed exactly once by the time all wrappers are destroyed, none twice, none before construction. *)
Theorem C18_trace_monitored : forall c n ops, mon L0 (exec c n ops) = Some L0.
Proof. exact exec_monitored. Qed.
Print Assumptions C18_trace_monitored.

(* the same before the final destruction: what is live is exactly what the wrappers own *)
Theorem C18_ownership : forall c n ops s e, run c (init n) ops = (s, e) ->
  exists L, mon L0 e = Some L /\ (forall i, cnt L i = cvars i (vars s)) /\ (forall bn, cntb L bn = cvarsb bn (vars s)).
Proof. exact run_monitored. Qed.
Print Assumptions C18_ownership.

Theorem C18_destroyed_exactly_once : forall c n ops i,
  let tr := exec c n ops in
  count_occ Nat.eq_dec (destroyed_ids tr) i = count_occ Nat.eq_dec (created_ids tr) i /\
  count_occ Nat.eq_dec (created_ids tr) i <= 1.
Proof. exact destroyed_exactly_once. Qed.
Print Assumptions C18_destroyed_exactly_once.

(* allocations and deallocations balance, block by block and with equal sizes *)
Theorem C18_blocks_balanced : forall c n ops bn,
  let tr := exec c n ops in
  count_occ pair_dec (freed_blks tr) bn = count_occ pair_dec (allocated_blks tr) bn /\
  NoDup (map fst (allocated_blks tr)).
Proof. exact blocks_balanced. Qed.
Print Assumptions C18_blocks_balanced.

Theorem C18_never_copies : forall c n ops a b, ~ In (Copy a b) (exec c n ops).
Proof. exact never_copies. Qed.
Print Assumptions C18_never_copies.

(* heap-stored objects are transferred by pointer: no constructor runs at all *)
Theorem C18_heap_move_construct_is_pointer_transfer : forall c s v w arm b n o,
  getv s v = Some None -> getv s w = Some (Some (Heap b n o)) ->
  step c s (OMoveC v w arm) =
  Some ({| vars := upd v (Some (Heap b n o)) (upd w (Some Empty) (vars s)); nid := nid s; nblk := nblk s |}, [Ret ROk]).
Proof. exact heap_movec_is_pointer_transfer. Qed.
Print Assumptions C18_heap_move_construct_is_pointer_transfer.

Theorem C18_heap_move_assign_is_pointer_transfer : forall c s v w arm bv b n o, v <> w ->
  getv s v = Some (Some bv) -> getv s w = Some (Some (Heap b n o)) ->
  step c s (OMoveA v w arm) =
  Some ({| vars := upd v (Some (Heap b n o)) (upd w (Some Empty) (vars s)); nid := nid s; nblk := nblk s |},
        destroy_box bv ++ [Ret ROk]).
Proof. exact heap_movea_is_pointer_transfer. Qed.
Print Assumptions C18_heap_move_assign_is_pointer_transfer.

(* inline vs heap is decided exactly by can_be_stored_inplace, in every reachable state *)
Theorem C18_storage_by_predicate : forall c n ops s e v b, run c (init n) ops = (s, e) -> getv s v = Some (Some b) ->
  match b with
  | Empty => True
  | Inline o => inplace c (ocls o) = true
  | Heap _ _ o => inplace c (ocls o) = false
  end.
Proof. exact storage_by_predicate. Qed.
Print Assumptions C18_storage_by_predicate.

(* noexcept(RequireNoexceptMove) / any_unique's noexcept moves are honoured in every reachable state *)
Theorem C18_move_noexcept : forall c n ops s e0 v w arm s' e,
  run c (init n) ops = (s, e0) -> (ckind c = KUniq \/ req c = true) ->
  (step c s (OMoveC v w arm) = Some (s', e) \/ step c s (OMoveA v w arm) = Some (s', e)) ->
  rets e = [ROk] /\ throws e = [].
Proof. exact move_noexcept. Qed.
Print Assumptions C18_move_noexcept.

(* exceptions from a wrapped move / the allocator: what state is left *)
Theorem C18_move_construct_strong : forall c s v w arm s' e r,
  step c s (OMoveC v w arm) = Some (s', e) -> rets e = [r] -> r <> ROk -> vars s' = vars s.
Proof. exact movec_strong. Qed.
Print Assumptions C18_move_construct_strong.

Theorem C18_move_assign_basic : forall c s v w arm s' e r,
  step c s (OMoveA v w arm) = Some (s', e) -> rets e = [r] -> r <> ROk ->
  getv s' v = Some (Some Empty) /\ getv s' w = getv s w /\ nid s' = nid s.
Proof. exact movea_basic. Qed.
Print Assumptions C18_move_assign_basic.

Theorem C18_construct_strong : forall c s v k p inpl hdr arm s' e r,
  step c s (ONew v k p inpl hdr arm) = Some (s', e) -> rets e = [r] -> r <> ROk -> vars s' = vars s.
Proof. exact new_strong. Qed.
Print Assumptions C18_construct_strong.

Theorem C18_assign_value_guarantee : forall c s v k p arm s' e r,
  step c s (OAssignV v k p arm) = Some (s', e) -> rets e = [r] -> r <> ROk ->
  match ckind c with
  | KUniq => vars s' = vars s
  | KObj => vars s' = upd v (Some Empty) (vars s)
  end.
Proof. exact assignv_guarantee. Qed.
Print Assumptions C18_assign_value_guarantee.

(* after a move both wrappers are usable or destructible *)
Theorem C18_both_usable_or_destructible : forall c s v w arm s' e,
  step c s (OMoveC v w arm) = Some (s', e) -> rets e = [ROk] ->
  exists bw d s0, getv s w = Some (Some bw) /\ getv s' v = Some (Some d) /\ getv s' w = Some (Some s0) /\
    box_val d = box_val bw /\
    (s0 = Empty \/ exists o, s0 = Inline (husk o)) /\
    step c s' (ODel w) <> None /\ (forall k p a, step c s' (OAssignV w k p a) <> None) /\
    (forall a, step c s' (OMoveA w v a) <> None).
Proof. exact movec_both_usable. Qed.
Print Assumptions C18_both_usable_or_destructible.

(* refinement to "a wrapper variable is an optional cell": every CPO call returns the payload last
   stored in / moved into that variable (plus what poke added), exceptions of poke carry that value *)
Theorem C18_refines_optional_cell : forall c n ops, agrees c (repeat None n) (init n) ops.
Proof. exact refines_optional_cell. Qed.
Print Assumptions C18_refines_optional_cell.

(* ---- the hypotheses are met by concrete non-trivial runs (the same sequence is replayed on the real
   wrappers by tools/props/c18.py, configurations O24F and U) ------------------------------------------ *)
Definition cS := {| sz := 8; al := 4; nt := false |}.
Definition cL := {| sz := 40; al := 8; nt := true |}.
Definition cfgF := {| ckind := KObj; isz := 24; ial := 8; req := false |}.
Definition cfgU := {| ckind := KUniq; isz := 0; ial := 0; req := false |}.
Definition ops1 := [ONew 0 cS 5 true false 0; ONew 1 cL 6 false false 0; OMoveA 1 0 1; OInv 0; OMoveC 2 0 0;
                    OInv 0; OSwap 0 2 0; OAssignV 0 cL 9 2; OPoke 2 3 true].

Example C18_ex_object_trace : exec cfgF 3 ops1 =
  [Ctor 0; Ret ROk; Ctor 1; Alloc 0 48; Move 2 1; Dtor 1; Ret ROk;
   Dtor 2; Dealloc 0 48; MThrow 0; Ret (RBoom 0);          (* failed move-assign: destination emptied *)
   Ret (RVal 5); Move 3 0; Ret ROk; Ret RMf;                (* source intact; then moved from: husk *)
   Move 4 0; Dtor 0; Move 5 3; Dtor 3; Move 6 4; Dtor 4; Ret ROk;   (* std::swap *)
   Ctor 7; Dtor 5; AThrow 48; Dtor 7; Ret ROom;             (* failed assign-value: emptied *)
   Ret (RPerr 8); Dtor 6; Ret REnd].
Proof. vm_compute. reflexivity. Qed.

Example C18_ex_unique_trace : exec cfgU 3 ops1 =
  [Alloc 0 8; Ctor 0; Ret ROk; Ctor 1; Alloc 1 40; Move 2 1; Dtor 1; Ret ROk;
   Dtor 2; Dealloc 1 40; Ret ROk;                           (* move-assign: pointer steal, old value freed *)
   Ret ROk; Ret ROk;                                        (* move-construct, swap: no event at all *)
   Ctor 3; AThrow 40; Dtor 3; Ret ROom;                     (* failed assign-value: strong guarantee *)
   Dtor 0; Dealloc 0 8; Ret REnd].
Proof. vm_compute. reflexivity. Qed.

Example C18_ex_monitor_rejects_double_destroy : mon L0 [Ctor 0; Dtor 0; Dtor 0] = None.
Proof. vm_compute. reflexivity. Qed.
Example C18_ex_monitor_rejects_leak : mon L0 [Alloc 0 48; Ctor 0; Dtor 0] <> Some L0.
Proof. vm_compute. discriminate. Qed.
Example C18_ex_monitor_rejects_size_mismatch : mon L0 [Alloc 0 48; Dealloc 0 40] = None.
Proof. vm_compute. reflexivity. Qed.
