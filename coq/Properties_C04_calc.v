From Coq Require Import ZArith List Bool.
From V Require Import Calc.CalcDefs Calc.QueryProofs Calc.StopProofs.
Import ListNotations.
Import Calc.

(* reachable states are live, well-formed states (or completed) *)
Theorem C04_calc_exec_live : forall e pre script,
  r_st (exec e pre script) = OFin \/
  live (r_stopped (exec e pre script)) e (r_st (exec e pre script)).
Proof. exact exec_live. Qed.
Print Assumptions C04_calc_exec_live.

(* A1: a stop request reaches every running leaf connected to the token *)
Theorem C04_calc_stop_reaches : forall e tok st st' tr r,
  live tok e st -> stop e st = (st', tr, r) ->
  (forall id, In id (reach e st) -> In (TLeafStop id) tr \/ In id (reach_seen e st)) /\
  (forall id, In id (reach e st') -> In id (reach_seen e st')) /\
  (r = None -> live true e st') /\ (r <> None -> st' = OFin).
Proof. exact stop_reaches. Qed.
Print Assumptions C04_calc_stop_reaches.

Theorem C04_calc_run_stop_reaches : forall e pre s1 st' tr r,
  stop e (r_st (exec e pre s1)) = (st', tr, r) ->
  (forall id, In id (reach e (r_st (exec e pre s1))) ->
              In (TLeafStop id) tr \/ In id (reach_seen e (r_st (exec e pre s1)))) /\
  (forall id, In id (reach e st') -> In id (reach_seen e st')) /\
  (forall id, In (TLeafStop id) tr ->
              In id (reach_unseen e (r_st (exec e pre s1))) \/ exists s sp a b, In (TLeafStart id s sp a b) tr) /\
  (r = None -> st' = OFin \/ running_leaves e st' <> []) /\ (r <> None -> st' = OFin).
Proof. exact run_stop_reaches. Qed.
Print Assumptions C04_calc_run_stop_reaches.

(* A1: callbacks only of connected running leaves that have not seen stop, or of leaves started in the call *)
Theorem C04_calc_stop_only_reach : forall e id st st' tr r,
  stop e st = (st', tr, r) -> In (TLeafStop id) tr ->
  In id (reach_unseen e st) \/ exists s sp a b, In (TLeafStart id s sp a b) tr.
Proof. exact stop_only_reach. Qed.
Print Assumptions C04_calc_stop_only_reach.

Theorem C04_calc_stop_outside_reach_refuted :
  let e := Bin BLetD (LeafN 0) (Leaf 1) in
  let st := r_st (run_start e false) in
  reach e st = [0] /\
  snd (fst (stop e st)) = [TLeafStop 0; TLeafStart 1 true true 0%Z 0%Z; TLeafStop 1].
Proof. exact stop_outside_reach_refuted. Qed.
Print Assumptions C04_calc_stop_outside_reach_refuted.

(* A1: at most one stop callback per leaf, at most one start per leaf, over a whole run *)
Theorem C04_calc_stop_at_most_once : forall e pre script id,
  NoDup (leaf_ids e) ->
  cstop id (tevs (r_tr (exec e pre script))) <= cstart id (tevs (r_tr (exec e pre script))) /\
  cstart id (tevs (r_tr (exec e pre script))) <= 1.
Proof. exact stop_at_most_once. Qed.
Print Assumptions C04_calc_stop_at_most_once.

(* A1: no callback (nor anything else) for a leaf after it completed *)
Theorem C04_calc_no_event_after_completion : forall e pre s1 s2 id o,
  NoDup (leaf_ids e) ->
  snd (leafev e (r_st (exec e pre s1)) id o) = true ->
  exists d, r_tr (exec e pre (s1 ++ EvLeaf id o :: s2)) = r_tr (exec e pre (s1 ++ [EvLeaf id o])) ++ d /\
            Forall (liftx (about id)) d.
Proof. exact no_event_after_completion. Qed.
Print Assumptions C04_calc_no_event_after_completion.

(* A2: leaves started after the stop request start stopped *)
Theorem C04_calc_after_stop_starts_stopped : forall e pre s1 s2,
  exists d, r_tr (exec e pre (s1 ++ EvStop :: s2)) = r_tr (exec e pre s1) ++ d /\
            Forall (liftx (sees_stop e)) d.
Proof. exact after_stop_starts_stopped. Qed.
Print Assumptions C04_calc_after_stop_starts_stopped.

Theorem C04_calc_after_stop_connected_start_stopped : forall e pre s1 s2,
  NoDup (leaf_ids e) ->
  exists d, r_tr (exec e pre (s1 ++ EvStop :: s2)) = r_tr (exec e pre s1) ++ d /\
    forall id s sp a b, In (XT (TLeafStart id s sp a b)) d -> In id (sreach e) -> s = true.
Proof. exact after_stop_connected_start_stopped. Qed.
Print Assumptions C04_calc_after_stop_connected_start_stopped.

Theorem C04_calc_prestopped_connected_start_stopped : forall e script id s sp a b,
  NoDup (leaf_ids e) ->
  In (XT (TLeafStart id s sp a b)) (r_tr (exec e true script)) -> In id (sreach e) -> s = true.
Proof. exact prestopped_connected_start_stopped. Qed.
Print Assumptions C04_calc_prestopped_connected_start_stopped.

Theorem C04_calc_stopped_state_invariant : forall e pre script,
  r_stopped (exec e pre script) = true ->
  r_st (exec e pre script) = OFin \/
  (live true e (r_st (exec e pre script)) /\ reach_unseen e (r_st (exec e pre script)) = []).
Proof. exact stopped_state_invariant. Qed.
Print Assumptions C04_calc_stopped_state_invariant.

(* leaves whose token cannot be stopped never see it stopped *)
Theorem C04_calc_unstoppable_not_stopped : forall e pre script id st sp a b,
  In (XT (TLeafStart id st sp a b)) (r_tr (exec e pre script)) -> sp = false -> st = false.
Proof. exact unstoppable_not_stopped. Qed.
Print Assumptions C04_calc_unstoppable_not_stopped.

(* A3: losers are stopped *)
Theorem C04_calc_losers_stopped_a : forall k a b ns sa sb id o sa' tra oa st' tr r hit tok,
  is_seq k = false ->
  live tok (Bin k a b) (ONode ns sa sb) ->
  adone ns = false -> leafev a sa id o = (sa', tra, Some oa, true) ->
  loser_cond k oa -> own_stop ns = false -> bdone ns = false ->
  leafev (Bin k a b) (ONode ns sa sb) id o = (st', tr, r, hit) ->
  forall id', In id' (reach_unseen b sb) -> In (TLeafStop id') tr.
Proof. exact losers_stopped_a. Qed.
Print Assumptions C04_calc_losers_stopped_a.

Theorem C04_calc_losers_stopped_b : forall k a b ns sa sb id o sb' trb ob st' tr r hit tok,
  is_seq k = false ->
  live tok (Bin k a b) (ONode ns sa sb) ->
  (adone ns = false -> snd (leafev a sa id o) = false) ->
  bdone ns = false -> leafev b sb id o = (sb', trb, Some ob, true) ->
  loser_cond k ob -> own_stop ns = false -> adone ns = false ->
  leafev (Bin k a b) (ONode ns sa sb) id o = (st', tr, r, hit) ->
  forall id', In id' (reach_unseen a sa) -> In (TLeafStop id') tr.
Proof. exact losers_stopped_b. Qed.
Print Assumptions C04_calc_losers_stopped_b.

(* A4: deregistered before completion *)
Theorem C04_calc_root_completes_unregistered : forall e pre script o n,
  In (XRoot o n) (r_tr (exec e pre script)) -> n = 0.
Proof. exact root_completes_unregistered. Qed.
Print Assumptions C04_calc_root_completes_unregistered.

Theorem C04_calc_no_leak : forall e pre script root, ~ In (XT (TLeak root)) (r_tr (exec e pre script)).
Proof. exact no_leak. Qed.
Print Assumptions C04_calc_no_leak.

Theorem C04_calc_leak_as_written_refuted :
  leaky_as_written BStopWhen = true /\ leaky BStopWhen = false /\
  (forall ns sa sb tr o, finish_conc BStopWhen ns sa sb tr (Some o) (leaky_as_written BStopWhen) =
                         (OFin, tr ++ (if reg ns then [TLeak (e_root (n_env ns))] else []), Some o)) /\
  let e := Bin BStopWhen (LeafN 0) (LeafN 1) in
  match r_st (run_start e false) with
  | ONode ns sa sb =>
      reg ns = true /\
      stop_conc_w BStopWhen (LeafN 0) (LeafN 1) ns sa sb = (OFin, [TLeafStop 1; TLeafStop 0; TLeak true], Some ODone) /\
      stop e (ONode ns sa sb) = (OFin, [TLeafStop 1; TLeafStop 0], Some ODone)
  | _ => False
  end.
Proof. exact leak_as_written_refuted. Qed.
Print Assumptions C04_calc_leak_as_written_refuted.

(* A5: prompt completion *)
Theorem C04_calc_stop_prompt : forall e tok st st' tr r,
  live tok e st -> stop e st = (st', tr, r) ->
  (r = None -> running_leaves e st' <> []) /\
  (r <> None -> st' = OFin /\ running_leaves e st' = []).
Proof. exact stop_prompt. Qed.
Print Assumptions C04_calc_stop_prompt.

Theorem C04_calc_stop_inert : forall e st st' tr r,
  stop e st = (st', tr, r) -> reactive e st = [] -> r = None /\ Forall is_stop_ev tr.
Proof. exact stop_inert. Qed.
Print Assumptions C04_calc_stop_inert.

Local Open Scope Z_scope.
Example C04_calc_ex :
  let C04_ex :=
    Bin BWhenAll
        (Bin BLetD (LeafN 0) (Bin BStopWhen (Leaf 1) (LeafN 2)))
        (Bin BWhenAll (Un UUnstoppable (Un (UWithQ 0 3) (Leaf 3))) (Bin BSeq (Leaf 4) (LeafN 5))) in
  NoDup (leaf_ids C04_ex) /\
  (* stop reaches the connected running leaves 0 and 5, not 3; the successors 1, 2 start stopped *)
  (let rs := exec C04_ex false [EvLeaf 4 (OVal 1)] in
   reach C04_ex (r_st rs) = [0; 5]%nat /\ running_leaves C04_ex (r_st rs) = [0; 3; 5]%nat) /\
  r_tr (exec C04_ex false [EvLeaf 4 (OVal 1); EvStop; EvLeaf 1 ODone; EvLeaf 3 (OVal 0)]) =
    [XT (TLeafStart 0 false true 0 0); XT (TLeafStart 3 false false 3 0);
     XT (TLeafStart 4 false true 0 0); XT (TLeafStart 5 false true 0 0);
     XT (TLeafStop 5); XT (TLeafStop 0); XT (TLeafStart 1 true true 0 0);
     XT (TLeafStop 1); XT (TLeafStart 2 true true 0 0);
     XT (TLeafStop 2); XRoot ODone 0] /\
  (* a failing child of the inner when_all makes the outer one stop the loser (leaf 0) *)
  r_tr (exec C04_ex false [EvLeaf 4 (OErr 9); EvLeaf 3 (OVal 0)]) =
    [XT (TLeafStart 0 false true 0 0); XT (TLeafStart 3 false false 3 0);
     XT (TLeafStart 4 false true 0 0); XT (TLeafStop 0);
     XT (TLeafStart 1 true true 0 0); XT (TLeafStop 1);
     XT (TLeafStart 2 true true 0 0); XT (TLeafStop 2)] /\
  (* stop requested before start *)
  r_tr (exec C04_ex true [EvLeaf 3 (OVal 0)]) =
    [XT (TLeafStart 0 true true 0 0); XT (TLeafStop 0);
     XT (TLeafStart 1 true true 0 0); XT (TLeafStop 1);
     XT (TLeafStart 2 true true 0 0); XT (TLeafStop 2);
     XT (TLeafStart 3 false false 3 0); XT (TLeafStart 4 true true 0 0);
     XT (TLeafStop 4)].
Proof.
  intros C04_ex. split; [repeat constructor; simpl; intuition discriminate|].
  vm_compute. repeat split.
Qed.
