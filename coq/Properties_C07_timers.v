(* C07, protocol part: timers never fire early, fire in due-time order (ties in submission order),
   cancel promptly, complete exactly once, and the context keeps no reference to a completed
   operation -- for timed_single_thread_context (model Proto/TimerQueueDefs.v, all schedules of the
   timer thread, any number of starting and stop-requesting threads, clock advances of any size,
   spurious wake-ups) and for thread_unsafe_event_loop (model Proto/UnsafeLoopDefs.v, all
   interleavings of whole calls on one thread).  Tie: K1 lock-step, harness/k1_timed_context.cpp and
   harness/k1_unsafe_loop.cpp. *)
From Coq Require Import ZArith List Bool.
From V Require Import Base.Sched Arith.SortedInsertDefs Proto.TimerQueueDefs Proto.TimerQueueProofs
  Proto.UnsafeLoopDefs Proto.UnsafeLoopProofs.
Import ListNotations.
Local Open Scope Z_scope.

Module TQ.
Import TimerQueue.

(* never_early: set_value for operation i at clock value t only if t >= the due time start computed *)
Theorem C07_tq_never_early : forall now0 specs sched i t,
  let c := run step sched (init now0 specs, []) in
  In (EFire i t) (snd c) ->
  exists o d, nth_error (ops (fst c)) i = Some o /\ orig o = Some d /\ d <= t.
Proof. exact TimerQueueProofs.never_early. Qed.
Print Assumptions C07_tq_never_early.

(* the same, grounded in the schedule: the step that starts i at clock value n fixes the due time
   start_due = n + delay (schedule_after) or the given time point (schedule_at) *)
Theorem C07_tq_never_early_grounded : forall now0 specs sched1 t1 s1 evs1 sched2 i t,
  let c1 := run step sched1 (init now0 specs, []) in
  step t1 (fst c1) = Some (s1, evs1) -> In (EStart i) evs1 ->
  let c2 := run step sched2 (s1, snd c1 ++ evs1) in
  In (EFire i t) (snd c2) ->
  exists o, nth_error (ops (fst c1)) i = Some o /\ start_due (fst c1) o <= t.
Proof. exact TimerQueueProofs.never_early_grounded. Qed.
Print Assumptions C07_tq_never_early_grounded.

(* order: the queue is sorted by due time, identities are distinct, the head is a minimum ... *)
Theorem C07_tq_order_sorted : forall now0 specs sched,
  let s := fst (run step sched (init now0 specs, [])) in
  sorted_due (q s) /\ NoDup (map id (q s)) /\
  forall x tl, q s = x :: tl -> Forall (fun y => due x <= due y) tl.
Proof. exact TimerQueueProofs.queue_sorted. Qed.
Print Assumptions C07_tq_order_sorted.

(* ... ties are queued in the order of their enqueues (eseq = number of the enqueue) ... *)
Theorem C07_tq_order_fifo_ties : forall now0 specs sched l1 x l2 y l3,
  let s := fst (run step sched (init now0 specs, [])) in
  q s = l1 ++ x :: l2 ++ y :: l3 -> due x = due y ->
  (seqof (ops s) (id x) < seqof (ops s) (id y))%nat.
Proof. exact TimerQueueProofs.fifo_ties. Qed.
Print Assumptions C07_tq_order_fifo_ties.

Theorem C07_tq_order_enqueue_numbers : forall s t s' evs,
  step t s = Some (s', evs) ->
  nenq s' = nenq s \/ (nenq s' = S (nenq s) /\ exists i d, q s' = insert_timed (d, i) (q s) /\ seqof (ops s') i = nenq s).
Proof. exact TimerQueueProofs.enqueue_numbers. Qed.
Print Assumptions C07_tq_order_enqueue_numbers.

(* ... and the timer thread removes only the head, only when it is due; completions are then
   delivered one at a time in that order (completion events are emitted by the timer thread for the
   operation it popped: C07_tq_exactly_once counts them) *)
Theorem C07_tq_order_timer_takes_head : forall s s' evs,
  step 0 s = Some (s', evs) ->
  q s' = q s \/ exists x, q s = x :: q s' /\ due x <= now s /\ tpc s' = TUnlockExec (id x).
Proof. exact TimerQueueProofs.timer_takes_head. Qed.
Print Assumptions C07_tq_order_timer_takes_head.

(* cancel_prompt: once the cancel callback has passed its critical section the operation's due time
   is <= now; if queued, its entry and everything in front of it are due *)
Theorem C07_tq_cancel_prompt : forall now0 specs sched i o,
  let c := run step sched (init now0 specs, []) in
  let s := fst c in
  nth_error (ops s) i = Some o -> cancelled o = true ->
  dueT o <= now s /\
  forall l1 d l2, q s = l1 ++ (d, i) :: l2 ->
    d = dueT o /\ Forall (fun y => due y <= now s) (l1 ++ [(d, i)]).
Proof. exact TimerQueueProofs.cancel_prompt. Qed.
Print Assumptions C07_tq_cancel_prompt.

(* exactly_once: at most one completion event per operation in the trace, none before start ... *)
Theorem C07_tq_exactly_once : forall now0 specs sched i o,
  let c := run step sched (init now0 specs, []) in
  nth_error (ops (fst c)) i = Some o ->
  (TimerQueueProofs.ccount i (snd c) <= 1)%nat /\ TimerQueueProofs.ccount i (snd c) = ncomp o /\
  ((1 <= TimerQueueProofs.ccount i (snd c))%nat -> started o = true).
Proof. exact TimerQueueProofs.at_most_once. Qed.
Print Assumptions C07_tq_exactly_once.

(* ... and nothing is lost: whenever no thread is in the middle of a call, a started operation is
   completed or still queued (exactly one of the two, once); with an empty queue it has completed *)
Theorem C07_tq_exactly_once_no_lost : forall now0 specs sched i o,
  let c := run step sched (init now0 specs, []) in
  quiescent (fst c) = true -> nth_error (ops (fst c)) i = Some o -> started o = true ->
  (TimerQueueProofs.ccount i (snd c) + cnt i (q (fst c)) = 1)%nat /\ (q (fst c) = [] -> TimerQueueProofs.ccount i (snd c) = 1%nat).
Proof. exact TimerQueueProofs.no_lost. Qed.
Print Assumptions C07_tq_exactly_once_no_lost.

Theorem C07_tq_unlinked_after_completion : forall now0 specs sched i o,
  let c := run step sched (init now0 specs, []) in
  nth_error (ops (fst c)) i = Some o -> (1 <= TimerQueueProofs.ccount i (snd c))%nat ->
  ~ In i (map id (q (fst c))) /\ sholds o = false /\ cholds o = false /\ tholds i (tpc (fst c)) = false.
Proof. exact TimerQueueProofs.unlinked_after_completion. Qed.
Print Assumptions C07_tq_unlinked_after_completion.

(* beyond the property text: mutual exclusion on mutex_ and absence of lost wake-ups (what makes
   "cancel promptly" effective: the timer thread never sleeps past the head's due time) *)
Theorem C07_tq_mutual_exclusion : forall now0 specs sched,
  let s := fst (run step sched (init now0 specs, [])) in
  (b2n (thold (tpc s)) + hsum (ops s) + b2n (dhold (dpc s)) = b2n (mlocked s))%nat.
Proof. exact TimerQueueProofs.mutual_exclusion. Qed.
Print Assumptions C07_tq_mutual_exclusion.

Theorem C07_tq_no_lost_wakeup : forall now0 specs sched dl,
  let s := fst (run step sched (init now0 specs, [])) in
  tpc s = TWaiting dl false ->
  (exists i o, nth_error (ops s) i = Some o /\ pend o = true) \/
  match q s with [] => True | x :: _ => exists d, dl = Some d /\ d <= due x end.
Proof. exact TimerQueueProofs.no_lost_wakeup. Qed.
Print Assumptions C07_tq_no_lost_wakeup.

(* the hypotheses are met by concrete runs: 30/10/10 ms timers fire at 1010, 1010 (FIFO), 1030;
   thread ids: 0 timer, 1..3 starters, 4..6 stoppers, 7 destroyer, 8 spurious wake-up, 9+k clock +(k+1) *)
Definition ex_sched : list nat :=
  [1;1;1;1;1;1; 2;2;2;2;2;2; 3;3;3;3;3; 0;0; 18; 0;0;0;0;0;0; 0;0;0;0;0;0; 0;0; 28; 0;0;0;0;0;0; 0;0]%nat.
Example C07_tq_ex_order :
  filter (fun e => match e with EFire _ _ | EDone _ _ => true | _ => false end)
         (snd (run step ex_sched (init 1000 [(true, 30); (true, 10); (true, 10)], [])))
  = [EFire 1 1010; EFire 2 1010; EFire 0 1030].
Proof. vm_compute. reflexivity. Qed.

(* stop requested before start (stopper 2 = thread n+1+0), then start: done at once, never value *)
Example C07_tq_ex_prestopped :
  filter (fun e => match e with EFire _ _ | EDone _ _ => true | _ => false end)
         (snd (run step [2;2; 1;1;1;1;1;1;1; 0;0;0;0]%nat (init 1000 [(true, 500)], [])))
  = [EDone 0 1000].
Proof. vm_compute. reflexivity. Qed.

(* cancel racing the pop: the timer thread has popped the operation, the stopper runs the callback,
   the timer thread waits for it and completes with done *)
Example C07_tq_ex_cancel_vs_pop :
  filter (fun e => match e with EFire _ _ | EDone _ _ | ECbSeen _ => true | _ => false end)
         (snd (run step [1;1;1;1;1;1; 0;0; 2;2; 0;0; 2;2;2; 0;0;0]%nat (init 1000 [(true, 0)], [])))
  = [ECbSeen 0; EDone 0 1000].
Proof. vm_compute. reflexivity. Qed.
End TQ.

Module UL.
Import UnsafeLoop.

(* DESIGN section 8, finding 3: with next_/prevPtr_ uninitialised (the code as it is) the schedule
   "request_stop, then start of schedule_after(10)" reads prevPtr_ before anything wrote it *)
Theorem C07_ul_no_uninit_read_refuted :
  exists specs sched,
    existsb UnsafeLoopProofs.is_uninit (snd (run step sched (init LUninit 1000 specs, []))) = true.
Proof. exact UnsafeLoopProofs.no_uninit_read_refuted. Qed.
Print Assumptions C07_ul_no_uninit_read_refuted.

(* with the proposed default member initialisers (= nullptr) no schedule reads an uninitialised link *)
Theorem C07_ul_no_uninit_read_fixed : forall now0 specs sched,
  existsb UnsafeLoopProofs.is_uninit (snd (run step sched (init LNull now0 specs, []))) = false.
Proof. exact UnsafeLoopProofs.no_uninit_read_fixed. Qed.
Print Assumptions C07_ul_no_uninit_read_fixed.

Theorem C07_ul_never_early : forall l0 now0 specs sched i t, l0 <> LSet ->
  let c := run step sched (init l0 now0 specs, []) in
  In (EFire i t) (snd c) ->
  exists o d, nth_error (ops (fst c)) i = Some o /\ orig o = Some d /\ d <= t.
Proof. exact UnsafeLoopProofs.never_early. Qed.
Print Assumptions C07_ul_never_early.

Theorem C07_ul_exactly_once : forall l0 now0 specs sched i o, l0 <> LSet ->
  let c := run step sched (init l0 now0 specs, []) in
  nth_error (ops (fst c)) i = Some o ->
  (UnsafeLoopProofs.ccount i (snd c) <= 1)%nat /\ UnsafeLoopProofs.ccount i (snd c) = ncomp o /\
  ((1 <= UnsafeLoopProofs.ccount i (snd c))%nat -> ph o = PDone).
Proof. exact UnsafeLoopProofs.at_most_once. Qed.
Print Assumptions C07_ul_exactly_once.

Theorem C07_ul_unlinked_after_completion : forall l0 now0 specs sched i o, l0 <> LSet ->
  let c := run step sched (init l0 now0 specs, []) in
  nth_error (ops (fst c)) i = Some o -> (1 <= UnsafeLoopProofs.ccount i (snd c))%nat ->
  ~ In i (map id (q (fst c))) /\ cbreg o = false.
Proof. exact UnsafeLoopProofs.unlinked_after_completion. Qed.
Print Assumptions C07_ul_unlinked_after_completion.

Theorem C07_ul_order_sorted : forall l0 now0 specs sched, l0 <> LSet ->
  let s := fst (run step sched (init l0 now0 specs, [])) in
  sorted_due (q s) /\ NoDup (map id (q s)).
Proof. exact UnsafeLoopProofs.queue_sorted. Qed.
Print Assumptions C07_ul_order_sorted.

Theorem C07_ul_cancel_prompt : forall l0 now0 specs sched i o, l0 <> LSet ->
  let s := fst (run step sched (init l0 now0 specs, [])) in
  nth_error (ops s) i = Some o -> sreq o = true -> ph o = PQueued ->
  dueT o <= now s /\
  forall l1 d l2, q s = l1 ++ (d, i) :: l2 -> d = dueT o /\ Forall (fun y => due y <= now s) (l1 ++ [(d, i)]).
Proof. exact UnsafeLoopProofs.cancel_prompt. Qed.
Print Assumptions C07_ul_cancel_prompt.

(* thread ids for one operation: 0 loop, 1 start, 2 request_stop, 3+k clock *)
Example C07_ul_ex_witness :
  snd (run step [2; 1]%nat (init LUninit 1000 [(true, 10)], [])) = [EStop 0; EStart 0; EUninit 0].
Proof. vm_compute. reflexivity. Qed.
Example C07_ul_ex_fixed :
  snd (run step [2; 1; 0; 0; 0]%nat (init LNull 1000 [(true, 10)], [])) = [EStop 0; EStart 0; EEnter; EDone 0 1000; EExit].
Proof. vm_compute. reflexivity. Qed.
End UL.
