(* C05 (sender calculus part): the outcome of every sender algorithm is the documented function of
   the outcomes and order of its inputs.  [denote] (Calc/DenoteDefs.v) is the documented function,
   written compositionally with time stamps; the theorems say that the operational model [exec]
   (Calc/CalcDefs.v, tied to the real library by the K2 differential harness) computes it. *)
From Coq Require Import ZArith List Bool Arith.
From V Require Import Calc.CalcDefs Calc.DenoteDefs Calc.DenoteProofs.
Import ListNotations.
Import Calc.

(* the root receiver completes iff the denotation says so, with exactly that outcome *)
Theorem C05_calc_result : forall e script,
  stop_free script = true -> no_leafn e = true -> NoDup (leaf_ids e) ->
  let rs := exec e false script in
  match denote script e [] 0 None with
  | Some (o, t) => (t <= length script)%nat /\ (exists n, In (XRoot o n) (r_tr rs)) /\ r_roots rs = 1%nat
  | None => r_roots rs = 0%nat
  end.
Proof. exact C05_result. Qed.
Print Assumptions C05_calc_result.

(* ... and with no other outcome: the root completions recorded in the trace are exactly that one *)
Theorem C05_calc_result_unique : forall e script,
  stop_free script = true -> no_leafn e = true -> NoDup (leaf_ids e) ->
  xroots (r_tr (exec e false script)) =
  match denote script e [] 0 None with Some (o, _) => [o] | None => [] end.
Proof. exact C05_result_unique. Qed.
Print Assumptions C05_calc_result_unique.

(* ... exactly while the t-th script event is processed (inline in start() when t = 0) *)
Theorem C05_calc_timing : forall e script,
  stop_free script = true -> no_leafn e = true -> NoDup (leaf_ids e) ->
  forall n, (n <= length script)%nat ->
  r_roots (exec e false (firstn n script)) =
  match denote script e [] 0 None with
  | Some (_, t) => if (t <=? n)%nat then 1%nat else 0%nat
  | None => 0%nat
  end.
Proof. exact C05_timing. Qed.
Print Assumptions C05_calc_timing.

(* the user callables are applied exactly as the denotation says: the same callables with the same
   arguments in the same order, and at the same times (the trace of the run cut after n events
   contains the calls of the times 0..n) *)
Theorem C05_calc_calls : forall e script,
  stop_free script = true -> no_leafn e = true -> NoDup (leaf_ids e) ->
  forall n, (n <= length script)%nat ->
  calls_of (r_tr (exec e false (firstn n script))) =
  flat_map (calls_at script e [] 0 None) (seq 0 (S n)).
Proof. exact C05_calls. Qed.
Print Assumptions C05_calc_calls.

(* a stop requested after time m does not change what an operation does up to time m *)
Theorem C05_calc_causal : forall script e, no_leafn e = true -> forall bs t0 c c' m,
  later c (2 * m) -> later c' (2 * m) ->
  by_time (denote script e bs t0 c) m = by_time (denote script e bs t0 c') m.
Proof. exact denote_causal. Qed.
Print Assumptions C05_calc_causal.

(* algebraic laws read off the denotation *)
Theorem C05_calc_then_just : forall script f v bs t ts,
  denote script (Un (UThen f) (Just v)) bs t ts = Some (fn_out f v, t).
Proof. exact denote_then_just. Qed.
Print Assumptions C05_calc_then_just.

Theorem C05_calc_let_value_just : forall script v k bs t ts,
  denote script (Bin BLetV (Just v) k) bs t ts = denote script k (v :: bs) t ts.
Proof. exact denote_let_value_just. Qed.
Print Assumptions C05_calc_let_value_just.

Theorem C05_calc_sequence_just : forall script v k bs t ts,
  denote script (Bin BSeq (Just v) k) bs t ts = denote script k bs t ts.
Proof. exact denote_sequence_just. Qed.
Print Assumptions C05_calc_sequence_just.

Theorem C05_calc_finally_just : forall script a v bs t ts,
  denote script (Bin BFinally a (Just v)) bs t ts = denote script a bs t ts.
Proof. exact denote_finally_just. Qed.
Print Assumptions C05_calc_finally_just.

Theorem C05_calc_when_all_justs : forall script x y bs t,
  denote script (Bin BWhenAll (Just x) (Just y)) bs t None = Some (OVal (combine x y), t).
Proof. exact denote_when_all_justs. Qed.
Print Assumptions C05_calc_when_all_justs.

(* a concrete run (expression and scripts in Calc/DenoteDefs.v):
   finally (when_all (then l1 throw-if-5) (let_value l2 (then var0 (+10)))) l3;
   script 1: unknown leaf, leaf not started yet, the SECOND leaf fails first, a duplicate, the first
   leaf's callable throws (too late), cleanup; script 2: the first leaf's callable throws first *)
Example C05_calc_example_hyps :
  (stop_free c05_ex_script1, stop_free c05_ex_script2, no_leafn c05_ex_e, leaf_ids c05_ex_e) = (true, true, true, [1; 2; 3]%nat).
Proof. vm_compute. reflexivity. Qed.

Example C05_calc_example1 :
  denote c05_ex_script1 c05_ex_e [] 0 None = Some (OErr 4, 6%nat) /\
  xroots (r_tr (exec c05_ex_e false c05_ex_script1)) = [OErr 4] /\
  r_roots (exec c05_ex_e false c05_ex_script1) = 1%nat /\
  r_roots (exec c05_ex_e false (firstn 5 c05_ex_script1)) = 0%nat /\
  calls_of (r_tr (exec c05_ex_e false c05_ex_script1)) = [(FThrowIf 5 77, 5%Z)] /\
  calls_at c05_ex_script1 c05_ex_e [] 0 None 5 = [(FThrowIf 5 77, 5%Z)].
Proof. vm_compute. repeat split; reflexivity. Qed.

Example C05_calc_example2 :
  denote c05_ex_script2 c05_ex_e [] 0 None = Some (OErr 77, 3%nat) /\
  xroots (r_tr (exec c05_ex_e false c05_ex_script2)) = [OErr 77] /\
  r_roots (exec c05_ex_e false (firstn 2 c05_ex_script2)) = 0%nat /\
  calls_of (r_tr (exec c05_ex_e false c05_ex_script2)) = [(FThrowIf 5 77, 5%Z); (FAdd 10, 1%Z)].
Proof. vm_compute. repeat split; reflexivity. Qed.
