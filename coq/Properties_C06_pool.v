(* C06, unit 4: static_thread_pool (model Proto/ThreadPoolDefs.v).
   Thread ids for p producers and k workers: 0 owner (constructor, request_stop, join), 1..p
   producers, p+1..p+k workers, p+k+1..p+2k spurious wake-ups of a worker's cv_.wait. *)
From Coq Require Import List Bool Arith Permutation.
From V Require Import Base.Sched Proto.ThreadPoolDefs Proto.ThreadPoolProofs.
Import ListNotations.
Import ThreadPool.

(* Nothing is lost or duplicated: at every moment the pushed items are exactly (as a multiset) the
   completed ones, those a worker has popped and not yet completed, and those in the queues; no
   item is pushed twice, so none completes twice. *)
Theorem C06_pool_accounting :
  forall (rc : bool) (k : nat) (counts : list nat) (sched : list nat),
  let c := run step sched (init rc k counts, []) in
  Permutation (enqs (snd c))
              (map fst (runs (snd c)) ++ flat_map inflight (workers (fst c)) ++ queued (fst c)) /\
  NoDup (enqs (snd c)).
Proof. exact accounting. Qed.
Print Assumptions C06_pool_accounting.

Theorem C06_pool_at_most_once :
  forall (rc : bool) (k : nat) (counts : list nat) (sched : list nat),
  NoDup (map fst (runs (snd (run step sched (init rc k counts, []))))).
Proof. exact at_most_once. Qed.
Print Assumptions C06_pool_at_most_once.

Theorem C06_pool_enqueued_items_valid :
  forall (rc : bool) (k : nat) (counts : list nat) (sched : list nat) (p j : nat),
  In (p, j) (enqs (snd (run step sched (init rc k counts, [])))) ->
  exists x n, p = S x /\ nth_error counts x = Some n /\ j < n.
Proof. exact enq_items_valid. Qed.
Print Assumptions C06_pool_enqueued_items_valid.

(* pop() returns nullptr only when the worker's own queue is empty and stop was requested on it; a
   worker that has returned leaves in its queue only items pushed after request_stop reached it. *)
Theorem C06_pool_pop_null_only_if_empty_and_stopped :
  forall (rc : bool) (k : nat) (counts : list nat) (sched : list nat) (w : nat),
  let s := fst (run step sched (init rc k counts, [])) in
  (nth_error (workers s) w = Some (WPopUnlock None) -> qitems (getq s w) = [] /\ qstop (getq s w) = true) /\
  (nth_error (workers s) w = Some WDone -> qstop (getq s w) = true /\ incl (qitems (getq s w)) (late s)).
Proof. exact pop_null_only_if_empty_and_stopped. Qed.
Print Assumptions C06_pool_pop_null_only_if_empty_and_stopped.

(* No lost wake-up. *)
Theorem C06_pool_no_lost_item :
  forall (rc : bool) (k : nat) (counts : list nat) (sched : list nat) (w : nat),
  let s := fst (run step sched (init rc k counts, [])) in
  nth_error (workers s) w = Some (WPopBlocked false) ->
  (qitems (getq s w) = [] \/
   exists x n j, nth_error (prods s) x = Some (n, PNotify j w) /\ qown (getq s w) = Some (S x)) /\
  (qstop (getq s w) = false \/ exists d, mainpc s = MStopNotify d w /\ qown (getq s w) = Some 0).
Proof. exact no_lost_item. Qed.
Print Assumptions C06_pool_no_lost_item.

(* When everything has finished (destructor done: request_stop + join): what was not completed is
   still queued and was pushed into its queue after request_stop had reached that queue; every
   operation of every producer was pushed. *)
Theorem C06_pool_final_accounting :
  forall (rc : bool) (k : nat) (counts : list nat) (sched : list nat),
  let c := run step sched (init rc k counts, []) in
  final (fst c) = true ->
  Permutation (enqs (snd c)) (map fst (runs (snd c)) ++ queued (fst c)) /\
  incl (queued (fst c)) (late (fst c)) /\
  forall x n j, nth_error counts x = Some n -> j < n -> In (S x, j) (enqs (snd c)).
Proof. exact final_accounting. Qed.
Print Assumptions C06_pool_final_accounting.

(* Without a request_stop() racing the producers (the destructor runs after the last start()
   returned): when everything has finished every started operation has completed exactly once. *)
Theorem C06_pool_exactly_once_at_the_end :
  forall (k : nat) (counts : list nat) (sched : list nat),
  let c := run step sched (init false k counts, []) in
  final (fst c) = true ->
  Permutation (map fst (runs (snd c))) (enqs (snd c)) /\ NoDup (map fst (runs (snd c))) /\
  forall x n j, nth_error counts x = Some n -> j < n -> In (S x, j) (map fst (runs (snd c))).
Proof. intros k counts sched. apply exactly_once_final. reflexivity. Qed.
Print Assumptions C06_pool_exactly_once_at_the_end.

(* set_value runs on a thread of the pool. *)
Theorem C06_pool_completion_on_worker :
  forall (rc : bool) (k : nat) (counts : list nat) (sched1 : list nat)
         (t : nat) (s' : st) (evs : list ev) (it : item) (w : nat),
  let s := fst (run step sched1 (init rc k counts, [])) in
  step t s = Some (s', evs) -> In (ERun it w) evs -> t = worker_tid s w /\ w < nq s.
Proof. exact completion_on_worker. Qed.
Print Assumptions C06_pool_completion_on_worker.

(* Mutual exclusion on every thread_state mutex. *)
Theorem C06_pool_mutex_owner :
  forall (rc : bool) (k : nat) (counts : list nat) (sched : list nat),
  let s := fst (run step sched (init rc k counts, [])) in
  (forall q, holdsM (mainpc s) q = true -> qown (getq s q) = Some 0) /\
  (forall x n pc q, nth_error (prods s) x = Some (n, pc) -> holdsP pc q = true -> qown (getq s q) = Some (S x)) /\
  (forall w pc q, nth_error (workers s) w = Some pc -> holdsW w pc q = true ->
                  qown (getq s q) = Some (worker_tid s w)).
Proof. exact mutex_owner. Qed.
Print Assumptions C06_pool_mutex_owner.

(* A recorded owner of a thread_state mutex is at a program point inside that critical section (the
   converse of C06_pool_mutex_owner). *)
Theorem C06_pool_owner_is_in_critical_section :
  forall (rc : bool) (k : nat) (counts : list nat) (sched : list nat),
  0 < k ->
  let s := fst (run step sched (init rc k counts, [])) in
  forall q t, q < nq s -> qown (getq s q) = Some t -> holder s t q.
Proof. intros rc k counts sched Hk. apply (prog_reachable rc k counts sched Hk). Qed.
Print Assumptions C06_pool_owner_is_in_critical_section.

(* No reachable state is stuck: unless everything has finished (owner done, producers done, every
   worker returned) some thread other than the spurious-wake-up environment -- thread ids
   0 .. p+k -- can take a step.  So no deadlock and no lost wake-up anywhere: no progress ever
   depends on a spurious wake-up.  (static_thread_pool(0) is excluded by the library's own
   precondition threadCount > 0.) *)
Theorem C06_pool_progress :
  forall (rc : bool) (k : nat) (counts : list nat) (sched : list nat),
  0 < k ->
  let s := fst (run step sched (init rc k counts, [])) in
  final s = false -> exists t, t <= nprods s + nq s /\ step t s <> None.
Proof. exact progress. Qed.
Print Assumptions C06_pool_progress.

(* The destructor's join always completes and every worker returns: the run can always be continued
   by a real thread until the state is final (previous theorem), and the owner is finished only
   after every worker has returned from run(). *)
Theorem C06_pool_joined :
  forall (rc : bool) (k : nat) (counts : list nat) (sched : list nat),
  0 < k ->
  let s := fst (run step sched (init rc k counts, [])) in
  (final s = false -> exists t, t <= nprods s + nq s /\ step t s <> None) /\
  (mainpc s = MDone -> forall w, w < k -> nth_error (workers s) w = Some WDone).
Proof. intros rc k counts sched Hk. split; [apply progress; exact Hk|apply joined]. Qed.
Print Assumptions C06_pool_joined.

(* 2 workers, 2 producers with one item each (threads 0 owner, 1 2 producers, 3 4 workers).
   Worker 0 scans both queues, finds nothing and sleeps in pop(); producer 1 pushes on queue 0 and
   notifies; producer 2's try_push on queue 1 succeeds; worker 0 wakes, runs 1.0, then steals 2.0 from
   queue 1; the destructor stops both queues and joins. *)
Example C06_pool_example :
  let c := run step [0; 0; 3; 3; 3; 3; 3; 3; 1; 1; 1; 1; 2; 2; 2; 2; 3; 3; 3; 3; 3; 3; 3; 3;
                     0; 0; 0; 0; 0; 0; 3; 3; 3; 3; 3; 3; 4; 4; 4; 4; 4; 4; 0; 0]
               (init false 2 [1; 1], []) in
  final (fst c) = true /\ executed (fst c) = [((1, 0), 0); ((2, 0), 0)] /\ queued (fst c) = [].
Proof. vm_compute. repeat split; reflexivity. Qed.
