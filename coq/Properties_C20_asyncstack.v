(* C20 (second half) - async-stack bookkeeping is balanced.
   Model: Proto/AsyncStackDefs.v (per-thread chain of AsyncStackRoots, frames with parent links, the
   brackets of inject_async_stack.hpp around start() and around every completion signal, sync_wait's
   initial_stack_root; one step per primitive of async_stack.cpp / async_stack-inl.hpp).
   The theorems quantify over ALL op trees [pars], ALL families of traced runs [progs] (one forest of
   brackets per thread; the runs produced by the generator [gen] from an abstract expression and a
   completion script are instances) and ALL schedules.  A thread that would break the sender/receiver
   contract (start an operation twice, complete one that was never started) is blocked by the model,
   so such runs never reach quiescence.
   Not covered by the model (monitored by the tie only): the coroutine path (connect_awaitable,
   await_transform, task: push/popAsyncStackFrameCallerCallee). *)
From Coq Require Import List Bool Arith.
From V Require Import Base.Sched Proto.AsyncStackDefs Proto.AsyncStackProofs.
Import ListNotations.
Import AsyncStack.

(* no assert of async_stack.cpp / async_stack-inl.hpp / ScopedAsyncStackRoot can fire: a frame is only
   activated on the current thread's top root when that root has no active frame and the frame no root;
   only deactivated while it is the active frame of the current root (i.e. by the root - hence the
   thread - that activated it); a root is only destroyed as the current root with no active frame *)
Theorem C20_no_assert_fires : forall (pars : list (option nat)) (progs : list (list act)) (sched : list nat),
  let c := run step sched (init pars progs, []) in
  failed (fst c) = false /\ count is_assert (snd c) = 0.
Proof. exact no_assert_fires. Qed.
Print Assumptions C20_no_assert_fires.

(* on every thread, at every moment, the chain of roots reachable from the thread-local current root
   is exactly the list of the thread's open brackets, innermost first *)
Theorem C20_root_chain_is_open_brackets :
  forall (pars : list (option nat)) (progs : list (list act)) (sched : list nat) (t : nat),
  let s := fst (run step sched (init pars progs, [])) in
  t < nthreads s -> linked s (cur s t) (pending_roots (conts s t)).
Proof. exact root_chain_is_open_brackets. Qed.
Print Assumptions C20_root_chain_is_open_brackets.

(* roots restored: when every thread has finished its run, every thread's current root is what it was
   before (none), every root that was created has been destroyed and none has an active frame *)
Theorem C20_roots_restored : forall (pars : list (option nat)) (progs : list (list act)) (sched : list nat),
  let s := fst (run step sched (init pars progs, [])) in
  quiescent s = true ->
  (forall t, t < nthreads s -> cur s t = None) /\
  (forall r, r_live (roots s r) = false /\ r_top (roots s r) = None).
Proof. exact roots_restored. Qed.
Print Assumptions C20_roots_restored.

(* balanced: per (root, frame), activations = deactivations + (1 if the frame is that root's active frame
   right now); at quiescence every activation has been matched by exactly as many deactivations on the same root *)
Theorem C20_balanced : forall (pars : list (option nat)) (progs : list (list act)) (sched : list nat) (r f : nat),
  let c := run step sched (init pars progs, []) in
  count (is_act r f) (snd c) = count (is_deact r f) (snd c) + active (fst c) r f.
Proof. exact balanced. Qed.
Print Assumptions C20_balanced.

Theorem C20_balanced_at_quiescence :
  forall (pars : list (option nat)) (progs : list (list act)) (sched : list nat),
  let c := run step sched (init pars progs, []) in
  quiescent (fst c) = true ->
  forall r f, count (is_act r f) (snd c) = count (is_deact r f) (snd c).
Proof. exact balanced_at_quiescence. Qed.
Print Assumptions C20_balanced_at_quiescence.

(* the async_trace claim for frames: once an operation's frame has been activated, following the parent
   links from it lists the frames of its ancestors in the op tree, leaf to root *)
Theorem C20_chain_reaches_root :
  forall (pars : list (option nat)) (progs : list (list act)) (sched : list nat) (n : nat),
  par_ok pars ->
  let s := fst (run step sched (init pars progs, [])) in
  started s n = true ->
  chain s (S n) n = anc (fun m => nth m pars None) (S n) n.
Proof. exact chain_reaches_root. Qed.
Print Assumptions C20_chain_reaches_root.

(* while operation n completes, the temporary frame of its completion bracket continues with the parent of
   the frame of the operation that receives the completion *)
Theorem C20_copies_chain_to_grandparent :
  forall (pars : list (option nat)) (progs : list (list act)) (sched : list nat),
  Forall (copy_ok (fun n => nth n pars None)) (snd (run step sched (init pars progs, []))).
Proof. exact copies_chain_to_grandparent. Qed.
Print Assumptions C20_copies_chain_to_grandparent.

(* NOT a property of the code: "at quiescence no frame names a root".  ensureFrameDeactivated clears the
   root's topFrame but - on purpose, the frame may be dead - not the frame's cached stackRoot: a pending
   operation's frame keeps pointing at the destroyed ScopedAsyncStackRoot of its start() bracket. *)
Theorem C20_stackroot_cache_cleared_refuted :
  exists (pars : list (option nat)) (progs : list (list act)) (sched : list nat) (n r : nat),
  let s := fst (run step sched (init pars progs, [])) in
  quiescent s = true /\ f_root (frames s n) = Some r /\ r_live (roots s r) = false.
Proof.
  exists [None], [[AStart 0 [AObs 0]]], [0;0;0;0;0;0;0;0], 0, 0. vm_compute. auto.
Qed.
Print Assumptions C20_stackroot_cache_cleared_refuted.

(* ---- the hypotheses are met by concrete non-trivial runs: the generator on
        sync_wait(let_value(just, then(when_all(leaf 0, leaf 1)))) with both leaves completed from a
        second thread; every schedule reaches quiescence, here round robin ------------------------- *)
Definition ex_e := XSeq XInl (XUn (XPar (XLeaf 0) (XLeaf 1))).
Definition ex_g := gen ex_e true 2 [(1, 1); (0, 1)].
Definition ex_sched := concat (repeat [0; 1] 120).
Example C20_ex_quiescent :
  let c := run step ex_sched (init (fst ex_g) (snd ex_g), []) in
  quiescent (fst c) = true /\ failed (fst c) = false /\ nroots (fst c) = 13 /\
  count (fun e => match e with EActivate _ _ => true | _ => false end) (snd c) = 13.
Proof. vm_compute. auto. Qed.
Example C20_ex_chain :
  let s := fst (run step ex_sched (init (fst ex_g) (snd ex_g), [])) in
  started s 5 = true /\ chain s 6 5 = [5; 4; 3; 1; 0].
Proof. vm_compute. auto. Qed.
Example C20_ex_par_ok : par_ok (fst ex_g).
Proof.
  assert (E : fst ex_g = [None; Some 0; Some 1; Some 1; Some 3; Some 4; Some 4]) by (vm_compute; reflexivity).
  rewrite E. intros n p H.
  do 7 (destruct n as [|n]; [simpl in H; try discriminate; inversion H; auto with arith|]).
  simpl in H. destruct n; discriminate.
Qed.
(* mid-run: thread 0 inside the start cascade has 7 nested roots (sync_wait, 4 start brackets, just's completion bracket, ...) *)
Example C20_ex_midrun :
  let s := fst (run step (repeat 0 24) (init (fst ex_g) (snd ex_g), [])) in
  length (root_chain s 20 (cur s 0)) = 7.
Proof. vm_compute. auto. Qed.
