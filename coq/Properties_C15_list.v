(* C15 / C16 - the link-level atomic_intrusive_list under v2::async_mutex and
   v2::async_manual_reset_event (model AtomicList; see the header of Proto/AtomicListDefs.v for the
   protocol, the linearisation points and the guarantee of empty()).
   PER INSTANCE (complete reachable set computed and proved closed inside Coq, every schedule of
   the 14 programs in AtomicListProofs.instances; NOT for all programs): structure, accounting,
   refinement, progress.  The parametric statements are kept in AtomicListProofs.v (summary).
   FOR ALL programs / sizes / schedules: the refutations below are witnesses; lock discipline and
   ghost erasure are parametric. *)
From Coq Require Import List Bool Arith.
From V Require Import Base.Sched Proto.AtomicListDefs Proto.AtomicListProofs.
Import ListNotations.
Import AtomicList.

Theorem C15_list_structure_partial : forall i, In i instances -> forall sched,
  struct_ok (fst (run step sched (inst_init i, []))) = true.
Proof. exact structure_partial. Qed.
Print Assumptions C15_list_structure_partial.

Theorem C15_list_accounting_partial : forall i, In i instances -> forall sched,
  account_ok (fst (run step sched (inst_init i, []))) = true.
Proof. exact accounting_partial. Qed.
Print Assumptions C15_list_accounting_partial.

Theorem C15_list_refinement_partial : forall i, In i instances -> forall sched,
  refine_ok (fst (run step sched (inst_init i, []))) = true.
Proof. exact refinement_partial. Qed.
Print Assumptions C15_list_refinement_partial.

Theorem C15_list_progress_partial : forall i, In i instances -> forall sched,
  progress_ok (fst (run step sched (inst_init i, []))) = true.
Proof. exact progress_partial. Qed.
Print Assumptions C15_list_progress_partial.

(* parametric: all numbers of nodes and threads, all programs, all schedules *)
Theorem C15_list_lock_discipline : forall nn progs sched,
  let s := fst (run step sched (init nn progs, [])) in
  (forall k u, link_lock s k = Some u -> u < length (thr s) /\ In k (held u (tpc (cur s u)))) /\
  (forall u, u < length (thr s) ->
     NoDup (held u (tpc (cur s u))) /\
     forall k, In k (held u (tpc (cur s u))) -> valid_link s k = true /\ link_lock s k = Some u).
Proof. exact lock_discipline. Qed.
Print Assumptions C15_list_lock_discipline.

Theorem C15_list_lock_exclusive_all : forall nn progs sched,
  let s := fst (run step sched (init nn progs, [])) in
  forall t u k, t < length (thr s) -> u < length (thr s) ->
    In k (held t (tpc (cur s t))) -> In k (held u (tpc (cur s u))) -> t = u.
Proof. exact lock_exclusive. Qed.
Print Assumptions C15_list_lock_exclusive_all.

(* parametric: the specification ghosts are erasable *)
Theorem C15_list_ghosts_erasable : forall sched a b tr,
  erase a = erase b ->
  erase (fst (run step sched (a, tr))) = erase (fst (run step sched (b, tr))) /\
  snd (run step sched (a, tr)) = snd (run step sched (b, tr)).
Proof. exact run_erase. Qed.
Print Assumptions C15_list_ghosts_erasable.

Theorem C15_list_lock_exclusive : forall s t u k,
  locks_ok s = true -> t < length (thr s) -> u < length (thr s) ->
  In k (held t (tpc (cur s t))) -> In k (held u (tpc (cur s u))) -> t = u.
Proof. exact locks_ok_exclusive. Qed.
Print Assumptions C15_list_lock_exclusive.

Theorem C15_list_no_access_after_hand_back_refuted :
  exists nn progs sched, uaf (final nn progs sched) = true /\ crash (final nn progs sched) = false.
Proof. exact no_access_after_hand_back_refuted. Qed.
Print Assumptions C15_list_no_access_after_hand_back_refuted.

Theorem C16_list_no_access_after_hand_back_refuted :
  exists sched, uaf (final 2 [[F 1; F 0; D]; [R 1]] sched) = true.
Proof. exact no_access_after_hand_back_refuted_event. Qed.
Print Assumptions C16_list_no_access_after_hand_back_refuted.

Theorem C15_list_empty_linearizable_refuted :
  exists sched,
    let s := final 2 [[B 0]; [B 1; E]] sched in
    cur s 1 = {| prog := [E]; tpc := PIdle; t_lin := None |} /\
    In 1 (chain_nodes s 0) /\ In 1 (abs s 0) /\
    exists s', step 1 s = Some (s', [ELdLink (LHead 0) (PSent 0) true; ERet (RBool true)]) /\ embad s' = false.
Proof. exact empty_linearizable_refuted. Qed.
Print Assumptions C15_list_empty_linearizable_refuted.

Theorem C15_list_try_lock_checking_aba_outside_interface :
  exists sched,
    let s := final 1 [[B 0]; [D; U; D]] sched in
    quiescent s = true /\ crash s = false /\
    l_alatch (lst s 0) = true /\ l_head (lst s 0) = PNode 0 /\ l_lself (lst s 0) = Some (LHead 0).
Proof. exact try_lock_checking_aba_outside_interface. Qed.
Print Assumptions C15_list_try_lock_checking_aba_outside_interface.

(* the hypotheses are met by non-trivial runs *)
Example C15_list_run_mutex :
  let s := final 3 [[B 0; B 1]; [R 1; P]; [B 2; R 0]] [0;0;0;0;0;0;0;0;0;2;2;2;0;0;0;2;2;0;0;1;0;0;0;0;2;2;2;2;2;1;1;1;1;1;1;1;1;1;1;1;1;1;1;1;1;1;2;2;2;2;2;2;2;2;2;2;2;2;2;2] in
  quiescent s = true /\ linbad s = false.
Proof. vm_compute. split; reflexivity. Qed.
