(* C13 (concurrent half, part 2): the race protocol of unifex::take_until -- model
   Proto/TakeUntilDefs.v, proofs Proto/TakeUntilProofs.v.  Every theorem quantifies over the
   parameters (p_fixed: the code before / after the repair of finding 2; p_stop: a thread
   requests stop on the consumer's stop source) and over ALL schedules (any length, any thread
   ids), hence over any number of elements, any outcome of every source / trigger / cleanup
   completion and every timing of the trigger and of the stop request. *)
From Coq Require Import List Bool Arith.
From V Require Import Base.Sched Proto.TakeUntilDefs Proto.TakeUntilProofs.
Import ListNotations.
Import TakeUntil.

Theorem C13_takeuntil_elements_exact : forall p sched,
  let c := run step sched (init p, []) in
  cons_kinds (snd c) ++ hold (fst c) = src_kinds (snd c) /\
  (quiescent (fst c) = true -> cons_kinds (snd c) = src_kinds (snd c)).
Proof. exact elements_exact. Qed.
Print Assumptions C13_takeuntil_elements_exact.

Theorem C13_takeuntil_consumer_protocol : forall p sched,
  let c := run step sched (init p, []) in
  cons_run QIdle (snd c) = Some (aut_of (fst c)) /\
  (quiescent (fst c) = true -> cons_run QIdle (snd c) = Some QFin).
Proof. exact consumer_protocol. Qed.
Print Assumptions C13_takeuntil_consumer_protocol.

Theorem C13_takeuntil_cleanup_ops_constructed_once : forall p sched,
  let s := final p sched in
  cons_cl_ctor (g s) <= 1 /\ src_cl_ctor (g s) <= 1 /\ trg_cl_ctor (g s) <= 1 /\ cl_compl (g s) <= 1 /\
  (finished (g s) = true <-> cl_compl (g s) = 1) /\
  (quiescent s = true -> cons_cl_ctor (g s) = 1 /\ src_cl_ctor (g s) = 1 /\ trg_cl_ctor (g s) = 1 /\ cl_compl (g s) = 1).
Proof. exact cleanup_ops_constructed_once. Qed.
Print Assumptions C13_takeuntil_cleanup_ops_constructed_once.

Theorem C13_takeuntil_both_cleanups_destroyed_once : forall p sched,
  let s := final p sched in
  p_fixed p = true ->
  bad_dtor (g s) = false /\ src_cl_dtor (g s) <= 1 /\ trg_cl_dtor (g s) <= 1 /\
  (quiescent s = true ->
     src_cl_dtor (g s) = 1 /\ trg_cl_dtor (g s) = 1 /\ src_cl (g s) = LDead /\ trg_cl (g s) = LDead).
Proof. exact both_cleanups_destroyed_once. Qed.
Print Assumptions C13_takeuntil_both_cleanups_destroyed_once.

Theorem C13_takeuntil_cleanup_after_children : forall p sched,
  let s := final p sched in
  p_fixed p = true ->
  (finished (g s) = true ->
     src_cl (g s) = LDead /\ trg_cl (g s) = LDead /\ trg_next (g s) = LDead /\ src_next (g s) = LDead /\
     cons_next (g s) = false /\ src_cl_pend (g s) = false /\ trg_cl_pend (g s) = false) /\
  (src_cl (g s) <> LNone -> src_next (g s) = LDead /\ cons_next (g s) = false) /\
  (trg_cl (g s) <> LNone -> trg_next (g s) = LDead /\ src_cl (g s) <> LNone) /\
  ord_bad (g s) = false.
Proof. exact cleanup_after_children. Qed.
Print Assumptions C13_takeuntil_cleanup_after_children.

Theorem C13_takeuntil_trigger_cleanup_started_by_exactly_one : forall p sched,
  let s := final p sched in
  (tc_a (g s) = true -> tc_b (g s) = true -> False) /\
  trg_cl_ctor (g s) = bn (tc_a (g s)) + bn (tc_b (g s)) /\
  (quiescent s = true -> tc_a (g s) = true \/ tc_b (g s) = true).
Proof. exact trigger_cleanup_started_by_exactly_one. Qed.
Print Assumptions C13_takeuntil_trigger_cleanup_started_by_exactly_one.

Theorem C13_takeuntil_consumer_completed_by_exactly_one : forall p sched,
  let s := final p sched in
  (fin_src (g s) = true -> fin_trg (g s) = true -> False) /\
  cl_compl (g s) = bn (fin_src (g s)) + bn (fin_trg (g s)) /\
  (quiescent s = true -> fin_src (g s) = true \/ fin_trg (g s) = true).
Proof. exact consumer_completed_by_exactly_one. Qed.
Print Assumptions C13_takeuntil_consumer_completed_by_exactly_one.

Theorem C13_takeuntil_trace_counts : forall p sched,
  let c := run step sched (init p, []) in
  count is_conscl (snd c) = cl_compl (g (fst c)) /\
  count is_srcclctor (snd c) = src_cl_ctor (g (fst c)) /\
  count is_trgclctor (snd c) = trg_cl_ctor (g (fst c)) /\
  count is_trgclstart (snd c) = trg_cl_ctor (g (fst c)) /\
  count is_srccldtor (snd c) = src_cl_dtor (g (fst c)) /\
  count is_trgcldtor (snd c) = trg_cl_dtor (g (fst c)).
Proof. exact trace_counts. Qed.
Print Assumptions C13_takeuntil_trace_counts.

Theorem C13_takeuntil_cleanup_result : forall p sched,
  let c := run step sched (init p, []) in
  forall r, In (EConsCl r) (snd c) -> finished (g (fst c)) = true /\ r = expected_res (fst c).
Proof. exact cleanup_result. Qed.
Print Assumptions C13_takeuntil_cleanup_result.

Theorem C13_takeuntil_no_use_after_destroy : forall p sched,
  let s := final p sched in
  p_fixed p = true -> uaf (g s) = false /\ dup (g s) = false /\ c_stale (g s) = false.
Proof. exact no_use_after_destroy. Qed.
Print Assumptions C13_takeuntil_no_use_after_destroy.

Theorem C13_takeuntil_trace_no_access_after_stream_destroyed : forall p sched,
  p_fixed p = true -> trace_safe (snd (run step sched (init p, []))) = true.
Proof. exact trace_no_access_after_stream_destroyed. Qed.
Print Assumptions C13_takeuntil_trace_no_access_after_stream_destroyed.

Theorem C13_takeuntil_progress : forall p sched,
  let s := final p sched in
  p_fixed p = true -> quiescent s = false -> exists t, step t s <> None.
Proof. exact progress. Qed.
Print Assumptions C13_takeuntil_progress.

(* the code as written before e46f32d (DESIGN.md section 8, finding 2) *)
Theorem C13_takeuntil_both_cleanups_destroyed_once_refuted :
  exists sched,
    let c := run step sched (init p_finding2, []) in
    quiescent (fst c) = true /\ bad_dtor (g (fst c)) = true /\
    src_cl_dtor (g (fst c)) = 2 /\ trg_cl_dtor (g (fst c)) = 0 /\ trg_cl (g (fst c)) = LRun /\
    In (ESrcClDtor false) (snd c) /\ count is_srccldtor (snd c) = 2 /\ count is_trgcldtor (snd c) = 0.
Proof. exact both_cleanups_destroyed_once_refuted. Qed.
Print Assumptions C13_takeuntil_both_cleanups_destroyed_once_refuted.

Theorem C13_takeuntil_cleanup_completes_refuted :
  exists sched,
    let c := run step sched (init p_finding2, []) in
    finished (g (fst c)) = false /\ uaf (g (fst c)) = true /\
    (forall t, step t (fst c) = None) /\
    In EViolOutstanding (snd c) /\ In ESrcClCompleteBad (snd c).
Proof. exact cleanup_completes_refuted. Qed.
Print Assumptions C13_takeuntil_cleanup_completes_refuted.

(* the hypotheses are met by concrete non-trivial runs *)
Definition p_ex1 : params := {| p_fixed := true; p_stop := false |}.
(* two values, then done; the trigger fires after the consumer asked for cleanup *)
Definition sched_ex1 : list nat := [0;0;0; 1;1;1;1;1; 1;1;1;1;1; 2;2;2;2;2;2;2;2; 4;4;4; 6;6; 7;7].
Example ex1_quiescent :
  let c := run step sched_ex1 (init p_ex1, []) in
  quiescent (fst c) = true /\ cons_kinds (snd c) = [KV; KV; KD] /\ src_kinds (snd c) = [KV; KV; KD] /\
  fin_trg (g (fst c)) = true /\ tc_b (g (fst c)) = true /\
  src_cl_dtor (g (fst c)) = 1 /\ trg_cl_dtor (g (fst c)) = 1.
Proof. vm_compute. repeat split. Qed.

Definition p_ex2 : params := {| p_fixed := true; p_stop := true |}.
(* a stop request pops the first next-op's callback and runs it while A completes that next
   with a value: A waits for callbackCompleted_, the second next-op sees stop and runs its
   callback inline; the trigger fires before the source ends with an error; the trigger cleanup
   (started by cleanup start) fails, then the source cleanup fails: its error is preferred *)
Definition sched_ex2 : list nat :=
  [0;0;0; 9;9; 1;1;1; 9;9;9; 1;1;1; 9;9; 6;6;6;6; 3;3;3; 8;8;8; 5;5].
Example ex2_quiescent :
  let c := run step sched_ex2 (init p_ex2, []) in
  quiescent (fst c) = true /\ cons_kinds (snd c) = [KV; KE] /\ In (EConsCl CErrSrc) (snd c) /\
  In ECbWait (snd c) /\ In (EExtObs false) (snd c) /\
  tc_a (g (fst c)) = true /\ fin_src (g (fst c)) = true /\ uaf (g (fst c)) = false.
Proof. vm_compute. repeat split; auto 80. Qed.
