(* C08 - async_scope join completes only after all nested work has finished.
   Model: Proto/ScopeDefs.v (Scope: n scope_references, j closer/joiner threads with programs over
   JClose / JStop / JWait / JSync / JDone; strict = true is the end_scope of the code, strict = false
   the one it had before the fix).  init strict plans progs; all theorems for all plans, programs
   and schedules. *)
From Coq Require Import ZArith List Bool.
From V Require Import Base.Sched Proto.ScopeDefs Proto.ScopeProofs.
Import ListNotations.
Import Scope.
Local Open Scope Z_scope.

(* join_safe: the event is set (or someone is about to set it) only when the scope is closed and
   the count is zero: opState_ = 0, no reference is outstanding. *)
Theorem C08_join_safe : forall (b : bool) (plans : list plan) (progs : list (list jop)) (sched : list nat),
  let s := fst (run step sched (init b plans progs, [])) in
  evt s = true \/ (0 < pending s)%nat ->
  w s = 0 /\ forall i pl pc, nth_error (sps s) i = Some (pl, pc) -> holds pc = false.
Proof. exact join_safe. Qed.
Print Assumptions C08_join_safe.

(* join_live: closed and count zero and nobody between its RMW and its set => the event is set *)
Theorem C08_join_live : forall (b : bool) (plans : list plan) (progs : list (list jop)) (sched : list nat),
  let s := fst (run step sched (init b plans progs, [])) in
  w s = 0 -> pending s = O -> evt s = true.
Proof. exact join_live. Qed.
Print Assumptions C08_join_live.

(* no join completes before the scope is closed and every admitted reference has been released
   (a reference is released after its nested work completed, or when its unstarted sender is
   dropped) *)
Theorem C08_join_after_work : forall (b : bool) (plans : list plan) (progs : list (list jop)) (sched : list nat),
  Forall wf_prog progs ->
  let s := fst (run step sched (init b plans progs, [])) in
  joined s <> [] ->
  evt s = true /\ w s = 0 /\
  forall i pl pc, nth_error (sps s) i = Some (pl, pc) -> holds pc = false.
Proof. exact join_after_work. Qed.
Print Assumptions C08_join_after_work.

(* exactly once: the completions of joiner j plus the JDone instructions it still has to run is the
   number of JDone instructions of its program, always *)
Theorem C08_join_count : forall (b : bool) (plans : list plan) (progs : list (list jop)) (sched : list nat),
  Forall wf_prog progs ->
  let s := fst (run step sched (init b plans progs, [])) in
  forall j, (count_occ Nat.eq_dec (joined s) j + ndone (prog_of s j) = ndone (nth j progs []))%nat.
Proof. exact join_count. Qed.
Print Assumptions C08_join_count.

Theorem C08_join_once : forall (b : bool) (plans : list plan) (progs : list (list jop)) (sched : list nat),
  Forall wf_prog progs -> (forall p, In p progs -> (ndone p <= 1)%nat) ->
  let s := fst (run step sched (init b plans progs, [])) in
  NoDup (joined s).
Proof. exact join_once. Qed.
Print Assumptions C08_join_once.

(* no deadlock: when no thread can move every reference is finished and every closer/joiner has
   run its whole program; then every join instruction has been executed exactly once *)
Theorem C08_no_deadlock : forall (b : bool) (plans : list plan) (progs : list (list jop)) (sched : list nat),
  Forall wf_prog progs ->
  let s := fst (run step sched (init b plans progs, [])) in
  (forall t, step t s = None) -> quiescent s = true.
Proof. exact no_deadlock. Qed.
Print Assumptions C08_no_deadlock.

Theorem C08_quiescent_joined : forall (b : bool) (plans : list plan) (progs : list (list jop)) (sched : list nat),
  Forall wf_prog progs ->
  let s := fst (run step sched (init b plans progs, [])) in
  quiescent s = true ->
  forall j, count_occ Nat.eq_dec (joined s) j = ndone (nth j progs []).
Proof. exact quiescent_joined. Qed.
Print Assumptions C08_quiescent_joined.

(* admission: the word counts exactly the admitted, not yet released references *)
Theorem C08_counted : forall (b : bool) (plans : list plan) (progs : list (list jop)) (sched : list nat),
  let s := fst (run step sched (init b plans progs, [])) in
  w s = 2 * Z.of_nat (holders s) + Z.b2z (Z.odd (w s)) /\ 0 <= w s.
Proof. exact counted. Qed.
Print Assumptions C08_counted.

(* a try_record_start that succeeds does so while the scope is open, and adds one reference *)
Theorem C08_admit_while_open :
  forall (b : bool) (plans : list plan) (progs : list (list jop)) (sched : list nat)
         (t : nat) (s' : st) (evs : list ev) (o d : Z),
  let s := fst (run step sched (init b plans progs, [])) in
  step t s = Some (s', evs) -> In (ECas o d true) evs ->
  Z.odd (w s) = true /\ w s = o /\ d = o + 2 /\ w s' = w s + 2 /\ holders s' = S (holders s).
Proof. exact admit_while_open. Qed.
Print Assumptions C08_admit_while_open.

(* the close is final *)
Theorem C08_closed_stable : forall (b : bool) (plans : list plan) (progs : list (list jop)) (sched1 sched2 : list nat),
  let s1 := fst (run step sched1 (init b plans progs, [])) in
  let s2 := fst (run step (sched1 ++ sched2) (init b plans progs, [])) in
  Z.even (w s1) = true -> Z.even (w s2) = true.
Proof. exact closed_stable. Qed.
Print Assumptions C08_closed_stable.

(* a try_record_start still under way when the scope is closed fails at its next step *)
Theorem C08_closed_rejects :
  forall (b : bool) (plans : list plan) (progs : list (list jop)) (sched : list nat)
         (i : nat) (pl : plan) (pc : spc) (s' : st) (evs : list ev),
  let s := fst (run step sched (init b plans progs, [])) in
  Z.even (w s) = true -> nth_error (sps s) i = Some (pl, pc) ->
  pc = SLoad \/ (exists o, pc = SCas o) ->
  step i s = Some (s', evs) ->
  nth_error (sps s') i = Some (pl, after_reject pl) /\ w s' = w s.
Proof. exact closed_rejects. Qed.
Print Assumptions C08_closed_rejects.

(* nested work is started only by an admitted reference; a rejected one never starts its work *)
Theorem C08_start_only_admitted : forall (b : bool) (plans : list plan) (progs : list (list jop)) (sched : list nat),
  let c := run step sched (init b plans progs, []) in
  forall i, In (ENestStart i) (snd c) ->
    exists pl pc, nth_error (sps (fst c)) i = Some (pl, pc) /\ started pc = true.
Proof. exact start_only_admitted. Qed.
Print Assumptions C08_start_only_admitted.

Theorem C08_rejected_never_starts :
  forall (b : bool) (plans : list plan) (progs : list (list jop)) (sched : list nat)
         (i : nat) (pl : plan) (pc : spc),
  let c := run step sched (init b plans progs, []) in
  nth_error (sps (fst c)) i = Some (pl, pc) -> pc = SRejected \/ pc = SFin false ->
  ~ In (ENestStart i) (snd c).
Proof. exact rejected_never_starts. Qed.
Print Assumptions C08_rejected_never_starts.

(* Once the event is set - a fortiori once a join has completed - nobody is between its RMW on
   opState_ and an evt_.set(): the scope's memory will not be touched again by a completing
   operation or by a closer.  Holds for the end_scope of the code (strict), and also for the one
   it had before provided the whole program closes the scope at most once. *)
Theorem C08_release_safe : forall (b : bool) (plans : list plan) (progs : list (list jop)) (sched : list nat),
  b = true \/ (sumf nclose progs <= 1)%nat ->
  let s := fst (run step sched (init b plans progs, [])) in
  evt s = true ->
  pending s = O /\ someone_setting s = false /\
  (forall j x, nth_error (jns s) j = Some x -> jmode_ x <> JPend).
Proof. exact release_safe. Qed.
Print Assumptions C08_release_safe.

Theorem C08_release_safe_joined : forall (b : bool) (plans : list plan) (progs : list (list jop)) (sched : list nat),
  Forall wf_prog progs -> b = true \/ (sumf nclose progs <= 1)%nat ->
  let s := fst (run step sched (init b plans progs, [])) in
  joined s <> [] -> someone_setting s = false /\
  (forall j x, nth_error (jns s) j = Some x -> jmode_ x <> JPend).
Proof. exact release_safe_joined. Qed.
Print Assumptions C08_release_safe_joined.

(* The end_scope as it was written before the fix (strict = false) violates that: v1 cleanup()
   alone (request_stop() then join(): two closes), or two racing join()s, let every join complete
   while a completing operation is still about to call evt_.set() on the scope.  Both witnesses
   were replayed on the real code (k1_scope_v1 `s k`, k1_scope `s jj`). *)
Theorem C08_release_as_written_refuted_cleanup :
  exists sched, hazard (fst (run step sched (init false [PDetach] [prog_v1_cleanup], []))).
Proof. exact release_as_written_refuted_cleanup. Qed.
Print Assumptions C08_release_as_written_refuted_cleanup.

Theorem C08_release_as_written_refuted_two_joins :
  exists sched, hazard (fst (run step sched (init false [PStart] [prog_join; prog_join], []))).
Proof. exact release_as_written_refuted_two_joins. Qed.
Print Assumptions C08_release_as_written_refuted_two_joins.

(* ---- the hypotheses are met by concrete, non-trivial runs ---- *)
Example C08_std_programs_wf :
  wf_prog prog_join /\ wf_prog prog_v1_cleanup /\ wf_prog prog_request_stop /\
  wf_prog prog_v0_complete /\ wf_prog prog_v0_cleanup.
Proof. exact std_progs_wf. Qed.

(* strict: two references, v1 cleanup racing a plain join; the run ends quiescent, both joins
   completed once, event set, word 0 *)
Example C08_run_cleanup_and_join :
  let s := fst (run step [0;0;0; 2; 1; 2; 3; 0;0; 2;2; 3; 0; 2; 3]%nat
                    (init true [PStart; PDetach] [prog_v1_cleanup; prog_join], [])) in
  quiescent s = true /\ joined s = [1; 0]%nat /\ evt s = true /\ w s = 0 /\ stopped s = true.
Proof. vm_compute. repeat split. Qed.

(* strict: the schedule that breaks the as-written variant is harmless: the second close does not
   set the event, the join waits for the completing reference's set *)
Example C08_run_strict_cleanup_witness :
  let s := fst (run step [0;0;0;0; 1;1; 0; 1;1;1;1]%nat (init true [PDetach] [prog_v1_cleanup], [])) in
  joined s = [] /\ someone_setting s = true /\ evt s = false /\
  let s2 := fst (run step [0; 1]%nat (s, [])) in
  quiescent s2 = true /\ joined s2 = [0]%nat.
Proof. vm_compute. repeat split. Qed.

(* a nest after the close is rejected and completes with done without starting its work *)
Example C08_run_late_nest :
  let c := run step [1;1;1;1; 0;0]%nat (init true [PStart] [prog_join], []) in
  snd c = [EAnd 1; ESet; EWait true; EResume 0; EJoinDone 0; ELoad 0; ENestDone 0] /\
  quiescent (fst c) = true.
Proof. vm_compute. repeat split. Qed.
