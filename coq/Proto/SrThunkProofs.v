(* Proofs about SrThunk: for every schedule the continuation is resumed at most once, exactly once when
   nothing is in flight, never before the task completed nor before a started deferred stop request ran;
   the "fetch_add read zero" bail-out of the callback is unreachable (the callback is deregistered before
   the completion decrements). *)
From Coq Require Import ZArith List Bool Lia.
From V Require Import Base.Sched Proto.SrThunkDefs.
Import ListNotations.
Import SrThunk.
Local Open Scope Z_scope.

Definition b2z (b : bool) : Z := if b then 1 else 0.
Definition added (p : cbpc) : Z := match p with CbAdded | CbDone => 1 | _ => 0 end.

Definition Inv (s : st) : Prop :=
  rc s = 1 + added (cb s) - b2z (cp_done s) - b2z (ds_done s) /\
  cb s <> CbBail /\
  (ds_done s = true -> cb s = CbDone) /\
  dereg s = cp_done s /\
  (cb s = CbAdded -> cp_done s = false) /\
  length (resumed s) = (if (rc s =? 0)%Z then 1%nat else 0%nat).

Lemma inv_init : Inv init.
Proof. unfold Inv, init; simpl. repeat split; auto; try discriminate. Qed.

Lemma inv_step : forall s t s' evs, Inv s -> step t s = Some (s', evs) -> Inv s'.
Proof.
  intros s t s' evs (I1 & I2 & I3 & I4 & I5 & I6) H.
  destruct s as [r c d ds cp res]; simpl in *.
  assert (Hr : r = 0 \/ r = 1 \/ r = 2 \/ r = 3) by (destruct c, ds, cp; simpl in *; try (specialize (I3 eq_refl); discriminate); lia).
  destruct t as [|[|[|t]]]; simpl in H; try discriminate;
    destruct c, d, ds, cp; simpl in *; try discriminate;
    try (exfalso; apply I2; reflexivity); try (specialize (I3 eq_refl); discriminate);
    try (specialize (I5 eq_refl); discriminate);
    destruct Hr as [ -> | [ -> | [ -> | -> ] ] ]; simpl in *; try lia;
    inversion H; subst; clear H; unfold Inv; simpl;
    repeat split; auto; try discriminate; try lia; try congruence.
Qed.

Lemma inv_run : forall sched, Inv (fst (run step sched (init, []))).
Proof. intros. apply (run_invariant_state _ _ _ step Inv inv_step). simpl. apply inv_init. Qed.

Theorem exactly_one_resumer : forall sched : list nat,
  let s := fst (run step sched (init, [])) in
  (length (resumed s) <= 1)%nat /\ (quiescent s = true -> length (resumed s) = 1%nat).
Proof.
  intros. destruct (inv_run sched) as (I1 & I2 & I3 & I4 & I5 & I6). fold s in I1, I2, I3, I4, I5, I6.
  split.
  - rewrite I6. destruct (rc s =? 0); lia.
  - unfold quiescent. intros Hq. apply andb_true_iff in Hq. destruct Hq as [Hcp Hq].
    rewrite I6. rewrite Hcp in I1. simpl in I1.
    destruct (cb s) eqn:Ecb; simpl in *; try discriminate.
    + destruct (ds_done s) eqn:Eds; [specialize (I3 eq_refl); discriminate|]. simpl in I1.
      assert (rc s = 0) by lia. rewrite H. reflexivity.
    + rewrite Hq in I1. simpl in I1. assert (rc s = 0) by lia. rewrite H. reflexivity.
    + exfalso. apply I2. reflexivity.
Qed.

Theorem not_resumed_early : forall sched : list nat,
  let s := fst (run step sched (init, [])) in
  resumed s <> [] -> cp_done s = true /\ (cb s = CbIdle \/ (cb s = CbDone /\ ds_done s = true)).
Proof.
  intros. destruct (inv_run sched) as (I1 & I2 & I3 & I4 & I5 & I6). fold s in I1, I2, I3, I4, I5, I6.
  assert (Hrc : rc s = 0).
  { destruct (rc s =? 0) eqn:E; [apply Z.eqb_eq in E; auto|]. destruct (resumed s); [congruence|discriminate]. }
  destruct (cp_done s) eqn:Ecp, (ds_done s) eqn:Eds, (cb s) eqn:Ecb; simpl in *; try lia;
    try (specialize (I3 eq_refl); discriminate); try (exfalso; apply I2; reflexivity); auto.
Qed.

Theorem bail_unreachable : forall sched : list nat, cb (fst (run step sched (init, []))) <> CbBail.
Proof. intros. destruct (inv_run sched) as (_ & I2 & _). exact I2. Qed.

(* the trace shows the resumptions *)
Definition is_root (e : ev) : bool := match e with ERoot => true | _ => false end.
Theorem trace_roots : forall sched : list nat,
  let c := run step sched (init, []) in
  length (filter is_root (snd c)) = length (resumed (fst c)).
Proof.
  intros. subst c.
  apply (run_invariant _ _ _ step (fun c => length (filter is_root (snd c)) = length (resumed (fst c)))); [|reflexivity].
  intros c t s' evs Hc Hs. simpl. rewrite filter_app, app_length, Hc.
  destruct t as [|[|[|t]]]; simpl in Hs; try discriminate.
  - destruct (cb (fst c)); try discriminate.
    + destruct (dereg (fst c)); [discriminate|]. inversion Hs; subst; simpl. lia.
    + inversion Hs; subst; simpl. lia.
  - destruct (cb (fst c)); try discriminate. destruct (ds_done (fst c)); [discriminate|].
    inversion Hs; subst; simpl. destruct (rc (fst c) =? 1); simpl; lia.
  - destruct (cp_done (fst c)); [discriminate|].
    destruct (cb (fst c)); try discriminate; inversion Hs; subst; simpl; destruct (rc (fst c) =? 1); simpl; lia.
Qed.
