(* Proofs about SrThunk: for every schedule the continuation is resumed at most once, exactly once when
   nothing is in flight, never before the task completed nor before a started deferred stop request ran;
   the "fetch_add read zero" bail-out of the callback is unreachable (the callback is deregistered before
   the completion decrements). *)
From Coq Require Import ZArith List Bool Lia.
From V Require Import Base.Sched Proto.SrThunkDefs.
Import ListNotations.
Import SrThunk.
Local Open Scope Z_scope.

Definition b2z (b : bool) : Z := if b then 1 else 0.
Definition added (p : cbpc) : Z := match p with CbAdded | CbDone => 1 | _ => 0 end.

Definition Inv (s : st) : Prop :=
  rc s = 1 + added (cb s) - b2z (cp_done s) - b2z (ds_done s) /\
  cb s <> CbBail /\
  (ds_done s = true -> cb s = CbDone) /\
  dereg s = cp_done s /\
  (cb s = CbAdded -> cp_done s = false) /\
  length (resumed s) = (if (rc s =? 0)%Z then 1%nat else 0%nat) /\
  chosen s = (if cp_done s then Some (kind s) else None).

Lemma inv_init : forall k, Inv (init k).
Proof. intros k. unfold Inv, init; simpl. repeat split; auto; try discriminate. Qed.

Lemma inv_step : forall s t s' evs, Inv s -> step t s = Some (s', evs) -> Inv s'.
Proof.
  intros s t s' evs (I1 & I2 & I3 & I4 & I5 & I6 & I7) H.
  destruct s as [r c d ds cp res kd ch]; simpl in *.
  assert (Hr : r = 0 \/ r = 1 \/ r = 2 \/ r = 3) by (destruct c, ds, cp; simpl in *; try (specialize (I3 eq_refl); discriminate); lia).
  destruct t as [|[|[|t]]]; simpl in H; try discriminate;
    destruct c, d, ds, cp; simpl in *; try discriminate;
    try (exfalso; apply I2; reflexivity); try (specialize (I3 eq_refl); discriminate);
    try (specialize (I5 eq_refl); discriminate);
    destruct Hr as [ -> | [ -> | [ -> | -> ] ] ]; simpl in *; try lia;
    inversion H; subst; clear H; unfold Inv; simpl;
    repeat split; auto; try discriminate; try lia; try congruence.
Qed.

Lemma inv_run : forall k sched, Inv (fst (run step sched (init k, []))).
Proof. intros. apply (run_invariant_state _ _ _ step Inv inv_step). simpl. apply inv_init. Qed.

Theorem exactly_one_resumer : forall (k : nat) (sched : list nat),
  let s := fst (run step sched (init k, [])) in
  (length (resumed s) <= 1)%nat /\ (quiescent s = true -> length (resumed s) = 1%nat).
Proof.
  intros. destruct (inv_run k sched) as (I1 & I2 & I3 & I4 & I5 & I6 & _). fold s in I1, I2, I3, I4, I5, I6.
  split.
  - rewrite I6. destruct (rc s =? 0); lia.
  - unfold quiescent. intros Hq. apply andb_true_iff in Hq. destruct Hq as [Hcp Hq].
    rewrite I6. rewrite Hcp in I1. simpl in I1.
    destruct (cb s) eqn:Ecb; simpl in *; try discriminate.
    + destruct (ds_done s) eqn:Eds; [specialize (I3 eq_refl); discriminate|]. simpl in I1.
      assert (rc s = 0) by lia. rewrite H. reflexivity.
    + rewrite Hq in I1. simpl in I1. assert (rc s = 0) by lia. rewrite H. reflexivity.
    + exfalso. apply I2. reflexivity.
Qed.

Theorem not_resumed_early : forall (k : nat) (sched : list nat),
  let s := fst (run step sched (init k, [])) in
  resumed s <> [] -> cp_done s = true /\ (cb s = CbIdle \/ (cb s = CbDone /\ ds_done s = true)).
Proof.
  intros. destruct (inv_run k sched) as (I1 & I2 & I3 & I4 & I5 & I6 & _). fold s in I1, I2, I3, I4, I5, I6.
  assert (Hrc : rc s = 0).
  { destruct (rc s =? 0) eqn:E; [apply Z.eqb_eq in E; auto|]. destruct (resumed s); [congruence|discriminate]. }
  destruct (cp_done s) eqn:Ecp, (ds_done s) eqn:Eds, (cb s) eqn:Ecb; simpl in *; try lia;
    try (specialize (I3 eq_refl); discriminate); try (exfalso; apply I2; reflexivity); auto.
Qed.

Theorem bail_unreachable : forall (k : nat) (sched : list nat), cb (fst (run step sched (init k, []))) <> CbBail.
Proof. intros. destruct (inv_run k sched) as (_ & I2 & _). exact I2. Qed.

(* the trace shows the resumptions *)
Definition is_root (e : ev) : bool := match e with ERoot _ => true | _ => false end.
Theorem trace_roots : forall (k : nat) (sched : list nat),
  let c := run step sched (init k, []) in
  length (filter is_root (snd c)) = length (resumed (fst c)).
Proof.
  intros. subst c.
  apply (run_invariant _ _ _ step (fun c => length (filter is_root (snd c)) = length (resumed (fst c)))); [|reflexivity].
  intros c t s' evs Hc Hs. simpl. rewrite filter_app, app_length, Hc.
  destruct t as [|[|[|t]]]; simpl in Hs; try discriminate.
  - destruct (cb (fst c)); try discriminate.
    + destruct (dereg (fst c)); [discriminate|]. inversion Hs; subst; simpl. lia.
    + inversion Hs; subst; simpl. lia.
  - destruct (cb (fst c)); try discriminate. destruct (ds_done (fst c)); [discriminate|].
    inversion Hs; subst; simpl. destruct (rc (fst c) =? 1); simpl; lia.
  - destruct (cp_done (fst c)); [discriminate|].
    destruct (cb (fst c)); try discriminate; inversion Hs; subst; simpl; destruct (rc (fst c) =? 1); simpl; lia.
Qed.

(* what is resumed is the continuation for the body's own result: the deferred stop request, when it is the last to
   finish, resumes whoToContinue_ as complete_and_choose_continuation left it - never a done continuation of its own *)
Definition root_ok (k : nat) (e : ev) : Prop := match e with ERoot x => x = Some k | _ => True end.
Lemma step_kind : forall t s s' evs, step t s = Some (s', evs) -> kind s' = kind s.
Proof.
  intros t s s' evs Hs.
  destruct t as [|[|[|t]]]; simpl in Hs; try discriminate.
  - destruct (cb s); try discriminate.
    + destruct (dereg s); [discriminate|]. inversion Hs; reflexivity.
    + inversion Hs; reflexivity.
  - destruct (cb s); try discriminate. destruct (ds_done s); [discriminate|]. inversion Hs; reflexivity.
  - destruct (cp_done s); [discriminate|]. destruct (cb s); try discriminate; inversion Hs; reflexivity.
Qed.

Lemma kind_const : forall k sched, kind (fst (run step sched (init k, []))) = k.
Proof.
  intros. apply (run_invariant_state _ _ _ step (fun s => kind s = k)); [|reflexivity].
  intros s t s' evs Hk Hs. rewrite (step_kind _ _ _ _ Hs). exact Hk.
Qed.

Theorem resumes_own_result : forall (k : nat) (sched : list nat),
  Forall (root_ok k) (snd (run step sched (init k, []))).
Proof.
  intros k sched.
  apply (run_invariant _ _ _ step (fun c => (Inv (fst c) /\ kind (fst c) = k) /\ Forall (root_ok k) (snd c)));
    [|split; [split; [apply inv_init|reflexivity]|constructor]].
  intros c t s' evs [[Hi Hk] Hf] Hs. simpl.
  assert (Hi' : Inv s') by (eapply inv_step; eauto).
  assert (Hk' : kind s' = k) by (rewrite (step_kind _ _ _ _ Hs); exact Hk).
  split; [split; assumption|].
  apply Forall_app. split; [exact Hf|].
  destruct Hi as (I1 & I2 & I3 & I4 & I5 & I6 & I7).
  clear Hi' Hk'.
  destruct t as [|[|[|t]]]; simpl in Hs; try discriminate.
  - destruct (cb (fst c)); try discriminate.
    + destruct (dereg (fst c)); [discriminate|]. inversion Hs. repeat constructor.
    + inversion Hs. repeat constructor.
  - destruct (cb (fst c)) eqn:Ecb; try discriminate. destruct (ds_done (fst c)) eqn:Eds; [discriminate|].
    inversion Hs. constructor; [exact I|].
    destruct (rc (fst c) =? 1) eqn:Erc; [|constructor].
    constructor; [|constructor]. simpl.
    apply Z.eqb_eq in Erc. simpl in I1.
    destruct (cp_done (fst c)) eqn:Ecp; simpl in I1; [|lia].
    rewrite I7. rewrite Hk. reflexivity.
  - destruct (cp_done (fst c)); [discriminate|].
    destruct (cb (fst c)); try discriminate; inversion Hs; (constructor; [exact I|]);
      destruct (rc (fst c) =? 1); repeat constructor; simpl; rewrite Hk; reflexivity.
Qed.
