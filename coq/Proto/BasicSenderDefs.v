(* E1 model BasicSender: the operation state of unifex::create_basic_sender
   (include/unifex/create_basic_sender.hpp: _state, _stop_callback, _op::start_impl,
   _op::callback_impl, _op::complete, _safe_cb_base / _callback): a recursive mutex, the phase
   word and the recursion counter under it, the events start / callback / stop delivered to the
   user's body, safe callbacks (a weak_ptr to a shared cell that the operation resets under the
   lock in every completion path) and unsafe callbacks.

   Threads: 0 = start()                  (may run the stop callback inline during registration)
            1 = the first callback       (safe or unsafe, made by the start event), thread A
            2 = a second SAFE callback   (arrives at any time after the start event)
            3 = request_stop + the stop callback, thread B
            4 = the receiver's owner     (destroys the operation once the receiver completed)

   The user's body: start event: per [first] either op.set_value() directly (FSync), or it
   invokes its own safe callback synchronously (FInl: recursion), or it hands a safe / unsafe
   callback to thread 1 (for an unsafe one the harness obeys the documented contract: the stop
   event and the callback arbitrate on a slot outside the operation so that the callback is never
   invoked after stop completed the operation), or nothing (FNone).  callback event:
   op.set_value().  stop event: op.set_done().

   Re-entrant stop requests ([breq], [restop]): the event that calls op.set_value() (the start
   event for FSync, otherwise every callback event) may itself call request_stop() on the very
   stop source the operation listens to, right after the set_value (BValStop) or right before it
   (BStopVal); the stop event may call request_stop() again (restop).  request_stop() on a source
   whose callback is registered runs _stop_callback::operator() INLINE on the requesting thread:
   the recursive mutex is re-entered (recursion_ + 1), the finished() test under the lock decides
   whether the stop event is dispatched, completed() is false in the nested frame (recursion_ > 1)
   so the result is delivered by the outermost frame only; a request on a source whose stop was
   already requested is a no-op.  The sub-machine [pn] / [stepN] is that nested request, executed
   by the thread that owns the mutex; [notifier] is notifyingThreadId_ of the source.

   The external inplace_stop_source is abstracted at its linearisation points as in
   Proto/CancellableDefs.v.  Ghost: [freed] set when the receiver is completed; every access to
   the operation (its mutex, its stop-callback object, a body event) while freed bumps [late];
   [calls] the set_value / set_done calls of the body in order (newest first), also the ignored
   ones; [badstop] the stop events dispatched in a phase other than started.
   Executable definitions only. *)
From Coq Require Import List Bool Arith.
Import ListNotations.

Module BasicSender.

Inductive fmode := FSync | FInl | FSafe | FUnsafe | FNone.
Inductive bmode := BNo | BValStop | BStopVal.
Record params := { first : fmode; second : bool; breq : bmode; restop : bool }.

Inductive outcome := OVal | ODone.
Inductive phase := PStarting | PStarted | PStoppedEarly | PCompleted.
Definition finished (x : phase) : bool :=
  match x with PStoppedEarly | PCompleted => true | _ => false end.

Inductive cbst := CbNone | CbReg | CbInline | CbRun | CbRunRm | CbDone | CbGone.
Inductive slotst := SIdle | SArmed | STaken | SRemoved.
Definition slot_val (x : slotst) : nat :=
  match x with SIdle => 0 | SArmed => 1 | STaken => 2 | SRemoved => 3 end.

(* the completion tail: _op::complete() = stop_.destruct(); receiver_.complete() *)
Inductive tail := TDereg | TDeregWait | TRoot.

(* where thread 0 issued a re-entrant request_stop from: the start event / the callback event
   that the start event invoked itself *)
Inductive r0site := R0Start | R0Inl.

Inductive pc0 :=
| B0Reg                 (* start_impl: stop_.construct (line 773) *)
| B0IAcq | B0IRel       (* the stop callback inline: lock / unlock (lines 519-529) *)
| B0Acq                 (* auto guard{lock()}; set_started (lines 777-778) *)
| B0Body                (* body(start) (line 782) *)
| B0Arm                 (* start event, unsafe callback: arm the slot *)
| B0NAcq | B0NBody | B0NRel   (* start event invokes its own safe callback: callback_impl nested *)
| B0Rq (r : r0site)     (* inside a body event: request_stop() in progress, see pn *)
| B0Rel                 (* completed(); holder reset; unlock (lines 785-789) *)
| B0Tail (t : tail)
| B0Fin.

(* a callback thread *)
Inductive pcc :=
| CCall                 (* _callback::operator(): weak_.lock() / slot CAS *)
| CAcq                  (* callback_impl: lock (line 797) *)
| CBody                 (* body(callback) *)
| CRq                   (* inside the callback event: request_stop() in progress, see pn *)
| CRelNo                (* finished at entry: unlock, return false *)
| CRel                  (* completed(); holder reset; unlock *)
| CTail (t : tail)
| CRet                  (* operator() returns: the strong reference is released *)
| CFin.

Inductive pc3 :=
| S3Set | S3Acq | S3Body | S3Re | S3Slot | S3RelNo | S3Rel | S3Tail (t : tail) | S3CbRet | S3Fin.

(* request_stop() called by a body event on the thread that holds the mutex
   (source/inplace_stop_token.cpp lines 39-74 and _stop_callback::operator(), lines 516-552) *)
Inductive pcn :=
| NIdle
| NSet                  (* try_lock_unless_stop_requested: the CAS on the source state *)
| NAcq                  (* _stop_callback: lock (recursion_ + 1); finished() / not_started() *)
| NBody                 (* body(stop) *)
| NRe                   (* the stop event calls request_stop() again *)
| NSlot                 (* stop event, unsafe callback: take the slot *)
| NRelNo                (* finished at entry: unlock, return *)
| NRel                  (* completed() (false: recursion_ > 1); unlock *)
| NCbRet.               (* callbackCompleted_.store(true) (line 64) *)

Record st := {
  mo : option nat; md : nat;          (* the recursive mutex: owner, depth (= recursion_) *)
  ph : phase;
  own : bool;                         (* safe_cb_holder_ <> nullptr *)
  refs : nat;                         (* strong references held by callbacks in flight *)
  res : option outcome;               (* the deferred result in receiver_ *)
  src : bool; cb : cbst;
  notifier : nat;                     (* notifyingThreadId_: who won request_stop *)
  slot : slotst;
  armed : bool;                       (* the start event has made its callbacks *)
  p0 : pc0; p1 : pcc; p2 : pcc; p3 : pc3;
  pn : pcn;                           (* the re-entrant request of the mutex owner *)
  h1 : bool; h2 : bool;               (* thread 1 / 2 holds a strong reference *)
  destroyed : bool;
  freed : bool;
  completions : list outcome;
  calls : list outcome;               (* ghost: the body's set_value / set_done calls *)
  nstart : nat; ncallback : nat; nstop : nat;    (* body events *)
  badstop : nat;                      (* ghost: stop events dispatched when not started / finished *)
  late : nat
}.

Inductive ev :=
| EReg (inl : bool) | ESet | ESetNo | EDereg | ECbS | ECbL
| ELock (old new : nat) | EUnlock (old new : nat)
| EBStart | EBCallback | EBStop
| ECall (i : nat) | ERet (i : nat)
| ESlotS | ESlotC (old new : nat) (ok : bool)
| ERoot (o : outcome) | EDestroyed.

Definition init (p : params) : st :=
  {| mo := None; md := 0; ph := PStarting; own := false; refs := 0; res := None;
     src := false; cb := CbNone; notifier := 3; slot := SIdle; armed := false;
     p0 := B0Reg; p1 := CCall; p2 := CCall; p3 := S3Set; pn := NIdle; h1 := false; h2 := false;
     destroyed := false; freed := false; completions := []; calls := []; nstart := 0;
     ncallback := 0; nstop := 0; badstop := 0; late := 0 |}.

(* ---- updates ----------------------------------------------------------------------------- *)
Definition set_mutex (s : st) (o : option nat) (d : nat) : st :=
  {| mo := o; md := d; ph := ph s; own := own s; refs := refs s; res := res s; src := src s;
     cb := cb s; notifier := notifier s; slot := slot s; armed := armed s; p0 := p0 s;
     p1 := p1 s; p2 := p2 s; p3 := p3 s; pn := pn s; h1 := h1 s; h2 := h2 s;
     destroyed := destroyed s; freed := freed s; completions := completions s; calls := calls s;
     nstart := nstart s; ncallback := ncallback s; nstop := nstop s; badstop := badstop s;
     late := late s |}.
Definition set_phase (s : st) (x : phase) (r : option outcome) : st :=
  {| mo := mo s; md := md s; ph := x; own := own s; refs := refs s; res := r; src := src s;
     cb := cb s; notifier := notifier s; slot := slot s; armed := armed s; p0 := p0 s;
     p1 := p1 s; p2 := p2 s; p3 := p3 s; pn := pn s; h1 := h1 s; h2 := h2 s;
     destroyed := destroyed s; freed := freed s; completions := completions s; calls := calls s;
     nstart := nstart s; ncallback := ncallback s; nstop := nstop s; badstop := badstop s;
     late := late s |}.
Definition set_holder (s : st) (o : bool) (r : nat) (a b : bool) : st :=
  {| mo := mo s; md := md s; ph := ph s; own := o; refs := r; res := res s; src := src s;
     cb := cb s; notifier := notifier s; slot := slot s; armed := armed s; p0 := p0 s;
     p1 := p1 s; p2 := p2 s; p3 := p3 s; pn := pn s; h1 := a; h2 := b; destroyed := destroyed s;
     freed := freed s; completions := completions s; calls := calls s; nstart := nstart s;
     ncallback := ncallback s; nstop := nstop s; badstop := badstop s; late := late s |}.
Definition set_src (s : st) (x : bool) (c : cbst) : st :=
  {| mo := mo s; md := md s; ph := ph s; own := own s; refs := refs s; res := res s; src := x;
     cb := c; notifier := notifier s; slot := slot s; armed := armed s; p0 := p0 s; p1 := p1 s;
     p2 := p2 s; p3 := p3 s; pn := pn s; h1 := h1 s; h2 := h2 s; destroyed := destroyed s;
     freed := freed s; completions := completions s; calls := calls s; nstart := nstart s;
     ncallback := ncallback s; nstop := nstop s; badstop := badstop s; late := late s |}.
Definition set_notifier (s : st) (t : nat) : st :=
  {| mo := mo s; md := md s; ph := ph s; own := own s; refs := refs s; res := res s;
     src := src s; cb := cb s; notifier := t; slot := slot s; armed := armed s; p0 := p0 s;
     p1 := p1 s; p2 := p2 s; p3 := p3 s; pn := pn s; h1 := h1 s; h2 := h2 s;
     destroyed := destroyed s; freed := freed s; completions := completions s; calls := calls s;
     nstart := nstart s; ncallback := ncallback s; nstop := nstop s; badstop := badstop s;
     late := late s |}.
Definition set_slot (s : st) (x : slotst) (a : bool) : st :=
  {| mo := mo s; md := md s; ph := ph s; own := own s; refs := refs s; res := res s;
     src := src s; cb := cb s; notifier := notifier s; slot := x; armed := a; p0 := p0 s;
     p1 := p1 s; p2 := p2 s; p3 := p3 s; pn := pn s; h1 := h1 s; h2 := h2 s;
     destroyed := destroyed s; freed := freed s; completions := completions s; calls := calls s;
     nstart := nstart s; ncallback := ncallback s; nstop := nstop s; badstop := badstop s;
     late := late s |}.
Definition set_p0 (s : st) (x : pc0) : st :=
  {| mo := mo s; md := md s; ph := ph s; own := own s; refs := refs s; res := res s;
     src := src s; cb := cb s; notifier := notifier s; slot := slot s; armed := armed s; p0 := x;
     p1 := p1 s; p2 := p2 s; p3 := p3 s; pn := pn s; h1 := h1 s; h2 := h2 s;
     destroyed := destroyed s; freed := freed s; completions := completions s; calls := calls s;
     nstart := nstart s; ncallback := ncallback s; nstop := nstop s; badstop := badstop s;
     late := late s |}.
Definition set_pc (s : st) (i : nat) (x : pcc) : st :=
  {| mo := mo s; md := md s; ph := ph s; own := own s; refs := refs s; res := res s;
     src := src s; cb := cb s; notifier := notifier s; slot := slot s; armed := armed s;
     p0 := p0 s; p1 := if Nat.eqb i 1 then x else p1 s; p2 := if Nat.eqb i 1 then p2 s else x;
     p3 := p3 s; pn := pn s; h1 := h1 s; h2 := h2 s; destroyed := destroyed s; freed := freed s;
     completions := completions s; calls := calls s; nstart := nstart s;
     ncallback := ncallback s; nstop := nstop s; badstop := badstop s; late := late s |}.
Definition set_p3 (s : st) (x : pc3) : st :=
  {| mo := mo s; md := md s; ph := ph s; own := own s; refs := refs s; res := res s;
     src := src s; cb := cb s; notifier := notifier s; slot := slot s; armed := armed s;
     p0 := p0 s; p1 := p1 s; p2 := p2 s; p3 := x; pn := pn s; h1 := h1 s; h2 := h2 s;
     destroyed := destroyed s; freed := freed s; completions := completions s; calls := calls s;
     nstart := nstart s; ncallback := ncallback s; nstop := nstop s; badstop := badstop s;
     late := late s |}.
Definition set_pn (s : st) (x : pcn) : st :=
  {| mo := mo s; md := md s; ph := ph s; own := own s; refs := refs s; res := res s;
     src := src s; cb := cb s; notifier := notifier s; slot := slot s; armed := armed s;
     p0 := p0 s; p1 := p1 s; p2 := p2 s; p3 := p3 s; pn := x; h1 := h1 s; h2 := h2 s;
     destroyed := destroyed s; freed := freed s; completions := completions s; calls := calls s;
     nstart := nstart s; ncallback := ncallback s; nstop := nstop s; badstop := badstop s;
     late := late s |}.
Definition count (s : st) (a b c : nat) : st :=
  {| mo := mo s; md := md s; ph := ph s; own := own s; refs := refs s; res := res s;
     src := src s; cb := cb s; notifier := notifier s; slot := slot s; armed := armed s;
     p0 := p0 s; p1 := p1 s; p2 := p2 s; p3 := p3 s; pn := pn s; h1 := h1 s; h2 := h2 s;
     destroyed := destroyed s; freed := freed s; completions := completions s; calls := calls s;
     nstart := nstart s + a; ncallback := ncallback s + b; nstop := nstop s + c;
     badstop := badstop s; late := late s |}.
Definition add_call (s : st) (o : outcome) : st :=
  {| mo := mo s; md := md s; ph := ph s; own := own s; refs := refs s; res := res s;
     src := src s; cb := cb s; notifier := notifier s; slot := slot s; armed := armed s;
     p0 := p0 s; p1 := p1 s; p2 := p2 s; p3 := p3 s; pn := pn s; h1 := h1 s; h2 := h2 s;
     destroyed := destroyed s; freed := freed s; completions := completions s;
     calls := o :: calls s; nstart := nstart s; ncallback := ncallback s; nstop := nstop s;
     badstop := badstop s; late := late s |}.
Definition set_badstop (s : st) (n : nat) : st :=
  {| mo := mo s; md := md s; ph := ph s; own := own s; refs := refs s; res := res s;
     src := src s; cb := cb s; notifier := notifier s; slot := slot s; armed := armed s;
     p0 := p0 s; p1 := p1 s; p2 := p2 s; p3 := p3 s; pn := pn s; h1 := h1 s; h2 := h2 s;
     destroyed := destroyed s; freed := freed s; completions := completions s; calls := calls s;
     nstart := nstart s; ncallback := ncallback s; nstop := nstop s; badstop := n;
     late := late s |}.
Definition touch (s : st) : st :=
  {| mo := mo s; md := md s; ph := ph s; own := own s; refs := refs s; res := res s;
     src := src s; cb := cb s; notifier := notifier s; slot := slot s; armed := armed s;
     p0 := p0 s; p1 := p1 s; p2 := p2 s; p3 := p3 s; pn := pn s; h1 := h1 s; h2 := h2 s;
     destroyed := destroyed s; freed := freed s; completions := completions s; calls := calls s;
     nstart := nstart s; ncallback := ncallback s; nstop := nstop s; badstop := badstop s;
     late := if freed s then S (late s) else late s |}.
Definition complete (s : st) : st :=
  {| mo := mo s; md := md s; ph := ph s; own := own s; refs := refs s; res := res s;
     src := src s; cb := cb s; notifier := notifier s; slot := slot s; armed := armed s;
     p0 := p0 s; p1 := p1 s; p2 := p2 s; p3 := p3 s; pn := pn s; h1 := h1 s; h2 := h2 s;
     destroyed := destroyed s; freed := true;
     completions := match res s with Some o => o | None => ODone end :: completions s;
     calls := calls s; nstart := nstart s; ncallback := ncallback s; nstop := nstop s;
     badstop := badstop s; late := late s |}.
Definition set_destroyed (s : st) : st :=
  {| mo := mo s; md := md s; ph := ph s; own := own s; refs := refs s; res := res s;
     src := src s; cb := cb s; notifier := notifier s; slot := slot s; armed := armed s;
     p0 := p0 s; p1 := p1 s; p2 := p2 s; p3 := p3 s; pn := pn s; h1 := h1 s; h2 := h2 s;
     destroyed := true; freed := freed s; completions := completions s; calls := calls s;
     nstart := nstart s; ncallback := ncallback s; nstop := nstop s; badstop := badstop s;
     late := late s |}.

(* ---- the mutex ---------------------------------------------------------------------------- *)
Definition can_lock (t : nat) (s : st) : bool :=
  match mo s with None => true | Some o => Nat.eqb o t end.
Definition do_lock (t : nat) (s : st) : st * list ev :=
  (set_mutex (touch s) (Some t) (S (md s)), [ELock (md s) (S (md s))]).
Definition do_unlock (s : st) : st * list ev :=
  (set_mutex (touch s) (match md s with 1 => None | _ => mo s end) (pred (md s)),
   [EUnlock (md s) (pred (md s))]).
(* _state::completed(): finished and this is the outermost lock holder *)
Definition completed (s : st) : bool := finished (ph s) && Nat.eqb (md s) 1.
(* set_value / set_done: only the first one counts *)
Definition finish (s : st) (o : outcome) : st :=
  if finished (ph s) then s
  else set_phase s (match ph s with PStarting => PStoppedEarly | _ => PCompleted end) (Some o).
(* the same called by the user's body (recorded in the ghost [calls]) *)
Definition bfinish (s : st) (o : outcome) : st := finish (add_call s o) o.

(* `completed = state_.completed(); if (completed) safe_cb_holder_.reset();` is plain code under
   the lock that runs right after the body returned, before the unlock: it belongs to the step of
   the preceding instrumented access (the shared_ptr control block is not an instrumented atomic;
   a weak_.lock() between the body and the reset reads the same as one before the body) *)
Definition settle (s : st) : st :=
  if completed s then set_holder s false (refs s) (h1 s) (h2 s) else s.

(* the stop event reaches the body: counted; ghost: in which phase *)
Definition stop_event (s : st) : st :=
  let s1 := count (touch s) 0 0 1 in
  match ph s1 with PStarted => s1 | _ => set_badstop s1 (S (badstop s1)) end.

(* ---- the completion tail, executed by thread [tid] ----------------------------------------- *)
Definition tail_entry (s : st) : tail :=
  match cb s with CbInline | CbNone => TRoot | _ => TDereg end.

(* remove_callback (inplace_stop_token.cpp lines 140-172): a callback that has been taken off
   the list is not waited for by the thread that runs (ran) it: notifyingThreadId_ *)
Definition tail_step (tid : nat) (t : tail) (s : st) : option (st * list ev * option tail) :=
  match t with
  | TDereg =>
      match cb s with
      | CbReg => Some (set_src (touch s) (src s) CbGone, [EDereg], Some TRoot)
      | CbRun =>
          if Nat.eqb tid (notifier s)
          then Some (set_src (touch s) (src s) CbRunRm, [EDereg], Some TRoot)
          else Some (touch s, [EDereg], Some TDeregWait)
      | CbDone =>
          if Nat.eqb tid (notifier s) then Some (touch s, [EDereg], Some TRoot)
          else Some (touch s, [EDereg], Some TDeregWait)
      | _ => None
      end
  | TDeregWait =>
      match cb s with
      | CbDone => Some (touch s, [ECbL], Some TRoot)
      | _ => None
      end
  | TRoot =>
      let s1 := complete (touch s) in
      Some (s1, [ERoot (match res s with Some o => o | None => ODone end)], None)
  end.

(* the second (safe) callback is not combined with an unsafe first one: whoever completes through
   the safe callback would have to disarm the pending unsafe callback first (the user's duty) *)
Definition has_second (p : params) : bool :=
  second p && match first p with FUnsafe => false | _ => true end.
Definition makes_holder (p : params) : bool :=
  has_second p || match first p with FInl | FSafe => true | _ => false end.

(* ---- a re-entrant request_stop() of thread [t], the mutex owner, inside a body event -------- *)
(* the rest of the body event after request_stop() returned, and the plain code of the frame that
   dispatched the event (it belongs to the step of the last instrumented access of the request) *)
Definition ret_rq (p : params) (t : nat) (s : st) : st :=
  let s0 := set_pn s NIdle in
  let s1 := match breq p with BStopVal => bfinish s0 OVal | _ => s0 end in
  match t with
  | 0 =>
      match p0 s with
      | B0Rq R0Start => set_p0 (settle (set_slot s1 (slot s1) true)) B0Rel
      | B0Rq R0Inl => set_p0 s1 B0NRel
      | _ => s1
      end
  | _ => set_pc (settle s1) t CRel
  end.

(* the stop event after its optional second request_stop(): slot / set_done *)
Definition stop_rest (p : params) (s : st) : st * bool :=
  match first p with
  | FUnsafe => (s, true)
  | _ => (settle (bfinish s ODone), false)
  end.

Definition stepN (p : params) (t : nat) (s : st) : option (st * list ev) :=
  match pn s with
  | NIdle => None
  | NSet =>
      (* stop already requested: no-op; else this thread runs the registered callback inline *)
      if src s then Some (ret_rq p t s, [ESetNo])
      else match cb s with
           | CbReg => Some (set_pn (set_notifier (set_src s true CbRun) t) NAcq, [ESet])
           | c => Some (ret_rq p t (set_src s true c), [ESet])
           end
  | NAcq =>
      if can_lock t s then
        let '(s1, e) := do_lock t s in
        if finished (ph s1) then Some (set_pn s1 NRelNo, e)
        else match ph s1 with
             | PStarting => Some (set_pn (finish s1 ODone) NRelNo, e)
             | _ => Some (set_pn s1 NBody, e)
             end
      else None
  | NBody =>
      let s1 := stop_event s in
      if restop p then Some (set_pn s1 NRe, [EBStop])
      else let '(s2, sl) := stop_rest p s1 in Some (set_pn s2 (if sl then NSlot else NRel), [EBStop])
  | NRe =>
      (* the stop event runs only after a stop request: always the no-op *)
      if src s then
        let '(s2, sl) := stop_rest p s in Some (set_pn s2 (if sl then NSlot else NRel), [ESetNo])
      else None
  | NSlot =>
      match slot s with
      | SArmed => Some (set_pn (settle (bfinish (set_slot s SRemoved (armed s)) ODone)) NRel,
                        [ESlotC 1 3 true])
      | x => Some (set_pn s NRel, [ESlotC (slot_val x) 3 false])
      end
  | NRelNo => let '(s1, e) := do_unlock s in Some (set_pn s1 NCbRet, e)
  | NRel =>
      (* completed() needs recursion_ = 1, the requesting frame holds the lock: the nested frame
         never delivers the result (a deadlock of the model if it could) *)
      if completed s then None
      else let '(s1, e) := do_unlock s in Some (set_pn s1 NCbRet, e)
  | NCbRet => Some (ret_rq p t (set_src (touch s) (src s) CbDone), [ECbS])
  end.

(* ---- thread 0 ----------------------------------------------------------------------------- *)
Definition step0 (p : params) (s : st) : option (st * list ev) :=
  match p0 s with
  | B0Reg =>
      let s1 := touch s in
      if src s then Some (set_p0 (set_src s1 true CbInline) B0IAcq, [EReg true])
      else Some (set_p0 (set_src s1 false CbReg) B0Acq, [EReg false])
  | B0IAcq =>
      (* _stop_callback inline: not finished, not started: set_done *)
      if can_lock 0 s then
        let '(s1, e) := do_lock 0 s in
        Some (set_p0 (finish s1 ODone) B0IRel, e)
      else None
  | B0IRel => let '(s1, e) := do_unlock s in Some (set_p0 s1 B0Acq, e)
  | B0Acq =>
      if can_lock 0 s then
        let '(s1, e) := do_lock 0 s in
        let s2 := match ph s1 with PStarting => set_phase s1 PStarted (res s1) | _ => s1 end in
        Some (set_p0 (if finished (ph s2) then settle s2 else s2)
                     (if finished (ph s2) then B0Rel else B0Body), e)
      else None
  | B0Body =>
      let s1 := count (touch s) 1 0 0 in
      let s2 := if makes_holder p then set_holder s1 true (refs s1) (h1 s1) (h2 s1) else s1 in
      match first p with
      | FSync =>
          match breq p with
          | BNo => Some (set_p0 (settle (set_slot (bfinish s2 OVal) (slot s2) true)) B0Rel, [EBStart])
          | BValStop => Some (set_pn (set_p0 (bfinish s2 OVal) (B0Rq R0Start)) NSet, [EBStart])
          | BStopVal => Some (set_pn (set_p0 s2 (B0Rq R0Start)) NSet, [EBStart])
          end
      | FInl => Some (set_p0 (set_holder s2 true (S (refs s2)) (h1 s2) (h2 s2)) B0NAcq, [EBStart])
      | FSafe => Some (set_p0 (set_slot s2 (slot s2) true) B0Rel, [EBStart])
      | FUnsafe => Some (set_p0 s2 B0Arm, [EBStart])
      | FNone => Some (set_p0 (set_slot s2 (slot s2) true) B0Rel, [EBStart])
      end
  | B0Arm => Some (set_p0 (set_slot s SArmed true) B0Rel, [ESlotS])
  | B0NAcq =>
      let '(s1, e) := do_lock 0 s in
      if finished (ph s1) then None else Some (set_p0 s1 B0NBody, e)
  | B0NBody =>
      let s1 := count (touch s) 0 1 0 in
      match breq p with
      | BNo => Some (set_p0 (bfinish s1 OVal) B0NRel, [EBCallback])
      | BValStop => Some (set_pn (set_p0 (bfinish s1 OVal) (B0Rq R0Inl)) NSet, [EBCallback])
      | BStopVal => Some (set_pn (set_p0 s1 (B0Rq R0Inl)) NSet, [EBCallback])
      end
  | B0NRel =>
      let '(s1, e) := do_unlock s in
      Some (set_p0 (settle (set_slot (set_holder s1 (own s1) (pred (refs s1)) (h1 s1) (h2 s1))
                                     (slot s1) true)) B0Rel, e)
  | B0Rq _ => stepN p 0 s
  | B0Rel =>
      let c := completed s in
      let '(s1, e) := do_unlock s in
      Some (set_p0 s1 (if c then B0Tail (tail_entry s1) else B0Fin), e)
  | B0Tail t =>
      match tail_step 0 t s with
      | None => None
      | Some (s1, e, Some t') => Some (set_p0 s1 (B0Tail t'), e)
      | Some (s1, e, None) => Some (set_p0 s1 B0Fin, e)
      end
  | B0Fin => None
  end.

(* ---- a callback thread (i = 1: the first callback, i = 2: the second, always safe) --------- *)
Definition is_safe (p : params) (i : nat) : bool :=
  if Nat.eqb i 1 then match first p with FSafe => true | _ => false end else true.
Definition exists_cb (p : params) (i : nat) : bool :=
  if Nat.eqb i 1 then match first p with FSafe | FUnsafe => true | _ => false end
  else has_second p.
Definition holds (s : st) (i : nat) : bool := if Nat.eqb i 1 then h1 s else h2 s.
Definition set_holds (s : st) (i : nat) (b : bool) (r : nat) : st :=
  if Nat.eqb i 1 then set_holder s (own s) r b (h2 s) else set_holder s (own s) r (h1 s) b.

Definition stepC (p : params) (i : nat) (s : st) : option (st * list ev) :=
  let pci := if Nat.eqb i 1 then p1 s else p2 s in
  if negb (exists_cb p i) then None else
  match pci with
  | CCall =>
      if negb (armed s) then None
      else if is_safe p i then
        (* weak_.lock(): succeeds while the cell has an owner *)
        if own s || negb (Nat.eqb (refs s) 0)
        then Some (set_pc (set_holds s i true (S (refs s))) i CAcq, [ECall i])
        else Some (set_pc s i CRet, [ECall i])
      else
        match slot s with
        | SArmed => Some (set_pc (set_slot s STaken (armed s)) i CAcq, [ESlotC 1 2 true])
        | x => Some (set_pc s i CFin, [ESlotC (slot_val x) 2 false])
        end
  | CAcq =>
      if can_lock i s then
        let '(s1, e) := do_lock i s in
        Some (set_pc s1 i (if finished (ph s1) then CRelNo else CBody), e)
      else None
  | CBody =>
      let s1 := count (touch s) 0 1 0 in
      match breq p with
      | BNo => Some (set_pc (settle (bfinish s1 OVal)) i CRel, [EBCallback])
      | BValStop => Some (set_pn (set_pc (bfinish s1 OVal) i CRq) NSet, [EBCallback])
      | BStopVal => Some (set_pn (set_pc s1 i CRq) NSet, [EBCallback])
      end
  | CRq => stepN p i s
  | CRelNo => let '(s1, e) := do_unlock s in Some (set_pc s1 i CRet, e)
  | CRel =>
      let c := completed s in
      let '(s1, e) := do_unlock s in
      Some (set_pc s1 i (if c then CTail (tail_entry s1) else CRet), e)
  | CTail t =>
      match tail_step i t s with
      | None => None
      | Some (s1, e, Some t') => Some (set_pc s1 i (CTail t'), e)
      | Some (s1, e, None) => Some (set_pc s1 i CRet, e)
      end
  | CRet =>
      (* operator() returns; a safe callback drops its strong reference *)
      let s1 := if holds s i then set_holds s i false (pred (refs s)) else s in
      Some (set_pc s1 i CFin, [ERet i])
  | CFin => None
  end.

(* ---- thread 3: the stop request and the stop callback -------------------------------------- *)
Definition after_cb (s : st) : pc3 := match cb s with CbRunRm => S3Fin | _ => S3CbRet end.

Definition step3 (p : params) (s : st) : option (st * list ev) :=
  match p3 s with
  | S3Set =>
      (* a body event may have requested stop before: then this request is a no-op *)
      if src s then Some (set_p3 s S3Fin, [ESetNo])
      else match cb s with
           | CbReg => Some (set_p3 (set_notifier (set_src s true CbRun) 3) S3Acq, [ESet])
           | c => Some (set_p3 (set_src s true c) S3Fin, [ESet])
           end
  | S3Acq =>
      if can_lock 3 s then
        let '(s1, e) := do_lock 3 s in
        if finished (ph s1) then Some (set_p3 s1 S3RelNo, e)
        else match ph s1 with
             | PStarting => Some (set_p3 (finish s1 ODone) S3RelNo, e)
             | _ => Some (set_p3 s1 S3Body, e)
             end
      else None
  | S3Body =>
      let s1 := stop_event s in
      if restop p then Some (set_p3 s1 S3Re, [EBStop])
      else let '(s2, sl) := stop_rest p s1 in Some (set_p3 s2 (if sl then S3Slot else S3Rel), [EBStop])
  | S3Re =>
      if src s then
        let '(s2, sl) := stop_rest p s in Some (set_p3 s2 (if sl then S3Slot else S3Rel), [ESetNo])
      else None
  | S3Slot =>
      match slot s with
      | SArmed => Some (set_p3 (settle (bfinish (set_slot s SRemoved (armed s)) ODone)) S3Rel,
                        [ESlotC 1 3 true])
      | x => Some (set_p3 s S3Rel, [ESlotC (slot_val x) 3 false])
      end
  | S3RelNo => let '(s1, e) := do_unlock s in Some (set_p3 s1 (after_cb s1), e)
  | S3Rel =>
      let c := completed s in
      let '(s1, e) := do_unlock s in
      Some (set_p3 s1 (if c then S3Tail (tail_entry s1) else after_cb s1), e)
  | S3Tail t =>
      match tail_step 3 t s with
      | None => None
      | Some (s1, e, Some t') => Some (set_p3 s1 (S3Tail t'), e)
      | Some (s1, e, None) => Some (set_p3 s1 (after_cb s1), e)
      end
  | S3CbRet => Some (set_p3 (set_src (touch s) (src s) CbDone) S3Fin, [ECbS])
  | S3Fin => None
  end.

(* ---- thread 4 ------------------------------------------------------------------------------ *)
Definition step4 (s : st) : option (st * list ev) :=
  match completions s with
  | [] => None
  | _ => if destroyed s then None else Some (set_destroyed s, [EDestroyed])
  end.

Definition step (p : params) (t : nat) (s : st) : option (st * list ev) :=
  match t with
  | 0 => step0 p s
  | 1 => stepC p 1 s
  | 2 => stepC p 2 s
  | 3 => step3 p s
  | 4 => step4 s
  | _ => None
  end.

Definition is_none {A} (o : option A) : bool := match o with None => true | _ => false end.
Definition quiescent (p : params) (s : st) : bool :=
  is_none (step p 0 s) && is_none (step p 1 s) && is_none (step p 2 s) &&
  is_none (step p 3 s) && is_none (step p 4 s).

(* hd of the oldest-first call list: the first completion signal the body decided *)
Definition first_call (s : st) : option outcome := hd_error (rev (calls s)).

End BasicSender.
