(* Proofs about the E1 model ThreadPool(k) (Proto/ThreadPoolDefs.v): static_thread_pool.
   For an arbitrary number k of workers/queues, arbitrary producers and item counts, both stop
   policies and an arbitrary schedule (spurious wake-ups included). *)
From Coq Require Import List Bool Arith Lia Permutation.
From V Require Import Base.Sched Proto.ThreadPoolDefs.
Import ListNotations.
Import ThreadPool.

(* ------------------------------------------------------------------------------------------ *)
(* list helpers                                                                               *)

Lemma set_nth_length {A} (i : nat) (x : A) (l : list A) : length (set_nth i x l) = length l.
Proof. revert i; induction l as [|y r IH]; intros [|i]; cbn; auto. Qed.

Lemma nth_error_set_nth_eq {A} (i : nat) (x : A) (l : list A) :
  i < length l -> nth_error (set_nth i x l) i = Some x.
Proof.
  revert i; induction l as [|y r IH]; intros [|i] Hlt; cbn in *; try lia; auto.
  apply IH; lia.
Qed.

Lemma nth_error_set_nth_neq {A} (i j : nat) (x : A) (l : list A) :
  i <> j -> nth_error (set_nth i x l) j = nth_error l j.
Proof.
  revert i j; induction l as [|y r IH]; intros [|i] [|j] Hne; cbn; auto; try congruence.
Qed.

Lemma nth_error_lt {A} (l : list A) i x : nth_error l i = Some x -> i < length l.
Proof. intros H. apply nth_error_Some. congruence. Qed.

Lemma nth_error_set_nth {A} (i j : nat) (x y : A) (l : list A) :
  nth_error (set_nth i x l) j = Some y ->
  (i = j /\ y = x /\ j < length l) \/ (i <> j /\ nth_error l j = Some y).
Proof.
  intros H. destruct (Nat.eq_dec i j) as [->|Hne].
  - left. assert (Hlt : j < length l).
    { apply nth_error_lt in H. now rewrite set_nth_length in H. }
    rewrite nth_error_set_nth_eq in H by exact Hlt. injection H as <-. auto.
  - right. rewrite nth_error_set_nth_neq in H by exact Hne. auto.
Qed.

Lemma nth_set_nth_eq {A} (i : nat) (x d : A) (l : list A) :
  i < length l -> nth i (set_nth i x l) d = x.
Proof.
  revert i; induction l as [|y r IH]; intros [|i] Hlt; cbn in *; try lia; auto.
  apply IH; lia.
Qed.

Lemma nth_set_nth_neq {A} (i j : nat) (x d : A) (l : list A) :
  i <> j -> nth j (set_nth i x l) d = nth j l d.
Proof.
  revert i j; induction l as [|y r IH]; intros [|i] [|j] Hne; cbn; auto; try congruence.
Qed.

Lemma nth_error_nth {A} (l : list A) i x d : nth_error l i = Some x -> nth i l d = x.
Proof. revert i; induction l; intros [|i] H; cbn in *; try discriminate; [now injection H|auto]. Qed.

Lemma nth_nth_error {A} (l : list A) i d : i < length l -> nth_error l i = Some (nth i l d).
Proof. revert i; induction l; intros [|i] H; cbn in *; try lia; auto. apply IHl. lia. Qed.

(* replacing one element of a list changes a flat_map only by that element's contribution *)
Lemma flat_map_set_nth {A B} (f : A -> list B) (l : list A) i old :
  nth_error l i = Some old ->
  exists R, Permutation (flat_map f l) (f old ++ R) /\
            forall new, Permutation (flat_map f (set_nth i new l)) (f new ++ R).
Proof.
  revert i; induction l as [|y r IH]; intros [|i] H; cbn in *; try discriminate.
  - injection H as ->. exists (flat_map f r). split; [reflexivity|]. intros; reflexivity.
  - destruct (IH i H) as (R & H1 & H2). exists (f y ++ R). split.
    + rewrite H1. rewrite !app_assoc. apply Permutation_app_tail. apply Permutation_app_comm.
    + intros new. rewrite (H2 new). rewrite !app_assoc. apply Permutation_app_tail. apply Permutation_app_comm.
Qed.

Lemma NoDup_app_singleton {A} (l : list A) x : NoDup l -> ~ In x l -> NoDup (l ++ [x]).
Proof.
  intros Hn Hx. induction Hn as [|y r Hy Hr IH]; cbn.
  - constructor; [intros []|constructor].
  - constructor.
    + rewrite in_app_iff. cbn. intros [H|[H|[]]]; [auto|]. subst. apply Hx. now left.
    + apply IH. intros H. apply Hx. now right.
Qed.

Lemma nth_error_map_some {A B} (f : A -> B) l i y :
  nth_error (map f l) i = Some y -> exists x, nth_error l i = Some x /\ y = f x.
Proof.
  revert i; induction l as [|a r IH]; intros [|i] H; cbn in *; try discriminate.
  - injection H as <-. eauto.
  - eauto.
Qed.

Lemma nth_error_repeat {A} (x y : A) n i : nth_error (repeat x n) i = Some y -> y = x.
Proof. revert i; induction n; intros [|i] H; cbn in *; try discriminate; [now injection H|eauto]. Qed.

Lemma nth_repeat {A} (x d : A) n i : i < n -> nth i (repeat x n) d = x.
Proof. revert i; induction n; intros [|i] H; cbn; try lia; auto. apply IHn. lia. Qed.

(* ------------------------------------------------------------------------------------------ *)
(* who holds which mutex, according to the program counters                                    *)

Definition holdsM (p : mpc) (q : nat) : bool :=
  match p with MStopNotify _ q' | MStopUnlock _ q' => Nat.eqb q q' | _ => false end.
Definition holdsP (p : ppc) (q : nat) : bool :=
  match p with PNotify _ q' | PUnlock _ q' => Nat.eqb q q' | _ => false end.
Definition holdsW (w : nat) (p : wpc) (q : nat) : bool :=
  match p with
  | WScanUnlock _ q' _ => Nat.eqb q q'
  | WPopWait | WPopUnlock _ => Nat.eqb q w
  | _ => false
  end.

Definition pushed (p : ppc) : nat :=
  match p with PFetch j | PTry j _ _ | PPushLock j _ => j | PNotify j _ | PUnlock j _ => S j end.

Definition inflight (w : wpc) : list item :=
  match w with WScanUnlock _ _ (Some t) | WPopUnlock (Some t) | WExec t => [t] | _ => [] end.

Record Inv (s : st) : Prop := {
  T_len : length (workers s) = nq s;
  T_m : forall q, holdsM (mainpc s) q = true -> q < nq s /\ qown (getq s q) = Some 0;
  T_p : forall x n pc q, nth_error (prods s) x = Some (n, pc) -> holdsP pc q = true ->
        q < nq s /\ qown (getq s q) = Some (S x);
  T_w : forall w pc q, nth_error (workers s) w = Some pc -> holdsW w pc q = true ->
        q < nq s /\ qown (getq s q) = Some (worker_tid s w);
  T_acct : Permutation (enq s) (map fst (executed s) ++ flat_map inflight (workers s) ++ queued s);
  T_nodup : NoDup (enq s);
  T_mem : forall p j, In (p, j) (enq s) <->
            exists x n pc, p = S x /\ nth_error (prods s) x = Some (n, pc) /\ j < pushed pc;
  T_bound : forall x n pc, nth_error (prods s) x = Some (n, pc) ->
            pushed pc <= n /\ (match pc with PFetch _ => True | PNotify _ _ | PUnlock _ _ => True | _ => pushed pc < n end);
  T_wait : forall w, nth_error (workers s) w = Some WPopWait ->
           qitems (getq s w) = [] /\ qstop (getq s w) = false;
  T_blocked : forall w, nth_error (workers s) w = Some (WPopBlocked false) ->
              (qitems (getq s w) = [] \/ exists x n j, nth_error (prods s) x = Some (n, PNotify j w)) /\
              (qstop (getq s w) = false \/ exists d, mainpc s = MStopNotify d w);
  T_ret : forall w, nth_error (workers s) w = Some (WPopUnlock None) ->
          qitems (getq s w) = [] /\ qstop (getq s w) = true;
  T_done : forall w, nth_error (workers s) w = Some WDone ->
           qstop (getq s w) = true /\ incl (qitems (getq s w)) (late s);
  T_race : race s = false -> forall q, q < nq s -> qstop (getq s q) = true -> all_prods_done s = true;
  T_late : race s = false -> late s = [];
  T_join : forall i, mainpc s = MJoin i -> forall w, w < i -> nth_error (workers s) w = Some WDone;
  T_mdone : mainpc s = MDone -> forall w, w < nq s -> nth_error (workers s) w = Some WDone
}.

Lemma queued_repeat_nil k : flat_map qitems (repeat {| qown := None; qitems := []; qstop := false |} k) = [].
Proof. induction k; cbn; auto. Qed.

Lemma inflight_repeat_nil k : flat_map inflight (repeat WNotStarted k) = [].
Proof. induction k; cbn; auto. Qed.

Lemma getq_init rc k counts q : q < k -> getq (init rc k counts) q = {| qown := None; qitems := []; qstop := false |}.
Proof. intros H. unfold getq; cbn. now apply nth_repeat. Qed.

Lemma inv_init rc k counts : Inv (init rc k counts).
Proof.
  constructor; cbn; try discriminate.
  - unfold nq; cbn. now rewrite !repeat_length.
  - intros x n pc q H. apply nth_error_map_some in H as (y & _ & E). injection E as -> ->. discriminate.
  - intros w pc q H. apply nth_error_repeat in H as ->. discriminate.
  - unfold queued; cbn. rewrite queued_repeat_nil, inflight_repeat_nil. reflexivity.
  - constructor.
  - intros p j. split; [intros []|]. intros (x & n & pc & -> & H & Hlt).
    apply nth_error_map_some in H as (y & _ & E). injection E as -> ->. cbn in Hlt. lia.
  - intros x n pc H. apply nth_error_map_some in H as (y & _ & E). injection E as -> ->. cbn. split; [lia|exact I].
  - intros w H. apply nth_error_repeat in H. discriminate.
  - intros w H. apply nth_error_repeat in H. discriminate.
  - intros w H. apply nth_error_repeat in H. discriminate.
  - intros w H. apply nth_error_repeat in H. discriminate.
  - intros _ q Hq. unfold nq in Hq; cbn in Hq. rewrite repeat_length in Hq.
    rewrite nth_repeat by exact Hq. discriminate.
  - auto.
Qed.

(* ------------------------------------------------------------------------------------------ *)
(* small facts                                                                                *)

Lemma flat_map_set_nth_same {A B} (f : A -> list B) (l : list A) i old new :
  nth_error l i = Some old -> f new = f old -> flat_map f (set_nth i new l) = flat_map f l.
Proof.
  revert i; induction l as [|y r IH]; intros [|i] H E; cbn in *; try discriminate.
  - injection H as ->. now rewrite E.
  - f_equal. eauto.
Qed.

Lemma getq_nth_error s q : q < nq s -> nth_error (queues s) q = Some (getq s q).
Proof. intros H. unfold getq. now apply nth_nth_error. Qed.

Lemma q_free_spec s q : q_free s q = true <-> q < nq s /\ qown (getq s q) = None.
Proof.
  unfold q_free. rewrite andb_true_iff, Nat.ltb_lt. destruct (qown (getq s q)); intuition congruence.
Qed.

Lemma wake_inflight w : inflight (wake w) = inflight w.
Proof. destruct w as [| | | | |[]| | |]; reflexivity. Qed.

Lemma all_done_nth (l : list (nat * ppc)) i n pc :
  forallb prod_done l = true -> nth_error l i = Some (n, pc) -> exists j, pc = PFetch j /\ n <= j.
Proof.
  rewrite forallb_forall. intros H Hn.
  specialize (H _ (nth_error_In _ _ Hn)). unfold prod_done in H; cbn in H.
  destruct pc; try discriminate. apply Nat.leb_le in H. eauto.
Qed.

Lemma mem_same_pushed (l : list (nat * ppc)) i n pc pc' p j :
  nth_error l i = Some (n, pc) -> pushed pc' = pushed pc ->
  (exists i0 n0 pc0, p = S i0 /\ nth_error (set_nth i (n, pc') l) i0 = Some (n0, pc0) /\ j < pushed pc0) <->
  (exists i0 n0 pc0, p = S i0 /\ nth_error l i0 = Some (n0, pc0) /\ j < pushed pc0).
Proof.
  intros En Hp. assert (Hi : i < length l) by (eapply nth_error_lt; eauto). split.
  - intros (i0 & n0 & pc0 & -> & Hn0 & Hlt).
    apply nth_error_set_nth in Hn0 as [(<- & E & _)|(Hne & Hn0)].
    + injection E as -> ->. exists i, n, pc. rewrite <- Hp. auto.
    + exists i0, n0, pc0. auto.
  - intros (i0 & n0 & pc0 & -> & Hn0 & Hlt). destruct (Nat.eq_dec i i0) as [<-|Hne].
    + rewrite En in Hn0. injection Hn0 as <- <-. exists i, n, pc'.
      rewrite nth_error_set_nth_eq by exact Hi. rewrite Hp. auto.
    + exists i0, n0, pc0. rewrite nth_error_set_nth_neq by exact Hne. auto.
Qed.

(* the workers list after notify *)
Lemma notify_workers s q :
  workers (notify s q) = match nth_error (workers s) q with
                         | Some w => set_nth q (wake w) (workers s) | None => workers s end.
Proof. unfold notify. destruct (nth_error (workers s) q); reflexivity. Qed.

Lemma notify_other s q :
  race (notify s q) = race s /\ next (notify s q) = next s /\ queues (notify s q) = queues s /\
  mainpc (notify s q) = mainpc s /\ prods (notify s q) = prods s /\ enq (notify s q) = enq s /\
  late (notify s q) = late s /\ executed (notify s q) = executed s.
Proof. unfold notify. destruct (nth_error (workers s) q); cbn; auto 10. Qed.

Lemma notify_inflight s q : flat_map inflight (workers (notify s q)) = flat_map inflight (workers s).
Proof.
  rewrite notify_workers. destruct (nth_error (workers s) q) eqn:E; [|reflexivity].
  eapply flat_map_set_nth_same; eauto. apply wake_inflight.
Qed.

Lemma notify_nth s q w pc :
  nth_error (workers (notify s q)) w = Some pc ->
  exists pc0, nth_error (workers s) w = Some pc0 /\ (pc = pc0 \/ (w = q /\ pc0 = WPopBlocked false /\ pc = WPopBlocked true)).
Proof.
  rewrite notify_workers. destruct (nth_error (workers s) q) as [w0|] eqn:E; [|eauto].
  intros H. apply nth_error_set_nth in H as [(<- & -> & _)|(Hne & H)]; [|eauto].
  exists w0. split; [exact E|]. destruct w0 as [| | | | |[]| | |]; cbn; auto.
Qed.

Lemma notify_len s q : length (workers (notify s q)) = length (workers s).
Proof. rewrite notify_workers. destruct (nth_error (workers s) q); [apply set_nth_length|reflexivity]. Qed.
