(* Proofs about the E1 model ThreadPool(k) (Proto/ThreadPoolDefs.v): static_thread_pool.
   For an arbitrary number k of workers/queues, arbitrary producers and item counts, both stop
   policies and an arbitrary schedule (spurious wake-ups included). *)
From Coq Require Import List Bool Arith Lia Permutation.
From V Require Import Base.Sched Proto.ThreadPoolDefs.
Import ListNotations.
Import ThreadPool.

(* ------------------------------------------------------------------------------------------ *)
(* list helpers                                                                               *)

Lemma set_nth_length {A} (i : nat) (x : A) (l : list A) : length (set_nth i x l) = length l.
Proof. revert i; induction l as [|y r IH]; intros [|i]; cbn; auto. Qed.

Lemma nth_error_set_nth_eq {A} (i : nat) (x : A) (l : list A) :
  i < length l -> nth_error (set_nth i x l) i = Some x.
Proof.
  revert i; induction l as [|y r IH]; intros [|i] Hlt; cbn in *; try lia; auto.
  apply IH; lia.
Qed.

Lemma nth_error_set_nth_neq {A} (i j : nat) (x : A) (l : list A) :
  i <> j -> nth_error (set_nth i x l) j = nth_error l j.
Proof.
  revert i j; induction l as [|y r IH]; intros [|i] [|j] Hne; cbn; auto; try congruence.
Qed.

Lemma nth_error_lt {A} (l : list A) i x : nth_error l i = Some x -> i < length l.
Proof. intros H. apply nth_error_Some. congruence. Qed.

Lemma nth_error_set_nth {A} (i j : nat) (x y : A) (l : list A) :
  nth_error (set_nth i x l) j = Some y ->
  (i = j /\ y = x /\ j < length l) \/ (i <> j /\ nth_error l j = Some y).
Proof.
  intros H. destruct (Nat.eq_dec i j) as [->|Hne].
  - left. assert (Hlt : j < length l).
    { apply nth_error_lt in H. now rewrite set_nth_length in H. }
    rewrite nth_error_set_nth_eq in H by exact Hlt. injection H as <-. auto.
  - right. rewrite nth_error_set_nth_neq in H by exact Hne. auto.
Qed.

Lemma nth_set_nth_eq {A} (i : nat) (x d : A) (l : list A) :
  i < length l -> nth i (set_nth i x l) d = x.
Proof.
  revert i; induction l as [|y r IH]; intros [|i] Hlt; cbn in *; try lia; auto.
  apply IH; lia.
Qed.

Lemma nth_set_nth_neq {A} (i j : nat) (x d : A) (l : list A) :
  i <> j -> nth j (set_nth i x l) d = nth j l d.
Proof.
  revert i j; induction l as [|y r IH]; intros [|i] [|j] Hne; cbn; auto; try congruence.
Qed.

Lemma nth_error_nth {A} (l : list A) i x d : nth_error l i = Some x -> nth i l d = x.
Proof. revert i; induction l; intros [|i] H; cbn in *; try discriminate; [now injection H|auto]. Qed.

Lemma nth_nth_error {A} (l : list A) i d : i < length l -> nth_error l i = Some (nth i l d).
Proof. revert i; induction l; intros [|i] H; cbn in *; try lia; auto. apply IHl. lia. Qed.

(* replacing one element of a list changes a flat_map only by that element's contribution *)
Lemma flat_map_set_nth {A B} (f : A -> list B) (l : list A) i old :
  nth_error l i = Some old ->
  exists R, Permutation (flat_map f l) (f old ++ R) /\
            forall new, Permutation (flat_map f (set_nth i new l)) (f new ++ R).
Proof.
  revert i; induction l as [|y r IH]; intros [|i] H; cbn in *; try discriminate.
  - injection H as ->. exists (flat_map f r). split; [reflexivity|]. intros; reflexivity.
  - destruct (IH i H) as (R & H1 & H2). exists (f y ++ R). split.
    + rewrite H1. rewrite !app_assoc. apply Permutation_app_tail. apply Permutation_app_comm.
    + intros new. rewrite (H2 new). rewrite !app_assoc. apply Permutation_app_tail. apply Permutation_app_comm.
Qed.

Lemma NoDup_app_singleton {A} (l : list A) x : NoDup l -> ~ In x l -> NoDup (l ++ [x]).
Proof.
  intros Hn Hx. induction Hn as [|y r Hy Hr IH]; cbn.
  - constructor; [intros []|constructor].
  - constructor.
    + rewrite in_app_iff. cbn. intros [H|[H|[]]]; [auto|]. subst. apply Hx. now left.
    + apply IH. intros H. apply Hx. now right.
Qed.

Lemma nth_error_map_some {A B} (f : A -> B) l i y :
  nth_error (map f l) i = Some y -> exists x, nth_error l i = Some x /\ y = f x.
Proof.
  revert i; induction l as [|a r IH]; intros [|i] H; cbn in *; try discriminate.
  - injection H as <-. eauto.
  - eauto.
Qed.

Lemma nth_error_repeat {A} (x y : A) n i : nth_error (repeat x n) i = Some y -> y = x.
Proof. revert i; induction n; intros [|i] H; cbn in *; try discriminate; [now injection H|eauto]. Qed.

Lemma nth_repeat {A} (x d : A) n i : i < n -> nth i (repeat x n) d = x.
Proof. revert i; induction n; intros [|i] H; cbn; try lia; auto. apply IHn. lia. Qed.

(* ------------------------------------------------------------------------------------------ *)
(* who holds which mutex, according to the program counters                                    *)

Definition holdsM (p : mpc) (q : nat) : bool :=
  match p with MStopNotify _ q' | MStopUnlock _ q' => Nat.eqb q q' | _ => false end.
Definition holdsP (p : ppc) (q : nat) : bool :=
  match p with PNotify _ q' | PUnlock _ q' => Nat.eqb q q' | _ => false end.
Definition holdsW (w : nat) (p : wpc) (q : nat) : bool :=
  match p with
  | WScanUnlock _ q' _ => Nat.eqb q q'
  | WPopWait | WPopUnlock _ => Nat.eqb q w
  | _ => false
  end.

Definition pushed (p : ppc) : nat :=
  match p with PFetch j | PTry j _ _ | PPushLock j _ => j | PNotify j _ | PUnlock j _ => S j end.

Definition inflight (w : wpc) : list item :=
  match w with WScanUnlock _ _ (Some t) | WPopUnlock (Some t) | WExec t => [t] | _ => [] end.

Record Inv (s : st) : Prop := {
  T_len : length (workers s) = nq s;
  T_m : forall q, holdsM (mainpc s) q = true -> q < nq s /\ qown (getq s q) = Some 0;
  T_p : forall x n pc q, nth_error (prods s) x = Some (n, pc) -> holdsP pc q = true ->
        q < nq s /\ qown (getq s q) = Some (S x);
  T_w : forall w pc q, nth_error (workers s) w = Some pc -> holdsW w pc q = true ->
        q < nq s /\ qown (getq s q) = Some (worker_tid s w);
  T_acct : Permutation (enq s) (map fst (executed s) ++ flat_map inflight (workers s) ++ queued s);
  T_nodup : NoDup (enq s);
  T_mem : forall p j, In (p, j) (enq s) <->
            exists x n pc, p = S x /\ nth_error (prods s) x = Some (n, pc) /\ j < pushed pc;
  T_bound : forall x n pc, nth_error (prods s) x = Some (n, pc) ->
            pushed pc <= n /\ (match pc with PFetch _ => True | PNotify _ _ | PUnlock _ _ => True | _ => pushed pc < n end);
  T_wait : forall w, nth_error (workers s) w = Some WPopWait ->
           qitems (getq s w) = [] /\ qstop (getq s w) = false;
  T_blocked : forall w, nth_error (workers s) w = Some (WPopBlocked false) ->
              (qitems (getq s w) = [] \/ exists x n j, nth_error (prods s) x = Some (n, PNotify j w)) /\
              (qstop (getq s w) = false \/ exists d, mainpc s = MStopNotify d w);
  T_ret : forall w, nth_error (workers s) w = Some (WPopUnlock None) ->
          qitems (getq s w) = [] /\ qstop (getq s w) = true;
  T_done : forall w, nth_error (workers s) w = Some WDone ->
           qstop (getq s w) = true /\ incl (qitems (getq s w)) (late s);
  T_race : race s = false -> forall q, q < nq s -> qstop (getq s q) = true -> all_prods_done s = true;
  T_late : race s = false -> late s = [];
  T_join : forall i, mainpc s = MJoin i -> forall w, w < i -> nth_error (workers s) w = Some WDone;
  T_mdone : mainpc s = MDone -> forall w, w < nq s -> nth_error (workers s) w = Some WDone
}.

Lemma queued_repeat_nil k : flat_map qitems (repeat {| qown := None; qitems := []; qstop := false |} k) = [].
Proof. induction k; cbn; auto. Qed.

Lemma inflight_repeat_nil k : flat_map inflight (repeat WNotStarted k) = [].
Proof. induction k; cbn; auto. Qed.

Lemma getq_init rc k counts q : q < k -> getq (init rc k counts) q = {| qown := None; qitems := []; qstop := false |}.
Proof. intros H. unfold getq; cbn. now apply nth_repeat. Qed.

Lemma inv_init rc k counts : Inv (init rc k counts).
Proof.
  constructor; cbn; try discriminate.
  - unfold nq; cbn. now rewrite !repeat_length.
  - intros x n pc q H. apply nth_error_map_some in H as (y & _ & E). injection E as -> ->. discriminate.
  - intros w pc q H. apply nth_error_repeat in H as ->. discriminate.
  - unfold queued; cbn. rewrite queued_repeat_nil, inflight_repeat_nil. reflexivity.
  - constructor.
  - intros p j. split; [intros []|]. intros (x & n & pc & -> & H & Hlt).
    apply nth_error_map_some in H as (y & _ & E). injection E as -> ->. cbn in Hlt. lia.
  - intros x n pc H. apply nth_error_map_some in H as (y & _ & E). injection E as -> ->. cbn. split; [lia|exact I].
  - intros w H. apply nth_error_repeat in H. discriminate.
  - intros w H. apply nth_error_repeat in H. discriminate.
  - intros w H. apply nth_error_repeat in H. discriminate.
  - intros w H. apply nth_error_repeat in H. discriminate.
  - intros _ q Hq. unfold nq in Hq; cbn in Hq. rewrite repeat_length in Hq.
    rewrite nth_repeat by exact Hq. discriminate.
  - auto.
Qed.

(* ------------------------------------------------------------------------------------------ *)
(* small facts                                                                                *)

Lemma flat_map_set_nth_same {A B} (f : A -> list B) (l : list A) i old new :
  nth_error l i = Some old -> f new = f old -> flat_map f (set_nth i new l) = flat_map f l.
Proof.
  revert i; induction l as [|y r IH]; intros [|i] H E; cbn in *; try discriminate.
  - injection H as ->. now rewrite E.
  - f_equal. eauto.
Qed.

Lemma getq_nth_error s q : q < nq s -> nth_error (queues s) q = Some (getq s q).
Proof. intros H. unfold getq. now apply nth_nth_error. Qed.

Lemma q_free_spec s q : q_free s q = true <-> q < nq s /\ qown (getq s q) = None.
Proof.
  unfold q_free. rewrite andb_true_iff, Nat.ltb_lt. destruct (qown (getq s q)); intuition congruence.
Qed.

Lemma wake_inflight w : inflight (wake w) = inflight w.
Proof. destruct w as [| | | | |[]| | |]; reflexivity. Qed.

Lemma all_done_nth (l : list (nat * ppc)) i n pc :
  forallb prod_done l = true -> nth_error l i = Some (n, pc) -> exists j, pc = PFetch j /\ n <= j.
Proof.
  rewrite forallb_forall. intros H Hn.
  specialize (H _ (nth_error_In _ _ Hn)). unfold prod_done in H; cbn in H.
  destruct pc; try discriminate. apply Nat.leb_le in H. eauto.
Qed.

Lemma mem_same_pushed (l : list (nat * ppc)) i n pc pc' p j :
  nth_error l i = Some (n, pc) -> pushed pc' = pushed pc ->
  (exists i0 n0 pc0, p = S i0 /\ nth_error (set_nth i (n, pc') l) i0 = Some (n0, pc0) /\ j < pushed pc0) <->
  (exists i0 n0 pc0, p = S i0 /\ nth_error l i0 = Some (n0, pc0) /\ j < pushed pc0).
Proof.
  intros En Hp. assert (Hi : i < length l) by (eapply nth_error_lt; eauto). split.
  - intros (i0 & n0 & pc0 & -> & Hn0 & Hlt).
    apply nth_error_set_nth in Hn0 as [(<- & E & _)|(Hne & Hn0)].
    + injection E as -> ->. exists i, n, pc. rewrite <- Hp. auto.
    + exists i0, n0, pc0. auto.
  - intros (i0 & n0 & pc0 & -> & Hn0 & Hlt). destruct (Nat.eq_dec i i0) as [<-|Hne].
    + rewrite En in Hn0. injection Hn0 as <- <-. exists i, n, pc'.
      rewrite nth_error_set_nth_eq by exact Hi. rewrite Hp. auto.
    + exists i0, n0, pc0. rewrite nth_error_set_nth_neq by exact Hne. auto.
Qed.

(* the workers list after notify *)
Lemma notify_workers s q :
  workers (notify s q) = match nth_error (workers s) q with
                         | Some w => set_nth q (wake w) (workers s) | None => workers s end.
Proof. unfold notify. destruct (nth_error (workers s) q); reflexivity. Qed.

Lemma notify_other s q :
  race (notify s q) = race s /\ next (notify s q) = next s /\ queues (notify s q) = queues s /\
  mainpc (notify s q) = mainpc s /\ prods (notify s q) = prods s /\ enq (notify s q) = enq s /\
  late (notify s q) = late s /\ executed (notify s q) = executed s.
Proof. unfold notify. destruct (nth_error (workers s) q); cbn; auto 10. Qed.

Lemma notify_inflight s q : flat_map inflight (workers (notify s q)) = flat_map inflight (workers s).
Proof.
  rewrite notify_workers. destruct (nth_error (workers s) q) eqn:E; [|reflexivity].
  eapply flat_map_set_nth_same; eauto. apply wake_inflight.
Qed.

Lemma notify_nth s q w pc :
  nth_error (workers (notify s q)) w = Some pc ->
  exists pc0, nth_error (workers s) w = Some pc0 /\ pc = (if Nat.eqb w q then wake pc0 else pc0).
Proof.
  rewrite notify_workers. destruct (nth_error (workers s) q) as [w0|] eqn:E.
  - intros H. apply nth_error_set_nth in H as [(<- & -> & _)|(Hne & H)].
    + exists w0. rewrite Nat.eqb_refl. auto.
    + exists pc. split; [exact H|]. destruct (Nat.eqb_spec w q); [congruence|reflexivity].
  - intros H. exists pc. split; [exact H|]. destruct (Nat.eqb_spec w q) as [->|]; [congruence|reflexivity].
Qed.

Lemma wake_cases w : wake w = w \/ (w = WPopBlocked false /\ wake w = WPopBlocked true).
Proof. destruct w as [| | | | |[]| | |]; cbn; auto. Qed.

Lemma wake_holds w0 w q : holdsW w0 (wake w) q = holdsW w0 w q.
Proof. destruct w as [| | | | |[]| | |]; reflexivity. Qed.

(* what the woken list looks like, by cases on the resulting pc *)
Lemma notify_nth_inv s q w pc :
  nth_error (workers (notify s q)) w = Some pc -> pc <> WPopBlocked true ->
  nth_error (workers s) w = Some pc /\ (pc = WPopBlocked false -> w <> q).
Proof.
  intros H Hne. apply notify_nth in H as (pc0 & Hn & E). destruct (Nat.eqb_spec w q) as [->|Hwq].
  - destruct (wake_cases pc0) as [Ew|[-> Ew]]; rewrite Ew in E; subst pc; [|congruence].
    split; [exact Hn|]. intros ->. cbn in Ew. discriminate.
  - subst. auto.
Qed.

Lemma notify_len s q : length (workers (notify s q)) = length (workers s).
Proof. rewrite notify_workers. destruct (nth_error (workers s) q); [apply set_nth_length|reflexivity]. Qed.

(* ------------------------------------------------------------------------------------------ *)
(* group 1: accounting (nothing lost, nothing duplicated)                                      *)

Definition bound_ok (n : nat) (pc : ppc) : Prop :=
  pushed pc <= n /\ (match pc with PFetch _ => True | PNotify _ _ | PUnlock _ _ => True | _ => pushed pc < n end).

Record Acct (s : st) : Prop := {
  A_acct : Permutation (enq s) (map fst (executed s) ++ flat_map inflight (workers s) ++ queued s);
  A_nodup : NoDup (enq s);
  A_mem : forall p j, In (p, j) (enq s) <->
            exists x n pc, p = S x /\ nth_error (prods s) x = Some (n, pc) /\ j < pushed pc;
  A_bound : forall x n pc, nth_error (prods s) x = Some (n, pc) -> bound_ok n pc
}.

Lemma set_nth_oob {A} (l : list A) i x : length l <= i -> set_nth i x l = l.
Proof. revert i; induction l as [|y r IH]; intros [|i] H; cbn in *; try lia; auto. f_equal. apply IH. lia. Qed.

Lemma queued_set_same s q x :
  qitems x = qitems (getq s q) -> flat_map qitems (set_nth q x (queues s)) = queued s.
Proof.
  intros E. destruct (Nat.lt_ge_cases q (nq s)) as [Hq|Hq].
  - eapply flat_map_set_nth_same; eauto. now apply getq_nth_error.
  - unfold queued. now rewrite set_nth_oob.
Qed.

Lemma inflight_set_same s w p p0 :
  nth_error (workers s) w = Some p0 -> inflight p = inflight p0 ->
  flat_map inflight (set_nth w p (workers s)) = flat_map inflight (workers s).
Proof. intros. eapply flat_map_set_nth_same; eauto. Qed.

(* a step that moves no item *)
Lemma acct_frame s s' :
  Acct s -> enq s' = enq s -> executed s' = executed s ->
  flat_map inflight (workers s') = flat_map inflight (workers s) -> queued s' = queued s ->
  (prods s' = prods s \/
   exists x n pc pc', nth_error (prods s) x = Some (n, pc) /\ prods s' = set_nth x (n, pc') (prods s) /\
                      pushed pc' = pushed pc /\ bound_ok n pc') ->
  Acct s'.
Proof.
  intros [H1 H2 H3 H4] Ee Ex Ei Eq Hp. constructor.
  - now rewrite Ee, Ex, Ei, Eq.
  - now rewrite Ee.
  - intros p j. rewrite Ee, H3. destruct Hp as [->|(x & n & pc & pc' & Hn & -> & Hpu & _)]; [reflexivity|].
    symmetry. eapply mem_same_pushed; eauto.
  - destruct Hp as [->|(x & n & pc & pc' & Hn & -> & Hpu & Hb)]; [exact H4|].
    intros x0 n0 pc0 Hn0. apply nth_error_set_nth in Hn0 as [(<- & E & _)|(Hne & Hn0)]; [|eauto].
    injection E as -> ->. exact Hb.
Qed.

Ltac st_simpl :=
  unfold worker_tid, nq, nprods, queued, all_prods_done in *;
  cbn [race next queues mainpc prods workers enq late executed
       set_queue set_main set_prod set_worker set_next add_enq add_executed
       qown qitems qstop lockq unlockq] in *;
  rewrite ?set_nth_length in *.

Lemma acct_init rc k counts : Acct (init rc k counts).
Proof. destruct (inv_init rc k counts). constructor; auto. Qed.

Lemma step_main_acct s s' evs : Acct s -> step_main s = Some (s', evs) -> Acct s'.
Proof.
  intros A H. unfold step_main in H. destruct (mainpc s) as [i|d q|d q|d q|i|] eqn:Em.
  - destruct (nth_error (workers s) i) as [[]|] eqn:Ew; try discriminate. injection H as <- <-.
    eapply acct_frame; eauto; st_simpl; auto.
    eapply inflight_set_same; eauto.
  - destruct (q_free s q && (negb d || all_prods_done s)) eqn:G; [|discriminate]. injection H as <- <-.
    eapply acct_frame; eauto; st_simpl; auto. now apply queued_set_same.
  - injection H as <- <-. destruct (notify_other s q) as (_ & _ & Eq & _ & Ep & Ee & _ & Ex).
    eapply acct_frame; eauto; st_simpl; auto.
    + apply notify_inflight.
    + now rewrite Eq.
  - injection H as <- <-. eapply acct_frame; eauto; st_simpl; auto. now apply queued_set_same.
  - destruct (nth_error (workers s) i) as [[]|]; try discriminate. injection H as <- <-.
    eapply acct_frame; eauto; st_simpl; auto.
  - discriminate.
Qed.

Lemma step_spur_acct w s s' evs : Acct s -> step_spur w s = Some (s', evs) -> Acct s'.
Proof.
  intros A H. unfold step_spur in H.
  destruct (nth_error (workers s) w) as [[| | | | |[]| | |]|] eqn:Ew; try discriminate. injection H as <- <-.
  eapply acct_frame; eauto; st_simpl; auto. eapply inflight_set_same; eauto.
Qed.

(* a producer pushes its item j on queue q *)
Lemma acct_push s x n pc pc' q o b lt j :
  Acct s -> nth_error (prods s) x = Some (n, pc) -> pushed pc = j -> j < n ->
  pushed pc' = S j -> bound_ok n pc' -> q < nq s ->
  Acct (set_prod (add_enq (set_queue s q {| qown := o; qitems := qitems (getq s q) ++ [(S x, j)]; qstop := b |})
                          (S x, j) lt) x (n, pc')).
Proof.
  intros [H1 H2 H3 H4] En Hpu Hj Hpu' Hb' Hq.
  assert (Hx : x < length (prods s)) by (eapply nth_error_lt; eauto).
  assert (Hfresh : ~ In (S x, j) (enq s)).
  { intros Hin. apply H3 in Hin as (x0 & n0 & pc0 & E & Hn0 & Hl). injection E as <-.
    rewrite En in Hn0. injection Hn0 as <- <-. lia. }
  constructor; st_simpl.
  - destruct (flat_map_set_nth qitems (queues s) q (getq s q) (getq_nth_error s q Hq)) as (R & P1 & P2).
    rewrite (P2 _). cbn [qitems]. unfold queued in H1. rewrite P1 in H1. rewrite H1.
    rewrite <- !app_assoc. rewrite !(app_assoc (map fst (executed s))).
    apply Permutation_app_head.
    (* (ex ++ infl ++ items ++ R) ++ [it]  ~  ex ++ infl ++ (items ++ [it]) ++ R *)
    apply Permutation_app_head. apply Permutation_app_comm.
  - apply NoDup_app_singleton; auto.
  - intros p j0. rewrite in_app_iff, H3. cbn [In]. split.
    + intros [(x0 & n0 & pc0 & -> & Hn0 & Hl)|[E|[]]].
      * destruct (Nat.eq_dec x x0) as [<-|Hne].
        -- rewrite En in Hn0. injection Hn0 as <- <-.
           exists x, n, pc'. rewrite nth_error_set_nth_eq by exact Hx. repeat split; auto; lia.
        -- exists x0, n0, pc0. rewrite nth_error_set_nth_neq by exact Hne. auto.
      * injection E as <- <-. exists x, n, pc'. rewrite nth_error_set_nth_eq by exact Hx.
        repeat split; auto; lia.
    + intros (x0 & n0 & pc0 & -> & Hn0 & Hl).
      apply nth_error_set_nth in Hn0 as [(<- & E & _)|(Hne & Hn0)].
      * injection E as -> ->. rewrite Hpu' in Hl.
        destruct (Nat.eq_dec j0 j) as [->|Hj0]; [right; left; reflexivity|].
        left. exists x, n, pc. repeat split; auto. lia.
      * left. exists x0, n0, pc0. auto.
  - intros x0 n0 pc0 Hn0. apply nth_error_set_nth in Hn0 as [(<- & E & _)|(Hne & Hn0)]; [|eauto].
    injection E as -> ->. exact Hb'.
Qed.

Lemma step_prod_acct x s s' evs : Acct s -> step_prod x s = Some (s', evs) -> Acct s'.
Proof.
  intros A H. unfold step_prod in H.
  destruct (nth_error (prods s) x) as [[n pc]|] eqn:En; [|discriminate].
  pose proof (A_bound s A _ _ _ En) as [Hb1 Hb2].
  destruct pc as [j|j start i|j start|j q|j q]; cbn in Hb1, Hb2.
  - (* PFetch *)
    destruct (Nat.ltb_spec j n) as [Hj|]; [|discriminate]. cbn [andb] in H.
    destruct (Nat.ltb 0 (nq s) && negb match mainpc s with MSpawn _ => true | _ => false end); [|discriminate].
    injection H as <- <-. eapply acct_frame; eauto; st_simpl; auto.
    right. exists x, n, (PFetch j), (PTry j (next s mod length (queues s)) 0). repeat split; auto.
  - (* PTry *)
    destruct (q_free s ((start + i) mod nq s)) eqn:G.
    + apply q_free_spec in G as [Hq _]. unfold do_push in H. injection H as <- <-.
      eapply acct_push; eauto;
        destruct (match qitems (getq s ((start + i) mod nq s)) with [] => true | _ :: _ => false end);
        try split; cbn; auto; lia.
    + injection H as <- <-. eapply acct_frame; eauto; st_simpl; auto.
      right. exists x, n, (PTry j start i). eexists. split; [exact En|]. split; [reflexivity|].
      match goal with |- context [if ?b then _ else _] => destruct b end;
        (split; [reflexivity|split; cbn; auto; lia]).
  - (* PPushLock *)
    destruct (q_free s start) eqn:G; [|discriminate].
    apply q_free_spec in G as [Hq _]. unfold do_push in H. injection H as <- <-.
    eapply acct_push; eauto;
      destruct (match qitems (getq s start) with [] => true | _ :: _ => false end);
      try split; cbn; auto; lia.
  - (* PNotify *)
    injection H as <- <-. destruct (notify_other s q) as (_ & _ & Eq & _ & Ep & Ee & _ & Ex).
    eapply acct_frame; eauto; st_simpl; auto.
    + apply notify_inflight.
    + now rewrite Eq.
    + right. rewrite Ep. exists x, n, (PNotify j q), (PUnlock j q). repeat split; auto.
  - (* PUnlock *)
    injection H as <- <-. eapply acct_frame; eauto; st_simpl; auto.
    + now apply queued_set_same.
    + right. exists x, n, (PUnlock j q), (PFetch (S j)). repeat split; auto.
Qed.

(* a worker takes the front item of queue q *)
Lemma acct_pop s w p0 p q it r o b :
  Acct s -> nth_error (workers s) w = Some p0 -> inflight p0 = [] -> inflight p = [it] ->
  q < nq s -> qitems (getq s q) = it :: r ->
  Acct (set_worker (set_queue s q {| qown := o; qitems := r; qstop := b |}) w p).
Proof.
  intros [H1 H2 H3 H4] Ew Hi0 Hi Hq Eit. constructor; st_simpl; auto.
  destruct (flat_map_set_nth qitems (queues s) q (getq s q) (getq_nth_error s q Hq)) as (R & P1 & P2).
  destruct (flat_map_set_nth inflight (workers s) w p0 Ew) as (R' & P3 & P4).
  rewrite (P2 _), (P4 _). cbn [qitems]. unfold queued in H1. rewrite P1, P3, Eit, Hi0 in H1. rewrite H1, Hi.
  apply Permutation_app_head. cbn. symmetry. apply Permutation_middle.
Qed.

(* a worker completes the item it holds *)
Lemma acct_exec s w p0 p it :
  Acct s -> nth_error (workers s) w = Some p0 -> inflight p0 = [it] -> inflight p = [] ->
  Acct (set_worker (add_executed s it w) w p).
Proof.
  intros [H1 H2 H3 H4] Ew Hi0 Hi. constructor; st_simpl; auto.
  destruct (flat_map_set_nth inflight (workers s) w p0 Ew) as (R' & P3 & P4).
  rewrite (P4 _), Hi. rewrite P3, Hi0 in H1. rewrite H1. rewrite map_app. cbn.
  rewrite <- !app_assoc. reflexivity.
Qed.

(* a worker step that moves no item: its pc changes between states with the same item in flight,
   and possibly one queue's lock/stop fields change *)
Lemma acct_worker_frame s s' w p0 p :
  Acct s -> nth_error (workers s) w = Some p0 -> inflight p = inflight p0 ->
  enq s' = enq s -> executed s' = executed s -> prods s' = prods s ->
  workers s' = set_nth w p (workers s) -> queued s' = queued s -> Acct s'.
Proof.
  intros A Ew Hi Ee Ex Ep Ewk Eq. eapply acct_frame; eauto.
  rewrite Ewk. eapply inflight_set_same; eauto.
Qed.

Lemma pop_acquired_acct s w p0 :
  Acct s -> nth_error (workers s) w = Some p0 -> inflight p0 = [] -> w < nq s -> Acct (pop_acquired s w).
Proof.
  intros A Ew Hi Hw. unfold pop_acquired. destruct (qitems (getq s w)) as [|it r] eqn:Eit.
  - eapply acct_worker_frame with (w := w) (p0 := p0)
      (p := if qstop (getq s w) then WPopUnlock None else WPopWait); eauto; st_simpl; auto.
    + destruct (qstop (getq s w)); now rewrite Hi.
    + apply queued_set_same. cbn. now rewrite Eit.
  - eapply acct_pop; eauto. reflexivity.
Qed.

Lemma step_worker_acct w s s' evs : Acct s -> step_worker w s = Some (s', evs) -> Acct s'.
Proof.
  intros A H. unfold step_worker in H.
  destruct (nth_error (workers s) w) as [pc|] eqn:Ew; [|discriminate].
  destruct pc as [|i|i q t| | |[]|t|t|]; try discriminate.
  - (* WScan *)
    destruct (q_free s ((w + i) mod nq s)) eqn:G.
    + apply q_free_spec in G as [Hq _].
      destruct (qitems (getq s ((w + i) mod nq s))) as [|it r] eqn:Eit; injection H as <- <-.
      * eapply acct_worker_frame with (w := w) (p0 := WScan i)
          (p := WScanUnlock i ((w + i) mod nq s) None); eauto; st_simpl; auto.
        apply queued_set_same. cbn. now rewrite Eit.
      * eapply acct_pop; eauto; reflexivity.
    + injection H as <- <-.
      eapply acct_worker_frame with (w := w) (p0 := WScan i)
        (p := if Nat.eqb (S i) (nq s) then WPopLock else WScan (S i)); eauto; st_simpl; auto.
      match goal with |- context [if ?b then _ else _] => destruct b end; reflexivity.
  - (* WScanUnlock *)
    injection H as <- <-.
    eapply acct_worker_frame with (w := w) (p0 := WScanUnlock i q t)
      (p := match t with Some it => WExec it | None => if Nat.eqb (S i) (nq s) then WPopLock else WScan (S i) end);
      eauto; st_simpl; auto.
    + destruct t; [reflexivity|]. match goal with |- context [if ?b then _ else _] => destruct b end; reflexivity.
    + now apply queued_set_same.
  - (* WPopLock *)
    destruct (q_free s w) eqn:G; [|discriminate]. apply q_free_spec in G as [Hq _].
    injection H as <- <-. eapply pop_acquired_acct; eauto.
  - (* WPopWait *)
    injection H as <- <-.
    eapply acct_worker_frame with (w := w) (p0 := WPopWait) (p := WPopBlocked false); eauto; st_simpl; auto.
    now apply queued_set_same.
  - (* WPopBlocked true *)
    destruct (q_free s w) eqn:G; [|discriminate]. apply q_free_spec in G as [Hq _].
    injection H as <- <-. eapply pop_acquired_acct; eauto.
  - (* WPopUnlock *)
    injection H as <- <-.
    eapply acct_worker_frame with (w := w) (p0 := WPopUnlock t)
      (p := match t with Some it => WExec it | None => WDone end); eauto; st_simpl; auto.
    + destruct t; reflexivity.
    + now apply queued_set_same.
  - (* WExec *)
    injection H as <- <-. eapply acct_exec; eauto; reflexivity.
Qed.

Lemma step_acct t s s' evs : Acct s -> step t s = Some (s', evs) -> Acct s'.
Proof.
  intros A H. unfold step in H.
  destruct (Nat.eqb t 0); [eapply step_main_acct; eauto|].
  destruct (Nat.leb t (nprods s)); [eapply step_prod_acct; eauto|].
  destruct (Nat.leb t (nprods s + nq s)); [eapply step_worker_acct; eauto|].
  destruct (Nat.leb t (nprods s + nq s + nq s)); [eapply step_spur_acct; eauto|discriminate].
Qed.

Theorem acct_reachable rc k counts (sched : list nat) :
  Acct (fst (run step sched (init rc k counts, []))).
Proof.
  apply (run_invariant_state _ _ _ step Acct).
  - intros s t s' ev. apply step_acct.
  - apply acct_init.
Qed.

(* ------------------------------------------------------------------------------------------ *)
(* group 2: mutex ownership, wake-ups, stop                                                    *)

Record Own (s : st) : Prop := {
  O_len : length (workers s) = nq s;
  O_m : forall q, holdsM (mainpc s) q = true -> q < nq s /\ qown (getq s q) = Some 0;
  O_p : forall x n pc q, nth_error (prods s) x = Some (n, pc) -> holdsP pc q = true ->
        q < nq s /\ qown (getq s q) = Some (S x);
  O_w : forall w pc q, nth_error (workers s) w = Some pc -> holdsW w pc q = true ->
        q < nq s /\ qown (getq s q) = Some (worker_tid s w);
  O_wait : forall w, nth_error (workers s) w = Some WPopWait ->
           qitems (getq s w) = [] /\ qstop (getq s w) = false;
  O_blocked : forall w, nth_error (workers s) w = Some (WPopBlocked false) ->
              (qitems (getq s w) = [] \/ exists x n j, nth_error (prods s) x = Some (n, PNotify j w)) /\
              (qstop (getq s w) = false \/ exists d, mainpc s = MStopNotify d w);
  O_ret : forall w, nth_error (workers s) w = Some (WPopUnlock None) ->
          qitems (getq s w) = [] /\ qstop (getq s w) = true;
  O_done : forall w, nth_error (workers s) w = Some WDone ->
           qstop (getq s w) = true /\ incl (qitems (getq s w)) (late s);
  O_race : race s = false -> forall q, q < nq s -> qstop (getq s q) = true -> all_prods_done s = true;
  O_late : race s = false -> late s = [];
  O_d : race s = false ->
        match mainpc s with MStopLock d _ | MStopNotify d _ | MStopUnlock d _ => d = true | _ => True end;
  O_join : forall i, mainpc s = MJoin i -> forall w, w < i -> nth_error (workers s) w = Some WDone;
  O_mdone : mainpc s = MDone -> forall w, w < nq s -> nth_error (workers s) w = Some WDone
}.

Lemma own_init rc k counts : Own (init rc k counts).
Proof. destruct (inv_init rc k counts). constructor; auto. intros _. exact I. Qed.

Lemma getq_set_same_fields s q x q' :
  qitems x = qitems (getq s q) -> qstop x = qstop (getq s q) ->
  qitems (getq (set_queue s q x) q') = qitems (getq s q') /\ qstop (getq (set_queue s q x) q') = qstop (getq s q').
Proof.
  intros E1 E2. destruct (Nat.eq_dec q q') as [<-|Hne].
  - destruct (Nat.lt_ge_cases q (nq s)) as [Hq|Hq].
    + unfold getq at 1 3; cbn. rewrite nth_set_nth_eq by exact Hq. auto.
    + unfold getq; cbn. rewrite set_nth_oob by exact Hq. auto.
  - unfold getq; cbn. rewrite nth_set_nth_neq by exact Hne. auto.
Qed.

(* getq after an update of one queue *)
Lemma getq_set_eq s q x : q < nq s -> getq (set_queue s q x) q = x.
Proof. intros H. unfold getq; cbn. now apply nth_set_nth_eq. Qed.
Lemma getq_set_neq s q q' x : q <> q' -> getq (set_queue s q x) q' = getq s q'.
Proof. intros H. unfold getq; cbn. now apply nth_set_nth_neq. Qed.

(* two different threads cannot both be recorded as owner of the same mutex *)
Lemma owner_distinct s q q' t t' :
  qown (getq s q) = Some t -> qown (getq s q') = Some t' -> t <> t' -> q <> q'.
Proof. intros H1 H2 Hne ->. congruence. Qed.

Lemma free_distinct s q q' t' : qown (getq s q) = None -> qown (getq s q') = Some t' -> q <> q'.
Proof. intros H1 H2 ->. congruence. Qed.

Ltac own_simpl :=
  unfold worker_tid, nq, nprods, all_prods_done, getq in *;
  cbn [race next queues mainpc prods workers enq late executed
       set_queue set_main set_prod set_worker set_next add_enq add_executed] in *;
  rewrite ?set_nth_length in *.

Lemma nth_set_nth_fields (l : list qst) q q' x d :
  qitems x = qitems (nth q l d) -> qstop x = qstop (nth q l d) ->
  qitems (nth q' (set_nth q x l) d) = qitems (nth q' l d) /\
  qstop (nth q' (set_nth q x l) d) = qstop (nth q' l d).
Proof.
  intros E1 E2. destruct (Nat.eq_dec q q') as [<-|Hne].
  - destruct (Nat.lt_ge_cases q (length l)) as [Hq|Hq].
    + rewrite nth_set_nth_eq by exact Hq. auto.
    + rewrite set_nth_oob by exact Hq. auto.
  - rewrite nth_set_nth_neq by exact Hne. auto.
Qed.

Lemma nth_set_nth_stop (l : list qst) q q' x d :
  qstop x = qstop (nth q l d) -> qstop (nth q' (set_nth q x l) d) = qstop (nth q' l d).
Proof.
  intros E2. destruct (Nat.eq_dec q q') as [<-|Hne].
  - destruct (Nat.lt_ge_cases q (length l)) as [Hq|Hq].
    + rewrite nth_set_nth_eq by exact Hq. auto.
    + rewrite set_nth_oob by exact Hq. auto.
  - rewrite nth_set_nth_neq by exact Hne. auto.
Qed.

(* unlocking changes neither the items nor the stop flag of any queue *)
Lemma unlock_fields (l : list qst) q q' d :
  qitems (nth q' (set_nth q (unlockq (nth q l d)) l) d) = qitems (nth q' l d) /\
  qstop (nth q' (set_nth q (unlockq (nth q l d)) l) d) = qstop (nth q' l d).
Proof. apply nth_set_nth_fields; reflexivity. Qed.

Lemma step_main_own s s' evs : Own s -> step_main s = Some (s', evs) -> Own s'.
Proof.
  intros O H. unfold step_main in H. destruct O.
  destruct (mainpc s) as [i|d q|d q|d q|i|] eqn:Em.
  - (* MSpawn *)
    destruct (nth_error (workers s) i) as [[]|] eqn:Ew; try discriminate. injection H as <- <-.
    assert (Hmain : forall q, holdsM (if Nat.eqb (S i) (nq s) then MStopLock (negb (race s)) 0 else MSpawn (S i)) q = false).
    { intros q. destruct (Nat.eqb (S i) (nq s)); reflexivity. }
    constructor; own_simpl; auto.
    + intros q Hh. unfold nq in Hmain. rewrite Hmain in Hh. discriminate.
    + intros w pc q Hn Hh. apply nth_error_set_nth in Hn as [(<- & -> & _)|(Hne & Hn)]; [discriminate|eauto].
    + intros w Hn. apply nth_error_set_nth in Hn as [(<- & E & _)|(Hne & Hn)]; [discriminate|eauto].
    + intros w Hn. apply nth_error_set_nth in Hn as [(<- & E & _)|(Hne & Hn)]; [discriminate|].
      destruct (O_blocked0 w Hn) as [H1 [H2|[d0 H2]]]; [auto|discriminate].
    + intros w Hn. apply nth_error_set_nth in Hn as [(<- & E & _)|(Hne & Hn)]; [discriminate|eauto].
    + intros w Hn. apply nth_error_set_nth in Hn as [(<- & E & _)|(Hne & Hn)]; [discriminate|eauto].
    + intros Hr. destruct (length (queues s)) eqn:El; [exact I|]. destruct (Nat.eqb i n); [|exact I].
      rewrite Hr. reflexivity.
    + intros i0 E. destruct (length (queues s)) eqn:El; [discriminate|]. destruct (Nat.eqb i n); discriminate.
    + intros E. destruct (length (queues s)) eqn:El; [discriminate|]. destruct (Nat.eqb i n); discriminate.
  - (* MStopLock *)
    destruct (q_free s q && (negb d || all_prods_done s)) eqn:G; [|discriminate].
    apply andb_true_iff in G as [G Gd]. apply q_free_spec in G as [Hq Hfree]. injection H as <- <-.
    constructor; own_simpl; auto.
    + intros q' Hh. cbn in Hh. apply Nat.eqb_eq in Hh as ->. split; [exact Hq|]. now rewrite nth_set_nth_eq.
    + intros x0 n pc q' Hn Hh. destruct (O_p0 _ _ _ _ Hn Hh) as [Hq' Ho]. split; [exact Hq'|].
      rewrite nth_set_nth_neq; [exact Ho|]. intros ->. congruence.
    + intros w pc q' Hn Hh. destruct (O_w0 _ _ _ Hn Hh) as [Hq' Ho]. split; [exact Hq'|].
      rewrite nth_set_nth_neq; [exact Ho|]. intros ->. congruence.
    + intros w Hn. destruct (O_w0 w WPopWait w Hn) as [_ Ho]; [cbn; apply Nat.eqb_refl|].
      rewrite nth_set_nth_neq; [auto|]. intros ->. congruence.
    + intros w Hn. destruct (O_blocked0 w Hn) as [H1 H2]. destruct (Nat.eq_dec q w) as [->|Hne].
      * rewrite nth_set_nth_eq by exact Hq. cbn. split; [exact H1|]. right. eauto.
      * rewrite nth_set_nth_neq by exact Hne. split; [exact H1|]. destruct H2 as [H2|[d0 H2]]; [auto|discriminate].
    + intros w Hn. destruct (O_w0 w (WPopUnlock None) w Hn) as [_ Ho]; [cbn; apply Nat.eqb_refl|].
      rewrite nth_set_nth_neq; [auto|]. intros ->. congruence.
    + intros w Hn. destruct (O_done0 w Hn) as [H1 H2]. destruct (Nat.eq_dec q w) as [->|Hne].
      * rewrite nth_set_nth_eq by exact Hq. cbn. auto.
      * rewrite nth_set_nth_neq by exact Hne. auto.
    + intros Hr q' Hq' Hs. specialize (O_d0 Hr). cbn in O_d0. subst d. cbn in Gd.
      destruct (Nat.eq_dec q q') as [->|Hne]; [exact Gd|].
      rewrite nth_set_nth_neq in Hs by exact Hne. eauto.
    + intros i E; discriminate.
    + discriminate.
  - (* MStopNotify *)
    injection H as <- <-. destruct (notify_other s q) as (Er & _ & Eq & _ & Ep & _ & El & _).
    pose proof (notify_len s q) as Elen.
    constructor; own_simpl; rewrite ?Er, ?Eq, ?Ep, ?El, ?Elen in *; auto.
    + intros w pc q' Hn Hh. apply notify_nth in Hn as (pc0 & Hn & ->).
      apply (O_w0 w pc0 q' Hn). destruct (Nat.eqb w q); [now rewrite wake_holds in Hh|exact Hh].
    + intros w Hn. apply notify_nth_inv in Hn as [Hn _]; [auto|discriminate].
    + intros w Hn. apply notify_nth_inv in Hn as [Hn Hwq]; [|discriminate]. specialize (Hwq eq_refl).
      destruct (O_blocked0 w Hn) as [H1 [H2|[d0 H2]]]; split; auto. injection H2 as _ E. congruence.
    + intros w Hn. apply notify_nth_inv in Hn as [Hn _]; [auto|discriminate].
    + intros w Hn. apply notify_nth_inv in Hn as [Hn _]; [auto|discriminate].
    + intros i E; discriminate.
    + discriminate.
  - (* MStopUnlock *)
    injection H as <- <-.
    destruct (O_m0 q) as [Hq Hown]; [cbn; apply Nat.eqb_refl|].
    set (nxt := if Nat.eqb (S q) (nq s) then (if d then MJoin 0 else MStopLock true 0) else MStopLock d (S q)).
    assert (Hnh : forall q', holdsM nxt q' = false).
    { intros q'. unfold nxt. destruct (Nat.eqb (S q) (nq s)); [destruct d|]; reflexivity. }
    constructor; own_simpl; fold nxt; auto.
    + intros q' Hh. rewrite Hnh in Hh. discriminate.
    + intros x0 n pc q' Hn Hh. destruct (O_p0 _ _ _ _ Hn Hh) as [Hq' Ho]. split; [exact Hq'|].
      rewrite nth_set_nth_neq; [exact Ho|]. intros ->. congruence.
    + intros w pc q' Hn Hh. destruct (O_w0 _ _ _ Hn Hh) as [Hq' Ho]. split; [exact Hq'|].
      rewrite nth_set_nth_neq; [exact Ho|]. intros ->. rewrite Hown in Ho. injection Ho as Ho. lia.
    + intros w Hn. destruct (unlock_fields (queues s) q w {| qown := Some 0; qitems := []; qstop := true |}) as [-> ->]. auto.
    + intros w Hn. destruct (unlock_fields (queues s) q w {| qown := Some 0; qitems := []; qstop := true |}) as [-> ->].
      destruct (O_blocked0 w Hn) as [H1 [H2|[d0 H2]]]; [auto|discriminate].
    + intros w Hn. destruct (unlock_fields (queues s) q w {| qown := Some 0; qitems := []; qstop := true |}) as [-> ->]. auto.
    + intros w Hn. destruct (unlock_fields (queues s) q w {| qown := Some 0; qitems := []; qstop := true |}) as [-> ->]. auto.
    + intros Hr q' Hq' Hs.
      destruct (unlock_fields (queues s) q q' {| qown := Some 0; qitems := []; qstop := true |}) as [_ E].
      rewrite E in Hs. eauto.
    + intros Hr. specialize (O_d0 Hr). subst nxt. cbn in O_d0. subst d.
      match goal with |- context [if ?b then _ else _] => destruct b end; cbn; auto.
    + intros i E w Hw. unfold nxt in E.
      match type of E with context [if ?b then _ else _] => destruct b end; [destruct d|]; try discriminate.
      injection E as <-. lia.
    + unfold nxt. match goal with |- context [if ?b then _ else _] => destruct b end; [destruct d|]; discriminate.
  - (* MJoin *)
    destruct (nth_error (workers s) i) as [[]|] eqn:Ew; try discriminate. injection H as <- <-.
    assert (Hjoin : forall w, w < S i -> nth_error (workers s) w = Some WDone).
    { intros w Hw. destruct (Nat.eq_dec w i) as [->|]; [exact Ew|]. apply (O_join0 i eq_refl). lia. }
    constructor; own_simpl; auto.
    + intros q' Hh. match type of Hh with context [if ?b then _ else _] => destruct b end; discriminate.
    + intros w Hn. destruct (O_blocked0 w Hn) as [H1 [H2|[d0 H2]]]; [auto|discriminate].
    + intros Hr. match goal with |- context [if ?b then _ else _] => destruct b end; exact I.
    + intros i0 E w Hw. match type of E with context [if ?b then _ else _] => destruct b end; [discriminate|].
      injection E as <-. auto.
    + intros E w Hw. match type of E with context [if ?b then _ else _] => destruct b eqn:Eb end; [|discriminate].
      apply Hjoin. destruct (length (queues s)) as [|m]; [lia|]. apply Nat.eqb_eq in Eb. lia.
  - discriminate.
Qed.

Ltac wsplit Hn := apply nth_error_set_nth in Hn as [(<- & Hn & _)|(? & Hn)].

Lemma step_spur_own w s s' evs : Own s -> step_spur w s = Some (s', evs) -> Own s'.
Proof.
  intros O H. unfold step_spur in H. destruct O.
  destruct (nth_error (workers s) w) as [[| | | | |[]| | |]|] eqn:Ew; try discriminate. injection H as <- <-.
  constructor; own_simpl; auto.
  - intros w0 pc q Hn Hh. wsplit Hn; [subst; discriminate|eauto].
  - intros w0 Hn. wsplit Hn; [discriminate|eauto].
  - intros w0 Hn. wsplit Hn; [discriminate|eauto].
  - intros w0 Hn. wsplit Hn; [discriminate|eauto].
  - intros w0 Hn. wsplit Hn; [discriminate|eauto].
  - intros i E w0 Hw. rewrite nth_error_set_nth_neq; [eauto|]. intros ->.
    specialize (O_join0 i E w0 Hw). congruence.
  - intros E w0 Hw. rewrite nth_error_set_nth_neq; [eauto|]. intros ->.
    specialize (O_mdone0 E w0 Hw). congruence.
Qed.

Lemma all_done_contra (l : list (nat * ppc)) x n pc :
  forallb prod_done l = true -> nth_error l x = Some (n, pc) ->
  (match pc with PFetch j => j < n | _ => True end) -> False.
Proof. intros H Hn Hp. destruct (all_done_nth l x n pc H Hn) as (j & -> & Hle). lia. Qed.

(* a producer moves between two program counters that hold no mutex (and is not finished) *)
Lemma own_prod_pc s x n pc pc' nx :
  Own s -> nth_error (prods s) x = Some (n, pc) ->
  (forall q, holdsP pc q = false) -> (forall q, holdsP pc' q = false) ->
  (match pc with PFetch j => j < n | _ => True end) ->
  Own (set_prod (set_next s nx) x (n, pc')).
Proof.
  intros O En Hh Hh' Hnd. destruct O. constructor; own_simpl; auto.
  - intros x0 n0 pc0 q Hn Hhq. wsplit Hn; [injection Hn as -> ->; rewrite Hh' in Hhq; discriminate|eauto].
  - intros w Hn. destruct (O_blocked0 w Hn) as [H1 H2]. split; [|exact H2].
    destruct H1 as [H1|(x0 & n0 & j0 & Hn0)]; [auto|]. right. exists x0, n0, j0.
    rewrite nth_error_set_nth_neq; [exact Hn0|]. intros ->. rewrite En in Hn0. injection Hn0 as _ ->.
    specialize (Hh w). cbn in Hh. rewrite Nat.eqb_refl in Hh. discriminate.
  - intros Hr q Hq Hs. exfalso. eapply all_done_contra; eauto.
Qed.

(* a producer acquires the free mutex q and pushes its item *)
Lemma own_push s x n pc j q it :
  Own s -> nth_error (prods s) x = Some (n, pc) -> (forall q', holdsP pc q' = false) ->
  (match pc with PFetch j => j < n | _ => True end) ->
  q < nq s -> qown (getq s q) = None ->
  let xq := getq s q in
  let pc' := if match qitems xq with [] => true | _ => false end then PNotify j q else PUnlock j q in
  Own (set_prod (add_enq (set_queue s q {| qown := Some (S x); qitems := qitems xq ++ [it]; qstop := qstop xq |})
                         it (qstop xq)) x (n, pc')).
Proof.
  intros O En Hh Hnd Hq Hfree xq pc'. destruct O.
  assert (Hx : x < length (prods s)) by (eapply nth_error_lt; eauto).
  assert (Hpc' : forall q', holdsP pc' q' = Nat.eqb q' q).
  { intros q'. unfold pc'. destruct (qitems xq); reflexivity. }
  assert (Hnotdone : forallb prod_done (prods s) = true -> False).
  { intros Hd. eapply all_done_contra; eauto. }
  subst xq. constructor; own_simpl; auto.
  - intros q' Hm. destruct (O_m0 _ Hm) as [Hq' Ho]. split; [exact Hq'|].
    rewrite nth_set_nth_neq; [exact Ho|]. intros ->. congruence.
  - intros x0 n0 pc0 q' Hn Hhq. wsplit Hn.
    + injection Hn as -> ->. rewrite Hpc' in Hhq. apply Nat.eqb_eq in Hhq as ->.
      split; [exact Hq|]. now rewrite nth_set_nth_eq.
    + destruct (O_p0 _ _ _ _ Hn Hhq) as [Hq' Ho]. split; [exact Hq'|].
      rewrite nth_set_nth_neq; [exact Ho|]. intros ->. congruence.
  - intros w pc0 q' Hn Hhq. destruct (O_w0 _ _ _ Hn Hhq) as [Hq' Ho]. split; [exact Hq'|].
    rewrite nth_set_nth_neq; [exact Ho|]. intros ->. congruence.
  - intros w Hn. destruct (O_w0 w WPopWait w Hn) as [_ Ho]; [cbn; apply Nat.eqb_refl|].
    rewrite nth_set_nth_neq; [auto|]. intros ->. congruence.
  - intros w Hn. destruct (O_blocked0 w Hn) as [H1 H2]. destruct (Nat.eq_dec q w) as [->|Hne].
    + rewrite nth_set_nth_eq by exact Hq. cbn [qitems qstop]. split; [|exact H2]. right.
      destruct H1 as [H1|(x0 & n0 & j0 & Hn0)].
      * exists x, n, j. rewrite nth_error_set_nth_eq by exact Hx. unfold pc'. now rewrite H1.
      * exists x0, n0, j0. rewrite nth_error_set_nth_neq; [exact Hn0|]. intros ->.
        rewrite En in Hn0. injection Hn0 as _ ->. specialize (Hh w). cbn in Hh. rewrite Nat.eqb_refl in Hh. discriminate.
    + rewrite nth_set_nth_neq by exact Hne. split; [|exact H2].
      destruct H1 as [H1|(x0 & n0 & j0 & Hn0)]; [auto|]. right.
      exists x0, n0, j0. rewrite nth_error_set_nth_neq; [exact Hn0|]. intros ->.
      rewrite En in Hn0. injection Hn0 as _ ->. specialize (Hh w). cbn in Hh. rewrite Nat.eqb_refl in Hh. discriminate.
  - intros w Hn. destruct (O_w0 w (WPopUnlock None) w Hn) as [_ Ho]; [cbn; apply Nat.eqb_refl|].
    rewrite nth_set_nth_neq; [auto|]. intros ->. congruence.
  - intros w Hn. destruct (O_done0 w Hn) as [H1 H2]. destruct (Nat.eq_dec q w) as [->|Hne].
    + rewrite nth_set_nth_eq by exact Hq. cbn [qitems qstop]. split; [exact H1|]. rewrite H1.
      apply incl_app; [apply incl_appl; exact H2|apply incl_appr, incl_refl].
    + rewrite nth_set_nth_neq by exact Hne. split; [exact H1|].
      destruct (qstop (nth q (queues s) _)); [apply incl_appl|]; exact H2.
  - intros Hr q' Hq' Hs. exfalso. apply Hnotdone.
    rewrite nth_set_nth_stop in Hs by reflexivity. eauto.
  - intros Hr. destruct (qstop (nth q (queues s) _)) eqn:Es; [|auto]. exfalso. apply Hnotdone. eauto.
Qed.

Lemma set_next_same s : set_next s (next s) = s.
Proof. destruct s; reflexivity. Qed.

Lemma step_prod_own x s s' evs : Own s -> step_prod x s = Some (s', evs) -> Own s'.
Proof.
  intros O H. unfold step_prod in H.
  destruct (nth_error (prods s) x) as [[n pc]|] eqn:En; [|discriminate].
  assert (Hx : x < length (prods s)) by (eapply nth_error_lt; eauto).
  destruct pc as [j|j start i|j start|j q|j q].
  - (* PFetch *)
    destruct (Nat.ltb_spec j n) as [Hj|]; [|discriminate]. cbn [andb] in H.
    destruct (Nat.ltb 0 (nq s) && negb match mainpc s with MSpawn _ => true | _ => false end); [|discriminate].
    injection H as <- <-. eapply own_prod_pc; eauto.
  - (* PTry *)
    destruct (q_free s ((start + i) mod nq s)) eqn:G.
    + apply q_free_spec in G as [Hq Hfree]. unfold do_push in H. injection H as <- <-.
      eapply own_push; eauto. exact I.
    + injection H as <- <-. rewrite <- (set_next_same s) at 1. eapply own_prod_pc; eauto.
      * intros q. match goal with |- context [if ?b then _ else _] => destruct b end; reflexivity.
      * exact I.
  - (* PPushLock *)
    destruct (q_free s start) eqn:G; [|discriminate].
    apply q_free_spec in G as [Hq Hfree]. unfold do_push in H. injection H as <- <-.
    eapply own_push; eauto. exact I.
  - (* PNotify *)
    injection H as <- <-. destruct O.
    destruct (notify_other s q) as (Er & _ & Eq & Em & Ep & _ & El & _).
    pose proof (notify_len s q) as Elen.
    constructor; own_simpl; rewrite ?Er, ?Eq, ?Ep, ?El, ?Elen, ?Em in *; auto.
    + intros x0 n0 pc0 q' Hn Hh. wsplit Hn; [injection Hn as -> ->; eapply O_p0; eauto|eauto].
    + intros w pc q' Hn Hh. apply notify_nth in Hn as (pc0 & Hn & ->).
      apply (O_w0 w pc0 q' Hn). destruct (Nat.eqb w q); [now rewrite wake_holds in Hh|exact Hh].
    + intros w Hn. apply notify_nth_inv in Hn as [Hn _]; [auto|discriminate].
    + intros w Hn. apply notify_nth_inv in Hn as [Hn Hwq]; [|discriminate]. specialize (Hwq eq_refl).
      destruct (O_blocked0 w Hn) as [H1 H2]. split; [|exact H2].
      destruct H1 as [H1|(x0 & n0 & j0 & Hn0)]; [auto|]. right. exists x0, n0, j0.
      rewrite nth_error_set_nth_neq; [exact Hn0|]. intros ->. rewrite En in Hn0. injection Hn0 as _ _ E. congruence.
    + intros w Hn. apply notify_nth_inv in Hn as [Hn _]; [auto|discriminate].
    + intros w Hn. apply notify_nth_inv in Hn as [Hn _]; [auto|discriminate].
    + intros Hr q' Hq' Hs. exfalso. eapply (all_done_contra (prods s) x n (PNotify j q)); eauto; exact I.
    + intros i E w Hw. specialize (O_join0 i E w Hw).
      rewrite notify_workers. destruct (nth_error (workers s) q) as [w0|] eqn:Ewq; [|exact O_join0].
      destruct (Nat.eq_dec q w) as [->|Hne]; [|now rewrite nth_error_set_nth_neq].
      rewrite Ewq in O_join0. injection O_join0 as ->. rewrite nth_error_set_nth_eq; [reflexivity|].
      eapply nth_error_lt; eauto.
    + intros E w Hw. specialize (O_mdone0 E w Hw).
      rewrite notify_workers. destruct (nth_error (workers s) q) as [w0|] eqn:Ewq; [|exact O_mdone0].
      destruct (Nat.eq_dec q w) as [->|Hne]; [|now rewrite nth_error_set_nth_neq].
      rewrite Ewq in O_mdone0. injection O_mdone0 as ->. rewrite nth_error_set_nth_eq; [reflexivity|].
      eapply nth_error_lt; eauto.
  - (* PUnlock *)
    injection H as <- <-. destruct O.
    destruct (O_p0 x n (PUnlock j q) q En) as [Hq Hown]; [cbn; apply Nat.eqb_refl|].
    constructor; own_simpl; auto.
    + intros q' Hm. destruct (O_m0 _ Hm) as [Hq' Ho]. split; [exact Hq'|].
      rewrite nth_set_nth_neq; [exact Ho|]. intros ->. congruence.
    + intros x0 n0 pc0 q' Hn Hhq. wsplit Hn; [injection Hn as -> ->; discriminate|].
      destruct (O_p0 _ _ _ _ Hn Hhq) as [Hq' Ho]. split; [exact Hq'|].
      rewrite nth_set_nth_neq; [exact Ho|]. intros ->. rewrite Hown in Ho. injection Ho as Ho. congruence.
    + intros w pc0 q' Hn Hhq. destruct (O_w0 _ _ _ Hn Hhq) as [Hq' Ho]. split; [exact Hq'|].
      rewrite nth_set_nth_neq; [exact Ho|]. intros ->. rewrite Hown in Ho. injection Ho as Ho. lia.
    + intros w Hn. destruct (unlock_fields (queues s) q w {| qown := Some 0; qitems := []; qstop := true |}) as [-> ->]. auto.
    + intros w Hn. destruct (unlock_fields (queues s) q w {| qown := Some 0; qitems := []; qstop := true |}) as [-> ->].
      destruct (O_blocked0 w Hn) as [H1 H2]. split; [|exact H2].
      destruct H1 as [H1|(x0 & n0 & j0 & Hn0)]; [auto|]. right. exists x0, n0, j0.
      rewrite nth_error_set_nth_neq; [exact Hn0|]. intros ->. rewrite En in Hn0. discriminate.
    + intros w Hn. destruct (unlock_fields (queues s) q w {| qown := Some 0; qitems := []; qstop := true |}) as [-> ->]. auto.
    + intros w Hn. destruct (unlock_fields (queues s) q w {| qown := Some 0; qitems := []; qstop := true |}) as [-> ->]. auto.
    + intros Hr q' Hq' Hs. exfalso.
      destruct (unlock_fields (queues s) q q' {| qown := Some 0; qitems := []; qstop := true |}) as [_ E].
      rewrite E in Hs. eapply (all_done_contra (prods s) x n (PUnlock j q)); eauto; exact I.
Qed.

Definition dq : qst := {| qown := Some 0; qitems := []; qstop := true |}.

(* a worker moves between two program counters that hold no mutex; no queue changes *)
Lemma own_worker_pc s s' w pc0 pc' :
  Own s -> nth_error (workers s) w = Some pc0 -> pc0 <> WDone ->
  (forall q, holdsW w pc' q = false) -> pc' <> WPopBlocked false -> pc' <> WDone ->
  race s' = race s -> queues s' = queues s -> mainpc s' = mainpc s -> prods s' = prods s ->
  late s' = late s -> workers s' = set_nth w pc' (workers s) ->
  Own s'.
Proof.
  intros O Ew Hnd Hh' Hb Hd Er Eq Em Ep El Ewk. destruct O.
  assert (Hpw : pc' <> WPopWait) by (intros ->; specialize (Hh' w); cbn in Hh'; rewrite Nat.eqb_refl in Hh'; discriminate).
  assert (Hpu : forall t, pc' <> WPopUnlock t) by (intros t ->; specialize (Hh' w); cbn in Hh'; rewrite Nat.eqb_refl in Hh'; discriminate).
  constructor; own_simpl; rewrite ?Er, ?Eq, ?Em, ?Ep, ?El, ?Ewk in *; rewrite ?set_nth_length; auto.
  - intros w0 pc q Hn Hh. wsplit Hn; [subst; rewrite Hh' in Hh; discriminate|eauto].
  - intros w0 Hn. wsplit Hn; [congruence|eauto].
  - intros w0 Hn. wsplit Hn; [congruence|eauto].
  - intros w0 Hn. wsplit Hn; [exfalso; eapply Hpu; eauto|eauto].
  - intros w0 Hn. wsplit Hn; [congruence|eauto].
  - intros i E w0 Hw. rewrite nth_error_set_nth_neq; [eauto|]. intros ->.
    specialize (O_join0 i E w0 Hw). congruence.
  - intros E w0 Hw. rewrite nth_error_set_nth_neq; [eauto|]. intros ->.
    specialize (O_mdone0 E w0 Hw). congruence.
Qed.

(* a worker acquires the free mutex q; it may remove the front item *)
Lemma own_worker_acquire s w pc0 pc' q x :
  Own s -> nth_error (workers s) w = Some pc0 -> pc0 <> WDone ->
  q < nq s -> qown (getq s q) = None ->
  qown x = Some (worker_tid s w) -> qstop x = qstop (getq s q) ->
  (qitems x = qitems (getq s q) \/ exists it, qitems (getq s q) = it :: qitems x) ->
  (forall q', holdsW w pc' q' = Nat.eqb q' q) -> pc' <> WPopBlocked false -> pc' <> WDone ->
  (pc' = WPopWait -> qitems x = [] /\ qstop x = false) ->
  (pc' = WPopUnlock None -> qitems x = [] /\ qstop x = true) ->
  Own (set_worker (set_queue s q x) w pc').
Proof.
  intros O Ew Hnd Hq Hfree Hox Hsx Hix Hh' Hb Hd Hwait Hret. destruct O.
  assert (Hsub : incl (qitems x) (qitems (getq s q))).
  { destruct Hix as [->|[it ->]]; [apply incl_refl|apply incl_tl, incl_refl]. }
  assert (Hnil : qitems (getq s q) = [] -> qitems x = []).
  { intros E. destruct Hix as [->|[it E']]; [exact E|congruence]. }
  constructor; own_simpl; auto.
  - intros q' Hm. destruct (O_m0 _ Hm) as [Hq' Ho]. split; [exact Hq'|].
    rewrite nth_set_nth_neq; [exact Ho|]. intros ->. congruence.
  - intros x0 n0 pc q' Hn Hhq. destruct (O_p0 _ _ _ _ Hn Hhq) as [Hq' Ho]. split; [exact Hq'|].
    rewrite nth_set_nth_neq; [exact Ho|]. intros ->. congruence.
  - intros w0 pc q' Hn Hhq. wsplit Hn.
    + subst pc. rewrite Hh' in Hhq. apply Nat.eqb_eq in Hhq as ->. split; [exact Hq|].
      now rewrite nth_set_nth_eq.
    + destruct (O_w0 _ _ _ Hn Hhq) as [Hq' Ho]. split; [exact Hq'|].
      rewrite nth_set_nth_neq; [exact Ho|]. intros ->. congruence.
  - intros w0 Hn. wsplit Hn.
    + assert (Hqw : w = q).
      { specialize (Hh' w). rewrite <- Hn in Hh'. cbn in Hh'. rewrite Nat.eqb_refl in Hh'. symmetry in Hh'.
        now apply Nat.eqb_eq in Hh'. }
      subst q. rewrite nth_set_nth_eq by exact Hq. apply Hwait. auto.
    + destruct (O_w0 w0 WPopWait w0 Hn) as [_ Ho]; [cbn; apply Nat.eqb_refl|].
      rewrite nth_set_nth_neq; [auto|]. intros ->. congruence.
  - intros w0 Hn. wsplit Hn; [congruence|]. destruct (O_blocked0 w0 Hn) as [H1 H2].
    destruct (Nat.eq_dec q w0) as [->|Hne].
    + rewrite nth_set_nth_eq by exact Hq. rewrite Hsx. split; [|exact H2].
      destruct H1 as [H1|H1]; [left; auto|right; exact H1].
    + rewrite nth_set_nth_neq by exact Hne. auto.
  - intros w0 Hn. wsplit Hn.
    + assert (Hqw : w = q).
      { specialize (Hh' w). rewrite <- Hn in Hh'. cbn in Hh'. rewrite Nat.eqb_refl in Hh'. symmetry in Hh'.
        now apply Nat.eqb_eq in Hh'. }
      subst q. rewrite nth_set_nth_eq by exact Hq. apply Hret. auto.
    + destruct (O_w0 w0 (WPopUnlock None) w0 Hn) as [_ Ho]; [cbn; apply Nat.eqb_refl|].
      rewrite nth_set_nth_neq; [auto|]. intros ->. congruence.
  - intros w0 Hn. wsplit Hn; [congruence|]. destruct (O_done0 w0 Hn) as [H1 H2].
    destruct (Nat.eq_dec q w0) as [->|Hne].
    + rewrite nth_set_nth_eq by exact Hq. rewrite Hsx. split; [exact H1|].
      eapply incl_tran; eauto.
    + rewrite nth_set_nth_neq by exact Hne. auto.
  - intros Hr q' Hq' Hs. rewrite nth_set_nth_stop in Hs by exact Hsx. eauto.
  - intros i E w0 Hw. rewrite nth_error_set_nth_neq; [eauto|]. intros ->.
    specialize (O_join0 i E w0 Hw). congruence.
  - intros E w0 Hw. rewrite nth_error_set_nth_neq; [eauto|]. intros ->.
    specialize (O_mdone0 E w0 Hw). congruence.
Qed.

(* a worker releases the mutex q it holds *)
Lemma own_worker_release s w pc0 pc' q :
  Own s -> nth_error (workers s) w = Some pc0 -> holdsW w pc0 q = true ->
  (forall q', holdsW w pc' q' = false) ->
  (pc' = WPopBlocked false -> pc0 = WPopWait) -> (pc' = WDone -> pc0 = WPopUnlock None) ->
  Own (set_worker (set_queue s q (unlockq (getq s q))) w pc').
Proof.
  intros O Ew Hh Hh' Hb Hd. destruct O.
  destruct (O_w0 _ _ _ Ew Hh) as [Hq Hown].
  assert (Hnd : pc0 <> WDone) by (intros ->; discriminate).
  assert (Hpw : pc' <> WPopWait) by (intros ->; specialize (Hh' w); cbn in Hh'; rewrite Nat.eqb_refl in Hh'; discriminate).
  assert (Hpu : forall t, pc' <> WPopUnlock t) by (intros t ->; specialize (Hh' w); cbn in Hh'; rewrite Nat.eqb_refl in Hh'; discriminate).
  constructor; own_simpl; auto.
  - intros q' Hm. destruct (O_m0 _ Hm) as [Hq' Ho]. split; [exact Hq'|].
    rewrite nth_set_nth_neq; [exact Ho|]. intros ->. rewrite Hown in Ho. injection Ho as Ho. lia.
  - intros x0 n0 pc q' Hn Hhq. destruct (O_p0 _ _ _ _ Hn Hhq) as [Hq' Ho]. split; [exact Hq'|].
    rewrite nth_set_nth_neq; [exact Ho|]. intros ->. rewrite Hown in Ho. injection Ho as Ho.
    apply nth_error_lt in Hn. lia.
  - intros w0 pc q' Hn Hhq. wsplit Hn; [subst pc; rewrite Hh' in Hhq; discriminate|].
    destruct (O_w0 _ _ _ Hn Hhq) as [Hq' Ho]. split; [exact Hq'|].
    rewrite nth_set_nth_neq; [exact Ho|]. intros ->. rewrite Hown in Ho. injection Ho as Ho. lia.
  - intros w0 Hn. destruct (unlock_fields (queues s) q w0 dq) as [E1 E2]. unfold dq in *. rewrite E1, E2.
    wsplit Hn; [congruence|eauto].
  - intros w0 Hn. destruct (unlock_fields (queues s) q w0 dq) as [E1 E2]. unfold dq in *. rewrite E1, E2.
    wsplit Hn; [|eauto].
    symmetry in Hn. specialize (Hb Hn). subst pc0. destruct (O_wait0 w Ew) as [-> ->]. auto.
  - intros w0 Hn. destruct (unlock_fields (queues s) q w0 dq) as [E1 E2]. unfold dq in *. rewrite E1, E2.
    wsplit Hn; [exfalso; eapply Hpu; eauto|eauto].
  - intros w0 Hn. destruct (unlock_fields (queues s) q w0 dq) as [E1 E2]. unfold dq in *. rewrite E1, E2.
    wsplit Hn; [|eauto].
    symmetry in Hn. specialize (Hd Hn). subst pc0. destruct (O_ret0 w Ew) as [-> ->]. split; [reflexivity|]. intros a [].
  - intros Hr q' Hq' Hs. destruct (unlock_fields (queues s) q q' dq) as [_ E2]. unfold dq in *. rewrite E2 in Hs. eauto.
  - intros i E w0 Hw. rewrite nth_error_set_nth_neq; [eauto|]. intros ->.
    specialize (O_join0 i E w0 Hw). congruence.
  - intros E w0 Hw. rewrite nth_error_set_nth_neq; [eauto|]. intros ->.
    specialize (O_mdone0 E w0 Hw). congruence.
Qed.

Lemma holdsW_own_iff w pc q : (pc = WPopWait \/ exists t, pc = WPopUnlock t) -> holdsW w pc q = Nat.eqb q w.
Proof. intros [->|[t ->]]; reflexivity. Qed.

Lemma pop_acquired_own s w pc0 :
  Own s -> nth_error (workers s) w = Some pc0 -> pc0 <> WDone -> w < nq s -> qown (getq s w) = None ->
  Own (pop_acquired s w).
Proof.
  intros O Ew Hnd Hw Hfree. unfold pop_acquired. destruct (qitems (getq s w)) as [|it r] eqn:Eit.
  - eapply own_worker_acquire; eauto; cbn; auto.
    + intros q'. destruct (qstop (getq s w)); reflexivity.
    + destruct (qstop (getq s w)); discriminate.
    + destruct (qstop (getq s w)); discriminate.
    + destruct (qstop (getq s w)) eqn:Es; [discriminate|]. auto.
    + destruct (qstop (getq s w)) eqn:Es; [auto|discriminate].
  - eapply own_worker_acquire; eauto; cbn; eauto; discriminate.
Qed.

Lemma step_worker_own w s s' evs : Own s -> step_worker w s = Some (s', evs) -> Own s'.
Proof.
  intros O H. unfold step_worker in H.
  destruct (nth_error (workers s) w) as [pc|] eqn:Ew; [|discriminate].
  destruct pc as [|i|i q t| | |[]|t|t|]; try discriminate.
  - (* WScan *)
    destruct (q_free s ((w + i) mod nq s)) eqn:G.
    + apply q_free_spec in G as [Hq Hfree].
      destruct (qitems (getq s ((w + i) mod nq s))) as [|it r] eqn:Eit; injection H as <- <-.
      * eapply own_worker_acquire; eauto; cbn; auto; discriminate.
      * eapply own_worker_acquire; eauto; cbn; eauto; discriminate.
    + injection H as <- <-.
      eapply own_worker_pc with (w := w) (pc0 := WScan i)
        (pc' := if Nat.eqb (S i) (nq s) then WPopLock else WScan (S i)); eauto; try discriminate.
      * intros q. match goal with |- context [if ?b then _ else _] => destruct b end; reflexivity.
      * match goal with |- context [if ?b then _ else _] => destruct b end; discriminate.
      * match goal with |- context [if ?b then _ else _] => destruct b end; discriminate.
  - (* WScanUnlock *)
    injection H as <- <-. eapply own_worker_release; eauto.
    + cbn. apply Nat.eqb_refl.
    + intros q'. destruct t; [reflexivity|]. match goal with |- context [if ?b then _ else _] => destruct b end; reflexivity.
    + destruct t; [discriminate|]. match goal with |- context [if ?b then _ else _] => destruct b end; discriminate.
    + destruct t; [discriminate|]. match goal with |- context [if ?b then _ else _] => destruct b end; discriminate.
  - (* WPopLock *)
    destruct (q_free s w) eqn:G; [|discriminate]. apply q_free_spec in G as [Hq Hfree].
    injection H as <- <-. eapply pop_acquired_own; eauto. discriminate.
  - (* WPopWait *)
    injection H as <- <-. eapply own_worker_release; eauto; try discriminate.
    cbn. apply Nat.eqb_refl.
  - (* WPopBlocked true *)
    destruct (q_free s w) eqn:G; [|discriminate]. apply q_free_spec in G as [Hq Hfree].
    injection H as <- <-. eapply pop_acquired_own; eauto. discriminate.
  - (* WPopUnlock *)
    injection H as <- <-. eapply own_worker_release; eauto.
    + cbn. apply Nat.eqb_refl.
    + intros q'. destruct t; reflexivity.
    + destruct t; discriminate.
    + destruct t; [discriminate|reflexivity].
  - (* WExec *)
    injection H as <- <-.
    eapply own_worker_pc with (w := w) (pc0 := WExec t) (pc' := WScan 0); eauto; try discriminate; reflexivity.
Qed.

Lemma step_own t s s' evs : Own s -> step t s = Some (s', evs) -> Own s'.
Proof.
  intros A H. unfold step in H.
  destruct (Nat.eqb t 0); [eapply step_main_own; eauto|].
  destruct (Nat.leb t (nprods s)); [eapply step_prod_own; eauto|].
  destruct (Nat.leb t (nprods s + nq s)); [eapply step_worker_own; eauto|].
  destruct (Nat.leb t (nprods s + nq s + nq s)); [eapply step_spur_own; eauto|discriminate].
Qed.

Theorem own_reachable rc k counts (sched : list nat) :
  Own (fst (run step sched (init rc k counts, []))).
Proof.
  apply (run_invariant_state _ _ _ step Own).
  - intros s t s' ev. apply step_own.
  - apply own_init.
Qed.

(* ------------------------------------------------------------------------------------------ *)
(* traces                                                                                      *)

Definition enqs (tr : list ev) : list item :=
  flat_map (fun e => match e with EEnq _ it => [it] | _ => [] end) tr.
Definition runs (tr : list ev) : list (item * nat) :=
  flat_map (fun e => match e with ERun it w => [(it, w)] | _ => [] end) tr.

Lemma notify_ghost s q : enq (notify s q) = enq s /\ executed (notify s q) = executed s.
Proof. destruct (notify_other s q) as (_ & _ & _ & _ & _ & E1 & _ & E2). auto. Qed.

Lemma step_ghost t s s' evs :
  step t s = Some (s', evs) -> enq s' = enq s ++ enqs evs /\ executed s' = executed s ++ runs evs.
Proof.
  unfold step.
  destruct (Nat.eqb t 0).
  { unfold step_main. destruct (mainpc s) as [i|d q|d q|d q|i|]; try discriminate.
    - destruct (nth_error (workers s) i) as [[]|]; try discriminate. intros H; injection H as <- <-; cbn; now rewrite !app_nil_r.
    - destruct (q_free s q && (negb d || all_prods_done s)); [|discriminate]. intros H; injection H as <- <-; cbn; now rewrite !app_nil_r.
    - intros H; injection H as <- <-; cbn. destruct (notify_ghost s q) as [-> ->]. now rewrite !app_nil_r.
    - intros H; injection H as <- <-; cbn; now rewrite !app_nil_r.
    - destruct (nth_error (workers s) i) as [[]|]; try discriminate. intros H; injection H as <- <-; cbn; now rewrite !app_nil_r. }
  destruct (Nat.leb t (nprods s)).
  { unfold step_prod, do_push. destruct (nth_error (prods s) (pred t)) as [[n [j|j st0 i|j st0|j q|j q]]|]; try discriminate.
    - destruct (Nat.ltb j n && Nat.ltb 0 (nq s) && negb match mainpc s with MSpawn _ => true | _ => false end); [|discriminate].
      intros H; injection H as <- <-; cbn; now rewrite !app_nil_r.
    - destruct (q_free s ((st0 + i) mod nq s)); intros H; injection H as <- <-; cbn; now rewrite ?app_nil_r.
    - destruct (q_free s st0); [|discriminate]. intros H; injection H as <- <-; cbn; now rewrite ?app_nil_r.
    - intros H; injection H as <- <-; cbn. destruct (notify_ghost s q) as [-> ->]. now rewrite !app_nil_r.
    - intros H; injection H as <- <-; cbn; now rewrite !app_nil_r. }
  destruct (Nat.leb t (nprods s + nq s)).
  { unfold step_worker, pop_acquired. set (w := t - S (nprods s)).
    destruct (nth_error (workers s) w) as [[|i|i q t0| | |[]|t0|t0|]|]; try discriminate.
    - destruct (q_free s ((w + i) mod nq s)); [destruct (qitems (getq s ((w + i) mod nq s)))|];
        intros H; injection H as <- <-; cbn; now rewrite !app_nil_r.
    - intros H; injection H as <- <-; cbn; now rewrite !app_nil_r.
    - destruct (q_free s w); [|discriminate]. destruct (qitems (getq s w));
        intros H; injection H as <- <-; cbn; now rewrite !app_nil_r.
    - intros H; injection H as <- <-; cbn; now rewrite !app_nil_r.
    - destruct (q_free s w); [|discriminate]. destruct (qitems (getq s w));
        intros H; injection H as <- <-; cbn; now rewrite !app_nil_r.
    - intros H; injection H as <- <-; cbn; now rewrite !app_nil_r.
    - intros H; injection H as <- <-; cbn; now rewrite ?app_nil_r. }
  destruct (Nat.leb t (nprods s + nq s + nq s)); [|discriminate].
  unfold step_spur. destruct (nth_error (workers s) (t - S (nprods s + nq s))) as [[| | | | |[]| | |]|]; try discriminate.
  intros H; injection H as <- <-; cbn; now rewrite !app_nil_r.
Qed.

Definition TInv (c : st * list ev) : Prop :=
  enqs (snd c) = enq (fst c) /\ runs (snd c) = executed (fst c).

Theorem tinv_reachable rc k counts (sched : list nat) :
  TInv (run step sched (init rc k counts, [])).
Proof.
  apply (run_invariant _ _ _ step TInv).
  - intros c t s' ev (H1 & H2) H. apply step_ghost in H as (G1 & G2).
    unfold TInv, enqs, runs in *; cbn [fst snd]. rewrite !flat_map_app, H1, H2, G1, G2. auto.
  - split; reflexivity.
Qed.

(* ------------------------------------------------------------------------------------------ *)
(* theorems                                                                                    *)

Lemma flat_map_nil {A B} (f : A -> list B) (l : list A) :
  (forall i x, nth_error l i = Some x -> f x = []) -> flat_map f l = [].
Proof.
  induction l as [|y r IH]; cbn; intros H; [reflexivity|].
  rewrite (H 0 y eq_refl). cbn. apply IH. intros i x Hx. apply (H (S i) x Hx).
Qed.

Lemma params_step t s s' evs :
  step t s = Some (s', evs) -> map fst (prods s') = map fst (prods s) /\ race s' = race s /\ nq s' = nq s.
Proof.
  unfold step.
  destruct (Nat.eqb t 0).
  { unfold step_main. destruct (mainpc s) as [i|d q|d q|d q|i|]; try discriminate.
    - destruct (nth_error (workers s) i) as [[]|]; try discriminate. intros H; injection H as <- <-; cbn; auto.
    - destruct (q_free s q && (negb d || all_prods_done s)); [|discriminate]. intros H; injection H as <- <-; unfold nq; cbn.
      now rewrite set_nth_length.
    - intros H; injection H as <- <-; cbn. destruct (notify_other s q) as (-> & _ & Eq & _ & -> & _). unfold nq; cbn. now rewrite Eq.
    - intros H; injection H as <- <-; unfold nq; cbn; now rewrite set_nth_length.
    - destruct (nth_error (workers s) i) as [[]|]; try discriminate. intros H; injection H as <- <-; cbn; auto. }
  destruct (Nat.leb t (nprods s)).
  { unfold step_prod, do_push. destruct (nth_error (prods s) (pred t)) as [[n [j|j st0 i|j st0|j q|j q]]|] eqn:En; try discriminate.
    - destruct (Nat.ltb j n && Nat.ltb 0 (nq s) && negb match mainpc s with MSpawn _ => true | _ => false end); [|discriminate].
      intros H; injection H as <- <-; unfold nq; cbn. split; [|auto]. revert En. generalize (pred t) as x. 
      intros x En. clear -En. revert x En. induction (prods s) as [|y r IH]; intros [|x] En; cbn in *; try discriminate.
      + injection En as ->. reflexivity.
      + f_equal. eauto.
    - destruct (q_free s ((st0 + i) mod nq s)); intros H; injection H as <- <-; unfold nq; cbn; rewrite ?set_nth_length;
        (split; [|auto]); clear -En; revert En; generalize (pred t) as x; intros x; revert x;
        induction (prods s) as [|y r IH]; intros [|x] En; cbn in *; try discriminate;
        try (injection En as ->; reflexivity); f_equal; eauto.
    - destruct (q_free s st0); [|discriminate]. intros H; injection H as <- <-; unfold nq; cbn; rewrite ?set_nth_length;
        (split; [|auto]); clear -En; revert En; generalize (pred t) as x; intros x; revert x;
        induction (prods s) as [|y r IH]; intros [|x] En; cbn in *; try discriminate;
        try (injection En as ->; reflexivity); f_equal; eauto.
    - intros H; injection H as <- <-; cbn. destruct (notify_other s q) as (Er & _ & Eq & _ & Ep & _). unfold nq; cbn.
      rewrite Er, Eq, Ep. (split; [|auto]); clear -En; revert En; generalize (pred t) as x; intros x; revert x;
        induction (prods s) as [|y r IH]; intros [|x] En; cbn in *; try discriminate;
        try (injection En as ->; reflexivity); f_equal; eauto.
    - intros H; injection H as <- <-; unfold nq; cbn; rewrite ?set_nth_length;
        (split; [|auto]); clear -En; revert En; generalize (pred t) as x; intros x; revert x;
        induction (prods s) as [|y r IH]; intros [|x] En; cbn in *; try discriminate;
        try (injection En as ->; reflexivity); f_equal; eauto. }
  destruct (Nat.leb t (nprods s + nq s)).
  { unfold step_worker, pop_acquired. set (w := t - S (nprods s)).
    destruct (nth_error (workers s) w) as [[|i|i q t0| | |[]|t0|t0|]|]; try discriminate.
    - destruct (q_free s ((w + i) mod nq s)); [destruct (qitems (getq s ((w + i) mod nq s)))|];
        intros H; injection H as <- <-; unfold nq; cbn; now rewrite ?set_nth_length.
    - intros H; injection H as <- <-; unfold nq; cbn; now rewrite ?set_nth_length.
    - destruct (q_free s w); [|discriminate]. destruct (qitems (getq s w));
        intros H; injection H as <- <-; unfold nq; cbn; now rewrite ?set_nth_length.
    - intros H; injection H as <- <-; unfold nq; cbn; now rewrite ?set_nth_length.
    - destruct (q_free s w); [|discriminate]. destruct (qitems (getq s w));
        intros H; injection H as <- <-; unfold nq; cbn; now rewrite ?set_nth_length.
    - intros H; injection H as <- <-; unfold nq; cbn; now rewrite ?set_nth_length.
    - intros H; injection H as <- <-; unfold nq; cbn; now rewrite ?set_nth_length. }
  destruct (Nat.leb t (nprods s + nq s + nq s)); [|discriminate].
  unfold step_spur. destruct (nth_error (workers s) (t - S (nprods s + nq s))) as [[| | | | |[]| | |]|]; try discriminate.
  intros H; injection H as <- <-; cbn; auto.
Qed.

Lemma params_reachable rc k counts (sched : list nat) :
  let s := fst (run step sched (init rc k counts, [])) in
  map fst (prods s) = counts /\ race s = rc /\ nq s = k.
Proof.
  apply (run_invariant_state _ _ _ step (fun s => map fst (prods s) = counts /\ race s = rc /\ nq s = k)).
  - intros s t s' ev (H1 & H2 & H3) H. apply params_step in H as (-> & -> & ->). auto.
  - cbn. split; [|split; [reflexivity|]].
    + rewrite map_map. cbn. apply map_id.
    + unfold nq; cbn. apply repeat_length.
Qed.

Section Reach.
  Variables (rc : bool) (k : nat) (counts : list nat) (sched : list nat).
  Let c := run step sched (init rc k counts, []).
  Let s := fst c.
  Let tr := snd c.
  Let HA : Acct s := acct_reachable rc k counts sched.
  Let HO : Own s := own_reachable rc k counts sched.
  Let HT : TInv c := tinv_reachable rc k counts sched.

  (* nothing is lost or duplicated: every pushed item is completed, held by a worker, or queued *)
  Theorem accounting :
    Permutation (enqs tr) (map fst (runs tr) ++ flat_map inflight (workers s) ++ queued s) /\
    NoDup (enqs tr).
  Proof.
    destruct HT as [H1 H2]. fold tr s in H1, H2. rewrite H1, H2. split; [apply (A_acct s HA)|apply (A_nodup s HA)].
  Qed.

  Theorem at_most_once : NoDup (map fst (runs tr)).
  Proof.
    destruct accounting as [P Hn]. eapply Permutation_NoDup in Hn; [|exact P].
    clear -Hn. induction (map fst (runs tr)) as [|x l IH]; [constructor|].
    cbn in Hn. inversion Hn as [|? ? Hx Hl]; subst. constructor; [|auto].
    intros Hin. apply Hx. apply in_or_app. now left.
  Qed.

  Theorem enq_items_valid : forall p j,
    In (p, j) (enqs tr) -> exists x n, p = S x /\ nth_error counts x = Some n /\ j < n.
  Proof.
    intros p j H. destruct HT as [H1 _]. fold tr s in H1. rewrite H1 in H.
    apply (A_mem s HA) in H as (x & n & pc & -> & Hn & Hlt). exists x, n. split; [reflexivity|].
    destruct (params_reachable rc k counts sched) as (Hc & _). fold c s in Hc. split.
    - rewrite <- Hc, nth_error_map, Hn. reflexivity.
    - destruct (A_bound s HA _ _ _ Hn) as [Hb _]. lia.
  Qed.

  (* pop() returns nullptr only when the worker's own queue is empty and stop was requested; a
     worker that has returned leaves in its queue only items pushed after request_stop reached it *)
  Theorem pop_null_only_if_empty_and_stopped : forall w,
    (nth_error (workers s) w = Some (WPopUnlock None) -> qitems (getq s w) = [] /\ qstop (getq s w) = true) /\
    (nth_error (workers s) w = Some WDone -> qstop (getq s w) = true /\ incl (qitems (getq s w)) (late s)).
  Proof. intros w. split; [apply (O_ret s HO)|apply (O_done s HO)]. Qed.

  (* no lost wake-up: a worker sleeping un-notified in pop() has an empty queue or the notify_one
     of the producer that made it non-empty is pending (that producer holds the queue's mutex), and
     stop is not requested on it or request_stop's notify_one is pending *)
  Theorem no_lost_item : forall w,
    nth_error (workers s) w = Some (WPopBlocked false) ->
    (qitems (getq s w) = [] \/
     exists x n j, nth_error (prods s) x = Some (n, PNotify j w) /\ qown (getq s w) = Some (S x)) /\
    (qstop (getq s w) = false \/ exists d, mainpc s = MStopNotify d w /\ qown (getq s w) = Some 0).
  Proof.
    intros w Hw. destruct (O_blocked s HO w Hw) as [H1 H2]. split.
    - destruct H1 as [H1|(x & n & j & Hn)]; [auto|]. right. exists x, n, j. split; [exact Hn|].
      apply (O_p s HO x n (PNotify j w) w Hn). cbn. apply Nat.eqb_refl.
    - destruct H2 as [H2|[d H2]]; [auto|]. right. exists d. split; [exact H2|].
      apply (O_m s HO w). rewrite H2. cbn. apply Nat.eqb_refl.
  Qed.

  (* whoever is at a program point inside a critical section is the recorded owner of that mutex,
     hence two threads are never inside critical sections of the same mutex *)
  Theorem mutex_owner :
    (forall q, holdsM (mainpc s) q = true -> qown (getq s q) = Some 0) /\
    (forall x n pc q, nth_error (prods s) x = Some (n, pc) -> holdsP pc q = true -> qown (getq s q) = Some (S x)) /\
    (forall w pc q, nth_error (workers s) w = Some pc -> holdsW w pc q = true ->
                    qown (getq s q) = Some (worker_tid s w)).
  Proof.
    repeat split.
    - intros q H. apply (O_m s HO q H).
    - intros x n pc q Hn H. apply (O_p s HO x n pc q Hn H).
    - intros w pc q Hn H. apply (O_w s HO w pc q Hn H).
  Qed.

  (* the destructor joins every thread: the owner is finished only after every worker returned *)
  Theorem joined : mainpc s = MDone -> forall w, w < k -> nth_error (workers s) w = Some WDone.
  Proof.
    intros Hm w Hw. destruct (params_reachable rc k counts sched) as (_ & _ & Hk). fold c s in Hk.
    apply (O_mdone s HO Hm). lia.
  Qed.

  Lemma final_workers_done :
    final s = true -> (forall w pc, nth_error (workers s) w = Some pc -> pc = WDone) /\ all_prods_done s = true.
  Proof.
    unfold final. destruct (mainpc s) eqn:Em; try discriminate. rewrite andb_true_iff. intros [Hp Hw].
    split; [|exact Hp]. intros w pc Hn. rewrite forallb_forall in Hw.
    specialize (Hw pc (nth_error_In _ _ Hn)). destruct pc; try discriminate. reflexivity.
  Qed.

  (* when everything has finished: what was not completed is still queued, and was pushed into a
     queue after request_stop had reached that queue *)
  Theorem final_accounting :
    final s = true ->
    Permutation (enqs tr) (map fst (runs tr) ++ queued s) /\ incl (queued s) (late s) /\
    forall x n j, nth_error counts x = Some n -> j < n -> In (S x, j) (enqs tr).
  Proof.
    intros Hf. destruct (final_workers_done Hf) as [Hw Hp].
    destruct accounting as [P _].
    assert (Hin : flat_map inflight (workers s) = []).
    { apply flat_map_nil. intros i x Hx. now rewrite (Hw i x Hx). }
    rewrite Hin in P. cbn in P. split; [exact P|]. split.
    - unfold queued. intros it Hit. apply in_flat_map in Hit as (xq & Hxq & Hit).
      apply In_nth_error in Hxq as [q Hq].
      assert (Hql : q < nq s) by (eapply nth_error_lt; eauto).
      assert (Hwq : nth_error (workers s) q = Some WDone).
      { destruct (nth_error (workers s) q) as [pc|] eqn:E.
        - now rewrite (Hw q pc E).
        - apply nth_error_None in E. rewrite (O_len s HO) in E. lia. }
      destruct (O_done s HO q Hwq) as [_ Hincl]. apply Hincl.
      unfold getq. now rewrite (nth_error_nth _ _ _ _ Hq).
    - intros x n j Hn Hj. destruct HT as [H1 _]. fold tr s in H1. rewrite H1. apply (A_mem s HA).
      destruct (params_reachable rc k counts sched) as (Hc & _). fold c s in Hc.
      rewrite <- Hc in Hn. apply nth_error_map_some in Hn as ([n' pc] & Hn & ->).
      exists x, n', pc. repeat split; auto. cbn in Hj.
      destruct (all_done_nth _ _ _ _ Hp Hn) as (j' & -> & Hle). cbn. lia.
  Qed.

  (* the destructor after the last start() returned (no racing request_stop): when everything has
     finished every started operation has completed exactly once *)
  Theorem exactly_once_final :
    rc = false -> final s = true ->
    Permutation (map fst (runs tr)) (enqs tr) /\ NoDup (map fst (runs tr)) /\
    forall x n j, nth_error counts x = Some n -> j < n -> In (S x, j) (map fst (runs tr)).
  Proof.
    intros Hrc Hf. destruct (final_accounting Hf) as (P & Hincl & Hall).
    destruct (params_reachable rc k counts sched) as (_ & Hr & _). fold c s in Hr.
    assert (Hl : late s = []) by (apply (O_late s HO); congruence).
    assert (Hq : queued s = []).
    { rewrite Hl in Hincl. destruct (queued s) as [|a l]; [reflexivity|]. destruct (Hincl a). now left. }
    rewrite Hq, app_nil_r in P. split; [now symmetry|]. split; [apply at_most_once|].
    intros x n j Hn Hj. eapply Permutation_in; [exact P|]. eauto.
  Qed.
End Reach.

(* a completion happens in a step of a worker thread of the pool *)
Theorem completion_on_worker rc k counts (sched1 : list nat) t s' evs it w :
  let s := fst (run step sched1 (init rc k counts, [])) in
  step t s = Some (s', evs) -> In (ERun it w) evs -> t = worker_tid s w /\ w < nq s.
Proof.
  intros s H Hin. unfold step in H.
  destruct (Nat.eqb t 0).
  { exfalso. unfold step_main in H. destruct (mainpc s) as [i|d q|d q|d q|i|]; try discriminate.
    - destruct (nth_error (workers s) i) as [[]|]; try discriminate. injection H as <- <-. cbn in Hin; intuition discriminate.
    - destruct (q_free s q && (negb d || all_prods_done s)); [|discriminate]. injection H as <- <-. cbn in Hin; intuition discriminate.
    - injection H as <- <-. cbn in Hin; intuition discriminate.
    - injection H as <- <-. cbn in Hin; intuition discriminate.
    - destruct (nth_error (workers s) i) as [[]|]; try discriminate. injection H as <- <-. cbn in Hin; intuition discriminate. }
  destruct (Nat.leb_spec t (nprods s)) as [|Htp].
  { exfalso. unfold step_prod, do_push in H.
    destruct (nth_error (prods s) (pred t)) as [[n [j|j st0 i|j st0|j q|j q]]|]; try discriminate.
    - destruct (Nat.ltb j n && Nat.ltb 0 (nq s) && negb match mainpc s with MSpawn _ => true | _ => false end); [|discriminate].
      injection H as <- <-. cbn in Hin; intuition discriminate.
    - destruct (q_free s ((st0 + i) mod nq s)); injection H as <- <-; cbn in Hin; intuition discriminate.
    - destruct (q_free s st0); [|discriminate]. injection H as <- <-; cbn in Hin; intuition discriminate.
    - injection H as <- <-. cbn in Hin; intuition discriminate.
    - injection H as <- <-. cbn in Hin; intuition discriminate. }
  destruct (Nat.leb_spec t (nprods s + nq s)) as [Htk|].
  { unfold step_worker, pop_acquired in H. set (w0 := t - S (nprods s)) in *.
    destruct (nth_error (workers s) w0) as [[|i|i q t0| | |[]|t0|t0|]|]; try discriminate.
    - exfalso. destruct (q_free s ((w0 + i) mod nq s)); [destruct (qitems (getq s ((w0 + i) mod nq s)))|];
        injection H as <- <-; cbn in Hin; intuition discriminate.
    - exfalso. injection H as <- <-. cbn in Hin; intuition discriminate.
    - exfalso. destruct (q_free s w0); [|discriminate]. destruct (qitems (getq s w0));
        injection H as <- <-; cbn in Hin; intuition discriminate.
    - exfalso. injection H as <- <-. cbn in Hin; intuition discriminate.
    - exfalso. destruct (q_free s w0); [|discriminate]. destruct (qitems (getq s w0));
        injection H as <- <-; cbn in Hin; intuition discriminate.
    - exfalso. injection H as <- <-. cbn in Hin; intuition discriminate.
    - injection H as <- <-. cbn in Hin. destruct Hin as [E|[]]. injection E as <- <-.
      unfold worker_tid, w0. split; lia. }
  exfalso. destruct (Nat.leb t (nprods s + nq s + nq s)); [|discriminate].
  unfold step_spur in H. destruct (nth_error (workers s) (t - S (nprods s + nq s))) as [[| | | | |[]| | |]|]; try discriminate.
  injection H as <- <-. cbn in Hin; intuition discriminate.
Qed.

(* ------------------------------------------------------------------------------------------ *)
(* group 3: progress.  The converse of the ownership invariant (a recorded owner is at a       *)
(* program point inside that critical section) and the spawn / stop-pass bookkeeping.          *)

Definition holder (s : st) (t q : nat) : Prop :=
  (t = 0 /\ holdsM (mainpc s) q = true) \/
  (exists x n pc, t = S x /\ nth_error (prods s) x = Some (n, pc) /\ holdsP pc q = true) \/
  (exists w pc, t = worker_tid s w /\ nth_error (workers s) w = Some pc /\ holdsW w pc q = true).

Definition Rev (s : st) : Prop :=
  forall q t, q < nq s -> qown (getq s q) = Some t -> holder s t q.

(* how the holders of one state carry over to another *)
Lemma holder_transfer s s' t q :
  holder s t q -> nprods s' = nprods s ->
  (holdsM (mainpc s) q = true -> holdsM (mainpc s') q = true) ->
  (forall x n pc, nth_error (prods s) x = Some (n, pc) -> holdsP pc q = true ->
                  exists n' pc', nth_error (prods s') x = Some (n', pc') /\ holdsP pc' q = true) ->
  (forall w pc, nth_error (workers s) w = Some pc -> holdsW w pc q = true ->
                exists pc', nth_error (workers s') w = Some pc' /\ holdsW w pc' q = true) ->
  holder s' t q.
Proof.
  intros [[-> Hm]|[(x & n & pc & -> & Hn & Hh)|(w & pc & -> & Hn & Hh)]] Hp HM HP HW.
  - left. auto.
  - right; left. destruct (HP _ _ _ Hn Hh) as (n' & pc' & Hn' & Hh'). exists x, n', pc'. auto.
  - right; right. destruct (HW _ _ Hn Hh) as (pc' & Hn' & Hh'). exists w, pc'.
    unfold worker_tid. rewrite Hp. auto.
Qed.

Lemma rev_frame s s' :
  Rev s -> nq s' = nq s -> (forall q, qown (getq s' q) = qown (getq s q)) ->
  (forall t q, holder s t q -> holder s' t q) -> Rev s'.
Proof. intros R Hk Ho Hh q t Hq Hown. rewrite Hk in Hq. rewrite Ho in Hown. auto. Qed.

(* thread t0 acquires the free mutex q0 *)
Lemma rev_acquire s s' q0 t0 :
  Rev s -> nq s' = nq s -> qown (getq s' q0) = Some t0 ->
  (forall q, q <> q0 -> qown (getq s' q) = qown (getq s q)) ->
  holder s' t0 q0 ->
  (forall t q, q <> q0 -> holder s t q -> holder s' t q) -> Rev s'.
Proof.
  intros R Hk Ho0 Ho Hh0 Hh q t Hq Hown. rewrite Hk in Hq. destruct (Nat.eq_dec q q0) as [->|Hne].
  - rewrite Ho0 in Hown. injection Hown as <-. exact Hh0.
  - rewrite (Ho _ Hne) in Hown. auto.
Qed.

(* the mutex q0 is released *)
Lemma rev_release s s' q0 :
  Rev s -> nq s' = nq s -> qown (getq s' q0) = None ->
  (forall q, q <> q0 -> qown (getq s' q) = qown (getq s q)) ->
  (forall t q, q <> q0 -> holder s t q -> holder s' t q) -> Rev s'.
Proof.
  intros R Hk Ho0 Ho Hh q t Hq Hown. rewrite Hk in Hq. destruct (Nat.eq_dec q q0) as [->|Hne].
  - rewrite Ho0 in Hown. discriminate.
  - rewrite (Ho _ Hne) in Hown. auto.
Qed.

Lemma rev_init rc k counts : Rev (init rc k counts).
Proof.
  intros q t Hq Ho. unfold nq in Hq; cbn in Hq. rewrite repeat_length in Hq.
  rewrite getq_init in Ho by exact Hq. discriminate.
Qed.

(* qown after set_queue *)
Lemma qown_set_eq s q x : q < nq s -> qown (getq (set_queue s q x) q) = qown x.
Proof. intros H. now rewrite getq_set_eq. Qed.
Lemma qown_set_neq s q q' x : q' <> q -> qown (getq (set_queue s q x) q') = qown (getq s q').
Proof. intros H. rewrite getq_set_neq; auto. Qed.

Lemma holder_same_pw s s' t q :
  prods s' = prods s -> workers s' = workers s ->
  (holdsM (mainpc s) q = true -> holdsM (mainpc s') q = true) ->
  holder s t q -> holder s' t q.
Proof.
  intros Ep Ew HM H. eapply holder_transfer; eauto.
  - unfold nprods. now rewrite Ep.
  - rewrite Ep. eauto.
  - rewrite Ew. eauto.
Qed.

Lemma holder_set_prod s s' x n pc pc' t q :
  mainpc s' = mainpc s -> workers s' = workers s -> prods s' = set_nth x (n, pc') (prods s) ->
  nth_error (prods s) x = Some (n, pc) -> (holdsP pc q = true -> holdsP pc' q = true) ->
  holder s t q -> holder s' t q.
Proof.
  intros Em Ew Ep En Hh H. eapply holder_transfer; eauto.
  - unfold nprods. rewrite Ep. apply set_nth_length.
  - now rewrite Em.
  - intros x0 n0 pc0 Hn0 Hh0. rewrite Ep. destruct (Nat.eq_dec x x0) as [<-|Hne].
    + rewrite En in Hn0. injection Hn0 as <- <-. exists n, pc'.
      rewrite nth_error_set_nth_eq by (eapply nth_error_lt; eauto). auto.
    + exists n0, pc0. rewrite nth_error_set_nth_neq by exact Hne. auto.
  - rewrite Ew. eauto.
Qed.

Lemma holder_set_worker s s' w pc pc' t q :
  mainpc s' = mainpc s -> prods s' = prods s -> workers s' = set_nth w pc' (workers s) ->
  nth_error (workers s) w = Some pc -> (holdsW w pc q = true -> holdsW w pc' q = true) ->
  holder s t q -> holder s' t q.
Proof.
  intros Em Ep Ew En Hh H. eapply holder_transfer; eauto.
  - unfold nprods. now rewrite Ep.
  - now rewrite Em.
  - rewrite Ep. eauto.
  - intros w0 pc0 Hn0 Hh0. rewrite Ew. destruct (Nat.eq_dec w w0) as [<-|Hne].
    + rewrite En in Hn0. injection Hn0 as <-. exists pc'.
      rewrite nth_error_set_nth_eq by (eapply nth_error_lt; eauto). auto.
    + exists pc0. rewrite nth_error_set_nth_neq by exact Hne. auto.
Qed.

Lemma notify_fwd s q w pc :
  nth_error (workers s) w = Some pc ->
  nth_error (workers (notify s q)) w = Some (if Nat.eqb w q then wake pc else pc).
Proof.
  intros Hn. rewrite notify_workers. destruct (Nat.eqb_spec w q) as [->|Hne].
  - rewrite Hn. rewrite nth_error_set_nth_eq by (eapply nth_error_lt; eauto). reflexivity.
  - destruct (nth_error (workers s) q); [|exact Hn]. rewrite nth_error_set_nth_neq; auto.
Qed.

Lemma notify_holds s q w pc q' :
  nth_error (workers s) w = Some pc -> holdsW w pc q' = true ->
  exists pc', nth_error (workers (notify s q)) w = Some pc' /\ holdsW w pc' q' = true.
Proof.
  intros Hn Hh. eexists. split; [apply notify_fwd; exact Hn|].
  destruct (Nat.eqb w q); [now rewrite wake_holds|exact Hh].
Qed.

Lemma getq_notify s q q' : getq (notify s q) q' = getq s q'.
Proof. unfold getq. destruct (notify_other s q) as (_ & _ & -> & _). reflexivity. Qed.

Lemma nq_notify s q : nq (notify s q) = nq s.
Proof. unfold nq. destruct (notify_other s q) as (_ & _ & -> & _). reflexivity. Qed.

Lemma step_main_rev s s' evs : Own s -> Rev s -> step_main s = Some (s', evs) -> Rev s'.
Proof.
  intros O R H. unfold step_main in H.
  destruct (mainpc s) as [i|d q|d q|d q|i|] eqn:Em.
  - (* MSpawn *)
    destruct (nth_error (workers s) i) as [[]|] eqn:Ew; try discriminate. injection H as <- <-.
    eapply rev_frame; eauto.
    intros t q Hh. eapply holder_transfer; [exact Hh|reflexivity| | | ].
    + cbn. rewrite Em. discriminate.
    + cbn. eauto.
    + cbn. intros w pc Hn Hw. destruct (Nat.eq_dec i w) as [<-|Hne].
      * rewrite Ew in Hn. injection Hn as <-. discriminate.
      * exists pc. rewrite nth_error_set_nth_neq by exact Hne. auto.
  - (* MStopLock *)
    destruct (q_free s q && (negb d || all_prods_done s)) eqn:G; [|discriminate].
    apply andb_true_iff in G as [G _]. apply q_free_spec in G as [Hq Hfree]. injection H as <- <-.
    eapply (rev_acquire s _ q 0); eauto.
    + unfold nq; cbn. apply set_nth_length.
    + change (qown (getq (set_queue s q {| qown := Some 0; qitems := qitems (getq s q); qstop := true |}) q) = Some 0).
      now rewrite qown_set_eq.
    + intros q' Hne. change (getq (set_main ?a ?b) q') with (getq a q'). now rewrite qown_set_neq.
    + left. split; [reflexivity|]. cbn. apply Nat.eqb_refl.
    + intros t q' Hne Hh. eapply (holder_same_pw s); [reflexivity|reflexivity| |exact Hh]. cbn. rewrite Em. discriminate.
  - (* MStopNotify *)
    injection H as <- <-. eapply rev_frame; eauto.
    + change (nq (notify s q) = nq s). apply nq_notify.
    + intros q'. change (qown (getq (notify s q) q') = qown (getq s q')). now rewrite getq_notify.
    + intros t q' Hh. destruct (notify_other s q) as (_ & _ & _ & _ & Ep & _).
      eapply holder_transfer; [exact Hh| | | | ].
      * unfold nprods; cbn. now rewrite Ep.
      * cbn. rewrite Em. auto.
      * cbn. rewrite Ep. eauto.
      * cbn. intros w pc Hn Hw. eapply notify_holds; eauto.
  - (* MStopUnlock *)
    injection H as <- <-.
    destruct (O_m s O q) as [Hq Hown]; [rewrite Em; cbn; apply Nat.eqb_refl|].
    eapply (rev_release s _ q); eauto.
    + unfold nq; cbn. apply set_nth_length.
    + change (qown (getq (set_queue s q (unlockq (getq s q))) q) = None). now rewrite qown_set_eq.
    + intros q' Hne. change (getq (set_main ?a ?b) q') with (getq a q'). now rewrite qown_set_neq.
    + intros t q' Hne Hh. eapply (holder_same_pw s); [reflexivity|reflexivity| |exact Hh]. cbn. rewrite Em. cbn.
      intros E. apply Nat.eqb_eq in E. congruence.
  - (* MJoin *)
    destruct (nth_error (workers s) i) as [[]|] eqn:Ew; try discriminate. injection H as <- <-.
    eapply rev_frame; eauto. intros t q Hh. eapply (holder_same_pw s); [reflexivity|reflexivity| |exact Hh]. cbn. rewrite Em. discriminate.
  - discriminate.
Qed.

Lemma step_spur_rev w s s' evs : Rev s -> step_spur w s = Some (s', evs) -> Rev s'.
Proof.
  intros R H. unfold step_spur in H.
  destruct (nth_error (workers s) w) as [[| | | | |[]| | |]|] eqn:Ew; try discriminate. injection H as <- <-.
  eapply rev_frame; eauto. intros t q Hh.
  eapply (holder_set_worker s); [reflexivity|reflexivity|reflexivity|exact Ew| |exact Hh]. discriminate.
Qed.

(* a producer acquires q and pushes *)
Lemma rev_push s x n pc q it b pc' :
  Rev s -> nth_error (prods s) x = Some (n, pc) -> (forall q', holdsP pc q' = false) ->
  q < nq s -> holdsP pc' q = true ->
  Rev (set_prod (add_enq (set_queue s q {| qown := Some (S x); qitems := qitems (getq s q) ++ [it]; qstop := qstop (getq s q) |})
                         it b) x (n, pc')).
Proof.
  intros R En Hh Hq Hh'.
  assert (Hx : x < length (prods s)) by (eapply nth_error_lt; eauto).
  eapply (rev_acquire s _ q (S x)); eauto.
  - unfold nq; cbn. apply set_nth_length.
  - match goal with |- qown (getq ?s0 q) = _ =>
      change (qown (getq (set_queue s q {| qown := Some (S x); qitems := qitems (getq s q) ++ [it]; qstop := qstop (getq s q) |}) q) = Some (S x)) end.
    now rewrite qown_set_eq.
  - intros q' Hne.
    match goal with |- qown (getq ?s0 q') = _ =>
      change (qown (getq (set_queue s q {| qown := Some (S x); qitems := qitems (getq s q) ++ [it]; qstop := qstop (getq s q) |}) q') = qown (getq s q')) end.
    now rewrite qown_set_neq.
  - right; left. exists x, n, pc'. split; [reflexivity|]. split; [|exact Hh'].
    cbn. now apply nth_error_set_nth_eq.
  - intros t q' Hne Hho.
    eapply (holder_set_prod s); [reflexivity|reflexivity|reflexivity|exact En| |exact Hho].
    rewrite Hh. discriminate.
Qed.

Lemma step_prod_rev x s s' evs : Own s -> Rev s -> step_prod x s = Some (s', evs) -> Rev s'.
Proof.
  intros O R H. unfold step_prod in H.
  destruct (nth_error (prods s) x) as [[n pc]|] eqn:En; [|discriminate].
  destruct pc as [j|j start i|j start|j q|j q].
  - (* PFetch *)
    destruct (Nat.ltb j n && Nat.ltb 0 (nq s) && negb match mainpc s with MSpawn _ => true | _ => false end); [|discriminate].
    injection H as <- <-. eapply rev_frame; eauto. intros t q Hh.
    eapply (holder_set_prod s); [reflexivity|reflexivity|reflexivity|exact En| |exact Hh]. discriminate.
  - (* PTry *)
    destruct (q_free s ((start + i) mod nq s)) eqn:G.
    + apply q_free_spec in G as [Hq Hfree]. unfold do_push in H. injection H as <- <-.
      eapply rev_push; eauto.
      destruct (match qitems (getq s ((start + i) mod nq s)) with [] => true | _ :: _ => false end); cbn; apply Nat.eqb_refl.
    + injection H as <- <-. eapply rev_frame; eauto. intros t q Hh.
      eapply (holder_set_prod s); [reflexivity|reflexivity|reflexivity|exact En| |exact Hh]. discriminate.
  - (* PPushLock *)
    destruct (q_free s start) eqn:G; [|discriminate].
    apply q_free_spec in G as [Hq Hfree]. unfold do_push in H. injection H as <- <-.
    eapply rev_push; eauto.
    destruct (match qitems (getq s start) with [] => true | _ :: _ => false end); cbn; apply Nat.eqb_refl.
  - (* PNotify *)
    injection H as <- <-. destruct (notify_other s q) as (_ & _ & _ & Em & Ep & _).
    eapply rev_frame; eauto.
    + change (nq (notify s q) = nq s). apply nq_notify.
    + intros q'. change (qown (getq (notify s q) q') = qown (getq s q')). now rewrite getq_notify.
    + intros t q' Hh. eapply holder_transfer; [exact Hh| | | | ].
      * unfold nprods; cbn. rewrite Ep. apply set_nth_length.
      * cbn. now rewrite Em.
      * cbn. rewrite Ep. intros x0 n0 pc0 Hn0 Hh0. destruct (Nat.eq_dec x x0) as [<-|Hne].
        -- rewrite En in Hn0. injection Hn0 as <- <-. exists n, (PUnlock j q).
           rewrite nth_error_set_nth_eq by (eapply nth_error_lt; eauto). auto.
        -- exists n0, pc0. rewrite nth_error_set_nth_neq by exact Hne. auto.
      * cbn. intros w pc Hn Hw. eapply notify_holds; eauto.
  - (* PUnlock *)
    injection H as <- <-.
    destruct (O_p s O x n (PUnlock j q) q En) as [Hq Hown]; [cbn; apply Nat.eqb_refl|].
    eapply (rev_release s _ q); eauto.
    + unfold nq; cbn. apply set_nth_length.
    + change (qown (getq (set_queue s q (unlockq (getq s q))) q) = None). now rewrite qown_set_eq.
    + intros q' Hne. change (qown (getq (set_queue s q (unlockq (getq s q))) q') = qown (getq s q')). now rewrite qown_set_neq.
    + intros t q' Hne Hh.
      eapply (holder_set_prod s); [reflexivity|reflexivity|reflexivity|exact En| |exact Hh].
      cbn. intros E. apply Nat.eqb_eq in E. congruence.
Qed.

(* a worker acquires q (its pc changes to one that holds q) *)
Lemma rev_worker_acquire s w pc0 pc' q x :
  Rev s -> nth_error (workers s) w = Some pc0 -> (forall q', holdsW w pc0 q' = false) ->
  q < nq s -> qown x = Some (worker_tid s w) -> holdsW w pc' q = true ->
  Rev (set_worker (set_queue s q x) w pc').
Proof.
  intros R Ew Hh Hq Hox Hh'.
  eapply (rev_acquire s _ q (worker_tid s w)); eauto.
  - unfold nq; cbn. apply set_nth_length.
  - change (qown (getq (set_queue s q x) q) = Some (worker_tid s w)). now rewrite qown_set_eq.
  - intros q' Hne. change (qown (getq (set_queue s q x) q') = qown (getq s q')). now rewrite qown_set_neq.
  - right; right. exists w, pc'. split; [reflexivity|]. split; [|exact Hh'].
    cbn. apply nth_error_set_nth_eq. eapply nth_error_lt; eauto.
  - intros t q' Hne Hho.
    eapply (holder_set_worker s); [reflexivity|reflexivity|reflexivity|exact Ew| |exact Hho].
    rewrite Hh. discriminate.
Qed.

(* a worker releases the mutex q its pc says it holds *)
Lemma rev_worker_release s w pc0 pc' q :
  Own s -> Rev s -> nth_error (workers s) w = Some pc0 ->
  (forall q', holdsW w pc0 q' = Nat.eqb q' q) ->
  Rev (set_worker (set_queue s q (unlockq (getq s q))) w pc').
Proof.
  intros O R Ew Hh.
  destruct (O_w s O w pc0 q Ew) as [Hq Hown]; [rewrite Hh; apply Nat.eqb_refl|].
  eapply (rev_release s _ q); eauto.
  - unfold nq; cbn. apply set_nth_length.
  - change (qown (getq (set_queue s q (unlockq (getq s q))) q) = None). now rewrite qown_set_eq.
  - intros q' Hne. change (qown (getq (set_queue s q (unlockq (getq s q))) q') = qown (getq s q')). now rewrite qown_set_neq.
  - intros t q' Hne Hho.
    eapply (holder_set_worker s); [reflexivity|reflexivity|reflexivity|exact Ew| |exact Hho].
    rewrite Hh. intros E. apply Nat.eqb_eq in E. congruence.
Qed.

Lemma rev_worker_pc s s' w pc0 pc' :
  Rev s -> nth_error (workers s) w = Some pc0 -> (forall q', holdsW w pc0 q' = false) ->
  mainpc s' = mainpc s -> prods s' = prods s -> queues s' = queues s ->
  workers s' = set_nth w pc' (workers s) -> Rev s'.
Proof.
  intros R Ew Hh Em Ep Eq Ewk. eapply rev_frame; eauto.
  - unfold nq. now rewrite Eq.
  - intros q. unfold getq. now rewrite Eq.
  - intros t q Hho. eapply (holder_set_worker s); eauto. rewrite Hh. discriminate.
Qed.

Lemma pop_acquired_rev s w pc0 :
  Rev s -> nth_error (workers s) w = Some pc0 -> (forall q', holdsW w pc0 q' = false) -> w < nq s ->
  Rev (pop_acquired s w).
Proof.
  intros R Ew Hh Hw. unfold pop_acquired. destruct (qitems (getq s w)) as [|it r].
  - eapply rev_worker_acquire; eauto. destruct (qstop (getq s w)); cbn; apply Nat.eqb_refl.
  - eapply rev_worker_acquire; eauto. cbn. apply Nat.eqb_refl.
Qed.

Lemma step_worker_rev w s s' evs : Own s -> Rev s -> step_worker w s = Some (s', evs) -> Rev s'.
Proof.
  intros O R H. unfold step_worker in H.
  destruct (nth_error (workers s) w) as [pc|] eqn:Ew; [|discriminate].
  destruct pc as [|i|i q t| | |[]|t|t|]; try discriminate.
  - (* WScan *)
    destruct (q_free s ((w + i) mod nq s)) eqn:G.
    + apply q_free_spec in G as [Hq Hfree].
      destruct (qitems (getq s ((w + i) mod nq s))) as [|it r]; injection H as <- <-;
        (eapply rev_worker_acquire; eauto; cbn; apply Nat.eqb_refl).
    + injection H as <- <-. eapply (rev_worker_pc s); eauto; reflexivity.
  - (* WScanUnlock *)
    injection H as <- <-. eapply rev_worker_release; eauto.
  - (* WPopLock *)
    destruct (q_free s w) eqn:G; [|discriminate]. apply q_free_spec in G as [Hq _].
    injection H as <- <-. eapply pop_acquired_rev; eauto.
  - (* WPopWait *)
    injection H as <- <-. eapply rev_worker_release; eauto.
  - (* WPopBlocked true *)
    destruct (q_free s w) eqn:G; [|discriminate]. apply q_free_spec in G as [Hq _].
    injection H as <- <-. eapply pop_acquired_rev; eauto.
  - (* WPopUnlock *)
    injection H as <- <-. eapply rev_worker_release; eauto.
  - (* WExec *)
    injection H as <- <-. eapply (rev_worker_pc s); eauto; reflexivity.
Qed.

(* ------------------------------------------------------------------------------------------ *)
(* bookkeeping                                                                                *)

Definition range_ok (k : nat) (pc : ppc) : Prop :=
  match pc with PTry _ st _ | PPushLock _ st => st < k | _ => True end.

(* queues 0 .. stopped_upto-1 have been stopped by the destructor's request_stop *)
Definition stopped_upto (s : st) : nat :=
  match mainpc s with
  | MStopLock true q => q
  | MStopNotify true q | MStopUnlock true q => S q
  | MJoin _ | MDone => nq s
  | _ => 0
  end.

(* the destructor's request_stop has passed its guard (every producer is done) *)
Definition dtor_started (p : mpc) : bool :=
  match p with
  | MStopLock true q => negb (Nat.eqb q 0)
  | MStopNotify true _ | MStopUnlock true _ | MJoin _ | MDone => true
  | _ => false
  end.

Record Bk (s : st) : Prop := {
  B_k : 0 < nq s;
  B_spawn : forall i, mainpc s = MSpawn i ->
            i < nq s /\ forall w, i <= w -> w < nq s -> nth_error (workers s) w = Some WNotStarted;
  B_started : forall w, nth_error (workers s) w = Some WNotStarted -> exists i, mainpc s = MSpawn i /\ i <= w;
  B_range : match mainpc s with
            | MStopLock _ q | MStopNotify _ q | MStopUnlock _ q => q < nq s
            | MJoin i => i < nq s
            | _ => True
            end;
  B_prange : forall x n pc, nth_error (prods s) x = Some (n, pc) -> range_ok (nq s) pc;
  B_stop : forall q, q < stopped_upto s -> qstop (getq s q) = true;
  B_dtor : dtor_started (mainpc s) = true -> all_prods_done s = true
}.

Lemma bk_init rc k counts : 0 < k -> Bk (init rc k counts).
Proof.
  intros Hk. constructor; unfold stopped_upto, nq; cbn; rewrite ?repeat_length; auto; try discriminate.
  - intros i E. injection E as <-. split; [exact Hk|]. intros w _ Hw.
    rewrite (nth_nth_error _ _ WNotStarted) by (now rewrite repeat_length). f_equal. now apply nth_repeat.
  - intros w _. exists 0. split; [reflexivity|lia].
  - intros x n pc H. apply nth_error_map_some in H as (y & _ & E). injection E as -> ->. exact I.
  - intros q Hq. lia.
Qed.

Definition wk_rel (l l' : list wpc) : Prop :=
  forall w, nth_error l' w = Some WNotStarted <-> nth_error l w = Some WNotStarted.

Lemma wk_rel_refl l : wk_rel l l.
Proof. intros w. reflexivity. Qed.

Lemma wk_rel_set l w p0 p :
  nth_error l w = Some p0 -> p0 <> WNotStarted -> p <> WNotStarted -> wk_rel l (set_nth w p l).
Proof.
  intros Hn H0 H1 w0. destruct (Nat.eq_dec w w0) as [<-|Hne].
  - rewrite nth_error_set_nth_eq by (eapply nth_error_lt; eauto). rewrite Hn. split; congruence.
  - now rewrite nth_error_set_nth_neq.
Qed.

Lemma wk_rel_notify s q : wk_rel (workers s) (workers (notify s q)).
Proof.
  intros w. split.
  - intros H. apply notify_nth in H as (pc0 & Hn & E). rewrite Hn. f_equal.
    destruct (Nat.eqb w q); [|congruence]. destruct pc0 as [| | | | |[]| | |]; cbn in E; congruence.
  - intros H. rewrite (notify_fwd s q w _ H). destruct (Nat.eqb w q); reflexivity.
Qed.

(* a step of a thread other than the owner *)
Lemma bk_frame s s' :
  Bk s -> mainpc s' = mainpc s -> nq s' = nq s -> wk_rel (workers s) (workers s') ->
  (forall q, qstop (getq s q) = true -> qstop (getq s' q) = true) ->
  (all_prods_done s = true -> all_prods_done s' = true) ->
  (forall x n pc, nth_error (prods s') x = Some (n, pc) -> range_ok (nq s) pc) ->
  Bk s'.
Proof.
  intros [B1 B2 B3 B4 B5 B6 B7] Em Ek Hw Hs Hd Hr.
  constructor; unfold stopped_upto in *; rewrite ?Em, ?Ek; auto.
  - intros i E. destruct (B2 i E) as [Hi Hall]. split; [exact Hi|]. intros w H1 H2. apply Hw. auto.
  - intros w H. apply Hw in H. auto.
Qed.

Lemma step_main_bk s s' evs : Own s -> Bk s -> step_main s = Some (s', evs) -> Bk s'.
Proof.
  intros O B H. unfold step_main in H. cbv zeta in H. destruct B as [B1 B2 B3 B4 B5 B6 B7].
  pose proof (O_len s O) as Hlen.
  destruct (mainpc s) as [i|d q|d q|d q|i|] eqn:Em.
  - (* MSpawn *)
    destruct (nth_error (workers s) i) as [[]|] eqn:Ew; try discriminate.
    destruct (B2 i eq_refl) as [Hi Hall].
    destruct (Nat.eqb_spec (S i) (nq s)) as [Ek|Ek]; injection H as <- <-.
    + constructor; unfold stopped_upto, nq in *; rewrite ?Em in *; cbn [mainpc queues workers prods set_worker set_main] in *; auto; try discriminate.
      * intros w Hn. exfalso. destruct (Nat.eq_dec i w) as [<-|Hne].
        -- rewrite nth_error_set_nth_eq in Hn by lia. discriminate.
        -- rewrite nth_error_set_nth_neq in Hn by exact Hne.
           destruct (B3 w Hn) as (i0 & E & Hle). injection E as <-. apply nth_error_lt in Hn. lia.
      * intros q Hq. destruct (negb (race s)); cbn in Hq; lia.
      * destruct (negb (race s)); discriminate.
    + constructor; unfold stopped_upto, nq in *; rewrite ?Em in *; cbn [mainpc queues workers prods set_worker set_main] in *; auto; try discriminate.
      * intros i0 E. injection E as <-. split; [lia|]. intros w H1 H2. rewrite nth_error_set_nth_neq by lia. apply Hall; lia.
      * intros w Hn. destruct (Nat.eq_dec i w) as [<-|Hne].
        -- rewrite nth_error_set_nth_eq in Hn by lia. discriminate.
        -- rewrite nth_error_set_nth_neq in Hn by exact Hne.
           destruct (B3 w Hn) as (i0 & E & Hle). injection E as <-. exists (S i). split; [reflexivity|lia].
  - (* MStopLock *)
    destruct (q_free s q && (negb d || all_prods_done s)) eqn:G; [|discriminate].
    apply andb_true_iff in G as [G Gd]. apply q_free_spec in G as [Hq Hfree]. injection H as <- <-.
    constructor; unfold stopped_upto, nq, getq in *; rewrite ?Em in *; cbn [mainpc queues workers prods set_queue set_main] in *;
      rewrite ?set_nth_length; auto; try discriminate.
    + intros w Hn. destruct (B3 w Hn) as (i0 & E & _). discriminate.
    + intros q' Hq'. destruct d; [|lia]. destruct (Nat.eq_dec q q') as [<-|Hne].
      * rewrite nth_set_nth_eq by exact Hq. reflexivity.
      * rewrite nth_set_nth_neq by exact Hne. apply B6. lia.
    + intros Hd. destruct d; [|discriminate]. exact Gd.
  - (* MStopNotify *)
    injection H as <- <-. destruct (notify_other s q) as (_ & _ & Eq & _ & Ep & _).
    constructor; unfold stopped_upto, nq, getq, all_prods_done in *; rewrite ?Em in *; cbn [mainpc queues workers prods set_main] in *;
      rewrite ?Eq, ?Ep; auto; try discriminate.
    intros w Hn. apply wk_rel_notify in Hn. destruct (B3 w Hn) as (i0 & E & _). discriminate.
  - (* MStopUnlock *)
    assert (Hstop : forall q', qstop (nth q' (set_nth q (unlockq (nth q (queues s) dq)) (queues s)) dq) = qstop (nth q' (queues s) dq)).
    { intros q'. apply unlock_fields. }
    unfold dq in Hstop.
    destruct (Nat.eqb_spec (S q) (nq s)) as [Ek|Ek]; [destruct d|]; injection H as <- <-;
      constructor; unfold stopped_upto, nq, getq in *; rewrite ?Em in *; cbn [mainpc queues workers prods set_queue set_main] in *;
      rewrite ?set_nth_length; auto; try discriminate;
      try (intros w Hn; destruct (B3 w Hn) as (i0 & E & _); discriminate);
      try (intros q' Hq'; rewrite Hstop; apply B6; cbn in *; lia);
      try lia; try (intros _; apply B7; reflexivity); try (intros Hd; apply B7; destruct d; [reflexivity|discriminate]).
  - (* MJoin *)
    destruct (nth_error (workers s) i) as [[]|] eqn:Ew; try discriminate.
    destruct (Nat.eqb_spec (S i) (nq s)) as [Ek|Ek]; injection H as <- <-;
      constructor; unfold stopped_upto, nq in *; rewrite ?Em in *; cbn [mainpc queues workers prods set_main] in *; auto; try discriminate;
      try (intros w Hn; destruct (B3 w Hn) as (i0 & E & _); discriminate);
      try (intros _; apply B7; reflexivity); try lia.
  - discriminate.
Qed.

Lemma qstop_set s q X q' :
  qstop X = qstop (getq s q) -> qstop (getq (set_queue s q X) q') = qstop (getq s q').
Proof. intros E. unfold getq; cbn. now apply nth_set_nth_stop. Qed.

Lemma nq_set_queue s q X : nq (set_queue s q X) = nq s.
Proof. unfold nq; cbn. apply set_nth_length. Qed.

Lemma bk_worker s s' w pc0 pc' :
  Bk s -> nth_error (workers s) w = Some pc0 -> pc0 <> WNotStarted -> pc' <> WNotStarted ->
  mainpc s' = mainpc s -> prods s' = prods s -> workers s' = set_nth w pc' (workers s) ->
  nq s' = nq s -> (forall q, qstop (getq s' q) = qstop (getq s q)) -> Bk s'.
Proof.
  intros B Ew H0 H1 Em Ep Ewk Ek Hs. eapply bk_frame; eauto.
  - rewrite Ewk. eapply wk_rel_set; eauto.
  - unfold all_prods_done. now rewrite Ep.
  - rewrite Ep. apply (B_prange s B).
Qed.

Ltac bkw :=
  eapply bk_worker; [eassumption|eassumption|discriminate| |reflexivity|reflexivity|reflexivity| | ];
  [ try discriminate
  | first [reflexivity | apply nq_set_queue]
  | first [reflexivity | intros ?q0; apply qstop_set; reflexivity] ].

Lemma step_spur_bk w s s' evs : Bk s -> step_spur w s = Some (s', evs) -> Bk s'.
Proof.
  intros B H. unfold step_spur in H.
  destruct (nth_error (workers s) w) as [[| | | | |[]| | |]|] eqn:Ew; try discriminate. injection H as <- <-.
  bkw.
Qed.

Lemma step_worker_bk w s s' evs : Bk s -> step_worker w s = Some (s', evs) -> Bk s'.
Proof.
  intros B H. unfold step_worker in H. cbv zeta in H.
  destruct (nth_error (workers s) w) as [pc|] eqn:Ew; [|discriminate].
  destruct pc as [|i|i q t| | |[]|t|t|]; try discriminate.
  - (* WScan *)
    destruct (q_free s ((w + i) mod nq s)) eqn:G.
    + destruct (qitems (getq s ((w + i) mod nq s))) as [|it r]; injection H as <- <-; bkw.
    + injection H as <- <-. bkw. match goal with |- context [if ?b then _ else _] => destruct b end; discriminate.
  - (* WScanUnlock *)
    injection H as <- <-. bkw. destruct t; [discriminate|]. match goal with |- context [if ?b then _ else _] => destruct b end; discriminate.
  - (* WPopLock *)
    destruct (q_free s w) eqn:G; [|discriminate]. injection H as <- <-. unfold pop_acquired.
    destruct (qitems (getq s w)) as [|it r]; bkw. destruct (qstop (getq s w)); discriminate.
  - (* WPopWait *)
    injection H as <- <-. bkw.
  - (* WPopBlocked true *)
    destruct (q_free s w) eqn:G; [|discriminate]. injection H as <- <-. unfold pop_acquired.
    destruct (qitems (getq s w)) as [|it r]; bkw. destruct (qstop (getq s w)); discriminate.
  - (* WPopUnlock *)
    injection H as <- <-. bkw. destruct t; discriminate.
  - (* WExec *)
    injection H as <- <-. bkw.
Qed.

Lemma bk_prod s s' x n pc pc' :
  Bk s -> nth_error (prods s) x = Some (n, pc) -> (match pc with PFetch j => j < n | _ => True end) ->
  mainpc s' = mainpc s -> nq s' = nq s -> wk_rel (workers s) (workers s') ->
  (forall q, qstop (getq s' q) = qstop (getq s q)) ->
  prods s' = set_nth x (n, pc') (prods s) -> range_ok (nq s) pc' -> Bk s'.
Proof.
  intros B En Hnd Em Ek Hw Hs Ep Hr. eapply bk_frame; [exact B|exact Em|exact Ek|exact Hw| | | ].
  - intros q. now rewrite Hs.
  - intros Hd. exfalso. eapply (all_done_contra (prods s)); eauto.
  - rewrite Ep. intros x0 n0 pc0 Hn0. apply nth_error_set_nth in Hn0 as [(<- & E & _)|(Hne & Hn0)].
    + injection E as -> ->. exact Hr.
    + apply (B_prange s B _ _ _ Hn0).
Qed.

Lemma step_prod_bk x s s' evs : Bk s -> step_prod x s = Some (s', evs) -> Bk s'.
Proof.
  intros B H. unfold step_prod in H. cbv zeta in H.
  destruct (nth_error (prods s) x) as [[n pc]|] eqn:En; [|discriminate].
  pose proof (B_prange s B _ _ _ En) as Hr0. pose proof (B_k s B) as Hk.
  destruct pc as [j|j start i|j start|j q|j q]; cbn in Hr0.
  - (* PFetch *)
    destruct (Nat.ltb_spec j n) as [Hj|]; [|discriminate]. cbn [andb] in H.
    destruct (Nat.ltb 0 (nq s) && negb match mainpc s with MSpawn _ => true | _ => false end); [|discriminate].
    injection H as <- <-.
    eapply (bk_prod s _ x n (PFetch j)); [exact B|exact En|exact Hj|reflexivity|reflexivity|apply wk_rel_refl| |reflexivity| ].
    + intros q. reflexivity.
    + cbn. apply Nat.mod_upper_bound. lia.
  - (* PTry *)
    destruct (q_free s ((start + i) mod nq s)) eqn:G.
    + unfold do_push in H. injection H as <- <-.
      eapply (bk_prod s _ x n (PTry j start i)); [exact B|exact En|exact I|reflexivity| |apply wk_rel_refl| |reflexivity| ].
      * unfold nq; cbn. apply set_nth_length.
      * intros q0. match goal with |- qstop (getq ?a q0) = _ =>
          change (qstop (getq (set_queue s ((start + i) mod nq s)
                   {| qown := Some (S x); qitems := qitems (getq s ((start + i) mod nq s)) ++ [(S x, j)];
                      qstop := qstop (getq s ((start + i) mod nq s)) |}) q0) = qstop (getq s q0)) end.
        apply qstop_set. reflexivity.
      * destruct (match qitems (getq s ((start + i) mod nq s)) with [] => true | _ :: _ => false end); exact I.
    + injection H as <- <-.
      eapply (bk_prod s _ x n (PTry j start i)); [exact B|exact En|exact I|reflexivity|reflexivity|apply wk_rel_refl| |reflexivity| ].
      * intros q. reflexivity.
      * match goal with |- context [if ?b then _ else _] => destruct b end; exact Hr0.
  - (* PPushLock *)
    destruct (q_free s start) eqn:G; [|discriminate]. unfold do_push in H. injection H as <- <-.
    eapply (bk_prod s _ x n (PPushLock j start)); [exact B|exact En|exact I|reflexivity| |apply wk_rel_refl| |reflexivity| ].
    + unfold nq; cbn. apply set_nth_length.
    + intros q0. match goal with |- qstop (getq ?a q0) = _ =>
        change (qstop (getq (set_queue s start
                 {| qown := Some (S x); qitems := qitems (getq s start) ++ [(S x, j)];
                    qstop := qstop (getq s start) |}) q0) = qstop (getq s q0)) end.
      apply qstop_set. reflexivity.
    + destruct (match qitems (getq s start) with [] => true | _ :: _ => false end); exact I.
  - (* PNotify *)
    injection H as <- <-. destruct (notify_other s q) as (_ & _ & Eq & Em & Ep & _).
    eapply (bk_prod s _ x n (PNotify j q) (PUnlock j q)); [exact B|exact En|exact I| | | | | |exact I].
    + exact Em.
    + change (nq (notify s q) = nq s). apply nq_notify.
    + apply wk_rel_notify.
    + intros q0. change (qstop (getq (notify s q) q0) = qstop (getq s q0)). now rewrite getq_notify.
    + cbn. now rewrite Ep.
  - (* PUnlock *)
    injection H as <- <-.
    eapply (bk_prod s _ x n (PUnlock j q) (PFetch (S j))); [exact B|exact En|exact I|reflexivity| |apply wk_rel_refl| |reflexivity|exact I].
    + unfold nq; cbn. apply set_nth_length.
    + intros q0. change (qstop (getq (set_queue s q (unlockq (getq s q))) q0) = qstop (getq s q0)).
      apply qstop_set. reflexivity.
Qed.

Lemma step_rev_bk t s s' evs :
  Own s -> Rev s /\ Bk s -> step t s = Some (s', evs) -> Rev s' /\ Bk s'.
Proof.
  intros O [R B] H. unfold step in H. cbv zeta in H.
  destruct (Nat.eqb t 0); [split; [eapply step_main_rev|eapply step_main_bk]; eauto|].
  destruct (Nat.leb t (nprods s)); [split; [eapply step_prod_rev|eapply step_prod_bk]; eauto|].
  destruct (Nat.leb t (nprods s + nq s)); [split; [eapply step_worker_rev|eapply step_worker_bk]; eauto|].
  destruct (Nat.leb t (nprods s + nq s + nq s)); [|discriminate].
  split; [eapply step_spur_rev|eapply step_spur_bk]; eauto.
Qed.

Theorem prog_reachable rc k counts (sched : list nat) :
  0 < k ->
  let s := fst (run step sched (init rc k counts, [])) in Own s /\ Rev s /\ Bk s.
Proof.
  intros Hk.
  apply (run_invariant_state _ _ _ step (fun s => Own s /\ Rev s /\ Bk s)).
  - intros s t s' ev (O & RB) H. split; [eapply step_own; eauto|eapply step_rev_bk; eauto].
  - split; [apply own_init|]. split; [apply rev_init|now apply bk_init].
Qed.

(* either every mutex is free or some mutex has an owner *)
Lemma owned_or_free s :
  (forall q, q < nq s -> qown (getq s q) = None) \/ (exists q t, q < nq s /\ qown (getq s q) = Some t).
Proof.
  unfold nq. generalize (length (queues s)) as m. induction m as [|m IH].
  - left. intros q Hq. lia.
  - destruct IH as [IH|(q & t & Hq & Ho)]; [|right; exists q, t; split; [lia|exact Ho]].
    destruct (qown (getq s m)) as [t|] eqn:E.
    + right. exists m, t. split; [lia|exact E].
    + left. intros q Hq. destruct (Nat.eq_dec q m) as [->|]; [exact E|apply IH; lia].
Qed.

Lemma not_all_done (l : list (nat * ppc)) :
  forallb prod_done l = false -> exists x n pc, nth_error l x = Some (n, pc) /\ prod_done (n, pc) = false.
Proof.
  induction l as [|[n pc] r IH]; cbn; [discriminate|].
  destruct (prod_done (n, pc)) eqn:E; cbn.
  - intros H. destruct (IH H) as (x & n' & pc' & Hn & Hp). exists (S x), n', pc'. auto.
  - intros _. exists 0, n, pc. auto.
Qed.

Lemma step_prod_tid x s : x < nprods s -> step (S x) s = step_prod x s.
Proof.
  intros Hx. unfold step. cbv zeta. cbn [Nat.eqb]. destruct (Nat.leb_spec (S x) (nprods s)); [reflexivity|lia].
Qed.

Lemma step_worker_tid w s : w < nq s -> step (worker_tid s w) s = step_worker w s.
Proof.
  intros Hw. unfold step, worker_tid. cbv zeta. cbn [Nat.eqb].
  destruct (Nat.leb_spec (S (nprods s + w)) (nprods s)); [lia|].
  destruct (Nat.leb_spec (S (nprods s + w)) (nprods s + nq s)); [|lia].
  f_equal. lia.
Qed.

(* No reachable state is stuck: unless everything has finished, some thread other than the
   spurious-wake-up environment (thread ids <= p + k) can take a step. *)
Theorem progress rc k counts (sched : list nat) :
  0 < k ->
  let s := fst (run step sched (init rc k counts, [])) in
  final s = false -> exists t, t <= nprods s + nq s /\ step t s <> None.
Proof.
  intros Hk s Hf. destruct (prog_reachable rc k counts sched Hk) as (O & R & B). fold s in O, R, B.
  pose proof (O_len s O) as Hlen.
  destruct (owned_or_free s) as [Hfree|(q & t & Hq & Ho)].
  2:{ (* some mutex is held: its holder can move *)
      destruct (R q t Hq Ho) as [[-> Hm]|[(x & n & pc & -> & Hn & Hh)|(w & pc & -> & Hn & Hh)]].
      - exists 0. split; [lia|]. unfold step; cbn. unfold step_main.
        destruct (mainpc s); try discriminate.
      - pose proof (nth_error_lt _ _ _ Hn) as Hx. exists (S x). split; [unfold nprods; lia|].
        rewrite step_prod_tid by exact Hx. unfold step_prod. rewrite Hn. destruct pc; try discriminate.
      - pose proof (nth_error_lt _ _ _ Hn) as Hw. rewrite Hlen in Hw. exists (worker_tid s w).
        split; [unfold worker_tid; lia|]. rewrite step_worker_tid by exact Hw. unfold step_worker. rewrite Hn.
        destruct pc; try discriminate. }
  (* every mutex is free *)
  assert (Hqf : forall q, q < nq s -> q_free s q = true) by (intros q Hq; apply q_free_spec; auto).
  destruct (mainpc s) as [i|d q|d q|d q|i|] eqn:Em.
  - (* MSpawn *)
    destruct (B_spawn s B i Em) as [Hi Hall]. exists 0. split; [lia|]. unfold step; cbn. unfold step_main.
    rewrite Em, (Hall i (le_n i) Hi). discriminate.
  - (* MStopLock *)
    pose proof (B_range s B) as Hr. rewrite Em in Hr.
    destruct (negb d || all_prods_done s) eqn:G.
    + exists 0. split; [lia|]. unfold step; cbn. unfold step_main. rewrite Em, (Hqf q Hr), G. discriminate.
    + apply orb_false_iff in G as [_ Gd]. apply not_all_done in Gd as (x & n & pc & Hn & Hp).
      pose proof (nth_error_lt _ _ _ Hn) as Hx. exists (S x). split; [unfold nprods; lia|].
      rewrite step_prod_tid by exact Hx. unfold step_prod. cbv zeta. rewrite Hn.
      pose proof (B_prange s B _ _ _ Hn) as Hpr. pose proof (B_k s B) as Hk0.
      destruct pc as [j|j st0 i0|j st0|j q0|j q0]; cbn in Hpr.
      * unfold prod_done in Hp; cbn in Hp. apply Nat.leb_gt in Hp.
        destruct (Nat.ltb_spec j n); [|lia]. destruct (Nat.ltb_spec 0 (nq s)); [|lia]. rewrite Em. discriminate.
      * destruct (q_free s ((st0 + i0) mod nq s)); discriminate.
      * rewrite (Hqf st0 Hpr). discriminate.
      * discriminate.
      * discriminate.
  - exists 0. split; [lia|]. unfold step; cbn. unfold step_main. rewrite Em. discriminate.
  - exists 0. split; [lia|]. unfold step; cbn. unfold step_main. rewrite Em. discriminate.
  - (* MJoin: worker i can move, or has returned *)
    pose proof (B_range s B) as Hr. rewrite Em in Hr.
    destruct (nth_error (workers s) i) as [pc|] eqn:Ew.
    2:{ apply nth_error_None in Ew. lia. }
    assert (Hw : exists t, t <= nprods s + nq s /\ (step_worker i s <> None -> step t s <> None)).
    { exists (worker_tid s i). split; [unfold worker_tid; lia|]. now rewrite step_worker_tid. }
    destruct Hw as (tw & Htw & Hstep).
    destruct pc as [|i0|i0 q0 t0| | |[]|t0|t0|].
    + exfalso. destruct (B_started s B i Ew) as (i1 & E & _). congruence.
    + exists tw. split; [exact Htw|]. apply Hstep. unfold step_worker. cbv zeta. rewrite Ew.
      destruct (q_free s ((i + i0) mod nq s)); [destruct (qitems (getq s ((i + i0) mod nq s)))|]; discriminate.
    + exists tw. split; [exact Htw|]. apply Hstep. unfold step_worker. rewrite Ew. discriminate.
    + exists tw. split; [exact Htw|]. apply Hstep. unfold step_worker. rewrite Ew, (Hqf i Hr). discriminate.
    + exists tw. split; [exact Htw|]. apply Hstep. unfold step_worker. rewrite Ew. discriminate.
    + exists tw. split; [exact Htw|]. apply Hstep. unfold step_worker. rewrite Ew, (Hqf i Hr). discriminate.
    + exfalso. destruct (O_blocked s O i Ew) as [_ [Hs|[d0 Hs]]]; [|congruence].
      assert (Hst : qstop (getq s i) = true).
      { apply (B_stop s B). unfold stopped_upto. rewrite Em. exact Hr. }
      congruence.
    + exists tw. split; [exact Htw|]. apply Hstep. unfold step_worker. rewrite Ew. discriminate.
    + exists tw. split; [exact Htw|]. apply Hstep. unfold step_worker. rewrite Ew. discriminate.
    + exists 0. split; [lia|]. unfold step; cbn. unfold step_main. rewrite Em, Ew. discriminate.
  - (* MDone: then the state is final *)
    exfalso. unfold final in Hf. rewrite Em in Hf.
    assert (Hd : all_prods_done s = true) by (apply (B_dtor s B); rewrite Em; reflexivity).
    rewrite Hd in Hf. cbn in Hf.
    assert (Hwd : forallb worker_done (workers s) = true).
    { apply forallb_forall. intros pc Hin. apply In_nth_error in Hin as [w Hw].
      pose proof (nth_error_lt _ _ _ Hw) as Hlt. rewrite Hlen in Hlt.
      rewrite (O_mdone s O Em w Hlt) in Hw. injection Hw as <-. reflexivity. }
    congruence.
Qed.
