(* Proofs about the E1 model ThreadPool(k) (Proto/ThreadPoolDefs.v): static_thread_pool.
   For an arbitrary number k of workers/queues, arbitrary producers and item counts, both stop
   policies and an arbitrary schedule (spurious wake-ups included). *)
From Coq Require Import List Bool Arith Lia Permutation.
From V Require Import Base.Sched Proto.ThreadPoolDefs.
Import ListNotations.
Import ThreadPool.

(* ------------------------------------------------------------------------------------------ *)
(* list helpers                                                                               *)

Lemma set_nth_length {A} (i : nat) (x : A) (l : list A) : length (set_nth i x l) = length l.
Proof. revert i; induction l as [|y r IH]; intros [|i]; cbn; auto. Qed.

Lemma nth_error_set_nth_eq {A} (i : nat) (x : A) (l : list A) :
  i < length l -> nth_error (set_nth i x l) i = Some x.
Proof.
  revert i; induction l as [|y r IH]; intros [|i] Hlt; cbn in *; try lia; auto.
  apply IH; lia.
Qed.

Lemma nth_error_set_nth_neq {A} (i j : nat) (x : A) (l : list A) :
  i <> j -> nth_error (set_nth i x l) j = nth_error l j.
Proof.
  revert i j; induction l as [|y r IH]; intros [|i] [|j] Hne; cbn; auto; try congruence.
Qed.

Lemma nth_error_lt {A} (l : list A) i x : nth_error l i = Some x -> i < length l.
Proof. intros H. apply nth_error_Some. congruence. Qed.

Lemma nth_error_set_nth {A} (i j : nat) (x y : A) (l : list A) :
  nth_error (set_nth i x l) j = Some y ->
  (i = j /\ y = x /\ j < length l) \/ (i <> j /\ nth_error l j = Some y).
Proof.
  intros H. destruct (Nat.eq_dec i j) as [->|Hne].
  - left. assert (Hlt : j < length l).
    { apply nth_error_lt in H. now rewrite set_nth_length in H. }
    rewrite nth_error_set_nth_eq in H by exact Hlt. injection H as <-. auto.
  - right. rewrite nth_error_set_nth_neq in H by exact Hne. auto.
Qed.

Lemma nth_set_nth_eq {A} (i : nat) (x d : A) (l : list A) :
  i < length l -> nth i (set_nth i x l) d = x.
Proof.
  revert i; induction l as [|y r IH]; intros [|i] Hlt; cbn in *; try lia; auto.
  apply IH; lia.
Qed.

Lemma nth_set_nth_neq {A} (i j : nat) (x d : A) (l : list A) :
  i <> j -> nth j (set_nth i x l) d = nth j l d.
Proof.
  revert i j; induction l as [|y r IH]; intros [|i] [|j] Hne; cbn; auto; try congruence.
Qed.

Lemma nth_error_nth {A} (l : list A) i x d : nth_error l i = Some x -> nth i l d = x.
Proof. revert i; induction l; intros [|i] H; cbn in *; try discriminate; [now injection H|auto]. Qed.

Lemma nth_nth_error {A} (l : list A) i d : i < length l -> nth_error l i = Some (nth i l d).
Proof. revert i; induction l; intros [|i] H; cbn in *; try lia; auto. apply IHl. lia. Qed.

(* replacing one element of a list changes a flat_map only by that element's contribution *)
Lemma flat_map_set_nth {A B} (f : A -> list B) (l : list A) i old :
  nth_error l i = Some old ->
  exists R, Permutation (flat_map f l) (f old ++ R) /\
            forall new, Permutation (flat_map f (set_nth i new l)) (f new ++ R).
Proof.
  revert i; induction l as [|y r IH]; intros [|i] H; cbn in *; try discriminate.
  - injection H as ->. exists (flat_map f r). split; [reflexivity|]. intros; reflexivity.
  - destruct (IH i H) as (R & H1 & H2). exists (f y ++ R). split.
    + rewrite H1. rewrite !app_assoc. apply Permutation_app_tail. apply Permutation_app_comm.
    + intros new. rewrite (H2 new). rewrite !app_assoc. apply Permutation_app_tail. apply Permutation_app_comm.
Qed.

Lemma NoDup_app_singleton {A} (l : list A) x : NoDup l -> ~ In x l -> NoDup (l ++ [x]).
Proof.
  intros Hn Hx. induction Hn as [|y r Hy Hr IH]; cbn.
  - constructor; [intros []|constructor].
  - constructor.
    + rewrite in_app_iff. cbn. intros [H|[H|[]]]; [auto|]. subst. apply Hx. now left.
    + apply IH. intros H. apply Hx. now right.
Qed.

Lemma nth_error_map_some {A B} (f : A -> B) l i y :
  nth_error (map f l) i = Some y -> exists x, nth_error l i = Some x /\ y = f x.
Proof.
  revert i; induction l as [|a r IH]; intros [|i] H; cbn in *; try discriminate.
  - injection H as <-. eauto.
  - eauto.
Qed.

Lemma nth_error_repeat {A} (x y : A) n i : nth_error (repeat x n) i = Some y -> y = x.
Proof. revert i; induction n; intros [|i] H; cbn in *; try discriminate; [now injection H|eauto]. Qed.

Lemma nth_repeat {A} (x d : A) n i : i < n -> nth i (repeat x n) d = x.
Proof. revert i; induction n; intros [|i] H; cbn; try lia; auto. apply IHn. lia. Qed.

(* ------------------------------------------------------------------------------------------ *)
(* who holds which mutex, according to the program counters                                    *)

Definition holdsM (p : mpc) (q : nat) : bool :=
  match p with MStopNotify _ q' | MStopUnlock _ q' => Nat.eqb q q' | _ => false end.
Definition holdsP (p : ppc) (q : nat) : bool :=
  match p with PNotify _ q' | PUnlock _ q' => Nat.eqb q q' | _ => false end.
Definition holdsW (w : nat) (p : wpc) (q : nat) : bool :=
  match p with
  | WScanUnlock _ q' _ => Nat.eqb q q'
  | WPopWait | WPopUnlock _ => Nat.eqb q w
  | _ => false
  end.

Definition pushed (p : ppc) : nat :=
  match p with PFetch j | PTry j _ _ | PPushLock j _ => j | PNotify j _ | PUnlock j _ => S j end.

Definition inflight (w : wpc) : list item :=
  match w with WScanUnlock _ _ (Some t) | WPopUnlock (Some t) | WExec t => [t] | _ => [] end.

Record Inv (s : st) : Prop := {
  T_len : length (workers s) = nq s;
  T_m : forall q, holdsM (mainpc s) q = true -> q < nq s /\ qown (getq s q) = Some 0;
  T_p : forall x n pc q, nth_error (prods s) x = Some (n, pc) -> holdsP pc q = true ->
        q < nq s /\ qown (getq s q) = Some (S x);
  T_w : forall w pc q, nth_error (workers s) w = Some pc -> holdsW w pc q = true ->
        q < nq s /\ qown (getq s q) = Some (worker_tid s w);
  T_acct : Permutation (enq s) (map fst (executed s) ++ flat_map inflight (workers s) ++ queued s);
  T_nodup : NoDup (enq s);
  T_mem : forall p j, In (p, j) (enq s) <->
            exists x n pc, p = S x /\ nth_error (prods s) x = Some (n, pc) /\ j < pushed pc;
  T_bound : forall x n pc, nth_error (prods s) x = Some (n, pc) ->
            pushed pc <= n /\ (match pc with PFetch _ => True | PNotify _ _ | PUnlock _ _ => True | _ => pushed pc < n end);
  T_wait : forall w, nth_error (workers s) w = Some WPopWait ->
           qitems (getq s w) = [] /\ qstop (getq s w) = false;
  T_blocked : forall w, nth_error (workers s) w = Some (WPopBlocked false) ->
              (qitems (getq s w) = [] \/ exists x n j, nth_error (prods s) x = Some (n, PNotify j w)) /\
              (qstop (getq s w) = false \/ exists d, mainpc s = MStopNotify d w);
  T_ret : forall w, nth_error (workers s) w = Some (WPopUnlock None) ->
          qitems (getq s w) = [] /\ qstop (getq s w) = true;
  T_done : forall w, nth_error (workers s) w = Some WDone ->
           qstop (getq s w) = true /\ incl (qitems (getq s w)) (late s);
  T_race : race s = false -> forall q, q < nq s -> qstop (getq s q) = true -> all_prods_done s = true;
  T_late : race s = false -> late s = [];
  T_join : forall i, mainpc s = MJoin i -> forall w, w < i -> nth_error (workers s) w = Some WDone;
  T_mdone : mainpc s = MDone -> forall w, w < nq s -> nth_error (workers s) w = Some WDone
}.

Lemma queued_repeat_nil k : flat_map qitems (repeat {| qown := None; qitems := []; qstop := false |} k) = [].
Proof. induction k; cbn; auto. Qed.

Lemma inflight_repeat_nil k : flat_map inflight (repeat WNotStarted k) = [].
Proof. induction k; cbn; auto. Qed.

Lemma getq_init rc k counts q : q < k -> getq (init rc k counts) q = {| qown := None; qitems := []; qstop := false |}.
Proof. intros H. unfold getq; cbn. now apply nth_repeat. Qed.

Lemma inv_init rc k counts : Inv (init rc k counts).
Proof.
  constructor; cbn; try discriminate.
  - unfold nq; cbn. now rewrite !repeat_length.
  - intros x n pc q H. apply nth_error_map_some in H as (y & _ & E). injection E as -> ->. discriminate.
  - intros w pc q H. apply nth_error_repeat in H as ->. discriminate.
  - unfold queued; cbn. rewrite queued_repeat_nil, inflight_repeat_nil. reflexivity.
  - constructor.
  - intros p j. split; [intros []|]. intros (x & n & pc & -> & H & Hlt).
    apply nth_error_map_some in H as (y & _ & E). injection E as -> ->. cbn in Hlt. lia.
  - intros x n pc H. apply nth_error_map_some in H as (y & _ & E). injection E as -> ->. cbn. split; [lia|exact I].
  - intros w H. apply nth_error_repeat in H. discriminate.
  - intros w H. apply nth_error_repeat in H. discriminate.
  - intros w H. apply nth_error_repeat in H. discriminate.
  - intros w H. apply nth_error_repeat in H. discriminate.
  - intros _ q Hq. unfold nq in Hq; cbn in Hq. rewrite repeat_length in Hq.
    rewrite nth_repeat by exact Hq. discriminate.
  - auto.
Qed.

(* ------------------------------------------------------------------------------------------ *)
(* small facts                                                                                *)

Lemma flat_map_set_nth_same {A B} (f : A -> list B) (l : list A) i old new :
  nth_error l i = Some old -> f new = f old -> flat_map f (set_nth i new l) = flat_map f l.
Proof.
  revert i; induction l as [|y r IH]; intros [|i] H E; cbn in *; try discriminate.
  - injection H as ->. now rewrite E.
  - f_equal. eauto.
Qed.

Lemma getq_nth_error s q : q < nq s -> nth_error (queues s) q = Some (getq s q).
Proof. intros H. unfold getq. now apply nth_nth_error. Qed.

Lemma q_free_spec s q : q_free s q = true <-> q < nq s /\ qown (getq s q) = None.
Proof.
  unfold q_free. rewrite andb_true_iff, Nat.ltb_lt. destruct (qown (getq s q)); intuition congruence.
Qed.

Lemma wake_inflight w : inflight (wake w) = inflight w.
Proof. destruct w as [| | | | |[]| | |]; reflexivity. Qed.

Lemma all_done_nth (l : list (nat * ppc)) i n pc :
  forallb prod_done l = true -> nth_error l i = Some (n, pc) -> exists j, pc = PFetch j /\ n <= j.
Proof.
  rewrite forallb_forall. intros H Hn.
  specialize (H _ (nth_error_In _ _ Hn)). unfold prod_done in H; cbn in H.
  destruct pc; try discriminate. apply Nat.leb_le in H. eauto.
Qed.

Lemma mem_same_pushed (l : list (nat * ppc)) i n pc pc' p j :
  nth_error l i = Some (n, pc) -> pushed pc' = pushed pc ->
  (exists i0 n0 pc0, p = S i0 /\ nth_error (set_nth i (n, pc') l) i0 = Some (n0, pc0) /\ j < pushed pc0) <->
  (exists i0 n0 pc0, p = S i0 /\ nth_error l i0 = Some (n0, pc0) /\ j < pushed pc0).
Proof.
  intros En Hp. assert (Hi : i < length l) by (eapply nth_error_lt; eauto). split.
  - intros (i0 & n0 & pc0 & -> & Hn0 & Hlt).
    apply nth_error_set_nth in Hn0 as [(<- & E & _)|(Hne & Hn0)].
    + injection E as -> ->. exists i, n, pc. rewrite <- Hp. auto.
    + exists i0, n0, pc0. auto.
  - intros (i0 & n0 & pc0 & -> & Hn0 & Hlt). destruct (Nat.eq_dec i i0) as [<-|Hne].
    + rewrite En in Hn0. injection Hn0 as <- <-. exists i, n, pc'.
      rewrite nth_error_set_nth_eq by exact Hi. rewrite Hp. auto.
    + exists i0, n0, pc0. rewrite nth_error_set_nth_neq by exact Hne. auto.
Qed.

(* the workers list after notify *)
Lemma notify_workers s q :
  workers (notify s q) = match nth_error (workers s) q with
                         | Some w => set_nth q (wake w) (workers s) | None => workers s end.
Proof. unfold notify. destruct (nth_error (workers s) q); reflexivity. Qed.

Lemma notify_other s q :
  race (notify s q) = race s /\ next (notify s q) = next s /\ queues (notify s q) = queues s /\
  mainpc (notify s q) = mainpc s /\ prods (notify s q) = prods s /\ enq (notify s q) = enq s /\
  late (notify s q) = late s /\ executed (notify s q) = executed s.
Proof. unfold notify. destruct (nth_error (workers s) q); cbn; auto 10. Qed.

Lemma notify_inflight s q : flat_map inflight (workers (notify s q)) = flat_map inflight (workers s).
Proof.
  rewrite notify_workers. destruct (nth_error (workers s) q) eqn:E; [|reflexivity].
  eapply flat_map_set_nth_same; eauto. apply wake_inflight.
Qed.

Lemma notify_nth s q w pc :
  nth_error (workers (notify s q)) w = Some pc ->
  exists pc0, nth_error (workers s) w = Some pc0 /\ pc = (if Nat.eqb w q then wake pc0 else pc0).
Proof.
  rewrite notify_workers. destruct (nth_error (workers s) q) as [w0|] eqn:E.
  - intros H. apply nth_error_set_nth in H as [(<- & -> & _)|(Hne & H)].
    + exists w0. rewrite Nat.eqb_refl. auto.
    + exists pc. split; [exact H|]. destruct (Nat.eqb_spec w q); [congruence|reflexivity].
  - intros H. exists pc. split; [exact H|]. destruct (Nat.eqb_spec w q) as [->|]; [congruence|reflexivity].
Qed.

Lemma wake_cases w : wake w = w \/ (w = WPopBlocked false /\ wake w = WPopBlocked true).
Proof. destruct w as [| | | | |[]| | |]; cbn; auto. Qed.

Lemma wake_holds w0 w q : holdsW w0 (wake w) q = holdsW w0 w q.
Proof. destruct w as [| | | | |[]| | |]; reflexivity. Qed.

(* what the woken list looks like, by cases on the resulting pc *)
Lemma notify_nth_inv s q w pc :
  nth_error (workers (notify s q)) w = Some pc -> pc <> WPopBlocked true ->
  nth_error (workers s) w = Some pc /\ (pc = WPopBlocked false -> w <> q).
Proof.
  intros H Hne. apply notify_nth in H as (pc0 & Hn & E). destruct (Nat.eqb_spec w q) as [->|Hwq].
  - destruct (wake_cases pc0) as [Ew|[-> Ew]]; rewrite Ew in E; subst pc; [|congruence].
    split; [exact Hn|]. intros ->. cbn in Ew. discriminate.
  - subst. auto.
Qed.

Lemma notify_len s q : length (workers (notify s q)) = length (workers s).
Proof. rewrite notify_workers. destruct (nth_error (workers s) q); [apply set_nth_length|reflexivity]. Qed.

(* ------------------------------------------------------------------------------------------ *)
(* group 1: accounting (nothing lost, nothing duplicated)                                      *)

Definition bound_ok (n : nat) (pc : ppc) : Prop :=
  pushed pc <= n /\ (match pc with PFetch _ => True | PNotify _ _ | PUnlock _ _ => True | _ => pushed pc < n end).

Record Acct (s : st) : Prop := {
  A_acct : Permutation (enq s) (map fst (executed s) ++ flat_map inflight (workers s) ++ queued s);
  A_nodup : NoDup (enq s);
  A_mem : forall p j, In (p, j) (enq s) <->
            exists x n pc, p = S x /\ nth_error (prods s) x = Some (n, pc) /\ j < pushed pc;
  A_bound : forall x n pc, nth_error (prods s) x = Some (n, pc) -> bound_ok n pc
}.

Lemma set_nth_oob {A} (l : list A) i x : length l <= i -> set_nth i x l = l.
Proof. revert i; induction l as [|y r IH]; intros [|i] H; cbn in *; try lia; auto. f_equal. apply IH. lia. Qed.

Lemma queued_set_same s q x :
  qitems x = qitems (getq s q) -> flat_map qitems (set_nth q x (queues s)) = queued s.
Proof.
  intros E. destruct (Nat.lt_ge_cases q (nq s)) as [Hq|Hq].
  - eapply flat_map_set_nth_same; eauto. now apply getq_nth_error.
  - unfold queued. now rewrite set_nth_oob.
Qed.

Lemma inflight_set_same s w p p0 :
  nth_error (workers s) w = Some p0 -> inflight p = inflight p0 ->
  flat_map inflight (set_nth w p (workers s)) = flat_map inflight (workers s).
Proof. intros. eapply flat_map_set_nth_same; eauto. Qed.

(* a step that moves no item *)
Lemma acct_frame s s' :
  Acct s -> enq s' = enq s -> executed s' = executed s ->
  flat_map inflight (workers s') = flat_map inflight (workers s) -> queued s' = queued s ->
  (prods s' = prods s \/
   exists x n pc pc', nth_error (prods s) x = Some (n, pc) /\ prods s' = set_nth x (n, pc') (prods s) /\
                      pushed pc' = pushed pc /\ bound_ok n pc') ->
  Acct s'.
Proof.
  intros [H1 H2 H3 H4] Ee Ex Ei Eq Hp. constructor.
  - now rewrite Ee, Ex, Ei, Eq.
  - now rewrite Ee.
  - intros p j. rewrite Ee, H3. destruct Hp as [->|(x & n & pc & pc' & Hn & -> & Hpu & _)]; [reflexivity|].
    symmetry. eapply mem_same_pushed; eauto.
  - destruct Hp as [->|(x & n & pc & pc' & Hn & -> & Hpu & Hb)]; [exact H4|].
    intros x0 n0 pc0 Hn0. apply nth_error_set_nth in Hn0 as [(<- & E & _)|(Hne & Hn0)]; [|eauto].
    injection E as -> ->. exact Hb.
Qed.

Ltac st_simpl :=
  unfold worker_tid, nq, nprods, queued, all_prods_done in *;
  cbn [race next queues mainpc prods workers enq late executed
       set_queue set_main set_prod set_worker set_next add_enq add_executed
       qown qitems qstop lockq unlockq] in *;
  rewrite ?set_nth_length in *.

Lemma acct_init rc k counts : Acct (init rc k counts).
Proof. destruct (inv_init rc k counts). constructor; auto. Qed.

Lemma step_main_acct s s' evs : Acct s -> step_main s = Some (s', evs) -> Acct s'.
Proof.
  intros A H. unfold step_main in H. destruct (mainpc s) as [i|d q|d q|d q|i|] eqn:Em.
  - destruct (nth_error (workers s) i) as [[]|] eqn:Ew; try discriminate. injection H as <- <-.
    eapply acct_frame; eauto; st_simpl; auto.
    eapply inflight_set_same; eauto.
  - destruct (q_free s q && (negb d || all_prods_done s)) eqn:G; [|discriminate]. injection H as <- <-.
    eapply acct_frame; eauto; st_simpl; auto. now apply queued_set_same.
  - injection H as <- <-. destruct (notify_other s q) as (_ & _ & Eq & _ & Ep & Ee & _ & Ex).
    eapply acct_frame; eauto; st_simpl; auto.
    + apply notify_inflight.
    + now rewrite Eq.
  - injection H as <- <-. eapply acct_frame; eauto; st_simpl; auto. now apply queued_set_same.
  - destruct (nth_error (workers s) i) as [[]|]; try discriminate. injection H as <- <-.
    eapply acct_frame; eauto; st_simpl; auto.
  - discriminate.
Qed.

Lemma step_spur_acct w s s' evs : Acct s -> step_spur w s = Some (s', evs) -> Acct s'.
Proof.
  intros A H. unfold step_spur in H.
  destruct (nth_error (workers s) w) as [[| | | | |[]| | |]|] eqn:Ew; try discriminate. injection H as <- <-.
  eapply acct_frame; eauto; st_simpl; auto. eapply inflight_set_same; eauto.
Qed.

(* a producer pushes its item j on queue q *)
Lemma acct_push s x n pc pc' q o b lt j :
  Acct s -> nth_error (prods s) x = Some (n, pc) -> pushed pc = j -> j < n ->
  pushed pc' = S j -> bound_ok n pc' -> q < nq s ->
  Acct (set_prod (add_enq (set_queue s q {| qown := o; qitems := qitems (getq s q) ++ [(S x, j)]; qstop := b |})
                          (S x, j) lt) x (n, pc')).
Proof.
  intros [H1 H2 H3 H4] En Hpu Hj Hpu' Hb' Hq.
  assert (Hx : x < length (prods s)) by (eapply nth_error_lt; eauto).
  assert (Hfresh : ~ In (S x, j) (enq s)).
  { intros Hin. apply H3 in Hin as (x0 & n0 & pc0 & E & Hn0 & Hl). injection E as <-.
    rewrite En in Hn0. injection Hn0 as <- <-. lia. }
  constructor; st_simpl.
  - destruct (flat_map_set_nth qitems (queues s) q (getq s q) (getq_nth_error s q Hq)) as (R & P1 & P2).
    rewrite (P2 _). cbn [qitems]. unfold queued in H1. rewrite P1 in H1. rewrite H1.
    rewrite <- !app_assoc. rewrite !(app_assoc (map fst (executed s))).
    apply Permutation_app_head.
    (* (ex ++ infl ++ items ++ R) ++ [it]  ~  ex ++ infl ++ (items ++ [it]) ++ R *)
    apply Permutation_app_head. apply Permutation_app_comm.
  - apply NoDup_app_singleton; auto.
  - intros p j0. rewrite in_app_iff, H3. cbn [In]. split.
    + intros [(x0 & n0 & pc0 & -> & Hn0 & Hl)|[E|[]]].
      * destruct (Nat.eq_dec x x0) as [<-|Hne].
        -- rewrite En in Hn0. injection Hn0 as <- <-.
           exists x, n, pc'. rewrite nth_error_set_nth_eq by exact Hx. repeat split; auto; lia.
        -- exists x0, n0, pc0. rewrite nth_error_set_nth_neq by exact Hne. auto.
      * injection E as <- <-. exists x, n, pc'. rewrite nth_error_set_nth_eq by exact Hx.
        repeat split; auto; lia.
    + intros (x0 & n0 & pc0 & -> & Hn0 & Hl).
      apply nth_error_set_nth in Hn0 as [(<- & E & _)|(Hne & Hn0)].
      * injection E as -> ->. rewrite Hpu' in Hl.
        destruct (Nat.eq_dec j0 j) as [->|Hj0]; [right; left; reflexivity|].
        left. exists x, n, pc. repeat split; auto. lia.
      * left. exists x0, n0, pc0. auto.
  - intros x0 n0 pc0 Hn0. apply nth_error_set_nth in Hn0 as [(<- & E & _)|(Hne & Hn0)]; [|eauto].
    injection E as -> ->. exact Hb'.
Qed.

Lemma step_prod_acct x s s' evs : Acct s -> step_prod x s = Some (s', evs) -> Acct s'.
Proof.
  intros A H. unfold step_prod in H.
  destruct (nth_error (prods s) x) as [[n pc]|] eqn:En; [|discriminate].
  pose proof (A_bound s A _ _ _ En) as [Hb1 Hb2].
  destruct pc as [j|j start i|j start|j q|j q]; cbn in Hb1, Hb2.
  - (* PFetch *)
    destruct (Nat.ltb_spec j n) as [Hj|]; [|discriminate]. cbn [andb] in H.
    destruct (Nat.ltb 0 (nq s) && negb match mainpc s with MSpawn _ => true | _ => false end); [|discriminate].
    injection H as <- <-. eapply acct_frame; eauto; st_simpl; auto.
    right. exists x, n, (PFetch j), (PTry j (next s mod length (queues s)) 0). repeat split; auto.
  - (* PTry *)
    destruct (q_free s ((start + i) mod nq s)) eqn:G.
    + apply q_free_spec in G as [Hq _]. unfold do_push in H. injection H as <- <-.
      eapply acct_push; eauto;
        destruct (match qitems (getq s ((start + i) mod nq s)) with [] => true | _ :: _ => false end);
        try split; cbn; auto; lia.
    + injection H as <- <-. eapply acct_frame; eauto; st_simpl; auto.
      right. exists x, n, (PTry j start i). eexists. split; [exact En|]. split; [reflexivity|].
      match goal with |- context [if ?b then _ else _] => destruct b end;
        (split; [reflexivity|split; cbn; auto; lia]).
  - (* PPushLock *)
    destruct (q_free s start) eqn:G; [|discriminate].
    apply q_free_spec in G as [Hq _]. unfold do_push in H. injection H as <- <-.
    eapply acct_push; eauto;
      destruct (match qitems (getq s start) with [] => true | _ :: _ => false end);
      try split; cbn; auto; lia.
  - (* PNotify *)
    injection H as <- <-. destruct (notify_other s q) as (_ & _ & Eq & _ & Ep & Ee & _ & Ex).
    eapply acct_frame; eauto; st_simpl; auto.
    + apply notify_inflight.
    + now rewrite Eq.
    + right. rewrite Ep. exists x, n, (PNotify j q), (PUnlock j q). repeat split; auto.
  - (* PUnlock *)
    injection H as <- <-. eapply acct_frame; eauto; st_simpl; auto.
    + now apply queued_set_same.
    + right. exists x, n, (PUnlock j q), (PFetch (S j)). repeat split; auto.
Qed.

(* a worker takes the front item of queue q *)
Lemma acct_pop s w p0 p q it r o b :
  Acct s -> nth_error (workers s) w = Some p0 -> inflight p0 = [] -> inflight p = [it] ->
  q < nq s -> qitems (getq s q) = it :: r ->
  Acct (set_worker (set_queue s q {| qown := o; qitems := r; qstop := b |}) w p).
Proof.
  intros [H1 H2 H3 H4] Ew Hi0 Hi Hq Eit. constructor; st_simpl; auto.
  destruct (flat_map_set_nth qitems (queues s) q (getq s q) (getq_nth_error s q Hq)) as (R & P1 & P2).
  destruct (flat_map_set_nth inflight (workers s) w p0 Ew) as (R' & P3 & P4).
  rewrite (P2 _), (P4 _). cbn [qitems]. unfold queued in H1. rewrite P1, P3, Eit, Hi0 in H1. rewrite H1, Hi.
  apply Permutation_app_head. cbn. symmetry. apply Permutation_middle.
Qed.

(* a worker completes the item it holds *)
Lemma acct_exec s w p0 p it :
  Acct s -> nth_error (workers s) w = Some p0 -> inflight p0 = [it] -> inflight p = [] ->
  Acct (set_worker (add_executed s it w) w p).
Proof.
  intros [H1 H2 H3 H4] Ew Hi0 Hi. constructor; st_simpl; auto.
  destruct (flat_map_set_nth inflight (workers s) w p0 Ew) as (R' & P3 & P4).
  rewrite (P4 _), Hi. rewrite P3, Hi0 in H1. rewrite H1. rewrite map_app. cbn.
  rewrite <- !app_assoc. reflexivity.
Qed.

(* a worker step that moves no item: its pc changes between states with the same item in flight,
   and possibly one queue's lock/stop fields change *)
Lemma acct_worker_frame s s' w p0 p :
  Acct s -> nth_error (workers s) w = Some p0 -> inflight p = inflight p0 ->
  enq s' = enq s -> executed s' = executed s -> prods s' = prods s ->
  workers s' = set_nth w p (workers s) -> queued s' = queued s -> Acct s'.
Proof.
  intros A Ew Hi Ee Ex Ep Ewk Eq. eapply acct_frame; eauto.
  rewrite Ewk. eapply inflight_set_same; eauto.
Qed.

Lemma pop_acquired_acct s w p0 :
  Acct s -> nth_error (workers s) w = Some p0 -> inflight p0 = [] -> w < nq s -> Acct (pop_acquired s w).
Proof.
  intros A Ew Hi Hw. unfold pop_acquired. destruct (qitems (getq s w)) as [|it r] eqn:Eit.
  - eapply acct_worker_frame with (w := w) (p0 := p0)
      (p := if qstop (getq s w) then WPopUnlock None else WPopWait); eauto; st_simpl; auto.
    + destruct (qstop (getq s w)); now rewrite Hi.
    + apply queued_set_same. cbn. now rewrite Eit.
  - eapply acct_pop; eauto. reflexivity.
Qed.

Lemma step_worker_acct w s s' evs : Acct s -> step_worker w s = Some (s', evs) -> Acct s'.
Proof.
  intros A H. unfold step_worker in H.
  destruct (nth_error (workers s) w) as [pc|] eqn:Ew; [|discriminate].
  destruct pc as [|i|i q t| | |[]|t|t|]; try discriminate.
  - (* WScan *)
    destruct (q_free s ((w + i) mod nq s)) eqn:G.
    + apply q_free_spec in G as [Hq _].
      destruct (qitems (getq s ((w + i) mod nq s))) as [|it r] eqn:Eit; injection H as <- <-.
      * eapply acct_worker_frame with (w := w) (p0 := WScan i)
          (p := WScanUnlock i ((w + i) mod nq s) None); eauto; st_simpl; auto.
        apply queued_set_same. cbn. now rewrite Eit.
      * eapply acct_pop; eauto; reflexivity.
    + injection H as <- <-.
      eapply acct_worker_frame with (w := w) (p0 := WScan i)
        (p := if Nat.eqb (S i) (nq s) then WPopLock else WScan (S i)); eauto; st_simpl; auto.
      match goal with |- context [if ?b then _ else _] => destruct b end; reflexivity.
  - (* WScanUnlock *)
    injection H as <- <-.
    eapply acct_worker_frame with (w := w) (p0 := WScanUnlock i q t)
      (p := match t with Some it => WExec it | None => if Nat.eqb (S i) (nq s) then WPopLock else WScan (S i) end);
      eauto; st_simpl; auto.
    + destruct t; [reflexivity|]. match goal with |- context [if ?b then _ else _] => destruct b end; reflexivity.
    + now apply queued_set_same.
  - (* WPopLock *)
    destruct (q_free s w) eqn:G; [|discriminate]. apply q_free_spec in G as [Hq _].
    injection H as <- <-. eapply pop_acquired_acct; eauto.
  - (* WPopWait *)
    injection H as <- <-.
    eapply acct_worker_frame with (w := w) (p0 := WPopWait) (p := WPopBlocked false); eauto; st_simpl; auto.
    now apply queued_set_same.
  - (* WPopBlocked true *)
    destruct (q_free s w) eqn:G; [|discriminate]. apply q_free_spec in G as [Hq _].
    injection H as <- <-. eapply pop_acquired_acct; eauto.
  - (* WPopUnlock *)
    injection H as <- <-.
    eapply acct_worker_frame with (w := w) (p0 := WPopUnlock t)
      (p := match t with Some it => WExec it | None => WDone end); eauto; st_simpl; auto.
    + destruct t; reflexivity.
    + now apply queued_set_same.
  - (* WExec *)
    injection H as <- <-. eapply acct_exec; eauto; reflexivity.
Qed.

Lemma step_acct t s s' evs : Acct s -> step t s = Some (s', evs) -> Acct s'.
Proof.
  intros A H. unfold step in H.
  destruct (Nat.eqb t 0); [eapply step_main_acct; eauto|].
  destruct (Nat.leb t (nprods s)); [eapply step_prod_acct; eauto|].
  destruct (Nat.leb t (nprods s + nq s)); [eapply step_worker_acct; eauto|].
  destruct (Nat.leb t (nprods s + nq s + nq s)); [eapply step_spur_acct; eauto|discriminate].
Qed.

Theorem acct_reachable rc k counts (sched : list nat) :
  Acct (fst (run step sched (init rc k counts, []))).
Proof.
  apply (run_invariant_state _ _ _ step Acct).
  - intros s t s' ev. apply step_acct.
  - apply acct_init.
Qed.

(* ------------------------------------------------------------------------------------------ *)
(* group 2: mutex ownership, wake-ups, stop                                                    *)

Record Own (s : st) : Prop := {
  O_len : length (workers s) = nq s;
  O_m : forall q, holdsM (mainpc s) q = true -> q < nq s /\ qown (getq s q) = Some 0;
  O_p : forall x n pc q, nth_error (prods s) x = Some (n, pc) -> holdsP pc q = true ->
        q < nq s /\ qown (getq s q) = Some (S x);
  O_w : forall w pc q, nth_error (workers s) w = Some pc -> holdsW w pc q = true ->
        q < nq s /\ qown (getq s q) = Some (worker_tid s w);
  O_wait : forall w, nth_error (workers s) w = Some WPopWait ->
           qitems (getq s w) = [] /\ qstop (getq s w) = false;
  O_blocked : forall w, nth_error (workers s) w = Some (WPopBlocked false) ->
              (qitems (getq s w) = [] \/ exists x n j, nth_error (prods s) x = Some (n, PNotify j w)) /\
              (qstop (getq s w) = false \/ exists d, mainpc s = MStopNotify d w);
  O_ret : forall w, nth_error (workers s) w = Some (WPopUnlock None) ->
          qitems (getq s w) = [] /\ qstop (getq s w) = true;
  O_done : forall w, nth_error (workers s) w = Some WDone ->
           qstop (getq s w) = true /\ incl (qitems (getq s w)) (late s);
  O_race : race s = false -> forall q, q < nq s -> qstop (getq s q) = true -> all_prods_done s = true;
  O_late : race s = false -> late s = [];
  O_d : race s = false ->
        match mainpc s with MStopLock d _ | MStopNotify d _ | MStopUnlock d _ => d = true | _ => True end;
  O_join : forall i, mainpc s = MJoin i -> forall w, w < i -> nth_error (workers s) w = Some WDone;
  O_mdone : mainpc s = MDone -> forall w, w < nq s -> nth_error (workers s) w = Some WDone
}.

Lemma own_init rc k counts : Own (init rc k counts).
Proof. destruct (inv_init rc k counts). constructor; auto. intros _. exact I. Qed.

Lemma getq_set_same_fields s q x q' :
  qitems x = qitems (getq s q) -> qstop x = qstop (getq s q) ->
  qitems (getq (set_queue s q x) q') = qitems (getq s q') /\ qstop (getq (set_queue s q x) q') = qstop (getq s q').
Proof.
  intros E1 E2. destruct (Nat.eq_dec q q') as [<-|Hne].
  - destruct (Nat.lt_ge_cases q (nq s)) as [Hq|Hq].
    + unfold getq at 1 3; cbn. rewrite nth_set_nth_eq by exact Hq. auto.
    + unfold getq; cbn. rewrite set_nth_oob by exact Hq. auto.
  - unfold getq; cbn. rewrite nth_set_nth_neq by exact Hne. auto.
Qed.

(* getq after an update of one queue *)
Lemma getq_set_eq s q x : q < nq s -> getq (set_queue s q x) q = x.
Proof. intros H. unfold getq; cbn. now apply nth_set_nth_eq. Qed.
Lemma getq_set_neq s q q' x : q <> q' -> getq (set_queue s q x) q' = getq s q'.
Proof. intros H. unfold getq; cbn. now apply nth_set_nth_neq. Qed.

(* two different threads cannot both be recorded as owner of the same mutex *)
Lemma owner_distinct s q q' t t' :
  qown (getq s q) = Some t -> qown (getq s q') = Some t' -> t <> t' -> q <> q'.
Proof. intros H1 H2 Hne ->. congruence. Qed.

Lemma free_distinct s q q' t' : qown (getq s q) = None -> qown (getq s q') = Some t' -> q <> q'.
Proof. intros H1 H2 ->. congruence. Qed.

Ltac own_simpl :=
  unfold worker_tid, nq, nprods, all_prods_done, getq in *;
  cbn [race next queues mainpc prods workers enq late executed
       set_queue set_main set_prod set_worker set_next add_enq add_executed] in *;
  rewrite ?set_nth_length in *.

Lemma nth_set_nth_fields (l : list qst) q q' x d :
  qitems x = qitems (nth q l d) -> qstop x = qstop (nth q l d) ->
  qitems (nth q' (set_nth q x l) d) = qitems (nth q' l d) /\
  qstop (nth q' (set_nth q x l) d) = qstop (nth q' l d).
Proof.
  intros E1 E2. destruct (Nat.eq_dec q q') as [<-|Hne].
  - destruct (Nat.lt_ge_cases q (length l)) as [Hq|Hq].
    + rewrite nth_set_nth_eq by exact Hq. auto.
    + rewrite set_nth_oob by exact Hq. auto.
  - rewrite nth_set_nth_neq by exact Hne. auto.
Qed.

Lemma nth_set_nth_stop (l : list qst) q q' x d :
  qstop x = qstop (nth q l d) -> qstop (nth q' (set_nth q x l) d) = qstop (nth q' l d).
Proof.
  intros E2. destruct (Nat.eq_dec q q') as [<-|Hne].
  - destruct (Nat.lt_ge_cases q (length l)) as [Hq|Hq].
    + rewrite nth_set_nth_eq by exact Hq. auto.
    + rewrite set_nth_oob by exact Hq. auto.
  - rewrite nth_set_nth_neq by exact Hne. auto.
Qed.

(* unlocking changes neither the items nor the stop flag of any queue *)
Lemma unlock_fields (l : list qst) q q' d :
  qitems (nth q' (set_nth q (unlockq (nth q l d)) l) d) = qitems (nth q' l d) /\
  qstop (nth q' (set_nth q (unlockq (nth q l d)) l) d) = qstop (nth q' l d).
Proof. apply nth_set_nth_fields; reflexivity. Qed.

Lemma step_main_own s s' evs : Own s -> step_main s = Some (s', evs) -> Own s'.
Proof.
  intros O H. unfold step_main in H. destruct O.
  destruct (mainpc s) as [i|d q|d q|d q|i|] eqn:Em.
  - (* MSpawn *)
    destruct (nth_error (workers s) i) as [[]|] eqn:Ew; try discriminate. injection H as <- <-.
    assert (Hmain : forall q, holdsM (if Nat.eqb (S i) (nq s) then MStopLock (negb (race s)) 0 else MSpawn (S i)) q = false).
    { intros q. destruct (Nat.eqb (S i) (nq s)); reflexivity. }
    constructor; own_simpl; auto.
    + intros q Hh. unfold nq in Hmain. rewrite Hmain in Hh. discriminate.
    + intros w pc q Hn Hh. apply nth_error_set_nth in Hn as [(<- & -> & _)|(Hne & Hn)]; [discriminate|eauto].
    + intros w Hn. apply nth_error_set_nth in Hn as [(<- & E & _)|(Hne & Hn)]; [discriminate|eauto].
    + intros w Hn. apply nth_error_set_nth in Hn as [(<- & E & _)|(Hne & Hn)]; [discriminate|].
      destruct (O_blocked0 w Hn) as [H1 [H2|[d0 H2]]]; [auto|discriminate].
    + intros w Hn. apply nth_error_set_nth in Hn as [(<- & E & _)|(Hne & Hn)]; [discriminate|eauto].
    + intros w Hn. apply nth_error_set_nth in Hn as [(<- & E & _)|(Hne & Hn)]; [discriminate|eauto].
    + intros Hr. destruct (length (queues s)) eqn:El; [exact I|]. destruct (Nat.eqb i n); [|exact I].
      rewrite Hr. reflexivity.
    + intros i0 E. destruct (length (queues s)) eqn:El; [discriminate|]. destruct (Nat.eqb i n); discriminate.
    + intros E. destruct (length (queues s)) eqn:El; [discriminate|]. destruct (Nat.eqb i n); discriminate.
  - (* MStopLock *)
    destruct (q_free s q && (negb d || all_prods_done s)) eqn:G; [|discriminate].
    apply andb_true_iff in G as [G Gd]. apply q_free_spec in G as [Hq Hfree]. injection H as <- <-.
    constructor; own_simpl; auto.
    + intros q' Hh. cbn in Hh. apply Nat.eqb_eq in Hh as ->. split; [exact Hq|]. now rewrite nth_set_nth_eq.
    + intros x0 n pc q' Hn Hh. destruct (O_p0 _ _ _ _ Hn Hh) as [Hq' Ho]. split; [exact Hq'|].
      rewrite nth_set_nth_neq; [exact Ho|]. intros ->. congruence.
    + intros w pc q' Hn Hh. destruct (O_w0 _ _ _ Hn Hh) as [Hq' Ho]. split; [exact Hq'|].
      rewrite nth_set_nth_neq; [exact Ho|]. intros ->. congruence.
    + intros w Hn. destruct (O_w0 w WPopWait w Hn) as [_ Ho]; [cbn; apply Nat.eqb_refl|].
      rewrite nth_set_nth_neq; [auto|]. intros ->. congruence.
    + intros w Hn. destruct (O_blocked0 w Hn) as [H1 H2]. destruct (Nat.eq_dec q w) as [->|Hne].
      * rewrite nth_set_nth_eq by exact Hq. cbn. split; [exact H1|]. right. eauto.
      * rewrite nth_set_nth_neq by exact Hne. split; [exact H1|]. destruct H2 as [H2|[d0 H2]]; [auto|discriminate].
    + intros w Hn. destruct (O_w0 w (WPopUnlock None) w Hn) as [_ Ho]; [cbn; apply Nat.eqb_refl|].
      rewrite nth_set_nth_neq; [auto|]. intros ->. congruence.
    + intros w Hn. destruct (O_done0 w Hn) as [H1 H2]. destruct (Nat.eq_dec q w) as [->|Hne].
      * rewrite nth_set_nth_eq by exact Hq. cbn. auto.
      * rewrite nth_set_nth_neq by exact Hne. auto.
    + intros Hr q' Hq' Hs. specialize (O_d0 Hr). cbn in O_d0. subst d. cbn in Gd.
      destruct (Nat.eq_dec q q') as [->|Hne]; [exact Gd|].
      rewrite nth_set_nth_neq in Hs by exact Hne. eauto.
    + intros i E; discriminate.
    + discriminate.
  - (* MStopNotify *)
    injection H as <- <-. destruct (notify_other s q) as (Er & _ & Eq & _ & Ep & _ & El & _).
    pose proof (notify_len s q) as Elen.
    constructor; own_simpl; rewrite ?Er, ?Eq, ?Ep, ?El, ?Elen in *; auto.
    + intros w pc q' Hn Hh. apply notify_nth in Hn as (pc0 & Hn & ->).
      apply (O_w0 w pc0 q' Hn). destruct (Nat.eqb w q); [now rewrite wake_holds in Hh|exact Hh].
    + intros w Hn. apply notify_nth_inv in Hn as [Hn _]; [auto|discriminate].
    + intros w Hn. apply notify_nth_inv in Hn as [Hn Hwq]; [|discriminate]. specialize (Hwq eq_refl).
      destruct (O_blocked0 w Hn) as [H1 [H2|[d0 H2]]]; split; auto. injection H2 as _ E. congruence.
    + intros w Hn. apply notify_nth_inv in Hn as [Hn _]; [auto|discriminate].
    + intros w Hn. apply notify_nth_inv in Hn as [Hn _]; [auto|discriminate].
    + intros i E; discriminate.
    + discriminate.
  - (* MStopUnlock *)
    injection H as <- <-.
    destruct (O_m0 q) as [Hq Hown]; [cbn; apply Nat.eqb_refl|].
    set (nxt := if Nat.eqb (S q) (nq s) then (if d then MJoin 0 else MStopLock true 0) else MStopLock d (S q)).
    assert (Hnh : forall q', holdsM nxt q' = false).
    { intros q'. unfold nxt. destruct (Nat.eqb (S q) (nq s)); [destruct d|]; reflexivity. }
    constructor; own_simpl; fold nxt; auto.
    + intros q' Hh. rewrite Hnh in Hh. discriminate.
    + intros x0 n pc q' Hn Hh. destruct (O_p0 _ _ _ _ Hn Hh) as [Hq' Ho]. split; [exact Hq'|].
      rewrite nth_set_nth_neq; [exact Ho|]. intros ->. congruence.
    + intros w pc q' Hn Hh. destruct (O_w0 _ _ _ Hn Hh) as [Hq' Ho]. split; [exact Hq'|].
      rewrite nth_set_nth_neq; [exact Ho|]. intros ->. rewrite Hown in Ho. injection Ho as Ho. lia.
    + intros w Hn. destruct (unlock_fields (queues s) q w {| qown := Some 0; qitems := []; qstop := true |}) as [-> ->]. auto.
    + intros w Hn. destruct (unlock_fields (queues s) q w {| qown := Some 0; qitems := []; qstop := true |}) as [-> ->].
      destruct (O_blocked0 w Hn) as [H1 [H2|[d0 H2]]]; [auto|discriminate].
    + intros w Hn. destruct (unlock_fields (queues s) q w {| qown := Some 0; qitems := []; qstop := true |}) as [-> ->]. auto.
    + intros w Hn. destruct (unlock_fields (queues s) q w {| qown := Some 0; qitems := []; qstop := true |}) as [-> ->]. auto.
    + intros Hr q' Hq' Hs.
      destruct (unlock_fields (queues s) q q' {| qown := Some 0; qitems := []; qstop := true |}) as [_ E].
      rewrite E in Hs. eauto.
    + intros Hr. specialize (O_d0 Hr). subst nxt. cbn in O_d0. subst d.
      match goal with |- context [if ?b then _ else _] => destruct b end; cbn; auto.
    + intros i E w Hw. unfold nxt in E.
      match type of E with context [if ?b then _ else _] => destruct b end; [destruct d|]; try discriminate.
      injection E as <-. lia.
    + unfold nxt. match goal with |- context [if ?b then _ else _] => destruct b end; [destruct d|]; discriminate.
  - (* MJoin *)
    destruct (nth_error (workers s) i) as [[]|] eqn:Ew; try discriminate. injection H as <- <-.
    assert (Hjoin : forall w, w < S i -> nth_error (workers s) w = Some WDone).
    { intros w Hw. destruct (Nat.eq_dec w i) as [->|]; [exact Ew|]. apply (O_join0 i eq_refl). lia. }
    constructor; own_simpl; auto.
    + intros q' Hh. match type of Hh with context [if ?b then _ else _] => destruct b end; discriminate.
    + intros w Hn. destruct (O_blocked0 w Hn) as [H1 [H2|[d0 H2]]]; [auto|discriminate].
    + intros Hr. match goal with |- context [if ?b then _ else _] => destruct b end; exact I.
    + intros i0 E w Hw. match type of E with context [if ?b then _ else _] => destruct b end; [discriminate|].
      injection E as <-. auto.
    + intros E w Hw. match type of E with context [if ?b then _ else _] => destruct b eqn:Eb end; [|discriminate].
      apply Hjoin. destruct (length (queues s)) as [|m]; [lia|]. apply Nat.eqb_eq in Eb. lia.
  - discriminate.
Qed.

Ltac wsplit Hn := apply nth_error_set_nth in Hn as [(<- & Hn & _)|(? & Hn)].

Lemma step_spur_own w s s' evs : Own s -> step_spur w s = Some (s', evs) -> Own s'.
Proof.
  intros O H. unfold step_spur in H. destruct O.
  destruct (nth_error (workers s) w) as [[| | | | |[]| | |]|] eqn:Ew; try discriminate. injection H as <- <-.
  constructor; own_simpl; auto.
  - intros w0 pc q Hn Hh. wsplit Hn; [subst; discriminate|eauto].
  - intros w0 Hn. wsplit Hn; [discriminate|eauto].
  - intros w0 Hn. wsplit Hn; [discriminate|eauto].
  - intros w0 Hn. wsplit Hn; [discriminate|eauto].
  - intros w0 Hn. wsplit Hn; [discriminate|eauto].
  - intros i E w0 Hw. rewrite nth_error_set_nth_neq; [eauto|]. intros ->.
    specialize (O_join0 i E w0 Hw). congruence.
  - intros E w0 Hw. rewrite nth_error_set_nth_neq; [eauto|]. intros ->.
    specialize (O_mdone0 E w0 Hw). congruence.
Qed.

Lemma all_done_contra (l : list (nat * ppc)) x n pc :
  forallb prod_done l = true -> nth_error l x = Some (n, pc) ->
  (match pc with PFetch j => j < n | _ => True end) -> False.
Proof. intros H Hn Hp. destruct (all_done_nth l x n pc H Hn) as (j & -> & Hle). lia. Qed.

(* a producer moves between two program counters that hold no mutex (and is not finished) *)
Lemma own_prod_pc s x n pc pc' nx :
  Own s -> nth_error (prods s) x = Some (n, pc) ->
  (forall q, holdsP pc q = false) -> (forall q, holdsP pc' q = false) ->
  (match pc with PFetch j => j < n | _ => True end) ->
  Own (set_prod (set_next s nx) x (n, pc')).
Proof.
  intros O En Hh Hh' Hnd. destruct O. constructor; own_simpl; auto.
  - intros x0 n0 pc0 q Hn Hhq. wsplit Hn; [injection Hn as -> ->; rewrite Hh' in Hhq; discriminate|eauto].
  - intros w Hn. destruct (O_blocked0 w Hn) as [H1 H2]. split; [|exact H2].
    destruct H1 as [H1|(x0 & n0 & j0 & Hn0)]; [auto|]. right. exists x0, n0, j0.
    rewrite nth_error_set_nth_neq; [exact Hn0|]. intros ->. rewrite En in Hn0. injection Hn0 as _ ->.
    specialize (Hh w). cbn in Hh. rewrite Nat.eqb_refl in Hh. discriminate.
  - intros Hr q Hq Hs. exfalso. eapply all_done_contra; eauto.
Qed.

(* a producer acquires the free mutex q and pushes its item *)
Lemma own_push s x n pc j q it :
  Own s -> nth_error (prods s) x = Some (n, pc) -> (forall q', holdsP pc q' = false) ->
  (match pc with PFetch j => j < n | _ => True end) ->
  q < nq s -> qown (getq s q) = None ->
  let xq := getq s q in
  let pc' := if match qitems xq with [] => true | _ => false end then PNotify j q else PUnlock j q in
  Own (set_prod (add_enq (set_queue s q {| qown := Some (S x); qitems := qitems xq ++ [it]; qstop := qstop xq |})
                         it (qstop xq)) x (n, pc')).
Proof.
  intros O En Hh Hnd Hq Hfree xq pc'. destruct O.
  assert (Hx : x < length (prods s)) by (eapply nth_error_lt; eauto).
  assert (Hpc' : forall q', holdsP pc' q' = Nat.eqb q' q).
  { intros q'. unfold pc'. destruct (qitems xq); reflexivity. }
  assert (Hnotdone : forallb prod_done (prods s) = true -> False).
  { intros Hd. eapply all_done_contra; eauto. }
  subst xq. constructor; own_simpl; auto.
  - intros q' Hm. destruct (O_m0 _ Hm) as [Hq' Ho]. split; [exact Hq'|].
    rewrite nth_set_nth_neq; [exact Ho|]. intros ->. congruence.
  - intros x0 n0 pc0 q' Hn Hhq. wsplit Hn.
    + injection Hn as -> ->. rewrite Hpc' in Hhq. apply Nat.eqb_eq in Hhq as ->.
      split; [exact Hq|]. now rewrite nth_set_nth_eq.
    + destruct (O_p0 _ _ _ _ Hn Hhq) as [Hq' Ho]. split; [exact Hq'|].
      rewrite nth_set_nth_neq; [exact Ho|]. intros ->. congruence.
  - intros w pc0 q' Hn Hhq. destruct (O_w0 _ _ _ Hn Hhq) as [Hq' Ho]. split; [exact Hq'|].
    rewrite nth_set_nth_neq; [exact Ho|]. intros ->. congruence.
  - intros w Hn. destruct (O_w0 w WPopWait w Hn) as [_ Ho]; [cbn; apply Nat.eqb_refl|].
    rewrite nth_set_nth_neq; [auto|]. intros ->. congruence.
  - intros w Hn. destruct (O_blocked0 w Hn) as [H1 H2]. destruct (Nat.eq_dec q w) as [->|Hne].
    + rewrite nth_set_nth_eq by exact Hq. cbn [qitems qstop]. split; [|exact H2]. right.
      destruct H1 as [H1|(x0 & n0 & j0 & Hn0)].
      * exists x, n, j. rewrite nth_error_set_nth_eq by exact Hx. unfold pc'. now rewrite H1.
      * exists x0, n0, j0. rewrite nth_error_set_nth_neq; [exact Hn0|]. intros ->.
        rewrite En in Hn0. injection Hn0 as _ ->. specialize (Hh w). cbn in Hh. rewrite Nat.eqb_refl in Hh. discriminate.
    + rewrite nth_set_nth_neq by exact Hne. split; [|exact H2].
      destruct H1 as [H1|(x0 & n0 & j0 & Hn0)]; [auto|]. right.
      exists x0, n0, j0. rewrite nth_error_set_nth_neq; [exact Hn0|]. intros ->.
      rewrite En in Hn0. injection Hn0 as _ ->. specialize (Hh w). cbn in Hh. rewrite Nat.eqb_refl in Hh. discriminate.
  - intros w Hn. destruct (O_w0 w (WPopUnlock None) w Hn) as [_ Ho]; [cbn; apply Nat.eqb_refl|].
    rewrite nth_set_nth_neq; [auto|]. intros ->. congruence.
  - intros w Hn. destruct (O_done0 w Hn) as [H1 H2]. destruct (Nat.eq_dec q w) as [->|Hne].
    + rewrite nth_set_nth_eq by exact Hq. cbn [qitems qstop]. split; [exact H1|]. rewrite H1.
      apply incl_app; [apply incl_appl; exact H2|apply incl_appr, incl_refl].
    + rewrite nth_set_nth_neq by exact Hne. split; [exact H1|].
      destruct (qstop (nth q (queues s) _)); [apply incl_appl|]; exact H2.
  - intros Hr q' Hq' Hs. exfalso. apply Hnotdone.
    rewrite nth_set_nth_stop in Hs by reflexivity. eauto.
  - intros Hr. destruct (qstop (nth q (queues s) _)) eqn:Es; [|auto]. exfalso. apply Hnotdone. eauto.
Qed.

Lemma set_next_same s : set_next s (next s) = s.
Proof. destruct s; reflexivity. Qed.

Lemma step_prod_own x s s' evs : Own s -> step_prod x s = Some (s', evs) -> Own s'.
Proof.
  intros O H. unfold step_prod in H.
  destruct (nth_error (prods s) x) as [[n pc]|] eqn:En; [|discriminate].
  assert (Hx : x < length (prods s)) by (eapply nth_error_lt; eauto).
  destruct pc as [j|j start i|j start|j q|j q].
  - (* PFetch *)
    destruct (Nat.ltb_spec j n) as [Hj|]; [|discriminate]. cbn [andb] in H.
    destruct (Nat.ltb 0 (nq s) && negb match mainpc s with MSpawn _ => true | _ => false end); [|discriminate].
    injection H as <- <-. eapply own_prod_pc; eauto.
  - (* PTry *)
    destruct (q_free s ((start + i) mod nq s)) eqn:G.
    + apply q_free_spec in G as [Hq Hfree]. unfold do_push in H. injection H as <- <-.
      eapply own_push; eauto. exact I.
    + injection H as <- <-. rewrite <- (set_next_same s) at 1. eapply own_prod_pc; eauto.
      * intros q. match goal with |- context [if ?b then _ else _] => destruct b end; reflexivity.
      * exact I.
  - (* PPushLock *)
    destruct (q_free s start) eqn:G; [|discriminate].
    apply q_free_spec in G as [Hq Hfree]. unfold do_push in H. injection H as <- <-.
    eapply own_push; eauto. exact I.
  - (* PNotify *)
    injection H as <- <-. destruct O.
    destruct (notify_other s q) as (Er & _ & Eq & Em & Ep & _ & El & _).
    pose proof (notify_len s q) as Elen.
    constructor; own_simpl; rewrite ?Er, ?Eq, ?Ep, ?El, ?Elen, ?Em in *; auto.
    + intros x0 n0 pc0 q' Hn Hh. wsplit Hn; [injection Hn as -> ->; eapply O_p0; eauto|eauto].
    + intros w pc q' Hn Hh. apply notify_nth in Hn as (pc0 & Hn & ->).
      apply (O_w0 w pc0 q' Hn). destruct (Nat.eqb w q); [now rewrite wake_holds in Hh|exact Hh].
    + intros w Hn. apply notify_nth_inv in Hn as [Hn _]; [auto|discriminate].
    + intros w Hn. apply notify_nth_inv in Hn as [Hn Hwq]; [|discriminate]. specialize (Hwq eq_refl).
      destruct (O_blocked0 w Hn) as [H1 H2]. split; [|exact H2].
      destruct H1 as [H1|(x0 & n0 & j0 & Hn0)]; [auto|]. right. exists x0, n0, j0.
      rewrite nth_error_set_nth_neq; [exact Hn0|]. intros ->. rewrite En in Hn0. injection Hn0 as _ _ E. congruence.
    + intros w Hn. apply notify_nth_inv in Hn as [Hn _]; [auto|discriminate].
    + intros w Hn. apply notify_nth_inv in Hn as [Hn _]; [auto|discriminate].
    + intros Hr q' Hq' Hs. exfalso. eapply (all_done_contra (prods s) x n (PNotify j q)); eauto; exact I.
    + intros i E w Hw. specialize (O_join0 i E w Hw).
      rewrite notify_workers. destruct (nth_error (workers s) q) as [w0|] eqn:Ewq; [|exact O_join0].
      destruct (Nat.eq_dec q w) as [->|Hne]; [|now rewrite nth_error_set_nth_neq].
      rewrite Ewq in O_join0. injection O_join0 as ->. rewrite nth_error_set_nth_eq; [reflexivity|].
      eapply nth_error_lt; eauto.
    + intros E w Hw. specialize (O_mdone0 E w Hw).
      rewrite notify_workers. destruct (nth_error (workers s) q) as [w0|] eqn:Ewq; [|exact O_mdone0].
      destruct (Nat.eq_dec q w) as [->|Hne]; [|now rewrite nth_error_set_nth_neq].
      rewrite Ewq in O_mdone0. injection O_mdone0 as ->. rewrite nth_error_set_nth_eq; [reflexivity|].
      eapply nth_error_lt; eauto.
  - (* PUnlock *)
    injection H as <- <-. destruct O.
    destruct (O_p0 x n (PUnlock j q) q En) as [Hq Hown]; [cbn; apply Nat.eqb_refl|].
    constructor; own_simpl; auto.
    + intros q' Hm. destruct (O_m0 _ Hm) as [Hq' Ho]. split; [exact Hq'|].
      rewrite nth_set_nth_neq; [exact Ho|]. intros ->. congruence.
    + intros x0 n0 pc0 q' Hn Hhq. wsplit Hn; [injection Hn as -> ->; discriminate|].
      destruct (O_p0 _ _ _ _ Hn Hhq) as [Hq' Ho]. split; [exact Hq'|].
      rewrite nth_set_nth_neq; [exact Ho|]. intros ->. rewrite Hown in Ho. injection Ho as Ho. congruence.
    + intros w pc0 q' Hn Hhq. destruct (O_w0 _ _ _ Hn Hhq) as [Hq' Ho]. split; [exact Hq'|].
      rewrite nth_set_nth_neq; [exact Ho|]. intros ->. rewrite Hown in Ho. injection Ho as Ho. lia.
    + intros w Hn. destruct (unlock_fields (queues s) q w {| qown := Some 0; qitems := []; qstop := true |}) as [-> ->]. auto.
    + intros w Hn. destruct (unlock_fields (queues s) q w {| qown := Some 0; qitems := []; qstop := true |}) as [-> ->].
      destruct (O_blocked0 w Hn) as [H1 H2]. split; [|exact H2].
      destruct H1 as [H1|(x0 & n0 & j0 & Hn0)]; [auto|]. right. exists x0, n0, j0.
      rewrite nth_error_set_nth_neq; [exact Hn0|]. intros ->. rewrite En in Hn0. discriminate.
    + intros w Hn. destruct (unlock_fields (queues s) q w {| qown := Some 0; qitems := []; qstop := true |}) as [-> ->]. auto.
    + intros w Hn. destruct (unlock_fields (queues s) q w {| qown := Some 0; qitems := []; qstop := true |}) as [-> ->]. auto.
    + intros Hr q' Hq' Hs. exfalso.
      destruct (unlock_fields (queues s) q q' {| qown := Some 0; qitems := []; qstop := true |}) as [_ E].
      rewrite E in Hs. eapply (all_done_contra (prods s) x n (PUnlock j q)); eauto; exact I.
Qed.

Definition dq : qst := {| qown := Some 0; qitems := []; qstop := true |}.

(* a worker moves between two program counters that hold no mutex; no queue changes *)
Lemma own_worker_pc s s' w pc0 pc' :
  Own s -> nth_error (workers s) w = Some pc0 -> pc0 <> WDone ->
  (forall q, holdsW w pc' q = false) -> pc' <> WPopBlocked false -> pc' <> WDone ->
  race s' = race s -> queues s' = queues s -> mainpc s' = mainpc s -> prods s' = prods s ->
  late s' = late s -> workers s' = set_nth w pc' (workers s) ->
  Own s'.
Proof.
  intros O Ew Hnd Hh' Hb Hd Er Eq Em Ep El Ewk. destruct O.
  assert (Hpw : pc' <> WPopWait) by (intros ->; specialize (Hh' w); cbn in Hh'; rewrite Nat.eqb_refl in Hh'; discriminate).
  assert (Hpu : forall t, pc' <> WPopUnlock t) by (intros t ->; specialize (Hh' w); cbn in Hh'; rewrite Nat.eqb_refl in Hh'; discriminate).
  constructor; own_simpl; rewrite ?Er, ?Eq, ?Em, ?Ep, ?El, ?Ewk in *; rewrite ?set_nth_length; auto.
  - intros w0 pc q Hn Hh. wsplit Hn; [subst; rewrite Hh' in Hh; discriminate|eauto].
  - intros w0 Hn. wsplit Hn; [congruence|eauto].
  - intros w0 Hn. wsplit Hn; [congruence|eauto].
  - intros w0 Hn. wsplit Hn; [exfalso; eapply Hpu; eauto|eauto].
  - intros w0 Hn. wsplit Hn; [congruence|eauto].
  - intros i E w0 Hw. rewrite nth_error_set_nth_neq; [eauto|]. intros ->.
    specialize (O_join0 i E w0 Hw). congruence.
  - intros E w0 Hw. rewrite nth_error_set_nth_neq; [eauto|]. intros ->.
    specialize (O_mdone0 E w0 Hw). congruence.
Qed.

(* a worker acquires the free mutex q; it may remove the front item *)
Lemma own_worker_acquire s w pc0 pc' q x :
  Own s -> nth_error (workers s) w = Some pc0 -> pc0 <> WDone ->
  q < nq s -> qown (getq s q) = None ->
  qown x = Some (worker_tid s w) -> qstop x = qstop (getq s q) ->
  (qitems x = qitems (getq s q) \/ exists it, qitems (getq s q) = it :: qitems x) ->
  (forall q', holdsW w pc' q' = Nat.eqb q' q) -> pc' <> WPopBlocked false -> pc' <> WDone ->
  (pc' = WPopWait -> qitems x = [] /\ qstop x = false) ->
  (pc' = WPopUnlock None -> qitems x = [] /\ qstop x = true) ->
  Own (set_worker (set_queue s q x) w pc').
Proof.
  intros O Ew Hnd Hq Hfree Hox Hsx Hix Hh' Hb Hd Hwait Hret. destruct O.
  assert (Hsub : incl (qitems x) (qitems (getq s q))).
  { destruct Hix as [->|[it ->]]; [apply incl_refl|apply incl_tl, incl_refl]. }
  assert (Hnil : qitems (getq s q) = [] -> qitems x = []).
  { intros E. destruct Hix as [->|[it E']]; [exact E|congruence]. }
  constructor; own_simpl; auto.
  - intros q' Hm. destruct (O_m0 _ Hm) as [Hq' Ho]. split; [exact Hq'|].
    rewrite nth_set_nth_neq; [exact Ho|]. intros ->. congruence.
  - intros x0 n0 pc q' Hn Hhq. destruct (O_p0 _ _ _ _ Hn Hhq) as [Hq' Ho]. split; [exact Hq'|].
    rewrite nth_set_nth_neq; [exact Ho|]. intros ->. congruence.
  - intros w0 pc q' Hn Hhq. wsplit Hn.
    + subst pc. rewrite Hh' in Hhq. apply Nat.eqb_eq in Hhq as ->. split; [exact Hq|].
      now rewrite nth_set_nth_eq.
    + destruct (O_w0 _ _ _ Hn Hhq) as [Hq' Ho]. split; [exact Hq'|].
      rewrite nth_set_nth_neq; [exact Ho|]. intros ->. congruence.
  - intros w0 Hn. wsplit Hn.
    + assert (Hqw : w = q).
      { specialize (Hh' w). rewrite <- Hn in Hh'. cbn in Hh'. rewrite Nat.eqb_refl in Hh'. symmetry in Hh'.
        now apply Nat.eqb_eq in Hh'. }
      subst q. rewrite nth_set_nth_eq by exact Hq. apply Hwait. auto.
    + destruct (O_w0 w0 WPopWait w0 Hn) as [_ Ho]; [cbn; apply Nat.eqb_refl|].
      rewrite nth_set_nth_neq; [auto|]. intros ->. congruence.
  - intros w0 Hn. wsplit Hn; [congruence|]. destruct (O_blocked0 w0 Hn) as [H1 H2].
    destruct (Nat.eq_dec q w0) as [->|Hne].
    + rewrite nth_set_nth_eq by exact Hq. rewrite Hsx. split; [|exact H2].
      destruct H1 as [H1|H1]; [left; auto|right; exact H1].
    + rewrite nth_set_nth_neq by exact Hne. auto.
  - intros w0 Hn. wsplit Hn.
    + assert (Hqw : w = q).
      { specialize (Hh' w). rewrite <- Hn in Hh'. cbn in Hh'. rewrite Nat.eqb_refl in Hh'. symmetry in Hh'.
        now apply Nat.eqb_eq in Hh'. }
      subst q. rewrite nth_set_nth_eq by exact Hq. apply Hret. auto.
    + destruct (O_w0 w0 (WPopUnlock None) w0 Hn) as [_ Ho]; [cbn; apply Nat.eqb_refl|].
      rewrite nth_set_nth_neq; [auto|]. intros ->. congruence.
  - intros w0 Hn. wsplit Hn; [congruence|]. destruct (O_done0 w0 Hn) as [H1 H2].
    destruct (Nat.eq_dec q w0) as [->|Hne].
    + rewrite nth_set_nth_eq by exact Hq. rewrite Hsx. split; [exact H1|].
      eapply incl_tran; eauto.
    + rewrite nth_set_nth_neq by exact Hne. auto.
  - intros Hr q' Hq' Hs. rewrite nth_set_nth_stop in Hs by exact Hsx. eauto.
  - intros i E w0 Hw. rewrite nth_error_set_nth_neq; [eauto|]. intros ->.
    specialize (O_join0 i E w0 Hw). congruence.
  - intros E w0 Hw. rewrite nth_error_set_nth_neq; [eauto|]. intros ->.
    specialize (O_mdone0 E w0 Hw). congruence.
Qed.

(* a worker releases the mutex q it holds *)
Lemma own_worker_release s w pc0 pc' q :
  Own s -> nth_error (workers s) w = Some pc0 -> holdsW w pc0 q = true ->
  (forall q', holdsW w pc' q' = false) ->
  (pc' = WPopBlocked false -> pc0 = WPopWait) -> (pc' = WDone -> pc0 = WPopUnlock None) ->
  Own (set_worker (set_queue s q (unlockq (getq s q))) w pc').
Proof.
  intros O Ew Hh Hh' Hb Hd. destruct O.
  destruct (O_w0 _ _ _ Ew Hh) as [Hq Hown].
  assert (Hnd : pc0 <> WDone) by (intros ->; discriminate).
  assert (Hpw : pc' <> WPopWait) by (intros ->; specialize (Hh' w); cbn in Hh'; rewrite Nat.eqb_refl in Hh'; discriminate).
  assert (Hpu : forall t, pc' <> WPopUnlock t) by (intros t ->; specialize (Hh' w); cbn in Hh'; rewrite Nat.eqb_refl in Hh'; discriminate).
  constructor; own_simpl; auto.
  - intros q' Hm. destruct (O_m0 _ Hm) as [Hq' Ho]. split; [exact Hq'|].
    rewrite nth_set_nth_neq; [exact Ho|]. intros ->. rewrite Hown in Ho. injection Ho as Ho. lia.
  - intros x0 n0 pc q' Hn Hhq. destruct (O_p0 _ _ _ _ Hn Hhq) as [Hq' Ho]. split; [exact Hq'|].
    rewrite nth_set_nth_neq; [exact Ho|]. intros ->. rewrite Hown in Ho. injection Ho as Ho.
    apply nth_error_lt in Hn. lia.
  - intros w0 pc q' Hn Hhq. wsplit Hn; [subst pc; rewrite Hh' in Hhq; discriminate|].
    destruct (O_w0 _ _ _ Hn Hhq) as [Hq' Ho]. split; [exact Hq'|].
    rewrite nth_set_nth_neq; [exact Ho|]. intros ->. rewrite Hown in Ho. injection Ho as Ho. lia.
  - intros w0 Hn. destruct (unlock_fields (queues s) q w0 dq) as [E1 E2]. unfold dq in *. rewrite E1, E2.
    wsplit Hn; [congruence|eauto].
  - intros w0 Hn. destruct (unlock_fields (queues s) q w0 dq) as [E1 E2]. unfold dq in *. rewrite E1, E2.
    wsplit Hn; [|eauto].
    symmetry in Hn. specialize (Hb Hn). subst pc0. destruct (O_wait0 w Ew) as [-> ->]. auto.
  - intros w0 Hn. destruct (unlock_fields (queues s) q w0 dq) as [E1 E2]. unfold dq in *. rewrite E1, E2.
    wsplit Hn; [exfalso; eapply Hpu; eauto|eauto].
  - intros w0 Hn. destruct (unlock_fields (queues s) q w0 dq) as [E1 E2]. unfold dq in *. rewrite E1, E2.
    wsplit Hn; [|eauto].
    symmetry in Hn. specialize (Hd Hn). subst pc0. destruct (O_ret0 w Ew) as [-> ->]. split; [reflexivity|]. intros a [].
  - intros Hr q' Hq' Hs. destruct (unlock_fields (queues s) q q' dq) as [_ E2]. unfold dq in *. rewrite E2 in Hs. eauto.
  - intros i E w0 Hw. rewrite nth_error_set_nth_neq; [eauto|]. intros ->.
    specialize (O_join0 i E w0 Hw). congruence.
  - intros E w0 Hw. rewrite nth_error_set_nth_neq; [eauto|]. intros ->.
    specialize (O_mdone0 E w0 Hw). congruence.
Qed.

Lemma holdsW_own_iff w pc q : (pc = WPopWait \/ exists t, pc = WPopUnlock t) -> holdsW w pc q = Nat.eqb q w.
Proof. intros [->|[t ->]]; reflexivity. Qed.

Lemma pop_acquired_own s w pc0 :
  Own s -> nth_error (workers s) w = Some pc0 -> pc0 <> WDone -> w < nq s -> qown (getq s w) = None ->
  Own (pop_acquired s w).
Proof.
  intros O Ew Hnd Hw Hfree. unfold pop_acquired. destruct (qitems (getq s w)) as [|it r] eqn:Eit.
  - eapply own_worker_acquire; eauto; cbn; auto.
    + intros q'. destruct (qstop (getq s w)); reflexivity.
    + destruct (qstop (getq s w)); discriminate.
    + destruct (qstop (getq s w)); discriminate.
    + destruct (qstop (getq s w)) eqn:Es; [discriminate|]. auto.
    + destruct (qstop (getq s w)) eqn:Es; [auto|discriminate].
  - eapply own_worker_acquire; eauto; cbn; eauto; discriminate.
Qed.

Lemma step_worker_own w s s' evs : Own s -> step_worker w s = Some (s', evs) -> Own s'.
Proof.
  intros O H. unfold step_worker in H.
  destruct (nth_error (workers s) w) as [pc|] eqn:Ew; [|discriminate].
  destruct pc as [|i|i q t| | |[]|t|t|]; try discriminate.
  - (* WScan *)
    destruct (q_free s ((w + i) mod nq s)) eqn:G.
    + apply q_free_spec in G as [Hq Hfree].
      destruct (qitems (getq s ((w + i) mod nq s))) as [|it r] eqn:Eit; injection H as <- <-.
      * eapply own_worker_acquire; eauto; cbn; auto; discriminate.
      * eapply own_worker_acquire; eauto; cbn; eauto; discriminate.
    + injection H as <- <-.
      eapply own_worker_pc with (w := w) (pc0 := WScan i)
        (pc' := if Nat.eqb (S i) (nq s) then WPopLock else WScan (S i)); eauto; try discriminate.
      * intros q. match goal with |- context [if ?b then _ else _] => destruct b end; reflexivity.
      * match goal with |- context [if ?b then _ else _] => destruct b end; discriminate.
      * match goal with |- context [if ?b then _ else _] => destruct b end; discriminate.
  - (* WScanUnlock *)
    injection H as <- <-. eapply own_worker_release; eauto.
    + cbn. apply Nat.eqb_refl.
    + intros q'. destruct t; [reflexivity|]. match goal with |- context [if ?b then _ else _] => destruct b end; reflexivity.
    + destruct t; [discriminate|]. match goal with |- context [if ?b then _ else _] => destruct b end; discriminate.
    + destruct t; [discriminate|]. match goal with |- context [if ?b then _ else _] => destruct b end; discriminate.
  - (* WPopLock *)
    destruct (q_free s w) eqn:G; [|discriminate]. apply q_free_spec in G as [Hq Hfree].
    injection H as <- <-. eapply pop_acquired_own; eauto. discriminate.
  - (* WPopWait *)
    injection H as <- <-. eapply own_worker_release; eauto; try discriminate.
    cbn. apply Nat.eqb_refl.
  - (* WPopBlocked true *)
    destruct (q_free s w) eqn:G; [|discriminate]. apply q_free_spec in G as [Hq Hfree].
    injection H as <- <-. eapply pop_acquired_own; eauto. discriminate.
  - (* WPopUnlock *)
    injection H as <- <-. eapply own_worker_release; eauto.
    + cbn. apply Nat.eqb_refl.
    + intros q'. destruct t; reflexivity.
    + destruct t; discriminate.
    + destruct t; [discriminate|reflexivity].
  - (* WExec *)
    injection H as <- <-.
    eapply own_worker_pc with (w := w) (pc0 := WExec t) (pc' := WScan 0); eauto; try discriminate; reflexivity.
Qed.

Lemma step_own t s s' evs : Own s -> step t s = Some (s', evs) -> Own s'.
Proof.
  intros A H. unfold step in H.
  destruct (Nat.eqb t 0); [eapply step_main_own; eauto|].
  destruct (Nat.leb t (nprods s)); [eapply step_prod_own; eauto|].
  destruct (Nat.leb t (nprods s + nq s)); [eapply step_worker_own; eauto|].
  destruct (Nat.leb t (nprods s + nq s + nq s)); [eapply step_spur_own; eauto|discriminate].
Qed.

Theorem own_reachable rc k counts (sched : list nat) :
  Own (fst (run step sched (init rc k counts, []))).
Proof.
  apply (run_invariant_state _ _ _ step Own).
  - intros s t s' ev. apply step_own.
  - apply own_init.
Qed.

(* ------------------------------------------------------------------------------------------ *)
(* traces                                                                                      *)

Definition enqs (tr : list ev) : list item :=
  flat_map (fun e => match e with EEnq _ it => [it] | _ => [] end) tr.
Definition runs (tr : list ev) : list (item * nat) :=
  flat_map (fun e => match e with ERun it w => [(it, w)] | _ => [] end) tr.

Lemma notify_ghost s q : enq (notify s q) = enq s /\ executed (notify s q) = executed s.
Proof. destruct (notify_other s q) as (_ & _ & _ & _ & _ & E1 & _ & E2). auto. Qed.

Lemma step_ghost t s s' evs :
  step t s = Some (s', evs) -> enq s' = enq s ++ enqs evs /\ executed s' = executed s ++ runs evs.
Proof.
  unfold step.
  destruct (Nat.eqb t 0).
  { unfold step_main. destruct (mainpc s) as [i|d q|d q|d q|i|]; try discriminate.
    - destruct (nth_error (workers s) i) as [[]|]; try discriminate. intros H; injection H as <- <-; cbn; now rewrite !app_nil_r.
    - destruct (q_free s q && (negb d || all_prods_done s)); [|discriminate]. intros H; injection H as <- <-; cbn; now rewrite !app_nil_r.
    - intros H; injection H as <- <-; cbn. destruct (notify_ghost s q) as [-> ->]. now rewrite !app_nil_r.
    - intros H; injection H as <- <-; cbn; now rewrite !app_nil_r.
    - destruct (nth_error (workers s) i) as [[]|]; try discriminate. intros H; injection H as <- <-; cbn; now rewrite !app_nil_r. }
  destruct (Nat.leb t (nprods s)).
  { unfold step_prod, do_push. destruct (nth_error (prods s) (pred t)) as [[n [j|j st0 i|j st0|j q|j q]]|]; try discriminate.
    - destruct (Nat.ltb j n && Nat.ltb 0 (nq s) && negb match mainpc s with MSpawn _ => true | _ => false end); [|discriminate].
      intros H; injection H as <- <-; cbn; now rewrite !app_nil_r.
    - destruct (q_free s ((st0 + i) mod nq s)); intros H; injection H as <- <-; cbn; now rewrite ?app_nil_r.
    - destruct (q_free s st0); [|discriminate]. intros H; injection H as <- <-; cbn; now rewrite ?app_nil_r.
    - intros H; injection H as <- <-; cbn. destruct (notify_ghost s q) as [-> ->]. now rewrite !app_nil_r.
    - intros H; injection H as <- <-; cbn; now rewrite !app_nil_r. }
  destruct (Nat.leb t (nprods s + nq s)).
  { unfold step_worker, pop_acquired. set (w := t - S (nprods s)).
    destruct (nth_error (workers s) w) as [[|i|i q t0| | |[]|t0|t0|]|]; try discriminate.
    - destruct (q_free s ((w + i) mod nq s)); [destruct (qitems (getq s ((w + i) mod nq s)))|];
        intros H; injection H as <- <-; cbn; now rewrite !app_nil_r.
    - intros H; injection H as <- <-; cbn; now rewrite !app_nil_r.
    - destruct (q_free s w); [|discriminate]. destruct (qitems (getq s w));
        intros H; injection H as <- <-; cbn; now rewrite !app_nil_r.
    - intros H; injection H as <- <-; cbn; now rewrite !app_nil_r.
    - destruct (q_free s w); [|discriminate]. destruct (qitems (getq s w));
        intros H; injection H as <- <-; cbn; now rewrite !app_nil_r.
    - intros H; injection H as <- <-; cbn; now rewrite !app_nil_r.
    - intros H; injection H as <- <-; cbn; now rewrite ?app_nil_r. }
  destruct (Nat.leb t (nprods s + nq s + nq s)); [|discriminate].
  unfold step_spur. destruct (nth_error (workers s) (t - S (nprods s + nq s))) as [[| | | | |[]| | |]|]; try discriminate.
  intros H; injection H as <- <-; cbn; now rewrite !app_nil_r.
Qed.

Definition TInv (c : st * list ev) : Prop :=
  enqs (snd c) = enq (fst c) /\ runs (snd c) = executed (fst c).

Theorem tinv_reachable rc k counts (sched : list nat) :
  TInv (run step sched (init rc k counts, [])).
Proof.
  apply (run_invariant _ _ _ step TInv).
  - intros c t s' ev (H1 & H2) H. apply step_ghost in H as (G1 & G2).
    unfold TInv, enqs, runs in *; cbn [fst snd]. rewrite !flat_map_app, H1, H2, G1, G2. auto.
  - split; reflexivity.
Qed.

(* ------------------------------------------------------------------------------------------ *)
(* theorems                                                                                    *)

Lemma flat_map_nil {A B} (f : A -> list B) (l : list A) :
  (forall i x, nth_error l i = Some x -> f x = []) -> flat_map f l = [].
Proof.
  induction l as [|y r IH]; cbn; intros H; [reflexivity|].
  rewrite (H 0 y eq_refl). cbn. apply IH. intros i x Hx. apply (H (S i) x Hx).
Qed.

Lemma params_step t s s' evs :
  step t s = Some (s', evs) -> map fst (prods s') = map fst (prods s) /\ race s' = race s /\ nq s' = nq s.
Proof.
  unfold step.
  destruct (Nat.eqb t 0).
  { unfold step_main. destruct (mainpc s) as [i|d q|d q|d q|i|]; try discriminate.
    - destruct (nth_error (workers s) i) as [[]|]; try discriminate. intros H; injection H as <- <-; cbn; auto.
    - destruct (q_free s q && (negb d || all_prods_done s)); [|discriminate]. intros H; injection H as <- <-; unfold nq; cbn.
      now rewrite set_nth_length.
    - intros H; injection H as <- <-; cbn. destruct (notify_other s q) as (-> & _ & Eq & _ & -> & _). unfold nq; cbn. now rewrite Eq.
    - intros H; injection H as <- <-; unfold nq; cbn; now rewrite set_nth_length.
    - destruct (nth_error (workers s) i) as [[]|]; try discriminate. intros H; injection H as <- <-; cbn; auto. }
  destruct (Nat.leb t (nprods s)).
  { unfold step_prod, do_push. destruct (nth_error (prods s) (pred t)) as [[n [j|j st0 i|j st0|j q|j q]]|] eqn:En; try discriminate.
    - destruct (Nat.ltb j n && Nat.ltb 0 (nq s) && negb match mainpc s with MSpawn _ => true | _ => false end); [|discriminate].
      intros H; injection H as <- <-; unfold nq; cbn. split; [|auto]. revert En. generalize (pred t) as x. 
      intros x En. clear -En. revert x En. induction (prods s) as [|y r IH]; intros [|x] En; cbn in *; try discriminate.
      + injection En as ->. reflexivity.
      + f_equal. eauto.
    - destruct (q_free s ((st0 + i) mod nq s)); intros H; injection H as <- <-; unfold nq; cbn; rewrite ?set_nth_length;
        (split; [|auto]); clear -En; revert En; generalize (pred t) as x; intros x; revert x;
        induction (prods s) as [|y r IH]; intros [|x] En; cbn in *; try discriminate;
        try (injection En as ->; reflexivity); f_equal; eauto.
    - destruct (q_free s st0); [|discriminate]. intros H; injection H as <- <-; unfold nq; cbn; rewrite ?set_nth_length;
        (split; [|auto]); clear -En; revert En; generalize (pred t) as x; intros x; revert x;
        induction (prods s) as [|y r IH]; intros [|x] En; cbn in *; try discriminate;
        try (injection En as ->; reflexivity); f_equal; eauto.
    - intros H; injection H as <- <-; cbn. destruct (notify_other s q) as (Er & _ & Eq & _ & Ep & _). unfold nq; cbn.
      rewrite Er, Eq, Ep. (split; [|auto]); clear -En; revert En; generalize (pred t) as x; intros x; revert x;
        induction (prods s) as [|y r IH]; intros [|x] En; cbn in *; try discriminate;
        try (injection En as ->; reflexivity); f_equal; eauto.
    - intros H; injection H as <- <-; unfold nq; cbn; rewrite ?set_nth_length;
        (split; [|auto]); clear -En; revert En; generalize (pred t) as x; intros x; revert x;
        induction (prods s) as [|y r IH]; intros [|x] En; cbn in *; try discriminate;
        try (injection En as ->; reflexivity); f_equal; eauto. }
  destruct (Nat.leb t (nprods s + nq s)).
  { unfold step_worker, pop_acquired. set (w := t - S (nprods s)).
    destruct (nth_error (workers s) w) as [[|i|i q t0| | |[]|t0|t0|]|]; try discriminate.
    - destruct (q_free s ((w + i) mod nq s)); [destruct (qitems (getq s ((w + i) mod nq s)))|];
        intros H; injection H as <- <-; unfold nq; cbn; now rewrite ?set_nth_length.
    - intros H; injection H as <- <-; unfold nq; cbn; now rewrite ?set_nth_length.
    - destruct (q_free s w); [|discriminate]. destruct (qitems (getq s w));
        intros H; injection H as <- <-; unfold nq; cbn; now rewrite ?set_nth_length.
    - intros H; injection H as <- <-; unfold nq; cbn; now rewrite ?set_nth_length.
    - destruct (q_free s w); [|discriminate]. destruct (qitems (getq s w));
        intros H; injection H as <- <-; unfold nq; cbn; now rewrite ?set_nth_length.
    - intros H; injection H as <- <-; unfold nq; cbn; now rewrite ?set_nth_length.
    - intros H; injection H as <- <-; unfold nq; cbn; now rewrite ?set_nth_length. }
  destruct (Nat.leb t (nprods s + nq s + nq s)); [|discriminate].
  unfold step_spur. destruct (nth_error (workers s) (t - S (nprods s + nq s))) as [[| | | | |[]| | |]|]; try discriminate.
  intros H; injection H as <- <-; cbn; auto.
Qed.

Lemma params_reachable rc k counts (sched : list nat) :
  let s := fst (run step sched (init rc k counts, [])) in
  map fst (prods s) = counts /\ race s = rc /\ nq s = k.
Proof.
  apply (run_invariant_state _ _ _ step (fun s => map fst (prods s) = counts /\ race s = rc /\ nq s = k)).
  - intros s t s' ev (H1 & H2 & H3) H. apply params_step in H as (-> & -> & ->). auto.
  - cbn. split; [|split; [reflexivity|]].
    + rewrite map_map. cbn. apply map_id.
    + unfold nq; cbn. apply repeat_length.
Qed.

Section Reach.
  Variables (rc : bool) (k : nat) (counts : list nat) (sched : list nat).
  Let c := run step sched (init rc k counts, []).
  Let s := fst c.
  Let tr := snd c.
  Let HA : Acct s := acct_reachable rc k counts sched.
  Let HO : Own s := own_reachable rc k counts sched.
  Let HT : TInv c := tinv_reachable rc k counts sched.

  (* nothing is lost or duplicated: every pushed item is completed, held by a worker, or queued *)
  Theorem accounting :
    Permutation (enqs tr) (map fst (runs tr) ++ flat_map inflight (workers s) ++ queued s) /\
    NoDup (enqs tr).
  Proof.
    destruct HT as [H1 H2]. fold tr s in H1, H2. rewrite H1, H2. split; [apply (A_acct s HA)|apply (A_nodup s HA)].
  Qed.

  Theorem at_most_once : NoDup (map fst (runs tr)).
  Proof.
    destruct accounting as [P Hn]. eapply Permutation_NoDup in Hn; [|exact P].
    clear -Hn. induction (map fst (runs tr)) as [|x l IH]; [constructor|].
    cbn in Hn. inversion Hn as [|? ? Hx Hl]; subst. constructor; [|auto].
    intros Hin. apply Hx. apply in_or_app. now left.
  Qed.

  Theorem enq_items_valid : forall p j,
    In (p, j) (enqs tr) -> exists x n, p = S x /\ nth_error counts x = Some n /\ j < n.
  Proof.
    intros p j H. destruct HT as [H1 _]. fold tr s in H1. rewrite H1 in H.
    apply (A_mem s HA) in H as (x & n & pc & -> & Hn & Hlt). exists x, n. split; [reflexivity|].
    destruct (params_reachable rc k counts sched) as (Hc & _). fold c s in Hc. split.
    - rewrite <- Hc, nth_error_map, Hn. reflexivity.
    - destruct (A_bound s HA _ _ _ Hn) as [Hb _]. lia.
  Qed.

  (* pop() returns nullptr only when the worker's own queue is empty and stop was requested; a
     worker that has returned leaves in its queue only items pushed after request_stop reached it *)
  Theorem pop_null_only_if_empty_and_stopped : forall w,
    (nth_error (workers s) w = Some (WPopUnlock None) -> qitems (getq s w) = [] /\ qstop (getq s w) = true) /\
    (nth_error (workers s) w = Some WDone -> qstop (getq s w) = true /\ incl (qitems (getq s w)) (late s)).
  Proof. intros w. split; [apply (O_ret s HO)|apply (O_done s HO)]. Qed.

  (* no lost wake-up: a worker sleeping un-notified in pop() has an empty queue or the notify_one
     of the producer that made it non-empty is pending (that producer holds the queue's mutex), and
     stop is not requested on it or request_stop's notify_one is pending *)
  Theorem no_lost_item : forall w,
    nth_error (workers s) w = Some (WPopBlocked false) ->
    (qitems (getq s w) = [] \/
     exists x n j, nth_error (prods s) x = Some (n, PNotify j w) /\ qown (getq s w) = Some (S x)) /\
    (qstop (getq s w) = false \/ exists d, mainpc s = MStopNotify d w /\ qown (getq s w) = Some 0).
  Proof.
    intros w Hw. destruct (O_blocked s HO w Hw) as [H1 H2]. split.
    - destruct H1 as [H1|(x & n & j & Hn)]; [auto|]. right. exists x, n, j. split; [exact Hn|].
      apply (O_p s HO x n (PNotify j w) w Hn). cbn. apply Nat.eqb_refl.
    - destruct H2 as [H2|[d H2]]; [auto|]. right. exists d. split; [exact H2|].
      apply (O_m s HO w). rewrite H2. cbn. apply Nat.eqb_refl.
  Qed.

  (* whoever is at a program point inside a critical section is the recorded owner of that mutex,
     hence two threads are never inside critical sections of the same mutex *)
  Theorem mutex_owner :
    (forall q, holdsM (mainpc s) q = true -> qown (getq s q) = Some 0) /\
    (forall x n pc q, nth_error (prods s) x = Some (n, pc) -> holdsP pc q = true -> qown (getq s q) = Some (S x)) /\
    (forall w pc q, nth_error (workers s) w = Some pc -> holdsW w pc q = true ->
                    qown (getq s q) = Some (worker_tid s w)).
  Proof.
    repeat split.
    - intros q H. apply (O_m s HO q H).
    - intros x n pc q Hn H. apply (O_p s HO x n pc q Hn H).
    - intros w pc q Hn H. apply (O_w s HO w pc q Hn H).
  Qed.

  (* the destructor joins every thread: the owner is finished only after every worker returned *)
  Theorem joined : mainpc s = MDone -> forall w, w < k -> nth_error (workers s) w = Some WDone.
  Proof.
    intros Hm w Hw. destruct (params_reachable rc k counts sched) as (_ & _ & Hk). fold c s in Hk.
    apply (O_mdone s HO Hm). lia.
  Qed.

  Lemma final_workers_done :
    final s = true -> (forall w pc, nth_error (workers s) w = Some pc -> pc = WDone) /\ all_prods_done s = true.
  Proof.
    unfold final. destruct (mainpc s) eqn:Em; try discriminate. rewrite andb_true_iff. intros [Hp Hw].
    split; [|exact Hp]. intros w pc Hn. rewrite forallb_forall in Hw.
    specialize (Hw pc (nth_error_In _ _ Hn)). destruct pc; try discriminate. reflexivity.
  Qed.

  (* when everything has finished: what was not completed is still queued, and was pushed into a
     queue after request_stop had reached that queue *)
  Theorem final_accounting :
    final s = true ->
    Permutation (enqs tr) (map fst (runs tr) ++ queued s) /\ incl (queued s) (late s) /\
    forall x n j, nth_error counts x = Some n -> j < n -> In (S x, j) (enqs tr).
  Proof.
    intros Hf. destruct (final_workers_done Hf) as [Hw Hp].
    destruct accounting as [P _].
    assert (Hin : flat_map inflight (workers s) = []).
    { apply flat_map_nil. intros i x Hx. now rewrite (Hw i x Hx). }
    rewrite Hin in P. cbn in P. split; [exact P|]. split.
    - unfold queued. intros it Hit. apply in_flat_map in Hit as (xq & Hxq & Hit).
      apply In_nth_error in Hxq as [q Hq].
      assert (Hql : q < nq s) by (eapply nth_error_lt; eauto).
      assert (Hwq : nth_error (workers s) q = Some WDone).
      { destruct (nth_error (workers s) q) as [pc|] eqn:E.
        - now rewrite (Hw q pc E).
        - apply nth_error_None in E. rewrite (O_len s HO) in E. lia. }
      destruct (O_done s HO q Hwq) as [_ Hincl]. apply Hincl.
      unfold getq. now rewrite (nth_error_nth _ _ _ _ Hq).
    - intros x n j Hn Hj. destruct HT as [H1 _]. fold tr s in H1. rewrite H1. apply (A_mem s HA).
      destruct (params_reachable rc k counts sched) as (Hc & _). fold c s in Hc.
      rewrite <- Hc in Hn. apply nth_error_map_some in Hn as ([n' pc] & Hn & ->).
      exists x, n', pc. repeat split; auto. cbn in Hj.
      destruct (all_done_nth _ _ _ _ Hp Hn) as (j' & -> & Hle). cbn. lia.
  Qed.

  (* the destructor after the last start() returned (no racing request_stop): when everything has
     finished every started operation has completed exactly once *)
  Theorem exactly_once_final :
    rc = false -> final s = true ->
    Permutation (map fst (runs tr)) (enqs tr) /\ NoDup (map fst (runs tr)) /\
    forall x n j, nth_error counts x = Some n -> j < n -> In (S x, j) (map fst (runs tr)).
  Proof.
    intros Hrc Hf. destruct (final_accounting Hf) as (P & Hincl & Hall).
    destruct (params_reachable rc k counts sched) as (_ & Hr & _). fold c s in Hr.
    assert (Hl : late s = []) by (apply (O_late s HO); congruence).
    assert (Hq : queued s = []).
    { rewrite Hl in Hincl. destruct (queued s) as [|a l]; [reflexivity|]. destruct (Hincl a). now left. }
    rewrite Hq, app_nil_r in P. split; [now symmetry|]. split; [apply at_most_once|].
    intros x n j Hn Hj. eapply Permutation_in; [exact P|]. eauto.
  Qed.
End Reach.

(* a completion happens in a step of a worker thread of the pool *)
Theorem completion_on_worker rc k counts (sched1 : list nat) t s' evs it w :
  let s := fst (run step sched1 (init rc k counts, [])) in
  step t s = Some (s', evs) -> In (ERun it w) evs -> t = worker_tid s w /\ w < nq s.
Proof.
  intros s H Hin. unfold step in H.
  destruct (Nat.eqb t 0).
  { exfalso. unfold step_main in H. destruct (mainpc s) as [i|d q|d q|d q|i|]; try discriminate.
    - destruct (nth_error (workers s) i) as [[]|]; try discriminate. injection H as <- <-. cbn in Hin; intuition discriminate.
    - destruct (q_free s q && (negb d || all_prods_done s)); [|discriminate]. injection H as <- <-. cbn in Hin; intuition discriminate.
    - injection H as <- <-. cbn in Hin; intuition discriminate.
    - injection H as <- <-. cbn in Hin; intuition discriminate.
    - destruct (nth_error (workers s) i) as [[]|]; try discriminate. injection H as <- <-. cbn in Hin; intuition discriminate. }
  destruct (Nat.leb_spec t (nprods s)) as [|Htp].
  { exfalso. unfold step_prod, do_push in H.
    destruct (nth_error (prods s) (pred t)) as [[n [j|j st0 i|j st0|j q|j q]]|]; try discriminate.
    - destruct (Nat.ltb j n && Nat.ltb 0 (nq s) && negb match mainpc s with MSpawn _ => true | _ => false end); [|discriminate].
      injection H as <- <-. cbn in Hin; intuition discriminate.
    - destruct (q_free s ((st0 + i) mod nq s)); injection H as <- <-; cbn in Hin; intuition discriminate.
    - destruct (q_free s st0); [|discriminate]. injection H as <- <-; cbn in Hin; intuition discriminate.
    - injection H as <- <-. cbn in Hin; intuition discriminate.
    - injection H as <- <-. cbn in Hin; intuition discriminate. }
  destruct (Nat.leb_spec t (nprods s + nq s)) as [Htk|].
  { unfold step_worker, pop_acquired in H. set (w0 := t - S (nprods s)) in *.
    destruct (nth_error (workers s) w0) as [[|i|i q t0| | |[]|t0|t0|]|]; try discriminate.
    - exfalso. destruct (q_free s ((w0 + i) mod nq s)); [destruct (qitems (getq s ((w0 + i) mod nq s)))|];
        injection H as <- <-; cbn in Hin; intuition discriminate.
    - exfalso. injection H as <- <-. cbn in Hin; intuition discriminate.
    - exfalso. destruct (q_free s w0); [|discriminate]. destruct (qitems (getq s w0));
        injection H as <- <-; cbn in Hin; intuition discriminate.
    - exfalso. injection H as <- <-. cbn in Hin; intuition discriminate.
    - exfalso. destruct (q_free s w0); [|discriminate]. destruct (qitems (getq s w0));
        injection H as <- <-; cbn in Hin; intuition discriminate.
    - exfalso. injection H as <- <-. cbn in Hin; intuition discriminate.
    - injection H as <- <-. cbn in Hin. destruct Hin as [E|[]]. injection E as <- <-.
      unfold worker_tid, w0. split; lia. }
  exfalso. destruct (Nat.leb t (nprods s + nq s + nq s)); [|discriminate].
  unfold step_spur in H. destruct (nth_error (workers s) (t - S (nprods s + nq s))) as [[| | | | |[]| | |]|]; try discriminate.
  injection H as <- <-. cbn in Hin; intuition discriminate.
Qed.
