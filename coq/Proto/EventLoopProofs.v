(* Proofs about the E1 model EventLoop (Proto/EventLoopDefs.v): manual_event_loop /
   single_thread_context.  Everything is proved for an arbitrary number of producers, arbitrary
   item counts, arbitrary cancellation lists, both stop policies and an arbitrary schedule
   (any length, any thread ids, spurious wake-ups included).  One inductive state invariant
   [Inv] preserved by each thread's step function, lifted with run_invariant_state; the facts
   about traces use an invariant over configurations lifted with run_invariant. *)
From Coq Require Import List Bool Arith Lia.
From V Require Import Base.Sched Proto.EventLoopDefs.
Import ListNotations.
Import EventLoop.

(* ------------------------------------------------------------------------------------------ *)
(* list helpers                                                                               *)

Lemma set_nth_length {A} (i : nat) (x : A) (l : list A) : length (set_nth i x l) = length l.
Proof. revert i; induction l as [|y r IH]; intros [|i]; cbn; auto. Qed.

Lemma nth_error_set_nth_eq {A} (i : nat) (x : A) (l : list A) :
  i < length l -> nth_error (set_nth i x l) i = Some x.
Proof.
  revert i; induction l as [|y r IH]; intros [|i] Hlt; cbn in *; try lia; auto.
  apply IH; lia.
Qed.

Lemma nth_error_set_nth_neq {A} (i j : nat) (x : A) (l : list A) :
  i <> j -> nth_error (set_nth i x l) j = nth_error l j.
Proof.
  revert i j; induction l as [|y r IH]; intros [|i] [|j] Hne; cbn; auto; try congruence.
Qed.

Lemma nth_error_lt {A} (l : list A) i x : nth_error l i = Some x -> i < length l.
Proof. intros H. apply nth_error_Some. congruence. Qed.

(* what nth_error sees after set_nth, in one statement *)
Lemma nth_error_set_nth {A} (i j : nat) (x y : A) (l : list A) :
  nth_error (set_nth i x l) j = Some y ->
  (i = j /\ y = x /\ j < length l) \/ (i <> j /\ nth_error l j = Some y).
Proof.
  intros H. destruct (Nat.eq_dec i j) as [->|Hne].
  - left. assert (Hlt : j < length l).
    { apply nth_error_lt in H. now rewrite set_nth_length in H. }
    rewrite nth_error_set_nth_eq in H by exact Hlt. injection H as <-. auto.
  - right. rewrite nth_error_set_nth_neq in H by exact Hne. auto.
Qed.

Lemma NoDup_app_singleton {A} (l : list A) x : NoDup l -> ~ In x l -> NoDup (l ++ [x]).
Proof.
  intros Hn Hx. induction Hn as [|y r Hy Hr IH]; cbn.
  - constructor; [intros []|constructor].
  - constructor.
    + rewrite in_app_iff. cbn. intros [H|[H|[]]]; [auto|]. subst. apply Hx. now left.
    + apply IH. intros H. apply Hx. now right.
Qed.

Lemma NoDup_app_l {A} (l r : list A) : NoDup (l ++ r) -> NoDup l.
Proof.
  induction l as [|x l IH]; cbn; intros H; [constructor|]. inversion H as [|? ? Hx Hn]; subst.
  constructor; [|auto]. intros Hin. apply Hx. apply in_or_app. now left.
Qed.

Lemma item_eqb_eq a b : item_eqb a b = true <-> a = b.
Proof.
  destruct a as [p j], b as [q k]. unfold item_eqb; cbn.
  rewrite andb_true_iff, !Nat.eqb_eq. split; [intros [-> ->]; reflexivity|].
  intros H; injection H; auto.
Qed.

Lemma mem_In a l : mem a l = true <-> In a l.
Proof.
  unfold mem. rewrite existsb_exists. split.
  - intros (x & Hx & He). apply item_eqb_eq in He. now subst.
  - intros H. exists a. split; [exact H|]. now apply item_eqb_eq.
Qed.

(* ------------------------------------------------------------------------------------------ *)
(* who holds the mutex, according to the program counters                                      *)

Definition main_holds (p : mpc) : bool := match p with MNotify | MUnlock => true | _ => false end.
Definition prod_holds (p : ppc) : bool := match p with PNotify _ | PUnlock _ => true | _ => false end.
Definition worker_holds (w : wpc) : bool :=
  match w with WWait | WUnlockExec _ | WUnlockRet => true | _ => false end.

(* number of items a producer has pushed so far *)
Definition pushed (p : ppc) : nat := match p with PLock j => j | PNotify j | PUnlock j => S j end.

(* the task popped by the worker and not yet completed *)
Definition inflight (w : wpc) : list item :=
  match w with WUnlockExec t | WExec t => [t] | _ => [] end.

Definition main_stopped (p : mpc) : bool := match p with MSpawn | MLock => false | _ => true end.

Record Inv (s : st) : Prop := {
  I_m0 : main_holds (mainpc s) = true <-> mtx s = Some 0;
  I_mp : forall i n pc, nth_error (prods s) i = Some (n, pc) ->
           (prod_holds pc = true <-> mtx s = Some (S i));
  I_mw : worker_holds (wk s) = true <-> mtx s = Some (worker_tid s);
  I_mr : forall t, mtx s = Some t -> t = 0 \/ (1 <= t <= nprods s) \/ t = worker_tid s;
  I_fifo : enq s = executed_items s ++ inflight (wk s) ++ queue s;
  I_nodup : NoDup (enq s);
  I_mem : forall p j, In (p, j) (enq s) <->
            exists i n pc, p = S i /\ nth_error (prods s) i = Some (n, pc) /\ j < pushed pc;
  I_bound : forall i n pc, nth_error (prods s) i = Some (n, pc) -> pushed pc <= n;
  I_wait : wk s = WWait -> queue s = [] /\ stopf s = false;
  I_blocked : wk s = WBlocked false ->
              (queue s = [] \/ exists i n j, nth_error (prods s) i = Some (n, PNotify j)) /\
              (stopf s = false \/ mainpc s = MNotify);
  I_ret : wk s = WUnlockRet -> queue s = [] /\ stopf s = true;
  I_done : wk s = WDone -> stopf s = true /\ incl (queue s) (late s);
  I_stop : main_stopped (mainpc s) = stopf s;
  I_start : wk s = WNotStarted <-> mainpc s = MSpawn;
  I_join : mainpc s = MDone -> wk s = WDone;
  I_race : race s = false -> stopf s = true -> all_prods_done s = true;
  I_late : race s = false -> late s = [];
  I_cancel : forall it, In (it, true) (executed s) -> In it (cancelled s)
}.

Lemma nth_error_map_some {A B} (f : A -> B) l i y :
  nth_error (map f l) i = Some y -> exists x, nth_error l i = Some x /\ y = f x.
Proof.
  revert i; induction l as [|a r IH]; intros [|i] H; cbn in *; try discriminate.
  - injection H as <-. eauto.
  - eauto.
Qed.

Lemma forallb_map_true {A B} (f : A -> B) (g : B -> bool) l :
  (forall a, g (f a) = true) -> forallb g (map f l) = true.
Proof. intros H; induction l; cbn; [reflexivity|]. now rewrite H, IHl. Qed.

Lemma inv_init rc counts cancels : Inv (init rc counts cancels).
Proof.
  constructor; cbn; try (intuition (auto; discriminate)); try discriminate.
  - intros i n pc H. apply nth_error_map_some in H as (x & _ & E). injection E as -> ->.
    cbn. intuition discriminate.
  - constructor.
  - intros p j. split; [intros []|]. intros (i & n & pc & -> & H & Hlt).
    apply nth_error_map_some in H as (x & _ & E). injection E as -> ->. cbn in Hlt. lia.
  - intros i n pc H. apply nth_error_map_some in H as (x & _ & E). injection E as -> ->. cbn. lia.
Qed.

(* ------------------------------------------------------------------------------------------ *)
(* small facts                                                                                *)

Lemma wake_holds w : worker_holds (wake w) = worker_holds w.
Proof. destruct w as [| | |[]| | | |]; reflexivity. Qed.
Lemma wake_inflight w : inflight (wake w) = inflight w.
Proof. destruct w as [| | |[]| | | |]; reflexivity. Qed.
Lemma wake_not_blocked w : wake w <> WBlocked false.
Proof. destruct w as [| | |[]| | | |]; discriminate. Qed.
Lemma wake_eq w x : wake w = x -> x <> WBlocked true -> w = x.
Proof. destruct w as [| | |[]| | | |]; cbn; intros <-; congruence. Qed.
Lemma wake_notstarted w : wake w = WNotStarted <-> w = WNotStarted.
Proof. destruct w as [| | |[]| | | |]; cbn; split; congruence. Qed.
Lemma wake_done w : w = WDone -> wake w = WDone.
Proof. intros ->. reflexivity. Qed.

Lemma mtx_free_true s : mtx_free s = true <-> mtx s = None.
Proof. unfold mtx_free. destruct (mtx s); split; congruence. Qed.

Lemma all_done_nth s i n pc :
  all_prods_done s = true -> nth_error (prods s) i = Some (n, pc) -> exists j, pc = PLock j /\ n <= j.
Proof.
  unfold all_prods_done. rewrite forallb_forall. intros H Hn.
  specialize (H _ (nth_error_In _ _ Hn)). unfold prod_done in H; cbn in H.
  destruct pc; try discriminate. apply Nat.leb_le in H. eauto.
Qed.

Lemma executed_items_app l x b : map fst (l ++ [(x, b)]) = map (@fst item bool) l ++ [x].
Proof. now rewrite map_app. Qed.

(* ------------------------------------------------------------------------------------------ *)
(* preservation                                                                               *)

Ltac inv_simpl :=
  unfold worker_tid, cancel_tid, spur_tid, nprods, all_prods_done, executed_items in *;
  cbn [race mtx queue stopf mainpc prods tocancel cancelled wk enq late executed
       set_mtx set_main set_stop set_prod set_wk set_queue push add_executed do_cancel] in *;
  rewrite ?set_nth_length in *.

Ltac triv :=
  try assumption; try discriminate; try tauto; try (intros; discriminate);
  try (split; discriminate); try (cbn in *; tauto); try (cbn in *; intuition congruence).

Lemma step_main_inv s s' evs : Inv s -> step_main s = Some (s', evs) -> Inv s'.
Proof.
  intros I H. unfold step_main in H. destruct I. destruct (mainpc s) eqn:Em.
  - (* MSpawn *)
    injection H as <- <-. assert (Ew : wk s = WNotStarted) by (apply I_start0; reflexivity).
    rewrite Ew in *. constructor; inv_simpl; try solve [triv].
  - (* MLock *)
    destruct (mtx_free s && (race s || all_prods_done s)) eqn:G; [|discriminate].
    apply andb_true_iff in G as [Gf Gr]. apply mtx_free_true in Gf.
    injection H as <- <-.
    assert (Hnw : worker_holds (wk s) = false).
    { apply not_true_is_false. intros E. apply I_mw0 in E. congruence. }
    constructor; inv_simpl; try solve [triv].
    + intros i n pc Hn. rewrite (I_mp0 i n pc Hn), Gf. split; discriminate.
    + intros Ew. rewrite Ew in Hnw. discriminate.
    + intros Hr _. rewrite Hr in Gr. exact Gr.
  - (* MNotify *)
    injection H as <- <-.
    constructor; inv_simpl; rewrite ?wake_holds, ?wake_inflight; try solve [triv].
    + intros Ew. apply wake_eq in Ew; [auto|discriminate].
    + intros Ew. exfalso. eapply wake_not_blocked; eauto.
    + intros Ew. apply wake_eq in Ew; [auto|discriminate].
    + intros Ew. apply wake_eq in Ew; [auto|discriminate].
    + rewrite wake_notstarted, I_start0. split; discriminate.
  - (* MUnlock *)
    injection H as <- <-.
    assert (Em0 : mtx s = Some 0) by (apply I_m1; reflexivity).
    assert (Hnw : worker_holds (wk s) = false).
    { apply not_true_is_false. intros E. apply I_mw0 in E. rewrite Em0 in E. discriminate. }
    constructor; inv_simpl; try solve [triv].
    + intros i n pc Hn. rewrite (I_mp0 i n pc Hn), Em0. split; discriminate.
  - (* MJoin *)
    destruct (wk s) eqn:Ew; try discriminate. injection H as <- <-.
    constructor; inv_simpl; rewrite ?Ew; try solve [triv].
  - discriminate.
Qed.

(* a producer that is not done cannot coexist with "all producers done" *)
Lemma all_done_contra s i n pc :
  forallb prod_done (prods s) = true -> nth_error (prods s) i = Some (n, pc) ->
  (match pc with PLock j => j < n | _ => True end) -> False.
Proof.
  intros H Hn Hp. destruct (all_done_nth s i n pc H Hn) as (j & -> & Hle). lia.
Qed.

Lemma mem_same_pushed (l : list (nat * ppc)) i n pc pc' p j :
  nth_error l i = Some (n, pc) -> pushed pc' = pushed pc ->
  (exists i0 n0 pc0, p = S i0 /\ nth_error (set_nth i (n, pc') l) i0 = Some (n0, pc0) /\ j < pushed pc0) <->
  (exists i0 n0 pc0, p = S i0 /\ nth_error l i0 = Some (n0, pc0) /\ j < pushed pc0).
Proof.
  intros En Hp. assert (Hi : i < length l) by (eapply nth_error_lt; eauto). split.
  - intros (i0 & n0 & pc0 & -> & Hn0 & Hlt).
    apply nth_error_set_nth in Hn0 as [(<- & E & _)|(Hne & Hn0)].
    + injection E as -> ->. exists i, n, pc. rewrite <- Hp. auto.
    + exists i0, n0, pc0. auto.
  - intros (i0 & n0 & pc0 & -> & Hn0 & Hlt). destruct (Nat.eq_dec i i0) as [<-|Hne].
    + rewrite En in Hn0. injection Hn0 as <- <-. exists i, n, pc'.
      rewrite nth_error_set_nth_eq by exact Hi. rewrite Hp. auto.
    + exists i0, n0, pc0. rewrite nth_error_set_nth_neq by exact Hne. auto.
Qed.

Lemma step_prod_inv i s s' evs : Inv s -> step_prod i s = Some (s', evs) -> Inv s'.
Proof.
  intros I H. unfold step_prod in H. destruct I.
  destruct (nth_error (prods s) i) as [[n pc]|] eqn:En; [|discriminate].
  assert (Hi : i < length (prods s)) by (eapply nth_error_lt; eauto).
  destruct pc as [j|j|j].
  - (* PLock: lock + push *)
    destruct (Nat.ltb j n && mtx_free s) eqn:G; [|discriminate].
    apply andb_true_iff in G as [Gj Gf]. apply Nat.ltb_lt in Gj. apply mtx_free_true in Gf.
    injection H as <- <-.
    assert (Hnw : worker_holds (wk s) = false).
    { apply not_true_is_false. intros E. apply I_mw0 in E. congruence. }
    assert (Hnm : main_holds (mainpc s) = false).
    { apply not_true_is_false. intros E. apply I_m1 in E. congruence. }
    assert (Hnp : forall i' n' pc', nth_error (prods s) i' = Some (n', pc') -> prod_holds pc' = false).
    { intros i' n' pc' Hn'. apply not_true_is_false. intros E. apply (I_mp0 _ _ _ Hn') in E. congruence. }
    assert (Hfresh : ~ In (S i, j) (enq s)).
    { intros Hin. apply I_mem0 in Hin as (i0 & n0 & pc0 & E & Hn0 & Hlt). injection E as <-.
      rewrite En in Hn0. injection Hn0 as <- <-. cbn in Hlt. lia. }
    set (pc' := if match queue s with [] => true | _ => false end then PNotify j else PUnlock j).
    assert (Hpc' : prod_holds pc' = true /\ pushed pc' = S j).
    { unfold pc'. destruct (queue s); split; reflexivity. }
    destruct Hpc' as [Hh Hpu].
    constructor; inv_simpl; try solve [triv].
    + intros i0 n0 pc0 Hn0. apply nth_error_set_nth in Hn0 as [(<- & E & _)|(Hne & Hn0)].
      * injection E as -> ->. tauto.
      * rewrite (Hnp _ _ _ Hn0). split; [discriminate|]. intros E; injection E as E; congruence.
    + rewrite Hnw. split; [discriminate|]. intros E; injection E as E; lia.
    + intros t E. injection E as <-. right; left. lia.
    + rewrite I_fifo0. now rewrite <- !app_assoc.
    + apply NoDup_app_singleton; auto.
    + intros p j0. rewrite in_app_iff, I_mem0. cbn [In]. split.
      * intros [(i0 & n0 & pc0 & -> & Hn0 & Hlt)|[E|[]]].
        -- destruct (Nat.eq_dec i i0) as [<-|Hne].
           ++ rewrite En in Hn0. injection Hn0 as <- <-. cbn in Hlt.
              exists i, n, pc'. rewrite nth_error_set_nth_eq by exact Hi. repeat split; auto. lia.
           ++ exists i0, n0, pc0. rewrite nth_error_set_nth_neq by exact Hne. auto.
        -- injection E as <- <-. exists i, n, pc'. rewrite nth_error_set_nth_eq by exact Hi.
           repeat split; auto. lia.
      * intros (i0 & n0 & pc0 & -> & Hn0 & Hlt).
        apply nth_error_set_nth in Hn0 as [(<- & E & _)|(Hne & Hn0)].
        -- injection E as -> ->. rewrite Hpu in Hlt.
           destruct (Nat.eq_dec j0 j) as [->|Hj]; [right; left; reflexivity|].
           left. exists i, n, (PLock j). repeat split; auto. cbn. lia.
        -- left. exists i0, n0, pc0. auto.
    + intros i0 n0 pc0 Hn0. apply nth_error_set_nth in Hn0 as [(<- & E & _)|(Hne & Hn0)].
      * injection E as -> ->. lia.
      * eauto.
    + intros Ew. rewrite Ew in Hnw. discriminate.
    + intros Ew. destruct (I_blocked0 Ew) as [Hq Hs]. split; [|exact Hs]. right.
      destruct Hq as [Hq|(i0 & n0 & j0 & Hn0)].
      * exists i, n, j. unfold pc'. rewrite Hq. apply nth_error_set_nth_eq. exact Hi.
      * exists i0, n0, j0. rewrite nth_error_set_nth_neq; [exact Hn0|]. intros ->. congruence.
    + intros Ew. rewrite Ew in Hnw. discriminate.
    + intros Ew. destruct (I_done0 Ew) as [Hs Hincl]. split; [exact Hs|]. rewrite Hs.
      apply incl_app; [apply incl_appl; exact Hincl|apply incl_appr, incl_refl].
    + intros Hr Hs. exfalso. eapply (all_done_contra s i n (PLock j)); eauto.
    + intros Hr. destruct (stopf s) eqn:Hs; [|auto].
      exfalso. eapply (all_done_contra s i n (PLock j)); eauto.
  - (* PNotify *)
    injection H as <- <-.
    assert (Em : mtx s = Some (S i)) by (apply (I_mp0 _ _ _ En); reflexivity).
    constructor; inv_simpl; rewrite ?wake_holds, ?wake_inflight; try solve [triv].
    + intros i0 n0 pc0 Hn0. apply nth_error_set_nth in Hn0 as [(<- & E & _)|(Hne & Hn0)].
      * injection E as -> ->. cbn. tauto.
      * eauto.
    + intros p j0. rewrite I_mem0. symmetry. eapply mem_same_pushed; eauto.
    + intros i0 n0 pc0 Hn0. apply nth_error_set_nth in Hn0 as [(<- & E & _)|(Hne & Hn0)].
      * injection E as -> ->. apply (I_bound0 _ _ _ En).
      * eauto.
    + intros Ew. apply wake_eq in Ew; [auto|discriminate].
    + intros Ew. exfalso. eapply wake_not_blocked; eauto.
    + intros Ew. apply wake_eq in Ew; [auto|discriminate].
    + intros Ew. apply wake_eq in Ew; [auto|discriminate].
    + rewrite wake_notstarted. exact I_start0.
    + intros E. apply wake_done. auto.
    + intros Hr Hs. exfalso. eapply (all_done_contra s i n (PNotify j)); eauto.
  - (* PUnlock *)
    injection H as <- <-.
    assert (Em : mtx s = Some (S i)) by (apply (I_mp0 _ _ _ En); reflexivity).
    assert (Hnw : worker_holds (wk s) = false).
    { apply not_true_is_false. intros E. apply I_mw0 in E. rewrite Em in E. injection E as E.
      unfold worker_tid, nprods in E. lia. }
    assert (Hnm : main_holds (mainpc s) = false).
    { apply not_true_is_false. intros E. apply I_m1 in E. congruence. }
    constructor; inv_simpl; try solve [triv].
    + intros i0 n0 pc0 Hn0. apply nth_error_set_nth in Hn0 as [(<- & E & _)|(Hne & Hn0)].
      * injection E as -> ->. cbn. split; discriminate.
      * split; [|discriminate]. intros E. apply (I_mp0 _ _ _ Hn0) in E. rewrite Em in E.
        injection E as E. congruence.
    + intros p j0. rewrite I_mem0. symmetry. eapply mem_same_pushed; eauto.
    + intros i0 n0 pc0 Hn0. apply nth_error_set_nth in Hn0 as [(<- & E & _)|(Hne & Hn0)].
      * injection E as -> ->. apply (I_bound0 _ _ _ En).
      * eauto.
    + intros Ew. destruct (I_blocked0 Ew) as [Hq Hs]. split; [|exact Hs].
      destruct Hq as [Hq|(i0 & n0 & j0 & Hn0)]; [auto|]. right.
      exists i0, n0, j0. rewrite nth_error_set_nth_neq; [exact Hn0|]. intros ->. congruence.
    + intros Hr Hs. exfalso. eapply (all_done_contra s i n (PUnlock j)); eauto.
Qed.

Lemma step_cancel_inv s s' evs : Inv s -> step_cancel s = Some (s', evs) -> Inv s'.
Proof.
  intros I H. unfold step_cancel in H. destruct I.
  destruct (tocancel s) as [|it r]; [discriminate|]. injection H as <- <-.
  constructor; inv_simpl; try solve [triv].
  intros it0 Hin. right. auto.
Qed.

Lemma step_spur_inv s s' evs : Inv s -> step_spur s = Some (s', evs) -> Inv s'.
Proof.
  intros I H. unfold step_spur in H. destruct I.
  destruct (wk s) as [| | |[]| | | |] eqn:Ew; try discriminate. injection H as <- <-.
  constructor; inv_simpl; try solve [triv].
Qed.

Lemma worker_acquired_inv s :
  Inv s -> mtx s = None -> inflight (wk s) = [] -> wk s <> WNotStarted -> wk s <> WDone ->
  Inv (worker_acquired s).
Proof.
  intros I Gf Hinf Hns Hnd. destruct I. unfold worker_acquired.
  assert (Hnm : main_holds (mainpc s) = false).
  { apply not_true_is_false. intros E. apply I_m1 in E. congruence. }
  assert (Hnp : forall i' n' pc', nth_error (prods s) i' = Some (n', pc') -> prod_holds pc' = false).
  { intros i' n' pc' Hn'. apply not_true_is_false. intros E. apply (I_mp0 _ _ _ Hn') in E. congruence. }
  assert (Hsp : mainpc s <> MSpawn) by (intros E; apply I_start0 in E; auto).
  assert (Hmd : mainpc s <> MDone) by (intros E; apply I_join0 in E; auto).
  rewrite Hinf in I_fifo0.
  destruct (queue s) as [|t q] eqn:Eq; [destruct (stopf s) eqn:Es|].
  - constructor; inv_simpl; rewrite ?Eq, ?Es; try solve [triv].
    intros i n pc Hn. rewrite (Hnp _ _ _ Hn). split; [discriminate|]. intros E; injection E as E.
    apply nth_error_lt in Hn. lia.
  - constructor; inv_simpl; rewrite ?Eq, ?Es; try solve [triv].
    intros i n pc Hn. rewrite (Hnp _ _ _ Hn). split; [discriminate|]. intros E; injection E as E.
    apply nth_error_lt in Hn. lia.
  - constructor; inv_simpl; rewrite ?Eq; try solve [triv].
    intros i n pc Hn. rewrite (Hnp _ _ _ Hn). split; [discriminate|]. intros E; injection E as E.
    apply nth_error_lt in Hn. lia.
Qed.

(* when the worker owns the mutex no producer does *)
Ltac noprod I_mp0 Em :=
  let i := fresh "i" in let n := fresh "n" in let pc := fresh "pc" in
  let Hn := fresh "Hn" in let E := fresh "E" in
  intros i n pc Hn; split; [|discriminate]; intros E; apply (I_mp0 _ _ _ Hn) in E;
  rewrite Em in E; injection E as E; apply nth_error_lt in Hn; lia.

Lemma step_worker_inv s s' evs : Inv s -> step_worker s = Some (s', evs) -> Inv s'.
Proof.
  intros I H. unfold step_worker in H.
  destruct (wk s) as [| | |[]|t|t| |] eqn:Ew; try discriminate.
  - (* WLock *)
    destruct (mtx_free s) eqn:Gf; [|discriminate]. apply mtx_free_true in Gf.
    injection H as <- <-. apply worker_acquired_inv; auto; rewrite Ew; try discriminate; reflexivity.
  - (* WWait *)
    injection H as <- <-. destruct I.
    assert (Em : mtx s = Some (worker_tid s)) by (apply I_mw0; rewrite Ew; reflexivity).
    assert (Hnm : main_holds (mainpc s) = false).
    { apply not_true_is_false. intros E. apply I_m1 in E. rewrite Em in E. discriminate. }
    destruct (I_wait0 Ew) as [Hq Hs].
    constructor; inv_simpl; rewrite ?Ew in *; try solve [triv].
    noprod I_mp0 Em.
  - (* WBlocked true *)
    destruct (mtx_free s) eqn:Gf; [|discriminate]. apply mtx_free_true in Gf.
    injection H as <- <-. apply worker_acquired_inv; auto; rewrite Ew; try discriminate; reflexivity.
  - (* WUnlockExec *)
    injection H as <- <-. destruct I.
    assert (Em : mtx s = Some (worker_tid s)) by (apply I_mw0; rewrite Ew; reflexivity).
    assert (Hnm : main_holds (mainpc s) = false).
    { apply not_true_is_false. intros E. apply I_m1 in E. rewrite Em in E. discriminate. }
    constructor; inv_simpl; rewrite ?Ew in *; try solve [triv].
    noprod I_mp0 Em.
  - (* WExec *)
    injection H as <- <-. destruct I.
    constructor; inv_simpl; rewrite ?Ew in *; try solve [triv].
    + rewrite executed_items_app, I_fifo0. cbn. now rewrite <- app_assoc.
    + intros it Hin. apply in_app_iff in Hin as [Hin|[E|[]]]; [auto|].
      injection E as <- E. now apply mem_In.
  - (* WUnlockRet *)
    injection H as <- <-. destruct I.
    assert (Em : mtx s = Some (worker_tid s)) by (apply I_mw0; rewrite Ew; reflexivity).
    assert (Hnm : main_holds (mainpc s) = false).
    { apply not_true_is_false. intros E. apply I_m1 in E. rewrite Em in E. discriminate. }
    destruct (I_ret0 Ew) as [Hq Hs].
    constructor; inv_simpl; rewrite ?Ew in *; try solve [triv].
    + noprod I_mp0 Em.
    + intros _. split; [exact Hs|]. rewrite Hq. intros x [].
Qed.

Lemma step_inv t s s' evs : Inv s -> step t s = Some (s', evs) -> Inv s'.
Proof.
  intros I H. unfold step in H.
  destruct (Nat.eqb t 0); [eapply step_main_inv; eauto|].
  destruct (Nat.leb t (nprods s)); [eapply step_prod_inv; eauto|].
  destruct (Nat.eqb t (cancel_tid s)); [eapply step_cancel_inv; eauto|].
  destruct (Nat.eqb t (worker_tid s)); [eapply step_worker_inv; eauto|].
  destruct (Nat.eqb t (spur_tid s)); [eapply step_spur_inv; eauto|discriminate].
Qed.

Theorem inv_reachable rc counts cancels (sched : list nat) :
  Inv (fst (run step sched (init rc counts cancels, []))).
Proof.
  apply (run_invariant_state _ _ _ step Inv).
  - intros s t s' ev. apply step_inv.
  - apply inv_init.
Qed.

(* ------------------------------------------------------------------------------------------ *)
(* parameters never change                                                                    *)

Definition counts_of (s : st) : list nat := map fst (prods s).

Lemma map_fst_set_nth (l : list (nat * ppc)) i n pc pc' :
  nth_error l i = Some (n, pc) -> map fst (set_nth i (n, pc') l) = map fst l.
Proof.
  revert i; induction l as [|y r IH]; intros [|i] H; cbn in *; try discriminate.
  - injection H as ->. reflexivity.
  - f_equal. auto.
Qed.

Lemma step_params t s s' evs :
  step t s = Some (s', evs) -> counts_of s' = counts_of s /\ race s' = race s.
Proof.
  unfold step, counts_of.
  destruct (Nat.eqb t 0).
  { unfold step_main. destruct (mainpc s); try discriminate;
      try (destruct (mtx_free s && (race s || all_prods_done s))); try (destruct (wk s));
      intros H; try discriminate; injection H as <- <-; auto. }
  destruct (Nat.leb t (nprods s)).
  { unfold step_prod. destruct (nth_error (prods s) (pred t)) as [[n [j|j|j]]|] eqn:En; try discriminate;
      try (destruct (Nat.ltb j n && mtx_free s)); intros H; try discriminate; injection H as <- <-;
      cbn; split; auto; eapply map_fst_set_nth; eauto. }
  destruct (Nat.eqb t (cancel_tid s)).
  { unfold step_cancel. destruct (tocancel s); intros H; try discriminate; injection H as <- <-; auto. }
  destruct (Nat.eqb t (worker_tid s)).
  { unfold step_worker, worker_acquired.
    destruct (wk s) as [| | |[]| | | |]; try discriminate; try (destruct (mtx_free s)); try discriminate;
      try (destruct (queue s)); intros H; injection H as <- <-; auto. }
  destruct (Nat.eqb t (spur_tid s)); [|discriminate].
  unfold step_spur. destruct (wk s) as [| | |[]| | | |]; try discriminate. intros H; injection H as <- <-; auto.
Qed.

Lemma params_reachable rc counts cancels (sched : list nat) :
  let s := fst (run step sched (init rc counts cancels, [])) in
  counts_of s = counts /\ race s = rc.
Proof.
  apply (run_invariant_state _ _ _ step (fun s => counts_of s = counts /\ race s = rc)).
  - intros s t s' ev [H1 H2] H. apply step_params in H as [-> ->]. auto.
  - cbn. split; [|reflexivity]. unfold counts_of; cbn. rewrite map_map. cbn. apply map_id.
Qed.

(* ------------------------------------------------------------------------------------------ *)
(* traces                                                                                      *)

Definition enqs (tr : list ev) : list item :=
  flat_map (fun e => match e with EEnq it => [it] | _ => [] end) tr.
Definition runs (tr : list ev) : list (item * bool) :=
  flat_map (fun e => match e with ERun it b => [(it, b)] | _ => [] end) tr.
Definition cancels (tr : list ev) : list item :=
  flat_map (fun e => match e with ECancel it => [it] | _ => [] end) tr.

(* what one step adds to the ghost lists is exactly what its events say *)
Lemma step_ghost t s s' evs :
  step t s = Some (s', evs) ->
  enq s' = enq s ++ enqs evs /\ executed s' = executed s ++ runs evs /\
  cancelled s' = rev (cancels evs) ++ cancelled s.
Proof.
  unfold step.
  destruct (Nat.eqb t 0).
  { unfold step_main. destruct (mainpc s); try discriminate;
      try (destruct (mtx_free s && (race s || all_prods_done s))); try (destruct (wk s));
      intros H; try discriminate; injection H as <- <-; cbn; rewrite ?app_nil_r; auto. }
  destruct (Nat.leb t (nprods s)).
  { unfold step_prod. destruct (nth_error (prods s) (pred t)) as [[n [j|j|j]]|] eqn:En; try discriminate;
      try (destruct (Nat.ltb j n && mtx_free s)); intros H; try discriminate; injection H as <- <-;
      cbn; rewrite ?app_nil_r; auto. }
  destruct (Nat.eqb t (cancel_tid s)).
  { unfold step_cancel. destruct (tocancel s); intros H; try discriminate; injection H as <- <-;
      cbn; rewrite ?app_nil_r; auto. }
  destruct (Nat.eqb t (worker_tid s)).
  { unfold step_worker, worker_acquired.
    destruct (wk s) as [| | |[]| | | |]; try discriminate; try (destruct (mtx_free s)); try discriminate;
      try (destruct (queue s)); intros H; injection H as <- <-; cbn; rewrite ?app_nil_r; auto. }
  destruct (Nat.eqb t (spur_tid s)); [|discriminate].
  unfold step_spur. destruct (wk s) as [| | |[]| | | |]; try discriminate.
  intros H; injection H as <- <-; cbn; rewrite ?app_nil_r; auto.
Qed.

Definition TInv (c : st * list ev) : Prop :=
  enqs (snd c) = enq (fst c) /\ runs (snd c) = executed (fst c) /\
  cancels (snd c) = rev (cancelled (fst c)).

Theorem tinv_reachable rc counts cancels0 (sched : list nat) :
  TInv (run step sched (init rc counts cancels0, [])).
Proof.
  apply (run_invariant _ _ _ step TInv).
  - intros c t s' ev (H1 & H2 & H3) H. apply step_ghost in H as (G1 & G2 & G3).
    unfold TInv, enqs, runs, cancels in *; cbn [fst snd].
    rewrite !flat_map_app, H1, H2, H3, G1, G2, G3. repeat split; auto.
    rewrite rev_app_distr, rev_involutive. reflexivity.
  - repeat split; reflexivity.
Qed.

(* ------------------------------------------------------------------------------------------ *)
(* theorems                                                                                    *)

Section Reach.
  Variables (rc : bool) (counts : list nat) (cancels0 : list item) (sched : list nat).
  Let c := run step sched (init rc counts cancels0, []).
  Let s := fst c.
  Let tr := snd c.

  Let HI : Inv s := inv_reachable rc counts cancels0 sched.
  Let HT : TInv c := tinv_reachable rc counts cancels0 sched.

  (* FIFO: the completions, in order, are a prefix of the enqueue-linearisation order *)
  Theorem fifo : exists rest, enqs tr = map fst (runs tr) ++ rest.
  Proof.
    destruct HT as (H1 & H2 & _). destruct HI. fold tr s in H1, H2. rewrite H1, H2.
    exists (inflight (wk s) ++ queue s). exact I_fifo0.
  Qed.

  (* no item is enqueued twice, none completes twice *)
  Theorem enq_nodup : NoDup (enqs tr).
  Proof. destruct HT as (H1 & _). fold tr s in H1. rewrite H1. apply (I_nodup s HI). Qed.

  Theorem at_most_once : NoDup (map fst (runs tr)).
  Proof.
    destruct fifo as [rest E]. pose proof enq_nodup as Hn. rewrite E in Hn.
    eapply NoDup_app_l; eauto.
  Qed.

  (* exactly the started items are in the enqueue order *)
  Theorem enq_items : forall p j,
    In (p, j) (enqs tr) <->
    exists i n pc, p = S i /\ nth_error (prods s) i = Some (n, pc) /\ j < pushed pc.
  Proof. destruct HT as (H1 & _). fold tr s in H1. rewrite H1. apply (I_mem s HI). Qed.

  Theorem enq_items_valid : forall p j,
    In (p, j) (enqs tr) -> exists i n, p = S i /\ nth_error counts i = Some n /\ j < n.
  Proof.
    intros p j H. apply enq_items in H as (i & n & pc & -> & Hn & Hlt).
    exists i, n. split; [reflexivity|]. split.
    - destruct (params_reachable rc counts cancels0 sched) as [Hc _]. fold c s in Hc.
      rewrite <- Hc. unfold counts_of. rewrite nth_error_map, Hn. reflexivity.
    - pose proof (I_bound s HI _ _ _ Hn). lia.
  Qed.

  (* run() returns only when the list is empty and stop_ is set; after it returned only items
     pushed after stop_ was set can be in the list *)
  Theorem run_returns_only_if_stop_and_empty :
    (wk s = WUnlockRet -> queue s = [] /\ stopf s = true) /\
    (wk s = WDone -> stopf s = true /\ incl (queue s) (late s)).
  Proof. split; [apply (I_ret s HI)|apply (I_done s HI)]. Qed.

  (* every item accepted before stop() has completed once run() has returned *)
  Theorem accepted_before_stop_is_run : forall it,
    wk s = WDone -> In it (enqs tr) -> ~ In it (late s) -> In it (map fst (runs tr)).
  Proof.
    intros it Hw Hin Hl. destruct HT as (H1 & H2 & _). fold tr s in H1, H2. rewrite H1 in Hin.
    rewrite H2. rewrite (I_fifo s HI), Hw in Hin. cbn in Hin.
    apply in_app_iff in Hin as [Hin|Hin]; [exact Hin|].
    exfalso. apply Hl. apply (I_done s HI Hw). exact Hin.
  Qed.

  (* the destructor's join: the owner finishes only after run() returned *)
  Theorem joined : mainpc s = MDone -> wk s = WDone.
  Proof. apply (I_join s HI). Qed.

  (* single_thread_context (stop only after the producers are done): at the end every started
     item has completed exactly once, in enqueue order *)
  Theorem exactly_once_final :
    rc = false -> final s = true ->
    map fst (runs tr) = enqs tr /\ NoDup (map fst (runs tr)) /\
    forall i n j, nth_error counts i = Some n -> j < n -> In (S i, j) (map fst (runs tr)).
  Proof.
    intros Hrc Hf. unfold final in Hf.
    destruct (mainpc s) eqn:Em; try discriminate. destruct (wk s) eqn:Ew; try discriminate.
    destruct (tocancel s); try discriminate.
    destruct (params_reachable rc counts cancels0 sched) as [Hc Hr]. fold c s in Hc, Hr.
    assert (Hlate : late s = []) by (apply (I_late s HI); congruence).
    assert (Hq : queue s = []).
    { destruct (I_done s HI Ew) as [_ Hincl]. rewrite Hlate in Hincl.
      destruct (queue s) as [|x q]; [reflexivity|]. destruct (Hincl x); now left. }
    destruct HT as (H1 & H2 & _). fold tr s in H1, H2.
    assert (E : map fst (runs tr) = enqs tr).
    { rewrite H1, H2, (I_fifo s HI), Ew, Hq. cbn. now rewrite app_nil_r. }
    split; [exact E|]. split; [apply at_most_once|].
    intros i n j Hn Hj. rewrite E. apply enq_items.
    rewrite <- Hc in Hn. unfold counts_of in Hn. apply nth_error_map_some in Hn as ([n' pc] & Hn & ->).
    exists i, n', pc. repeat split; auto. cbn in Hj.
    destruct (all_done_nth s i n' pc Hf Hn) as (j' & -> & Hle). cbn. lia.
  Qed.

  (* general form (stop() may race with the producers): at the end the items that did not
     complete are still in the list, in order, and were all pushed after stop_ was set *)
  Theorem final_accounting :
    final s = true ->
    enqs tr = map fst (runs tr) ++ queue s /\ incl (queue s) (late s) /\
    forall i n j, nth_error counts i = Some n -> j < n -> In (S i, j) (enqs tr).
  Proof.
    intros Hf. unfold final in Hf.
    destruct (mainpc s) eqn:Em; try discriminate. destruct (wk s) eqn:Ew; try discriminate.
    destruct (tocancel s); try discriminate.
    destruct (params_reachable rc counts cancels0 sched) as [Hc Hr]. fold c s in Hc, Hr.
    destruct HT as (H1 & H2 & _). fold tr s in H1, H2.
    split; [|split].
    - rewrite H1, H2, (I_fifo s HI), Ew. reflexivity.
    - apply (I_done s HI Ew).
    - intros i n j Hn Hj. apply enq_items.
      rewrite <- Hc in Hn. unfold counts_of in Hn. apply nth_error_map_some in Hn as ([n' pc] & Hn & ->).
      exists i, n', pc. repeat split; auto. cbn in Hj.
      destruct (all_done_nth s i n' pc Hf Hn) as (j' & -> & Hle). cbn. lia.
  Qed.

  (* mutual exclusion, as told by the program counters *)
  Theorem mutex_owner :
    (main_holds (mainpc s) = true <-> mtx s = Some 0) /\
    (forall i n pc, nth_error (prods s) i = Some (n, pc) -> (prod_holds pc = true <-> mtx s = Some (S i))) /\
    (worker_holds (wk s) = true <-> mtx s = Some (worker_tid s)).
  Proof. destruct HI; auto. Qed.

  (* no lost wake-up: while the worker sleeps un-notified the list is empty or the notify_one of
     the producer that made it non-empty is pending (that producer still holds the mutex), and
     stop_ is clear or stop()'s notify_all is pending *)
  Theorem no_lost_item :
    wk s = WBlocked false ->
    (queue s = [] \/ exists i n j, nth_error (prods s) i = Some (n, PNotify j) /\ mtx s = Some (S i)) /\
    (stopf s = false \/ (mainpc s = MNotify /\ mtx s = Some 0)).
  Proof.
    intros Hw. destruct (I_blocked s HI Hw) as [Hq Hs]. split.
    - destruct Hq as [Hq|(i & n & j & Hn)]; [auto|]. right. exists i, n, j. split; [exact Hn|].
      apply (I_mp s HI _ _ _ Hn). reflexivity.
    - destruct Hs as [Hs|Hs]; [auto|]. right. split; [exact Hs|]. apply (I_m0 s HI). now rewrite Hs.
  Qed.

  (* progress that does not rely on spurious wake-ups: unless everything has finished, some
     thread other than the spurious-wake-up environment can take a step *)
  Theorem progress : final s = false -> exists t, t <> spur_tid s /\ step t s <> None.
  Proof.
    intros Hf. destruct HI.
    (* somebody owns the mutex: the owner can always move *)
    destruct (mtx s) as [o|] eqn:Em.
    { destruct (I_mr0 o eq_refl) as [ -> | [ Ho | -> ] ].
      - exists 0. split; [unfold spur_tid; lia|]. unfold step; cbn. unfold step_main.
        assert (Hh : main_holds (mainpc s) = true) by (apply I_m1; reflexivity).
        destruct (mainpc s); try discriminate.
      - exists o. split; [unfold spur_tid; lia|]. unfold step.
        destruct o as [|i]; [lia|]. cbn [Nat.eqb]. destruct (Nat.leb_spec (S i) (nprods s)); [|lia].
        cbn [pred]. unfold step_prod.
        destruct (nth_error (prods s) i) as [[n pc]|] eqn:En.
        + assert (Hh : prod_holds pc = true) by (apply (I_mp0 _ _ _ En); reflexivity).
          destruct pc; try discriminate.
        + apply nth_error_None in En. unfold nprods in *. lia.
      - exists (worker_tid s). split; [unfold spur_tid, worker_tid; lia|]. unfold step.
        assert (E1 : Nat.eqb (worker_tid s) 0 = false) by (apply Nat.eqb_neq; unfold worker_tid; lia).
        assert (E2 : Nat.leb (worker_tid s) (nprods s) = false) by (apply Nat.leb_gt; unfold worker_tid; lia).
        assert (E3 : Nat.eqb (worker_tid s) (cancel_tid s) = false)
          by (apply Nat.eqb_neq; unfold worker_tid, cancel_tid; lia).
        rewrite E1, E2, E3, Nat.eqb_refl. unfold step_worker.
        assert (Hh : worker_holds (wk s) = true) by (apply I_mw0; reflexivity).
        destruct (wk s) as [| | |[]| | | |]; try discriminate. }
    (* the mutex is free *)
    assert (Hfree : mtx_free s = true) by (apply mtx_free_true; exact Em).
    (* a stop request still to be made *)
    destruct (tocancel s) as [|it r] eqn:Ec.
    2:{ exists (cancel_tid s). split; [unfold spur_tid, cancel_tid; lia|]. unfold step.
        assert (E1 : Nat.eqb (cancel_tid s) 0 = false) by (apply Nat.eqb_neq; unfold cancel_tid; lia).
        assert (E2 : Nat.leb (cancel_tid s) (nprods s) = false) by (apply Nat.leb_gt; unfold cancel_tid; lia).
        rewrite E1, E2, Nat.eqb_refl. unfold step_cancel. rewrite Ec. discriminate. }
    (* a producer that is not done *)
    destruct (all_prods_done s) eqn:Ed.
    2:{ unfold all_prods_done in Ed.
        assert (exists i p, nth_error (prods s) i = Some p /\ prod_done p = false) as (i & [n pc] & Hn & Hp).
        { clear - Ed. induction (prods s) as [|y r IH]; cbn in Ed; [discriminate|].
          destruct (prod_done y) eqn:Ey.
          - destruct (IH Ed) as (i & p & Hn & Hp). exists (S i), p. auto.
          - exists 0, y. auto. }
        exists (S i). split; [unfold spur_tid; apply nth_error_lt in Hn; unfold nprods; lia|].
        unfold step. cbn [Nat.eqb]. pose proof (nth_error_lt _ _ _ Hn) as Hi.
        destruct (Nat.leb_spec (S i) (nprods s)); [|unfold nprods in *; lia].
        cbn [pred]. unfold step_prod. rewrite Hn.
        destruct pc as [j|j|j]; try discriminate.
        unfold prod_done in Hp; cbn in Hp. apply Nat.leb_gt in Hp.
        destruct (Nat.ltb_spec j n); [|lia]. rewrite Hfree. discriminate. }
    (* the owner thread, then the worker *)
    destruct (mainpc s) eqn:Emp.
    - exists 0. split; [unfold spur_tid; lia|]. unfold step; cbn. unfold step_main. rewrite Emp. discriminate.
    - exists 0. split; [unfold spur_tid; lia|]. unfold step; cbn. unfold step_main. rewrite Emp, Hfree, Ed.
      rewrite orb_true_r. discriminate.
    - exists 0. split; [unfold spur_tid; lia|]. unfold step; cbn. unfold step_main. rewrite Emp. discriminate.
    - exists 0. split; [unfold spur_tid; lia|]. unfold step; cbn. unfold step_main. rewrite Emp. discriminate.
    - (* MJoin: the worker must be able to move, or has returned *)
      assert (Hst : stopf s = true) by (rewrite <- I_stop0; reflexivity).
      destruct (wk s) as [| | |[]| | | |] eqn:Ew.
      + exfalso. assert (MJoin = MSpawn) by (apply I_start0; reflexivity). discriminate.
      + exists (worker_tid s). split; [unfold spur_tid, worker_tid; lia|]. unfold step.
        assert (E1 : Nat.eqb (worker_tid s) 0 = false) by (apply Nat.eqb_neq; unfold worker_tid; lia).
        assert (E2 : Nat.leb (worker_tid s) (nprods s) = false) by (apply Nat.leb_gt; unfold worker_tid; lia).
        assert (E3 : Nat.eqb (worker_tid s) (cancel_tid s) = false)
          by (apply Nat.eqb_neq; unfold worker_tid, cancel_tid; lia).
        rewrite E1, E2, E3, Nat.eqb_refl. unfold step_worker. rewrite Ew, Hfree. discriminate.
      + exfalso. assert (worker_holds WWait = true) by reflexivity. apply I_mw0 in H. congruence.
      + exists (worker_tid s). split; [unfold spur_tid, worker_tid; lia|]. unfold step.
        assert (E1 : Nat.eqb (worker_tid s) 0 = false) by (apply Nat.eqb_neq; unfold worker_tid; lia).
        assert (E2 : Nat.leb (worker_tid s) (nprods s) = false) by (apply Nat.leb_gt; unfold worker_tid; lia).
        assert (E3 : Nat.eqb (worker_tid s) (cancel_tid s) = false)
          by (apply Nat.eqb_neq; unfold worker_tid, cancel_tid; lia).
        rewrite E1, E2, E3, Nat.eqb_refl. unfold step_worker. rewrite Ew, Hfree. discriminate.
      + exfalso. destruct (I_blocked0 eq_refl) as [_ [Hs|Hs]]; congruence.
      + exfalso. assert (worker_holds (WUnlockExec t) = true) by reflexivity. apply I_mw0 in H. congruence.
      + exists (worker_tid s). split; [unfold spur_tid, worker_tid; lia|]. unfold step.
        assert (E1 : Nat.eqb (worker_tid s) 0 = false) by (apply Nat.eqb_neq; unfold worker_tid; lia).
        assert (E2 : Nat.leb (worker_tid s) (nprods s) = false) by (apply Nat.leb_gt; unfold worker_tid; lia).
        assert (E3 : Nat.eqb (worker_tid s) (cancel_tid s) = false)
          by (apply Nat.eqb_neq; unfold worker_tid, cancel_tid; lia).
        rewrite E1, E2, E3, Nat.eqb_refl. unfold step_worker. rewrite Ew. discriminate.
      + exfalso. assert (worker_holds WUnlockRet = true) by reflexivity. apply I_mw0 in H. congruence.
      + exists 0. split; [unfold spur_tid; lia|]. unfold step; cbn. unfold step_main. rewrite Emp, Ew. discriminate.
    - (* MDone *)
      exfalso. pose proof (I_join0 eq_refl) as Ew. unfold final in Hf. rewrite Emp, Ew, Ec, Ed in Hf. discriminate.
  Qed.
End Reach.

Lemma in_cancels it tr : In it (cancels tr) <-> In (ECancel it) tr.
Proof.
  unfold cancels. rewrite in_flat_map. split.
  - intros (e & He & Hi). destruct e; cbn in Hi; try contradiction. destruct Hi as [<-|[]]. exact He.
  - intros H. exists (ECancel it). split; [exact H|now left].
Qed.

(* a completion happens in a step of the worker thread (the context's own thread), right after
   reading the receiver's stop token; it is set_done iff the stop request on that item's source
   took effect earlier in the run *)
Theorem completion_on_worker_done_iff_stopped rc counts cancels0 (sched1 : list nat) t s' evs it b :
  let c1 := run step sched1 (init rc counts cancels0, []) in
  step t (fst c1) = Some (s', evs) -> In (ERun it b) evs ->
  t = worker_tid (fst c1) /\ evs = [EObs it b; ERun it b] /\
  (b = true <-> In (ECancel it) (snd c1)).
Proof.
  intros c1 H Hin.
  destruct (tinv_reachable rc counts cancels0 sched1) as (_ & _ & H3). fold c1 in H3.
  set (s := fst c1) in *. unfold step in H.
  destruct (Nat.eqb t 0).
  { exfalso. unfold step_main in H. destruct (mainpc s); try discriminate;
      try (destruct (mtx_free s && (race s || all_prods_done s))); try (destruct (wk s));
      try discriminate; injection H as <- <-; cbn in Hin; intuition discriminate. }
  destruct (Nat.leb t (nprods s)).
  { exfalso. unfold step_prod in H.
    destruct (nth_error (prods s) (pred t)) as [[n [j|j|j]]|]; try discriminate;
      try (destruct (Nat.ltb j n && mtx_free s)); try discriminate; injection H as <- <-;
      cbn in Hin; intuition discriminate. }
  destruct (Nat.eqb t (cancel_tid s)).
  { exfalso. unfold step_cancel in H. destruct (tocancel s); try discriminate; injection H as <- <-;
      cbn in Hin; intuition discriminate. }
  destruct (Nat.eqb_spec t (worker_tid s)) as [->|_].
  2:{ exfalso. destruct (Nat.eqb t (spur_tid s)); [|discriminate]. unfold step_spur in H.
      destruct (wk s) as [| | |[]| | | |]; try discriminate. injection H as <- <-.
      cbn in Hin; intuition discriminate. }
  split; [reflexivity|]. unfold step_worker in H.
  destruct (wk s) as [| | |[]|t0|t0| |]; try discriminate; try (destruct (mtx_free s)); try discriminate;
    injection H as <- <-; cbn in Hin; try (exfalso; intuition discriminate).
  all: destruct Hin as [E|[E|[]]]; [discriminate|]; injection E as -> <-.
  all: split; [reflexivity|]; rewrite mem_In, <- in_cancels, H3, <- in_rev; reflexivity.
Qed.
