(* Proofs about the model FdOwner (Proto/FdOwnerDefs.v): for every sequence of operations on any
   number of objects, interleaved with unrelated opens, the owner closes only what it owns, each
   owned resource at most once (exactly once when every object is gone), never a number that is not
   open, and valid() says exactly whether the object owns something. *)
From Coq Require Import List Bool Arith Lia.
From V Require Import Proto.FdOwnerDefs.
Import ListNotations.
Import FdOwner.

(* ---- kernel table ---------------------------------------------------------------------------- *)
Lemma memb_in n l : memb n l = true <-> In n l.
Proof.
  unfold memb. rewrite existsb_exists. split.
  - intros (x & Hin & Hx). apply Nat.eqb_eq in Hx. now subst.
  - intros H. exists n. split; auto. apply Nat.eqb_refl.
Qed.

Lemma lowest_free_fresh ks : NoDup ks -> ~ In (lowest_free ks) ks.
Proof.
  intros Hnd. unfold lowest_free.
  destruct (find (fun n => negb (memb n ks)) (seq 0 (S (length ks)))) as [n|] eqn:E.
  - apply find_some in E. destruct E as [_ E]. apply negb_true_iff in E.
    intros Hin. apply memb_in in Hin. congruence.
  - exfalso.
    assert (Hincl : incl (seq 0 (S (length ks))) ks).
    { intros n Hn. pose proof (find_none _ _ E n Hn) as H. apply negb_false_iff in H. now apply memb_in. }
    pose proof (NoDup_incl_length (seq_NoDup (S (length ks)) 0) Hincl) as Hl.
    rewrite seq_length in Hl. lia.
Qed.

Lemma list_max_fresh ks : ~ In (S (list_max ks)) ks.
Proof.
  intros Hin. pose proof (list_max_le ks (list_max ks)) as [H _]. specialize (H (Nat.le_refl _)).
  rewrite Forall_forall in H. specialize (H _ Hin). lia.
Qed.

Lemma alloc_fresh reuse s : NoDup (keys s) -> ~ In (alloc reuse s) (keys s).
Proof. intros H. unfold alloc. destruct reuse; [now apply lowest_free_fresh|apply list_max_fresh]. Qed.

Lemma lookup_in t n id : NoDup (map fst t) -> In (n, id) t -> lookup n t = Some id.
Proof.
  induction t as [|[k v] t IH]; simpl; intros Hnd Hin; [destruct Hin|].
  inversion Hnd; subst. destruct Hin as [E|Hin].
  - inversion E; subst. now rewrite Nat.eqb_refl.
  - destruct (Nat.eqb_spec k n).
    + subst. exfalso. apply H1. apply in_map_iff. exists (n, id). auto.
    + auto.
Qed.

Lemma in_remove_key n t m id : In (m, id) (remove_key n t) <-> In (m, id) t /\ m <> n.
Proof.
  unfold remove_key. rewrite filter_In. simpl. rewrite negb_true_iff, Nat.eqb_neq. tauto.
Qed.

Lemma remove_key_nodup_fst n t : NoDup (map fst t) -> NoDup (map fst (remove_key n t)).
Proof.
  induction t as [|[k v] t IH]; simpl; intros H; [constructor|]. inversion H; subst.
  destruct (negb (k =? n)); simpl; auto. constructor; auto.
  intros Hin. apply H2. apply in_map_iff in Hin. destruct Hin as ([k' v'] & E & Hin). simpl in E. subst k'.
  apply in_remove_key in Hin. apply in_map_iff. exists (k, v'). tauto.
Qed.

Lemma remove_key_nodup_snd n t : NoDup (map snd t) -> NoDup (map snd (remove_key n t)).
Proof.
  induction t as [|[k v] t IH]; simpl; intros H; [constructor|]. inversion H; subst.
  destruct (negb (k =? n)); simpl; auto. constructor; auto.
  intros Hin. apply H2. apply in_map_iff in Hin. destruct Hin as ([k' v'] & E & Hin). simpl in E. subst v'.
  apply in_remove_key in Hin. apply in_map_iff. exists (k', v). tauto.
Qed.

Lemma in_snd t id : In id (map snd t) <-> exists n, In (n, id) t.
Proof.
  rewrite in_map_iff. split.
  - intros ([n v] & E & H). simpl in E. subst. eauto.
  - intros (n & H). exists (n, id). auto.
Qed.

Lemma closed_ids_app a b : closed_ids (a ++ b) = closed_ids a ++ closed_ids b.
Proof.
  induction a as [|[n|n [id|]] a IH]; simpl; auto. now rewrite IH.
Qed.

(* ---- the part of the invariant that does not mention the objects ----------------------------- *)
Record KernOK (s : st) : Prop := {
  k_nodup : NoDup (keys s);
  v_nodup : NoDup (map snd (tbl s));
  v_lt : forall n id, In (n, id) (tbl s) -> id < next_id s;
  own_lt : forall id, In id (owned s) -> id < next_id s;
  oth_lt : forall id, In id (others s) -> id < next_id s;
  disj : forall id, In id (owned s) -> ~ In id (others s);
  log_good : Forall (good_close (owned s)) (log s);
  cl_nodup : NoDup (closed_ids (log s));
  cl_gone : forall id, In id (closed_ids (log s)) -> ~ In id (map snd (tbl s)) /\ id < next_id s;
  own_acc : forall id, In id (owned s) -> In id (map snd (tbl s)) \/ In id (closed_ids (log s));
  oth_open : forall id, In id (others s) -> In id (map snd (tbl s))
}.

Lemma kern_init : KernOK init.
Proof.
  constructor; simpl; try tauto; try (intros; lia).
  - repeat constructor; simpl; intuition lia.
  - repeat constructor; simpl; intuition lia.
  - intros n id [H|[H|[H|[]]]]; inversion H; lia.
  - intros id [H|[H|[H|[]]]]; lia.
  - constructor.
  - intros id [H|[H|[H|[]]]]; subst; auto.
Qed.

Lemma good_close_mono own own' e : (forall id, In id own -> In id own') -> good_close own e -> good_close own' e.
Proof. destruct e as [n|n [id|]]; simpl; auto. Qed.

Lemma kern_open reuse mine s : KernOK s -> KernOK (fst (kopen reuse mine s)).
Proof.
  intros [K1 K2 K3 K4 K5 K6 K7 K8 K9 K10 K11]. unfold kopen. simpl.
  pose proof (alloc_fresh reuse s K1) as Hf.
  assert (Hid : ~ In (next_id s) (map snd (tbl s))).
  { intros H. apply in_snd in H. destruct H as [n H]. apply K3 in H. lia. }
  constructor; simpl.
  - unfold keys. simpl. constructor; auto.
  - constructor; auto.
  - intros n id [E|H]; [inversion E; lia|]. apply K3 in H. lia.
  - destruct mine; simpl; intros id H; [destruct H as [<-|H]; [lia|]|]; apply K4 in H; lia.
  - destruct mine; simpl; intros id H; [|destruct H as [<-|H]; [lia|]]; apply K5 in H; lia.
  - destruct mine; simpl; intros id H.
    + destruct H as [<-|H]; [intros H'; apply K5 in H'; lia|auto].
    + intros [<-|H']; [apply K4 in H; lia|]. now apply (K6 id).
  - apply Forall_app. split; [|repeat constructor].
    eapply Forall_impl; [|exact K7]. intros e. apply good_close_mono. destruct mine; simpl; auto.
  - rewrite closed_ids_app. simpl. now rewrite app_nil_r.
  - rewrite closed_ids_app. simpl. rewrite app_nil_r. intros id H. destruct (K9 id H) as [A B]. split; [|lia].
    intros [<-|H']; [lia|auto].
  - rewrite closed_ids_app. simpl. rewrite app_nil_r. destruct mine; simpl; intros id H.
    + destruct H as [<-|H]; auto. destruct (K10 id H); auto.
    + destruct (K10 id H); auto.
  - destruct mine; simpl; intros id H; [right; auto|]. destruct H as [<-|H]; auto.
Qed.

Lemma kern_close s n id : KernOK s -> In (n, id) (tbl s) -> In id (owned s) -> KernOK (kclose s n).
Proof.
  intros [K1 K2 K3 K4 K5 K6 K7 K8 K9 K10 K11] Hin Hown. unfold kclose.
  assert (Hl : lookup n (tbl s) = Some id) by (apply lookup_in; auto).
  assert (Hgone : ~ In id (map snd (remove_key n (tbl s)))).
  { intros H. apply in_snd in H. destruct H as [m H]. apply in_remove_key in H. destruct H as [H Hm].
    (* the same id under two different keys contradicts NoDup of the identities *)
    clear - K2 Hin H Hm. induction (tbl s) as [|[k v] t IH]; simpl in *; [tauto|].
    inversion K2; subst. destruct Hin as [E|Hin], H as [E'|H].
    - inversion E; inversion E'; subst. congruence.
    - inversion E; subst. apply H2. apply in_snd. eauto.
    - inversion E'; subst. apply H2. apply in_snd. eauto.
    - auto. }
  constructor; simpl.
  - unfold keys. simpl. now apply remove_key_nodup_fst.
  - now apply remove_key_nodup_snd.
  - intros m id' H. apply in_remove_key in H. destruct H as [H _]. eauto.
  - auto.
  - auto.
  - auto.
  - apply Forall_app. split; auto. rewrite Hl. repeat constructor. exact Hown.
  - rewrite closed_ids_app, Hl. simpl. apply NoDup_app_singleton; auto.
    intros H. apply K9 in H. destruct H as [H _]. apply H. apply in_snd. eauto.
  - rewrite closed_ids_app, Hl. simpl. intros id' H. apply in_app_or in H. destruct H as [H|[<-|[]]].
    + destruct (K9 id' H) as [A B]. split; auto. intros H'. apply A. apply in_snd in H'. destruct H' as [m H'].
      apply in_remove_key in H'. apply in_snd. exists m. tauto.
    + split; auto. eauto.
  - rewrite closed_ids_app, Hl. simpl. intros id' H. destruct (K10 id' H) as [A|A].
    + destruct (Nat.eq_dec id' id) as [->|Hne]; [right; apply in_or_app; right; now left|].
      left. apply in_snd in A. destruct A as [m A]. apply in_snd. exists m. apply in_remove_key. split; auto.
      intros ->. assert (lookup n (tbl s) = Some id') by (apply lookup_in; auto). congruence.
    + right. apply in_or_app. now left.
  - intros id' H. pose proof (K11 id' H) as A. apply in_snd in A. destruct A as [m A]. apply in_snd. exists m.
    apply in_remove_key. split; auto. intros ->.
    assert (lookup n (tbl s) = Some id') by (apply lookup_in; auto).
    assert (id' = id) by congruence. subst. now apply (K6 id).
Qed.
