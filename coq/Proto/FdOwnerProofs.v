(* Proofs about the model FdOwner (Proto/FdOwnerDefs.v): for every sequence of operations on any
   number of objects, interleaved with unrelated opens, the owner closes only what it owns, each
   owned resource at most once (exactly once when every object is gone), never a number that is not
   open, and valid() says exactly whether the object owns something. *)
From Coq Require Import List Bool Arith Lia.
From V Require Import Proto.FdOwnerDefs.
Import ListNotations.
Import FdOwner.

(* ---- kernel table ---------------------------------------------------------------------------- *)
Lemma memb_in n l : memb n l = true <-> In n l.
Proof.
  unfold memb. rewrite existsb_exists. split.
  - intros (x & Hin & Hx). apply Nat.eqb_eq in Hx. now subst.
  - intros H. exists n. split; auto. apply Nat.eqb_refl.
Qed.

Lemma lowest_free_fresh ks : NoDup ks -> ~ In (lowest_free ks) ks.
Proof.
  intros Hnd. unfold lowest_free.
  destruct (find (fun n => negb (memb n ks)) (seq 0 (S (length ks)))) as [n|] eqn:E.
  - apply find_some in E. destruct E as [_ E]. apply negb_true_iff in E.
    intros Hin. apply memb_in in Hin. congruence.
  - exfalso.
    assert (Hincl : incl (seq 0 (S (length ks))) ks).
    { intros n Hn. pose proof (find_none _ _ E n Hn) as H. apply negb_false_iff in H. now apply memb_in. }
    pose proof (NoDup_incl_length (seq_NoDup (S (length ks)) 0) Hincl) as Hl.
    rewrite seq_length in Hl. lia.
Qed.

Lemma lmax_ge ks n : In n ks -> n <= lmax ks.
Proof.
  induction ks as [|x r IH]; simpl; [tauto|]. intros [->|H].
  - destruct (Nat.leb_spec (lmax r) n); lia.
  - specialize (IH H). destruct (Nat.leb_spec (lmax r) x); lia.
Qed.

Lemma list_max_fresh ks : ~ In (S (lmax ks)) ks.
Proof. intros Hin. apply lmax_ge in Hin. lia. Qed.

Lemma alloc_fresh reuse s : NoDup (keys s) -> ~ In (alloc reuse s) (keys s).
Proof.
  intros H. unfold alloc. destruct reuse; [now apply lowest_free_fresh|].
  destruct (Nat.leb_spec (next_id s) (lmax (keys s))); [apply list_max_fresh|].
  intros Hin. apply lmax_ge in Hin. lia.
Qed.

Lemma lookup_in t n id : NoDup (map fst t) -> In (n, id) t -> lookup n t = Some id.
Proof.
  induction t as [|[k v] t IH]; simpl; intros Hnd Hin; [destruct Hin|].
  inversion Hnd; subst. destruct Hin as [E|Hin].
  - inversion E; subst. now rewrite Nat.eqb_refl.
  - destruct (Nat.eqb_spec k n).
    + subst. exfalso. apply H1. apply in_map_iff. exists (n, id). auto.
    + auto.
Qed.

Lemma in_remove_key n t (m id : nat) : In (m, id) (remove_key n t) <-> In (m, id) t /\ m <> n.
Proof.
  unfold remove_key. rewrite filter_In. simpl. rewrite negb_true_iff, Nat.eqb_neq. tauto.
Qed.

Lemma remove_key_nodup_fst n t : NoDup (map fst t) -> NoDup (map fst (remove_key n t)).
Proof.
  induction t as [|[k v] t IH]; simpl; intros H; [constructor|]. inversion H; subst.
  destruct (negb (k =? n)); simpl; auto. constructor; auto.
  intros Hin. apply H2. apply in_map_iff in Hin. destruct Hin as ([k' v'] & E & Hin). simpl in E. subst k'.
  apply in_remove_key in Hin. apply in_map_iff. exists (k, v'). tauto.
Qed.

Lemma remove_key_nodup_snd n t : NoDup (map snd t) -> NoDup (map snd (remove_key n t)).
Proof.
  induction t as [|[k v] t IH]; simpl; intros H; [constructor|]. inversion H; subst.
  destruct (negb (k =? n)); simpl; auto. constructor; auto.
  intros Hin. apply H2. apply in_map_iff in Hin. destruct Hin as ([k' v'] & E & Hin). simpl in E. subst v'.
  apply in_remove_key in Hin. apply in_map_iff. exists (k', v). tauto.
Qed.

Lemma in_snd (t : list (nat * nat)) (id : nat) : In id (map snd t) <-> exists n, In (n, id) t.
Proof.
  rewrite in_map_iff. split.
  - intros ([n v] & E & H). simpl in E. subst. eauto.
  - intros (n & H). exists (n, id). auto.
Qed.

Lemma NoDup_app_singleton {A} (l : list A) x : NoDup l -> ~ In x l -> NoDup (l ++ [x]).
Proof.
  induction l; simpl; intros Hn Hi.
  - constructor; auto.
  - inversion Hn; subst. constructor.
    + rewrite in_app_iff. simpl. intros [H|[H|[]]]; auto.
    + apply IHl; auto.
Qed.

Lemma closed_ids_app a b : closed_ids (a ++ b) = closed_ids a ++ closed_ids b.
Proof.
  induction a as [|[n|n [id|]] a IH]; simpl; auto. now rewrite IH.
Qed.

(* ---- the part of the invariant that does not mention the objects ----------------------------- *)
Record KernOK (s : st) : Prop := {
  k_nodup : NoDup (keys s);
  v_nodup : NoDup (map snd (tbl s));
  v_lt : forall n id, In (n, id) (tbl s) -> id < next_id s;
  own_lt : forall id, In id (owned s) -> id < next_id s;
  oth_lt : forall id, In id (others s) -> id < next_id s;
  disj : forall id, In id (owned s) -> ~ In id (others s);
  log_good : Forall (good_close (owned s)) (log s);
  cl_nodup : NoDup (closed_ids (log s));
  cl_gone : forall id, In id (closed_ids (log s)) -> ~ In id (map snd (tbl s)) /\ id < next_id s;
  own_acc : forall id, In id (owned s) -> In id (map snd (tbl s)) \/ In id (closed_ids (log s));
  oth_open : forall id, In id (others s) -> In id (map snd (tbl s))
}.

Lemma kern_init : KernOK init.
Proof.
  constructor; simpl; intros;
    repeat match goal with
           | H : _ \/ _ |- _ => destruct H
           | H : (_, _) = (_, _) |- _ => inversion H; clear H; subst
           | H : False |- _ => destruct H
           end; subst; try lia; try tauto; auto 10;
    try (repeat constructor; simpl; intuition lia).
Qed.

Lemma good_close_mono own own' e : (forall id, In id own -> In id own') -> good_close own e -> good_close own' e.
Proof. destruct e as [n|n [id|]]; simpl; auto. Qed.

Lemma kern_open reuse mine s : KernOK s -> KernOK (fst (kopen reuse mine s)).
Proof.
  intros [K1 K2 K3 K4 K5 K6 K7 K8 K9 K10 K11]. unfold kopen. simpl.
  pose proof (alloc_fresh reuse s K1) as Hf.
  assert (Hid : ~ In (next_id s) (map snd (tbl s))).
  { intros H. apply in_snd in H. destruct H as [n H]. apply K3 in H. lia. }
  constructor; simpl.
  - unfold keys. simpl. constructor; auto.
  - constructor; auto.
  - intros n id [E|H]; [inversion E; lia|]. apply K3 in H. lia.
  - destruct mine; simpl; intros id H; [destruct H as [<-|H]; [lia|]|]; apply K4 in H; lia.
  - destruct mine; simpl; intros id H; [|destruct H as [<-|H]; [lia|]]; apply K5 in H; lia.
  - destruct mine; simpl; intros id H.
    + destruct H as [<-|H]; [intros H'; apply K5 in H'; lia|auto].
    + intros [<-|H']; [apply K4 in H; lia|]. now apply (K6 id).
  - apply Forall_app. split; [|repeat constructor].
    eapply Forall_impl; [|exact K7]. intros e. apply good_close_mono. destruct mine; simpl; auto.
  - rewrite closed_ids_app. simpl. now rewrite app_nil_r.
  - rewrite closed_ids_app. simpl. rewrite app_nil_r. intros id H. destruct (K9 id H) as [A B]. split; [|lia].
    intros [<-|H']; [lia|auto].
  - rewrite closed_ids_app. simpl. rewrite app_nil_r. destruct mine; simpl; intros id H.
    + destruct H as [<-|H]; auto. destruct (K10 id H); auto.
    + destruct (K10 id H); auto.
  - destruct mine; simpl; intros id H; [right; auto|]. destruct H as [<-|H]; auto.
Qed.

Lemma kern_close s n id : KernOK s -> In (n, id) (tbl s) -> In id (owned s) -> KernOK (kclose s n).
Proof.
  intros [K1 K2 K3 K4 K5 K6 K7 K8 K9 K10 K11] Hin Hown. unfold kclose.
  assert (Hl : lookup n (tbl s) = Some id) by (apply lookup_in; auto).
  assert (Hgone : ~ In id (map snd (remove_key n (tbl s)))).
  { intros H. apply in_snd in H. destruct H as [m H]. apply in_remove_key in H. destruct H as [H Hm].
    (* the same id under two different keys contradicts NoDup of the identities *)
    clear - K2 Hin H Hm. induction (tbl s) as [|[k v] t IH]; simpl in *; [tauto|].
    inversion K2; subst. destruct Hin as [E|Hin], H as [E'|H].
    - inversion E; inversion E'; subst. congruence.
    - inversion E; subst. apply H2. apply in_snd. eauto.
    - inversion E'; subst. apply H2. apply in_snd. eauto.
    - auto. }
  constructor; simpl.
  - unfold keys. simpl. now apply remove_key_nodup_fst.
  - now apply remove_key_nodup_snd.
  - intros m id' H. apply in_remove_key in H. destruct H as [H _]. eauto.
  - auto.
  - auto.
  - auto.
  - apply Forall_app. split; auto. rewrite Hl. repeat constructor. exact Hown.
  - rewrite closed_ids_app, Hl. simpl. apply NoDup_app_singleton; auto.
    intros H. apply K9 in H. destruct H as [H _]. apply H. apply in_snd. eauto.
  - rewrite closed_ids_app, Hl. simpl. intros id' H. apply in_app_or in H. destruct H as [H|[<-|[]]].
    + destruct (K9 id' H) as [A B]. split; auto. intros H'. apply A. apply in_snd in H'. destruct H' as [m H'].
      apply in_remove_key in H'. apply in_snd. exists m. tauto.
    + split; eauto.
  - rewrite closed_ids_app, Hl. simpl. intros id' H. destruct (K10 id' H) as [A|A].
    + destruct (Nat.eq_dec id' id) as [->|Hne]; [right; apply in_or_app; right; now left|].
      left. apply in_snd in A. destruct A as [m A]. apply in_snd. exists m. apply in_remove_key. split; auto.
      intros ->. assert (lookup n (tbl s) = Some id') by (apply lookup_in; auto). congruence.
    + right. apply in_or_app. now left.
  - intros id' H. pose proof (K11 id' H) as A. apply in_snd in A. destruct A as [m A]. apply in_snd. exists m.
    apply in_remove_key. split; auto. intros ->.
    assert (lookup n (tbl s) = Some id') by (apply lookup_in; auto).
    assert (id' = id) by congruence. subst. now apply (K6 id).
Qed.

(* ---- the part that mentions the objects; x = a number held by a temporary --------------------- *)
Definition fld (f : nat -> slot) (i : nat) : option nat :=
  match f i with Some (Some n) => Some n | _ => None end.

Record SlotsOK (t : list (nat * nat)) (own : list nat) (f : nat -> slot) (x : option nat) : Prop := {
  f_tbl : forall i n, fld f i = Some n -> exists id, In (n, id) t /\ In id own;
  f_inj : forall i j n, fld f i = Some n -> fld f j = Some n -> i = j;
  t_held : forall n id, In (n, id) t -> In id own -> (exists i, fld f i = Some n) \/ x = Some n;
  x_ok : forall n, x = Some n -> (exists id, In (n, id) t /\ In id own) /\ forall i, fld f i <> Some n
}.

Definition Inv (s : st) : Prop := KernOK s /\ SlotsOK (tbl s) (owned s) (slots s) None.

Lemma fld_upd_eq f i v : fld (upd f i v) i = match v with Some (Some n) => Some n | _ => None end.
Proof. unfold fld, upd. now rewrite Nat.eqb_refl. Qed.
Lemma fld_upd_neq f i k v : k <> i -> fld (upd f i v) k = fld f k.
Proof. unfold fld, upd. intros H. apply Nat.eqb_neq in H. now rewrite H. Qed.

Ltac cases k i := destruct (Nat.eq_dec k i) as [?|?]; [subst; rewrite ?fld_upd_eq in *|rewrite ?fld_upd_neq in * by auto].

(* a slot gives up its number (to a temporary that is about to be destroyed, or to close()) *)
Lemma S_release t own f i n v :
  SlotsOK t own f None -> fld f i = Some n -> (v = None \/ v = Some None) ->
  SlotsOK t own (upd f i v) (Some n).
Proof.
  intros [A B C D] Hi Hv. constructor.
  - intros k m H. cases k i; [destruct Hv; subst; discriminate|eauto].
  - intros k j m H1 H2. cases k i; [destruct Hv; subst; discriminate|].
    cases j i; [destruct Hv; subst; discriminate|eauto].
  - intros m id H1 H2. destruct (C m id H1 H2) as [[k Hk]|E]; [|discriminate].
    destruct (Nat.eq_dec k i) as [->|Hne].
    + right. congruence.
    + left. exists k. now rewrite fld_upd_neq.
  - intros m E. inversion E; subst m. split; [eauto|].
    intros k H. cases k i; [destruct Hv; subst; discriminate|].
    apply n0. eapply B; eauto.
Qed.

(* the number leaves the kernel table together with its temporary holder *)
Lemma S_close t own f n :
  SlotsOK t own f (Some n) -> SlotsOK (remove_key n t) own f None.
Proof.
  intros [A B C D]. destruct (D n eq_refl) as [_ Dn]. constructor.
  - intros i m H. destruct (A i m H) as (id & H1 & H2). exists id. split; auto.
    apply in_remove_key. split; auto. intros ->. eapply Dn; eauto.
  - exact B.
  - intros m id H1 H2. apply in_remove_key in H1. destruct H1 as [H1 Hm].
    destruct (C m id H1 H2) as [H|E]; auto. inversion E; congruence.
  - discriminate.
Qed.

Lemma S_weaken t own f : SlotsOK t own f None -> forall x, x = None -> SlotsOK t own f x.
Proof. intros H x ->. exact H. Qed.

(* a slot without a number changes between dead / alive-empty *)
Lemma S_blank t own f i v :
  SlotsOK t own f None -> fld f i = None -> (v = None \/ v = Some None) -> SlotsOK t own (upd f i v) None.
Proof.
  intros [A B C D] Hi Hv. constructor.
  - intros k m H. cases k i; [destruct Hv; subst; discriminate|eauto].
  - intros k j m H1 H2. cases k i; [destruct Hv; subst; discriminate|].
    cases j i; [destruct Hv; subst; discriminate|eauto].
  - intros m id H1 H2. destruct (C m id H1 H2) as [[k Hk]|E]; [|discriminate].
    left. exists k. rewrite fld_upd_neq; auto. intros ->. congruence.
  - discriminate.
Qed.

(* the content of slot j moves to slot i, which held no number; slot j becomes empty *)
Lemma S_move t own f i j fj :
  SlotsOK t own f None -> fld f i = None -> f j = Some fj ->
  SlotsOK t own (upd (upd f j (Some None)) i (Some fj)) None.
Proof.
  intros [A B C D] Hi Hj.
  assert (Hfj : fld f j = fj) by (unfold fld; rewrite Hj; now destruct fj).
  set (g := upd (upd f j (Some None)) i (Some fj)).
  assert (Hg : forall k, fld g k = if Nat.eqb k i then fj else if Nat.eqb k j then None else fld f k).
  { intros k. unfold g, fld, upd. destruct (Nat.eqb k i); [now destruct fj|]. now destruct (Nat.eqb k j). }
  assert (Hsrc : forall k m, fld g k = Some m -> (k = i /\ fld f j = Some m) \/ (k <> i /\ k <> j /\ fld f k = Some m)).
  { intros k m H. rewrite Hg in H. destruct (Nat.eqb_spec k i); [left; subst; split; congruence|].
    destruct (Nat.eqb_spec k j); [discriminate|]. right. auto. }
  constructor.
  - intros k m H. destruct (Hsrc k m H) as [[_ H']|(_ & _ & H')]; eauto.
  - intros k l m H1 H2.
    destruct (Hsrc k m H1) as [[-> Hk]|(Hk1 & Hk2 & Hk)], (Hsrc l m H2) as [[-> Hl]|(Hl1 & Hl2 & Hl)]; auto.
    + exfalso. apply Hl2. eapply B; eauto.
    + exfalso. apply Hk2. eapply B; eauto.
    + eapply B; eauto.
  - intros m id H1 H2. destruct (C m id H1 H2) as [[k Hk]|E]; [|discriminate]. left.
    destruct (Nat.eq_dec k j) as [->|Hkj].
    + exists i. rewrite Hg, Nat.eqb_refl. congruence.
    + exists k. rewrite Hg. destruct (Nat.eqb_spec k i); [subst; congruence|].
      destruct (Nat.eqb_spec k j); [congruence|auto].
  - discriminate.
Qed.

(* a freshly opened descriptor goes into a slot that held no number / belongs to somebody else *)
Lemma S_new t own f i n id :
  SlotsOK t own f None -> fld f i = None -> ~ In n (map fst t) -> (forall m, ~ In (m, id) t) ->
  SlotsOK ((n, id) :: t) (id :: own) (upd f i (Some (Some n))) None.
Proof.
  intros [A B C D] Hi Hn Hid. constructor.
  - intros k m H. cases k i.
    + inversion H; subst. exists id. simpl. auto.
    + destruct (A k m H) as (id' & H1 & H2). exists id'. simpl. auto.
  - intros k j m H1 H2. cases k i; cases j i; auto.
    + inversion H1; subst. exfalso. destruct (A j m H2) as (id' & H3 & _). apply Hn. apply in_map_iff. exists (m, id'). auto.
    + inversion H2; subst. exfalso. destruct (A k m H1) as (id' & H3 & _). apply Hn. apply in_map_iff. exists (m, id'). auto.
    + eauto.
  - intros m id' [E|H1] H2.
    + inversion E; subst. left. exists i. now rewrite fld_upd_eq.
    + destruct H2 as [<-|H2]; [exfalso; eapply Hid; eauto|].
      destruct (C m id' H1 H2) as [[k Hk]|E]; [|discriminate]. left. exists k. rewrite fld_upd_neq; auto.
      intros ->. congruence.
  - discriminate.
Qed.

Lemma S_other t own f n id :
  SlotsOK t own f None -> ~ In id own -> SlotsOK ((n, id) :: t) own f None.
Proof.
  intros [A B C D] Hid. constructor.
  - intros k m H. destruct (A k m H) as (id' & H1 & H2). exists id'. simpl. auto.
  - exact B.
  - intros m id' [E|H1] H2; [inversion E; subst; contradiction|eauto].
  - discriminate.
Qed.

(* ---- every operation preserves the invariant (exch = true: the code as it is) ------------------ *)
Lemma fld_none_of_dead f i : f i = None -> fld f i = None.
Proof. unfold fld. now intros ->. Qed.

Lemma drop_inv s x :
  KernOK s -> SlotsOK (tbl s) (owned s) (slots s) x -> Inv (drop s x).
Proof.
  intros K S. destruct x as [n|]; simpl; [|split; auto].
  destruct (x_ok _ _ _ _ S n eq_refl) as [(id & H1 & H2) _].
  split; [eapply kern_close; eauto|]. simpl. now apply S_close.
Qed.

Lemma exec_inv reuse s o : Inv s -> Inv (exec true reuse s o).
Proof.
  intros [K S]. destruct o as [i|i|i j|i j|i|i|]; simpl.
  - (* ONew *)
    destruct (slots s i) eqn:Ei; [split; auto|].
    pose proof (kern_open reuse true s K) as K'. unfold kopen in *. simpl in *.
    split; [destruct K'; constructor; auto|]. simpl.
    apply S_new; auto.
    + now apply fld_none_of_dead.
    + apply alloc_fresh. apply K.
    + intros m H. apply (v_lt _ K) in H. lia.
  - (* OEmpty *)
    destruct (slots s i) eqn:Ei; [split; auto|]. split; [destruct K; constructor; auto|]. simpl.
    apply S_blank; auto. now apply fld_none_of_dead.
  - (* OMoveCtor *)
    destruct (slots s i) eqn:Ei; [split; auto|]. destruct (slots s j) as [fj|] eqn:Ej; [|split; auto].
    split; [destruct K; constructor; auto|]. simpl. apply S_move; auto. now apply fld_none_of_dead.
  - (* OMoveAssign *)
    destruct (slots s i) as [fi|] eqn:Ei; [|split; auto]. destruct (slots s j) as [fj|] eqn:Ej; [|split; auto].
    apply drop_inv; [destruct K; constructor; auto|]. simpl.
    destruct (Nat.eq_dec i j) as [->|Hij].
    + (* self move-assignment: the number comes back *)
      unfold upd at 3. rewrite Nat.eqb_refl.
      assert (E : forall k, upd (upd (slots s) j (Some None)) j (Some fj) k = slots s k).
      { intros k. unfold upd. destruct (Nat.eqb_spec k j); [subst; auto|auto]. }
      destruct S as [A B C D]. constructor.
      * intros k m H. unfold fld in H. rewrite E in H. eapply A; eauto.
      * intros k l m H1 H2. unfold fld in H1, H2. rewrite E in H1, H2. eapply B; eauto.
      * intros m id H1 H2. destruct (C m id H1 H2) as [[k Hk]|X]; [|discriminate]. left. exists k.
        unfold fld. rewrite E. exact Hk.
      * discriminate.
    + unfold upd at 3. assert (Hne : Nat.eqb i j = false) by now apply Nat.eqb_neq. rewrite Hne, Ei.
      (* first slot i releases its number to the temporary, then slot j's content moves in *)
      destruct fi as [n|].
      * assert (S1 : SlotsOK (tbl s) (owned s) (upd (slots s) i (Some None)) (Some n)).
        { apply S_release; auto. unfold fld. now rewrite Ei. }
        destruct S1 as [A B C D]. destruct S as [A0 B0 C0 D0].
        set (g := upd (upd (slots s) j (Some None)) i (Some fj)).
        assert (Hg : forall k, fld g k = if Nat.eqb k i then (match fj with Some m => Some m | None => None end)
                                         else if Nat.eqb k j then None else fld (slots s) k).
        { intros k. unfold g, fld, upd. destruct (Nat.eqb k i); [now destruct fj|]. now destruct (Nat.eqb k j). }
        assert (Hfj : fld (slots s) j = match fj with Some m => Some m | None => None end)
          by (unfold fld; now rewrite Ej).
        assert (Hfi : fld (slots s) i = Some n) by (unfold fld; now rewrite Ei).
        constructor.
        -- intros k m H. rewrite Hg in H. destruct (Nat.eqb_spec k i); [eapply A0; rewrite Hfj; eauto|].
           destruct (Nat.eqb_spec k j); [discriminate|eauto].
        -- intros k l m H1 H2. rewrite Hg in H1, H2.
           destruct (Nat.eqb_spec k i), (Nat.eqb_spec l i); subst; auto.
           ++ destruct (Nat.eqb_spec l j); [discriminate|]. exfalso. apply n1. eapply B0; eauto. congruence.
           ++ destruct (Nat.eqb_spec k j); [discriminate|]. exfalso. apply n1. eapply B0; eauto. congruence.
           ++ destruct (Nat.eqb_spec k j); [discriminate|]. destruct (Nat.eqb_spec l j); [discriminate|]. eapply B0; eauto.
        -- intros m id H1 H2. destruct (C0 m id H1 H2) as [[k Hk]|X]; [|discriminate].
           destruct (Nat.eq_dec k i) as [->|Hki]; [right; congruence|]. left.
           destruct (Nat.eq_dec k j) as [->|Hkj].
           ++ exists i. rewrite Hg, Nat.eqb_refl. congruence.
           ++ exists k. rewrite Hg. destruct (Nat.eqb_spec k i); [congruence|]. destruct (Nat.eqb_spec k j); [congruence|auto].
        -- intros m E. inversion E; subst m. split; [eapply A0; eauto|].
           intros k H. rewrite Hg in H. destruct (Nat.eqb_spec k i).
           ++ subst. apply Hij. eapply B0; eauto. congruence.
           ++ destruct (Nat.eqb_spec k j); [discriminate|]. apply n0. eapply B0; eauto.
      * apply S_move; auto. unfold fld. now rewrite Ei.
  - (* OClose *)
    destruct (slots s i) as [[n|]|] eqn:Ei; try (split; auto; fail).
    change (Inv (drop (set_slots s (upd (slots s) i (Some None))) (Some n))).
    apply drop_inv; [destruct K; constructor; auto|]. simpl.
    apply S_release; auto. unfold fld. now rewrite Ei.
  - (* ODestroy *)
    destruct (slots s i) as [f|] eqn:Ei; [|split; auto].
    destruct f as [n|].
    + change (Inv (drop (set_slots s (upd (slots s) i None)) (Some n))).
      apply drop_inv; [destruct K; constructor; auto|]. simpl.
      apply S_release; auto. unfold fld. now rewrite Ei.
    + simpl. split; [destruct K; constructor; auto|]. simpl. apply S_blank; auto. unfold fld. now rewrite Ei.
  - (* OOther *)
    pose proof (kern_open reuse false s K) as K'. split; auto. unfold kopen. simpl.
    apply S_other; auto. intros H. apply (own_lt _ K) in H. lia.
Qed.

Lemma inv_init : Inv init.
Proof.
  split; [apply kern_init|]. constructor; simpl; try discriminate.
  intros n id _ [].
Qed.

Theorem inv_run reuse ops : Inv (run_ops true reuse ops).
Proof.
  unfold run_ops. generalize inv_init. generalize init. induction ops as [|o ops IH]; simpl; auto.
  intros s H. apply IH. now apply exec_inv.
Qed.

(* ---- the theorems ------------------------------------------------------------------------------- *)
(* never a descriptor it does not own: every close() the objects perform hits an open number whose
   resource was handed to an object - never EBADF (a number already closed), never a resource of
   somebody else (a number closed before and reused) *)
Theorem never_foreign_close reuse ops :
  let s := run_ops true reuse ops in
  Forall (good_close (owned s)) (log s) /\
  (forall id, In id (others s) -> In id (map snd (tbl s)) /\ ~ In id (closed_ids (log s))).
Proof.
  intros s. destruct (inv_run reuse ops) as [K S]. fold s in K, S. split; [apply K|].
  intros id H. split; [now apply (oth_open _ K)|].
  intros Hc. destruct (cl_gone _ K id Hc) as [Hn _]. apply Hn. now apply (oth_open _ K).
Qed.

(* each resource is closed at most once *)
Theorem closed_at_most_once reuse ops : NoDup (closed_ids (log (run_ops true reuse ops))).
Proof. destruct (inv_run reuse ops) as [K _]. apply K. Qed.

(* valid() <=> owns: a slot whose fd_ is a number holds an open descriptor that was handed to an
   object, no other slot holds the same number; and every open descriptor handed to an object is
   held by some slot (nothing is leaked while objects are alive) *)
Theorem valid_iff_owns reuse ops :
  let s := run_ops true reuse ops in
  (forall i n, field s i = Some n ->
     (exists id, In (n, id) (tbl s) /\ In id (owned s)) /\ forall j, field s j = Some n -> j = i) /\
  (forall n id, In (n, id) (tbl s) -> In id (owned s) -> exists i, field s i = Some n).
Proof.
  intros s. destruct (inv_run reuse ops) as [K [A B C D]]. fold s in A, B, C. split.
  - intros i n H. split; [apply (A i n H)|]. intros j Hj. symmetry. eapply B; eauto.
  - intros n id H1 H2. destruct (C n id H1 H2) as [H|H]; [exact H|discriminate].
Qed.

(* released exactly once: when no object holds anything any more, every resource ever handed to an
   object has been closed (once, by closed_at_most_once) *)
Theorem all_released reuse ops :
  let s := run_ops true reuse ops in
  (forall i, field s i = None) -> forall id, In id (owned s) -> In id (closed_ids (log s)).
Proof.
  intros s Hall id Hid. destruct (inv_run reuse ops) as [K [A B C D]]. fold s in K, C.
  destruct (own_acc _ K id Hid) as [H|H]; auto.
  apply in_snd in H. destruct H as [n H]. destruct (C n id H Hid) as [[i Hi]|X]; [|discriminate].
  change (field s i = Some n) in Hi. rewrite Hall in Hi. discriminate.
Qed.

(* the variant whose close() leaves fd_ alone: the destructor closes the number again, and if the
   number was handed out again in between it closes somebody else's descriptor *)
Theorem never_foreign_close_refuted :
  exists ops, let s := run_ops false true ops in
    exists n id, In (EClose n (Some id)) (log s) /\ In id (others s) /\ ~ In id (map snd (tbl s)).
Proof.
  exists [ONew 0; OClose 0; OOther; ODestroy 0]. exists 3, 4. vm_compute. repeat split; auto 10.
  intros [H|[H|[H|[]]]]; discriminate.
Qed.

Theorem closed_number_not_open_refuted :
  exists ops, In (EClose 3 None) (log (run_ops false true ops)).
Proof. exists [ONew 0; OClose 0; ODestroy 0]. vm_compute. auto 10. Qed.
