(* Proofs about the model EpollTimer (Proto/EpollTimerDefs.v): the timers of linuxos::io_epoll_context.

   STATUS: PARTIAL.  What is proved here (every lemma below is closed):
     * the per-operation phase invariant [opok] (22 phases: where one timer operation is -- heap, local /
       remote queue, being executed, which execute_ it carries, the state_ flags, its stop callback and the
       remote stopper's position -- as seen through counts of its occurrences) is preserved by every step
       of a starter thread ([start_pres]) and of a remote stopper thread ([stop_pres]), by
       execute_pending_local popping an operation ([exec_op_ok]) and by the private parts of the run loop
       that only move the I/O thread's pc ([ok_global] with after_update / arm_logic / pop_logic /
       leave_batch); none of these steps sets [bad].
   What is NOT proved yet: preservation by the I/O thread's own accesses (start_local, request_stop_local,
   the completions, update_timers' reaping, the remote-queue take), hence the lifting to all schedules and
   the property-level theorems (exactly once, never early, order, no reference retained, quiescence =
   prompt cancel + progress).  They are listed as comments in Properties_C07_epoll.v; the lock-step tie
   (tools/units/epoll_timers.py) and the driver's direct monitor check them on the real code meanwhile. *)
From Coq Require Import ZArith List Bool Arith Lia Permutation.
From V Require Import Base.Sched Arith.SortedInsertDefs Arith.SortedInsertProofs Proto.EpollTimerDefs.
Import ListNotations.
Import EpollTimer.
Local Open Scope Z_scope.

(* ======================================================================================= *)


(* ---- counting ---------------------------------------------------------------------------------- *)
Definition cnt {A} (p : A -> bool) (l : list A) : nat := length (filter p l).

Lemma cnt_nil {A} (p : A -> bool) : cnt p [] = 0%nat. Proof. reflexivity. Qed.
Lemma cnt_cons {A} (p : A -> bool) x l : cnt p (x :: l) = (b2n (p x) + cnt p l)%nat.
Proof. unfold cnt. cbn. destruct (p x); reflexivity. Qed.
Lemma cnt_app {A} (p : A -> bool) l1 l2 : cnt p (l1 ++ l2) = (cnt p l1 + cnt p l2)%nat.
Proof. unfold cnt. rewrite filter_app, app_length. reflexivity. Qed.
Lemma cnt_rev {A} (p : A -> bool) l : cnt p (rev l) = cnt p l.
Proof. induction l as [|x l IH]; [reflexivity|]. cbn [rev]. rewrite cnt_app, cnt_cons, cnt_cons, cnt_nil, IH. lia. Qed.
Lemma cnt_perm {A} (p : A -> bool) l1 l2 : Permutation l1 l2 -> cnt p l1 = cnt p l2.
Proof. induction 1; rewrite ?cnt_cons; lia. Qed.
Lemma cnt_zero_notin {A} (p : A -> bool) l : cnt p l = 0%nat -> forall x, In x l -> p x = false.
Proof.
  induction l as [|y l IH]; intros H x Hin; [destruct Hin|]. rewrite cnt_cons in H.
  destruct Hin as [->|Hin]; [destruct (p x); [cbn in H; lia | reflexivity]|].
  apply IH; [lia | exact Hin].
Qed.
Lemma cnt_pos_in {A} (p : A -> bool) l : (0 < cnt p l)%nat -> exists x, In x l /\ p x = true.
Proof.
  induction l as [|y l IH]; intros H; [cbn in H; lia|]. rewrite cnt_cons in H.
  destruct (p y) eqn:E; [exists y; split; [left; reflexivity | exact E]|].
  cbn in H. destruct (IH H) as [x [Hx Hp]]. exists x. split; [right; exact Hx | exact Hp].
Qed.
Lemma cnt_in_pos {A} (p : A -> bool) l x : In x l -> p x = true -> (0 < cnt p l)%nat.
Proof.
  induction l as [|y l IH]; intros Hin Hp; [destruct Hin|]. rewrite cnt_cons.
  destruct Hin as [->|Hin]; [rewrite Hp; cbn; lia|]. specialize (IH Hin Hp). lia.
Qed.
Lemma cnt_map {A B} (f : A -> B) (p : B -> bool) l : cnt p (map f l) = cnt (fun x => p (f x)) l.
Proof. induction l as [|x l IH]; [reflexivity|]. cbn [map]. rewrite !cnt_cons, IH. reflexivity. Qed.

Definition hasid (j : nat) (x : timer) : bool := Nat.eqb (id x) j.

Lemma cnt_heap_insert p x l : cnt p (heap_insert x l) = (b2n (p x) + cnt p l)%nat.
Proof. rewrite <- (cnt_perm p _ _ (heap_insert_perm x l)). apply cnt_cons. Qed.

Lemma cnt_heap_remove_other i j l : i <> j -> cnt (hasid j) (heap_remove i l) = cnt (hasid j) l.
Proof.
  intros Hne. induction l as [|x l IH]; [reflexivity|]. cbn [heap_remove].
  destruct (Nat.eqb (id x) i) eqn:E.
  - apply Nat.eqb_eq in E. rewrite cnt_cons. change (hasid j x) with (Nat.eqb (id x) j). rewrite E.
    replace (Nat.eqb i j) with false by (symmetry; apply Nat.eqb_neq; exact Hne). reflexivity.
  - rewrite !cnt_cons, IH. reflexivity.
Qed.
Lemma cnt_heap_remove_same i l : cnt (hasid i) (heap_remove i l) = pred (cnt (hasid i) l).
Proof.
  induction l as [|x l IH]; [reflexivity|]. cbn [heap_remove]. rewrite cnt_cons. change (hasid i x) with (Nat.eqb (id x) i).
  destruct (Nat.eqb (id x) i) eqn:E; [reflexivity|]. rewrite cnt_cons. change (hasid i x) with (Nat.eqb (id x) i). rewrite E. cbn. exact IH.
Qed.
Lemma in_heap_cnt i l : in_heap i l = (0 <? cnt (hasid i) l)%nat.
Proof.
  induction l as [|x l IH]; [reflexivity|]. unfold in_heap in *. cbn [existsb]. rewrite cnt_cons, IH.
  change (hasid i x) with (Nat.eqb (id x) i). destruct (Nat.eqb (id x) i); cbn; reflexivity.
Qed.
Lemma nodup_of_cnt (l : list timer) : (forall j, cnt (hasid j) l <= 1)%nat -> NoDup (map id l).
Proof.
  induction l as [|x l IH]; intros H; cbn [map]; constructor.
  - intros Hin. apply in_map_iff in Hin. destruct Hin as [y [Hy Hin]].
    specialize (H (id x)). rewrite cnt_cons in H. change (hasid (id x) x) with (Nat.eqb (id x) (id x)) in H. rewrite Nat.eqb_refl in H.
    assert (0 < cnt (hasid (id x)) l)%nat by (eapply cnt_in_pos; [exact Hin | unfold hasid; rewrite Hy; apply Nat.eqb_refl]).
    cbn in H. lia.
  - apply IH. intros j. specialize (H j). rewrite cnt_cons in H. lia.
Qed.

(* ---- upd ----------------------------------------------------------------------------------------- *)
Lemma upd_same f i o : upd f i o i = o.
Proof. unfold upd. rewrite Nat.eqb_refl. reflexivity. Qed.
Lemma upd_other f i o j : j <> i -> upd f i o j = f j.
Proof. intros H. unfold upd. apply Nat.eqb_neq in H. rewrite H. reflexivity. Qed.

Global Arguments cnt : simpl never.

(* ======================================================================================= *)


(* ---- what one operation sees of the state -------------------------------------------------------- *)
Definition isop (j : nat) (it : item) : bool := match it with Op i => Nat.eqb i j | Starter => false end.
Definition isstarter (it : item) : bool := match it with Starter => true | Op _ => false end.
Definition ists (j : nat) (t : task) : bool := match t with TStart i => Nat.eqb i j | _ => false end.
Definition istr (j : nat) (t : task) : bool := match t with TReqStop i => Nat.eqb i j | _ => false end.
Definition allq (s : st) : list item := pend s ++ lq s ++ rq s.
Definition cq (j : nat) (s : st) : nat := cnt (isop j) (allq s).
Definition cS (s : st) : nat := cnt isstarter (allq s).
Definition chp (j : nat) (s : st) : nat := cnt (hasid j) (heap s).
Definition ct (j : nat) (s : st) : nat := cnt (ists j) (todo s).
Definition ctr (j : nat) (s : st) : nat := cnt (istr j) (todo s).

Inductive pcv := VNone | VStartLd | VStartReg | VSet | VStopUnreg | VStopLd
| VDereg (r : bool) | VDeregWait (r : bool) | VValLd | VRemLd | VComplete (v : bool).

Definition sel (i j : nat) (v : pcv) : pcv := if Nat.eqb i j then v else VNone.
Definition view_pc (j : nat) (p : ipc_t) : pcv :=
  match p with
  | PStartLd i => sel i j VStartLd
  | PStartReg i => sel i j VStartReg
  | PSet i => sel i j VSet
  | PStopUnreg i => sel i j VStopUnreg
  | PStopLd i => sel i j VStopLd
  | PDereg i r => sel i j (VDereg r)
  | PDeregWait i r => sel i j (VDeregWait r)
  | PValLd i => sel i j VValLd
  | PRemLd i => sel i j VRemLd
  | PComplete i v => sel i j (VComplete v)
  | _ => VNone
  end.

Record view := mkv { vp : pcv; vo : opst; vq : nat; vh : nat; vt : nat; vtr : nat; vS : nat }.
Definition view_of (p : ipc_t) (s : st) (j : nat) : view :=
  mkv (view_pc j p) (ops s j) (cq j s) (chp j s) (ct j s) (ctr j s) (cS s).

Inductive phase :=
| PhA | PhB | PhC | PhD | PhE | PhF | PhF2 | PhG | PhH | PhI | PhJ
| PhK1 | PhK2 | PhK3 | PhL1 | PhL2 | PhL3 | PhM1 | PhM2 | PhM3 | PhP | PhN.

Definition restb (p : pcv) : bool := match p with VNone | VSet => true | _ => false end.
Definition kidleb (k : kpc_t) : bool := match k with KInit | KDone => true | _ => false end.
Definition cbdeadb (c : cb_t) : bool := match c with CbNone | CbInline | CbGone => true | _ => false end.
Definition started (v : view) : Prop :=
  vt v = 0%nat /\ (is_local (vo v) = true -> vS v = 0%nat) /\ (is_local (vo v) = false -> spc (vo v) <> SInit).
Definition fresh (o : opst) : Prop :=
  elapsed o = false /\ cpend o = false /\ cb o = CbNone /\ ncomp o = 0%nat /\ kidleb (kpc o) = true.
(* the stop callback while the operation is reaped and queued with maybe_complete_with_value: a function
   of where the remote stopper is *)
Definition jcb (k : kpc_t) : cb_t := match k with KInit => CbLinked | KDone => CbCompleted | _ => CbRunR end.
Definition jst (k : kpc_t) : bool := match k with KInit => false | _ => true end.
Definition jcp (k : kpc_t) : bool := match k with KInit | KFetch => false | _ => true end.
Definition jkb (k : kpc_t) : bool := match k with KPush | KWrite => false | _ => true end.
Definition jstate (o : opst) : Prop :=
  cb o = jcb (kpc o) /\ stopped o = jst (kpc o) /\ cpend o = jcp (kpc o) /\ jkb (kpc o) = true.
Definition jwb (k : kpc_t) : bool := match k with KFetch | KCompl | KDone => true | _ => false end.
(* remote cancellation elected: the callback until the completion is scheduled and run *)
Definition mcb (k : kpc_t) : cb_t := match k with KDone => CbCompleted | _ => CbRunR end.
Definition mkb (k : kpc_t) : bool := match k with KWrite | KCompl | KDone => true | _ => false end.
Definition k2b (k : kpc_t) : bool := match k with KWrite | KCompl => true | _ => false end.
(* still in the heap or already reaped *)
Definition halt (v : view) : Prop := vh v = b2n (negb (elapsed (vo v))).
Definition halt2 (v : view) : Prop := vh v = b2n (negb (elapsed (vo v))) /\ vq v = b2n (elapsed (vo v)).
Definition pcomp (p : pcv) (o : opst) : Prop :=
  match p with VComplete b => (if b then elapsed o else stopped o) = true | _ => False end.

Definition phase_ok (ph : phase) (v : view) : Prop :=
  let o := vo v in
  match ph with
  | PhA => restb (vp v) = true /\ fn o = FnNull /\ vq v = 0%nat /\ vh v = 0%nat /\ fresh o /\ spc o = SInit /\
           (if is_local o then (vS v + vt v = 1)%nat else vt v = 0%nat)
  | PhB => restb (vp v) = true /\ fn o = FnStart /\ vq v = 1%nat /\ vh v = 0%nat /\ fresh o /\ started v
  | PhC => vp v = VStartLd /\ fn o = FnNull /\ vq v = 0%nat /\ vh v = 0%nat /\ fresh o /\ started v
  | PhD => vp v = VStartReg /\ fn o = FnValue /\ vq v = 0%nat /\ vh v = 1%nat /\ fresh o /\ started v
  | PhE => vp v = VStopLd /\ fn o = FnDone /\ vq v = 0%nat /\ vh v = 1%nat /\ elapsed o = false /\ cpend o = false /\
           cb o = CbInline /\ ncomp o = 0%nat /\ kidleb (kpc o) = true /\ stopped o = true /\ started v
  | PhF => restb (vp v) = true /\ fn o = FnValue /\ vq v = 0%nat /\ vh v = 1%nat /\ elapsed o = false /\ cpend o = false /\
           cb o = CbLinked /\ ncomp o = 0%nat /\ kpc o = KInit /\ stopped o = false /\ started v
  | PhF2 => restb (vp v) = true /\ fn o = FnValue /\ vq v = 0%nat /\ vh v = 1%nat /\ elapsed o = false /\ cpend o = false /\
           cb o = CbRunR /\ ncomp o = 0%nat /\ kpc o = KFetch /\ stopped o = true /\ started v
  | PhG => vp v = VStopUnreg /\ fn o = FnValue /\ halt2 v /\ cpend o = false /\
           cb o = CbLinked /\ ncomp o = 0%nat /\ kpc o = KInit /\ stopped o = true /\ started v
  | PhH => vp v = VStopLd /\ fn o = FnDone /\ halt2 v /\ cpend o = false /\
           cb o = CbGone /\ ncomp o = 0%nat /\ kpc o = KInit /\ stopped o = true /\ started v
  | PhI => restb (vp v) = true /\ fn o = FnDone /\ vq v = 1%nat /\ vh v = 0%nat /\ cpend o = false /\
           cbdeadb (cb o) = true /\ ncomp o = 0%nat /\ kidleb (kpc o) = true /\ stopped o = true /\ started v
  | PhJ => restb (vp v) = true /\ fn o = FnValue /\ vq v = 1%nat /\ vh v = 0%nat /\ elapsed o = true /\
           jstate o /\ ncomp o = 0%nat /\ started v
  | PhK1 => restb (vp v) = true /\ fn o = FnRemove /\ vq v = 0%nat /\ halt v /\ cpend o = true /\ stopped o = true /\
           cb o = CbRunR /\ kpc o = KPush /\ ncomp o = 0%nat /\ started v
  | PhK2 => restb (vp v) = true /\ fn o = FnRemove /\ vq v = 1%nat /\ halt v /\ cpend o = true /\ stopped o = true /\
           cb o = CbRunR /\ k2b (kpc o) = true /\ ncomp o = 0%nat /\ started v
  | PhK3 => restb (vp v) = true /\ fn o = FnRemove /\ vq v = 1%nat /\ halt v /\ cpend o = true /\ stopped o = true /\
           cb o = CbCompleted /\ kpc o = KDone /\ ncomp o = 0%nat /\ started v
  | PhL1 => vp v = VDereg false /\ fn o = FnNull /\ vq v = 0%nat /\ vh v = 0%nat /\ elapsed o = true /\
           jstate o /\ ncomp o = 0%nat /\ started v
  | PhL2 => vp v = VDeregWait false /\ fn o = FnNull /\ vq v = 0%nat /\ vh v = 0%nat /\ elapsed o = true /\
           jstate o /\ jwb (kpc o) = true /\ ncomp o = 0%nat /\ started v
  | PhL3 => vp v = VValLd /\ fn o = FnNull /\ vq v = 0%nat /\ vh v = 0%nat /\ elapsed o = true /\
           cb o = CbGone /\ kidleb (kpc o) = true /\ ncomp o = 0%nat /\ started v
  | PhM1 => vp v = VDereg true /\ fn o = FnNull /\ vq v = 0%nat /\ halt v /\ cpend o = true /\ stopped o = true /\
           cb o = mcb (kpc o) /\ mkb (kpc o) = true /\ ncomp o = 0%nat /\ started v
  | PhM2 => vp v = VDeregWait true /\ fn o = FnNull /\ vq v = 0%nat /\ halt v /\ cpend o = true /\ stopped o = true /\
           cb o = mcb (kpc o) /\ mkb (kpc o) = true /\ ncomp o = 0%nat /\ started v
  | PhM3 => vp v = VRemLd /\ fn o = FnNull /\ vq v = 0%nat /\ halt v /\ cpend o = true /\ stopped o = true /\
           cb o = CbGone /\ kpc o = KDone /\ ncomp o = 0%nat /\ started v
  | PhP => pcomp (vp v) o /\
           fn o = FnNull /\ vq v = 0%nat /\ vh v = 0%nat /\ cbdeadb (cb o) = true /\ kidleb (kpc o) = true /\ ncomp o = 0%nat /\ started v
  | PhN => restb (vp v) = true /\ fn o = FnNull /\ vq v = 0%nat /\ vh v = 0%nat /\ cbdeadb (cb o) = true /\ kidleb (kpc o) = true /\
           ncomp o = 1%nat /\ started v
  end.

Definition byb (p : pcv) (c : cb_t) : bool :=
  match p with VSet | VStopUnreg => true | VStopLd => match c with CbGone => true | _ => false end | _ => false end.
Definition isby (k : kmode) : bool := match k with KBy _ => true | _ => false end.
Definition kinitb (k : kpc_t) : bool := match k with KInit => true | _ => false end.
Definition common (v : view) : Prop :=
  let o := vo v in
  enq o = vq v /\
  (kinitb (kpc o) = false -> o_stop o = KRemote) /\
  (byb (vp v) (cb o) || (0 <? vtr v)%nat = true -> isby (o_stop o) = true) /\
  (is_local o = true -> spc o = SInit).

Definition opok (v : view) : Prop := common v /\ exists ph, phase_ok ph v.

(* pcs at which the I/O thread is not inside an item *)
Definition global_pc (p : ipc_t) : bool :=
  match p with PNow | PPop _ | PArm _ | PRq | PWait | PRdEv _ | PRdTm => true | _ => false end.

Definition InvP (p : ipc_t) (s : st) : Prop :=
  (forall j, opok (view_of p s j)) /\
  sorted_due (heap s) /\
  Forall (fun x => due x = o_due (ops s (id x))) (heap s) /\
  (global_pc p = true -> todo s = [] /\ pend s = []) /\
  (forall tn, p = PPop tn -> tn <= now s) /\
  (forall j, elapsed (ops s j) = true -> o_due (ops s j) <= now s) /\
  (forall j, (nops s <= j)%nat -> is_local (ops s j) = false) /\
  (inactive s = true -> rq s = []) /\
  bad s = false.

Definition Inv (s : st) : Prop := InvP (ipc s) s.

(* ======================================================================================= *)


Lemma isop_same i : isop i (Op i) = true. Proof. cbn. apply Nat.eqb_refl. Qed.
Lemma isop_neq i j : j <> i -> isop j (Op i) = false. Proof. intros H. cbn. apply Nat.eqb_neq. congruence. Qed.
Lemma sel_same i v : sel i i v = v. Proof. unfold sel. now rewrite Nat.eqb_refl. Qed.
Lemma sel_neq i j v : j <> i -> sel i j v = VNone. Proof. intros H. unfold sel. replace (Nat.eqb i j) with false; [reflexivity|]. symmetry. apply Nat.eqb_neq. congruence. Qed.
Lemma ists_same i : ists i (TStart i) = true. Proof. cbn. apply Nat.eqb_refl. Qed.
Lemma ists_neq i j : j <> i -> ists j (TStart i) = false. Proof. intros H. cbn. apply Nat.eqb_neq. congruence. Qed.
Lemma istr_same i : istr i (TReqStop i) = true. Proof. cbn. apply Nat.eqb_refl. Qed.
Lemma istr_neq i j : j <> i -> istr j (TReqStop i) = false. Proof. intros H. cbn. apply Nat.eqb_neq. congruence. Qed.
Lemma hasid_same i d : hasid i (d, i) = true. Proof. unfold hasid. cbn. apply Nat.eqb_refl. Qed.
Lemma hasid_neq i j d : j <> i -> hasid j (d, i) = false. Proof. intros H. unfold hasid. cbn. apply Nat.eqb_neq. congruence. Qed.

Definition OK (p : ipc_t) (s : st) : Prop := (forall j, opok (view_of p s j)) /\ bad s = false.
(* the phase-independent part *)
Definition InvQ (s : st) : Prop :=
  (global_pc (ipc s) = true -> todo s = [] /\ pend s = []) /\ (inactive s = true -> rq s = []).

Lemma ok_update p p' s s' i :
  (forall j, j <> i -> view_of p' s' j = view_of p s j) ->
  opok (view_of p' s' i) -> bad s' = false -> OK p s -> OK p' s'.
Proof.
  intros Hf Hi Hb [Ho _]. split; [|exact Hb]. intros j.
  destruct (Nat.eq_dec j i) as [->|Hne]; [exact Hi|]. rewrite (Hf j Hne). apply Ho.
Qed.

Ltac vunfold := unfold view_of, cq, cS, chp, ct, ctr, allq in *.
Ltac csimp := rewrite ?cnt_app, ?cnt_cons, ?cnt_nil, ?cnt_rev, ?cnt_heap_insert, ?isop_same, ?ists_same, ?istr_same, ?hasid_same, ?upd_same, ?sel_same in *.
Lemma eqb_neq1 i j : j <> i -> Nat.eqb i j = false. Proof. intros. apply Nat.eqb_neq. congruence. Qed.
Lemma eqb_neq2 i j : j <> i -> Nat.eqb j i = false. Proof. intros. apply Nat.eqb_neq. congruence. Qed.
Ltac nsimp := rewrite ?isop_neq, ?ists_neq, ?istr_neq, ?hasid_neq, ?sel_neq, ?upd_other, ?eqb_neq1, ?eqb_neq2 in * by congruence.
Ltac vcbn := unfold view_of in *; cbn [vp vo vq vh vt vtr vS] in *.
Ltac dand := repeat match goal with H : _ /\ _ |- _ => destruct H end.
Ltac unfold_preds := unfold started, fresh, jstate, halt, halt2, common in *; vcbn.
Ltac osimp := unfold is_local, is_remote_stop, stopped_by, stw in *; cbn in *.

(* rewrite the known values of the operation's fields everywhere, evaluate *)
Ltac imps := repeat match goal with
  | H : ?a = ?b -> _, H' : ?a = ?b |- _ => specialize (H H')
  | H : ?a = ?a -> _ |- _ => specialize (H eq_refl)
  end.
Ltac rwf :=
  repeat match goal with
  | H : fn _ = _ |- _ => rewrite H in *
  | H : kpc _ = _ |- _ => rewrite H in *
  | H : spc _ = _ |- _ => rewrite H in *
  | H : cb _ = _ |- _ => rewrite H in *
  | H : elapsed _ = _ |- _ => rewrite H in *
  | H : cpend _ = _ |- _ => rewrite H in *
  | H : stopped _ = _ |- _ => rewrite H in *
  | H : view_pc _ _ = _ |- _ => rewrite H in *
  | H : match o_start _ with SLocal => _ | SRemote => _ end = _ |- _ => rewrite H in *
  end; cbn in *; imps.

Ltac rwg :=
  repeat match goal with
  | H : fn _ = _ |- _ => rewrite H
  | H : kpc _ = _ |- _ => rewrite H
  | H : spc _ = _ |- _ => rewrite H
  | H : cb _ = _ |- _ => rewrite H
  | H : elapsed _ = _ |- _ => rewrite H
  | H : cpend _ = _ |- _ => rewrite H
  | H : stopped _ = _ |- _ => rewrite H
  | H : view_pc _ _ = _ |- _ => rewrite H
  | H : match o_start _ with SLocal => _ | SRemote => _ end = _ |- _ => rewrite H
  end; cbn.
Ltac phases H :=
  let Hcom := fresh "Hcom" in let ph := fresh "ph" in let Hph := fresh "Hph" in
  destruct H as [Hcom [ph Hph]]; destruct ph; cbn [phase_ok] in Hph; unfold_preds; dand;
  repeat match goal with H : pcomp ?p _ |- _ =>
    let E := fresh "Evp" in destruct p as [| | | | | | | | | |[|]] eqn:E; cbn in H; try contradiction end.
(* a phase that contradicts what is known about the operation *)
Ltac kill := try (exfalso; osimp; rwf; first [discriminate | congruence | lia]).

Ltac fin1 := first [assumption | reflexivity | discriminate | congruence | lia | solve [auto 3]].
Ltac fin2 := match goal with |- context[if ?b then _ else _] => destruct b end; fin1.
Ltac fin := repeat split; intros; try first [fin1 | fin2].
Ltac pickph ph := apply (ex_intro _ ph); cbn [phase_ok]; unfold_preds; unfold is_local; cbn; rwg.
Ltac try_phase ph := solve [pickph ph; fin].
Ltac auto_phase :=
  first [ try_phase PhA | try_phase PhB | try_phase PhC | try_phase PhD | try_phase PhE | try_phase PhF | try_phase PhF2
        | try_phase PhG | try_phase PhH | try_phase PhI | try_phase PhJ | try_phase PhK1 | try_phase PhK2 | try_phase PhK3
        | try_phase PhL1 | try_phase PhL2 | try_phase PhL3 | try_phase PhM1 | try_phase PhM2 | try_phase PhM3
        | try_phase PhP | try_phase PhN ].
(* goal: opok of the view of the operation; context: its old phase facts *)
Ltac prep := unfold opok, common; vunfold; cbn; csimp; cbn; osimp; rwf.
Ltac newop := prep; split; [fin | auto_phase].

(* frame: the view of every other operation is unchanged *)
Ltac nsimpg := rewrite ?isop_neq, ?ists_neq, ?istr_neq, ?hasid_neq, ?sel_neq, ?upd_other, ?eqb_neq1, ?eqb_neq2 by congruence.
Ltac rwl := repeat match goal with
  | H : pend _ = _ |- _ => rewrite H
  | H : lq _ = _ |- _ => rewrite H
  | H : rq _ = _ |- _ => rewrite H
  | H : todo _ = _ |- _ => rewrite H
  | H : heap _ = _ |- _ => rewrite H
  end.
Ltac frame :=
  let j := fresh "j" in let Hne := fresh "Hne" in
  intros j Hne; vunfold; cbn; rwl; csimp; nsimpg; cbn; nsimpg; cbn; try reflexivity; try (f_equal; lia).

Lemma start_pres s i s' evs : InvQ s -> OK (ipc s) s -> step_start i s = Some (s', evs) -> OK (ipc s') s'.
Proof.
  intros [_ Hina] HI Hs. unfold step_start in Hs.
  destruct (is_local (ops s i)) eqn:Eloc; [discriminate|].
  pose proof (proj1 HI i) as Hi. destruct HI as [Hops Hbad].
  assert (Hrq: (if inactive s then [] else rq s) = rq s) by (destruct (inactive s); [rewrite (Hina eq_refl)|]; reflexivity).
  destruct (spc (ops s i)) eqn:Espc.
  - unfold rq_push in Hs. cbn in Hs. rewrite ?upd_same in Hs. cbn in Hs. rewrite Hrq in Hs.
    phases Hi; kill.
    replace (enq (ops s i)) with 0%nat in Hs by congruence. cbn in Hs. injection Hs as <- _. cbn [ipc set_ops upd_op set_rq].
    eapply ok_update with (i := i); [frame | | cbn; assumption | split; eassumption].
    clear Hops. newop.
  - injection Hs as <- _. cbn [ipc set_ops upd_op set_efd].
    eapply ok_update with (i := i); [frame | | cbn; assumption | split; eassumption].
    clear Hops. phases Hi; kill; newop.
  - discriminate.
Qed.

Lemma stop_pres s i s' evs : InvQ s -> OK (ipc s) s -> step_stop i s = Some (s', evs) -> OK (ipc s') s'.
Proof.
  intros [_ Hina] HI Hs. unfold step_stop in Hs.
  destruct (is_remote_stop (ops s i)) eqn:Ers; [|discriminate]. cbn in Hs.
  pose proof (proj1 HI i) as Hi. destruct HI as [Hops Hbad].
  assert (Hrq: (if inactive s then [] else rq s) = rq s) by (destruct (inactive s); [rewrite (Hina eq_refl)|]; reflexivity).
  assert (Hkrem: o_stop (ops s i) = KRemote) by (unfold is_remote_stop in Ers; destruct (o_stop (ops s i)); (discriminate || reflexivity)).
  assert (Hnby: isby (o_stop (ops s i)) = false) by (unfold is_remote_stop in Ers; destruct (o_stop (ops s i)); (discriminate || reflexivity)).
  destruct (kpc (ops s i)) eqn:Ek.
  - (* KInit *)
    destruct (stopped (ops s i)) eqn:Est.
    + injection Hs as <- _. cbn [ipc set_ops upd_op].
      eapply ok_update with (i := i); [frame | | cbn; assumption | split; eassumption].
      clear Hops. phases Hi; kill; newop.
    + destruct (cb (ops s i)) eqn:Ecb; injection Hs as <- _; cbn [ipc set_ops upd_op];
        (eapply ok_update with (i := i); [frame | | cbn; assumption | split; eassumption]);
        clear Hops; phases Hi; kill; newop.
  - (* KFetch *)
    assert (Hcp: cpend (ops s i) = false) by (clear Hops; phases Hi; kill; rwf; congruence).
    rewrite Hcp in Hs. cbn in Hs.
    destruct (elapsed (ops s i)) eqn:Eel; injection Hs as <- _; cbn [ipc set_ops upd_op];
      (eapply ok_update with (i := i); [frame | | cbn; assumption | split; eassumption]);
      clear Hops; phases Hi; kill; newop.
  - (* KPush *)
    unfold rq_push in Hs. cbn in Hs. rewrite ?upd_same in Hs. cbn in Hs. rewrite Hrq in Hs.
    assert (Hz: enq (ops s i) = 0%nat /\ fn (ops s i) = FnRemove) by (clear Hops; phases Hi; kill; rwf; split; congruence).
    destruct Hz as [Hz1 Hz2]. rewrite Hz1, Hz2 in Hs. cbn in Hs. injection Hs as <- _. cbn [ipc set_ops upd_op set_rq].
    eapply ok_update with (i := i); [frame | | cbn; assumption | split; eassumption].
    clear Hops; phases Hi; kill; newop.
  - (* KWrite *)
    injection Hs as <- _. cbn [ipc set_ops upd_op set_efd].
    eapply ok_update with (i := i); [frame | | cbn; assumption | split; eassumption].
    clear Hops; phases Hi; kill; newop.
  - (* KCompl *)
    injection Hs as <- _. cbn [ipc set_ops upd_op].
    eapply ok_update with (i := i); [frame | | cbn; assumption | split; eassumption].
    clear Hops; phases Hi; kill; newop.
  - discriminate.
Qed.

(* ======================================================================================= *)


Definition novp (p : ipc_t) : Prop := forall j, view_pc j p = VNone.

Lemma novp_global p : global_pc p = true -> novp p.
Proof. intros H j. destruct p; cbn in H; try discriminate; reflexivity. Qed.
Lemma novp_crash : novp PCrash. Proof. intros j. reflexivity. Qed.

(* the fields the views are made of *)
Definition same_views (s s' : st) : Prop :=
  ops s' = ops s /\ heap s' = heap s /\ todo s' = todo s /\ pend s' = pend s /\ lq s' = lq s /\ rq s' = rq s /\ bad s' = bad s.

Lemma ok_same p p' s s' : novp p -> novp p' -> same_views s s' -> OK p s -> OK p' s'.
Proof.
  intros Hp Hp' (E1 & E2 & E3 & E4 & E5 & E6 & E7) [Ho Hb]. split; [|congruence].
  intros j. specialize (Ho j). unfold view_of, cq, cS, chp, ct, ctr, allq in *.
  rewrite E1, E2, E3, E4, E5, E6, Hp'. rewrite Hp in Ho. exact Ho.
Qed.

Lemma sv_refl s : same_views s s. Proof. repeat split. Qed.
Lemma sv_ipc s q : same_views s (set_ipc s q). Proof. repeat split. Qed.
Lemma sv_dirty s b : same_views s (set_dirty s b). Proof. repeat split. Qed.
Lemma sv_trans a b c : same_views a b -> same_views b c -> same_views a c.
Proof. unfold same_views. intuition congruence. Qed.

Lemma after_update_sv s : same_views s (after_update s) /\ global_pc (ipc (after_update s)) = true.
Proof. unfold after_update. destruct (rqsub s); split; try apply sv_ipc; reflexivity. Qed.

Lemma arm_logic_sv s : same_views s (arm_logic s) /\ global_pc (ipc (arm_logic s)) = true.
Proof.
  unfold arm_logic. destruct (heap s) as [|x h]; destruct (curdue s) as [c|]; try (split; [apply sv_ipc|reflexivity]);
    try apply after_update_sv.
  destruct (due x <? c - 1); [split; [apply sv_ipc|reflexivity]|].
  destruct (after_update_sv (set_dirty s false)) as [A B]. split; [|exact B].
  eapply sv_trans; [apply (sv_dirty s false)|exact A].
Qed.

Lemma pop_logic_sv s tn : same_views s (pop_logic s tn) /\ global_pc (ipc (pop_logic s tn)) = true.
Proof.
  unfold pop_logic. destruct (heap s) as [|x h]; [apply arm_logic_sv|].
  destruct (due x <=? tn); [split; [apply sv_ipc|reflexivity]|apply arm_logic_sv].
Qed.

Lemma leave_batch_sv s : same_views s (leave_batch s) /\ global_pc (ipc (leave_batch s)) = true.
Proof.
  unfold leave_batch. destruct (dirty s); [|apply after_update_sv].
  destruct (heap s); [apply arm_logic_sv|split; [apply sv_ipc|reflexivity]].
Qed.

Lemma ok_global s s' : same_views s s' -> global_pc (ipc s') = true -> OK PCrash s -> OK (ipc s') s'.
Proof. intros Hsv Hg. apply ok_same; [apply novp_crash | apply novp_global; exact Hg | exact Hsv]. Qed.

Ltac upd1 p s i HI := eapply (ok_update p _ s _ i); [frame | | cbn; try assumption | exact HI].

Lemma exec_op_ok s0 i r : pend s0 = Op i :: r -> OK PCrash s0 ->
  OK (ipc (exec_op (set_pend s0 r) i)) (exec_op (set_pend s0 r) i).
Proof.
  intros Hp HI. pose proof (proj1 HI i) as Hi. pose proof (proj2 HI) as Hbad.
  assert (Hq: (1 <= cq i s0)%nat) by (unfold cq, allq; rewrite Hp; csimp; cbn; lia).
  assert (Hv: view_pc i PCrash = VNone) by reflexivity.
  unfold exec_op. cbn [ops set_pend].
  phases Hi; kill; rwf.
  - (* B: on_schedule_complete *)
    cbn [ipc set_ipc]. upd1 PCrash s0 i HI. vunfold. rewrite Hp in *. newop.
  - (* I: complete_with_done *)
    cbn [ipc set_ipc]. upd1 PCrash s0 i HI. vunfold. rewrite Hp in *. newop.
  - (* J: maybe_complete_with_value *)
    destruct (kpc (ops s0 i)) eqn:Ek; cbn in *; try discriminate; rwf; unfold after_dereg; cbn [ipc set_ipc];
      (upd1 PCrash s0 i HI; vunfold; rewrite Hp in *; newop).
  - (* K2 *)
    destruct (kpc (ops s0 i)) eqn:Ek; cbn in *; try discriminate; rwf; unfold after_dereg; cbn [ipc set_ipc];
      (upd1 PCrash s0 i HI; vunfold; rewrite Hp in *; newop).
  - (* K3 *)
    unfold after_dereg; cbn [ipc set_ipc]. upd1 PCrash s0 i HI. vunfold. rewrite Hp in *. newop.
Qed.

(* set_pend does not change what run_pending looks at *)
Lemma run_pending_setpend s p q : run_pending (set_pend s q) p = run_pending s p.
Proof.
  revert s q. induction p as [|x r IH]; intros s q; cbn [run_pending].
  - reflexivity.
  - destruct x; [|reflexivity]. unfold locals. cbn [ops nops set_pend]. fold (locals s).
    destruct (locals s); [apply IH|reflexivity].
Qed.

Lemma NoDup_filter {A} (f : A -> bool) l : NoDup l -> NoDup (filter f l).
Proof.
  induction 1 as [|x l Hx Hn IH]; cbn; [constructor|].
  destruct (f x); [constructor; [|exact IH]|exact IH]. intros Hin. apply filter_In in Hin. tauto.
Qed.
Lemma locals_nodup s : NoDup (locals s).
Proof. unfold locals. apply NoDup_filter. apply seq_NoDup. Qed.
Lemma cnt_ts_notin j ls : ~ In j ls -> cnt (ists j) (map TStart ls) = 0%nat.
Proof.
  induction ls as [|x ls IH]; intros H; [reflexivity|]. cbn [map]. rewrite cnt_cons, IH by (intros X; apply H; right; exact X).
  cbn. replace (Nat.eqb x j) with false; [reflexivity|]. symmetry. apply Nat.eqb_neq. intros ->. apply H. left. reflexivity.
Qed.
Lemma cnt_ts_in j ls : NoDup ls -> In j ls -> cnt (ists j) (map TStart ls) = 1%nat.
Proof.
  induction 1 as [|x ls Hx Hn IH]; intros Hin; [destruct Hin|]. cbn [map]. rewrite cnt_cons.
  destruct Hin as [->|Hin].
  - rewrite cnt_ts_notin by exact Hx. cbn. rewrite Nat.eqb_refl. reflexivity.
  - rewrite IH by exact Hin. cbn. replace (Nat.eqb x j) with false; [reflexivity|]. symmetry. apply Nat.eqb_neq. intros ->. contradiction.
Qed.
Lemma cnt_tr_ts j ls : cnt (istr j) (map TStart ls) = 0%nat.
Proof. induction ls as [|x ls IH]; [reflexivity|]. cbn [map]. rewrite cnt_cons, IH. reflexivity. Qed.

(* every operation that is started by the Starter item is listed *)
Definition locals_complete (s : st) : Prop := forall j, is_local (ops s j) = true -> In j (locals s).

Lemma opok_vS v S' : is_local (vo v) = false -> opok v -> opok (mkv (vp v) (vo v) (vq v) (vh v) (vt v) (vtr v) S').
Proof.
  intros Hnl [Hc [ph Hph]]. split; [exact Hc|]. exists ph.
  destruct ph; cbn [phase_ok] in *; unfold started, halt, halt2, fresh, jstate in *; cbn [vp vo vq vh vt vtr vS] in *; rewrite ?Hnl in *;
    repeat split; try tauto; try (intros; congruence).
Qed.

